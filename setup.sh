#!/bin/sh
# Build the framework from files on disk only (offline).
set -e
cd "$(dirname "$0")"
export GOFLAGS=-mod=mod GOPROXY=off CGO_ENABLED=0
mkdir -p bin evidence replays
(cd tools/extract && go build -o ../../bin/extract .)
REPO=${VERIF_REPO:-/repo}
./bin/extract $REPO "$(pwd)/lean/Bolt/Gen"
# the model driver is needed by every check; the proofs are pre-built only to save time later:
# each check rebuilds and audits its own modules and REPORTS a proof or regenerated fact that no
# longer holds for the source it is pointed at, so a failure here must not stop the setup
(cd lean && lake build boltmodel)
(cd lean && lake build Bolt) || echo "setup: lake build Bolt reported errors; the checks will report them per property"
[ "$REPO" != /repo ] && (cd harness && go mod edit -replace=go.etcd.io/bbolt=$REPO)
cp $REPO/go.sum harness/go.sum
(cd harness && go build -tags verif -o ../bin/vh .)
(cd $REPO && go build -o "$OLDPWD/bin/bbolt" ./cmd/bbolt)
echo setup ok
