#!/bin/sh
# Build the framework from files on disk only (offline).
set -e
cd "$(dirname "$0")"
export GOFLAGS=-mod=mod GOPROXY=off CGO_ENABLED=0
mkdir -p bin evidence replays
(cd tools/extract && go build -o ../../bin/extract .)
REPO=${VERIF_REPO:-/repo}
./bin/extract $REPO "$(pwd)/lean/Bolt/Gen"
(cd lean && lake build Bolt boltmodel)
[ "$REPO" != /repo ] && (cd harness && go mod edit -replace=go.etcd.io/bbolt=$REPO)
cp $REPO/go.sum harness/go.sum
(cd harness && go build -tags verif -o ../bin/vh .)
(cd $REPO && go build -o "$OLDPWD/bin/bbolt" ./cmd/bbolt)
echo setup ok
