#!/bin/sh
# Build the framework from files on disk only (offline).
set -e
cd "$(dirname "$0")"
export GOFLAGS=-mod=mod GOPROXY=off CGO_ENABLED=0
mkdir -p bin evidence replays
(cd tools/extract && go build -o ../../bin/extract .)
./bin/extract /repo "$(pwd)/lean/Bolt/Gen"
(cd lean && lake build Bolt boltmodel)
cp /repo/go.sum harness/go.sum
(cd harness && go build -tags verif -o ../bin/vh .)
(cd /repo && go build -o /verif/bin/bbolt ./cmd/bbolt)
echo setup ok
