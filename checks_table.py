# Per-property configuration of ./check (engines, extra Lean modules, trusted base, partial notes).
PROPS = {
    "C11": {
        "engines": [("metafuzz",)],
        "trusted_base": ["hand model Bolt/Model/Meta.lean of getPageSize*/mmap/meta tied by exhaustive single-byte correspondence"],
        "assumptions": ["the file is read through a coherent mapping (mmap sees what pread sees)"],
        "partial": "",
        "claim": "Theorems (all files, all 64 byte positions, all replacement values, all page sizes 1024<<k, k<=14): any single-byte change of a meta struct invalidates it (FNV-1a step injectivity); DB.meta()/getPageSize/Open then select the other meta and still detect the page size; both damaged or a too-small file is an error. The model functions are run on the bytes of real files and compared with the real Open on every one of the 32 640 single-byte damages per file, plus torn prefixes, both-damaged, truncated and garbage files; the content presented is compared with the state recorded for the surviving meta.",
        "note": "Trusted: Lean kernel; hand model of Meta.Validate/DB.meta/getPageSize*/mmap (Bolt/Model/Meta.lean) tied by correspondence, constants/layout regenerated (Gen) and proved equal to the published v2 layout; CleanFile hypothesis (zero tail of page 0) is evaluated on every real file. Not modelled: mmap coherence, flock.",
    },
}
