# Per-property configuration of ./check (engines, extra Lean modules, trusted base, partial notes).
PROPS = {
    "C11": {
        "engines": [("metafuzz",)],
        "trusted_base": ["hand model Bolt/Model/Meta.lean of getPageSize*/mmap/meta tied by exhaustive single-byte correspondence"],
        "assumptions": ["the file is read through a coherent mapping (mmap sees what pread sees)"],
        "partial": "",
        "claim": "Theorems (all files, all 64 byte positions, all replacement values, all page sizes 1024<<k, k<=14): any single-byte change of a meta struct invalidates it (FNV-1a step injectivity); DB.meta()/getPageSize/Open then select the other meta and still detect the page size; both damaged or a too-small file is an error. The model functions are run on the bytes of real files and compared with the real Open on every one of the 32 640 single-byte damages per file, plus torn prefixes, both-damaged, truncated and garbage files; the content presented is compared with the state recorded for the surviving meta.",
        "note": "Trusted: Lean kernel; hand model of Meta.Validate/DB.meta/getPageSize*/mmap (Bolt/Model/Meta.lean) tied by correspondence, constants/layout regenerated (Gen) and proved equal to the published v2 layout; CleanFile hypothesis (zero tail of page 0) is evaluated on every real file. Not modelled: mmap coherence, flock.",
    },
    "C09": {
        "engines": [("flprog",)],
        "trusted_base": ["hand model Bolt/Model/Freelist.lean of internal/freelist/{shared,array,hashmap}.go, tied by allocator-only correspondence on both real backends (full state compared after every op)"],
        "assumptions": ["transaction ids stay below 2^64-1 (the tid+1 wrap at MaxUint64 is out of scope)",
                        "the hashmap backend's three indexes are modelled as one sorted list of maximal spans; Go map iteration order is a checked choice argument"],
        "partial": "",
        "claim": "18 theorems over the allocator model, for every state satisfying FLInv and every op sequence: Allocate returns the first id of n consecutive free pages (array: the lowest such run; hashmap: for every span the map iteration may pick) or 0 exactly when no run exists; never pages 0/1; Free makes the run pending and not allocatable; ReleasePendingPages releases a page only if no registered reader r has alloctx <= r < freeing txid, releases everything without readers, loses/duplicates nothing; Rollback restores the prior free and pending sets; Write/Read preserves free+pending for every length including >= 0xFFFF; both backends compute the same free list. The model is run op by op against both real backends (3000 random programs quick / 60000 thorough, whole allocator state compared after every op) and decidable monitors (allocOK, never01, freeNotReusable, releaseSafe, releaseLive, rollbackRestores, writeReadPreserves) are evaluated on the implementation's own state.",
        "note": "Trusted: Lean kernel; the hand-written allocator model (tied by correspondence only); verif export hooks reading the allocator state. Two defects found by this check were repaired (F8 reader at txid 0, F10 hashmap Init(empty) stale cache; see known_findings.json fixed).",
    },
    "C18": {
        "engines": [("maxsize",)],
        "extra_modules": ["Bolt.Props.GenC18"],
        "trusted_base": ["translator tools/extract: Gen.mmapSize/Gen.growSize are regenerated from db.go on every run (validated on a value grid against the real functions)",
                         "hand model Bolt/Model/Grow.lean of the allocate pre-check / remap / grow, tied by source-fragment facts (Props/GenC18) and by predicting file and mapping size of every real commit"],
        "assumptions": ["sync-grow mode on a non-Windows OS for the model's prediction (NoGrowSync runs are covered by the file-length monitor only)",
                        "Go int arithmetic does not overflow for sizes <= MaxMapSize (2^48)"],
        "partial": "",
        "claim": "Theorems over the regenerated mmapSize/growSize: for every page size, AllocSize, MaxSize (aligned or not), mapping size and every sequence of high-water-mark allocations of a commit accepted by the pre-check, the file length after grow is <= max(previous length, MaxSize); a rejected transaction fails before the file is touched; mmapSize(x) >= x. The pinned tree violated this (F7, witness theorem f7_witness, repaired by a fix: commit). The engine checks the translated functions against the real ones on ~3400 values, runs 40 (quick) / 600 (thorough) databases under random limits with the file-length, rejected-transaction-is-clean and still-usable monitors after every transaction, and compares the model's predicted file/mapping size with the real ones for every commit that allocates from the high-water mark.",
        "note": "Trusted: Lean kernel; translator; hand model of ~15 lines of allocate/grow tied by extracted source fragments + correspondence. Windows branch (GOOS == windows) not modelled.",
    },
}
