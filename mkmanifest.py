#!/usr/bin/env python3
"""Regenerates MANIFEST.json from checks_table.py (one entry per claimed property)."""
import json, subprocess
from checks_table import PROPS
ALL = ["C%02d" % i for i in range(1, 21)]
hooks_commits = subprocess.run(["git", "-C", "/repo", "log", "--format=%H %s"], capture_output=True, text=True).stdout.splitlines()
hooks_commits = [l.split()[0] for l in hooks_commits if l.split(" ", 1)[1].startswith("verif:")]
m = {
    "version": 1,
    "setup_cmd": "./setup.sh",
    "hooks": {
        "guard": "verif",
        "enable": "go build -tags verif (the harness module /verif/harness replaces go.etcd.io/bbolt => /repo)",
        "baseline_off_cmd": "cd /repo && go build ./... && go test -vet=off -count=1 -timeout 25m ./...",
        "source_commits": hooks_commits,
        "add_only": True,
    },
    "engines": [],
    "checks": [],
    "not_applicable": [],
    "notes": "Technique: machine-checked proof in Lean 4 over a model tied to /repo by a regenerating translator (tools/extract -> lean/Bolt/Gen) and a correspondence harness (harness/, build tag verif). See DESIGN.md.",
}
eng = {}
for pid in ALL:
    if pid in PROPS:
        c = PROPS[pid]
        for e in c["engines"]:
            eng.setdefault(e[0], []).append(pid)
        m["checks"].append({
            "property_id": pid,
            "quick_cmd": "./check %s --tier quick" % pid,
            "thorough_cmd": "./check %s --tier thorough" % pid,
            "evidence_file": "/verif/evidence/%s.json" % pid,
            "replay_cmd_template": "./check %s --replay {path}" % pid,
            "engine": "+".join(e[0] for e in c["engines"]) or "lean",
            "level_claimed": {"category": c.get("level", "proof"), "text": c["claim"], "design_ref": c.get("design_ref", "DESIGN.md §5 " + pid)},
            "level_note": c["note"],
            "technique": c.get("technique", "Lean 4 theorems over a model + correspondence check against the Go implementation"),
        })
    else:
        m["not_applicable"].append({"property_id": pid, "reason": "not claimed yet: model/theorems for this property are still being built (see DESIGN.md §9 build order)"})
for k, v in sorted(eng.items()):
    m["engines"].append({"name": k, "path": "/verif/harness", "serves_properties": v, "kind_free_text": "Go harness engine `vh %s` (real bbolt in-process, tag verif) piped to the Lean model driver" % k})
json.dump(m, open("MANIFEST.json", "w"), indent=1)
print("claimed:", [c["property_id"] for c in m["checks"]])
