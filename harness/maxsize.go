package main

import (
	"errors"
	"fmt"
	"math/rand"
	"os"
	"path/filepath"
	"strings"
	"time"

	bolt "go.etcd.io/bbolt"
	berrors "go.etcd.io/bbolt/errors"
)

// Engine maxsize (C18): (1) the translated `mmapSize`/`growSize` (Gen/Arith.lean) against
// the real functions on a dense grid and random values; (2) workloads under random limits
// (unaligned to page / chunk / map-size boundaries), page sizes, initial map sizes and
// allocation chunks: after every operation the file length is at most max(initial, MaxSize);
// a transaction hitting the limit fails with ErrMaxSizeReached, leaves the content and the
// page accounting untouched, and the database keeps working; the hand model `commitGrow`
// predicts file and mapping size of every commit from the observed high-water-mark
// allocations.

func init() { engines["maxsize"] = maxsizeEngine }

func maxsizeEngine() {
	start := time.Now()
	rep := newReport("maxsize")
	rep.Rule = "case = one pure-function evaluation, or one transaction under a size limit; non-trivial = the transaction allocates from the high-water mark; distinct by (parameters, inputs)"
	dir := tmpDir()
	defer os.RemoveAll(dir)
	rng := rand.New(rand.NewSource(*flagSeed))
	installHooks()

	// ---- (1) pure functions
	var lines, want []string
	for _, ps := range []int{1024, 4096, 16384, 65536} {
		path := filepath.Join(dir, fmt.Sprintf("pure%d.db", ps))
		db, err := bolt.Open(path, 0o600, &bolt.Options{PageSize: ps})
		if err != nil {
			rep.Notes = append(rep.Notes, err.Error())
			continue
		}
		var sizes []int
		for i := uint(10); i <= 47; i++ {
			for _, d := range []int{-1, 0, 1, 12345} {
				sizes = append(sizes, (1<<i)+d)
			}
		}
		for i := 0; i < 400; i++ {
			sizes = append(sizes, int(rng.Int63n(1<<uint(12+rng.Intn(37)))))
		}
		sizes = append(sizes, 0, 1, 0xFFFFFFFFFFFF, 0xFFFFFFFFFFFF+1, 0xFFFFFFFFFFFF-ps+1)
		for _, sz := range sizes {
			m, err := db.VerifMmapSize(sz)
			lines = append(lines, fmt.Sprintf("mmapSize %d %d", ps, sz))
			if err != nil {
				want = append(want, "none")
			} else {
				want = append(want, fmt.Sprintf("some %d", m))
			}
		}
		for i := 0; i < 300; i++ {
			db.AllocSize = []int{16 << 20, 1 << 20, 4096, 0, 12345}[rng.Intn(5)]
			a, b := int(rng.Int63n(1<<uint(10+rng.Intn(30)))), int(rng.Int63n(1<<uint(10+rng.Intn(30))))
			if rng.Intn(4) == 0 {
				a = db.AllocSize + rng.Intn(3) - 1
			}
			lines = append(lines, fmt.Sprintf("growSize %d %d %d", db.AllocSize, a, b))
			want = append(want, fmt.Sprint(db.VerifGrowSize(a, b)))
		}
		db.Close()
	}
	rep.Evaluations += len(lines)
	rep.count("pure")
	rep.Distribution["pure"] = len(lines)

	// ---- (2) workloads under limits
	nRuns := 40
	if *flagTier == "thorough" {
		nRuns = 600
	}
	for ri := 0; ri < nRuns; ri++ {
		ps := []int{1024, 4096, 4096, 16384}[rng.Intn(4)]
		maxSize := []int{64 << 10, 256 << 10, 1 << 20, 1<<20 + 12345, 3 << 20, 100000, 32768, 65536 + 1, 8 << 20}[rng.Intn(9)]
		initial := []int{0, 0, 32 << 10, 1 << 20, 8 << 20, 2 << 20, 100000}[rng.Intn(7)]
		alloc := []int{16 << 20, 16 << 20, 1 << 20, 64 << 10, 4096}[rng.Intn(5)]
		nogrow := rng.Intn(5) == 0
		fl := bolt.FreelistArrayType
		if rng.Intn(2) == 0 {
			fl = bolt.FreelistMapType
		}
		path := filepath.Join(dir, fmt.Sprintf("ms%d.db", ri))
		opts := &bolt.Options{PageSize: ps, MaxSize: maxSize, InitialMmapSize: initial, NoGrowSync: nogrow, FreelistType: fl, Timeout: time.Second}
		params := fmt.Sprintf("ps=%d MaxSize=%d InitialMmapSize=%d AllocSize=%d NoGrowSync=%v fl=%s", ps, maxSize, initial, alloc, nogrow, fl)
		db, err := bolt.Open(path, 0o600, opts)
		if err != nil {
			rep.count("open→" + errName(err))
			continue
		}
		db.AllocSize = alloc
		rep.Programs++
		fi, _ := os.Stat(path)
		initialLen := fi.Size()
		limit := int64(maxSize)
		if initialLen > limit {
			limit = initialLen
		}
		var history []string
		viol := func(sig, what string) {
			rep.violation("C18", "monitor", sig, what+" ["+params+"]", map[string]any{"params": params, "seed": *flagSeed, "run": ri, "history": history})
		}
		lastDump := dumpDB(db)
		for txi := 0; txi < 25; txi++ {
			nkeys := 1 + rng.Intn(40)
			vlen := []int{10, 100, 1000, 5000, 30000, 200000}[rng.Intn(6)]
			history = append(history, fmt.Sprintf("tx%d: %d keys x %d bytes", txi, nkeys, vlen))
			fiB, _ := os.Stat(path)
			dataszB := db.VerifDataSize()
			tr := &tracer{}
			curTracer = tr
			var hwm0 uint64
			err := db.Update(func(tx *bolt.Tx) error {
				_, _, _, _, hwm0 = tx.VerifMeta()
				b, err := tx.CreateBucketIfNotExists([]byte("b"))
				if err != nil {
					return err
				}
				for k := 0; k < nkeys; k++ {
					if err := b.Put([]byte(fmt.Sprintf("k%d-%d", txi%7, k)), []byte(strings.Repeat("v", vlen))); err != nil {
						return err
					}
				}
				if rng.Intn(4) == 0 {
					for k := 0; k < nkeys; k++ {
						_ = b.Delete([]byte(fmt.Sprintf("k%d-%d", (txi+3)%7, k)))
					}
				}
				return nil
			})
			curTracer = nil
			rep.Evaluations++
			rep.count("tx→" + errName(err))
			fiA, _ := os.Stat(path)
			// monitor fileLenOK
			if fiA.Size() > limit {
				viol("file-exceeds-maxsize", fmt.Sprintf("after tx %d (%s) the file is %d bytes long, limit max(initial %d, MaxSize %d)", txi, errName(err), fiA.Size(), initialLen, maxSize))
				break
			}
			// model prediction from the observed high-water-mark allocations
			var ms []string
			hwm := hwm0
			for _, l := range tr.buf {
				var n, id uint64
				if _, e := fmt.Sscanf(l, "alloc %d %d", &n, &id); e == nil && id == 0 {
					ms = append(ms, fmt.Sprint((hwm+n+1)*uint64(ps)))
					hwm += n
				}
			}
			if len(ms) > 0 {
				rep.Distinct++
				if !nogrow {
					lines = append(lines, fmt.Sprintf("commit %d %d %d %d %d %s", ps, alloc, maxSize, fiB.Size(), dataszB, strings.Join(ms, ",")))
					switch {
					case err == nil:
						want = append(want, fmt.Sprintf("ok %d %d", fiA.Size(), db.VerifDataSize()))
					case errors.Is(err, berrors.ErrMaxSizeReached):
						want = append(want, "err maxsize")
					default:
						want = append(want, "err other:"+err.Error())
					}
				}
			}
			if err != nil {
				if !errors.Is(err, berrors.ErrMaxSizeReached) {
					viol("tx-fails-with-other-error", fmt.Sprintf("tx %d failed with %v (expected success or ErrMaxSizeReached)", txi, err))
					break
				}
				// rejected: content and accounting untouched, database still usable
				if d := dumpDB(db); d != lastDump {
					viol("rejected-tx-changed-content", fmt.Sprintf("tx %d was rejected with ErrMaxSizeReached but the content changed", txi))
					break
				}
				if bad := checkDB(db); bad != "" {
					viol("rejected-tx-broke-accounting", fmt.Sprintf("tx %d was rejected, then Tx.Check reports: %s", txi, bad))
					break
				}
				// still usable: a writer can begin (the lock was released) and roll back; another
				// commit either succeeds or is rejected with the same size-limit error (even an
				// empty commit needs a new freelist page, which may not fit)
				if wtx, e2 := db.Begin(true); e2 != nil {
					viol("unusable-after-reject", fmt.Sprintf("Begin(true) after the rejected tx %d fails: %v", txi, e2))
					break
				} else if e3 := wtx.Rollback(); e3 != nil {
					viol("unusable-after-reject", fmt.Sprintf("Rollback after the rejected tx %d fails: %v", txi, e3))
					break
				}
				if e2 := db.Update(func(tx *bolt.Tx) error { return nil }); e2 != nil && !errors.Is(e2, berrors.ErrMaxSizeReached) {
					viol("unusable-after-reject", fmt.Sprintf("empty write tx after the rejected tx %d fails: %v", txi, e2))
					break
				}
				if rng.Intn(2) == 0 {
					_ = db.Close()
					db, err = bolt.Open(path, 0o600, opts)
					if err != nil {
						viol("reopen-after-reject-fails", fmt.Sprintf("reopen after rejected tx %d fails: %v", txi, err))
						break
					}
					db.AllocSize = alloc
					if d := dumpDB(db); d != lastDump {
						viol("rejected-tx-visible-after-reopen", "content differs after reopen")
						break
					}
				}
			} else {
				lastDump = dumpDB(db)
			}
		}
		if db != nil {
			_ = db.Close()
		}
		if ri < 3 {
			rep.sample(map[string]any{"params": params, "history": history[:min(len(history), 5)]})
		}
	}
	// ---- model comparison
	if *flagModel != "" {
		got, err := runModel([]string{"grow"}, lines)
		if err != nil || len(got) != len(lines) {
			rep.violation("C18", "correspondence", "model-driver-failed", fmt.Sprintf("grow driver: %v", err), nil)
		} else {
			for i := range lines {
				if got[i] != want[i] {
					rep.Disagree++
					kind := strings.Fields(lines[i])[0]
					rep.violation("C18", "correspondence", "grow-model-vs-impl:"+kind, fmt.Sprintf("`%s`: implementation %q, model %q", lines[i], want[i], got[i]), map[string]any{"line": lines[i]})
					if rep.Disagree > 5 {
						break
					}
				}
			}
		}
	}
	rep.finish(start)
}

// checkDB runs Tx.Check in a read transaction and returns the first errors.
func checkDB(db *bolt.DB) string {
	var errs []string
	_ = db.View(func(tx *bolt.Tx) error {
		for e := range tx.Check() {
			errs = append(errs, e.Error())
			if len(errs) > 5 {
				break
			}
		}
		return nil
	})
	return strings.Join(errs, "; ")
}
