package main

import (
	"errors"
	"fmt"
	"math/rand"
	"os"
	"path/filepath"
	"sort"
	"strings"
	"sync"
	"time"

	bolt "go.etcd.io/bbolt"
)

// Engine conc (C03): N goroutines concurrently call Begin/Update/View/Batch/Stats with
// bodies that commit, fail, roll back or panic; every committed writer increments one shared
// counter (read-modify-write). Each transaction logs (kind, id, value read, outcome). The log
// is checked against the serial specification `Spec/Versions.lean` (driver command
// `versions`): committed writer ids consecutive, every transaction saw exactly the commits
// with smaller (writer) / not larger (reader) id. Monitors on the implementation: at most one
// writer inside its body at a time, progress watchdog, final counter = number of commits.

func init() { engines["conc"] = concEngine }

type txRec struct {
	writer    bool
	txid      int
	read      int
	committed bool
	inc       bool
}

func concRun(dir string, seed int64, nG, nOps int, fl bolt.FreelistType) (recs []txRec, first int, final int, overlap bool, hung string) {
	path := filepath.Join(dir, fmt.Sprintf("conc%d.db", seed))
	_ = os.Remove(path)
	db, err := bolt.Open(path, 0o600, &bolt.Options{Timeout: time.Second, FreelistType: fl, InitialMmapSize: 32 << 20})
	if err != nil {
		return nil, 0, 0, false, "open: " + err.Error()
	}
	defer db.Close()
	_ = db.Update(func(tx *bolt.Tx) error {
		b, e := tx.CreateBucket([]byte("c"))
		if e == nil {
			e = b.Put([]byte("n"), []byte("0"))
		}
		first = tx.ID() + 1
		return e
	})
	db.MaxBatchDelay = 2 * time.Millisecond
	var mu sync.Mutex
	inWriter := 0
	readN := func(tx *bolt.Tx) int {
		n := 0
		fmt.Sscan(string(tx.Bucket([]byte("c")).Get([]byte("n"))), &n)
		return n
	}
	errBody := errors.New("body fails")
	// body of a write transaction; mode: 0 commit, 1 return error, 2 panic
	body := func(mode int, rec *txRec, inc bool) func(tx *bolt.Tx) error {
		return func(tx *bolt.Tx) error {
			mu.Lock()
			inWriter++
			if inWriter > 1 {
				overlap = true
			}
			mu.Unlock()
			defer func() { mu.Lock(); inWriter--; mu.Unlock() }()
			n := readN(tx)
			*rec = txRec{writer: true, txid: tx.ID(), read: n, inc: inc}
			b := tx.Bucket([]byte("c"))
			if inc {
				if err := b.Put([]byte("n"), []byte(fmt.Sprint(n+1))); err != nil {
					return err
				}
			}
			_ = b.Put([]byte(fmt.Sprintf("tx%06d", tx.ID())), []byte(strings.Repeat("x", 50)))
			switch mode {
			case 1:
				return errBody
			case 2:
				panic("body panics")
			}
			return nil
		}
	}
	var wg sync.WaitGroup
	add := func(r txRec) { mu.Lock(); recs = append(recs, r); mu.Unlock() }
	for g := 0; g < nG; g++ {
		wg.Add(1)
		rng := rand.New(rand.NewSource(seed*1000 + int64(g)))
		go func() {
			defer wg.Done()
			for i := 0; i < nOps; i++ {
				var rec txRec
				func() {
					defer func() {
						if r := recover(); r != nil {
							rec.committed = false
						}
					}()
					switch x := rng.Intn(100); {
					case x < 30:
						mode := []int{0, 0, 0, 1, 2}[rng.Intn(5)]
						err := db.Update(body(mode, &rec, true))
						rec.committed = err == nil
					case x < 45:
						mode := []int{0, 0, 1}[rng.Intn(3)]
						var last txRec
						err := db.Batch(func(tx *bolt.Tx) error { return body(mode, &last, false)(tx) })
						rec = last
						rec.committed = err == nil
					case x < 55:
						tx, err := db.Begin(true)
						if err != nil {
							return
						}
						f := body(0, &rec, true)
						_ = f(tx)
						if rng.Intn(2) == 0 {
							rec.committed = tx.Commit() == nil
						} else {
							_ = tx.Rollback()
						}
					case x < 90:
						_ = db.View(func(tx *bolt.Tx) error {
							rec = txRec{writer: false, txid: tx.ID(), read: readN(tx)}
							if rng.Intn(4) == 0 {
								time.Sleep(time.Duration(rng.Intn(300)) * time.Microsecond)
								if n2 := readN(tx); n2 != rec.read {
									rec.read = -1 // snapshot changed inside one transaction
								}
							}
							return nil
						})
					default:
						_ = db.Stats()
						return
					}
				}()
				if rec.txid != 0 {
					add(rec)
				}
			}
		}()
	}
	done := make(chan struct{})
	go func() { wg.Wait(); close(done) }()
	select {
	case <-done:
	case <-time.After(60 * time.Second):
		return recs, first, 0, overlap, "goroutines did not finish within 60 s (deadlock or lost wake-up)"
	}
	_ = db.View(func(tx *bolt.Tx) error { final = readN(tx); return nil })
	// a burst of concurrent read transactions that do nothing: begin and close race on the
	// transaction counters
	{
		var bw sync.WaitGroup
		for g := 0; g < 8; g++ {
			bw.Add(1)
			go func() {
				defer bw.Done()
				for i := 0; i < 3000; i++ {
					_ = db.View(func(tx *bolt.Tx) error { return nil })
				}
			}()
		}
		bw.Wait()
	}
	// every transaction is closed now: the counter of open read transactions, updated by begin and
	// close from all goroutines, must be back at zero (a lost update is a data race on it)
	if st := db.Stats(); st.OpenTxN != 0 {
		hung = fmt.Sprintf("stats-race: all transactions are closed but Stats().OpenTxN = %d (updates to the counter were lost between goroutines)", st.OpenTxN)
	}
	return
}

func concEngine() {
	start := time.Now()
	rep := newReport("conc")
	rep.Rule = "case = one concurrent run (goroutines x operations, mixed Update/Batch/Begin/View/Stats with failing and panicking bodies); non-trivial = at least 10 committed writers; distinct by seed"
	dir := tmpDir()
	defer os.RemoveAll(dir)
	nRuns := 12
	if *flagTier == "thorough" {
		nRuns = 200
	}
	for ri := 0; ri < nRuns; ri++ {
		seed := *flagSeed*100000 + int64(ri)
		fl := bolt.FreelistArrayType
		if ri%2 == 1 {
			fl = bolt.FreelistMapType
		}
		nG := 2 + ri%7
		inFlight("conc", map[string]any{"seed": seed, "goroutines": nG, "freelist": string(fl), "note": "re-run `vh conc -seed <engine seed>`: the run is determined by the seed up to goroutine scheduling"})
		recs, first, final, overlap, hung := concRun(dir, seed, nG, 60, fl)
		inFlight("conc", nil)
		rep.Programs++
		rep.Evaluations += len(recs)
		commits := 0
		lines := []string{fmt.Sprintf("first %d", first)}
		for _, r := range recs {
			if r.writer {
				c := 0
				if r.committed {
					c = 1
					commits++
				}
				i := 0
				if r.inc {
					i = 1
				}
				if !r.inc {
					commits -= c // Batch functions do not touch the counter
				}
				lines = append(lines, fmt.Sprintf("w %d %d %d %d", r.txid, r.read, c, i))
				rep.count(fmt.Sprintf("writer-committed=%v", r.committed))
			} else {
				lines = append(lines, fmt.Sprintf("r %d %d", r.txid, r.read))
				rep.count("reader")
			}
		}
		lines = append(lines, "end")
		if commits >= 10 {
			rep.Distinct++
		}
		if ri < 2 {
			rep.sample(map[string]any{"goroutines": nG, "records": len(recs), "commits": commits, "first_lines": lines[:min(len(lines), 8)]})
		}
		rp := map[string]any{"seed": seed, "goroutines": nG, "freelist": string(fl), "log": lines}
		if hung != "" {
			sig := "conc-hang"
			if strings.HasPrefix(hung, "stats-race") {
				sig = "conc-stats-race"
			}
			rep.violation("C03", "monitor", sig, hung, rp)
			continue
		}
		if overlap {
			rep.violation("C03", "monitor", "two-writers-at-once", "two write transaction bodies were running at the same time", rp)
		}
		if final != commits {
			rep.violation("C03", "monitor", "final-counter", fmt.Sprintf("final counter %d but %d write transactions reported a successful commit", final, commits), rp)
		}
		if *flagModel != "" {
			got, err := runModel([]string{"versions"}, lines)
			if err != nil || len(got) != 1 {
				rep.violation("C03", "correspondence", "model-driver-failed", fmt.Sprint(err, got), rp)
			} else if got[0] != "serial=ok consecutive=true" {
				sig := "not-serializable"
				if strings.Contains(got[0], "consecutive=false") && strings.Contains(got[0], "serial=ok") {
					sig = "ids-not-consecutive"
				}
				rep.violation("C03", "monitor", sig, "serial specification (Spec/Versions.lean): "+got[0], rp)
			}
		}
	}
	// Close concurrent with readers: a reader is open, Close is called, a new reader arrives while
	// Close waits, then the first reader ends — every call must return (no lock-order deadlock)
	for ri := 0; ri < 6; ri++ {
		if msg := closeRace(dir, *flagSeed*100+int64(ri)); msg != "" {
			rep.violation("C03", "monitor", "close-race-hang", msg, map[string]any{"scenario": "reader open; Close; new View arrives while Close waits; first reader ends; Update", "round": ri})
		}
		rep.Evaluations++
		rep.count("close-race")
	}
	rep.finish(start)
}

func closeRace(dir string, seed int64) string {
	path := filepath.Join(dir, fmt.Sprintf("close%d.db", seed))
	_ = os.Remove(path)
	db, err := bolt.Open(path, 0o600, &bolt.Options{Timeout: time.Second})
	if err != nil {
		return ""
	}
	_ = db.Update(func(tx *bolt.Tx) error { _, e := tx.CreateBucketIfNotExists([]byte("c")); return e })
	r1, err := db.Begin(false)
	if err != nil {
		return ""
	}
	type res struct {
		name string
	}
	done := make(chan string, 8)
	go func() { _ = db.Close(); done <- "Close" }()
	time.Sleep(time.Duration(20+seed%30) * time.Millisecond)
	go func() { _ = db.View(func(tx *bolt.Tx) error { return nil }); done <- "View" }()
	go func() { _ = db.Stats(); done <- "Stats" }()
	time.Sleep(time.Duration(20+seed%20) * time.Millisecond)
	go func() { _ = r1.Rollback(); done <- "r1.Rollback" }()
	go func() { _ = db.Update(func(tx *bolt.Tx) error { return nil }); done <- "Update" }()
	pending := map[string]bool{"Close": true, "View": true, "Stats": true, "r1.Rollback": true, "Update": true}
	deadline := time.After(10 * time.Second)
	for len(pending) > 0 {
		select {
		case n := <-done:
			delete(pending, n)
		case <-deadline:
			var names []string
			for n := range pending {
				names = append(names, n)
			}
			sort.Strings(names)
			return fmt.Sprintf("these calls never returned within 10 s: %v (reader open, Close called, new reader arrives while Close waits, first reader ends)", names)
		}
	}
	// after Close: every further write attempt must return at once (ErrDatabaseNotOpen) — a path
	// that returns with a lock held shows only at the SECOND attempt
	after := make(chan string, 4)
	go func() {
		for i := 0; i < 3; i++ {
			_ = db.Update(func(tx *bolt.Tx) error { return nil })
			_, _ = db.Begin(true)
			_ = db.Batch(func(tx *bolt.Tx) error { return nil })
		}
		_ = db.Close()
		after <- "done"
	}()
	select {
	case <-after:
	case <-time.After(10 * time.Second):
		return "after Close, repeated Update/Begin(true)/Batch/Close calls on the closed database do not return within 10 s (a lock is still held)"
	}
	return ""
}
