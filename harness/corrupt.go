package main

import (
	"encoding/binary"
	"fmt"
	"math/rand"
	"os"
	"os/exec"
	"path/filepath"
	"sort"
	"strconv"
	"strings"
	"time"

	bolt "go.etcd.io/bbolt"
)

// Engine corrupt (C19): consistent files from random histories; Tx.Check and the `bbolt check`
// command must report nothing on them. Then a sweep of single structural corruptions of each
// class of the property, applied to every eligible page/element (bounded per class): a page
// made unreachable-yet-not-free (id removed from the freelist page), reachable-yet-free (id of a
// reachable page — head page or overflow page — added to the freelist), referenced twice (a
// branch element re-pointed), freed twice (duplicated freelist id), invalid type (flags
// changed), keys out of order (relative to the neighbour, the parent separator below and
// above). For every corrupted file: Tx.Check must report at least one problem, the CLI's exit
// status must reflect it, and the verdict is compared with the independent Lean reader
// (`decode`: accounting + structural errors).

func init() { engines["corrupt"] = corruptEngine }

type pageRef struct {
	id, ovf uint64
	flags   int
}

func parseDecode(dec []string) (ps, hwm uint64, pages []pageRef, flpage *pageRef, free []uint64) {
	var txid, root, fl, fsz uint64
	fmt.Sscanf(dec[0], "ok ps=%d txid=%d root=%d pgid=%d freelist=%d filesize=%d", &ps, &txid, &root, &hwm, &fl, &fsz)
	if p := strings.TrimPrefix(dec[2], "pages "); p != "-" {
		for _, s := range strings.Split(p, ",") {
			var r pageRef
			a := strings.SplitN(s, ":", 2)
			b := strings.Split(a[0], "+")
			r.id, _ = strconv.ParseUint(b[0], 10, 64)
			r.ovf, _ = strconv.ParseUint(b[1], 10, 64)
			r.flags, _ = strconv.Atoi(a[1])
			pages = append(pages, r)
		}
	}
	if p := strings.TrimPrefix(dec[3], "flpage "); p != "-" {
		b := strings.Split(p, "+")
		var r pageRef
		r.id, _ = strconv.ParseUint(b[0], 10, 64)
		r.ovf, _ = strconv.ParseUint(b[1], 10, 64)
		flpage = &r
	}
	if p := strings.TrimPrefix(dec[4], "free "); p != "-" {
		for _, s := range strings.Split(p, ",") {
			v, _ := strconv.ParseUint(s, 10, 64)
			free = append(free, v)
		}
	}
	return
}

func leanDecode(path string) ([]string, bool) {
	out, err := exec.Command(*flagModel, "decode", path, fmt.Sprint(os.Getpagesize())).Output()
	dec := strings.Split(strings.TrimSpace(string(out)), "\n")
	if err != nil || len(dec) < 7 || !strings.HasPrefix(dec[0], "ok") {
		return dec, false
	}
	return dec, true
}

func leanVerdictBad(dec []string) bool {
	return !strings.HasPrefix(dec[5], "accounting ok=true") || dec[6] != "errors -"
}

// realCheck: number of problems reported by Tx.Check (-1: Open failed, -2: panic)
// classOfMsg maps a Tx.Check message to the model's error class.
func classOfMsg(m string) string {
	switch {
	case strings.Contains(m, "already freed"):
		return "already-freed"
	case strings.Contains(m, "out of bounds"):
		return "out-of-bounds"
	case strings.Contains(m, "multiple references"):
		return "multiple-references"
	case strings.Contains(m, "reachable freed"):
		return "reachable-freed"
	case strings.Contains(m, "invalid type"), strings.Contains(m, "unexpected page type"):
		return "invalid-type"
	case strings.Contains(m, "unreachable unfreed"):
		return "unreachable-unfreed"
	case strings.Contains(m, "key["), strings.Contains(m, "the first key"):
		return "key-order"
	}
	return "other:" + truncate(m, 30)
}

var lastClasses string

func realCheck(path string, fl bolt.FreelistType) (n int, first string) {
	lastClasses = ""
	set := map[string]bool{}
	defer func() {
		var cs []string
		for c := range set {
			cs = append(cs, c)
		}
		sort.Strings(cs)
		lastClasses = strings.Join(cs, ",")
		if lastClasses == "" {
			lastClasses = "-"
		}
	}()
	return realCheck1(path, fl, set)
}

func realCheck1(path string, fl bolt.FreelistType, set map[string]bool) (n int, first string) {
	defer func() {
		if r := recover(); r != nil {
			n, first = -2, truncate(fmt.Sprint(r), 120)
		}
	}()
	db, err := bolt.Open(path, 0o600, &bolt.Options{ReadOnly: true, PreLoadFreelist: true, FreelistType: fl, Timeout: time.Second})
	if err != nil {
		return -1, err.Error()
	}
	defer db.Close()
	_ = db.View(func(tx *bolt.Tx) error {
		for e := range tx.Check() {
			if n == 0 {
				first = e.Error()
			}
			set[classOfMsg(e.Error())] = true
			n++
		}
		return nil
	})
	return
}

func cliCheck(path string) (exit int, out string) {
	cmd := exec.Command(cliPath(), "check", path)
	b, err := cmd.CombinedOutput()
	if err == nil {
		return 0, string(b)
	}
	if ee, ok := err.(*exec.ExitError); ok {
		return ee.ExitCode(), string(b)
	}
	return -1, err.Error()
}

type corruption struct {
	class string
	desc  string
	apply func(img []byte) bool
}

func corruptEngine() {
	start := time.Now()
	rep := newReport("corrupt")
	rep.Rule = "case = (file, single corruption); non-trivial = the corruption changes the structural class of at least one page/element; distinct by (file, class, target)"
	dir := tmpDir()
	defer os.RemoveAll(dir)
	rng := rand.New(rand.NewSource(*flagSeed))
	nFiles, perClass := 5, 6
	if *flagTier == "thorough" {
		nFiles, perClass = 40, 20
	}
	for fi := 0; fi < nFiles; fi++ {
		o := randOpts(rng)
		o.NoFreelistSync = false // the freelist classes need a persisted list
		g := NewGen(rng.Int63(), o.PageSize)
		path := filepath.Join(dir, fmt.Sprintf("c%d.db", fi))
		ops := g.History(6+rng.Intn(10), false, false)
		if fi%2 == 0 {
			ops = append(g.MoveProgram(), ops...)
		}
		res := runAPI(dir, fmt.Sprintf("c%d", fi), o, ops, false)
		_ = res
		rep.Programs++
		orig, err := os.ReadFile(path)
		if err != nil {
			continue
		}
		dec, ok := leanDecode(path)
		if !ok {
			rep.violation("C12", "monitor", "decode-failed", fmt.Sprint(dec), nil)
			continue
		}
		// --- soundness on the consistent file
		n, first := realCheck(path, o.Freelist)
		rep.Evaluations++
		rep.count("consistent→" + fmt.Sprint(n))
		rp := func(c string) map[string]any {
			return map[string]any{"options": o.String(), "opts": o, "ops": opLines(ops), "corruption": c}
		}
		if n != 0 {
			rep.violation("C19", "monitor", "check-reports-on-consistent-file", fmt.Sprintf("Tx.Check reports %d problems on a file produced by committed transactions: %s", n, first), rp("none"))
		}
		if ex, out := cliCheck(path); ex != 0 || !strings.Contains(out, "OK") {
			rep.violation("C19", "monitor", "cli-check-fails-on-consistent-file", fmt.Sprintf("`bbolt check` exits %d on a consistent file: %s", ex, truncate(out, 200)), rp("none"))
		}
		if leanVerdictBad(dec) {
			rep.violation("C07", "monitor", "accounting:"+accountingClass(dec[5]), "independent reader finds problems in a consistent file: "+truncate(dec[5]+dec[6], 200), rp("none"))
		}
		ps, hwm, pages, flp, free := parseDecode(dec)
		_ = hwm
		var cs []corruption
		u64 := binary.LittleEndian
		// helpers on the freelist page
		flIDs := func(img []byte) (base int, cnt int, idx int) {
			base = int(flp.id * ps)
			c := int(u64.Uint16(img[base+10:]))
			idx = 0
			if c == 0xFFFF {
				idx = 1
				c = int(u64.Uint64(img[base+16:]))
			}
			return base, c, idx
		}
		setFL := func(img []byte, ids []uint64) bool {
			base := int(flp.id * ps)
			if 16+8*len(ids) > int((flp.ovf+1)*ps) || len(ids) >= 0xFFFF {
				return false
			}
			u64.PutUint16(img[base+10:], uint16(len(ids)))
			for i, id := range ids {
				u64.PutUint64(img[base+16+8*i:], id)
			}
			return true
		}
		_ = flIDs
		if flp != nil {
			// (a) unreachable yet not free
			for k := 0; k < perClass && k < len(free); k++ {
				j := rng.Intn(len(free))
				cs = append(cs, corruption{"unreachable-unfreed", fmt.Sprintf("free id %d removed from the freelist page", free[j]), func(img []byte) bool {
					ids := append(append([]uint64{}, free[:j]...), free[j+1:]...)
					return setFL(img, ids)
				}})
			}
			// (b) reachable yet free: head page and overflow page
			for k := 0; k < perClass && len(pages) > 0; k++ {
				p := pages[rng.Intn(len(pages))]
				cs = append(cs, corruption{"reachable-freed", fmt.Sprintf("reachable page %d added to the freelist", p.id), func(img []byte) bool {
					ids := append(append([]uint64{}, free...), p.id)
					sort.Slice(ids, func(a, b int) bool { return ids[a] < ids[b] })
					return setFL(img, ids)
				}})
			}
			for _, p := range pages {
				if p.ovf > 0 {
					q := p.id + 1 + uint64(rng.Intn(int(p.ovf)))
					cs = append(cs, corruption{"reachable-freed-overflow", fmt.Sprintf("overflow page %d of reachable page %d added to the freelist", q, p.id), func(img []byte) bool {
						ids := append(append([]uint64{}, free...), q)
						sort.Slice(ids, func(a, b int) bool { return ids[a] < ids[b] })
						return setFL(img, ids)
					}})
					if len(cs) > 200 {
						break
					}
				}
			}
			// (d) freed twice
			for k := 0; k < perClass && len(free) > 0; k++ {
				j := rng.Intn(len(free))
				cs = append(cs, corruption{"double-free", fmt.Sprintf("free id %d listed twice", free[j]), func(img []byte) bool {
					ids := append(append([]uint64{}, free[:j+1]...), free[j:]...)
					return setFL(img, ids)
				}})
			}
			// (d2) freed twice, the two entries apart: a copy of the first id appended at the end
			if len(free) >= 3 {
				cs = append(cs, corruption{"double-free-apart", fmt.Sprintf("free id %d listed again at the end of the freelist page", free[0]), func(img []byte) bool {
					ids := append(append([]uint64{}, free...), free[0])
					return setFL(img, ids)
				}})
				mid := free[len(free)/2]
				cs = append(cs, corruption{"double-free-apart", fmt.Sprintf("free id %d listed again at the start of the freelist page", mid), func(img []byte) bool {
					ids := append([]uint64{mid}, free...)
					return setFL(img, ids)
				}})
			}
		}
		// (c) referenced twice: a branch element re-pointed to another reachable page of the same kind
		var branches, leaves []pageRef
		for _, p := range pages {
			if p.flags == 1 {
				branches = append(branches, p)
			} else if p.flags == 2 {
				leaves = append(leaves, p)
			}
		}
		for k := 0; k < perClass && len(branches) > 0; k++ {
			b := branches[rng.Intn(len(branches))]
			cs = append(cs, corruption{"double-reference", fmt.Sprintf("a child pointer of branch page %d duplicated", b.id), func(img []byte) bool {
				base := int(b.id * ps)
				cnt := int(u64.Uint16(img[base+10:]))
				if cnt < 2 {
					return false
				}
				i := rng.Intn(cnt - 1)
				src := u64.Uint64(img[base+16+16*i+8:])
				u64.PutUint64(img[base+16+16*(i+1)+8:], src)
				return true
			}})
		}
		// (c2) referenced twice through a span: the overflow count of a reachable page is raised by
		// one so that its span swallows the reachable page that follows it in the file — in
		// whichever order the walk meets the two (the swallowed page may be the parent itself)
		{
			heads := map[uint64]bool{}
			for _, p := range pages {
				heads[p.id] = true
			}
			nspan := 0
			for _, p := range pages {
				p := p
				if !heads[p.id+p.ovf+1] {
					continue
				}
				cs = append(cs, corruption{"double-reference-span", fmt.Sprintf("overflow of reachable page %d raised from %d to %d: its span now covers the reachable page %d", p.id, p.ovf, p.ovf+1, p.id+p.ovf+1), func(img []byte) bool {
					u64.PutUint32(img[int(p.id*ps)+12:], uint32(p.ovf+1))
					return true
				}})
				nspan++
				if nspan >= 4*perClass {
					break
				}
			}
		}
		// (e) invalid type
		for k := 0; k < perClass && len(pages) > 0; k++ {
			p := pages[rng.Intn(len(pages))]
			nf := []uint16{0x20, 0x00, 0x04, 0x10, 0x03}[rng.Intn(5)]
			cs = append(cs, corruption{"invalid-type", fmt.Sprintf("flags of reachable page %d set to %#x", p.id, nf), func(img []byte) bool {
				u64.PutUint16(img[int(p.id*ps)+8:], nf)
				return true
			}})
		}
		// (f) key order: within a leaf / vs parent separators
		for k := 0; k < perClass && len(leaves) > 0; k++ {
			p := leaves[rng.Intn(len(leaves))]
			mode := rng.Intn(3)
			cs = append(cs, corruption{"key-order", fmt.Sprintf("keys of leaf page %d put out of order (mode %d)", p.id, mode), func(img []byte) bool {
				base := int(p.id * ps)
				cnt := int(u64.Uint16(img[base+10:]))
				if cnt < 2 {
					return false
				}
				keyAt := func(i int) []byte {
					e := base + 16 + 16*i
					pos := int(u64.Uint32(img[e+4:]))
					ks := int(u64.Uint32(img[e+8:]))
					return img[e+pos : e+pos+ks]
				}
				switch mode {
				case 0: // make key[i] greater than key[i+1]
					i := rng.Intn(cnt - 1)
					a, b := keyAt(i), keyAt(i+1)
					if len(a) == 0 || len(b) == 0 {
						return false
					}
					a[0] = 0xFF
					if b[0] == 0xFF {
						b[0] = 0x01
					}
				case 1: // first key far below everything (below the parent separator / left neighbour)
					a := keyAt(0)
					if len(a) == 0 || len(branches) == 0 {
						return false
					}
					a[0] = 0x00
					if len(a) > 1 {
						a[1] = 0x00
					}
				case 2: // last key far above everything (above the next separator)
					a := keyAt(cnt - 1)
					if len(a) == 0 || len(branches) == 0 {
						return false
					}
					a[0] = 0xFF
				}
				return true
			}})
		}
		for _, c := range cs {
			img := append([]byte(nil), orig...)
			if !c.apply(img) {
				continue
			}
			cp := filepath.Join(dir, "corrupt.db")
			_ = os.WriteFile(cp, img, 0o600)
			// the command-line tool first (a separate process: some corruptions crash the checker)
			ex, out := cliCheck(cp)
			n, first := 0, ""
			crashed := ex != 0 && ex != 1
			if strings.Contains(out, "fatal error") || strings.Contains(out, "SIGSEGV") || strings.Contains(out, "SIGBUS") {
				crashed = true
			}
			if crashed {
				n, first = 1, "checker process died: "+truncate(strings.SplitN(out, "\n", 2)[0], 80)
				rep.count(c.class + "→checker-crashed")
			} else {
				n, first = realCheck(cp, o.Freelist)
				if n == 0 && strings.HasPrefix(c.class, "double-free") {
					// what one backend repairs silently while loading the other must still see on the page:
					// a file is consistent only if Tx.Check is silent under BOTH backends
					other := bolt.FreelistMapType
					if o.Freelist == bolt.FreelistMapType {
						other = bolt.FreelistArrayType
					}
					n, first = realCheck(cp, other)
				} else if n > 0 && strings.HasPrefix(c.class, "double-free") {
					other := bolt.FreelistMapType
					if o.Freelist == bolt.FreelistMapType {
						other = bolt.FreelistArrayType
					}
					if n2, _ := realCheck(cp, other); n2 == 0 {
						n, first = 0, "" // detected with one backend only: a miss
					}
				}
			}
			ldec, lok := leanDecode(cp)
			lbad := !lok || leanVerdictBad(ldec)
			rep.Evaluations++
			rep.Distinct++
			res := "detected"
			if n == 0 {
				res = "MISSED"
			}
			rep.count(c.class + "→" + res)
			if rep.Evaluations%37 == 1 {
				rep.sample(map[string]any{"class": c.class, "corruption": c.desc, "tx_check_problems": n, "first": truncate(first, 100), "lean_reader_finds": lbad})
			}
			if !lbad && c.class != "key-order" {
				// the corruption did not change the structure as seen by the independent reader (e.g. it hit a no-op)
				rep.count(c.class + "→lean-sees-nothing")
				continue
			}
			// the model of Tx.check (Model/Check.lean) on the independent decode predicts the classes of
			// problems reported, for corruptions that leave the tree walk itself intact
			if !crashed && lok && *flagModel != "" && (c.class == "unreachable-unfreed" || strings.HasPrefix(c.class, "reachable-freed") || c.class == "double-free") {
				kind := "array"
				if o.Freelist == bolt.FreelistMapType {
					kind = "hashmap"
				}
				mo, err := exec.Command(*flagModel, "checkmodel", cp, fmt.Sprint(os.Getpagesize()), kind).Output()
				got := strings.TrimSpace(string(mo))
				if err == nil && strings.HasPrefix(got, "classes ") {
					rep.count("model-classes-compared")
					if got != "classes "+lastClasses {
						rep.Disagree++
						rep.violation("C19", "correspondence", "check-model-vs-impl:"+c.class, fmt.Sprintf("%s: Tx.Check reports classes [%s], the model of Tx.check on the decoded file predicts [%s]", c.desc, lastClasses, strings.TrimPrefix(got, "classes ")), rp(c.desc))
					}
				}
			}
			if n == 0 && lbad {
				rep.violation("C19", "monitor", "check-misses:"+c.class, fmt.Sprintf("%s: Tx.Check reports nothing (independent reader: %s)", c.desc, truncate(strings.Join(ldec[5:], " | "), 160)), rp(c.desc))
			}
			if !crashed && (n != 0) != (ex != 0) {
				rep.violation("C19", "monitor", "cli-exit-status", fmt.Sprintf("%s: Tx.Check reports %d problems but `bbolt check` exits %d: %s", c.desc, n, ex, truncate(out, 120)), rp(c.desc))
			}
		}
	}
	rep.finish(start)
}
