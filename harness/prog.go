package main

import (
	"bytes"
	"encoding/hex"
	"errors"
	"fmt"
	"hash/fnv"
	"os"
	"runtime/debug"
	"sort"
	"strconv"
	"strings"
	"time"

	bolt "go.etcd.io/bbolt"
	berrors "go.etcd.io/bbolt/errors"
)

// Op is one line of the protocol shared with the Lean driver (DESIGN A1).
type Op struct {
	K    string   `json:"k"`
	Tx   string   `json:"tx,omitempty"`   // "w" or "r<id>"
	Path []string `json:"path,omitempty"` // bucket path (raw bytes)
	Key  string   `json:"key,omitempty"`
	Val  string   `json:"val,omitempty"`
	Dst  []string `json:"dst,omitempty"`
	N    uint64   `json:"n,omitempty"`
	Cur  int      `json:"cur,omitempty"`
}

func hx(s string) string {
	if len(s) == 0 {
		return "-"
	}
	return hex.EncodeToString([]byte(s))
}

func unhx(s string) string {
	if s == "-" {
		return ""
	}
	b, err := hex.DecodeString(s)
	if err != nil {
		panic(err)
	}
	return string(b)
}

func pathStr(p []string) string {
	if len(p) == 0 {
		return "."
	}
	parts := make([]string, len(p))
	for i, s := range p {
		parts[i] = hx(s)
	}
	return strings.Join(parts, "/")
}

func parsePath(s string) []string {
	if s == "." {
		return nil
	}
	parts := strings.Split(s, "/")
	out := make([]string, len(parts))
	for i, p := range parts {
		out[i] = unhx(p)
	}
	return out
}

// Line renders the op in the line protocol.
func (o Op) Line() string {
	switch o.K {
	case "beginw", "commit", "rollback", "reopen", "close":
		return o.K
	case "beginr", "endr":
		return o.K + " " + o.Tx
	case "put":
		return fmt.Sprintf("put %s %s %s %s", o.Tx, pathStr(o.Path), hx(o.Key), hx(o.Val))
	case "get", "del", "mkb", "mkbi", "rmb", "putnil":
		return fmt.Sprintf("%s %s %s %s", o.K, o.Tx, pathStr(o.Path), hx(o.Key))
	case "mvb":
		return fmt.Sprintf("mvb %s %s %s %s", o.Tx, pathStr(o.Path), hx(o.Key), pathStr(o.Dst))
	case "seq", "nextseq", "dump", "keys":
		return fmt.Sprintf("%s %s %s", o.K, o.Tx, pathStr(o.Path))
	case "setseq":
		return fmt.Sprintf("setseq %s %s %d", o.Tx, pathStr(o.Path), o.N)
	case "cur":
		return fmt.Sprintf("cur %s %s %d", o.Tx, pathStr(o.Path), o.Cur)
	case "cfirst", "clast", "cnext", "cprev":
		return fmt.Sprintf("%s %d", o.K, o.Cur)
	case "cseek":
		return fmt.Sprintf("cseek %d %s", o.Cur, hx(o.Key))
	}
	panic("unknown op " + o.K)
}

func ParseOp(line string) Op {
	f := strings.Fields(line)
	o := Op{K: f[0]}
	switch o.K {
	case "beginw", "commit", "rollback", "reopen", "close":
	case "beginr", "endr":
		o.Tx = f[1]
	case "put":
		o.Tx, o.Path, o.Key, o.Val = f[1], parsePath(f[2]), unhx(f[3]), unhx(f[4])
	case "get", "del", "mkb", "mkbi", "rmb", "putnil":
		o.Tx, o.Path, o.Key = f[1], parsePath(f[2]), unhx(f[3])
	case "mvb":
		o.Tx, o.Path, o.Key, o.Dst = f[1], parsePath(f[2]), unhx(f[3]), parsePath(f[4])
	case "seq", "nextseq", "dump", "keys":
		o.Tx, o.Path = f[1], parsePath(f[2])
	case "setseq":
		o.Tx, o.Path = f[1], parsePath(f[2])
		o.N, _ = strconv.ParseUint(f[3], 10, 64)
	case "cur":
		o.Tx, o.Path = f[1], parsePath(f[2])
		o.Cur, _ = strconv.Atoi(f[3])
	case "cfirst", "clast", "cnext", "cprev":
		o.Cur, _ = strconv.Atoi(f[1])
	case "cseek":
		o.Cur, _ = strconv.Atoi(f[1])
		o.Key = unhx(f[2])
	default:
		panic("unknown op line " + line)
	}
	return o
}

// ---- canonical results --------------------------------------------------------

func errName(err error) string {
	if err == nil {
		return "ok"
	}
	for _, e := range []struct {
		e error
		n string
	}{
		{berrors.ErrTxNotWritable, "ErrTxNotWritable"}, {berrors.ErrTxClosed, "ErrTxClosed"},
		{berrors.ErrDatabaseReadOnly, "ErrDatabaseReadOnly"}, {berrors.ErrBucketNotFound, "ErrBucketNotFound"},
		{berrors.ErrBucketExists, "ErrBucketExists"}, {berrors.ErrBucketNameRequired, "ErrBucketNameRequired"},
		{berrors.ErrKeyRequired, "ErrKeyRequired"}, {berrors.ErrKeyTooLarge, "ErrKeyTooLarge"},
		{berrors.ErrValueTooLarge, "ErrValueTooLarge"}, {berrors.ErrIncompatibleValue, "ErrIncompatibleValue"},
		{berrors.ErrSameBuckets, "ErrSameBuckets"}, {berrors.ErrDifferentDB, "ErrDifferentDB"},
		{berrors.ErrMaxSizeReached, "ErrMaxSizeReached"}, {berrors.ErrDatabaseNotOpen, "ErrDatabaseNotOpen"},
		{berrors.ErrInvalidMapping, "ErrInvalidMapping"}, {berrors.ErrTimeout, "ErrTimeout"},
		{berrors.ErrInvalid, "ErrInvalid"}, {berrors.ErrVersionMismatch, "ErrVersionMismatch"},
		{berrors.ErrChecksum, "ErrChecksum"},
	} {
		if errors.Is(err, e.e) {
			return "err:" + e.n
		}
	}
	return "err:other"
}

func kvRes(k, v []byte) string {
	if k == nil {
		return "kv:nil"
	}
	if v == nil {
		return "kv:" + hx(string(k)) + ":bucket"
	}
	return "kv:" + hx(string(k)) + ":" + hx(string(v))
}

// dumpBucket renders a bucket canonically: {seq;hexkey=hexval,hexkey={...},...}
func dumpBucket(b *bolt.Bucket, sb *strings.Builder) {
	fmt.Fprintf(sb, "{%d;", b.Sequence())
	first := true
	_ = b.ForEach(func(k, v []byte) error {
		if !first {
			sb.WriteByte(',')
		}
		first = false
		sb.WriteString(hx(string(k)))
		sb.WriteByte('=')
		if v == nil {
			dumpBucket(b.Bucket(k), sb)
		} else {
			sb.WriteString(hx(string(v)))
		}
		return nil
	})
	sb.WriteByte('}')
}

func dumpTx(tx *bolt.Tx) string {
	var sb strings.Builder
	sb.WriteString("{0;")
	first := true
	_ = tx.ForEach(func(name []byte, b *bolt.Bucket) error {
		if !first {
			sb.WriteByte(',')
		}
		first = false
		sb.WriteString(hx(string(name)))
		sb.WriteByte('=')
		dumpBucket(b, &sb)
		return nil
	})
	sb.WriteByte('}')
	return sb.String()
}

func dumpDB(db *bolt.DB) string {
	var s string
	_ = db.View(func(tx *bolt.Tx) error { s = dumpTx(tx); return nil })
	return s
}

func hashStr(s string) string {
	h := fnv.New64a()
	_, _ = h.Write([]byte(s))
	return fmt.Sprintf("%d:%016x", len(s), h.Sum64())
}

// ---- executor -------------------------------------------------------------------

type curState struct {
	c  *bolt.Cursor
	tx string
}

type Exec struct {
	Path    string
	Opts    bolt.Options
	DB      *bolt.DB
	W       *bolt.Tx
	R       map[string]*bolt.Tx
	Cur     map[int]*curState
	Shapes  map[int]string // cursor id -> tree shape of its bucket when the cursor was created
	Verbose bool           // full dumps instead of hashes
	Timeout time.Duration
	OnOpen  func(db *bolt.DB)
}

func NewExec(path string, opts bolt.Options) *Exec {
	return &Exec{Path: path, Opts: opts, R: map[string]*bolt.Tx{}, Cur: map[int]*curState{}, Shapes: map[int]string{}, Timeout: 8 * time.Second}
}

func (e *Exec) Open() error {
	o := e.Opts
	db, err := bolt.Open(e.Path, 0o600, &o)
	if err != nil {
		return err
	}
	e.DB = db
	if e.OnOpen != nil {
		e.OnOpen(db)
	}
	return nil
}

func (e *Exec) tx(name string) *bolt.Tx {
	if name == "w" {
		return e.W
	}
	return e.R[name]
}

// resolve walks the bucket path; nil bucket with ok=true means the root.
func (e *Exec) resolve(tx *bolt.Tx, path []string) (b *bolt.Bucket, isRoot, ok bool) {
	if len(path) == 0 {
		return nil, true, true
	}
	b = tx.Bucket([]byte(path[0]))
	for _, p := range path[1:] {
		if b == nil {
			return nil, false, false
		}
		b = b.Bucket([]byte(p))
	}
	return b, false, b != nil
}

func (e *Exec) dropCursorsOf(tx string) {
	for id, c := range e.Cur {
		if c.tx == tx {
			delete(e.Cur, id)
		}
	}
}

// CloseAll ends every transaction and closes the database.
func (e *Exec) CloseAll() {
	if e.W != nil {
		_ = e.W.Rollback()
		e.W = nil
	}
	for k, r := range e.R {
		_ = r.Rollback()
		delete(e.R, k)
	}
	e.Cur = map[int]*curState{}
	if e.DB != nil {
		_ = e.DB.Close()
		e.DB = nil
	}
}

// Do executes one op on the real database and returns the canonical result.
// Panics inside bbolt are caught and reported as "panic:<msg>"; hangs as "timeout".
func (e *Exec) Do(o Op) (res string) {
	done := make(chan string, 1)
	go func() {
		defer func() {
			if r := recover(); r != nil {
				done <- "panic:" + strings.ReplaceAll(fmt.Sprint(r), " ", "_")
			}
		}()
		debug.SetPanicOnFault(true) // reading a page beyond the mapping becomes a panic, not a SIGBUS
		done <- e.do(o)
	}()
	select {
	case r := <-done:
		return r
	case <-time.After(e.Timeout):
		return "timeout"
	}
}

func (e *Exec) do(o Op) string {
	switch o.K {
	case "beginw":
		if e.W != nil {
			return "skip"
		}
		tx, err := e.DB.Begin(true)
		if err != nil {
			return errName(err)
		}
		e.W = tx
		return "ok"
	case "beginr":
		if e.R[o.Tx] != nil {
			return "skip"
		}
		tx, err := e.DB.Begin(false)
		if err != nil {
			return errName(err)
		}
		e.R[o.Tx] = tx
		return "ok"
	case "endr":
		tx := e.R[o.Tx]
		if tx == nil {
			return "skip"
		}
		delete(e.R, o.Tx)
		e.dropCursorsOf(o.Tx)
		return errName(tx.Rollback())
	case "commit":
		if e.W == nil {
			return "skip"
		}
		tx := e.W
		e.W = nil
		e.dropCursorsOf("w")
		return errName(tx.Commit())
	case "rollback":
		if e.W == nil {
			return "skip"
		}
		tx := e.W
		e.W = nil
		e.dropCursorsOf("w")
		return errName(tx.Rollback())
	case "reopen":
		e.CloseAll()
		return errName(e.Open())
	case "close":
		e.CloseAll()
		return "ok"
	}
	if strings.HasPrefix(o.K, "c") && o.K != "cur" && o.K != "commit" && o.K != "close" {
		c := e.Cur[o.Cur]
		if c == nil {
			return "skip"
		}
		var k, v []byte
		switch o.K {
		case "cfirst":
			k, v = c.c.First()
		case "clast":
			k, v = c.c.Last()
		case "cnext":
			k, v = c.c.Next()
		case "cprev":
			k, v = c.c.Prev()
		case "cseek":
			k, v = c.c.Seek([]byte(o.Key))
		}
		return kvRes(k, v)
	}
	tx := e.tx(o.Tx)
	if tx == nil {
		return "skip"
	}
	b, isRoot, ok := e.resolve(tx, o.Path)
	if !ok {
		return "err:nobucket"
	}
	key := []byte(o.Key)
	switch o.K {
	case "put":
		if isRoot {
			return "err:rootop"
		}
		val := []byte(o.Val)
		if val == nil {
			val = []byte{}
		}
		return errName(b.Put(key, val))
	case "putnil":
		// a nil slice as value (an empty value); only generated right before the bucket is deleted,
		// because Get/cursors inside the same transaction return nil for it (indistinguishable from
		// "missing": an API wart outside C04's reference model, see the C04 assumptions)
		if isRoot {
			return "err:rootop"
		}
		return errName(b.Put(key, nil))
	case "get":
		if isRoot {
			return "err:rootop"
		}
		v := b.Get(key)
		if v == nil {
			return "nil"
		}
		return "val:" + hx(string(v))
	case "del":
		if isRoot {
			return "err:rootop"
		}
		return errName(b.Delete(key))
	case "mkb":
		var err error
		if isRoot {
			_, err = tx.CreateBucket(key)
		} else {
			_, err = b.CreateBucket(key)
		}
		return errName(err)
	case "mkbi":
		var err error
		if isRoot {
			_, err = tx.CreateBucketIfNotExists(key)
		} else {
			_, err = b.CreateBucketIfNotExists(key)
		}
		return errName(err)
	case "rmb":
		if isRoot {
			return errName(tx.DeleteBucket(key))
		}
		return errName(b.DeleteBucket(key))
	case "mvb":
		d, dRoot, dok := e.resolve(tx, o.Dst)
		if !dok {
			return "err:nobucket"
		}
		var src, dst *bolt.Bucket
		if !isRoot {
			src = b
		}
		if !dRoot {
			dst = d
		}
		return errName(tx.MoveBucket(key, src, dst))
	case "seq":
		if isRoot {
			return "err:rootop"
		}
		return fmt.Sprintf("n:%d", b.Sequence())
	case "setseq":
		if isRoot {
			return "err:rootop"
		}
		return errName(b.SetSequence(o.N))
	case "nextseq":
		if isRoot {
			return "err:rootop"
		}
		n, err := b.NextSequence()
		if err != nil {
			return errName(err)
		}
		return fmt.Sprintf("n:%d", n)
	case "dump":
		var s string
		if isRoot {
			s = dumpTx(tx)
		} else {
			var sb strings.Builder
			dumpBucket(b, &sb)
			s = sb.String()
		}
		if e.Verbose {
			return "dump:" + s
		}
		return "dump:" + hashStr(s)
	case "keys":
		var ks []string
		fe := func(k, v []byte) error {
			if v == nil {
				ks = append(ks, hx(string(k))+"*")
			} else {
				ks = append(ks, hx(string(k)))
			}
			return nil
		}
		if isRoot {
			_ = tx.ForEach(func(name []byte, _ *bolt.Bucket) error { return fe(name, nil) })
		} else {
			_ = b.ForEach(fe)
		}
		return "keys:" + hashStr(strings.Join(ks, ","))
	case "cur":
		var c *bolt.Cursor
		if isRoot {
			c = tx.Cursor()
			e.Shapes[o.Cur] = tx.VerifRootShape()
		} else {
			c = b.Cursor()
			e.Shapes[o.Cur] = b.VerifShape()
		}
		e.Cur[o.Cur] = &curState{c: c, tx: o.Tx}
		return "ok"
	}
	return "bad-op"
}

// ---- misc helpers ----------------------------------------------------------------

func copyFile(dst, src string) error {
	b, err := os.ReadFile(src)
	if err != nil {
		return err
	}
	return os.WriteFile(dst, b, 0o600)
}

func sortedKeys[M ~map[string]V, V any](m M) []string {
	ks := make([]string, 0, len(m))
	for k := range m {
		ks = append(ks, k)
	}
	sort.Strings(ks)
	return ks
}

var _ = bytes.Compare
