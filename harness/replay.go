package main

import (
	"encoding/json"
	"fmt"
	"os"
	"strings"
	"time"
)

// Engine replay: re-executes a replay file written by one of the engines against
// the real code (and the model, when available) and prints what it finds.
// Exit status 1 when the violation reproduces.

func init() { engines["replay"] = replay }

type replayFile struct {
	Property  string          `json:"property"`
	Engine    string          `json:"engine"`
	Kind      string          `json:"kind"`
	Signature string          `json:"signature"`
	What      string          `json:"what"`
	Seed      int64           `json:"seed"`
	Replay    json.RawMessage `json:"replay"`
}

func replay() {
	b, err := os.ReadFile(*flagFile)
	if err != nil {
		fmt.Println("cannot read replay:", err)
		os.Exit(2)
	}
	var rf replayFile
	if err := json.Unmarshal(b, &rf); err != nil {
		fmt.Println("bad replay file:", err)
		os.Exit(2)
	}
	*flagProp = rf.Property
	*flagRepl = tmpDir()
	defer os.RemoveAll(*flagRepl)
	rep := newReport(rf.Engine)
	start := time.Now()
	switch rf.Engine {
	case "apiprog":
		var r struct {
			Opts optSet   `json:"opts"`
			Ops  []string `json:"ops"`
		}
		_ = json.Unmarshal(rf.Replay, &r)
		ops := make([]Op, len(r.Ops))
		for i, l := range r.Ops {
			ops[i] = ParseOp(l)
		}
		dir := tmpDir()
		res := runAPI(dir, "replay", r.Opts, ops, true)
		checkAPIResult(rep, r.Opts, res)
	case "trace", "fault":
		var r struct {
			Opts  optSet   `json:"opts"`
			Ops   []string `json:"ops"`
			Fault []int    `json:"fault"`
		}
		_ = json.Unmarshal(rf.Replay, &r)
		ops := make([]Op, len(r.Ops))
		for i, l := range r.Ops {
			ops[i] = ParseOp(l)
		}
		installHooks()
		faultPlan = r.Fault
		t := runTrace(rep, tmpDir(), "replay", r.Opts, ops)
		faultPlan = nil
		checkTrace(rep, t)
		if os.Getenv("VERIF_DEBUG") != "" {
			got, _ := runModel([]string{"store"}, t.lines)
			for i := range t.lines {
				g := ""
				if i < len(got) {
					g = got[i]
				}
				fmt.Printf("%4d %-28s impl=%s | model=%s\n", i, truncate(t.lines[i], 28), truncate(t.want[i], 150), truncate(g, 150))
			}
		}
	case "btree":
		btreeReplay(rep, rf.Replay)
	case "bkt":
		bktReplay(rep, rf.Replay)
	case "flprog":
		var r struct {
			Kind  string   `json:"kind"`
			Lines []string `json:"lines"`
		}
		_ = json.Unmarshal(rf.Replay, &r)
		p := flProg{Kind: r.Kind}
		for _, l := range r.Lines[1:] {
			f := strings.Fields(l)
			var o flOp
			o.K = f[0]
			switch f[0] {
			case "state":
				continue
			case "init", "nosync":
				o.IDs = parseU64s(f[1])
			case "alloc":
				fmt.Sscan(f[1], &o.T)
				fmt.Sscan(f[2], &o.A)
			case "free":
				fmt.Sscan(f[1], &o.T)
				fmt.Sscan(f[2], &o.A)
				fmt.Sscan(f[3], &o.B)
			case "rollback", "addr", "rmr":
				fmt.Sscan(f[1], &o.T)
			case "write":
				o.K = "commit"
			case "reload":
				continue
			}
			p.Ops = append(p.Ops, o)
		}
		in, want, mf := runFLProg(p, rep)
		if mf != "" {
			rep.violation(rf.Property, "monitor", "freelist-"+strings.SplitN(mf, ":", 2)[0], mf, nil)
		}
		if *flagModel != "" {
			got, err := runModel([]string{"fl"}, in)
			if err == nil {
				for i := range in {
					if i < len(got) && want[i] != "SYNC" && want[i] != got[i] {
						rep.violation(rf.Property, "correspondence", "freelist-model-vs-impl", fmt.Sprintf("op %d `%s`: implementation %q, model %q", i, in[i], want[i], got[i]), nil)
						break
					}
				}
			}
		}
	default:
		fmt.Printf("replay of engine %q: re-run `vh %s -seed %d -tier %s` (the engine is deterministic in its seed)\n", rf.Engine, rf.Engine, rf.Seed, "quick")
		os.Exit(0)
	}
	_ = start
	if len(rep.Violations) == 0 {
		fmt.Println("replay: no violation reproduced (recorded:", rf.Signature, ")")
		os.Exit(0)
	}
	for _, v := range rep.Violations {
		fmt.Printf("REPRODUCED property=%s [%s] %s\n", v.Property, v.Signature, v.What)
	}
	os.Exit(1)
}

func parseU64s(s string) []uint64 {
	if s == "-" {
		return nil
	}
	var out []uint64
	for _, p := range strings.Split(s, ",") {
		var v uint64
		fmt.Sscan(p, &v)
		out = append(out, v)
	}
	return out
}
