package main

import (
	"fmt"
	"math/rand"
	"os"
	"path/filepath"
	"runtime/debug"
	"strings"
	"time"

	bolt "go.etcd.io/bbolt"
)

// Engine metafuzz (C11): for files at rest after random histories, apply every
// single-byte alteration of either meta struct (exhaustive: 64 positions x 255
// values x 2 metas), torn prefixes of a would-be newer meta, both-damaged
// samples, truncations and non-database files; compare the real Open with the
// Lean model `openMeta` on the same bytes, and the content presented with the
// state recorded for the surviving meta's transaction id.

func init() { engines["metafuzz"] = metafuzz }

type builtDB struct {
	path     string
	pageSize int
	states   map[uint64]string // txid -> dump
	lastTxid uint64
	ops      []Op
}

// buildDB runs a random history that ends in a successful commit and records the
// logical dump after every commit, keyed by the committed txid.
func buildDB(dir string, seed int64, pageSize int, nTx int, opts bolt.Options) (*builtDB, error) {
	path := filepath.Join(dir, fmt.Sprintf("db-%d-%d.db", seed, pageSize))
	_ = os.Remove(path)
	opts.PageSize = pageSize
	e := NewExec(path, opts)
	if err := e.Open(); err != nil {
		return nil, err
	}
	defer e.CloseAll()
	g := NewGen(seed, pageSize)
	b := &builtDB{path: path, pageSize: pageSize, states: map[uint64]string{}}
	record := func() {
		txid, _, _, _, _ := e.DB.VerifMeta()
		b.states[txid] = dumpDB(e.DB)
		b.lastTxid = txid
	}
	record()
	for t := 0; t < nTx; t++ {
		ops := append([]Op{{K: "beginw"}}, g.TxOps("w", 1+g.R.Intn(15), true)...)
		if t == 0 {
			// make sure there is content
			ops = append(ops, Op{K: "mkbi", Tx: "w", Key: "a"}, Op{K: "put", Tx: "w", Path: []string{"a"}, Key: "seed", Val: fmt.Sprint(seed)})
		}
		ops = append(ops, Op{K: "put", Tx: "w", Path: []string{"a"}, Key: "tx", Val: fmt.Sprint(t)})
		ops = append(ops, Op{K: "commit"})
		for _, o := range ops {
			r := e.Do(o)
			if strings.HasPrefix(r, "panic") || r == "timeout" {
				// known structural defects are handled by other engines; restart the tx
				e.CloseAll()
				if err := e.Open(); err != nil {
					return nil, err
				}
				break
			}
		}
		b.ops = append(b.ops, ops...)
		record()
	}
	return b, nil
}

func metafuzz() {
	start := time.Now()
	rep := newReport("metafuzz")
	rep.Rule = "case = (file, byte overlay); non-trivial = overlay changes at least one byte inside a meta struct or truncates the file; distinct by (file, overlay)"
	dir := tmpDir()
	defer os.RemoveAll(dir)
	rng := rand.New(rand.NewSource(*flagSeed))
	nFiles := 4
	if *flagTier == "thorough" {
		nFiles = 24
	}
	pageSizes := []int{1024, 4096, 16384, 2048, 8192, 4096, 1024, 32768}
	for fi := 0; fi < nFiles; fi++ {
		ps := pageSizes[fi%len(pageSizes)]
		opts := bolt.Options{NoFreelistSync: rng.Intn(3) == 0, FreelistType: bolt.FreelistArrayType}
		if rng.Intn(2) == 0 {
			opts.FreelistType = bolt.FreelistMapType
		}
		b, err := buildDB(dir, *flagSeed*1000+int64(fi), ps, 3+rng.Intn(6), opts)
		if err != nil {
			rep.Notes = append(rep.Notes, "buildDB: "+err.Error())
			continue
		}
		rep.Programs++
		metafuzzFile(rep, rng, b, opts)
	}
	rep.finish(start)
}

type mutCase struct {
	overlay string // "pos:val,..." or "-" ; or "trunc:<n>"
	desc    string
}

func metafuzzFile(rep *Report, rng *rand.Rand, b *builtDB, opts bolt.Options) {
	orig, err := os.ReadFile(b.path)
	if err != nil {
		rep.Notes = append(rep.Notes, err.Error())
		return
	}
	ps := b.pageSize
	var cases []mutCase
	cases = append(cases, mutCase{"-", "undamaged"})
	// exhaustive single-byte damage of both meta structs
	for m := 0; m < 2; m++ {
		for pos := 0; pos < 64; pos++ {
			off := m*ps + 16 + pos
			for v := 0; v < 256; v++ {
				if byte(v) == orig[off] {
					continue
				}
				cases = append(cases, mutCase{fmt.Sprintf("%d:%d", off, v), fmt.Sprintf("meta%d byte %d", m, pos)})
			}
		}
	}
	// torn prefix of a would-be newer meta over the older slot: take the newest meta's
	// bytes with txid+1 semantics approximated by the other meta's content (prefix k).
	newest := int(b.lastTxid % 2)
	older := 1 - newest
	for k := 1; k <= 64; k++ {
		var parts []string
		for j := 0; j < k; j++ {
			src := orig[newest*ps+16+j]
			if j >= 48 && j < 56 { // pretend txid+1 (little endian low byte)
				if j == 48 {
					src = byte(b.lastTxid + 1)
				}
			}
			if src != orig[older*ps+16+j] {
				parts = append(parts, fmt.Sprintf("%d:%d", older*ps+16+j, src))
			}
		}
		if len(parts) > 0 {
			cases = append(cases, mutCase{strings.Join(parts, ","), fmt.Sprintf("torn prefix %d over meta%d", k, older)})
		}
	}
	// both damaged
	for i := 0; i < 200; i++ {
		p0, p1 := 16+rng.Intn(64), ps+16+rng.Intn(64)
		v0, v1 := orig[p0]^byte(1+rng.Intn(255)), orig[p1]^byte(1+rng.Intn(255))
		cases = append(cases, mutCase{fmt.Sprintf("%d:%d,%d:%d", p0, v0, p1, v1), "both damaged"})
	}
	// page-header bytes of the meta pages (outside the struct: must not matter)
	for i := 0; i < 50; i++ {
		p := rng.Intn(16) + rng.Intn(2)*ps
		cases = append(cases, mutCase{fmt.Sprintf("%d:%d", p, orig[p]^byte(1+rng.Intn(255))), "meta page header byte"})
	}

	// model side
	lines := []string{fmt.Sprintf("clean %d", ps)}
	for _, c := range cases {
		lines = append(lines, "mut "+c.overlay)
	}
	model, err := runModel([]string{"openmeta", b.path, fmt.Sprint(os.Getpagesize())}, lines)
	if err != nil || len(model) != len(lines) {
		rep.violation("C11", "correspondence", "model-driver-failed", fmt.Sprintf("driver error %v (%d/%d lines)", err, len(model), len(lines)), nil)
		return
	}
	if model[0] != "clean yes" {
		rep.violation("C11", "monitor", "cleanfile-hypothesis", "a file written by the real code does not satisfy CleanFile (zero tail / both metas valid): "+model[0],
			map[string]any{"ops": opLines(b.ops), "pageSize": ps})
	}
	// implementation side
	f, err := os.OpenFile(b.path, os.O_RDWR, 0)
	if err != nil {
		rep.Notes = append(rep.Notes, err.Error())
		return
	}
	defer f.Close()
	lastDesc := ""
	defer inFlight("metafuzz", nil)
	for i, c := range cases {
		restore := applyOverlay(f, orig, c.overlay)
		if c.desc != lastDesc {
			// one in-flight record per damage class and position (a record per case would dominate the run time)
			lastDesc = c.desc
			inFlight("metafuzz", map[string]any{"ops": opLines(b.ops), "pageSize": ps, "overlay_first_of_class": c.overlay, "desc": c.desc})
		}
		got, dump := realOpenGuarded(b.path, opts)
		restore()
		rep.Evaluations++
		if c.overlay != "-" {
			rep.Distinct++
		}
		rep.count(strings.Fields(c.desc)[0] + "→" + strings.Fields(got)[0])
		want := model[i+1]
		if i%9973 == 1 {
			rep.sample(map[string]any{"file": filepath.Base(b.path), "overlay": c.overlay, "desc": c.desc, "impl": got, "model": want})
		}
		if canonOpen(got) != canonOpen(want) {
			rep.Disagree++
			rep.violation("C11", "correspondence", "open-vs-model", fmt.Sprintf("%s: real Open gives %q, model openMeta gives %q", c.desc, got, want),
				map[string]any{"ops": opLines(b.ops), "pageSize": ps, "overlay": c.overlay})
		}
		// monitor openPresents: the content equals the state of the surviving meta
		if strings.HasPrefix(got, "ok") {
			var gps int
			var txid uint64
			fmt.Sscanf(got, "ok %d %d", &gps, &txid)
			wantDump, known := b.states[txid]
			if known && dump != wantDump {
				rep.violation("C11", "monitor", "open-presents-wrong-state", fmt.Sprintf("%s: Open succeeded at txid %d but content differs from the state committed by that txid", c.desc, txid),
					map[string]any{"ops": opLines(b.ops), "pageSize": ps, "overlay": c.overlay})
			}
			if strings.HasPrefix(c.desc, "both") {
				rep.violation("C11", "monitor", "both-damaged-opened", c.desc+": Open succeeded with both metas damaged",
					map[string]any{"ops": opLines(b.ops), "pageSize": ps, "overlay": c.overlay})
			}
		} else if strings.HasPrefix(c.desc, "meta0 byte") || strings.HasPrefix(c.desc, "meta1 byte") || strings.HasPrefix(c.desc, "torn") {
			rep.violation("C11", "monitor", "one-damaged-rejected", fmt.Sprintf("%s: Open failed (%s) although one meta is intact", c.desc, got),
				map[string]any{"ops": opLines(b.ops), "pageSize": ps, "overlay": c.overlay})
		}
		if strings.HasPrefix(got, "panic") || got == "timeout" {
			rep.violation("C11", "monitor", "open-panics", c.desc+": "+truncate(got, 200), map[string]any{"ops": opLines(b.ops), "pageSize": ps, "overlay": c.overlay})
		}
	}
	// truncated / non-database files: error, never panic or data
	for _, n := range []int{1, 15, 16, 64, 1023, 1024, 2048, 2049, 4095, 4096, ps, 2*ps - 1, 2 * ps} {
		if n > len(orig) {
			continue
		}
		tp := b.path + ".trunc"
		_ = os.WriteFile(tp, orig[:n], 0o600)
		got, _ := realOpen(tp, opts, true) // no dump: pages beyond EOF would SIGBUS
		model, err := runModel([]string{"openmeta", tp, fmt.Sprint(os.Getpagesize())}, []string{"mut -"})
		_ = os.Remove(tp)
		rep.Evaluations++
		rep.Distinct++
		rep.count("trunc→" + strings.Fields(got)[0])
		if err != nil || len(model) != 1 || canonOpen(model[0]) != canonOpen(got) {
			// a truncated file may still open if both metas are intact (n >= 2 pages): the model decides
			rep.Disagree++
			rep.violation("C11", "correspondence", "open-vs-model-truncated", fmt.Sprintf("truncated to %d: real %q, model %v", n, got, model),
				map[string]any{"ops": opLines(b.ops), "pageSize": ps, "truncate": n})
		}
		if strings.HasPrefix(got, "panic") {
			rep.violation("C11", "monitor", "open-panics", fmt.Sprintf("truncated to %d: %s", n, got), map[string]any{"ops": opLines(b.ops), "pageSize": ps, "truncate": n})
		}
	}
	for gi := 0; gi < 20; gi++ {
		gp := b.path + ".garbage"
		buf := make([]byte, 1+rng.Intn(3*ps))
		if gi%2 == 0 {
			rng.Read(buf)
		}
		_ = os.WriteFile(gp, buf, 0o600)
		got, _ := realOpen(gp, opts, true)
		model, _ := runModel([]string{"openmeta", gp, fmt.Sprint(os.Getpagesize())}, []string{"mut -"})
		_ = os.Remove(gp)
		rep.Evaluations++
		rep.Distinct++
		rep.count("garbage→" + strings.Fields(got)[0])
		if !strings.HasPrefix(got, "err") {
			rep.violation("C11", "monitor", "garbage-opened", fmt.Sprintf("non-database file of %d bytes: Open gives %s", len(buf), got), map[string]any{"size": len(buf), "random": gi%2 == 0, "seed": *flagSeed})
		}
		if len(model) != 1 || canonOpen(model[0]) != canonOpen(got) {
			rep.Disagree++
			rep.violation("C11", "correspondence", "open-vs-model-garbage", fmt.Sprintf("garbage %d bytes: real %q, model %v", len(buf), got, model), map[string]any{"size": len(buf)})
		}
	}
}

func opLines(ops []Op) []string {
	out := make([]string, len(ops))
	for i, o := range ops {
		out[i] = o.Line()
	}
	return out
}

// canonOpen maps both sides to a small enum: "ok <ps> <txid> <root> <pgid>" or "err".
func canonOpen(s string) string {
	if strings.HasPrefix(s, "ok") {
		return s
	}
	if strings.HasPrefix(s, "err") {
		return "err"
	}
	return s
}

func applyOverlay(f *os.File, orig []byte, overlay string) (restore func()) {
	if overlay == "-" {
		return func() {}
	}
	var poss []int
	for _, part := range strings.Split(overlay, ",") {
		var p, v int
		fmt.Sscanf(part, "%d:%d", &p, &v)
		_, _ = f.WriteAt([]byte{byte(v)}, int64(p))
		poss = append(poss, p)
	}
	return func() {
		for _, p := range poss {
			_, _ = f.WriteAt([]byte{orig[p]}, int64(p))
		}
	}
}

// realOpen opens read-only (so that the file is not modified), reports the chosen meta.
func realOpen(path string, opts bolt.Options, noDump ...bool) (res string, dump string) {
	defer func() {
		if r := recover(); r != nil {
			res = "panic:" + strings.ReplaceAll(fmt.Sprint(r), " ", "_")
		}
	}()
	debug.SetPanicOnFault(true)
	o := opts
	o.ReadOnly = true
	o.Timeout = time.Second
	db, err := bolt.Open(path, 0o600, &o)
	if err != nil {
		return "err " + errName(err), ""
	}
	defer db.Close()
	txid, root, _, _, pgid := db.VerifMeta()
	if len(noDump) == 0 {
		dump = dumpDB(db)
	}
	return fmt.Sprintf("ok %d %d %d %d", db.VerifPageSize(), txid, root, pgid), dump
}

// realOpenGuarded runs realOpen under a deadline (a damaged meta must not make Open hang).
func realOpenGuarded(path string, opts bolt.Options) (string, string) {
	type r struct{ a, b string }
	ch := make(chan r, 1)
	go func() {
		a, b := realOpen(path, opts)
		ch <- r{a, b}
	}()
	select {
	case x := <-ch:
		return x.a, x.b
	case <-time.After(15 * time.Second):
		return "timeout", ""
	}
}
