package main

import (
	"errors"
	"fmt"
	"math/rand"
	"os"
	"path/filepath"
	"strings"
	"sync"
	"time"

	bolt "go.etcd.io/bbolt"
)

// Engine batch (C16): real DB.Batch with scripted, non-idempotent functions (each
// increments its caller's own counter in the database) that fail or panic on chosen
// invocations, under several MaxBatchSize/MaxBatchDelay settings (one big batch, small
// batches, batching disabled) and with injected commit failures. The enqueue order is made
// observable by the "batch-enqueue" event hook; every invocation logs (caller, transaction).
// The observed attempts are replayed on the Lean model `Bolt.Batch` (driver command `batch`):
// the model must predict which functions each attempt invokes, and every caller's final
// (returned nil / error, committed counter). Monitor exactlyOnce is evaluated on the
// implementation alone.

func init() { engines["batch"] = batchEngine }

type invocation struct {
	caller int
	tx     *bolt.Tx
}

type batchScenario struct {
	N        int      `json:"n"`
	Scripts  []string `json:"scripts"` // per caller: o/f/p per invocation (then o forever)
	MaxSize  int      `json:"max_batch_size"`
	DelayMs  int      `json:"max_batch_delay_ms"`
	FailSync []int    `json:"fail_sync"` // indices of fdatasync calls to fail
}

var errScripted = errors.New("scripted failure")

func runBatchScenario(dir string, sc batchScenario) (results []string, counters []int, groups [][]int, attempts [][]int, attemptCommitted []bool, note string) {
	path := filepath.Join(dir, "batch.db")
	_ = os.Remove(path)
	db, err := bolt.Open(path, 0o600, &bolt.Options{Timeout: time.Second})
	if err != nil {
		return nil, nil, nil, nil, nil, "open: " + err.Error()
	}
	defer db.Close()
	_ = db.Update(func(tx *bolt.Tx) error { _, e := tx.CreateBucket([]byte("c")); return e })
	db.MaxBatchSize = sc.MaxSize
	db.MaxBatchDelay = time.Duration(sc.DelayMs) * time.Millisecond

	var mu sync.Mutex
	var log []invocation
	invCount := make([]int, sc.N)
	enq := make(chan int, sc.N)
	bolt.VerifEventHook = func(d *bolt.DB, ev string, n int) {
		if d == db && ev == "batch-enqueue" {
			enq <- n
		}
	}
	syncs := 0
	failAt := map[int]bool{}
	for _, k := range sc.FailSync {
		failAt[k] = true
	}
	lastWrite := int64(-1)
	bolt.VerifIOHook = func(d *bolt.DB, kind string, off int64, data []byte) error {
		if d != db {
			return nil
		}
		if kind == "write" {
			mu.Lock()
			lastWrite = off
			mu.Unlock()
		}
		// only the sync that follows the data pages is failed: a failure of the final sync
		// (after the meta page) leaves the transaction committed — C08's exception, not C16's
		if kind == "sync" {
			mu.Lock()
			isData := lastWrite >= int64(2*d.VerifPageSize())
			if isData {
				syncs++
			}
			k := syncs
			mu.Unlock()
			if isData && failAt[k] {
				return errors.New("injected sync failure")
			}
		}
		return nil
	}
	defer func() { bolt.VerifEventHook = nil; bolt.VerifIOHook = nil }()

	results = make([]string, sc.N)
	var wg sync.WaitGroup
	var cur []int
	for c := 0; c < sc.N; c++ {
		c := c
		wg.Add(1)
		go func() {
			defer wg.Done()
			defer func() {
				// a panic in the solo retry (plain Update) propagates to the caller: it counts as
				// "Batch did not return nil"; Update's deferred rollback discards the effects
				if r := recover(); r != nil {
					results[c] = "err"
				}
			}()
			err := db.Batch(func(tx *bolt.Tx) error {
				mu.Lock()
				k := invCount[c]
				invCount[c]++
				log = append(log, invocation{c, tx})
				mu.Unlock()
				o := byte('o')
				if k < len(sc.Scripts[c]) {
					o = sc.Scripts[c][k]
				}
				// effect first, then the scripted outcome: a failing function has already written
				b := tx.Bucket([]byte("c"))
				key := []byte(fmt.Sprintf("caller%03d", c))
				n := 0
				if v := b.Get(key); v != nil {
					fmt.Sscan(string(v), &n)
				}
				if err := b.Put(key, []byte(fmt.Sprint(n+1))); err != nil {
					return err
				}
				switch o {
				case 'f':
					return errScripted
				case 'p':
					panic("scripted panic")
				}
				return nil
			})
			if err == nil {
				results[c] = "nil"
			} else {
				results[c] = "err"
			}
		}()
		// wait until this caller is in a batch queue before launching the next one
		select {
		case n := <-enq:
			if n == 1 {
				if cur != nil {
					groups = append(groups, cur)
				}
				cur = nil
			}
			cur = append(cur, c)
		case <-time.After(5 * time.Second):
			note = "enqueue event not seen"
		}
	}
	if cur != nil {
		groups = append(groups, cur)
	}
	done := make(chan struct{})
	go func() { wg.Wait(); close(done) }()
	select {
	case <-done:
	case <-time.After(30 * time.Second):
		return results, nil, groups, nil, nil, "callers did not return within 30s"
	}
	// a late timer must not re-run the batch: wait past MaxBatchDelay before reading the result
	time.Sleep(time.Duration(min(sc.DelayMs, 300)+30) * time.Millisecond)
	counters = make([]int, sc.N)
	_ = db.View(func(tx *bolt.Tx) error {
		b := tx.Bucket([]byte("c"))
		for c := 0; c < sc.N; c++ {
			if v := b.Get([]byte(fmt.Sprintf("caller%03d", c))); v != nil {
				fmt.Sscan(string(v), &counters[c])
			}
		}
		return nil
	})
	// group the invocation log into attempts (one Update transaction each)
	var lastTx *bolt.Tx
	for _, iv := range log {
		if iv.tx != lastTx {
			attempts = append(attempts, nil)
			lastTx = iv.tx
		}
		attempts[len(attempts)-1] = append(attempts[len(attempts)-1], iv.caller)
	}
	return results, counters, groups, attempts, nil, note
}

func batchEngine() {
	start := time.Now()
	rep := newReport("batch")
	rep.Rule = "case = one Batch scenario (callers, outcome scripts, MaxBatchSize/Delay, injected commit failures); non-trivial = at least one function fails or panics; distinct by scenario"
	dir := tmpDir()
	defer os.RemoveAll(dir)
	rng := rand.New(rand.NewSource(*flagSeed))
	nSc := 120
	if *flagTier == "thorough" {
		nSc = 2500
	}
	for si := 0; si < nSc; si++ {
		sc := batchScenario{N: 2 + rng.Intn(10)}
		nontrivial := false
		for c := 0; c < sc.N; c++ {
			s := ""
			switch rng.Intn(8) {
			case 0:
				s = "f"
			case 1:
				s = "p"
			case 2:
				s = "of"
			case 3:
				s = "ffffffffffffffffffffffffffffffff"
			case 4:
				s = "oop"
			case 5:
				s = "fp"
			}
			if s != "" {
				nontrivial = true
			}
			sc.Scripts = append(sc.Scripts, s)
		}
		switch rng.Intn(5) {
		case 4:
			// no delay at all: the timer fires at once, racing with the "batch full" trigger
			sc.MaxSize, sc.DelayMs = []int{1, 1, 2, sc.N}[rng.Intn(4)], 0
		case 0:
			sc.MaxSize, sc.DelayMs = sc.N, 300 // one batch, triggered by size
		case 1:
			sc.MaxSize, sc.DelayMs = 2+rng.Intn(3), 200 // several batches
		case 2:
			sc.MaxSize, sc.DelayMs = 1, 10 // batching disabled
		case 3:
			sc.MaxSize, sc.DelayMs = 1000, 30 // triggered by the timer
		}
		if rng.Intn(4) == 0 {
			sc.FailSync = []int{1 + rng.Intn(6)}
		}
		inFlight("batch", sc)
		results, counters, groups, attempts, _, note := runBatchScenario(dir, sc)
		inFlight("batch", nil)
		rep.Programs++
		rep.Evaluations += len(attempts)
		if nontrivial {
			rep.Distinct++
		}
		rep.count(fmt.Sprintf("maxsize=%d", min(sc.MaxSize, 5)))
		if si < 2 {
			rep.sample(map[string]any{"scenario": sc, "results": results, "counters": counters, "batches": groups, "attempts": attempts})
		}
		if note != "" {
			rep.violation("C16", "monitor", "batch-hang:"+strings.Fields(note)[0], note, sc)
			continue
		}
		// monitor exactlyOnce on the implementation alone
		for c := 0; c < sc.N; c++ {
			if results[c] == "nil" && counters[c] != 1 {
				rep.violation("C16", "monitor", "batch-nil-but-applied-"+fmt.Sprint(min(counters[c], 2)), fmt.Sprintf("caller %d got nil from Batch but its function's effect is committed %d times", c, counters[c]), sc)
			}
			if results[c] == "err" && counters[c] != 0 {
				rep.violation("C16", "monitor", "batch-err-but-applied", fmt.Sprintf("caller %d got an error from Batch but its function's effect is committed %d times", c, counters[c]), sc)
			}
			if results[c] == "err" && sc.Scripts[c] == "" && len(sc.FailSync) == 0 {
				rep.violation("C16", "monitor", "batch-good-caller-failed", fmt.Sprintf("caller %d never fails and no commit failed, yet Batch returned an error to it", c), sc)
			}
		}
		if *flagModel == "" {
			continue
		}
		// replay on the model, one instance per batch object
		batchOf := map[int]int{}
		for gi, g := range groups {
			for _, c := range g {
				batchOf[c] = gi
			}
		}
		lines := map[int][]string{}
		want := map[int][]string{}
		for gi, g := range groups {
			ids := make([]uint64, len(g))
			for i, c := range g {
				ids[i] = uint64(c)
			}
			lines[gi] = append(lines[gi], "start "+u64s(ids))
			want[gi] = append(want[gi], "ok")
			for _, c := range g {
				if sc.Scripts[c] != "" {
					lines[gi] = append(lines[gi], fmt.Sprintf("script %d %s", c, sc.Scripts[c]))
					want[gi] = append(want[gi], "ok")
				}
			}
		}
		inSolo := map[int]bool{}
		invoked := make([]int, sc.N)
		for _, at := range attempts {
			gi := batchOf[at[0]]
			// did every function of this attempt succeed?
			allOK := true
			for _, c := range at {
				k := invoked[c]
				invoked[c]++
				if k < len(sc.Scripts[c]) && sc.Scripts[c][k] != 'o' {
					allOK = false
				}
			}
			if len(at) == 1 && inSolo[at[0]] {
				c := at[0]
				ok := "1"
				if allOK && results[c] == "err" {
					ok = "0" // the function succeeded but Update failed: the commit failed
				}
				lines[gi] = append(lines[gi], fmt.Sprintf("solo %d %s", c, ok))
				want[gi] = append(want[gi], "ok")
				delete(inSolo, c)
				continue
			}
			ok := "1"
			if allOK {
				for _, c := range at {
					if results[c] == "err" {
						ok = "0"
					}
				}
			} else {
				inSolo[at[len(at)-1]] = true
			}
			ids := make([]uint64, len(at))
			for i, c := range at {
				ids[i] = uint64(c)
			}
			lines[gi] = append(lines[gi], "batch "+ok)
			want[gi] = append(want[gi], "invoked="+u64s(ids))
		}
		for gi, g := range groups {
			var fin []string
			for _, c := range g {
				fin = append(fin, fmt.Sprintf("%d:%s:%d", c, results[c], counters[c]))
			}
			lines[gi] = append(lines[gi], "final")
			want[gi] = append(want[gi], strings.Join(fin, " "))
			got, err := runModel([]string{"batch"}, lines[gi])
			if err != nil || len(got) != len(lines[gi]) {
				rep.violation("C16", "correspondence", "model-driver-failed", fmt.Sprint(err), sc)
				break
			}
			for i := range got {
				g, w := got[i], want[gi][i]
				if strings.HasPrefix(w, "invoked=") {
					g = strings.Fields(g)[0]
				}
				if g != w {
					rep.Disagree++
					rep.violation("C16", "correspondence", "batch-model-vs-impl:"+strings.Fields(lines[gi][i])[0],
						fmt.Sprintf("batch %d, step %d `%s`: implementation %q, model %q", gi, i, lines[gi][i], w, got[i]),
						map[string]any{"scenario": sc, "batches": groups, "attempts": attempts, "lines": lines[gi], "results": results, "counters": counters})
					break
				}
			}
		}
	}
	rep.finish(start)
}
