package main

import (
	"bytes"
	"encoding/binary"
	"encoding/json"
	"fmt"
	"hash/fnv"
	"math/rand"
	"os"
	"os/exec"
	"path/filepath"
	"sort"
	"strings"
	"time"

	bolt "go.etcd.io/bbolt"
)

// Engine format (C12): (1) the golden corpus /verif/golden (files written by the pinned build:
// all page kinds, inline buckets, overflow pages, nested buckets, freelist persisted and not)
// must decode with the independent Lean v2 reader to the recorded content, and open and read
// back identically with the current code; (2) files produced now by random histories under
// every option combination: independent decode = API dump (also checked after every commit by
// engine apiprog) and every page re-encoded from its decoded form by the model's writers equals
// the file's bytes. `vh format -gen` (re)creates the golden corpus.

func init() { engines["format"] = formatEngine }

type goldenRec struct {
	File     string `json:"file"`
	Options  string `json:"options"`
	Dump     string `json:"dump"`     // hash of the canonical API dump
	Decode   string `json:"decode"`   // first line of the Lean decode
	Pages    string `json:"pages"`    // tree pages line
	Freelist string `json:"freelist"` // flpage + free lines
}

var goldenDir = filepath.Join(baseDir(), "golden")

func formatEngine() {
	start := time.Now()
	rep := newReport("format")
	rep.Rule = "case = one database file (golden or freshly written); non-trivial = holds at least one multi-level tree or overflow page; distinct by file"
	dir := tmpDir()
	defer os.RemoveAll(dir)
	rng := rand.New(rand.NewSource(*flagSeed))
	if os.Getenv("VERIF_GEN_GOLDEN") != "" {
		genGolden(dir)
		return
	}
	// (1) golden corpus
	var recs []goldenRec
	if b, err := os.ReadFile(filepath.Join(goldenDir, "expected.json")); err == nil {
		_ = json.Unmarshal(b, &recs)
	}
	if len(recs) == 0 {
		rep.violation("C12", "correspondence", "golden-corpus-missing", "no golden corpus at "+goldenDir, nil)
	}
	for _, g := range recs {
		inFlight("format", map[string]any{"golden": g.File})
		src := filepath.Join(goldenDir, g.File)
		tmp := filepath.Join(dir, g.File)
		_ = copyFile(tmp, src)
		rep.Programs++
		rep.Evaluations++
		rep.Distinct++
		dec, ok := leanDecode(tmp)
		if !ok {
			rep.violation("C12", "monitor", "golden-undecodable", fmt.Sprintf("golden file %s: the independent v2 reader fails: %v", g.File, dec), map[string]any{"golden": g.File})
			continue
		}
		if dec[1] != "dump:"+g.Dump || dec[0] != g.Decode || dec[2] != g.Pages || dec[3]+" "+dec[4] != g.Freelist {
			rep.violation("C12", "correspondence", "golden-decodes-differently", fmt.Sprintf("golden file %s decodes differently from the recorded decode (model or decoder changed)", g.File), map[string]any{"golden": g.File, "got": dec[:5], "want": g})
		}
		// the current code reads it back identically (read-only and read-write)
		for _, ro := range []bool{true, false} {
			db, err := bolt.Open(tmp, 0o600, &bolt.Options{ReadOnly: ro, Timeout: time.Second})
			if err != nil {
				rep.violation("C12", "monitor", "golden-open-fails", fmt.Sprintf("golden file %s does not open (readonly=%v): %v", g.File, ro, err), map[string]any{"golden": g.File})
				continue
			}
			if d := hashStr(dumpDB(db)); d != g.Dump {
				rep.violation("C12", "monitor", "golden-reads-differently", fmt.Sprintf("golden file %s (written by the pinned build) reads back as %s, recorded %s", g.File, d, g.Dump), map[string]any{"golden": g.File})
			}
			if bad := checkDB(db); bad != "" {
				rep.violation("C12", "monitor", "golden-fails-check", fmt.Sprintf("golden file %s: Tx.Check: %s", g.File, truncate(bad, 200)), map[string]any{"golden": g.File})
			}
			_ = db.Close()
		}
		rep.count("golden")
	}
	inFlight("format", map[string]any{"case": "hand-assembled file with a freelist of more than 65534 entries"})
	largeFreelistCase(rep, dir)
	inFlight("format", nil)
	// (2) fresh files: re-encode every page from its decoded form
	n := 25
	if *flagTier == "thorough" {
		n = 400
	}
	for i := 0; i < n; i++ {
		o := randOpts(rng)
		g := NewGen(rng.Int63(), o.PageSize)
		ops := g.History(4+rng.Intn(10), false, true)
		if i%4 == 1 {
			ops = g.MoveProgram()
		}
		if i%4 == 2 {
			ops = g.CursorProgram()
		}
		inFlight("format", map[string]any{"options": o.String(), "opts": o, "ops": opLines(ops)})
		res := runAPI(dir, fmt.Sprintf("f%d", i), o, ops, false)
		inFlight("format", nil)
		_ = res
		path := filepath.Join(dir, fmt.Sprintf("f%d.db", i))
		rep.Programs++
		rep.Evaluations++
		rp := map[string]any{"options": o.String(), "opts": o, "ops": opLines(ops)}
		dec, ok := leanDecode(path)
		if !ok {
			rep.violation("C12", "monitor", "decode-failed", fmt.Sprintf("the independent v2 reader cannot decode a file written by the current code: %v", dec), rp)
			continue
		}
		if strings.Contains(dec[2], ":1") {
			rep.Distinct++
		}
		db, err := bolt.Open(path, 0o600, &bolt.Options{ReadOnly: true, Timeout: time.Second})
		if err == nil {
			if d := "dump:" + hashStr(dumpDB(db)); d != dec[1] {
				rep.violation("C12", "monitor", "decode-content-differs", fmt.Sprintf("independent decode %s, API %s", dec[1], d), rp)
			}
			_ = db.Close()
		}
		out, err := exec.Command(*flagModel, "reencode", path, fmt.Sprint(os.Getpagesize())).Output()
		line := strings.TrimSpace(string(out))
		rep.count("reencoded")
		if err != nil || !strings.HasSuffix(line, "bad=-") {
			rep.Disagree++
			rep.violation("C12", "correspondence", "reencode-differs", "pages re-encoded by the model's writers differ from the bytes the code wrote: "+truncate(line, 200), rp)
		}
		// the other routes by which the library writes a database file: Tx.WriteTo (hot backup) and
		// Compact.  What they write must be a version-2 file too: decodable by the independent
		// reader with the same content, both meta pages valid with the right page headers, every page
		// re-encodable by the model's writers.
		if i%2 == 0 {
			for _, route := range []string{"WriteTo", "Compact"} {
				cp := filepath.Join(dir, fmt.Sprintf("f%d-%s.db", i, route))
				_ = os.Remove(cp)
				sdb, err := bolt.Open(path, 0o600, &bolt.Options{ReadOnly: true, Timeout: time.Second})
				if err != nil {
					continue
				}
				want := "dump:" + hashStr(dumpDB(sdb))
				var werr error
				if route == "WriteTo" {
					werr = sdb.View(func(tx *bolt.Tx) error { return tx.CopyFile(cp, 0o600) })
				} else {
					ddb, err := bolt.Open(cp, 0o600, &bolt.Options{Timeout: time.Second, PageSize: o.PageSize})
					if err == nil {
						werr = bolt.Compact(ddb, sdb, int64(rng.Intn(3))*int64(o.PageSize))
						_ = ddb.Close()
					} else {
						werr = err
					}
				}
				_ = sdb.Close()
				rep.Evaluations++
				rp2 := map[string]any{"options": o.String(), "opts": o, "ops": opLines(ops), "route": route}
				if werr != nil {
					rep.violation("C12", "monitor", "route-fails:"+route, fmt.Sprintf("%s fails: %v", route, werr), rp2)
					continue
				}
				dec2, ok2 := leanDecode(cp)
				if !ok2 || leanVerdictBad(dec2) || dec2[1] != want || (len(dec2) > 7 && dec2[7] != "metas m0=true m1=true") {
					rep.violation("C12", "monitor", "route-not-v2:"+route, fmt.Sprintf("the file written by %s is not what the independent v2 reader expects: %v (content wanted %s)", route, dec2[min(len(dec2)-1, 1):], want), rp2)
				}
				out2, err2 := exec.Command(*flagModel, "reencode", cp, fmt.Sprint(os.Getpagesize())).Output()
				if line2 := strings.TrimSpace(string(out2)); err2 != nil || !strings.HasSuffix(line2, "bad=-") {
					rep.Disagree++
					rep.violation("C12", "correspondence", "reencode-differs:"+route, "pages of the file written by "+route+" re-encoded by the model's writers differ: "+truncate(line2, 200), rp2)
				}
				rep.count("route-" + route)
				_ = os.Remove(cp)
			}
		}
		if i < 2 {
			rep.sample(map[string]any{"options": o.String(), "decode": dec[0], "reencode": line})
		}
	}
	rep.finish(start)
}

// genGolden writes the golden corpus with the build it is linked against.
func genGolden(dir string) {
	_ = os.MkdirAll(goldenDir, 0o755)
	var recs []goldenRec
	i := 0
	for _, ps := range []int{1024, 4096} {
		for _, fl := range []bolt.FreelistType{bolt.FreelistArrayType, bolt.FreelistMapType} {
			for _, nofls := range []bool{false, true} {
				o := optSet{PageSize: ps, Freelist: fl, NoFreelistSync: nofls, InitialMmap: 0}
				g := NewGen(int64(1000+i), ps)
				ops := g.History(6, false, false)
				ops = append(ops, g.MoveProgram()...)
				name := fmt.Sprintf("golden-%d.db", i)
				res := runAPI(dir, strings.TrimSuffix(name, ".db"), o, ops, false)
				_ = res
				src := filepath.Join(dir, name)
				dec, ok := leanDecode(src)
				if !ok {
					fmt.Println("cannot decode", name, dec)
					continue
				}
				db, err := bolt.Open(src, 0o600, &bolt.Options{ReadOnly: true})
				if err != nil {
					continue
				}
				d := hashStr(dumpDB(db))
				_ = db.Close()
				_ = copyFile(filepath.Join(goldenDir, name), src)
				recs = append(recs, goldenRec{File: name, Options: o.String(), Dump: d, Decode: dec[0], Pages: dec[2], Freelist: dec[3] + " " + dec[4]})
				i++
			}
		}
	}
	b, _ := json.MarshalIndent(recs, "", " ")
	_ = os.WriteFile(filepath.Join(goldenDir, "expected.json"), b, 0o644)
	fmt.Println("wrote", len(recs), "golden files")
}

// largeFreelistCase: the published format stores a freelist of 0xFFFF or more entries with
// count = 0xFFFF and the real count in the first 8-byte slot.  A hand-assembled version-2 file
// (written by this harness, not by the library) with 70000 free ids must be read exactly by the
// library (both backends) and by the Lean reader; after the library has rewritten the freelist
// the Lean reader must again find exact accounting and the same ids as the library reloads.
func largeFreelistCase(rep *Report, dir string) {
	const ps, n = 1024, 70000
	le := binary.LittleEndian
	span := (16 + 8*(n+1) + ps - 1) / ps
	first := uint64(3 + span)
	hwm := first + n
	img := make([]byte, (3+span)*ps)
	for i := 0; i < 2; i++ {
		b := img[i*ps:]
		le.PutUint64(b[0:], uint64(i))
		le.PutUint16(b[8:], 0x04)
		m := b[16:]
		le.PutUint32(m[0:], 0xED0CDAED)
		le.PutUint32(m[4:], 2)
		le.PutUint32(m[8:], ps)
		le.PutUint64(m[16:], 2) // root bucket: root page
		le.PutUint64(m[32:], 3) // freelist page
		le.PutUint64(m[40:], hwm)
		le.PutUint64(m[48:], uint64(i))
		h := fnv.New64a()
		_, _ = h.Write(m[:56])
		le.PutUint64(m[56:], h.Sum64())
	}
	le.PutUint64(img[2*ps:], 2)
	le.PutUint16(img[2*ps+8:], 0x02)
	fl := img[3*ps:]
	le.PutUint64(fl[0:], 3)
	le.PutUint16(fl[8:], 0x10)
	le.PutUint16(fl[10:], 0xFFFF)
	le.PutUint32(fl[12:], uint32(span-1))
	le.PutUint64(fl[16:], n)
	for i := 0; i < n; i++ {
		le.PutUint64(fl[24+8*i:], first+uint64(i))
	}
	path := filepath.Join(dir, "bigfreelist.db")
	if err := os.WriteFile(path, img, 0o600); err != nil {
		return
	}
	_ = os.Truncate(path, int64(hwm)*ps) // sparse: the free pages hold nothing
	defer os.Remove(path)
	rp := map[string]any{"case": "hand-assembled v2 file", "page_size": ps, "free_ids": n, "first_free": first, "freelist_page": 3}
	rep.Programs++
	rep.count("large-freelist")
	sameIDs := func(ids []uint64) string {
		if len(ids) != n {
			return fmt.Sprintf("%d ids instead of %d", len(ids), n)
		}
		for i, id := range ids {
			if id != first+uint64(i) {
				return fmt.Sprintf("id[%d] = %d instead of %d", i, id, first+uint64(i))
			}
		}
		return ""
	}
	// the Lean reader on the hand-made file
	if *flagModel != "" {
		dec, ok := leanDecode(path)
		rep.Evaluations++
		if !ok || len(dec) < 7 {
			rep.violation("C12", "correspondence", "large-freelist:lean-reader-fails", fmt.Sprintf("the independent reader cannot decode the hand-assembled file: %v", truncate(fmt.Sprint(dec), 200)), rp)
		} else if d := sameIDs(parseU64s(strings.TrimPrefix(dec[4], "free "))); d != "" || !strings.HasPrefix(dec[5], "accounting ok=true") {
			rep.violation("C12", "correspondence", "large-freelist:lean-reader-differs", fmt.Sprintf("the independent reader on the hand-assembled file: %s; %s", d, truncate(dec[5], 160)), rp)
		}
	}
	// the library on the hand-made file, both backends
	for _, kind := range []bolt.FreelistType{bolt.FreelistArrayType, bolt.FreelistMapType} {
		db, err := bolt.Open(path, 0o600, &bolt.Options{FreelistType: kind, Timeout: time.Second})
		rep.Evaluations++
		if err != nil {
			rep.violation("C12", "monitor", "large-freelist:open-fails", fmt.Sprintf("a version-2 file with %d free ids does not open (%s): %v", n, kind, err), rp)
			continue
		}
		free, _ := db.VerifFreelistState()
		sort.Slice(free, func(a, b int) bool { return free[a] < free[b] })
		if d := sameIDs(free); d != "" {
			rep.violation("C12", "monitor", "large-freelist:read-differs", fmt.Sprintf("a version-2 file lists %d free pages (%d..%d); the library (%s) loaded %s", n, first, hwm-1, kind, d), rp)
		}
		var bad string
		_ = db.View(func(tx *bolt.Tx) error {
			for e := range tx.Check() {
				bad = e.Error()
				break
			}
			return nil
		})
		if bad != "" {
			rep.violation("C12", "monitor", "large-freelist:check-fails", fmt.Sprintf("Tx.Check on the intact version-2 file (%s): %s", kind, bad), rp)
		}
		_ = db.Close()
	}
	// the library rewrites the freelist (still more than 65534 entries); the Lean reader reads it back
	db, err := bolt.Open(path, 0o600, &bolt.Options{Timeout: time.Second})
	if err != nil {
		return
	}
	err = db.Update(func(tx *bolt.Tx) error {
		b, err := tx.CreateBucketIfNotExists([]byte("b"))
		if err != nil {
			return err
		}
		return b.Put([]byte("k"), bytes.Repeat([]byte("v"), 3000))
	})
	_ = db.Close()
	rep.Evaluations++
	if err != nil {
		rep.violation("C12", "monitor", "large-freelist:commit-fails", fmt.Sprintf("a commit on the file with %d free ids fails: %v", n, err), rp)
		return
	}
	db, err = bolt.Open(path, 0o600, &bolt.Options{ReadOnly: true, PreLoadFreelist: true, Timeout: time.Second})
	if err != nil {
		rep.violation("C12", "monitor", "large-freelist:reopen-fails", fmt.Sprintf("reopen after the commit fails: %v", err), rp)
		return
	}
	free, _ := db.VerifFreelistState()
	sort.Slice(free, func(a, b int) bool { return free[a] < free[b] })
	_ = db.Close()
	if *flagModel != "" {
		dec, ok := leanDecode(path)
		rep.Evaluations++
		if !ok || len(dec) < 7 {
			rep.violation("C12", "monitor", "large-freelist:written-undecodable", fmt.Sprintf("the independent reader cannot decode the freelist the library wrote: %v", truncate(fmt.Sprint(dec), 200)), rp)
			return
		}
		lean := parseU64s(strings.TrimPrefix(dec[4], "free "))
		if !strings.HasPrefix(dec[5], "accounting ok=true") || dec[6] != "errors -" {
			rep.violation("C12", "monitor", "large-freelist:written-accounting", fmt.Sprintf("independent reader on the file the library wrote (freelist of %d entries): %s %s", len(lean), truncate(dec[5], 200), truncate(dec[6], 100)), rp)
		}
		if len(lean) != len(free) {
			rep.violation("C12", "monitor", "large-freelist:written-differs", fmt.Sprintf("the freelist page the library wrote holds %d ids for a version-2 reader, the library reloads %d", len(lean), len(free)), rp)
		} else {
			for i := range lean {
				if lean[i] != free[i] {
					rep.violation("C12", "monitor", "large-freelist:written-differs", fmt.Sprintf("id[%d]: version-2 reader %d, library %d", i, lean[i], free[i]), rp)
					break
				}
			}
		}
		if len(free) < 0xFFFF {
			rep.Notes = append(rep.Notes, fmt.Sprintf("large-freelist: only %d ids after the rewrite (overflow encoding not exercised on the write side)", len(free)))
		}
	}
}
