package main

import (
	"encoding/json"
	"fmt"
	"math/rand"
	"os"
	"os/exec"
	"path/filepath"
	"strings"
	"time"

	bolt "go.etcd.io/bbolt"
)

// Engine format (C12): (1) the golden corpus /verif/golden (files written by the pinned build:
// all page kinds, inline buckets, overflow pages, nested buckets, freelist persisted and not)
// must decode with the independent Lean v2 reader to the recorded content, and open and read
// back identically with the current code; (2) files produced now by random histories under
// every option combination: independent decode = API dump (also checked after every commit by
// engine apiprog) and every page re-encoded from its decoded form by the model's writers equals
// the file's bytes. `vh format -gen` (re)creates the golden corpus.

func init() { engines["format"] = formatEngine }

type goldenRec struct {
	File     string `json:"file"`
	Options  string `json:"options"`
	Dump     string `json:"dump"`      // hash of the canonical API dump
	Decode   string `json:"decode"`    // first line of the Lean decode
	Pages    string `json:"pages"`     // tree pages line
	Freelist string `json:"freelist"`  // flpage + free lines
}

var goldenDir = filepath.Join(baseDir(), "golden")

func formatEngine() {
	start := time.Now()
	rep := newReport("format")
	rep.Rule = "case = one database file (golden or freshly written); non-trivial = holds at least one multi-level tree or overflow page; distinct by file"
	dir := tmpDir()
	defer os.RemoveAll(dir)
	rng := rand.New(rand.NewSource(*flagSeed))
	if os.Getenv("VERIF_GEN_GOLDEN") != "" {
		genGolden(dir)
		return
	}
	// (1) golden corpus
	var recs []goldenRec
	if b, err := os.ReadFile(filepath.Join(goldenDir, "expected.json")); err == nil {
		_ = json.Unmarshal(b, &recs)
	}
	if len(recs) == 0 {
		rep.violation("C12", "correspondence", "golden-corpus-missing", "no golden corpus at "+goldenDir, nil)
	}
	for _, g := range recs {
		src := filepath.Join(goldenDir, g.File)
		tmp := filepath.Join(dir, g.File)
		_ = copyFile(tmp, src)
		rep.Programs++
		rep.Evaluations++
		rep.Distinct++
		dec, ok := leanDecode(tmp)
		if !ok {
			rep.violation("C12", "monitor", "golden-undecodable", fmt.Sprintf("golden file %s: the independent v2 reader fails: %v", g.File, dec), map[string]any{"golden": g.File})
			continue
		}
		if dec[1] != "dump:"+g.Dump || dec[0] != g.Decode || dec[2] != g.Pages || dec[3]+" "+dec[4] != g.Freelist {
			rep.violation("C12", "correspondence", "golden-decodes-differently", fmt.Sprintf("golden file %s decodes differently from the recorded decode (model or decoder changed)", g.File), map[string]any{"golden": g.File, "got": dec[:5], "want": g})
		}
		// the current code reads it back identically (read-only and read-write)
		for _, ro := range []bool{true, false} {
			db, err := bolt.Open(tmp, 0o600, &bolt.Options{ReadOnly: ro, Timeout: time.Second})
			if err != nil {
				rep.violation("C12", "monitor", "golden-open-fails", fmt.Sprintf("golden file %s does not open (readonly=%v): %v", g.File, ro, err), map[string]any{"golden": g.File})
				continue
			}
			if d := hashStr(dumpDB(db)); d != g.Dump {
				rep.violation("C12", "monitor", "golden-reads-differently", fmt.Sprintf("golden file %s (written by the pinned build) reads back as %s, recorded %s", g.File, d, g.Dump), map[string]any{"golden": g.File})
			}
			if bad := checkDB(db); bad != "" {
				rep.violation("C12", "monitor", "golden-fails-check", fmt.Sprintf("golden file %s: Tx.Check: %s", g.File, truncate(bad, 200)), map[string]any{"golden": g.File})
			}
			_ = db.Close()
		}
		rep.count("golden")
	}
	// (2) fresh files: re-encode every page from its decoded form
	n := 25
	if *flagTier == "thorough" {
		n = 400
	}
	for i := 0; i < n; i++ {
		o := randOpts(rng)
		g := NewGen(rng.Int63(), o.PageSize)
		ops := g.History(4+rng.Intn(10), false, true)
		if i%4 == 1 {
			ops = g.MoveProgram()
		}
		if i%4 == 2 {
			ops = g.CursorProgram()
		}
		inFlight("format", map[string]any{"options": o.String(), "opts": o, "ops": opLines(ops)})
		res := runAPI(dir, fmt.Sprintf("f%d", i), o, ops, false)
		inFlight("format", nil)
		_ = res
		path := filepath.Join(dir, fmt.Sprintf("f%d.db", i))
		rep.Programs++
		rep.Evaluations++
		rp := map[string]any{"options": o.String(), "opts": o, "ops": opLines(ops)}
		dec, ok := leanDecode(path)
		if !ok {
			rep.violation("C12", "monitor", "decode-failed", fmt.Sprintf("the independent v2 reader cannot decode a file written by the current code: %v", dec), rp)
			continue
		}
		if strings.Contains(dec[2], ":1") {
			rep.Distinct++
		}
		db, err := bolt.Open(path, 0o600, &bolt.Options{ReadOnly: true, Timeout: time.Second})
		if err == nil {
			if d := "dump:" + hashStr(dumpDB(db)); d != dec[1] {
				rep.violation("C12", "monitor", "decode-content-differs", fmt.Sprintf("independent decode %s, API %s", dec[1], d), rp)
			}
			_ = db.Close()
		}
		out, err := exec.Command(*flagModel, "reencode", path, fmt.Sprint(os.Getpagesize())).Output()
		line := strings.TrimSpace(string(out))
		rep.count("reencoded")
		if err != nil || !strings.HasSuffix(line, "bad=-") {
			rep.Disagree++
			rep.violation("C12", "correspondence", "reencode-differs", "pages re-encoded by the model's writers differ from the bytes the code wrote: "+truncate(line, 200), rp)
		}
		if i < 2 {
			rep.sample(map[string]any{"options": o.String(), "decode": dec[0], "reencode": line})
		}
	}
	rep.finish(start)
}

// genGolden writes the golden corpus with the build it is linked against.
func genGolden(dir string) {
	_ = os.MkdirAll(goldenDir, 0o755)
	var recs []goldenRec
	i := 0
	for _, ps := range []int{1024, 4096} {
		for _, fl := range []bolt.FreelistType{bolt.FreelistArrayType, bolt.FreelistMapType} {
			for _, nofls := range []bool{false, true} {
				o := optSet{PageSize: ps, Freelist: fl, NoFreelistSync: nofls, InitialMmap: 0}
				g := NewGen(int64(1000+i), ps)
				ops := g.History(6, false, false)
				ops = append(ops, g.MoveProgram()...)
				name := fmt.Sprintf("golden-%d.db", i)
				res := runAPI(dir, strings.TrimSuffix(name, ".db"), o, ops, false)
				_ = res
				src := filepath.Join(dir, name)
				dec, ok := leanDecode(src)
				if !ok {
					fmt.Println("cannot decode", name, dec)
					continue
				}
				db, err := bolt.Open(src, 0o600, &bolt.Options{ReadOnly: true})
				if err != nil {
					continue
				}
				d := hashStr(dumpDB(db))
				_ = db.Close()
				_ = copyFile(filepath.Join(goldenDir, name), src)
				recs = append(recs, goldenRec{File: name, Options: o.String(), Dump: d, Decode: dec[0], Pages: dec[2], Freelist: dec[3] + " " + dec[4]})
				i++
			}
		}
	}
	b, _ := json.MarshalIndent(recs, "", " ")
	_ = os.WriteFile(filepath.Join(goldenDir, "expected.json"), b, 0o644)
	fmt.Println("wrote", len(recs), "golden files")
}
