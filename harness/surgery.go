package main

import (
	"bytes"
	"fmt"
	"math/rand"
	"os"
	"os/exec"
	"path/filepath"
	"strings"
	"time"

	bolt "go.etcd.io/bbolt"
)

// Engine surgery (C20): the repair commands of the real command-line tool on files from
// random histories (all page sizes, freelist persisted or not):
//  * `surgery freelist abandon`: same logical content, no freelist referenced by either meta;
//  * `surgery freelist rebuild`: same content, the persisted free pages are exactly the
//    unreachable pages (exact accounting by the Lean reader);
//  * `surgery revert-meta-page` on a copy taken directly after EVERY commit of the history:
//    the output opens at exactly the previously committed state and passes the check;
//  * every command leaves its source byte-identical (SHA-256) and writes only --output.

func init() { engines["surgery"] = surgeryEngine }

func runCLI(args ...string) (int, string) {
	out, err := exec.Command(cliPath(), args...).CombinedOutput()
	if err == nil {
		return 0, string(out)
	}
	if ee, ok := err.(*exec.ExitError); ok {
		return ee.ExitCode(), string(out)
	}
	return -1, err.Error()
}

func openDump(path string) (string, string, error) {
	db, err := bolt.Open(path, 0o600, &bolt.Options{ReadOnly: true, PreLoadFreelist: true, Timeout: time.Second})
	if err != nil {
		return "", "", err
	}
	defer db.Close()
	return hashStr(dumpDB(db)), checkDB(db), nil
}

// surgeryModel runs the byte-level model of a repair command (Model/Surgery.lean) on the same
// source and compares its output file byte for byte with what the command-line tool wrote; the
// hypothesis of the C20Surgery theorems (metaPagesOk) must hold for every file of a history.
func surgeryModel(rep *Report, dir, cmd, src, cliOut string, rp map[string]any) {
	if *flagModel == "" {
		return
	}
	mo := filepath.Join(dir, "model-"+cmd+".db")
	_ = os.Remove(mo)
	defer os.Remove(mo)
	out, err := exec.Command(*flagModel, "surgery", cmd, src, mo, fmt.Sprint(os.Getpagesize())).Output()
	line := strings.TrimSpace(string(out))
	rep.Evaluations++
	if err != nil || !strings.HasPrefix(line, "ok ") {
		rep.Disagree++
		rep.violation("C20", "correspondence", "surgery-model-vs-cli:"+cmd, fmt.Sprintf("the command succeeds, the model of it says %q (%v)", line, err), rp)
		return
	}
	if !strings.Contains(line, "hyp=true") {
		rep.violation("C20", "correspondence", "surgery-hypothesis:"+cmd, fmt.Sprintf("the theorems' hypothesis metaPagesOk does not hold for a file taken after a commit: %s", line), rp)
	}
	a, e1 := os.ReadFile(cliOut)
	b, e2 := os.ReadFile(mo)
	if e1 != nil || e2 != nil {
		rep.violation("C20", "correspondence", "surgery-model-vs-cli:"+cmd, fmt.Sprintf("unreadable outputs: %v %v", e1, e2), rp)
		return
	}
	if !bytes.Equal(a, b) {
		at := 0
		for at < len(a) && at < len(b) && a[at] == b[at] {
			at++
		}
		rep.Disagree++
		rep.violation("C20", "correspondence", "surgery-model-vs-cli:"+cmd, fmt.Sprintf("the tool's output (%d bytes) and the model's (%d bytes) differ first at offset %d", len(a), len(b), at), rp)
		return
	}
	rep.count("model-" + cmd)
}

func surgeryEngine() {
	start := time.Now()
	rep := newReport("surgery")
	rep.Rule = "case = (file, repair command); for revert: one case per commit of the history; non-trivial = the command changes at least one meta page; distinct by (history, commit, command)"
	dir := tmpDir()
	defer os.RemoveAll(dir)
	rng := rand.New(rand.NewSource(*flagSeed))
	nHist := 6
	if *flagTier == "thorough" {
		nHist = 80
	}
	for hi := 0; hi < nHist; hi++ {
		o := randOpts(rng)
		g := NewGen(rng.Int63(), o.PageSize)
		ops := g.History(4+rng.Intn(8), false, false)
		path := filepath.Join(dir, fmt.Sprintf("s%d.db", hi))
		_ = os.Remove(path)
		e := NewExec(path, o.boltOptions())
		if err := e.Open(); err != nil {
			continue
		}
		rep.Programs++
		prev := hashStr(dumpDB(e.DB))
		rp := func(i int, cmd string) map[string]any {
			return map[string]any{"options": o.String(), "opts": o, "ops": opLines(ops[:i+1]), "command": cmd}
		}
		for i, op := range ops {
			r := e.Do(op)
			if r == "timeout" || strings.HasPrefix(r, "panic") {
				break
			}
			if op.K != "commit" || r != "ok" {
				continue
			}
			cur := hashStr(dumpDB(e.DB))
			// a copy of the file taken directly after this commit
			snap := filepath.Join(dir, "snap.db")
			_ = copyFile(snap, path)
			h0 := fileHash(snap)
			// ---- revert-meta-page
			out := filepath.Join(dir, "reverted.db")
			_ = os.Remove(out)
			rep.Evaluations++
			rep.Distinct++
			if ex, msg := runCLI("surgery", "revert-meta-page", snap, "--output", out); ex != 0 {
				rep.violation("C20", "monitor", "revert-fails", fmt.Sprintf("after op %d: revert-meta-page exits %d: %s", i, ex, truncate(msg, 150)), rp(i, "revert-meta-page"))
			} else {
				d, bad, err := openDump(out)
				if err != nil {
					rep.violation("C20", "monitor", "revert-unopenable", fmt.Sprintf("after op %d: the reverted file does not open: %v", i, err), rp(i, "revert-meta-page"))
				} else {
					if d != prev {
						rep.violation("C20", "monitor", "revert-wrong-state", fmt.Sprintf("after op %d: reverting the meta page presents %s, the previously committed state was %s (current %s)", i, d, prev, cur), rp(i, "revert-meta-page"))
					}
					if bad != "" {
						rep.violation("C20", "monitor", "revert-fails-check", fmt.Sprintf("after op %d: Tx.Check on the reverted file: %s", i, truncate(bad, 200)), rp(i, "revert-meta-page"))
					}
				}
				rep.count("revert")
				surgeryModel(rep, dir, "revert", snap, out, rp(i, "revert-meta-page"))
			}
			if fileHash(snap) != h0 {
				rep.violation("C20", "monitor", "source-modified", fmt.Sprintf("after op %d: revert-meta-page changed its source file", i), rp(i, "revert-meta-page"))
			}
			// ---- abandon / rebuild on some commits
			if rng.Intn(3) == 0 {
				ab := filepath.Join(dir, "abandoned.db")
				_ = os.Remove(ab)
				rep.Evaluations++
				if ex, msg := runCLI("surgery", "freelist", "abandon", snap, "--output", ab); ex != 0 {
					rep.violation("C20", "monitor", "abandon-fails", fmt.Sprintf("after op %d: freelist abandon exits %d: %s", i, ex, truncate(msg, 150)), rp(i, "freelist abandon"))
				} else {
					d, bad, err := openDump(ab)
					if err != nil || d != cur || bad != "" {
						rep.violation("C20", "monitor", "abandon-changes-content", fmt.Sprintf("after op %d: after abandoning the freelist: open err=%v content %s (expected %s) check=%q", i, err, d, cur, truncate(bad, 100)), rp(i, "freelist abandon"))
					}
					if dec, ok := leanDecode(ab); !ok || dec[3] != "flpage -" || !strings.Contains(dec[0], "freelist=18446744073709551615") {
						rep.violation("C20", "monitor", "abandon-keeps-freelist", fmt.Sprintf("after op %d: the abandoned file still references a freelist page: %v", i, dec[:min(len(dec), 4)]), rp(i, "freelist abandon"))
					}
					rep.count("abandon")
					surgeryModel(rep, dir, "clear", snap, ab, rp(i, "freelist abandon"))
					// rebuild from the abandoned file
					rb := filepath.Join(dir, "rebuilt.db")
					_ = os.Remove(rb)
					hab := fileHash(ab)
					rep.Evaluations++
					if ex, msg := runCLI("surgery", "freelist", "rebuild", ab, "--output", rb); ex != 0 {
						rep.violation("C20", "monitor", "rebuild-fails", fmt.Sprintf("after op %d: freelist rebuild exits %d: %s", i, ex, truncate(msg, 150)), rp(i, "freelist rebuild"))
					} else {
						d, bad, err := openDump(rb)
						if err != nil || d != cur || bad != "" {
							rep.violation("C20", "monitor", "rebuild-changes-content", fmt.Sprintf("after op %d: after rebuilding the freelist: open err=%v content %s (expected %s) check=%q", i, err, d, cur, truncate(bad, 100)), rp(i, "freelist rebuild"))
						}
						dec, ok := leanDecode(rb)
						if !ok || dec[3] == "flpage -" || leanVerdictBad(dec) {
							rep.violation("C20", "monitor", "rebuild-inexact", fmt.Sprintf("after op %d: the rebuilt free list is not exactly the unreachable pages: %v", i, dec[min(len(dec)-1, 3):]), rp(i, "freelist rebuild"))
						}
						rep.count("rebuild")
					}
					if fileHash(ab) != hab {
						rep.violation("C20", "monitor", "source-modified", fmt.Sprintf("after op %d: freelist rebuild changed its source file", i), rp(i, "freelist rebuild"))
					}
				}
				if fileHash(snap) != h0 {
					rep.violation("C20", "monitor", "source-modified", fmt.Sprintf("after op %d: freelist abandon changed its source file", i), rp(i, "freelist abandon"))
				}
			}
			prev = cur
		}
		e.CloseAll()
		if hi < 2 {
			rep.sample(map[string]any{"options": o.String(), "commits_checked": rep.Distribution["revert"]})
		}
	}
	rep.finish(start)
}
