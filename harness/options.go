package main

import (
	"fmt"
	"math/rand"
	"os"
	"path/filepath"
	"strings"
	"time"

	bolt "go.etcd.io/bbolt"
)

// Engine options (C13): the same history (with reopen points) is executed under several
// option schedules — at every (re)open a fresh assignment of freelist backend, NoFreelistSync,
// InitialMmapSize, NoGrowSync, StrictMode, PreLoadFreelist, plus read-only opens in between;
// the page size varies between runs. Monitors (sameContent): every API result equals the
// reference model's (which has no options) and therefore each other's; dumps after every
// reopen coincide; StrictMode never panics; after every open the in-memory free list equals
// the unreferenced pages computed by the independent Lean reader — whether it was read from
// the persisted page or rebuilt by scanning.

func init() { engines["options"] = optionsEngine }

func randReopenOpts(rng *rand.Rand, ps int) optSet {
	o := optSet{PageSize: ps, Freelist: bolt.FreelistArrayType, InitialMmap: []int{0, 1 << 20, 64 << 20}[rng.Intn(3)]}
	if rng.Intn(2) == 0 {
		o.Freelist = bolt.FreelistMapType
	}
	o.NoFreelistSync = rng.Intn(2) == 0
	o.NoGrowSync = rng.Intn(3) == 0
	o.Strict = rng.Intn(3) == 0
	return o
}

func optionsEngine() {
	start := time.Now()
	rep := newReport("options")
	rep.Rule = "case = (history, option schedule); non-trivial = the schedule switches freelist backend or freelist-sync at least once; distinct by (history, schedule)"
	dir := tmpDir()
	defer os.RemoveAll(dir)
	rng := rand.New(rand.NewSource(*flagSeed))
	nHist := 10
	if *flagTier == "thorough" {
		nHist = 150
	}
	for hi := 0; hi < nHist; hi++ {
		g := NewGen(rng.Int63(), 4096)
		// no reader is held across a write in these programs (InitialMmapSize 0 is in the schedule)
		all := g.History(6+rng.Intn(10), false, true)
		// cursor navigation is C05's subject (and has a known finding there): leave it out here
		var ops []Op
		for _, op := range all {
			if strings.HasPrefix(op.K, "c") && op.K != "commit" && op.K != "close" {
				continue
			}
			ops = append(ops, op)
		}
		var ref []string
		for sj := 0; sj < 3; sj++ {
			ps := []int{1024, 4096, 16384}[sj]
			path := filepath.Join(dir, fmt.Sprintf("o%d-%d.db", hi, sj))
			_ = os.Remove(path)
			srng := rand.New(rand.NewSource(*flagSeed*7919 + int64(hi*10+sj)))
			cur := randReopenOpts(srng, ps)
			var schedule []string
			e := NewExec(path, cur.boltOptions())
			e.OnOpen = func(db *bolt.DB) { db.StrictMode = cur.Strict }
			inFlight("options", map[string]any{"ops": opLines(ops), "pageSize": ps, "first_opts": cur, "schedule_seed": *flagSeed*7919 + int64(hi*10+sj)})
			rp := func(i int) map[string]any {
				return map[string]any{"ops": opLines(ops[:min(i+1, len(ops))]), "pageSize": ps, "schedule": schedule, "opts": cur}
			}
			checkFree := func(i int) {
				// free list in memory (read or rebuilt) = pages the committed state does not reference
				dec, ok := leanDecode(path)
				if !ok {
					rep.violation("C12", "monitor", "decode-failed", fmt.Sprint(dec), rp(i))
					return
				}
				_, hwm, pages, flp, _ := parseDecode(dec)
				used := map[uint64]bool{}
				for _, p := range pages {
					for q := p.id; q <= p.id+p.ovf; q++ {
						used[q] = true
					}
				}
				if flp != nil {
					for q := flp.id; q <= flp.id+flp.ovf; q++ {
						used[q] = true
					}
				}
				free, pend := e.DB.VerifFreelistState()
				inMem := map[uint64]bool{}
				for _, q := range free {
					inMem[q] = true
				}
				for _, p := range pend {
					inMem[p[1]] = true
				}
				for q := uint64(2); q < hwm; q++ {
					if used[q] == inMem[q] {
						how := "rebuilt by scanning"
						if flp != nil {
							how = "read from the freelist page"
						}
						rep.violation("C13", "monitor", "freelist-after-open", fmt.Sprintf("after op %d: page %d: referenced=%v, in the free list (%s)=%v", i, q, used[q], how, inMem[q]), rp(i))
						return
					}
				}
			}
			schedule = append(schedule, cur.String())
			if err := e.Open(); err != nil {
				rep.Notes = append(rep.Notes, err.Error())
				continue
			}
			var impl []string
			switched := false
			for i, op := range ops {
				if op.K == "reopen" {
					e.CloseAll()
					// a read-only open in between (with and without preloading the free list)
					if srng.Intn(2) == 0 {
						ro := cur.boltOptions()
						ro.ReadOnly = true
						ro.PreLoadFreelist = srng.Intn(2) == 0
						if db, err := bolt.Open(path, 0o600, &ro); err == nil {
							_ = dumpDB(db)
							_ = db.Close()
						} else {
							rep.violation("C13", "monitor", "readonly-open-fails", fmt.Sprintf("op %d: read-only open fails: %v", i, err), rp(i))
						}
					}
					nxt := randReopenOpts(srng, ps)
					if nxt.Freelist != cur.Freelist || nxt.NoFreelistSync != cur.NoFreelistSync {
						switched = true
					}
					cur = nxt
					schedule = append(schedule, cur.String())
					e.Opts = cur.boltOptions()
					err := e.Open()
					impl = append(impl, errName(err))
					if err != nil {
						rep.violation("C13", "monitor", "reopen-fails", fmt.Sprintf("op %d: reopen with %s fails: %v", i, cur, err), rp(i))
						break
					}
					checkFree(i)
					continue
				}
				r := e.Do(op)
				impl = append(impl, r)
				if r == "timeout" || strings.HasPrefix(r, "panic") {
					rep.violation("C13", "monitor", "api:"+op.K+":impl="+resClass(r), fmt.Sprintf("op %d `%s` under %s: %s", i, truncate(op.Line(), 60), cur, truncate(r, 200)), rp(i))
					break
				}
			}
			if e.DB != nil && e.W == nil {
				checkFree(len(ops))
			}
			e.CloseAll()
			rep.Programs++
			rep.Evaluations += len(impl)
			if switched {
				rep.Distinct++
			}
			if hi < 1 {
				rep.sample(map[string]any{"pageSize": ps, "schedule": schedule})
			}
			// the reference model has no options: results must be the same for every schedule
			if sj == 0 && *flagModel != "" {
				spec, err := runModel([]string{"api"}, opLines(ops))
				if err == nil && len(spec) == len(ops) {
					ref = spec
				}
			}
			want := ref
			for i := range impl {
				if want != nil && i < len(want) && impl[i] != want[i] {
					rep.Disagree++
					rep.violation("C13", "monitor", "api-result-depends-on-options:"+ops[i].K, fmt.Sprintf("op %d `%s` under schedule %v: bbolt returns %q, the option-free reference model %q", i, truncate(ops[i].Line(), 60), schedule, truncate(impl[i], 60), truncate(want[i], 60)), rp(i))
					break
				}
			}
		}
	}
	// (2) the same history with a read transaction held across a FAILED commit (ErrMaxSizeReached)
	// and later commits, under every freelist option combination: reader view, final content
	// and Tx.Check must not depend on the options
	nfc := 3
	if *flagTier == "thorough" {
		nfc = 40
	}
	for k := 0; k < nfc; k++ {
		seed := *flagSeed*104729 + int64(k)
		ps := []int{1024, 4096}[k%2]
		type out struct {
			o fcOpts
			r fcResult
		}
		var outs []out
		for _, nfs := range []bool{false, true} {
			for _, ft := range []bolt.FreelistType{bolt.FreelistArrayType, bolt.FreelistMapType} {
				o := fcOpts{PageSize: ps, NoFreelistSync: nfs, Freelist: ft, NoGrowSync: k%3 == 1}
				rp := map[string]any{"scenario": "reader across a failed commit", "seed": seed, "opts": o.String()}
				inFlight("options", rp)
				r := runFailedCommitScenario(filepath.Join(dir, "fc.db"), seed, o)
				rep.Evaluations += r.Steps
				rep.count("failed-commit-scenario")
				outs = append(outs, out{o, r})
			}
		}
		sig := func(r fcResult) string { return r.Err + "|" + r.ReaderDiff + "|" + r.Final + "|" + r.Check }
		for _, x := range outs[1:] {
			if sig(x.r) != sig(outs[0].r) {
				bad, good := x, outs[0]
				if outs[0].r.Err+outs[0].r.ReaderDiff+outs[0].r.Check != "" {
					bad, good = outs[0], x
				}
				rep.violation("C13", "monitor", "options-change-results:reader-across-failed-commit",
					fmt.Sprintf("same history (seed %d), only the options differ: with [%s] err=%q reader=%q check=%q final=%s; with [%s] err=%q reader=%q check=%q final=%s",
						seed, bad.o, bad.r.Err, truncate(bad.r.ReaderDiff, 120), truncate(bad.r.Check, 80), bad.r.Final, good.o, good.r.Err, truncate(good.r.ReaderDiff, 80), truncate(good.r.Check, 60), good.r.Final),
					map[string]any{"scenario": "reader across a failed commit", "seed": seed, "opts_a": bad.o.String(), "opts_b": good.o.String()})
				break
			}
		}
	}
	inFlight("options", nil)
	rep.finish(start)
}

var _ = time.Now
