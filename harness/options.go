package main

import (
	"bytes"
	"fmt"
	"math/rand"
	"os"
	"path/filepath"
	"runtime/debug"
	"strings"
	"time"

	bolt "go.etcd.io/bbolt"
)

// Engine options (C13): the same history (with reopen points) is executed under several
// option schedules — at every (re)open a fresh assignment of freelist backend, NoFreelistSync,
// InitialMmapSize, NoGrowSync, StrictMode, PreLoadFreelist, plus read-only opens in between;
// the page size varies between runs. Monitors (sameContent): every API result equals the
// reference model's (which has no options) and therefore each other's; dumps after every
// reopen coincide; StrictMode never panics; after every open the in-memory free list equals
// the unreferenced pages computed by the independent Lean reader — whether it was read from
// the persisted page or rebuilt by scanning.

func init() { engines["options"] = optionsEngine }

func randReopenOpts(rng *rand.Rand, ps int) optSet {
	o := optSet{PageSize: ps, Freelist: bolt.FreelistArrayType, InitialMmap: []int{0, 1 << 20, 64 << 20}[rng.Intn(3)]}
	if rng.Intn(2) == 0 {
		o.Freelist = bolt.FreelistMapType
	}
	o.NoFreelistSync = rng.Intn(2) == 0
	o.NoGrowSync = rng.Intn(3) == 0
	o.Strict = rng.Intn(3) == 0
	return o
}

func optionsEngine() {
	start := time.Now()
	rep := newReport("options")
	rep.Rule = "case = (history, option schedule); non-trivial = the schedule switches freelist backend or freelist-sync at least once; distinct by (history, schedule)"
	dir := tmpDir()
	defer os.RemoveAll(dir)
	rng := rand.New(rand.NewSource(*flagSeed))
	nHist := 10
	if *flagTier == "thorough" {
		nHist = 150
	}
	for hi := 0; hi < nHist; hi++ {
		g := NewGen(rng.Int63(), 4096)
		// no reader is held across a write in these programs (InitialMmapSize 0 is in the schedule)
		all := g.History(6+rng.Intn(10), false, true)
		// cursor navigation is C05's subject (and has a known finding there): leave it out here
		var ops []Op
		for _, op := range all {
			if strings.HasPrefix(op.K, "c") && op.K != "commit" && op.K != "close" {
				continue
			}
			ops = append(ops, op)
		}
		var ref []string
		for sj := 0; sj < 3; sj++ {
			ps := []int{1024, 4096, 16384}[sj]
			path := filepath.Join(dir, fmt.Sprintf("o%d-%d.db", hi, sj))
			_ = os.Remove(path)
			srng := rand.New(rand.NewSource(*flagSeed*7919 + int64(hi*10+sj)))
			cur := randReopenOpts(srng, ps)
			var schedule []string
			e := NewExec(path, cur.boltOptions())
			e.OnOpen = func(db *bolt.DB) { db.StrictMode = cur.Strict }
			inFlight("options", map[string]any{"ops": opLines(ops), "pageSize": ps, "first_opts": cur, "schedule_seed": *flagSeed*7919 + int64(hi*10+sj)})
			rp := func(i int) map[string]any {
				return map[string]any{"ops": opLines(ops[:min(i+1, len(ops))]), "pageSize": ps, "schedule": schedule, "opts": cur}
			}
			checkFree := func(i int) {
				// free list in memory (read or rebuilt) = pages the committed state does not reference
				dec, ok := leanDecode(path)
				if !ok {
					rep.violation("C12", "monitor", "decode-failed", fmt.Sprint(dec), rp(i))
					return
				}
				_, hwm, pages, flp, _ := parseDecode(dec)
				used := map[uint64]bool{}
				for _, p := range pages {
					for q := p.id; q <= p.id+p.ovf; q++ {
						used[q] = true
					}
				}
				if flp != nil {
					for q := flp.id; q <= flp.id+flp.ovf; q++ {
						used[q] = true
					}
				}
				free, pend := e.DB.VerifFreelistState()
				inMem := map[uint64]bool{}
				for _, q := range free {
					inMem[q] = true
				}
				for _, p := range pend {
					inMem[p[1]] = true
				}
				for q := uint64(2); q < hwm; q++ {
					if used[q] == inMem[q] {
						how := "rebuilt by scanning"
						if flp != nil {
							how = "read from the freelist page"
						}
						rep.violation("C13", "monitor", "freelist-after-open", fmt.Sprintf("after op %d: page %d: referenced=%v, in the free list (%s)=%v", i, q, used[q], how, inMem[q]), rp(i))
						return
					}
				}
			}
			schedule = append(schedule, cur.String())
			if err := e.Open(); err != nil {
				rep.Notes = append(rep.Notes, err.Error())
				continue
			}
			var impl []string
			switched := false
			for i, op := range ops {
				if op.K == "reopen" {
					e.CloseAll()
					// a read-only open in between (with and without preloading the free list)
					if srng.Intn(2) == 0 {
						ro := cur.boltOptions()
						ro.ReadOnly = true
						ro.PreLoadFreelist = srng.Intn(2) == 0
						if db, err := bolt.Open(path, 0o600, &ro); err == nil {
							_ = dumpDB(db)
							_ = db.Close()
						} else {
							rep.violation("C13", "monitor", "readonly-open-fails", fmt.Sprintf("op %d: read-only open fails: %v", i, err), rp(i))
						}
					}
					nxt := randReopenOpts(srng, ps)
					if nxt.Freelist != cur.Freelist || nxt.NoFreelistSync != cur.NoFreelistSync {
						switched = true
					}
					cur = nxt
					schedule = append(schedule, cur.String())
					e.Opts = cur.boltOptions()
					err := e.Open()
					impl = append(impl, errName(err))
					if err != nil {
						rep.violation("C13", "monitor", "reopen-fails", fmt.Sprintf("op %d: reopen with %s fails: %v", i, cur, err), rp(i))
						break
					}
					checkFree(i)
					continue
				}
				r := e.Do(op)
				impl = append(impl, r)
				if r == "timeout" || strings.HasPrefix(r, "panic") {
					rep.violation("C13", "monitor", "api:"+op.K+":impl="+resClass(r), fmt.Sprintf("op %d `%s` under %s: %s", i, truncate(op.Line(), 60), cur, truncate(r, 200)), rp(i))
					break
				}
			}
			if e.DB != nil && e.W == nil {
				checkFree(len(ops))
			}
			e.CloseAll()
			rep.Programs++
			rep.Evaluations += len(impl)
			if switched {
				rep.Distinct++
			}
			if hi < 1 {
				rep.sample(map[string]any{"pageSize": ps, "schedule": schedule})
			}
			// the reference model has no options: results must be the same for every schedule
			if sj == 0 && *flagModel != "" {
				spec, err := runModel([]string{"api"}, opLines(ops))
				if err == nil && len(spec) == len(ops) {
					ref = spec
				}
			}
			want := ref
			for i := range impl {
				if want != nil && i < len(want) && impl[i] != want[i] {
					rep.Disagree++
					rep.violation("C13", "monitor", "api-result-depends-on-options:"+ops[i].K, fmt.Sprintf("op %d `%s` under schedule %v: bbolt returns %q, the option-free reference model %q", i, truncate(ops[i].Line(), 60), schedule, truncate(impl[i], 60), truncate(want[i], 60)), rp(i))
					break
				}
			}
		}
	}
	// (2) the same history with a read transaction held across a FAILED commit (ErrMaxSizeReached)
	// and later commits, under every freelist option combination: reader view, final content
	// and Tx.Check must not depend on the options
	nfc := 3
	if *flagTier == "thorough" {
		nfc = 40
	}
	for k := 0; k < nfc; k++ {
		seed := *flagSeed*104729 + int64(k)
		ps := []int{1024, 4096}[k%2]
		type out struct {
			o fcOpts
			r fcResult
		}
		var outs []out
		for _, nfs := range []bool{false, true} {
			for _, ft := range []bolt.FreelistType{bolt.FreelistArrayType, bolt.FreelistMapType} {
				o := fcOpts{PageSize: ps, NoFreelistSync: nfs, Freelist: ft, NoGrowSync: k%3 == 1}
				rp := map[string]any{"scenario": "reader across a failed commit", "seed": seed, "opts": o.String()}
				inFlight("options", rp)
				r := runFailedCommitScenario(filepath.Join(dir, "fc.db"), seed, o)
				rep.Evaluations += r.Steps
				rep.count("failed-commit-scenario")
				outs = append(outs, out{o, r})
			}
		}
		sig := func(r fcResult) string { return r.Err + "|" + r.ReaderDiff + "|" + r.Final + "|" + r.Check }
		for _, x := range outs[1:] {
			if sig(x.r) != sig(outs[0].r) {
				bad, good := x, outs[0]
				if outs[0].r.Err+outs[0].r.ReaderDiff+outs[0].r.Check != "" {
					bad, good = outs[0], x
				}
				rep.violation("C13", "monitor", "options-change-results:reader-across-failed-commit",
					fmt.Sprintf("same history (seed %d), only the options differ: with [%s] err=%q reader=%q check=%q final=%s; with [%s] err=%q reader=%q check=%q final=%s",
						seed, bad.o, bad.r.Err, truncate(bad.r.ReaderDiff, 120), truncate(bad.r.Check, 80), bad.r.Final, good.o, good.r.Err, truncate(good.r.ReaderDiff, 80), truncate(good.r.Check, 60), good.r.Final),
					map[string]any{"scenario": "reader across a failed commit", "seed": seed, "opts_a": bad.o.String(), "opts_b": good.o.String()})
				break
			}
		}
	}
	// (3) a multi-page allocation in the FIRST write transaction after a reopen, on a file whose free
	// list is fragmented (isolated free pages before one long run): the free list just read from the
	// page (or rebuilt by scanning) is used as it is, before any release has rebuilt it.  Same
	// history under every (backend, freelist-sync at reopen) combination.
	nra := 3
	if *flagTier == "thorough" {
		nra = 40
	}
	for k := 0; k < nra; k++ {
		seed := *flagSeed*15487469 + int64(k)
		ps := []int{4096, 1024, 8192}[k%3]
		var ref, refOpts string
		for _, createNFS := range []bool{false, true} {
			for _, ft := range []bolt.FreelistType{bolt.FreelistArrayType, bolt.FreelistMapType} {
				for _, reopenNFS := range []bool{false, true} {
					o := fmt.Sprintf("ps=%d created-with-nofreelistsync=%v reopened-with freelist=%s nofreelistsync=%v", ps, createNFS, ft, reopenNFS)
					rp := map[string]any{"scenario": "multi-page allocation right after reopen on a fragmented free list", "seed": seed, "opts": o}
					inFlight("options", rp)
					got := runReopenAllocScenario(filepath.Join(dir, "ra.db"), seed, ps, createNFS, ft, reopenNFS)
					rep.Evaluations++
					rep.count("reopen-alloc-scenario")
					if ref == "" {
						ref, refOpts = got, o
					} else if got != ref {
						rep.violation("C13", "monitor", "options-change-results:alloc-after-reopen",
							fmt.Sprintf("same history (seed %d), only the options differ: with [%s]: %s; with [%s]: %s", seed, o, truncate(got, 300), refOpts, truncate(ref, 300)), rp)
					}
				}
			}
		}
	}
	inFlight("options", nil)
	rep.finish(start)
}

// runReopenAllocScenario: fill a bucket with two-keys-per-leaf values, add and delete a long run,
// delete keys in a stride (isolated free pages), close; reopen with the given options; the first
// update stores a value of several pages; then a small update, Tx.Check and a dump.  Returns the
// API results and the content, which must not depend on the options.
func runReopenAllocScenario(path string, seed int64, ps int, createNFS bool, ft bolt.FreelistType, reopenNFS bool) (res string) {
	defer debug.SetPanicOnFault(debug.SetPanicOnFault(true))
	_ = os.Remove(path)
	rng := rand.New(rand.NewSource(seed))
	nkeys := 300 + rng.Intn(400)
	vlen := ps*3/8 + rng.Intn(ps/16)
	runPages := 20 + rng.Intn(40)
	stride := 4 + rng.Intn(5)
	need := 2 + rng.Intn(7)
	var sb strings.Builder
	step := func(name string, fn func() error) {
		defer func() {
			if r := recover(); r != nil {
				fmt.Fprintf(&sb, "%s: PANIC %v; ", name, r)
			}
		}()
		fmt.Fprintf(&sb, "%s: %v; ", name, fn())
	}
	key := func(i int) []byte { return []byte(fmt.Sprintf("k%05d", i)) }
	db, err := bolt.Open(path, 0o600, &bolt.Options{PageSize: ps, NoFreelistSync: createNFS, Timeout: time.Second})
	if err != nil {
		return "open: " + err.Error()
	}
	step("fill", func() error {
		return db.Update(func(tx *bolt.Tx) error {
			b, err := tx.CreateBucket([]byte("b"))
			if err != nil {
				return err
			}
			for i := 0; i < nkeys; i++ {
				if err := b.Put(key(i), bytes.Repeat([]byte{byte(i)}, vlen)); err != nil {
					return err
				}
			}
			return nil
		})
	})
	step("run", func() error {
		return db.Update(func(tx *bolt.Tx) error {
			return tx.Bucket([]byte("b")).Put([]byte("run"), make([]byte, runPages*ps))
		})
	})
	step("fragment", func() error {
		return db.Update(func(tx *bolt.Tx) error {
			b := tx.Bucket([]byte("b"))
			if err := b.Delete([]byte("run")); err != nil {
				return err
			}
			for i := 0; i+1 < nkeys; i += stride {
				if err := b.Delete(key(i)); err != nil {
					return err
				}
				if err := b.Delete(key(i + 1)); err != nil {
					return err
				}
			}
			return nil
		})
	})
	if err := db.Close(); err != nil {
		return "close: " + err.Error()
	}
	db, err = bolt.Open(path, 0o600, &bolt.Options{PageSize: ps, NoFreelistSync: reopenNFS, FreelistType: ft, Timeout: time.Second})
	if err != nil {
		return sb.String() + "reopen: " + err.Error()
	}
	defer db.Close()
	step("put-multi-page", func() error {
		return db.Update(func(tx *bolt.Tx) error {
			return tx.Bucket([]byte("b")).Put([]byte("zzz"), bytes.Repeat([]byte{'z'}, need*ps-ps/2))
		})
	})
	step("put-small", func() error {
		return db.Update(func(tx *bolt.Tx) error { return tx.Bucket([]byte("b")).Put([]byte("zzzz"), []byte("small")) })
	})
	step("check", func() error {
		if bad := checkDB(db); bad != "" {
			return fmt.Errorf("%s", truncate(bad, 200))
		}
		return nil
	})
	step("dump", func() error {
		fmt.Fprintf(&sb, "content=%s ", hashStr(dumpDB(db)))
		return nil
	})
	return sb.String()
}

var _ = time.Now
