package main

import (
	"fmt"
	"math/rand"
	"os"
	"os/exec"
	"path/filepath"
	"sort"
	"strconv"
	"strings"
	"time"

	bolt "go.etcd.io/bbolt"
)

// Engine trace (C02, C06, C07, C10 and the tie of Model/Store.lean): histories with
// readers, rollbacks and reopenings run on the real database with the allocator and
// I/O hooks recording every Allocate/Free/WriteAt; the event trace is replayed on the
// Lean protocol model `Bolt.Store` (driver command `store`), which must accept every
// event (trace inclusion) and, after every commit, predict exactly the page set of the
// new version (compared with the independent Lean decode of the file) and the
// allocator state (compared with the real one). Monitors on the implementation:
// noVisiblePageWritten (every WriteAt vs. the pages of the newest version and of every
// open reader's version, as decoded by the Lean reader), snapshotUnchanged (dump through
// every open reader after every writer event), reclaimOK.

func init() { engines["trace"] = traceEngine }

type versionInfo struct {
	txid uint64
	hwm  uint64
	used map[uint64]bool
	dump string
	slot uint64
}

type tracer struct {
	e       *Exec
	o       optSet
	lines   []string // model input
	want    []string // expected model output ("" = must be ok)
	buf     []string // allocator events not yet flushed
	writes  [][2]int64
	cur     *versionInfo
	readers map[string]*versionInfo
	rep     *Report
	ops     []Op
	failed  string
	hwms    []uint64 // high-water mark after every commit
	// C10 bookkeeping for the current write transaction
	noReaderTx bool
	freedPages int
	steady     bool
	// fault injection (engine fault): fail the faultAt-th I/O call (1-based) issued during op faultOp
	faultOp         int
	faultAt         int
	ioCount         int
	curOp           int
	faultKind       string // kind of the call that was failed
	ioKinds         []string
	lastMetaWritten bool
	quietUntil      int
	filled          bool
}

var curTracer *tracer

// faultPlan, when set, is (op index, I/O call index) for the next runTrace
var faultPlan []int

func (t *tracer) emit(line, want string) {
	t.lines = append(t.lines, line)
	t.want = append(t.want, want)
}

func flLine(db *bolt.DB) string {
	free, pend := db.VerifFreelistState()
	s := flState{free, pend}
	sort.Slice(s.pend, func(i, j int) bool {
		if s.pend[i][0] != s.pend[j][0] {
			return s.pend[i][0] < s.pend[j][0]
		}
		return s.pend[i][1] < s.pend[j][1]
	})
	n := len(free) + len(pend)
	est := 16 + 8*n
	if n >= 0xFFFF {
		est += 8
	}
	return fmt.Sprintf("free=%s pend=%s fc=%d pc=%d est=%d", u64s(s.free), s.pendStr(), len(free), len(pend), est)
}

// decodeVersion runs the Lean reader on the file and returns the newest version's page set.
func decodeVersion(path string) (*versionInfo, []string, error) {
	out, err := exec.Command(*flagModel, "decode", path, fmt.Sprint(os.Getpagesize())).Output()
	if err != nil {
		return nil, nil, err
	}
	dec := strings.Split(strings.TrimSpace(string(out)), "\n")
	if len(dec) < 7 || !strings.HasPrefix(dec[0], "ok") {
		return nil, dec, fmt.Errorf("decode: %v", dec)
	}
	v := &versionInfo{used: map[uint64]bool{}}
	var ps, root, fl, fsz uint64
	fmt.Sscanf(dec[0], "ok ps=%d txid=%d root=%d pgid=%d freelist=%d filesize=%d", &ps, &v.txid, &root, &v.hwm, &fl, &fsz)
	v.slot = v.txid % 2
	v.dump = dec[1]
	addSpan := func(s string) {
		// id+ovf[:flags]
		s = strings.SplitN(s, ":", 2)[0]
		parts := strings.Split(s, "+")
		id, _ := strconv.ParseUint(parts[0], 10, 64)
		ovf, _ := strconv.ParseUint(parts[1], 10, 64)
		for q := id; q <= id+ovf; q++ {
			v.used[q] = true
		}
	}
	if p := strings.TrimPrefix(dec[2], "pages "); p != "-" {
		for _, s := range strings.Split(p, ",") {
			addSpan(s)
		}
	}
	if p := strings.TrimPrefix(dec[3], "flpage "); p != "-" {
		addSpan(p)
	}
	return v, dec, nil
}

func usedLine(v *versionInfo) string {
	var ids []uint64
	for id := range v.used {
		ids = append(ids, id)
	}
	sortU64(ids)
	return fmt.Sprintf("txid=%d hwm=%d used=%s", v.txid, v.hwm, u64s(ids))
}

func (t *tracer) countFree(l string) {
	var id, ovf int
	if _, err := fmt.Sscanf(l, "free %d %d", &id, &ovf); err == nil {
		t.freedPages += ovf + 1
	}
}

func (t *tracer) replayObj(upto int) map[string]any {
	m := map[string]any{"options": t.o.String(), "opts": t.o, "ops": opLines(t.ops[:min(upto+1, len(t.ops))])}
	if t.faultOp >= 0 {
		m["fault"] = []int{t.faultOp, t.faultAt}
		m["ops"] = opLines(t.ops)
	}
	return m
}

// afterCommitted: decode the file, emit the model checks, run monitors that need the new version.
func (t *tracer) afterCommitted(i int) {
	if i >= 0 && i < t.quietUntil {
		t.cur = nil // fault runs: the history before the targeted commit was checked by the dry run
		return
	}
	v, dec, err := decodeVersion(t.e.Path)
	if err != nil {
		t.rep.violation("C12", "monitor", "decode-failed", fmt.Sprintf("after op %d the independent v2 reader cannot decode the file: %v", i, dec), t.replayObj(i))
		return
	}
	t.cur = v
	t.emit("used", usedLine(v))
	t.emit("fl", flLine(t.e.DB))
	// C07: exact accounting and structure of the committed file, by the independent reader
	if dec[6] != "errors -" {
		t.rep.violation("C07", "monitor", "structure:"+firstWords(dec[6], 6), fmt.Sprintf("after op %d: structural errors found by the independent reader: %s", i, truncate(dec[6], 300)), t.replayObj(i))
	}
	if !strings.HasPrefix(dec[5], "accounting ok=true") {
		t.rep.violation("C07", "monitor", "accounting:"+accountingClass(dec[5]), fmt.Sprintf("after op %d: %s [%s]", i, truncate(dec[5], 300), t.o), t.replayObj(i))
	}
	api := "dump:" + hashStr(dumpDB(t.e.DB))
	if v.dump != api {
		t.rep.violation("C12", "monitor", "decode-content-differs", fmt.Sprintf("after op %d: independent decode %s, API %s", i, v.dump, api), t.replayObj(i))
	}
}

func (t *tracer) checkWrites(i int, committedOK bool) {
	ps := int64(t.e.DB.VerifPageSize())
	for _, w := range t.writes {
		first, last := w[0]/ps, (w[0]+w[1]-1)/ps
		for pg := first; pg <= last; pg++ {
			if pg < 2 {
				// meta write: must go to the slot that does not hold the newest committed meta
				if t.cur != nil && uint64(pg) == t.cur.slot {
					t.rep.violation("C06", "monitor", "meta-write-over-newest", fmt.Sprintf("op %d: meta page %d written while it holds the newest committed meta (txid %d)", i, pg, t.cur.txid), t.replayObj(i))
				}
				continue
			}
			if t.cur != nil && t.cur.used[uint64(pg)] {
				t.rep.violation("C06", "monitor", "write-to-page-of-newest-version", fmt.Sprintf("op %d: page %d written although the newest committed version (txid %d) references it", i, pg, t.cur.txid), t.replayObj(i))
			}
			for _, rid := range sortedKeys(t.readers) {
				if r := t.readers[rid]; r.used[uint64(pg)] {
					t.rep.violation("C06", "monitor", "write-to-page-of-open-reader", fmt.Sprintf("op %d: page %d written although open reader %s (txid %d) references it", i, pg, rid, r.txid), t.replayObj(i))
				}
			}
		}
	}
	t.writes = nil
}

// checkReaderPagesWithheld: no page that an open reader's version references is allocatable
// (theorems C02.reader_pages_not_free / C10.reader_pages_withheld evaluated on the real
// allocator). When one is, the search continues the history with a transaction that allocates
// enough pages to reuse it, so that the C06 write monitor shows the concrete overwrite.
func (t *tracer) checkReaderPagesWithheld(i int) {
	if t.e.DB == nil || t.e.W != nil || t.filled {
		return
	}
	free, _ := t.e.DB.VerifFreelistState()
	fs := map[uint64]bool{}
	for _, p := range free {
		fs[p] = true
	}
	for _, rid := range sortedKeys(t.readers) {
		r := t.readers[rid]
		for p := range r.used {
			if fs[p] {
				what := fmt.Sprintf("after op %d: page %d is referenced by open reader %s (txid %d) and is in the free list: the next writer may overwrite it", i, p, rid, r.txid)
				t.rep.violation("C10", "monitor", "reader-page-allocatable", what, t.replayObj(i))
				t.rep.violation("C02", "monitor", "reader-page-allocatable", what, t.replayObj(i))
				// continue the history: a transaction that allocates at least as many pages as are free
				t.filled = true
				ps := t.e.DB.VerifPageSize()
				fill := []Op{{K: "beginw"}, {K: "mkbi", Tx: "w", Key: "zz-fill"}}
				for k := 0; k < len(free)+4; k++ {
					fill = append(fill, Op{K: "put", Tx: "w", Path: []string{"zz-fill"}, Key: fmt.Sprintf("fill%04d", k), Val: strings.Repeat("F", ps/2)})
				}
				fill = append(fill, Op{K: "commit"})
				rest := append([]Op(nil), t.ops[i+1:]...)
				t.ops = append(append(t.ops[:i+1:i+1], fill...), rest...)
				return
			}
		}
	}
}

// snapshotUnchanged: every open reader still sees exactly the state it started with.
func (t *tracer) checkReaders(i int) {
	for _, rid := range sortedKeys(t.readers) {
		tx := t.e.R[rid]
		if tx == nil {
			continue
		}
		got := "dump:" + hashStr(dumpTx(tx))
		if got != t.readers[rid].dump {
			t.rep.violation("C02", "monitor", "reader-snapshot-changed", fmt.Sprintf("after op %d (%s): reader %s (txid %d) now sees %s, it started with %s", i, t.ops[i].K, rid, t.readers[rid].txid, got, t.readers[rid].dump), t.replayObj(i))
			delete(t.readers, rid)
		}
	}
}

func runTrace(rep *Report, dir, tag string, o optSet, ops []Op) *tracer {
	path := filepath.Join(dir, tag+".db")
	_ = os.Remove(path)
	t := &tracer{o: o, rep: rep, ops: ops, readers: map[string]*versionInfo{}, faultOp: -1}
	if faultPlan != nil {
		t.faultOp, t.faultAt = faultPlan[0], faultPlan[1]
		if len(faultPlan) > 2 {
			t.quietUntil = faultPlan[2]
		}
	}
	curTracer = t
	defer func() { curTracer = nil }()
	t.e = NewExec(path, o.boltOptions())
	kind := "array"
	if o.Freelist == bolt.FreelistMapType {
		kind = "hashmap"
	}
	t.emit("init "+kind, "ok")
	openAndFlush := func(i int, first bool) bool {
		t.buf = nil
		t.writes = nil
		if err := t.e.Open(); err != nil {
			t.failed = "open: " + err.Error()
			return false
		}
		t.e.DB.StrictMode = o.Strict
		if !first {
			t.emit("reopen "+kind, "ok")
		}
		if len(t.buf) > 0 {
			// Open flushed the free list with an internal write transaction
			t.emit("beginW", "ok")
			for _, l := range t.buf {
				t.emit(l, "ok")
			}
			t.buf = nil
			t.emit("commit", "ok")
			t.checkWrites(i, true)
		}
		t.writes = nil
		t.afterCommitted(i)
		return true
	}
	if !openAndFlush(-1, true) {
		return t
	}
	defer t.e.CloseAll()
	for i := 0; i < len(t.ops); i++ {
		op := t.ops[i]
		t.curOp = i
		var rtx uint64
		if op.K == "endr" && t.e.R[op.Tx] != nil {
			rtx = uint64(t.e.R[op.Tx].ID())
		}
		t.buf = nil
		if i == t.faultOp && t.cur == nil && t.e.W != nil {
			// (the writer is open: the file still holds the last committed state)
			if v, _, err := decodeVersion(t.e.Path); err == nil {
				t.cur = v
				for _, rid := range sortedKeys(t.readers) {
					if t.readers[rid].used == nil && t.readers[rid].txid == v.txid {
						t.readers[rid].used = v.used
					}
				}
			}
		}
		var r string
		if op.K == "reopen" {
			t.e.CloseAll()
			t.readers = map[string]*versionInfo{}
			if !openAndFlush(i, false) {
				break
			}
			r = "ok"
		} else {
			r = t.e.Do(op)
		}
		if r == "timeout" || strings.HasPrefix(r, "panic") {
			t.failed = fmt.Sprintf("op %d %s: %s", i, op.K, r)
			t.rep.violation("C04", "monitor", "api:"+op.K+":impl="+resClass(r), fmt.Sprintf("op %d `%s`: %s", i, truncate(op.Line(), 80), truncate(r, 200)), t.replayObj(i))
			break
		}
		switch op.K {
		case "beginw":
			if r == "ok" {
				t.emit("beginW", "ok")
				t.emit("fl", flLine(t.e.DB)) // the allocator right after ReleasePendingPages
				t.noReaderTx = len(t.readers) == 0
				t.freedPages = 0
				// reclaimOK (1): with no reader open, every page released by earlier transactions
				// is reusable now: nothing is pending after ReleasePendingPages
				if t.noReaderTx {
					if _, pend := t.e.DB.VerifFreelistState(); len(pend) != 0 {
						t.rep.violation("C10", "monitor", "pending-after-begin-without-readers", fmt.Sprintf("op %d: write transaction began with no reader open, yet %d pages are still pending", i, len(pend)), t.replayObj(i))
					}
				} else {
					// pages released by transactions older than every open reader are reusable now
					minR := ^uint64(0)
					for _, r := range t.readers {
						if r.txid < minR {
							minR = r.txid
						}
					}
					_, pend := t.e.DB.VerifFreelistState()
					for _, p := range pend {
						if p[0] < minR {
							t.rep.violation("C10", "monitor", "pending-below-oldest-reader", fmt.Sprintf("op %d: page %d released by transaction %d is still pending although the oldest open reader is at %d", i, p[1], p[0], minR), t.replayObj(i))
							break
						}
					}
				}
			}
		case "beginr":
			if r == "ok" {
				t.noReaderTx = false
				t.emit("beginR", "ok")
				tx := t.e.R[op.Tx]
				v := &versionInfo{txid: uint64(tx.ID()), dump: "dump:" + hashStr(dumpTx(tx))}
				if t.cur == nil && t.e.W == nil {
					// quiet prefix of a fault run: the newest version has not been decoded yet
					if cv, _, err := decodeVersion(t.e.Path); err == nil {
						t.cur = cv
					}
				}
				if t.cur != nil && t.cur.txid == v.txid {
					v.used, v.hwm = t.cur.used, t.cur.hwm
				}
				t.readers[op.Tx] = v
			}
		case "endr":
			if r == "ok" {
				t.emit(fmt.Sprintf("endR %d", rtx), "ok")
				delete(t.readers, op.Tx)
			}
		case "commit", "rollback":
			if r == "skip" {
				break
			}
			for _, l := range t.buf {
				t.emit(l, "ok")
				t.countFree(l)
			}
			t.buf = nil
			if op.K == "rollback" {
				t.emit("rollback", "ok")
			} else if r == "ok" {
				// an I/O call of THIS commit was made to fail: the commit must report it
				if t.faultOp == i && t.faultKind != "" {
					t.rep.violation("C08", "monitor", "failed-io-commit-returns-nil:"+t.faultKind, fmt.Sprintf("op %d: the %s call #%d of this commit failed (injected), yet Commit returned nil: the caller takes a transaction for durable whose %s did not succeed", i, t.faultKind, t.faultAt, t.faultKind), t.replayObj(i))
					t.rep.violation("C01", "monitor", "acknowledged-although-sync-failed:"+t.faultKind, fmt.Sprintf("op %d: Commit returned nil although its %s call #%d failed (injected): the acknowledged transaction is not known to be on stable storage (a crash now may lose it or leave the new meta pointing at pages that were never written)", i, t.faultKind, t.faultAt), t.replayObj(i))
				}
				t.emit("commit", "ok")
				t.checkWrites(i, true)
				t.afterCommitted(i)
				if t.cur != nil {
					t.hwms = append(t.hwms, t.cur.hwm)
				}
				// reclaimOK (2): after a commit that began and ran without readers, at most the
				// pages released by that very commit are withheld
				if t.noReaderTx {
					if _, pend := t.e.DB.VerifFreelistState(); len(pend) != t.freedPages {
						t.rep.violation("C10", "monitor", "pending-not-own-frees", fmt.Sprintf("op %d: commit without readers leaves %d pages pending but the transaction released %d", i, len(pend), t.freedPages), t.replayObj(i))
					}
					if st := t.e.DB.Stats(); !t.o.NoStatistics && st.PendingPageN != t.freedPages {
						t.rep.violation("C10", "monitor", "stats-pending-mismatch", fmt.Sprintf("op %d: Stats.PendingPageN = %d, released by this commit: %d", i, st.PendingPageN, t.freedPages), t.replayObj(i))
					}
				}
			} else {
				t.afterFailedCommit(i, r)
			}
			t.checkReaders(i)
			t.checkReaderPagesWithheld(i)
		default:
			// allocator events of ordinary operations (DeleteBucket frees pages at once)
			for _, l := range t.buf {
				t.emit(l, "ok")
				t.countFree(l)
			}
			t.buf = nil
		}
	}
	return t
}

// afterFailedCommit: C08 monitors (failedCommitClean) and the model events for a commit that
// returned an error.
func (t *tracer) afterFailedCommit(i int, r string) {
	t.rep.count("failed-commit:" + t.faultKind)
	t.checkWrites(i, false)
	if t.faultKind == "mmap" {
		// the mapping is gone: Begin must fail promptly with ErrInvalidMapping; usable after reopen
		if _, err := t.e.DB.Begin(false); err == nil || errName(err) != "err:ErrInvalidMapping" {
			t.rep.violation("C08", "monitor", "after-map-failure-begin", fmt.Sprintf("op %d: after an injected map failure Begin gives %v (expected ErrInvalidMapping)", i, err), t.replayObj(i))
		}
		t.emit("failedCommit", "ok")
		t.e.CloseAll()
		t.readers = map[string]*versionInfo{}
		if err := t.e.Open(); err != nil {
			t.rep.violation("C08", "monitor", "reopen-after-failed-commit", fmt.Sprintf("op %d: reopen after the failed commit fails: %v", i, err), t.replayObj(i))
			t.failed = "reopen"
			return
		}
		kind := "array"
		if t.o.Freelist == bolt.FreelistMapType {
			kind = "hashmap"
		}
		t.emit("reopen "+kind, "ok")
		t.buf = nil
	} else if t.faultKind == "final-sync" {
		// the exception: the meta page was written; the transaction must be entirely present or
		// entirely absent, identically in memory and on disk. With a shared page cache it is
		// present: the model sees an ordinary commit.
		t.emit("commit", "ok")
		now := "dump:" + hashStr(dumpDB(t.e.DB))
		t.afterCommitted(i)
		if t.cur != nil {
			t.hwms = append(t.hwms, t.cur.hwm)
			if now != t.cur.dump {
				t.rep.violation("C08", "monitor", "memory-vs-disk-after-final-sync-failure", fmt.Sprintf("op %d: after the failed final sync the process sees %s but the file holds %s", i, now, t.cur.dump), t.replayObj(i))
			}
		}
		t.probeNextWriter(i)
		return
	} else {
		t.emit("failedCommit", "ok")
	}
	// the database presents a committed state: the previous one (or, for the exception, the new one)
	prev := ""
	if t.cur != nil {
		prev = t.cur.dump
	}
	now := "dump:" + hashStr(dumpDB(t.e.DB))
	v, dec, err := decodeVersion(t.e.Path)
	if err != nil {
		t.rep.violation("C08", "monitor", "decode-after-failed-commit", fmt.Sprintf("op %d: file not decodable after a failed commit: %v", i, dec), t.replayObj(i))
		return
	}
	if now != prev {
		t.rep.violation("C08", "monitor", "failed-commit-visible:"+t.faultKind, fmt.Sprintf("op %d: commit failed (%s at I/O call %d) yet the content changed: %s -> %s", i, t.faultKind, t.faultAt, prev, now), t.replayObj(i))
	} else if v.dump != prev {
		t.rep.violation("C08", "monitor", "failed-commit-on-disk:"+t.faultKind, fmt.Sprintf("op %d: commit failed (%s) yet the file content changed", i, t.faultKind), t.replayObj(i))
	}
	t.cur = v
	if dec[6] != "errors -" || !strings.HasPrefix(dec[5], "accounting ok=true") {
		t.rep.violation("C08", "monitor", "accounting-after-failed-commit:"+t.faultKind, fmt.Sprintf("op %d: %s | %s", i, truncate(dec[5], 200), truncate(dec[6], 200)), t.replayObj(i))
	}
	// in-memory allocator = what the file says (free + pending = ids on the freelist page / unreferenced pages)
	free, pend := t.e.DB.VerifFreelistState()
	var ids []uint64
	ids = append(ids, free...)
	for _, p := range pend {
		ids = append(ids, p[1])
	}
	sortU64(ids)
	if dec[3] != "flpage -" && "free "+u64s(ids) != dec[4] {
		t.rep.violation("C08", "monitor", "allocator-after-failed-commit:"+t.faultKind, fmt.Sprintf("op %d: after the failed commit the in-memory free+pending ids differ from the committed freelist page", i), t.replayObj(i))
	}
	// every page below the high-water mark is referenced by the committed state or free/pending
	// in memory — otherwise the next commit persists a leak (C07) and Tx.Check reports it
	inMem := map[uint64]bool{}
	for _, id := range ids {
		inMem[id] = true
	}
	for p := uint64(2); p < v.hwm; p++ {
		if !v.used[p] && !inMem[p] {
			t.rep.violation("C07", "monitor", "leak-after-failed-tx", fmt.Sprintf("op %d: after the failed transaction page %d is neither referenced by the committed state nor free/pending in memory (the next commit would persist the leak)", i, p), t.replayObj(i))
			// the same observation is C10's: space that no transaction uses is lost to the allocator
			t.rep.violation("C10", "monitor", "free-page-lost-after-failed-tx", fmt.Sprintf("op %d: page %d was reusable before the failed transaction; afterwards it is neither referenced, free nor pending: it can never be reused", i, p), t.replayObj(i))
			break
		}
	}
	if bad := checkDB(t.e.DB); bad != "" {
		t.rep.violation("C07", "monitor", "check-after-failed-tx", fmt.Sprintf("op %d: Tx.Check after the failed transaction: %s", i, truncate(bad, 200)), t.replayObj(i))
	}
	for _, id := range ids {
		if v.used[id] {
			t.rep.violation("C08", "monitor", "allocator-after-failed-commit:"+t.faultKind, fmt.Sprintf("op %d: page %d is free/pending in memory but referenced by the committed state", i, id), t.replayObj(i))
			break
		}
	}
	t.emit("used", usedLine(v))
	t.emit("fl", flLine(t.e.DB))
	t.probeNextWriter(i)
}

// probeNextWriter: the next write transaction proceeds without blocking.
func (t *tracer) probeNextWriter(i int) {
	done := make(chan error, 1)
	go func() {
		tx, err := t.e.DB.Begin(true)
		if err == nil {
			err = tx.Rollback()
		}
		done <- err
	}()
	select {
	case err := <-done:
		if err != nil {
			t.rep.violation("C08", "monitor", "next-writer-fails", fmt.Sprintf("op %d: Begin(true) after the failed commit: %v", i, err), t.replayObj(i))
		} else {
			// the probe is a write transaction of its own (its begin releases pending pages)
			t.emit("beginW", "ok")
			t.emit("rollback", "ok")
		}
	case <-time.After(5 * time.Second):
		t.rep.violation("C08", "monitor", "next-writer-blocks", fmt.Sprintf("op %d: Begin(true) blocks after the failed commit (%s)", i, t.faultKind), t.replayObj(i))
		t.failed = "blocked"
	}
	t.buf = nil // the probe's ReleasePendingPages has no alloc/free events
}

func installHooks() {
	bolt.VerifFLHook = func(db *bolt.DB, ev string, a, b, c uint64) {
		t := curTracer
		if t == nil {
			return
		}
		switch ev {
		case "alloc":
			t.buf = append(t.buf, fmt.Sprintf("alloc %d %d", b, c))
		case "free":
			t.buf = append(t.buf, fmt.Sprintf("free %d %d", b, c))
		}
	}
	bolt.VerifIOHook = func(db *bolt.DB, kind string, off int64, data []byte) error {
		t := curTracer
		if t == nil {
			return nil
		}
		if t.faultOp >= 0 && t.curOp == t.faultOp {
			t.ioCount++
			t.ioKinds = append(t.ioKinds, kind)
			if t.ioCount == t.faultAt {
				t.faultKind = kind
				if kind == "sync" && len(t.writes) > 0 && t.writes[len(t.writes)-1][0] < 2*int64(db.VerifPageSize()) {
					t.faultKind = "final-sync"
				}
				return fmt.Errorf("injected %s failure", kind)
			}
		}
		if kind == "write" {
			t.writes = append(t.writes, [2]int64{off, int64(len(data))})
		}
		return nil
	}
}

func traceEngine() {
	start := time.Now()
	rep := newReport("trace")
	rep.Rule = "case = one history (options, op list with readers/rollbacks/reopens); non-trivial = at least two committed write transactions and one reader held across a commit; distinct by program text"
	dir := tmpDir()
	defer os.RemoveAll(dir)
	installHooks()
	rng := rand.New(rand.NewSource(*flagSeed))
	nProg := 60
	if *flagTier == "thorough" {
		nProg = 1500
	}
	for pi := 0; pi < nProg; pi++ {
		o := randOpts(rng)
		g := NewGen(rng.Int63(), o.PageSize)
		ops := g.History(5+rng.Intn(14), true, true)
		steady := pi%6 == 5
		if steady {
			ops = steadyOverwrite(rng, o.PageSize)
		}
		if pi%6 == 4 {
			ops = readerProgram(rng)
		}
		if pi%12 == 7 {
			ops = rollbackAfterFrees(rng)
		}
		if pi%6 == 2 {
			// a size limit small enough that some commits are rejected (failed transactions
			// inside spill / commitFreelist), followed by further transactions
			o.MaxSize = []int{48 << 10, 96 << 10, 200 << 10, 70000}[rng.Intn(4)]
			o.NoGrowSync = false
		}
		inFlight("trace", map[string]any{"options": o.String(), "opts": o, "ops": opLines(ops)})
		t := runTrace(rep, dir, fmt.Sprintf("t%d", pi), o, ops)
		inFlight("trace", nil)
		t.steady = steady
		checkTrace(rep, t)
	}
	rep.finish(start)
}

// readerProgram: readers opened on successive versions and closed in different orders (oldest
// first, newest first, random), with and without write transactions in between.
func readerProgram(rng *rand.Rand) []Op {
	ops := []Op{{K: "beginw"}, {K: "mkb", Tx: "w", Key: "s"}, {K: "commit"}}
	tx := func(r int) {
		ops = append(ops, Op{K: "beginw"})
		for k := 0; k < 30; k++ {
			ops = append(ops, Op{K: "put", Tx: "w", Path: []string{"s"}, Key: fmt.Sprintf("key%04d", k), Val: strings.Repeat(string(rune('a'+r%26)), 120)})
		}
		ops = append(ops, Op{K: "commit"})
	}
	n := 0
	for round := 0; round < 4; round++ {
		k := 3 + rng.Intn(3)
		var ids []string
		for j := 0; j < k; j++ {
			tx(n)
			n++
			id := fmt.Sprintf("rp%d_%d", round, j)
			ids = append(ids, id)
			ops = append(ops, Op{K: "beginr", Tx: id})
		}
		order := rng.Perm(k)
		switch rng.Intn(3) {
		case 0: // oldest first
			for j := range order {
				order[j] = j
			}
		case 1: // newest first
			for j := range order {
				order[j] = k - 1 - j
			}
		}
		for _, j := range order {
			ops = append(ops, Op{K: "dump", Tx: ids[j]}, Op{K: "endr", Tx: ids[j]})
			if rng.Intn(4) == 0 {
				tx(n)
				n++
			}
		}
		for j := 0; j < 3; j++ {
			tx(n)
			n++
		}
	}
	return ops
}

// steadyOverwrite: the same keys rewritten by 70 consecutive transactions, no readers.
// rollbackAfterFrees: a write transaction that frees pages eagerly (DeleteBucket of a paged
// bucket, with or without further edits) is rolled back by the user; the deleted bucket is still
// part of the committed state, and the following writers must not recycle its pages.
func rollbackAfterFrees(rng *rand.Rand) []Op {
	ops := []Op{{K: "beginw"}, {K: "mkb", Tx: "w", Key: "victim"}, {K: "mkb", Tx: "w", Key: "other"}}
	nk := 150 + rng.Intn(300)
	for k := 0; k < nk; k++ {
		ops = append(ops, Op{K: "put", Tx: "w", Path: []string{"victim"}, Key: fmt.Sprintf("v%05d", k), Val: strings.Repeat("x", 40+k%60)})
	}
	ops = append(ops, Op{K: "commit"})
	for round := 0; round < 2+rng.Intn(3); round++ {
		ops = append(ops, Op{K: "beginw"}, Op{K: "rmb", Tx: "w", Key: "victim"})
		if rng.Intn(2) == 0 {
			ops = append(ops, Op{K: "put", Tx: "w", Path: []string{"other"}, Key: "tmp", Val: "y"})
		}
		ops = append(ops, Op{K: "rollback", Tx: "w"})
		// writers that need pages
		for c := 0; c < 3+rng.Intn(4); c++ {
			ops = append(ops, Op{K: "beginw"})
			for k := 0; k < 40+rng.Intn(80); k++ {
				ops = append(ops, Op{K: "put", Tx: "w", Path: []string{"other"}, Key: fmt.Sprintf("o%05d", rng.Intn(500)), Val: strings.Repeat("z", 30+rng.Intn(200))})
			}
			ops = append(ops, Op{K: "commit"})
		}
		ops = append(ops, Op{K: "beginr", Tx: "r9"}, Op{K: "dump", Tx: "r9"}, Op{K: "endr", Tx: "r9"})
	}
	return ops
}

func steadyOverwrite(rng *rand.Rand, ps int) []Op {
	ops := []Op{{K: "beginw"}, {K: "mkb", Tx: "w", Key: "s"}, {K: "commit"}}
	nk := 20 + rng.Intn(100)
	vlen := []int{10, 100, 300}[rng.Intn(3)]
	for r := 0; r < 70; r++ {
		ops = append(ops, Op{K: "beginw"})
		for k := 0; k < nk; k++ {
			ops = append(ops, Op{K: "put", Tx: "w", Path: []string{"s"}, Key: fmt.Sprintf("key%04d", k), Val: strings.Repeat(string(rune('a'+r%26)), vlen)})
		}
		ops = append(ops, Op{K: "commit"})
		if r == 35 && rng.Intn(2) == 0 {
			ops = append(ops, Op{K: "reopen"})
		}
	}
	return ops
}

func checkTrace(rep *Report, t *tracer) {
	rep.Programs++
	// C10: a steady overwrite workload without readers does not grow the file without bound
	if t.steady && len(t.hwms) >= 60 {
		early, late := t.hwms[15], t.hwms[len(t.hwms)-1]
		rep.count("steady-workloads")
		if late > early+early/4+8 {
			rep.violation("C10", "monitor", "steady-workload-grows", fmt.Sprintf("steady overwrite workload: high-water mark %d after 16 commits, %d after %d commits", early, late, len(t.hwms)), t.replayObj(len(t.ops)))
		}
	}
	rep.Evaluations += len(t.lines)
	commits, heldAcross := 0, false
	for _, l := range t.lines {
		rep.count(strings.Fields(l)[0])
		if l == "commit" {
			commits++
		}
	}
	_ = heldAcross
	if commits >= 2 {
		rep.Distinct++
	}
	if rep.Programs <= 2 {
		n := min(len(t.lines), 14)
		rep.sample(map[string]any{"options": t.o.String(), "model_events": t.lines[:n]})
	}
	if *flagModel == "" {
		return
	}
	got, err := runModel([]string{"store"}, t.lines)
	if err != nil || len(got) != len(t.lines) {
		rep.violation(*flagProp, "correspondence", "model-driver-failed", fmt.Sprintf("store driver: %v (%d/%d)", err, len(got), len(t.lines)), nil)
		return
	}
	for i := range t.lines {
		if got[i] == t.want[i] {
			continue
		}
		rep.Disagree++
		kind := strings.Fields(t.lines[i])[0]
		what := fmt.Sprintf("event %d `%s`: the protocol model answers %q, the implementation trace requires %q", i, truncate(t.lines[i], 60), truncate(got[i], 300), truncate(t.want[i], 300))
		rp := t.replayObj(len(t.ops))
		rp["ops"] = opLines(t.ops)
		rp["model_events"] = t.lines[:i+1]
		rep.violation(*flagProp, "correspondence", "store-model-vs-impl:"+kind, what, rp)
		break
	}
}
