package main

import (
	"encoding/json"
	"fmt"
	"math/rand"
	"os"
	"path/filepath"
	"sort"
	"strings"
	"time"

	bolt "go.etcd.io/bbolt"
)

// Engine bkt (C04, C07): a bucket with nested buckets inside write transactions against the Lean
// model Bolt/Model/Bkt.lean (driver command `bkt`): which sub-buckets are opened, CreateBucket /
// DeleteBucket / Put / Delete / SetSequence on any of them, and at commit rebalance + spill of
// every opened bucket incl. the inline <-> paged decision and the rewriting of the parent's
// element.  Compared: the in-memory structure after the calls (opened buckets, their node
// trees) and the complete bucket tree the commit wrote (every nested bucket, which old pages
// survive, headers: inline / sequence).

func init() { engines["bkt"] = bktEngine }

type bkNode struct {
	root, seq string
	tree      *btNode
	names     []string
	kids      []*bkNode
}

func parseBK(toks []string) (*bkNode, []string) {
	if len(toks) < 4 || toks[0] != "K" {
		return nil, nil
	}
	b := &bkNode{root: toks[1], seq: toks[2]}
	b.tree, toks = parseBT(toks[3:])
	if b.tree == nil || len(toks) < 1 {
		return nil, nil
	}
	var n int
	fmt.Sscan(toks[0], &n)
	toks = toks[1:]
	for i := 0; i < n; i++ {
		if len(toks) < 1 {
			return nil, nil
		}
		name := toks[0]
		var c *bkNode
		c, toks = parseBK(toks[1:])
		if c == nil {
			return nil, nil
		}
		b.names = append(b.names, name)
		b.kids = append(b.kids, c)
	}
	return b, toks
}

func tokLen(t string) int {
	if t == "-" {
		return 0
	}
	if strings.HasPrefix(t, "*") {
		var n int
		fmt.Sscanf(t, "*%d:", &n)
		return n
	}
	return len(t) / 2
}

func zerosTok(n int) string {
	if n == 0 {
		return "-"
	}
	if n > 32 {
		return fmt.Sprintf("*%d:00", n)
	}
	return strings.Repeat("00", n)
}

// the value of a nested-bucket element is opaque except for its length
func (n *btNode) opaqueBuckets() {
	for i := range n.items {
		var fl int
		fmt.Sscan(n.items[i][2], &fl)
		if fl%2 == 1 {
			n.items[i][1] = zerosTok(tokLen(n.items[i][1]))
		}
	}
	for _, c := range n.kids {
		c.opaqueBuckets()
	}
}

func (b *bkNode) pgids(out map[string]bool) {
	out[b.root] = true
	b.tree.allPgids(out)
	for _, c := range b.kids {
		c.pgids(out)
	}
}

// canonical form; keep == nil: every page id is kept; else ids outside keep become 0 (tree
// nodes: a page the commit wrote) / 1 (bucket root: a new root page)
func (b *bkNode) canon(sb *strings.Builder, keep map[string]bool) {
	root := b.root
	if keep != nil && root != "0" && !keep[root] {
		root = "1"
	}
	fmt.Fprintf(sb, "K %s %s ", root, b.seq)
	b.tree.opaqueBuckets()
	if keep == nil {
		all := map[string]bool{}
		b.tree.allPgids(all)
		b.tree.full(sb, all)
	} else {
		b.tree.full(sb, keep)
	}
	fmt.Fprintf(sb, "%d ", len(b.kids))
	idx := make([]int, len(b.kids))
	for i := range idx {
		idx[i] = i
	}
	sort.Slice(idx, func(x, y int) bool { return unhx(b.names[idx[x]]) < unhx(b.names[idx[y]]) }) // the cache is a map: order by name
	for _, i := range idx {
		sb.WriteString(b.names[i] + " ")
		b.kids[i].canon(sb, keep)
	}
}

func bkCanon(s string, keep map[string]bool) string {
	b, _ := parseBK(strings.Fields(s))
	if b == nil {
		return "unparsable:" + truncate(s, 100)
	}
	var sb strings.Builder
	b.canon(&sb, keep)
	return strings.TrimSpace(sb.String())
}

type bktTx struct {
	Fill float64  `json:"fill"`
	Ops  []string `json:"ops"` // "<path> mk <name>" | "<path> rm <name>" | "<path> put <k> <v>" | "<path> del <k>" | "<path> seq <n>"; path = "." or hex names joined by "/"
}

type bktScenario struct {
	Root     bool    `json:"root,omitempty"` // the modelled top bucket is the transaction's root bucket itself
	PageSize int     `json:"page_size"`
	Txs      []bktTx `json:"txs"`
}

func runBktScenario(rep *Report, sc bktScenario, tag string) {
	dir := tmpDir()
	path := filepath.Join(dir, "bk-"+tag+".db")
	_ = os.Remove(path)
	inFlight("bkt", sc)
	db, err := bolt.Open(path, 0o600, &bolt.Options{PageSize: sc.PageSize, NoSync: true, NoFreelistSync: true})
	if err != nil {
		rep.violation(*flagProp, "correspondence", "bkt-open-failed", err.Error(), sc)
		return
	}
	defer func() { db.Close(); os.Remove(path) }()
	var order []int
	bolt.VerifEventHook = func(_ *bolt.DB, ev string, n int) {
		if ev == "rebalance" {
			order = append(order, n)
		}
	}
	defer func() { bolt.VerifEventHook = nil; bolt.VerifFLHook = nil }()
	var freedLog []uint64
	bolt.VerifFLHook = func(_ *bolt.DB, ev string, a, b, c uint64) {
		if ev == "free" {
			for i := uint64(0); i <= c; i++ {
				freedLog = append(freedLog, b+i)
			}
		}
	}
	ps := db.Info().PageSize
	topOf := func(tx *bolt.Tx) *bolt.Bucket {
		if sc.Root {
			return tx.Cursor().Bucket()
		}
		return tx.Bucket([]byte("b"))
	}
	if !sc.Root {
		if err := db.Update(func(tx *bolt.Tx) error { _, err := tx.CreateBucket([]byte("b")); return err }); err != nil {
			return
		}
	}
	var lines, want []string
	add := func(l, w string) { lines = append(lines, l); want = append(want, w) }
	fail := func(sig, what string) { rep.violation(*flagProp, "monitor", sig, what, sc) }
	for ti, t := range sc.Txs {
		var before string
		_ = db.View(func(tx *bolt.Tx) error { before = topOf(tx).VerifBucketTree(true); return nil })
		bb, _ := parseBK(strings.Fields(before))
		if bb == nil {
			fail("bkt-unparsable", truncate(before, 200))
			return
		}
		beforeSet := map[string]bool{}
		bb.pgids(beforeSet)
		delete(beforeSet, "0")
		add("orig "+bkCanon(before, nil), "ok a=true o=true w=true z=true") // the file content equals the reference model's state; the decidable well-formedness holds on it
		fill := t.Fill
		if fill < 0.1 {
			fill = 0.1
		} else if fill > 1.0 {
			fill = 1.0
		}
		add(fmt.Sprintf("cfg %d %d %d", ps, int(float64(ps)*fill), int(float64(ps)*t.Fill)/2), "ok")
		tx, err := db.Begin(true)
		if err != nil {
			fail("bkt-begin-failed", err.Error())
			return
		}
		freedLog = freedLog[:0]
		top := topOf(tx)
		top.FillPercent = t.Fill
		// nav walks an opened-bucket path, mirroring every Bucket() call to the model
		nav := func(path string) (*bolt.Bucket, bool) {
			cur := top
			sofar := "."
			if path == "." {
				return cur, true
			}
			for _, name := range strings.Split(path, "/") {
				child := cur.Bucket([]byte(unhx(name)))
				if child == nil {
					add(fmt.Sprintf("open %s %s", sofar, name), "nil")
					return nil, false
				}
				add(fmt.Sprintf("open %s %s", sofar, name), "ok")
				child.FillPercent = t.Fill
				cur = child
				if sofar == "." {
					sofar = name
				} else {
					sofar += "/" + name
				}
			}
			return cur, true
		}
		// openAll opens every bucket nested below b (path p), mirrored to the model
		var openAll func(b *bolt.Bucket, p string)
		openAll = func(b *bolt.Bucket, p string) {
			var names []string
			_ = b.ForEachBucket(func(k []byte) error { names = append(names, hx(string(k))); return nil })
			for _, n := range names {
				c := b.Bucket([]byte(unhx(n)))
				if c == nil {
					add(fmt.Sprintf("open %s %s", p, n), "nil")
					continue
				}
				add(fmt.Sprintf("open %s %s", p, n), "ok")
				c.FillPercent = t.Fill
				np := n
				if p != "." {
					np = p + "/" + n
				}
				openAll(c, np)
			}
		}
		for _, o := range t.Ops {
			f := strings.Fields(o)
			if f[1] == "mv" {
				// "<src> mv <name> <dst>": the moved bucket is opened with everything nested in it first
				src, ok1 := nav(f[0])
				if !ok1 {
					continue
				}
				dst, ok2 := nav(f[3])
				if !ok2 {
					continue
				}
				if c := src.Bucket([]byte(unhx(f[2]))); c != nil {
					add(fmt.Sprintf("open %s %s", f[0], f[2]), "ok")
					c.FillPercent = t.Fill
					np := f[2]
					if f[0] != "." {
						np = f[0] + "/" + f[2]
					}
					openAll(c, np)
				}
				if err := src.MoveBucket([]byte(unhx(f[2])), dst); err == nil {
					add(fmt.Sprintf("mv %s %s %s", f[0], f[2], f[3]), "ok")
					rep.count("move-bucket")
				} else {
					add(fmt.Sprintf("mv %s %s %s", f[0], f[2], f[3]), "refused")
					rep.count("move-bucket-refused")
				}
				continue
			}
			cur := top
			sofar := "."
			ok := true
			if f[0] != "." {
				for _, name := range strings.Split(f[0], "/") {
					child := cur.Bucket([]byte(unhx(name)))
					if child == nil {
						add(fmt.Sprintf("open %s %s", sofar, name), "nil")
						ok = false
						break
					}
					add(fmt.Sprintf("open %s %s", sofar, name), "ok")
					child.FillPercent = t.Fill
					cur = child
					if sofar == "." {
						sofar = name
					} else {
						sofar += "/" + name
					}
				}
			}
			if !ok {
				continue
			}
			switch f[1] {
			case "mk":
				nb, err := cur.CreateBucket([]byte(unhx(f[2])))
				if err == nil {
					nb.FillPercent = t.Fill
					add(fmt.Sprintf("mk %s %s", f[0], f[2]), "ok")
				} else {
					add(fmt.Sprintf("mk %s %s", f[0], f[2]), "refused")
				}
			case "rm":
				if err := cur.DeleteBucket([]byte(unhx(f[2]))); err == nil {
					add(fmt.Sprintf("rm %s %s", f[0], f[2]), "ok")
				} else {
					add(fmt.Sprintf("rm %s %s", f[0], f[2]), "refused")
				}
			case "put":
				_ = cur.Put([]byte(unhx(f[2])), tokenVal(f[3]))
				add(fmt.Sprintf("put %s %s %s", f[0], f[2], f[3]), "ok")
			case "del":
				_ = cur.Delete([]byte(unhx(f[2])))
				add(fmt.Sprintf("del %s %s", f[0], f[2]), "ok")
			case "nseq":
				_, _ = cur.NextSequence()
				add(fmt.Sprintf("nseq %s", f[0]), "ok")
			case "get":
				v := cur.Get([]byte(unhx(f[2])))
				w := "nil"
				if v != nil {
					w = "v:" + valToken(v)
				}
				add(fmt.Sprintf("get %s %s", f[0], f[2]), w)
			case "seq":
				var n uint64
				fmt.Sscan(f[2], &n)
				_ = cur.SetSequence(n)
				add(fmt.Sprintf("seq %s %d", f[0], n), "ok")
			}
		}
		add("dump", "CANON:"+bkCanon(top.VerifBucketTree(false), nil))
		add("agree", "a=true w=true") // abstraction of the model state = reference model after the same API calls
		order = order[:0]
		if err := tx.Commit(); err != nil {
			fail("bkt-commit-failed", fmt.Sprintf("tx %d: %v", ti, err))
			return
		}
		var os_ []string
		for _, pg := range order {
			os_ = append(os_, fmt.Sprint(pg))
		}
		if len(os_) == 0 {
			os_ = []string{"-"}
		}
		if sc.Root {
			add("commitroot "+strings.Join(os_, ","), "ok a=true")
		} else {
			add("commit "+strings.Join(os_, ","), "ok a=true")
		}
		var after string
		_ = db.View(func(tx *bolt.Tx) error { after = topOf(tx).VerifBucketTree(true); return nil })
		// page accounting over the whole bucket tree (nested and deleted buckets included): the pages
		// of the old state that the new state no longer references are exactly the pages freed, each once
		{
			surv := map[string]bool{}
			if ab, _ := parseBK(strings.Fields(after)); ab != nil {
				ab.pgids(surv)
			}
			seen := map[uint64]int{}
			for _, id := range freedLog {
				seen[id]++
			}
			for pg := range beforeSet {
				var id uint64
				fmt.Sscan(pg, &id)
				switch {
				case surv[pg] && seen[id] > 0:
					rep.violation("C07", "monitor", "bucket-page-freed-and-kept", fmt.Sprintf("tx %d: page %s of the old bucket tree was freed although the committed state still references it", ti, pg), sc)
				case !surv[pg] && seen[id] == 0:
					rep.violation("C07", "monitor", "bucket-page-leaked", fmt.Sprintf("tx %d: page %s of the old bucket tree is neither referenced by the committed state nor freed", ti, pg), sc)
				case seen[id] > 1:
					rep.violation("C07", "monitor", "bucket-page-freed-twice", fmt.Sprintf("tx %d: page %s freed %d times", ti, pg, seen[id]), sc)
				}
			}
		}
		add("full", "KEEP:"+bkCanon(after, beforeSet))
		add("fullok", "o=true")
		rep.count("tx")
		// structural monitors on every bucket's committed tree
		ab, _ := parseBK(strings.Fields(after))
		var walk func(b *bkNode, p string)
		nb := 0
		walk = func(b *bkNode, p string) {
			nb++
			ld := -1
			var flat [][2]string
			if pr := b.tree.wf(true, 0, &ld, &flat); pr != "" {
				rep.violation("C07", "monitor", "btree-structure:"+strings.SplitN(pr, " ", 3)[0], fmt.Sprintf("after tx %d the tree of bucket %s is malformed: %s", ti, p, pr), sc)
			}
			for i := 1; i < len(flat); i++ {
				if unhx(flat[i-1][0]) >= unhx(flat[i][0]) {
					rep.violation("C07", "monitor", "btree-key-order", fmt.Sprintf("after tx %d bucket %s: keys %s, %s not ascending", ti, p, flat[i-1][0], flat[i][0]), sc)
					break
				}
			}
			if b.root == "0" {
				rep.count("inline-bucket")
			} else if ld > 1 {
				rep.count("multi-level-bucket")
			}
			for i, c := range b.kids {
				walk(c, p+"/"+b.names[i])
			}
		}
		if ab != nil {
			walk(ab, "b")
		}
		if nb > 1 {
			rep.count("tx-with-nested-buckets")
		}
	}
	rep.Evaluations += len(lines)
	if *flagModel == "" {
		return
	}
	got, err := runModel([]string{"bkt"}, lines)
	if err != nil || len(got) != len(lines) {
		rep.violation(*flagProp, "correspondence", "model-driver-failed", fmt.Sprintf("bkt driver: %v (%d/%d)", err, len(got), len(lines)), sc)
		return
	}
	for i := range lines {
		w, g := want[i], strings.TrimSpace(got[i])
		kind := strings.Fields(lines[i])[0]
		if strings.HasPrefix(w, "CANON:") {
			w = strings.TrimPrefix(w, "CANON:")
			if g != "none" {
				g = bkCanon(g, nil)
			}
			kind = "buckets-after-calls"
		} else if strings.HasPrefix(w, "KEEP:") {
			w = strings.TrimPrefix(w, "KEEP:")
			if g != "none" {
				all := map[string]bool{}
				if gb, _ := parseBK(strings.Fields(g)); gb != nil {
					gb.pgids(all)
				}
				g = bkCanon(g, all)
			}
			kind = "committed-buckets"
		}
		if w != g {
			rep.Disagree++
			wt, gt := strings.Fields(w), strings.Fields(g)
			d := 0
			for d < len(wt) && d < len(gt) && wt[d] == gt[d] {
				d++
			}
			ctx := func(t []string) string {
				lo, hi := d-4, d+8
				if lo < 0 {
					lo = 0
				}
				if hi > len(t) {
					hi = len(t)
				}
				return strings.Join(t[lo:hi], " ")
			}
			rep.violation(*flagProp, "correspondence", "bkt-model-vs-impl:"+kind,
				fmt.Sprintf("line %d `%s`: implementation and model differ at token %d: impl `…%s…` model `…%s…`", i, truncate(lines[i], 60), d, truncate(ctx(wt), 240), truncate(ctx(gt), 240)), sc)
			break
		}
	}
}

// generator with a shadow of the bucket names, so that most paths resolve
type bkShadow struct {
	kids map[string]*bkShadow
	keys map[int]bool
}

func bktGenScenario(rng *rand.Rand, ntx int, forceRoot bool) bktScenario {
	sc := bktScenario{PageSize: []int{1024, 1024, 4096, 16384}[rng.Intn(4)], Root: rng.Intn(3) == 0 || forceRoot}
	ps := sc.PageSize
	root := &bkShadow{kids: map[string]*bkShadow{}, keys: map[int]bool{}}
	key := func(i int) string { return hx(fmt.Sprintf("k%04d", i)) }
	val := func() string {
		switch rng.Intn(10) {
		case 0:
			return "-"
		case 1:
			return fmt.Sprintf("*%d:%02x", ps/4+rng.Intn(ps), 97+rng.Intn(20))
		case 2, 3:
			return fmt.Sprintf("*%d:%02x", 33+rng.Intn(150), 97+rng.Intn(20))
		default:
			return hx(fmt.Sprintf("v%d", rng.Intn(100000)))
		}
	}
	// pick a random existing bucket (path, shadow)
	pick := func() (string, *bkShadow) {
		p, s := ".", root
		for d := 0; d < 3; d++ {
			if len(s.kids) == 0 || rng.Intn(3) == 0 {
				break
			}
			var ns []string
			for n := range s.kids {
				ns = append(ns, n)
			}
			sort.Strings(ns)
			n := ns[rng.Intn(len(ns))]
			if p == "." {
				p = n
			} else {
				p += "/" + n
			}
			s = s.kids[n]
		}
		return p, s
	}
	for t := 0; t < ntx; t++ {
		tx := bktTx{Fill: []float64{0.5, 0.5, 0.5, 1.0, 0.1, 0.3, 0.75}[rng.Intn(7)]}
		nops := 1 + rng.Intn(12)
		for i := 0; i < nops; i++ {
			p, s := pick()
			r := rng.Intn(20)
			if sc.Root && p == "." {
				// the root bucket holds buckets only (Tx has no Put/Delete/SetSequence): many top-level buckets
				name := hx(fmt.Sprintf("t%02d", rng.Intn(40)))
				if rng.Intn(4) == 0 {
					tx.Ops = append(tx.Ops, p+" rm "+name)
					delete(s.kids, name)
				} else {
					tx.Ops = append(tx.Ops, p+" mk "+name)
					if _, ok := s.kids[name]; !ok {
						s.kids[name] = &bkShadow{kids: map[string]*bkShadow{}, keys: map[int]bool{}}
					}
				}
				continue
			}
			switch {
			case r < 3: // create a sub-bucket
				name := hx(fmt.Sprintf("b%d", rng.Intn(6)))
				tx.Ops = append(tx.Ops, p+" mk "+name)
				if _, ok := s.kids[name]; !ok {
					s.kids[name] = &bkShadow{kids: map[string]*bkShadow{}, keys: map[int]bool{}}
				}
			case r >= 18: // move a sub-bucket (mostly an existing one) to another bucket
				name := hx(fmt.Sprintf("b%d", rng.Intn(6)))
				if len(s.kids) > 0 && rng.Intn(5) != 0 {
					var ns []string
					for n := range s.kids {
						ns = append(ns, n)
					}
					sort.Strings(ns)
					name = ns[rng.Intn(len(ns))]
				}
				q, ds := pick()
				for tries := 0; tries < 4 && ds == s; tries++ {
					q, ds = pick()
				}
				if sc.Root && (q == "." || p == ".") {
					break // moving top-level buckets needs Tx.MoveBucket; keep to nested ones
				}
				tx.Ops = append(tx.Ops, p+" mv "+name+" "+q)
				moved := p + "/" + name
				if p == "." {
					moved = name
				}
				if sub, ok := s.kids[name]; ok && ds != s && q != moved && !strings.HasPrefix(q, moved+"/") {
					if _, exists := ds.kids[name]; !exists {
						if _, isKey := ds.keys[-1]; !isKey {
							delete(s.kids, name)
							ds.kids[name] = sub
						}
					}
				}
			case r < 4: // delete a sub-bucket (existing or not)
				name := hx(fmt.Sprintf("b%d", rng.Intn(6)))
				tx.Ops = append(tx.Ops, p+" rm "+name)
				delete(s.kids, name)
			case r < 6:
				if rng.Intn(2) == 0 {
					tx.Ops = append(tx.Ops, fmt.Sprintf("%s seq %d", p, rng.Intn(1000)))
				} else {
					tx.Ops = append(tx.Ops, p+" nseq")
				}
			case r < 7: // a path that does not resolve / a key that is a bucket
				if rng.Intn(2) == 0 {
					tx.Ops = append(tx.Ops, hx("nosuch")+" put "+key(1)+" "+val())
				} else {
					tx.Ops = append(tx.Ops, p+" put "+hx(fmt.Sprintf("b%d", rng.Intn(6)))+" "+val())
				}
			case r < 9: // burst of puts: grows the bucket past inline / page limits
				n := 5 + rng.Intn(60)
				if rng.Intn(3) == 0 {
					n = 100 + rng.Intn(300)
				}
				base := rng.Intn(400)
				for j := 0; j < n; j++ {
					k := base + j
					tx.Ops = append(tx.Ops, p+" put "+key(k)+" "+val())
					s.keys[k] = true
				}
			case r < 11: // burst of deletes: shrinks it back
				var ks []int
				for k := range s.keys {
					ks = append(ks, k)
				}
				sort.Ints(ks)
				n := len(ks)
				if n > 0 {
					st := rng.Intn(n)
					for j := st; j < n && j < st+5+rng.Intn(80); j++ {
						tx.Ops = append(tx.Ops, p+" del "+key(ks[j]))
						delete(s.keys, ks[j])
					}
				}
			case r < 14:
				k := rng.Intn(400)
				tx.Ops = append(tx.Ops, p+" put "+key(k)+" "+val())
				s.keys[k] = true
			case r < 16: // reads inside the write transaction (own writes, missing keys, bucket names)
				if rng.Intn(4) == 0 {
					tx.Ops = append(tx.Ops, p+" get "+hx(fmt.Sprintf("b%d", rng.Intn(6))))
				} else {
					tx.Ops = append(tx.Ops, p+" get "+key(rng.Intn(400)))
				}
			default:
				k := rng.Intn(400)
				tx.Ops = append(tx.Ops, p+" del "+key(k))
				delete(s.keys, k)
			}
		}
		sc.Txs = append(sc.Txs, tx)
	}
	return sc
}

func bktEngine() {
	start := time.Now()
	rep := newReport("bkt")
	rep.Rule = "case = one protocol line (bucket tree hand-over, Bucket/CreateBucket/DeleteBucket/Put/Delete/SetSequence call, structure after the calls, commit, committed bucket tree) of a generated multi-transaction scenario on nested buckets; non-trivial = transaction on a tree with nested buckets"
	rng := rand.New(rand.NewSource(*flagSeed))
	nsc, ntx := 6, 30
	if *flagTier == "thorough" {
		nsc, ntx = 300, 40
	}
	for i := 0; i < nsc; i++ {
		sc := bktGenScenario(rng, ntx, i == 1) // at least one scenario on the transaction's root bucket in every run
		if sc.Root {
			rep.count("root-bucket-scenario")
		}
		runBktScenario(rep, sc, fmt.Sprint(i))
		rep.Programs++
		if len(rep.Violations) > 5 {
			break
		}
	}
	inFlight("bkt", nil)
	rep.Distinct = rep.Distribution["tx-with-nested-buckets"]
	rep.finish(start)
}

func bktReplay(rep *Report, raw json.RawMessage) {
	var sc bktScenario
	_ = json.Unmarshal(raw, &sc)
	runBktScenario(rep, sc, "replay")
}
