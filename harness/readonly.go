package main

import (
	"bytes"
	"fmt"
	"math/rand"
	"os"
	"os/exec"
	"path/filepath"
	"strings"
	"syscall"
	"time"

	bolt "go.etcd.io/bbolt"
)

// Engine readonly (C17):
//  (a) lock matrix: every order of read-write / read-only open and close attempts by up to 3
//      actors, from separate processes (helper `vh lockhelper`) and from one process, with
//      short timeouts — compared with the Lean model `Bolt.Flock` (driver command `flock`);
//  (b) a database opened read-only refuses write transactions and no API program, nor any of
//      the command-line tool's inspection commands, changes a byte of the file (SHA-256);
//  (c) memory handed out by a read transaction is not a writable view of the database: a
//      child process writes into every returned slice and must fault, or leave the stored
//      content unchanged.

// dumpHelper: open read-only, print content hash and Tx.Check result (used where the file may be damaged)
func dumpHelper() {
	d, bad, err := openDump(*flagFile)
	if err != nil {
		fmt.Println("dumphelper-open-failed", err)
		os.Exit(3)
	}
	fmt.Printf("dumphelper %s %q\n", d, bad)
}

func safeDump(self, path string) (string, string, error) {
	out, err := exec.Command(self, "dumphelper", "-replay", path).CombinedOutput()
	var d, bad string
	for _, ln := range strings.Split(string(out), "\n") {
		if strings.HasPrefix(ln, "dumphelper ") {
			if _, e := fmt.Sscanf(ln, "dumphelper %s %q", &d, &bad); e == nil {
				return d, bad, nil
			}
		}
	}
	return "", "", fmt.Errorf("reading the file again fails (%v): %s", err, truncate(string(out), 120))
}

func init() {
	engines["dumphelper"] = dumpHelper
	engines["readonly"] = readonlyEngine
	engines["lockhelper"] = lockHelper
	engines["pokehelper"] = pokeHelper
}

// lockHelper: open the database (mode from -prop: "rw"/"ro"), print the outcome, hold it until stdin closes.
func lockHelper() {
	ro := *flagProp == "ro"
	db, err := bolt.Open(*flagFile, 0o600, &bolt.Options{ReadOnly: ro, Timeout: 150 * time.Millisecond})
	if err != nil {
		fmt.Println("result " + errName(err))
		return
	}
	fmt.Println("result ok")
	buf := make([]byte, 1)
	_, _ = os.Stdin.Read(buf)
	_ = db.Close()
	fmt.Println("closed")
}

// pokeHelper: in a read transaction write into the slices returned by Get / Cursor; exit status
// tells what happened (the parent checks the file afterwards).
func pokeHelper() {
	db, err := bolt.Open(*flagFile, 0o600, &bolt.Options{ReadOnly: *flagProp == "ro", Timeout: time.Second})
	if err != nil {
		fmt.Println("open failed", err)
		os.Exit(3)
	}
	_ = db.View(func(tx *bolt.Tx) error {
		return tx.ForEach(func(name []byte, b *bolt.Bucket) error {
			return pokeBucket(b)
		})
	})
	fmt.Println("poked-without-fault")
	_ = db.Close()
	os.Exit(0)
}

func pokeBucket(b *bolt.Bucket) error {
	return b.ForEach(func(k, v []byte) error {
		if v == nil {
			return pokeBucket(b.Bucket(k))
		}
		if len(k) > 0 {
			k[0] ^= 0xFF
		}
		if len(v) > 0 {
			v[0] ^= 0xFF
		}
		return nil
	})
}

type actor struct {
	cmd   *exec.Cmd
	stdin interface{ Close() error }
	mode  string
	inp   *os.File
}

func readonlyEngine() {
	start := time.Now()
	rep := newReport("readonly")
	rep.Rule = "case = one lock schedule, one read-only API program, one CLI inspection command, or one poke run; non-trivial = at least two actors or one mutating call; distinct by case text"
	dir := tmpDir()
	defer os.RemoveAll(dir)
	rng := rand.New(rand.NewSource(*flagSeed))
	self, _ := os.Executable()

	// a database with content (inline and paged buckets, nested buckets)
	o := randOpts(rng)
	o.PageSize = 4096
	g := NewGen(rng.Int63(), o.PageSize)
	ops := append(g.MoveProgram(), g.History(6, false, false)...)
	_ = runAPI(dir, "ro", o, ops, false)
	path := filepath.Join(dir, "ro.db")
	h0 := fileHash(path)

	// ---- (a) lock matrix, separate processes
	nSched := 12
	if *flagTier == "thorough" {
		nSched = 150
	}
	for si := 0; si < nSched; si++ {
		var lines, want []string
		type held struct {
			cmd *exec.Cmd
			w   *os.File
		}
		holders := map[int]*held{}
		nSteps := 4 + rng.Intn(6)
		desc := []string{}
		for st := 0; st < nSteps; st++ {
			id := 1 + rng.Intn(3)
			if h, ok := holders[id]; ok && rng.Intn(2) == 0 {
				// close
				_ = h.w.Close()
				_ = h.cmd.Wait()
				delete(holders, id)
				lines = append(lines, fmt.Sprintf("close %d", id))
				want = append(want, "ok")
				desc = append(desc, fmt.Sprintf("close(%d)", id))
				continue
			} else if ok {
				continue
			}
			mode := []string{"rw", "ro"}[rng.Intn(2)]
			r, w, _ := os.Pipe()
			cmd := exec.Command(self, "lockhelper", "-prop", mode, "-replay", path)
			cmd.Stdin = r
			outp, _ := cmd.StdoutPipe()
			_ = cmd.Start()
			_ = r.Close()
			buf := make([]byte, 64)
			n, _ := outp.Read(buf)
			res := strings.TrimSpace(string(buf[:n]))
			lines = append(lines, fmt.Sprintf("open %d %s", id, mode))
			desc = append(desc, fmt.Sprintf("open(%d,%s)→%s", id, mode, strings.TrimPrefix(res, "result ")))
			if res == "result ok" {
				holders[id] = &held{cmd, w}
				want = append(want, "granted")
			} else {
				_ = w.Close()
				_ = cmd.Wait()
				if res == "result err:ErrTimeout" {
					want = append(want, "refused")
				} else {
					want = append(want, "other:"+res)
				}
			}
		}
		for _, h := range holders {
			_ = h.w.Close()
			_ = h.cmd.Wait()
		}
		rep.Programs++
		rep.Evaluations += len(lines)
		rep.Distinct++
		rep.count("lock-schedules")
		if si < 2 {
			rep.sample(map[string]any{"schedule": desc})
		}
		if *flagModel != "" {
			got, err := runModel([]string{"flock"}, lines)
			if err != nil || len(got) != len(lines) {
				rep.violation("C17", "correspondence", "model-driver-failed", fmt.Sprint(err), nil)
			} else {
				for i := range lines {
					if got[i] != want[i] {
						rep.Disagree++
						rep.violation("C17", "monitor", "lock-matrix:"+strings.Fields(lines[i])[0]+":"+want[i], fmt.Sprintf("schedule %v: step %d `%s`: the implementation says %s, the flock model says %s", desc, i, lines[i], want[i], got[i]), map[string]any{"schedule": desc, "lines": lines})
						break
					}
				}
			}
		}
	}
	// same process: a second read-write open of the same file must time out
	if db, err := bolt.Open(path, 0o600, &bolt.Options{Timeout: time.Second}); err == nil {
		if db2, err2 := bolt.Open(path, 0o600, &bolt.Options{Timeout: 120 * time.Millisecond}); err2 == nil {
			rep.violation("C17", "monitor", "lock-matrix:same-process-rw-rw", "a second read-write Open of the same file from the same process succeeded", nil)
			_ = db2.Close()
		}
		if db3, err3 := bolt.Open(path, 0o600, &bolt.Options{ReadOnly: true, Timeout: 120 * time.Millisecond}); err3 == nil {
			rep.violation("C17", "monitor", "lock-matrix:same-process-rw-ro", "a read-only Open succeeded while the file is open read-write in the same process", nil)
			_ = db3.Close()
		}
		_ = db.Close()
		rep.Evaluations += 2
	}
	if fileHash(path) != h0 {
		// opening read-write may legitimately rewrite the freelist; take the new baseline
		h0 = fileHash(path)
	}

	// ---- (a') a read-only Open asks the OS for no write access and never changes the file it is
	// pointed at, whatever that file holds (empty, shorter than the meta pages, a database)
	{
		var flags []int
		spy := func(name string, flag int, perm os.FileMode) (*os.File, error) {
			flags = append(flags, flag)
			return os.OpenFile(name, flag, perm)
		}
		if db, err := bolt.Open(path, 0o600, &bolt.Options{ReadOnly: true, Timeout: time.Second, OpenFile: spy}); err == nil {
			_ = db.Close()
		}
		rep.Evaluations++
		for _, f := range flags {
			if f&(os.O_WRONLY|os.O_RDWR|os.O_CREATE|os.O_TRUNC|os.O_APPEND) != 0 {
				rep.violation("C17", "monitor", "readonly-open-requests-write-access", fmt.Sprintf("Open with ReadOnly passes flags %#x to OpenFile (write access / creation requested)", f), nil)
				break
			}
		}
		for _, size := range []int{0, 1, 100, 4096, 8191} {
			odd := filepath.Join(dir, fmt.Sprintf("odd-%d.db", size))
			content := bytes.Repeat([]byte{0x5a}, size)
			_ = os.WriteFile(odd, content, 0o600)
			db, err := bolt.Open(odd, 0o600, &bolt.Options{ReadOnly: true, Timeout: time.Second})
			if err == nil {
				_ = db.Close()
			}
			after, _ := os.ReadFile(odd)
			rep.Evaluations++
			if !bytes.Equal(after, content) {
				rep.violation("C17", "monitor", "readonly-open-changes-file", fmt.Sprintf("a read-only Open (err=%v) of a %d-byte file that is not a database changed it: now %d bytes", err, size, len(after)), map[string]any{"size": size})
			}
			if _, err := os.Stat(cliPath()); err == nil {
				for _, c := range []string{"check", "stats", "buckets", "pages", "info"} {
					_ = os.WriteFile(odd, content, 0o600)
					_, _ = runCLI(c, odd)
					after, _ := os.ReadFile(odd)
					rep.Evaluations++
					if !bytes.Equal(after, content) {
						rep.violation("C17", "monitor", "cli-inspection-changes-file:"+c, fmt.Sprintf("`bbolt %s` on a %d-byte file that is not a database changed it: now %d bytes", c, size, len(after)), map[string]any{"command": []string{c}, "size": size})
					}
				}
			}
			_ = os.Remove(odd)
		}
	}

	// ---- (a'') an Open that FAILS after it has taken the file lock leaves nothing behind: nobody
	// has the database open afterwards, so a fresh descriptor gets the exclusive lock at once
	// (the descriptors Open obtained are kept reachable through Options.OpenFile, so that no
	// finalizer can release a leaked lock behind the monitor's back)
	{
		valid, _ := os.ReadFile(path)
		kinds := map[string][]byte{
			"garbage":      bytes.Repeat([]byte{0x5a}, 3*16384),
			"short":        bytes.Repeat([]byte{0x5a}, 100),
			"zero-metas":   make([]byte, 4*4096),
			"bad-checksum": nil,
		}
		if ps := 4096; len(valid) >= 2*ps {
			// both meta checksums broken (whatever the page size: the checksum field of a meta struct
			// at the start of page 0 and of every possible second meta page)
			bc := append([]byte(nil), valid...)
			for off := 0; off+80 <= len(bc) && off <= 65536; off += 512 {
				if off == 0 || (off&(off-1)) == 0 {
					bc[off+16+56] ^= 0xff
				}
			}
			kinds["bad-checksum"] = bc
		}
		for kind, content := range kinds {
			if content == nil {
				continue
			}
			for _, ro := range []bool{false, true} {
				odd := filepath.Join(dir, "failopen.db")
				_ = os.WriteFile(odd, content, 0o600)
				var kept []*os.File
				spy := func(name string, flag int, perm os.FileMode) (*os.File, error) {
					f, err := os.OpenFile(name, flag, perm)
					if err == nil {
						kept = append(kept, f)
					}
					return f, err
				}
				db, err := bolt.Open(odd, 0o600, &bolt.Options{ReadOnly: ro, Timeout: 300 * time.Millisecond, OpenFile: spy})
				rep.Evaluations++
				if err == nil {
					_ = db.Close()
				} else if f2, e2 := os.OpenFile(odd, os.O_RDWR, 0); e2 == nil {
					if e := syscall.Flock(int(f2.Fd()), syscall.LOCK_EX|syscall.LOCK_NB); e != nil {
						rep.violation("C17", "monitor", "failed-open-keeps-lock", fmt.Sprintf("Open(readOnly=%v) of a file that is not a valid database (%s) failed with %q, yet the file is still locked afterwards (flock: %v): later opens of that file block or time out", ro, kind, err, e), map[string]any{"kind": kind, "readonly": ro})
					} else {
						_ = syscall.Flock(int(f2.Fd()), syscall.LOCK_UN)
						rep.count("failed-open-lock-released")
					}
					_ = f2.Close()
				}
				for _, f := range kept {
					_ = f.Close()
				}
				_ = os.Remove(odd)
			}
		}
	}

	// ---- (b) read-only database: API programs and CLI inspection commands never change the file
	rodb, err := bolt.Open(path, 0o600, &bolt.Options{ReadOnly: true, Timeout: time.Second})
	if err == nil {
		if _, err := rodb.Begin(true); errName(err) != "err:ErrDatabaseReadOnly" {
			rep.violation("C17", "monitor", "readonly-accepts-writer", fmt.Sprintf("Begin(true) on a read-only database returns %v", err), nil)
		}
		if err := rodb.Update(func(tx *bolt.Tx) error { return nil }); errName(err) != "err:ErrDatabaseReadOnly" {
			rep.violation("C17", "monitor", "readonly-accepts-writer", fmt.Sprintf("Update on a read-only database returns %v", err), nil)
		}
		if err := rodb.Batch(func(tx *bolt.Tx) error { return nil }); errName(err) != "err:ErrDatabaseReadOnly" {
			rep.violation("C17", "monitor", "readonly-accepts-writer", fmt.Sprintf("Batch on a read-only database returns %v", err), nil)
		}
		e := &Exec{Path: path, DB: rodb, R: map[string]*bolt.Tx{}, Cur: map[int]*curState{}, Shapes: map[int]string{}, Timeout: 8 * time.Second}
		n := 200
		for pi := 0; pi < 5; pi++ {
			prog := append([]Op{{K: "beginr", Tx: "r1"}}, g.TxOps("r1", n, true)...) // mutating calls on a read transaction
			prog = append(prog, Op{K: "endr", Tx: "r1"}, Op{K: "beginw"})
			for _, op := range prog {
				r := e.Do(op)
				rep.Evaluations++
				switch op.K {
				case "put", "del", "mkb", "mkbi", "rmb", "mvb", "setseq", "nextseq":
					if r == "ok" || strings.HasPrefix(r, "n:") {
						rep.violation("C17", "monitor", "readonly-mutation-succeeds:"+op.K, fmt.Sprintf("`%s` succeeded on a read-only database", truncate(op.Line(), 60)), nil)
					}
				case "beginw":
					if r != "err:ErrDatabaseReadOnly" {
						rep.violation("C17", "monitor", "readonly-accepts-writer", "Begin(true) on a read-only database: "+r, nil)
					}
				}
			}
		}
		_ = rodb.Sync()
		_ = rodb.Stats()
		_ = rodb.Close()
		rep.count("readonly-api-programs")
		if h := fileHash(path); h != h0 {
			rep.violation("C17", "monitor", "readonly-file-changed", "the file changed while it was only ever opened read-only (API programs)", nil)
			h0 = h
		}
	}
	for _, args := range [][]string{{"check", path}, {"dump", path, "2"}, {"page", path, "3"}, {"pages", path}, {"keys", path, "A"}, {"get", path, "A", "x"},
		{"buckets", path}, {"stats", path}, {"inspect", path}, {"info", path}, {"page-item", path, "3", "0"}} {
		ex, out := runCLI(args...)
		rep.Evaluations++
		rep.count("cli:" + args[0])
		_ = ex
		if h := fileHash(path); h != h0 {
			rep.violation("C17", "monitor", "cli-inspection-changes-file:"+args[0], fmt.Sprintf("`bbolt %s` changed the database file (exit %d: %s)", args[0], ex, truncate(out, 80)), map[string]any{"command": args})
			h0 = h
		}
	}

	// ---- (c) slices handed out by a read transaction are not a writable view
	before, _, _ := openDump(path)
	pokeBackup := filepath.Join(dir, "poke-backup.db")
	_ = copyFile(pokeBackup, path)
	for _, mode := range []string{"ro", "rw"} {
		out, err := exec.Command(self, "pokehelper", "-prop", mode, "-replay", path).CombinedOutput()
		rep.Evaluations++
		faulted := err != nil
		rep.count(fmt.Sprintf("poke-%s-faulted=%v", mode, faulted))
		// read the file again in a separate process: a store that went through to the file may have
		// damaged it so badly that reading it faults, which is fatal for the process that reads
		after, bad, oerr := safeDump(self, path)
		if oerr != nil || after != before || bad != "" {
			_ = copyFile(path, pokeBackup)
			rep.violation("C17", "monitor", "write-through-returned-slice:"+mode, fmt.Sprintf("after a read transaction's caller wrote into returned slices (helper faulted=%v): content %s -> %s, check %q, open err %v; helper said: %s", faulted, before, after, truncate(bad, 80), oerr, truncate(string(out), 80)), map[string]any{"mode": mode})
		}
	}
	rep.finish(start)
}
