package main

import (
	"fmt"
	"math/rand"
	"strings"
	"time"

	bolt "go.etcd.io/bbolt"
)

// Engine nodeops (C04, C07): the pure functions of the B+tree node layer — node.split (with
// splitTwo/splitIndex/sizeLessThan), node.size, node.put/del on a sorted key list,
// Bucket.inlineable — called on detached nodes through the verif export hooks and compared
// with the Lean model `Bolt.Node` (driver command `node`) on the same inputs: random element
// size lists around every threshold (page sizes 1024..16384, fill percents 0.1..1.0, elements
// of 1 byte to several pages, nodes of 0..300 elements).

func init() { engines["nodeops"] = nodeopsEngine }

func elsStr(sizes [][2]int) string {
	if len(sizes) == 0 {
		return "-"
	}
	parts := make([]string, len(sizes))
	for i, s := range sizes {
		parts[i] = fmt.Sprintf("%d:%d", s[0], s[1])
	}
	return strings.Join(parts, ",")
}

func nodeopsEngine() {
	start := time.Now()
	rep := newReport("nodeops")
	rep.Rule = "case = one call of a node-layer function on a generated input; non-trivial = the input crosses a threshold (a split happens / inlineable flips); distinct by input"
	rng := rand.New(rand.NewSource(*flagSeed))
	n := 4000
	if *flagTier == "thorough" {
		n = 80000
	}
	var lines, want []string
	for i := 0; i < n; i++ {
		ps := []int{1024, 2048, 4096, 16384}[rng.Intn(4)]
		fill := []float64{0.5, 0.5, 1.0, 0.1, 0.3, 0.75, 0.05, 2.0}[rng.Intn(8)]
		cnt := rng.Intn(12)
		if rng.Intn(3) == 0 {
			cnt = rng.Intn(300)
		}
		sizes := make([][2]int, cnt)
		for j := range sizes {
			k := 1 + rng.Intn(40)
			v := []int{0, 1, 10, 100, ps / 8, ps / 4, ps - 50, ps, 3 * ps}[rng.Intn(9)] + rng.Intn(20)
			if rng.Intn(2) == 0 {
				v = rng.Intn(200)
			}
			sizes[j] = [2]int{k, v}
		}
		switch rng.Intn(4) {
		case 0, 1:
			leaf := rng.Intn(2) == 0
			if !leaf {
				for j := range sizes {
					sizes[j][1] = 0
				}
			}
			f := fill
			if f < 0.1 {
				f = 0.1
			} else if f > 1.0 {
				f = 1.0
			}
			th := int(float64(ps) * f)
			got := bolt.VerifNodeSplit(ps, fill, leaf, sizes)
			pieces := make([]uint64, len(got))
			for j, g := range got {
				pieces[j] = uint64(g)
			}
			lines = append(lines, fmt.Sprintf("split %d %d %s", ps, th, elsStr(sizes)))
			want = append(want, u64s(pieces))
			if len(got) > 1 {
				rep.Distinct++
			}
			// monitors on the implementation: nothing lost, minimum fan-out
			total := 0
			for _, g := range got {
				total += g
				if cnt > 4 && g < 2 {
					rep.violation("C07", "monitor", "split-piece-too-small", fmt.Sprintf("node.split(ps=%d, fill=%v) of %d elements yields a piece of %d elements", ps, fill, cnt, g), map[string]any{"pageSize": ps, "fill": fill, "sizes": sizes})
				}
			}
			if total != cnt {
				rep.violation("C04", "monitor", "split-loses-elements", fmt.Sprintf("node.split(ps=%d, fill=%v): %d elements in, %d out", ps, fill, cnt, total), map[string]any{"pageSize": ps, "fill": fill, "sizes": sizes})
			}
			rep.count("split")
		case 2:
			lines = append(lines, "size "+elsStr(sizes))
			want = append(want, fmt.Sprint(bolt.VerifNodeSize(true, sizes)))
			hasB := rng.Intn(4) == 0 && cnt > 0
			hb := "0"
			if hasB {
				hb = "1"
			}
			lines = append(lines, fmt.Sprintf("inline %d %s %s", ps, hb, elsStr(sizes)))
			want = append(want, fmt.Sprint(bolt.VerifInlineable(ps, sizes, hasB)))
			rep.count("size+inline")
		case 3:
			nk := 1 + rng.Intn(30)
			var keys [][]byte
			var del []bool
			var toks []string
			for j := 0; j < nk; j++ {
				k := []byte(fmt.Sprintf("k%02d", rng.Intn(12)))
				if rng.Intn(5) == 0 {
					k = append(k, 0)
				}
				d := rng.Intn(3) == 0
				keys = append(keys, k)
				del = append(del, d)
				if d {
					toks = append(toks, "d"+hx(string(k)))
				} else {
					toks = append(toks, "p"+hx(string(k)))
				}
			}
			out := bolt.VerifNodePutDel(keys, del)
			var hs []string
			for _, k := range out {
				hs = append(hs, hx(string(k)))
			}
			w := strings.Join(hs, ",")
			if w == "" {
				w = "-"
			}
			lines = append(lines, "putdel "+strings.Join(toks, " "))
			want = append(want, w)
			rep.count("putdel")
		}
	}
	rep.Programs = 1
	rep.Evaluations = len(lines)
	if len(lines) > 0 {
		rep.sample(map[string]any{"line": truncate(lines[0], 200), "impl": want[0]})
	}
	if *flagModel != "" {
		got, err := runModel([]string{"node"}, lines)
		if err != nil || len(got) != len(lines) {
			rep.violation(*flagProp, "correspondence", "model-driver-failed", fmt.Sprint(err), nil)
		} else {
			for i := range lines {
				if got[i] != want[i] {
					rep.Disagree++
					rep.violation(*flagProp, "correspondence", "node-model-vs-impl:"+strings.Fields(lines[i])[0], fmt.Sprintf("`%s`: implementation %q, model %q", truncate(lines[i], 200), truncate(want[i], 100), truncate(got[i], 100)), map[string]any{"line": lines[i]})
					if rep.Disagree > 5 {
						break
					}
				}
			}
		}
	}
	rep.finish(start)
}
