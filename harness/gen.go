package main

import (
	"fmt"
	"math/rand"
	"strings"
)

// Gen produces structured, mostly-valid API programs from one PRNG.
type Gen struct {
	R        *rand.Rand
	PageSize int
	names    []string // bucket-name pool
	keys     []string // key pool
	readers  int
}

func NewGen(seed int64, pageSize int) *Gen {
	g := &Gen{R: rand.New(rand.NewSource(seed)), PageSize: pageSize}
	g.names = []string{"a", "b", "c", "d", "bucket-with-a-long-name", "\x00", "\xff\xfe"}
	for i := 0; i < 40; i++ {
		g.keys = append(g.keys, fmt.Sprintf("k%03d", i))
	}
	g.keys = append(g.keys, "\x00", "\x00\x00", "\xff", "k", "k0", "zz", strings.Repeat("K", 200), strings.Repeat("L", pageSize/4+1))
	return g
}

func (g *Gen) name() string { return g.names[g.R.Intn(4+g.R.Intn(len(g.names)-3))] }
func (g *Gen) key() string  { return g.keys[g.R.Intn(len(g.keys))] }

func (g *Gen) path(maxDepth int) []string {
	d := g.R.Intn(maxDepth + 1)
	p := make([]string, d)
	for i := range p {
		p[i] = g.names[g.R.Intn(3)] // concentrate on a,b,c so that paths exist
	}
	return p
}

func (g *Gen) val() string {
	switch g.R.Intn(12) {
	case 0:
		return ""
	case 1:
		return "v"
	case 2, 3, 4, 5:
		return fmt.Sprintf("val-%d", g.R.Intn(1000))
	case 6, 7:
		return strings.Repeat("x", 100+g.R.Intn(50))
	case 8:
		return strings.Repeat("y", g.PageSize/4-20+g.R.Intn(40))
	case 9:
		return strings.Repeat("z", g.PageSize-1+g.R.Intn(3))
	case 10:
		return strings.Repeat("w", 3*g.PageSize+g.R.Intn(7))
	default:
		return strings.Repeat("u", g.R.Intn(g.PageSize/2))
	}
}

// WriteOps returns n random mutating/reading ops for transaction `tx` ("w").
func (g *Gen) TxOps(tx string, n int, writable bool) []Op {
	var ops []Op
	for i := 0; i < n; i++ {
		p := g.path(3)
		x := g.R.Intn(100)
		switch {
		case !writable && x < 50:
			x = 60 + g.R.Intn(40) // mostly reads in read transactions
		}
		switch {
		case x < 25:
			ops = append(ops, Op{K: "put", Tx: tx, Path: nonRoot(g, p), Key: g.key(), Val: g.val()})
		case x < 33:
			// bulk fill: sequential keys cross split thresholds
			pp := nonRoot(g, p)
			pre := g.names[g.R.Intn(3)]
			cnt := 5 + g.R.Intn(60)
			v := g.val()
			if len(v) > g.PageSize {
				cnt = 3
			}
			for j := 0; j < cnt; j++ {
				ops = append(ops, Op{K: "put", Tx: tx, Path: pp, Key: fmt.Sprintf("%s%04d", pre, j), Val: v})
			}
		case x < 38:
			// bulk delete of a sequential range (merges, emptied leaves)
			pp := nonRoot(g, p)
			pre := g.names[g.R.Intn(3)]
			lo := g.R.Intn(40)
			cnt := 5 + g.R.Intn(60)
			for j := lo; j < lo+cnt; j++ {
				ops = append(ops, Op{K: "del", Tx: tx, Path: pp, Key: fmt.Sprintf("%s%04d", pre, j)})
			}
		case x < 45:
			ops = append(ops, Op{K: "del", Tx: tx, Path: nonRoot(g, p), Key: g.key()})
		case x < 57:
			ops = append(ops, Op{K: "mkbi", Tx: tx, Path: p, Key: g.names[g.R.Intn(3)]})
		case x < 62:
			ops = append(ops, Op{K: "mkb", Tx: tx, Path: p, Key: g.name()})
		case x < 66:
			ops = append(ops, Op{K: "rmb", Tx: tx, Path: p, Key: g.name()})
		case x < 68:
			ops = append(ops, Op{K: "mvb", Tx: tx, Path: p, Key: g.name(), Dst: g.path(2)})
		case x < 72:
			ops = append(ops, Op{K: "get", Tx: tx, Path: nonRoot(g, p), Key: g.key()})
		case x < 75:
			ops = append(ops, Op{K: "nextseq", Tx: tx, Path: nonRoot(g, p)})
		case x < 77:
			ops = append(ops, Op{K: "setseq", Tx: tx, Path: nonRoot(g, p), N: uint64(g.R.Intn(1 << 20))})
		case x < 79:
			ops = append(ops, Op{K: "seq", Tx: tx, Path: nonRoot(g, p)})
		case x < 82:
			ops = append(ops, Op{K: "keys", Tx: tx, Path: p})
		case x < 84:
			ops = append(ops, Op{K: "dump", Tx: tx, Path: p})
		case x < 86:
			// malformed stream: empty keys/names, oversize key, key/bucket clashes
			switch g.R.Intn(5) {
			case 0:
				ops = append(ops, Op{K: "put", Tx: tx, Path: nonRoot(g, p), Key: "", Val: "v"})
			case 1:
				ops = append(ops, Op{K: "mkb", Tx: tx, Path: p, Key: ""})
			case 2:
				ops = append(ops, Op{K: "put", Tx: tx, Path: nonRoot(g, p), Key: strings.Repeat("B", 32769), Val: "v"})
			case 3:
				ops = append(ops, Op{K: "put", Tx: tx, Path: nonRoot(g, p), Key: g.names[g.R.Intn(3)], Val: "clash"})
			case 4:
				ops = append(ops, Op{K: "mkb", Tx: tx, Path: nonRoot(g, p), Key: g.key()})
			}
		default:
			ops = append(ops, g.cursorOps(tx, p)...)
		}
	}
	return ops
}

func nonRoot(g *Gen, p []string) []string {
	if len(p) == 0 {
		return []string{g.names[g.R.Intn(3)]}
	}
	return p
}

var curID int

func (g *Gen) cursorOps(tx string, p []string) []Op {
	curID++
	id := curID
	ops := []Op{{K: "cur", Tx: tx, Path: p, Cur: id}}
	n := 3 + g.R.Intn(25)
	for i := 0; i < n; i++ {
		switch g.R.Intn(9) {
		case 0:
			ops = append(ops, Op{K: "cfirst", Cur: id})
		case 1:
			ops = append(ops, Op{K: "clast", Cur: id})
		case 2, 3, 4:
			ops = append(ops, Op{K: "cnext", Cur: id})
		case 5, 6:
			ops = append(ops, Op{K: "cprev", Cur: id})
		default:
			k := g.key()
			if g.R.Intn(2) == 0 {
				k = fmt.Sprintf("%s%04d", g.names[g.R.Intn(3)], g.R.Intn(70))
			}
			ops = append(ops, Op{K: "cseek", Cur: id, Key: k})
		}
	}
	return ops
}

// History: a sequence of write transactions (commit or rollback), optionally
// interleaved with readers and reopen points.
func (g *Gen) History(nTx int, withReaders, withReopen bool) []Op {
	var ops []Op
	open := map[string]bool{}
	for t := 0; t < nTx; t++ {
		if withReaders && g.R.Intn(3) == 0 && len(open) < 3 {
			g.readers++
			id := fmt.Sprintf("r%d", g.readers)
			open[id] = true
			ops = append(ops, Op{K: "beginr", Tx: id})
		}
		ops = append(ops, Op{K: "beginw"})
		ops = append(ops, g.TxOps("w", 1+g.R.Intn(12), true)...)
		if g.R.Intn(8) == 0 {
			ops = append(ops, Op{K: "rollback"})
		} else {
			ops = append(ops, Op{K: "commit"})
		}
		for _, id := range sortedKeys(open) {
			if g.R.Intn(2) == 0 {
				ops = append(ops, g.TxOps(id, 1+g.R.Intn(4), false)...)
				ops = append(ops, Op{K: "dump", Tx: id})
			}
			if g.R.Intn(3) == 0 {
				ops = append(ops, Op{K: "endr", Tx: id})
				delete(open, id)
			}
		}
		if withReopen && g.R.Intn(6) == 0 {
			for _, id := range sortedKeys(open) {
				ops = append(ops, Op{K: "endr", Tx: id})
				delete(open, id)
			}
			ops = append(ops, Op{K: "reopen"})
		}
	}
	for _, id := range sortedKeys(open) {
		ops = append(ops, Op{K: "endr", Tx: id})
	}
	return ops
}
