package main

import (
	"fmt"
	"math/rand"
	"strings"
)

// Gen produces structured, mostly-valid API programs from one PRNG.
type Gen struct {
	R        *rand.Rand
	PageSize int
	names    []string // bucket-name pool
	keys     []string // key pool
	readers  int
	// shadow of what probably exists (generation guidance only — never an oracle)
	bkts    map[string][]string // path key -> path
	keysOf  map[string][]string // path key -> keys put there
	saved   *shadowSnap
	touched map[string]bool // bucket paths edited in the current write transaction
}

type shadowSnap struct {
	bkts   map[string][]string
	keysOf map[string][]string
}

func pk(p []string) string { return strings.Join(p, "\x01/") }

func (g *Gen) snap() *shadowSnap {
	s := &shadowSnap{map[string][]string{}, map[string][]string{}}
	for k, v := range g.bkts {
		s.bkts[k] = v
	}
	for k, v := range g.keysOf {
		s.keysOf[k] = append([]string(nil), v...)
	}
	return s
}

func (g *Gen) restore(s *shadowSnap) {
	g.bkts, g.keysOf = s.bkts, s.keysOf
}

// existingPath returns a bucket path that probably exists (depth >= 1) or, rarely, a random one.
func (g *Gen) existingPath() []string {
	if len(g.bkts) == 0 || g.R.Intn(40) == 0 {
		return nonRoot(g, g.path(3))
	}
	ks := sortedKeys(g.bkts)
	return g.bkts[ks[g.R.Intn(len(ks))]]
}

// parentPath: an existing bucket or the root.
func (g *Gen) parentPath() []string {
	if g.R.Intn(3) == 0 || len(g.bkts) == 0 {
		return nil
	}
	p := g.existingPath()
	if len(p) >= 4 {
		return p[:3]
	}
	return p
}

func (g *Gen) noteBucket(parent []string, name string) {
	if len(parent) > 0 {
		if _, ok := g.bkts[pk(parent)]; !ok {
			return // the parent probably does not exist: the call will fail
		}
	}
	if name == "" {
		return
	}
	p := append(append([]string{}, parent...), name)
	g.bkts[pk(p)] = p
}

func (g *Gen) dropBucket(parent []string, name string) {
	p := pk(append(append([]string{}, parent...), name))
	for k := range g.bkts {
		if k == p || strings.HasPrefix(k, p+"\x01/") {
			delete(g.bkts, k)
			delete(g.keysOf, k)
		}
	}
}

// touchedUnder: was the bucket at path e (or anything inside it) edited in the current write tx?
func (g *Gen) touchedUnder(e []string) bool {
	pre := pk(e)
	for t := range g.touched {
		if t == pre || strings.HasPrefix(t, pre+"\x01/") {
			return true
		}
	}
	return false
}

func (g *Gen) existingKey(p []string) string {
	ks := g.keysOf[pk(p)]
	if len(ks) == 0 || g.R.Intn(5) == 0 {
		return g.key()
	}
	return ks[g.R.Intn(len(ks))]
}

func (g *Gen) noteKey(p []string, k string) {
	if len(g.keysOf[pk(p)]) < 200 {
		g.keysOf[pk(p)] = append(g.keysOf[pk(p)], k)
	}
}

func NewGen(seed int64, pageSize int) *Gen {
	g := &Gen{R: rand.New(rand.NewSource(seed)), PageSize: pageSize, bkts: map[string][]string{}, keysOf: map[string][]string{}}
	g.names = []string{"a", "b", "c", "d", "bucket-with-a-long-name", "\x00", "\xff\xfe"}
	for i := 0; i < 40; i++ {
		g.keys = append(g.keys, fmt.Sprintf("k%03d", i))
	}
	g.keys = append(g.keys, "\x00", "\x00\x00", "\xff", "k", "k0", "zz", strings.Repeat("K", 200), strings.Repeat("L", pageSize/4+1))
	return g
}

func (g *Gen) name() string { return g.names[g.R.Intn(4+g.R.Intn(len(g.names)-3))] }
func (g *Gen) key() string  { return g.keys[g.R.Intn(len(g.keys))] }

func (g *Gen) path(maxDepth int) []string {
	d := g.R.Intn(maxDepth + 1)
	p := make([]string, d)
	for i := range p {
		p[i] = g.names[g.R.Intn(3)] // concentrate on a,b,c so that paths exist
	}
	return p
}

func (g *Gen) val() string {
	switch g.R.Intn(12) {
	case 0:
		return ""
	case 1:
		return "v"
	case 2, 3, 4, 5:
		return fmt.Sprintf("val-%d", g.R.Intn(1000))
	case 6, 7:
		return strings.Repeat("x", 100+g.R.Intn(50))
	case 8:
		return strings.Repeat("y", g.PageSize/4-20+g.R.Intn(40))
	case 9:
		return strings.Repeat("z", g.PageSize-1+g.R.Intn(3))
	case 10:
		return strings.Repeat("w", 3*g.PageSize+g.R.Intn(7))
	default:
		return strings.Repeat("u", g.R.Intn(g.PageSize/2))
	}
}

// WriteOps returns n random mutating/reading ops for transaction `tx` ("w").
func (g *Gen) TxOps(tx string, n int, writable bool) []Op {
	var ops []Op
	if g.touched == nil {
		g.touched = map[string]bool{}
	}
	for i := 0; i < n; i++ {
		p := g.existingPath()
		x := g.R.Intn(100)
		if len(g.bkts) == 0 && writable {
			x = 45 // nothing exists yet: create a bucket
		}
		if writable && x < 42 || (x >= 72 && x < 77) {
			g.touched[pk(p)] = true
		}
		if !writable && x < 62 {
			x = 68 + g.R.Intn(32) // mostly reads in read transactions
		}
		switch {
		case x < 22:
			k := g.key()
			if g.R.Intn(3) == 0 {
				k = g.existingKey(p)
			}
			ops = append(ops, Op{K: "put", Tx: tx, Path: p, Key: k, Val: g.val()})
			g.noteKey(p, k)
		case x < 30:
			// bulk fill: sequential keys cross split thresholds
			pre := g.names[g.R.Intn(3)]
			cnt := 5 + g.R.Intn(80)
			v := g.val()
			if len(v) > g.PageSize {
				cnt = 3
			}
			for j := 0; j < cnt; j++ {
				k := fmt.Sprintf("%s%04d", pre, j)
				ops = append(ops, Op{K: "put", Tx: tx, Path: p, Key: k, Val: v})
				g.noteKey(p, k)
			}
		case x < 36:
			// bulk delete of a sequential range (merges, emptied leaves)
			pre := g.names[g.R.Intn(3)]
			lo := g.R.Intn(40)
			cnt := 5 + g.R.Intn(80)
			if g.R.Intn(4) == 0 {
				lo, cnt = 0, 90 // everything with that prefix
			}
			for j := lo; j < lo+cnt; j++ {
				ops = append(ops, Op{K: "del", Tx: tx, Path: p, Key: fmt.Sprintf("%s%04d", pre, j)})
			}
		case x < 42:
			ops = append(ops, Op{K: "del", Tx: tx, Path: p, Key: g.existingKey(p)})
		case x < 52:
			pp := g.parentPath()
			nm := g.names[g.R.Intn(3)]
			ops = append(ops, Op{K: "mkbi", Tx: tx, Path: pp, Key: nm})
			if writable {
				g.noteBucket(pp, nm)
				g.touched[pk(pp)] = true
			}
		case x < 57:
			pp := g.parentPath()
			nm := g.name()
			ops = append(ops, Op{K: "mkb", Tx: tx, Path: pp, Key: nm})
			if writable {
				g.noteBucket(pp, nm)
				g.touched[pk(pp)] = true
			}
		case x < 61:
			// delete an existing bucket (or a random name)
			e := g.existingPath()
			if g.R.Intn(4) == 0 {
				ops = append(ops, Op{K: "rmb", Tx: tx, Path: g.parentPath(), Key: g.name()})
			} else {
				if writable && g.R.Intn(3) == 0 {
					// a key with a nil value inside the bucket (or below it) that is about to be deleted
					ops = append(ops, Op{K: "putnil", Tx: tx, Path: e, Key: g.key()})
				}
				ops = append(ops, Op{K: "rmb", Tx: tx, Path: e[:len(e)-1], Key: e[len(e)-1]})
				if writable {
					g.dropBucket(e[:len(e)-1], e[len(e)-1])
				}
			}
		case x < 64:
			e := g.existingPath()
			dst := g.parentPath()
			// mostly pick a destination that is neither the source parent nor inside the moved bucket
			for try := 0; try < 8 && g.R.Intn(8) != 0 && (pk(dst) == pk(e[:len(e)-1]) || strings.HasPrefix(pk(dst)+"\x01/", pk(e)+"\x01/")); try++ {
				dst = g.parentPath()
			}
			// prefer moving a bucket in which (or below which) something was edited earlier in this
			// transaction: the opened sub-bucket objects must travel with it
			if g.R.Intn(2) == 0 {
				for try := 0; try < 6 && !g.touchedUnder(e); try++ {
					e = g.existingPath()
				}
			}
			ops = append(ops, Op{K: "mvb", Tx: tx, Path: e[:len(e)-1], Key: e[len(e)-1], Dst: dst})
			if writable {
				g.dropBucket(e[:len(e)-1], e[len(e)-1])
				g.noteBucket(dst, e[len(e)-1])
			}
		case x < 72:
			ops = append(ops, Op{K: "get", Tx: tx, Path: p, Key: g.existingKey(p)})
		case x < 75:
			ops = append(ops, Op{K: "nextseq", Tx: tx, Path: p})
		case x < 77:
			ops = append(ops, Op{K: "setseq", Tx: tx, Path: p, N: uint64(g.R.Intn(1 << 20))})
		case x < 79:
			ops = append(ops, Op{K: "seq", Tx: tx, Path: p})
		case x < 82:
			ops = append(ops, Op{K: "keys", Tx: tx, Path: g.parentPath()})
		case x < 84:
			ops = append(ops, Op{K: "dump", Tx: tx, Path: g.parentPath()})
		case x < 87:
			// malformed stream: empty keys/names, oversize key, key/bucket clashes, missing paths
			switch g.R.Intn(7) {
			case 0:
				ops = append(ops, Op{K: "put", Tx: tx, Path: p, Key: "", Val: "v"})
			case 1:
				ops = append(ops, Op{K: "mkb", Tx: tx, Path: g.parentPath(), Key: ""})
			case 2:
				ops = append(ops, Op{K: "put", Tx: tx, Path: p, Key: strings.Repeat("B", 32769), Val: "v"})
			case 3:
				ops = append(ops, Op{K: "put", Tx: tx, Path: g.parentPath(), Key: g.names[g.R.Intn(3)], Val: "clash"})
			case 4:
				ops = append(ops, Op{K: "mkb", Tx: tx, Path: p, Key: g.existingKey(p)})
			case 5:
				ops = append(ops, Op{K: "put", Tx: tx, Path: nonRoot(g, g.path(3)), Key: g.key(), Val: "v"})
			case 6:
				ops = append(ops, Op{K: "del", Tx: tx, Path: g.parentPath(), Key: g.names[g.R.Intn(3)]})
			}
		default:
			cp := p
			if g.R.Intn(4) == 0 {
				cp = g.parentPath()
			}
			ops = append(ops, g.cursorOps(tx, cp)...)
		}
	}
	return ops
}

func nonRoot(g *Gen, p []string) []string {
	if len(p) == 0 {
		return []string{g.names[g.R.Intn(3)]}
	}
	return p
}

var curID int

func (g *Gen) cursorOps(tx string, p []string) []Op {
	curID++
	id := curID
	ops := []Op{{K: "cur", Tx: tx, Path: p, Cur: id}}
	n := 3 + g.R.Intn(25)
	for i := 0; i < n; i++ {
		switch g.R.Intn(9) {
		case 0:
			ops = append(ops, Op{K: "cfirst", Cur: id})
		case 1:
			ops = append(ops, Op{K: "clast", Cur: id})
		case 2, 3, 4:
			ops = append(ops, Op{K: "cnext", Cur: id})
		case 5, 6:
			ops = append(ops, Op{K: "cprev", Cur: id})
		default:
			k := g.existingKey(p)
			if g.R.Intn(2) == 0 {
				k = fmt.Sprintf("%s%04d", g.names[g.R.Intn(3)], g.R.Intn(90))
			}
			if g.R.Intn(6) == 0 {
				k += "\x00"
			}
			ops = append(ops, Op{K: "cseek", Cur: id, Key: k})
		}
	}
	return ops
}

// History: a sequence of write transactions (commit or rollback), optionally
// interleaved with readers and reopen points.
func (g *Gen) History(nTx int, withReaders, withReopen bool) []Op {
	var ops []Op
	open := map[string]bool{}
	for t := 0; t < nTx; t++ {
		if withReaders && g.R.Intn(3) == 0 && len(open) < 3 {
			g.readers++
			id := fmt.Sprintf("r%d", g.readers)
			open[id] = true
			ops = append(ops, Op{K: "beginr", Tx: id})
		}
		ops = append(ops, Op{K: "beginw"})
		sn := g.snap()
		g.touched = map[string]bool{}
		ops = append(ops, g.TxOps("w", 1+g.R.Intn(12), true)...)
		if g.R.Intn(8) == 0 {
			ops = append(ops, Op{K: "rollback"})
			g.restore(sn)
		} else {
			ops = append(ops, Op{K: "commit"})
		}
		for _, id := range sortedKeys(open) {
			if g.R.Intn(2) == 0 {
				ops = append(ops, g.TxOps(id, 1+g.R.Intn(4), false)...)
				ops = append(ops, Op{K: "dump", Tx: id})
			}
			if g.R.Intn(3) == 0 {
				ops = append(ops, Op{K: "endr", Tx: id})
				delete(open, id)
			}
		}
		if withReopen && g.R.Intn(6) == 0 {
			for _, id := range sortedKeys(open) {
				ops = append(ops, Op{K: "endr", Tx: id})
				delete(open, id)
			}
			ops = append(ops, Op{K: "reopen"})
		}
	}
	for _, id := range sortedKeys(open) {
		ops = append(ops, Op{K: "endr", Tx: id})
	}
	return ops
}

// CursorProgram: a multi-leaf bucket is committed, then a write transaction deletes
// key ranges (possibly emptying whole leaves, or every key) and walks cursors over the
// mix of on-disk pages and materialised nodes.
func (g *Gen) CursorProgram() []Op {
	var ops []Op
	b := []string{"a"}
	n := 40 + g.R.Intn(300)
	vlen := []int{8, 40, 100, g.PageSize / 8}[g.R.Intn(4)]
	ops = append(ops, Op{K: "beginw"}, Op{K: "mkb", Tx: "w", Key: "a"})
	for j := 0; j < n; j++ {
		ops = append(ops, Op{K: "put", Tx: "w", Path: b, Key: fmt.Sprintf("k%05d", j), Val: strings.Repeat("v", vlen)})
	}
	if g.R.Intn(3) == 0 {
		ops = append(ops, Op{K: "mkb", Tx: "w", Path: b, Key: "k00010sub"})
	}
	ops = append(ops, Op{K: "commit"})
	rounds := 1 + g.R.Intn(3)
	for r := 0; r < rounds; r++ {
		ops = append(ops, Op{K: "beginw"})
		nr := 1 + g.R.Intn(3)
		for k := 0; k < nr; k++ {
			lo, hi := g.R.Intn(n), g.R.Intn(n+1)
			if lo > hi {
				lo, hi = hi, lo
			}
			switch g.R.Intn(6) {
			case 0:
				lo, hi = 0, n // everything
			case 1:
				lo = 0 // a prefix
			case 2:
				hi = n // a suffix
			}
			for j := lo; j < hi; j++ {
				ops = append(ops, Op{K: "del", Tx: "w", Path: b, Key: fmt.Sprintf("k%05d", j)})
			}
			if g.R.Intn(3) == 0 {
				ops = append(ops, Op{K: "put", Tx: "w", Path: b, Key: fmt.Sprintf("k%05d", g.R.Intn(n)), Val: "new"})
			}
		}
		for c := 0; c < 2+g.R.Intn(3); c++ {
			curID++
			id := curID
			ops = append(ops, Op{K: "cur", Tx: "w", Path: b, Cur: id})
			switch g.R.Intn(3) {
			case 0: // full reverse walk
				ops = append(ops, Op{K: "clast", Cur: id})
				for j := 0; j < n+3; j++ {
					ops = append(ops, Op{K: "cprev", Cur: id})
				}
			case 1: // full forward walk
				ops = append(ops, Op{K: "cfirst", Cur: id})
				for j := 0; j < n+3; j++ {
					ops = append(ops, Op{K: "cnext", Cur: id})
				}
			default: // mixed
				for j := 0; j < 30+g.R.Intn(60); j++ {
					switch g.R.Intn(7) {
					case 0:
						ops = append(ops, Op{K: "cfirst", Cur: id})
					case 1:
						ops = append(ops, Op{K: "clast", Cur: id})
					case 2, 3:
						ops = append(ops, Op{K: "cnext", Cur: id})
					case 4, 5:
						ops = append(ops, Op{K: "cprev", Cur: id})
					default:
						ops = append(ops, Op{K: "cseek", Cur: id, Key: fmt.Sprintf("k%05d", g.R.Intn(n+2))})
					}
				}
			}
		}
		if g.R.Intn(3) == 0 {
			ops = append(ops, Op{K: "rollback"})
		} else {
			ops = append(ops, Op{K: "commit"})
		}
	}
	return ops
}

// MoveProgram: nested buckets A/X/Y/Z (some paged, some inline) are committed; then write
// transactions edit something strictly below X (or X itself, or nothing) and move X elsewhere,
// keep editing, commit, reopen and reuse the freed pages.
func (g *Gen) MoveProgram() []Op {
	var ops []Op
	big := func(tx string, p []string, n int, pre string) {
		for j := 0; j < n; j++ {
			ops = append(ops, Op{K: "put", Tx: tx, Path: p, Key: fmt.Sprintf("%s%04d", pre, j), Val: strings.Repeat("v", 40+g.R.Intn(80))})
		}
	}
	A, B := []string{"A"}, []string{"B"}
	X := []string{"A", "X"}
	Y := []string{"A", "X", "Y"}
	Z := []string{"A", "X", "Y", "Z"}
	ops = append(ops, Op{K: "beginw"},
		Op{K: "mkb", Tx: "w", Key: "A"}, Op{K: "mkb", Tx: "w", Key: "B"},
		Op{K: "mkb", Tx: "w", Path: A, Key: "X"}, Op{K: "mkb", Tx: "w", Path: X, Key: "Y"},
		Op{K: "mkb", Tx: "w", Path: Y, Key: "Z"}, Op{K: "mkb", Tx: "w", Path: Y, Key: "W"})
	if g.R.Intn(3) != 0 {
		big("w", Z, 30+g.R.Intn(120), "z") // paged
	} else {
		ops = append(ops, Op{K: "put", Tx: "w", Path: Z, Key: "k", Val: "v"}) // inline
	}
	if g.R.Intn(2) == 0 {
		big("w", Y, 20+g.R.Intn(80), "y")
	}
	if g.R.Intn(2) == 0 {
		big("w", X, 20+g.R.Intn(80), "x")
	}
	ops = append(ops, Op{K: "setseq", Tx: "w", Path: Y, N: 7}, Op{K: "commit"})
	if g.R.Intn(2) == 0 {
		ops = append(ops, Op{K: "reopen"})
	}
	rounds := 1 + g.R.Intn(2)
	cur := X // where X currently lives
	other := B
	for r := 0; r < rounds; r++ {
		ops = append(ops, Op{K: "beginw"})
		sub := func(rel ...string) []string { return append(append([]string{}, cur...), rel...) }
		// edits before the move
		for k := 0; k < 1+g.R.Intn(3); k++ {
			switch []int{0, 0, 0, 1, 2, 3, 4, 5, 6, 6, 7}[g.R.Intn(11)] {
			case 0:
				ops = append(ops, Op{K: "rmb", Tx: "w", Path: sub("Y"), Key: "Z"})
			case 1:
				ops = append(ops, Op{K: "put", Tx: "w", Path: sub("Y"), Key: "new", Val: "value"})
			case 2:
				ops = append(ops, Op{K: "mkbi", Tx: "w", Path: sub("Y"), Key: "N"})
			case 3:
				ops = append(ops, Op{K: "nextseq", Tx: "w", Path: sub("Y")})
			case 4:
				ops = append(ops, Op{K: "put", Tx: "w", Path: sub(), Key: "direct", Val: "v"})
			case 5:
				ops = append(ops, Op{K: "del", Tx: "w", Path: sub("Y", "Z"), Key: "z0003"})
			case 6:
				ops = append(ops, Op{K: "rmb", Tx: "w", Path: sub("Y"), Key: "W"})
			case 7:
				ops = append(ops, Op{K: "get", Tx: "w", Path: sub("Y", "Z"), Key: "z0001"}) // open only
			}
		}
		dst := other
		if g.R.Intn(4) == 0 {
			dst = nil // to the root
		}
		ops = append(ops, Op{K: "mvb", Tx: "w", Path: cur[:len(cur)-1], Key: "X", Dst: dst})
		newCur := append(append([]string{}, dst...), "X")
		// edits after the move
		for k := 0; k < g.R.Intn(3); k++ {
			p := append(append([]string{}, newCur...), "Y")
			switch g.R.Intn(3) {
			case 0:
				ops = append(ops, Op{K: "put", Tx: "w", Path: p, Key: "after", Val: "move"})
			case 1:
				ops = append(ops, Op{K: "dump", Tx: "w", Path: newCur})
			case 2:
				ops = append(ops, Op{K: "mkbi", Tx: "w", Path: p, Key: "M"})
			}
		}
		if g.R.Intn(6) == 0 {
			ops = append(ops, Op{K: "rollback"})
		} else {
			ops = append(ops, Op{K: "commit"})
			other = cur[:len(cur)-1]
			if len(other) == 0 {
				other = A
			}
			cur = newCur
		}
		if g.R.Intn(2) == 0 {
			ops = append(ops, Op{K: "reopen"})
		}
		// reuse freed pages
		ops = append(ops, Op{K: "beginw"})
		big("w", B, 20+g.R.Intn(100), fmt.Sprintf("r%d", r))
		ops = append(ops, Op{K: "commit"})
	}
	return ops
}
