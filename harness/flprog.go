package main

import (
	"encoding/binary"
	"fmt"
	"math/rand"
	"sort"
	"strings"
	"time"

	bolt "go.etcd.io/bbolt"
)

// Engine flprog (C09, C10): allocator-only programs on the real array and hashmap
// backends (through the verif export), replayed on the Lean model `Bolt.FL`.
// Compared after every op: return value / panic, FreeCount, PendingCount, the free
// and pending id sets (via Copyall and Freed over the universe), the Write page
// image, EstimatedWritePageSize. Monitors evaluated on the implementation alone:
// allocOK, never01, freeNotReusable, releaseSafe, releaseLive, rollbackRestores,
// writeReadPreserves.

func init() { engines["flprog"] = flprog }

type flOp struct {
	K       string
	T, A, B uint64
	IDs     []uint64
}

func (o flOp) String() string {
	switch o.K {
	case "init", "nosync":
		return o.K + " " + u64s(o.IDs)
	case "alloc":
		return fmt.Sprintf("alloc %d %d", o.T, o.A)
	case "free":
		return fmt.Sprintf("free %d %d %d", o.T, o.A, o.B)
	case "rollback", "addr", "rmr":
		return fmt.Sprintf("%s %d", o.K, o.T)
	}
	return o.K
}

func u64s(ids []uint64) string {
	if len(ids) == 0 {
		return "-"
	}
	parts := make([]string, len(ids))
	for i, v := range ids {
		parts[i] = fmt.Sprint(v)
	}
	return strings.Join(parts, ",")
}

// noteRollback: what Rollback(t) has to restore — the allocating transaction of every page that
// t had freed (pages allocated by t itself are forgotten with it).
func noteRollback(expect map[uint64]uint64, before flState, t uint64) {
	for id, a := range expect {
		if a == t {
			delete(expect, id)
		}
	}
	for _, e := range before.pend {
		if e[0] == t && e[2] != 0 && e[2] != t {
			expect[e[1]] = e[2]
		}
	}
}

type flProg struct {
	Kind string
	Ops  []flOp
}

type flState struct {
	free []uint64
	pend [][3]uint64 // (freeing txid, id, alloc txid)
}

func getFLState(v *bolt.VerifFreelist) flState {
	f, p := v.State()
	sort.Slice(p, func(i, j int) bool {
		if p[i][0] != p[j][0] {
			return p[i][0] < p[j][0]
		}
		return p[i][1] < p[j][1]
	})
	return flState{f, p}
}

func (s flState) freeSet() map[uint64]bool {
	m := map[uint64]bool{}
	for _, id := range s.free {
		m[id] = true
	}
	return m
}

func (s flState) pendStr() string {
	if len(s.pend) == 0 {
		return "-"
	}
	var sb strings.Builder
	for i, e := range s.pend {
		if i == 0 || s.pend[i-1][0] != e[0] {
			if i > 0 {
				sb.WriteByte(';')
			}
			fmt.Fprintf(&sb, "%d:", e[0])
		} else {
			sb.WriteByte('+')
		}
		fmt.Fprintf(&sb, "%d/%d", e[1], e[2])
	}
	return sb.String()
}

func stateLineOf(v *bolt.VerifFreelist) string {
	s := getFLState(v)
	return fmt.Sprintf("free=%s pend=%s fc=%d pc=%d est=%d", u64s(s.free), s.pendStr(), v.FreeCount(), v.PendingCount(), v.EstimatedWritePageSize())
}

func decodeFLImage(img []byte) (cnt uint16, arr []uint64) {
	cnt = binary.LittleEndian.Uint16(img[10:12])
	n := int(cnt)
	if cnt == 0xFFFF {
		n = int(binary.LittleEndian.Uint64(img[16:24])) + 1
	}
	for i := 0; i < n; i++ {
		arr = append(arr, binary.LittleEndian.Uint64(img[16+8*i:]))
	}
	return
}

// runFLProg executes the program on the real backend, producing the model input
// lines and the implementation's canonical outputs; monitors are evaluated on the
// implementation's own observable state (VerifFreelist.State).
func runFLProg(p flProg, rep *Report) (in []string, want []string, monitorFail string) {
	kind := bolt.FreelistArrayType
	if p.Kind == "hashmap" {
		kind = bolt.FreelistMapType
	}
	v := bolt.VerifNewFreelist(kind)
	in = append(in, "new "+p.Kind)
	want = append(want, "ok")
	readers := []uint64{}
	fail := func(format string, a ...any) {
		if monitorFail == "" {
			monitorFail = fmt.Sprintf(format, a...)
		}
	}
	// rollbackRestores (allocator bookkeeping): the allocating transaction a page carried when a
	// later-aborted transaction freed it; the next Free of that page must carry it again
	expectAlloc := map[uint64]uint64{}
	var commitImg []byte     // image written at the last "commit" (reload source)
	var commitState *flState // allocator state at that point
	for _, o := range p.Ops {
		panicked := false
		call := func(f func()) {
			defer func() {
				if r := recover(); r != nil {
					panicked = true
				}
			}()
			f()
		}
		before := getFLState(v)
		switch o.K {
		case "init":
			expectAlloc = map[uint64]uint64{}
			call(func() { v.Init(append([]uint64(nil), o.IDs...)) })
			in = append(in, o.String())
		case "alloc":
			var id uint64
			call(func() { id = v.Allocate(o.T, int(o.A)) })
			in = append(in, fmt.Sprintf("alloc %d %d %d", o.T, o.A, id))
			if !panicked {
				want = append(want, fmt.Sprint(id))
				fs := before.freeSet()
				after := getFLState(v)
				as := after.freeSet()
				if id != 0 {
					for q := id; q < id+o.A; q++ {
						delete(expectAlloc, q)
					}
					if id <= 1 {
						fail("never01: Allocate returned page %d", id)
					}
					for q := id; q < id+o.A; q++ {
						if !fs[q] {
							fail("allocOK: Allocate(%d) returned %d but page %d was not free", o.A, id, q)
						}
						if as[q] {
							fail("allocOK: page %d still free after being allocated", q)
						}
					}
					if len(after.free) != len(before.free)-int(o.A) {
						fail("allocOK: Allocate(%d) changed the free count from %d to %d", o.A, len(before.free), len(after.free))
					}
				} else if o.A > 0 {
					run := 0
					for i, q := range before.free {
						if i > 0 && q == before.free[i-1]+1 {
							run++
						} else {
							run = 1
						}
						if uint64(run) >= o.A {
							fail("allocOK: Allocate(%d) returned 0 although a free run ends at %d", o.A, q)
							break
						}
					}
				}
				if len(after.pend) != len(before.pend) {
					fail("allocOK: Allocate changed the pending set")
				}
				continue
			}
		case "free":
			call(func() { v.Free(o.T, o.A, uint32(o.B)) })
			in = append(in, o.String())
			if !panicked {
				after := getFLState(v)
				as := after.freeSet()
				pend := map[uint64]uint64{}
				for _, e := range after.pend {
					pend[e[1]] = e[0]
				}
				for _, e := range after.pend {
					if e[0] == o.T && e[1] == o.A {
						if w, ok := expectAlloc[o.A]; ok && e[2] != w {
							fail("rollbackRestores: page %d is freed again after the transaction that had freed it was rolled back; it now carries allocating txid %d, before the aborted free it carried %d (the rollback did not restore the allocator state)", o.A, e[2], w)
						}
					}
				}
				for q := o.A; q <= o.A+o.B; q++ {
					delete(expectAlloc, q)
				}
				for q := o.A; q <= o.A+o.B; q++ {
					if as[q] {
						fail("freeNotReusable: page %d directly free after Free", q)
					}
					if t, ok := pend[q]; !ok || t != o.T {
						fail("freeNotReusable: page %d not pending for txid %d after Free", q, o.T)
					}
				}
				if len(after.free) != len(before.free) {
					fail("freeNotReusable: Free changed the free set")
				}
			}
		case "rollback":
			noteRollback(expectAlloc, before, o.T)
			call(func() { v.Rollback(o.T) })
			in = append(in, o.String())
		case "rbreload":
			// tx.rollback(): Rollback(txid) then Reload(page written by the last commit)
			if commitImg == nil {
				continue
			}
			noteRollback(expectAlloc, before, o.T)
			call(func() { v.Rollback(o.T) })
			in = append(in, fmt.Sprintf("rollback %d", o.T))
			if panicked {
				break
			}
			want = append(want, "ok")
			cnt, arr := decodeFLImage(commitImg)
			call(func() { v.Reload(commitImg) })
			in = append(in, fmt.Sprintf("reload %d %s", cnt, u64s(arr)))
			if !panicked && commitState != nil {
				after := getFLState(v)
				// rollbackRestores: free ∪ pending equals the committed set; pending of other
				// transactions is what it was; nothing of txid remains pending.
				all := map[uint64]bool{}
				for _, id := range after.free {
					all[id] = true
				}
				for _, e := range after.pend {
					all[e[1]] = true
					if e[0] == o.T {
						fail("rollbackRestores: page %d still pending for the rolled-back txid %d", e[1], o.T)
					}
				}
				wantAll := map[uint64]bool{}
				for _, id := range arr[func() int {
					if cnt == 0xFFFF {
						return 1
					}
					return 0
				}():] {
					wantAll[id] = true
				}
				if len(all) != len(wantAll) {
					fail("rollbackRestores: after Rollback+Reload %d ids are free or pending, the committed list had %d", len(all), len(wantAll))
				} else {
					for id := range wantAll {
						if !all[id] {
							fail("rollbackRestores: committed id %d neither free nor pending after Rollback+Reload", id)
							break
						}
					}
				}
			}
		case "addr":
			v.AddReader(o.T)
			readers = append(readers, o.T)
			in = append(in, o.String())
		case "rmr":
			v.RemoveReader(o.T)
			for i, r := range readers {
				if r == o.T {
					readers = append(readers[:i], readers[i+1:]...)
					break
				}
			}
			in = append(in, o.String())
		case "release":
			call(func() { v.Release() })
			in = append(in, "release")
			if !panicked {
				after := getFLState(v)
				as := after.freeSet()
				still := map[uint64]bool{}
				for _, e := range after.pend {
					still[e[1]] = true
				}
				for _, e := range before.pend {
					tid, id, atx := e[0], e[1], e[2]
					if as[id] {
						// releaseSafe: no registered reader r with atx <= r < tid
						for _, r := range readers {
							if atx <= r && r < tid {
								fail("releaseSafe: page %d (freed by tx %d, allocated by tx %d) became free while reader %d is registered", id, tid, atx, r)
							}
						}
					} else if !still[id] {
						fail("releaseSafe: page %d vanished from both free and pending in ReleasePendingPages", id)
					}
				}
				if len(readers) == 0 {
					for _, e := range after.pend {
						if e[0] != ^uint64(0) {
							fail("releaseLive: no readers registered but page %d (tx %d) is still pending after ReleasePendingPages", e[1], e[0])
							break
						}
					}
				} else {
					minR := readers[0]
					for _, r := range readers {
						if r < minR {
							minR = r
						}
					}
					for _, e := range after.pend {
						if e[0] < minR {
							fail("releaseLive: page %d freed by tx %d is still pending although the oldest reader is %d", e[1], e[0], minR)
							break
						}
					}
				}
			}
		case "commit":
			// end of a write transaction: persist the list as commitFreelist does
			var img []byte
			call(func() { img = v.WritePage(7) })
			in = append(in, "write")
			if !panicked {
				cnt, arr := decodeFLImage(img)
				want = append(want, fmt.Sprintf("%d %s", cnt, u64s(arr)))
				commitImg = img
				st := getFLState(v)
				commitState = &st
				// writeReadPreserves
				w := bolt.VerifNewFreelist(kind)
				ok := true
				func() {
					defer func() {
						if recover() != nil {
							ok = false
						}
					}()
					w.Read(img)
				}()
				var all []uint64
				all = append(all, st.free...)
				for _, e := range st.pend {
					all = append(all, e[1])
				}
				sort.Slice(all, func(i, j int) bool { return all[i] < all[j] })
				wf, wp := w.State()
				if !ok || u64s(wf) != u64s(all) || len(wp) != 0 {
					fail("writeReadPreserves: Write then Read yields %d free ids, expected the %d free+pending ids", len(wf), len(all))
				}
				if len(img) < 16+8*len(arr) || v.EstimatedWritePageSize() < 16+8*len(arr) {
					fail("writeReadPreserves: EstimatedWritePageSize %d smaller than the image written (%d)", v.EstimatedWritePageSize(), 16+8*len(arr))
				}
				continue
			}
		case "nosync":
			call(func() { v.NoSyncReload(append([]uint64(nil), o.IDs...)) })
			in = append(in, o.String())
		case "state":
			in = append(in, "state")
			want = append(want, stateLineOf(v))
			continue
		}
		if panicked {
			want = append(want, "panic")
			return // the real backend may be half-updated after a panic: stop here
		}
		want = append(want, "ok")
		// full state after every op
		in = append(in, "state")
		want = append(want, stateLineOf(v))
	}
	in = append(in, "state")
	want = append(want, stateLineOf(v))
	return
}

func genFLProg(rng *rand.Rand, kind string, nOps int, universe uint64, big bool) flProg {
	p := flProg{Kind: kind}
	// initial ids: random subset of [2, universe)
	var ids []uint64
	for id := uint64(2); id < universe; id++ {
		if rng.Intn(3) != 0 {
			ids = append(ids, id)
		}
	}
	if big {
		for id := universe; id < universe+70000; id++ {
			if rng.Intn(50) != 0 {
				ids = append(ids, id)
			}
		}
	}
	p.Ops = append(p.Ops, flOp{K: "init", IDs: ids})
	txid := uint64(2 + rng.Intn(3))
	if rng.Intn(40) == 0 {
		txid = 1
	}
	inUse := []uint64{} // heads we allocated or consider in use: candidates for Free
	for id := universe; id < universe+12; id++ {
		inUse = append(inUse, id) // pages "above" the free set, in use
	}
	var readers []uint64
	for i := 0; i < nOps; i++ {
		x := rng.Intn(100)
		switch {
		case x < 25:
			n := uint64(1)
			if rng.Intn(3) == 0 {
				n = uint64(1 + rng.Intn(4))
			}
			if rng.Intn(40) == 0 {
				n = 0
			}
			p.Ops = append(p.Ops, flOp{K: "alloc", T: txid, A: n})
		case x < 50:
			var id uint64
			if rng.Intn(10) == 0 {
				id = uint64(rng.Intn(int(universe) + 14)) // may be free already, or 0/1: panics
			} else {
				id = 2 + uint64(rng.Intn(int(universe)+10))
			}
			ov := uint64(0)
			if rng.Intn(4) == 0 {
				ov = uint64(rng.Intn(3))
			}
			p.Ops = append(p.Ops, flOp{K: "free", T: txid, A: id, B: ov})
		case x < 58:
			p.Ops = append(p.Ops, flOp{K: "rollback", T: txid})
		case x < 68:
			// "commit": persist the list, next transaction id
			p.Ops = append(p.Ops, flOp{K: "commit"})
			txid++
		case x < 76:
			// a reader's txid is the txid of some committed transaction: at most txid-1
			// (ids never approach 2^64; the tid+1 wrap at MaxUint64 is out of scope)
			r := txid - 1
			if k := uint64(rng.Intn(3)); k < r {
				r -= k
			}
			if rng.Intn(60) == 0 {
				r = 0
			}
			readers = append(readers, r)
			p.Ops = append(p.Ops, flOp{K: "addr", T: r})
		case x < 84:
			if len(readers) > 0 {
				j := rng.Intn(len(readers))
				p.Ops = append(p.Ops, flOp{K: "rmr", T: readers[j]})
				readers = append(readers[:j], readers[j+1:]...)
			}
		case x < 92:
			p.Ops = append(p.Ops, flOp{K: "release"})
		case x < 97:
			p.Ops = append(p.Ops, flOp{K: "rbreload", T: txid})
		case x < 98:
			var ids []uint64
			for id := uint64(2); id < universe; id++ {
				if rng.Intn(2) == 0 {
					ids = append(ids, id)
				}
			}
			p.Ops = append(p.Ops, flOp{K: "nosync", IDs: ids})
		default:
			p.Ops = append(p.Ops, flOp{K: "state"})
		}
	}
	_ = inUse
	return p
}

func flprog() {
	start := time.Now()
	rep := newReport("flprog")
	rep.Rule = "case = one allocator program (backend, initial id set, op list); non-trivial = contains at least one Allocate and one Free; distinct by program text"
	rng := rand.New(rand.NewSource(*flagSeed))
	nProg := 3000
	if *flagTier == "thorough" {
		nProg = 60000
	}
	seen := map[string]bool{}
	type item struct {
		p        flProg
		in, want []string
	}
	var batch []item
	flush := func() {
		if len(batch) == 0 {
			return
		}
		var all []string
		for _, it := range batch {
			all = append(all, it.in...)
		}
		var got []string
		var err error
		if *flagModel != "" {
			got, err = runModel([]string{"fl"}, all)
			if err != nil || len(got) != len(all) {
				rep.violation(*flagProp, "correspondence", "model-driver-failed", fmt.Sprintf("fl driver: %v (%d/%d)", err, len(got), len(all)), nil)
				batch = nil
				return
			}
		}
		off := 0
		for _, it := range batch {
			if got != nil {
				for i := range it.in {
					w := it.want[i]
					g := got[off+i]
					if w == "SYNC" {
						continue
					}
					if w != g {
						rep.Disagree++
						rep.violation(*flagProp, "correspondence", "freelist-model-vs-impl",
							fmt.Sprintf("%s backend, op %d `%s`: implementation %q, model %q", it.p.Kind, i, it.in[i], w, g),
							map[string]any{"kind": it.p.Kind, "lines": it.in, "want": it.want})
						break
					}
				}
			}
			off += len(it.in)
		}
		batch = nil
	}
	for i := 0; i < nProg; i++ {
		kind := "array"
		if i%2 == 1 {
			kind = "hashmap"
		}
		universe := uint64(8 + rng.Intn(30))
		big := i%500 == 499
		p := genFLProg(rng, kind, 5+rng.Intn(60), universe, big)
		if i < 8 {
			// boundary of the count encoding of the freelist page (count < 0xFFFF inline, else
			// 0xFFFF + real count in the first slot): lists of 65533..65537 entries, free and pending
			n := uint64(65533 + i/2)
			ids := make([]uint64, 0, n)
			for id := uint64(2); id < 2+n; id++ {
				ids = append(ids, id)
			}
			p = flProg{Kind: kind, Ops: []flOp{{K: "init", IDs: ids}, {K: "commit"}, {K: "free", T: 5, A: n + 10, B: 0}, {K: "commit"},
				{K: "free", T: 5, A: n + 20, B: 1}, {K: "commit"}, {K: "state"}}}
		}
		in, want, mf := runFLProg(p, rep)
		// The shadow pending set needs the model's answer after a release with readers; programs
		// that hit SYNC stop shadow-based monitors there (want lines after it remain compared).
		key := strings.Join(in, ";")
		rep.Programs++
		rep.Evaluations += len(in)
		hasA, hasF := false, false
		for _, o := range p.Ops {
			rep.count(o.K)
			hasA = hasA || o.K == "alloc"
			hasF = hasF || o.K == "free"
		}
		if !seen[key] && hasA && hasF {
			rep.Distinct++
		}
		seen[key] = true
		if want[len(want)-1] == "panic" {
			rep.count("ended-in-panic")
		}
		if i < 2 {
			short := func(l []string) []string {
				out := make([]string, 0, 12)
				for _, x := range l[:min(len(l), 12)] {
					out = append(out, truncate(x, 200))
				}
				return out
			}
			rep.sample(map[string]any{"kind": kind, "lines": short(in), "impl": short(want)})
		}
		if mf != "" {
			sig := strings.SplitN(mf, ":", 2)[0]
			rep.violation(*flagProp, "monitor", "freelist-"+sig, kind+" backend: "+mf, map[string]any{"kind": kind, "lines": in})
		}
		batch = append(batch, item{p, in, want})
		if len(batch) >= 200 {
			flush()
		}
	}
	flush()
	rep.finish(start)
}
