package main

import (
	"bytes"
	"fmt"
	"math/rand"
	"os"
	"path/filepath"
	"strings"
	"time"

	bolt "go.etcd.io/bbolt"
)

// Engine backup (C14): histories in which read transactions of different ages are copied with
// Tx.WriteTo (through a writer that lets further write transactions commit in the middle of
// the copy) and Tx.CopyFile. Monitors (backupOK): the number of bytes equals Tx.Size(); the
// copy opens as a database whose content equals the reader's snapshot (not the newest state),
// passes Tx.Check, and has exact page accounting according to the independent Lean reader.

func init() { engines["backup"] = backupEngine }

type midCopyWriter struct {
	buf    bytes.Buffer
	at     int
	fired  bool
	action func()
}

func (w *midCopyWriter) Write(p []byte) (int, error) {
	if !w.fired && w.buf.Len() >= w.at {
		w.fired = true
		w.action()
	}
	return w.buf.Write(p)
}

func backupEngine() {
	start := time.Now()
	rep := newReport("backup")
	rep.Rule = "case = one backup (history, reader age in commits, commits during the copy, WriteTo or CopyFile); non-trivial = at least one commit between the reader's begin and the end of the copy; distinct by (history, point, mode)"
	dir := tmpDir()
	defer os.RemoveAll(dir)
	rng := rand.New(rand.NewSource(*flagSeed))
	nHist := 10
	if *flagTier == "thorough" {
		nHist = 150
	}
	for hi := 0; hi < nHist; hi++ {
		o := randOpts(rng)
		g := NewGen(rng.Int63(), o.PageSize)
		path := filepath.Join(dir, fmt.Sprintf("b%d.db", hi))
		_ = os.Remove(path)
		e := NewExec(path, o.boltOptions())
		if err := e.Open(); err != nil {
			continue
		}
		rep.Programs++
		var done []Op
		run := func(ops []Op) bool {
			for _, op := range ops {
				done = append(done, op)
				r := e.Do(op)
				if r == "timeout" || strings.HasPrefix(r, "panic") {
					return false
				}
			}
			return true
		}
		oneTx := func() []Op {
			ops := append([]Op{{K: "beginw"}}, g.TxOps("w", 2+g.R.Intn(10), true)...)
			return append(ops, Op{K: "commit"})
		}
		ok := run(oneTx()) && run(oneTx())
		for round := 0; ok && round < 4; round++ {
			// open a reader, let `age` transactions commit, then back it up
			rtx, err := e.DB.Begin(false)
			if err != nil {
				break
			}
			want := hashStr(dumpTx(rtx))
			age := rng.Intn(4)
			for a := 0; a < age && ok; a++ {
				ok = run(oneTx())
			}
			during := rng.Intn(3)
			mode := []string{"WriteTo", "CopyFile"}[rng.Intn(2)]
			rp := map[string]any{"options": o.String(), "opts": o, "ops": opLines(done), "reader_age_commits": age, "commits_during_copy": during, "mode": mode}
			copyPath := filepath.Join(dir, "copy.db")
			_ = os.Remove(copyPath)
			rep.Evaluations++
			if age+during > 0 {
				rep.Distinct++
			}
			size := rtx.Size()
			var n int64
			if mode == "WriteTo" {
				w := &midCopyWriter{at: int(size) / 2, action: func() {
					for d := 0; d < during && ok; d++ {
						ok = run(oneTx())
					}
				}}
				n, err = rtx.WriteTo(w)
				if err == nil {
					_ = os.WriteFile(copyPath, w.buf.Bytes(), 0o600)
				}
			} else {
				err = rtx.CopyFile(copyPath, 0o600)
				if fi, e2 := os.Stat(copyPath); e2 == nil {
					n = fi.Size()
				}
			}
			_ = rtx.Rollback()
			rep.count(mode)
			if err != nil {
				rep.violation("C14", "monitor", "backup-fails", fmt.Sprintf("%s fails: %v", mode, err), rp)
				continue
			}
			if n != size {
				rep.violation("C14", "monitor", "backup-size", fmt.Sprintf("%s produced %d bytes, the transaction reports Size() = %d", mode, n, size), rp)
			}
			cdb, err := bolt.Open(copyPath, 0o600, &bolt.Options{ReadOnly: true, PreLoadFreelist: true, Timeout: time.Second})
			if err != nil {
				rep.violation("C14", "monitor", "backup-unopenable", fmt.Sprintf("the copy does not open: %v", err), rp)
				continue
			}
			got := hashStr(dumpDB(cdb))
			bad := checkDB(cdb)
			_ = cdb.Close()
			if got != want {
				rep.violation("C14", "monitor", "backup-content", fmt.Sprintf("the copy holds %s, the transaction's snapshot was %s (reader age %d commits, %d commits during the copy)", got, want, age, during), rp)
			}
			if bad != "" {
				rep.violation("C14", "monitor", "backup-fails-check", "Tx.Check on the copy: "+truncate(bad, 200), rp)
			}
			if dec, okd := leanDecode(copyPath); !okd || leanVerdictBad(dec) || dec[1] != "dump:"+want {
				rep.violation("C14", "monitor", "backup-accounting", fmt.Sprintf("independent reader on the copy: %v", dec[min(len(dec)-1, 1):]), rp)
			}
			if hi < 1 && round < 2 {
				rep.sample(map[string]any{"mode": mode, "reader_age_commits": age, "commits_during_copy": during, "bytes": n, "size": size})
			}
		}
		e.CloseAll()
	}
	rep.finish(start)
}
