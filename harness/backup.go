package main

import (
	"bytes"
	"fmt"
	"math/rand"
	"os"
	"os/exec"
	"path/filepath"
	"strings"
	"time"

	bolt "go.etcd.io/bbolt"
)

// Engine backup (C14): histories in which read transactions of different ages are copied with
// Tx.WriteTo (through a writer that lets further write transactions commit in the middle of
// the copy) and Tx.CopyFile. Monitors (backupOK): the number of bytes equals Tx.Size(); the
// copy opens as a database whose content equals the reader's snapshot (not the newest state),
// passes Tx.Check, and has exact page accounting according to the independent Lean reader.

func init() { engines["backup"] = backupEngine }

type midCopyWriter struct {
	buf    bytes.Buffer
	at     int
	fired  bool
	action func()
}

func (w *midCopyWriter) Write(p []byte) (int, error) {
	if !w.fired && w.buf.Len() >= w.at {
		w.fired = true
		w.action()
	}
	return w.buf.Write(p)
}

func backupEngine() {
	start := time.Now()
	rep := newReport("backup")
	rep.Rule = "case = one backup (history, reader age in commits, commits during the copy, WriteTo or CopyFile); non-trivial = at least one commit between the reader's begin and the end of the copy; distinct by (history, point, mode)"
	dir := tmpDir()
	defer os.RemoveAll(dir)
	rng := rand.New(rand.NewSource(*flagSeed))
	nHist := 10
	if *flagTier == "thorough" {
		nHist = 150
	}
	for hi := 0; hi < nHist; hi++ {
		o := randOpts(rng)
		g := NewGen(rng.Int63(), o.PageSize)
		path := filepath.Join(dir, fmt.Sprintf("b%d.db", hi))
		_ = os.Remove(path)
		e := NewExec(path, o.boltOptions())
		if err := e.Open(); err != nil {
			continue
		}
		rep.Programs++
		var done []Op
		run := func(ops []Op) bool {
			for _, op := range ops {
				done = append(done, op)
				r := e.Do(op)
				if r == "timeout" || strings.HasPrefix(r, "panic") {
					return false
				}
			}
			return true
		}
		oneTx := func() []Op {
			ops := append([]Op{{K: "beginw"}}, g.TxOps("w", 2+g.R.Intn(10), true)...)
			return append(ops, Op{K: "commit"})
		}
		ok := run(oneTx()) && run(oneTx())
		for round := 0; ok && round < 4; round++ {
			// open a reader, let `age` transactions commit, then back it up
			rtx, err := e.DB.Begin(false)
			if err != nil {
				break
			}
			want := hashStr(dumpTx(rtx))
			size0 := rtx.Size() // the size is a property of the snapshot: it must not move with later commits
			// a sibling reader on the same version, closed before the writers run: closing it must
			// not deregister the backup reader
			var sibling *bolt.Tx
			if sib, err := e.DB.Begin(false); err == nil {
				if rng.Intn(2) == 0 {
					_ = sib.Rollback()
				} else {
					sibling = sib // closed after the copy
				}
			}
			age := rng.Intn(4)
			for a := 0; a < age && ok; a++ {
				ok = run(oneTx())
			}
			during := rng.Intn(3)
			mode := []string{"WriteTo", "CopyFile"}[rng.Intn(2)]
			rp := map[string]any{"options": o.String(), "opts": o, "ops": opLines(done), "reader_age_commits": age, "commits_during_copy": during, "mode": mode}
			copyPath := filepath.Join(dir, "copy.db")
			_ = os.Remove(copyPath)
			inFlight("backup", rp)
			rep.Evaluations++
			if age+during > 0 {
				rep.Distinct++
			}
			size := rtx.Size()
			var n int64
			if mode == "WriteTo" {
				w := &midCopyWriter{at: int(size) / 2, action: func() {
					for d := 0; d < during && ok; d++ {
						ok = run(oneTx())
					}
				}}
				n, err = rtx.WriteTo(w)
				if err == nil {
					_ = os.WriteFile(copyPath, w.buf.Bytes(), 0o600)
				}
			} else {
				// the destination may already exist and be LARGER than the snapshot (an older backup at
				// the same path): the copy must replace it, not be written over its beginning
				if rng.Intn(2) == 0 {
					_ = os.WriteFile(copyPath, bytes.Repeat([]byte{0xA5}, int(size)+3*o.PageSize+17), 0o600)
					rp["destination_preexists_larger"] = true
				}
				err = rtx.CopyFile(copyPath, 0o600)
				if fi, e2 := os.Stat(copyPath); e2 == nil {
					n = fi.Size()
				}
			}
			// the byte-level model of WriteTo (Model/Backup.lean) on the source file as it is now and
			// the meta of this read transaction: no writer is running at this point; when no commit
			// happened DURING the copy the whole copy must equal the model's bytes, else (pages outside
			// the reader's version may have been read before or after those commits) the two meta pages
			mtxid, mroot, mseq, mfl, mpgid := rtx.VerifMeta()
			srcSnap := filepath.Join(dir, "src-snap.db")
			if err == nil && *flagModel != "" {
				_ = copyFile(srcSnap, e.Path)
			}
			_ = rtx.Rollback()
			if sibling != nil {
				_ = sibling.Rollback()
			}
			if err == nil && *flagModel != "" {
				mo := filepath.Join(dir, "model-backup.db")
				_ = os.Remove(mo)
				out, merr := exec.Command(*flagModel, "backup", srcSnap, mo, fmt.Sprint(o.PageSize), fmt.Sprint(mroot), fmt.Sprint(mseq), fmt.Sprint(mfl), fmt.Sprint(mpgid), fmt.Sprint(mtxid)).Output()
				a, e1 := os.ReadFile(copyPath)
				b, e2 := os.ReadFile(mo)
				rep.Evaluations++
				if merr != nil || !strings.HasPrefix(string(out), "ok ") || e1 != nil || e2 != nil {
					rep.violation("C14", "correspondence", "model-driver-failed", fmt.Sprintf("%s %v %v %v", truncate(string(out), 80), merr, e1, e2), rp)
				} else {
					lim := len(a)
					what := "the copy"
					if during > 0 {
						lim, what = 2*o.PageSize, "the two meta pages of the copy"
					}
					if len(a) != len(b) || lim > len(a) || !bytes.Equal(a[:lim], b[:lim]) {
						at := 0
						for at < lim && at < len(a) && at < len(b) && a[at] == b[at] {
							at++
						}
						rep.Disagree++
						rep.violation("C14", "correspondence", "backup-model-vs-impl", fmt.Sprintf("%s: %s (%d bytes) and the model's WriteTo (%d bytes) differ first at offset %d (reader age %d commits, %d during the copy)", mode, what, len(a), len(b), at, age, during), rp)
					} else if during > 0 {
						rep.count("model-metas")
					} else {
						rep.count("model-bytes")
					}
				}
				_ = os.Remove(mo)
				_ = os.Remove(srcSnap)
			}
			rep.count(mode)
			if err != nil {
				rep.violation("C14", "monitor", "backup-fails", fmt.Sprintf("%s fails: %v", mode, err), rp)
				continue
			}
			if n != size {
				rep.violation("C14", "monitor", "backup-size", fmt.Sprintf("%s produced %d bytes, the transaction reports Size() = %d", mode, n, size), rp)
			}
			if size != size0 || n != size0 {
				rep.violation("C14", "monitor", "backup-size-moves", fmt.Sprintf("%s: the read transaction reported Size() = %d when it began, %d at copy time (%d commits in between), %d bytes were written", mode, size0, size, age, n), rp)
			}
			cdb, err := bolt.Open(copyPath, 0o600, &bolt.Options{ReadOnly: true, PreLoadFreelist: true, Timeout: time.Second})
			if err != nil {
				rep.violation("C14", "monitor", "backup-unopenable", fmt.Sprintf("the copy does not open: %v", err), rp)
				continue
			}
			got := hashStr(dumpDB(cdb))
			bad := checkDB(cdb)
			_ = cdb.Close()
			if got != want {
				rep.violation("C14", "monitor", "backup-content", fmt.Sprintf("the copy holds %s, the transaction's snapshot was %s (reader age %d commits, %d commits during the copy)", got, want, age, during), rp)
			}
			if bad != "" {
				rep.violation("C14", "monitor", "backup-fails-check", "Tx.Check on the copy: "+truncate(bad, 200), rp)
			}
			if dec, okd := leanDecode(copyPath); !okd || leanVerdictBad(dec) || dec[1] != "dump:"+want {
				rep.violation("C14", "monitor", "backup-accounting", fmt.Sprintf("independent reader on the copy: %v", dec[min(len(dec)-1, 1):]), rp)
			}
			// every page of the copy is accounted for: the copy is exactly as long as the high water
			// mark of the database inside it
			if dec, okd := leanDecode(copyPath); okd && len(dec) > 0 {
				var ps, txid, root, pgid, fsz int64
				var fl uint64
				fmt.Sscanf(dec[0], "ok ps=%d txid=%d root=%d pgid=%d freelist=%d filesize=%d", &ps, &txid, &root, &pgid, &fl, &fsz)
				if ps > 0 && fsz != pgid*ps {
					rep.violation("C14", "monitor", "backup-length", fmt.Sprintf("%s: the copy is %d bytes long, the database inside it ends at page %d (%d bytes): the rest is not accounted for", mode, fsz, pgid, pgid*ps), rp)
				}
			}
			// a backup is a whole database file: BOTH meta pages must be valid version-2 metas
			// (else the copy has lost its tolerance to one damaged meta page, C11)
			if dec, okd := leanDecode(copyPath); okd && len(dec) > 7 && dec[7] != "metas m0=true m1=true" {
				rep.violation("C14", "monitor", "backup-meta-invalid", fmt.Sprintf("%s: the copy's meta pages validated by the independent reader: %s", mode, dec[7]), rp)
			}
			if hi < 1 && round < 2 {
				rep.sample(map[string]any{"mode": mode, "reader_age_commits": age, "commits_during_copy": during, "bytes": n, "size": size})
			}
		}
		e.CloseAll()
	}
	// (2) a backup taken through a read transaction that was open across a FAILED commit
	// (ErrMaxSizeReached) and later commits must still be the reader's snapshot
	nfc := 4
	if *flagTier == "thorough" {
		nfc = 60
	}
	for k := 0; k < nfc; k++ {
		seed := *flagSeed*15485863 + int64(k)
		o := fcOpts{PageSize: []int{1024, 4096}[k%2], NoFreelistSync: k%4 >= 2, Freelist: []bolt.FreelistType{bolt.FreelistArrayType, bolt.FreelistMapType}[(k/2)%2], Backup: []string{"WriteTo", "CopyFile"}[k%2]}
		rp := map[string]any{"scenario": "backup through a reader open across a failed commit", "seed": seed, "opts": o.String()}
		inFlight("backup", rp)
		r := runFailedCommitScenario(filepath.Join(dir, "fcb.db"), seed, o)
		rep.Evaluations++
		rep.count("backup-across-failed-commit")
		if os.Getenv("VERIF_DEBUG") != "" {
			fmt.Fprintf(os.Stderr, "fc %s: %+v\n", o, r)
		}
		if strings.HasPrefix(r.Err, "panic") {
			rep.violation("C14", "monitor", "backup-fails", fmt.Sprintf("%s through a reader open across a failed commit and later commits: %s (the reader itself: %q) [%s]", o.Backup, truncate(r.Err, 160), truncate(r.ReaderDiff, 120), o), rp)
		} else if r.Err != "" {
			rep.Notes = append(rep.Notes, "failed-commit scenario did not run as planned: "+truncate(r.Err, 100))
		}
		if r.BackupErr != "" {
			rep.violation("C14", "monitor", "backup-fails", fmt.Sprintf("%s through a reader open across a failed commit: %s [%s]", o.Backup, r.BackupErr, o), rp)
		}
		if r.BackupDiff != "" {
			rep.violation("C14", "monitor", "backup-content", fmt.Sprintf("%s through a reader open across a failed commit and later commits: %s [%s]", o.Backup, r.BackupDiff, o), rp)
		}
	}
	// (3) Tx.WriteFlag set (WriteTo then re-opens db.Path()) while the path has been replaced by
	// another database file: the backup must still be the transaction's snapshot
	for k := 0; k < 2; k++ {
		p := filepath.Join(dir, "wf.db")
		p2 := filepath.Join(dir, "wf-other.db")
		_ = os.Remove(p)
		_ = os.Remove(p2)
		ps := []int{1024, 4096}[k%2]
		rp := map[string]any{"scenario": "WriteTo with WriteFlag after the path was replaced by rename", "page_size": ps}
		inFlight("backup", rp)
		mk := func(path string, tag string, n int) *bolt.DB {
			db, err := bolt.Open(path, 0o600, &bolt.Options{PageSize: ps, Timeout: time.Second})
			if err != nil {
				return nil
			}
			for c := 0; c < 3; c++ {
				_ = db.Update(func(tx *bolt.Tx) error {
					b, _ := tx.CreateBucketIfNotExists([]byte(tag))
					for i := 0; i < n; i++ {
						_ = b.Put([]byte(fmt.Sprintf("%s-%04d", tag, i)), []byte(strings.Repeat(tag, 20+c+i%50)))
					}
					return nil
				})
			}
			return db
		}
		db := mk(p, "first", 150)
		other := mk(p2, "other", 400)
		if db == nil || other == nil {
			continue
		}
		_ = other.Close()
		rtx, err := db.Begin(false)
		if err != nil {
			_ = db.Close()
			continue
		}
		snap := dumpTx(rtx)
		_ = os.Rename(p2, p)
		rtx.WriteFlag = os.O_SYNC
		var buf bytes.Buffer
		_, werr := rtx.WriteTo(&buf)
		_ = rtx.Rollback()
		_ = db.Close()
		rep.Evaluations++
		rep.count("backup-writeflag-path-replaced")
		cp := filepath.Join(dir, "wf-copy.db")
		if werr != nil {
			rep.violation("C14", "monitor", "backup-fails", fmt.Sprintf("WriteTo with WriteFlag after the path was replaced: %v", werr), rp)
			continue
		}
		_ = os.WriteFile(cp, buf.Bytes(), 0o600)
		func() {
			defer func() {
				if r := recover(); r != nil {
					rep.violation("C14", "monitor", "backup-unopenable", fmt.Sprintf("WriteTo with WriteFlag after the path was replaced by another database: the copy cannot be read: panic: %v", r), rp)
				}
			}()
			cdb, err := bolt.Open(cp, 0o600, &bolt.Options{ReadOnly: true, Timeout: time.Second})
			if err != nil {
				rep.violation("C14", "monitor", "backup-unopenable", fmt.Sprintf("WriteTo with WriteFlag after the path was replaced by another database: the copy does not open: %v", err), rp)
				return
			}
			got := dumpDB(cdb)
			bad := checkDB(cdb)
			_ = cdb.Close()
			if got != snap {
				rep.violation("C14", "monitor", "backup-content", fmt.Sprintf("WriteTo with WriteFlag after the path was replaced by another database: the copy holds %s, the transaction's snapshot was %s", hashStr(got), hashStr(snap)), rp)
			} else if bad != "" {
				rep.violation("C14", "monitor", "backup-fails-check", "WriteTo with WriteFlag after the path was replaced: Tx.Check on the copy: "+truncate(bad, 160), rp)
			}
		}()
	}
	inFlight("backup", nil)
	rep.finish(start)
}
