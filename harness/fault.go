package main

import (
	"fmt"
	"math/rand"
	"os"
	"time"
)

// Engine fault (C08): for generated histories, one commit is chosen; a dry run counts the
// I/O calls (write, sync, truncate, fsync, mmap) it issues; then the history is re-run once
// per call index k with exactly that call failing, with the readers the history has open
// across it, and continues with the remaining transactions. Monitors: failedCommitClean
// (error returned, content unchanged in process and in the file, readers keep their snapshot,
// allocator = committed freelist, accounting exact, next writer not blocked, reopen);
// the event trace (with `failedCommit` / `commitSyncFailed`) must be accepted by the Lean
// protocol model and its predictions must match.

func init() { engines["fault"] = faultEngine }

func faultEngine() {
	start := time.Now()
	rep := newReport("fault")
	rep.Rule = "case = (history, commit chosen, index k of the I/O call failed); non-trivial = the failed call is issued by a commit that changes content; distinct by (program, k)"
	dir := tmpDir()
	defer os.RemoveAll(dir)
	installHooks()
	rng := rand.New(rand.NewSource(*flagSeed))
	nProg := 8
	if *flagTier == "thorough" {
		nProg = 200
	}
	for pi := 0; pi < nProg; pi++ {
		o := randOpts(rng)
		if pi%3 == 0 {
			o.InitialMmap = 0 // let commits remap (no reader is held in these programs)
		}
		g := NewGen(rng.Int63(), o.PageSize)
		ops := g.History(4+rng.Intn(6), o.InitialMmap != 0, false)
		// choose a commit
		var commits []int
		for i, op := range ops {
			if op.K == "commit" {
				commits = append(commits, i)
			}
		}
		if len(commits) == 0 {
			continue
		}
		target := commits[rng.Intn(len(commits))]
		if o.InitialMmap != 0 && len(commits) >= 2 {
			// hold a reader that is older than the newest state when the targeted commit fails:
			// open it before the write transaction preceding the targeted one
			target = commits[1+rng.Intn(len(commits)-1)]
			var begins []int
			for i, op := range ops[:target] {
				if op.K == "beginw" {
					begins = append(begins, i)
				}
			}
			if len(begins) >= 2 {
				at := begins[len(begins)-2]
				held := Op{K: "beginr", Tx: "rheld"}
				ops = append(ops[:at:at], append([]Op{held}, ops[at:]...)...)
				target++
				ops = append(ops, Op{K: "dump", Tx: "rheld"}, Op{K: "endr", Tx: "rheld"})
			}
		}
		// dry run to count the I/O calls of that commit
		faultPlan = []int{target, 1 << 30}
		t0 := runTrace(rep, dir, fmt.Sprintf("f%d-dry", pi), o, ops)
		n := t0.ioCount
		rep.count(fmt.Sprintf("io-calls-per-commit≤%d", ((n+9)/10)*10))
		if pi < 2 {
			rep.sample(map[string]any{"options": o.String(), "target_commit_op": target, "io_calls": t0.ioKinds})
		}
		for k := 1; k <= n; k++ {
			faultPlan = []int{target, k, target}
			inFlight("fault", map[string]any{"options": o.String(), "opts": o, "ops": opLines(ops), "fault": []int{target, k}})
			t := runTrace(rep, dir, fmt.Sprintf("f%d-%d", pi, k), o, ops)
			inFlight("fault", nil)
			checkTrace(rep, t)
			rep.Distinct++
		}
		faultPlan = nil
	}
	faultPlan = nil
	rep.finish(start)
}
