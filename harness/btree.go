package main

import (
	"bytes"
	"encoding/json"
	"fmt"
	"math/rand"
	"os"
	"path/filepath"
	"sort"
	"strings"
	"time"

	bolt "go.etcd.io/bbolt"
)

// Engine btree (C04, C07): the copy-on-write B+tree of one bucket, transaction by
// transaction, against the Lean model Bolt/Model/BTree.lean (driver command `btree`).
//
// For every write transaction the engine hands the model the committed tree (with page ids,
// from the VerifNodeTree hook), the Put/Delete calls, and the order in which Bucket.rebalance
// visited the node map (the "rebalance" event hook; Go's map order is random, the model is
// proved for every order).  It compares (1) the in-memory node tree after the calls — which
// pages were materialised, unbalanced flags, node keys, inodes — and (2) the tree the commit
// wrote.  Independently of the model it checks on the real tree: content = a Go map shadow,
// keys strictly ascending, every separator = first key of its child, uniform depth, no empty
// node below the root.

func init() { engines["btree"] = btreeEngine }

type btTx struct {
	Fill float64  `json:"fill"`
	Ops  []string `json:"ops"` // "put <hexkey> <valtoken>" | "del <hexkey>"
}

type btScenario struct {
	PageSize int    `json:"page_size"`
	Txs      []btTx `json:"txs"`
}

type btNode struct {
	leaf           bool
	pgid, mat, unb string
	key            string
	items          [][3]string // key, val token, flags
	seps           []string
	kids           []*btNode
}

func parseBT(toks []string) (*btNode, []string) {
	if len(toks) < 6 {
		return nil, nil
	}
	n := &btNode{leaf: toks[0] == "L", pgid: toks[1], mat: toks[2], unb: toks[3], key: toks[4]}
	var cnt int
	fmt.Sscan(toks[5], &cnt)
	toks = toks[6:]
	for i := 0; i < cnt; i++ {
		if n.leaf {
			if len(toks) < 3 {
				return nil, nil
			}
			n.items = append(n.items, [3]string{toks[0], toks[1], toks[2]})
			toks = toks[3:]
		} else {
			if len(toks) < 1 {
				return nil, nil
			}
			n.seps = append(n.seps, toks[0])
			var c *btNode
			c, toks = parseBT(toks[1:])
			if c == nil {
				return nil, nil
			}
			n.kids = append(n.kids, c)
		}
	}
	return n, toks
}

// shape only: header fields dropped
func (n *btNode) shape(sb *strings.Builder) {
	if n.leaf {
		fmt.Fprintf(sb, "L %d ", len(n.items))
		for _, it := range n.items {
			fmt.Fprintf(sb, "%s %s %s ", it[0], it[1], it[2])
		}
		return
	}
	fmt.Fprintf(sb, "B %d ", len(n.kids))
	for i, c := range n.kids {
		sb.WriteString(n.seps[i] + " ")
		c.shape(sb)
	}
}

// full form with every page id outside `keep` replaced by 0 (a page the commit allocated)
func (n *btNode) full(sb *strings.Builder, keep map[string]bool) {
	pg := n.pgid
	if !keep[pg] {
		pg = "0"
	}
	if n.leaf {
		fmt.Fprintf(sb, "L %s %s %s %s %d ", pg, n.mat, n.unb, n.key, len(n.items))
		for _, it := range n.items {
			fmt.Fprintf(sb, "%s %s %s ", it[0], it[1], it[2])
		}
		return
	}
	fmt.Fprintf(sb, "B %s %s %s %s %d ", pg, n.mat, n.unb, n.key, len(n.kids))
	for i, c := range n.kids {
		sb.WriteString(n.seps[i] + " ")
		c.full(sb, keep)
	}
}

// every node keyed by page id, as its full serialised subtree
func (n *btNode) byPgid(out map[string]string) {
	var sb strings.Builder
	all := map[string]bool{}
	n.allPgids(all)
	n.full(&sb, all)
	out[n.pgid] = sb.String()
	for _, c := range n.kids {
		c.byPgid(out)
	}
}

func (n *btNode) allPgids(out map[string]bool) {
	out[n.pgid] = true
	for _, c := range n.kids {
		c.allPgids(out)
	}
}

// spans: the page span [first, last] of every node, from the node's serialized size
// (16-byte header, 16 bytes per element, keys and values) and the page size
func (n *btNode) spans(ps int, out map[string][2]uint64) {
	size := 16
	if n.leaf {
		for _, it := range n.items {
			size += 16 + len(unhx(it[0])) + len(tokenVal(it[1]))
		}
	} else {
		for _, k := range n.seps {
			size += 16 + len(unhx(k))
		}
	}
	var id uint64
	fmt.Sscan(n.pgid, &id)
	out[n.pgid] = [2]uint64{id, id + uint64((size+ps-1)/ps) - 1}
	for _, c := range n.kids {
		c.spans(ps, out)
	}
}

func btKeep(s string, keep map[string]bool) string {
	n, _ := parseBT(strings.Fields(s))
	if n == nil {
		return "unparsable:" + truncate(s, 80)
	}
	var sb strings.Builder
	n.full(&sb, keep)
	return strings.TrimSpace(sb.String())
}

func btShape(s string) string {
	n, _ := parseBT(strings.Fields(s))
	if n == nil {
		return "unparsable:" + truncate(s, 80)
	}
	var sb strings.Builder
	n.shape(&sb)
	return sb.String()
}

func (n *btNode) firstKey() string {
	if n.leaf {
		if len(n.items) == 0 {
			return "-"
		}
		return n.items[0][0]
	}
	if len(n.seps) == 0 {
		return "-"
	}
	return n.seps[0]
}

func (n *btNode) matPgids(out map[string]bool) {
	if n.mat == "1" {
		out[n.pgid] = true
	}
	for _, c := range n.kids {
		c.matPgids(out)
	}
}

// structural monitors on a committed tree; returns "" or the first problem
func (n *btNode) wf(root bool, depth int, leafDepth *int, flat *[][2]string) string {
	if n.leaf {
		if *leafDepth == -1 {
			*leafDepth = depth
		} else if *leafDepth != depth {
			return fmt.Sprintf("leaves at depth %d and %d", *leafDepth, depth)
		}
		if len(n.items) == 0 && !root {
			return "empty leaf below the root"
		}
		for _, it := range n.items {
			*flat = append(*flat, [2]string{it[0], it[1]})
		}
		return ""
	}
	if len(n.kids) == 0 {
		return "branch without children"
	}
	for i, c := range n.kids {
		if fk := c.firstKey(); fk != n.seps[i] {
			return fmt.Sprintf("separator %s differs from the first key %s of its child", n.seps[i], fk)
		}
		if p := c.wf(false, depth+1, leafDepth, flat); p != "" {
			return p
		}
	}
	return ""
}

func valToken(v []byte) string {
	if len(v) == 0 {
		return "-"
	}
	if len(v) > 32 {
		same := true
		for _, c := range v {
			if c != v[0] {
				same = false
				break
			}
		}
		if same {
			return fmt.Sprintf("*%d:%02x", len(v), v[0])
		}
	}
	return hx(string(v))
}

func tokenVal(t string) []byte {
	if t == "-" {
		return []byte{}
	}
	if strings.HasPrefix(t, "*") {
		var n int
		var b int
		fmt.Sscanf(t, "*%d:%02x", &n, &b)
		return bytes.Repeat([]byte{byte(b)}, n)
	}
	return []byte(unhx(t))
}

var btRebalanceLog []int

// VERIF_BT_SKEW: self-test of the comparison (skews the rebalance threshold given to the model)
var btDebugSkew = func() int { var n int; fmt.Sscan(os.Getenv("VERIF_BT_SKEW"), &n); return n }()

// runBTreeScenario executes one scenario on the real code, feeds the model, compares.
// Returns the number of protocol lines compared.
func runBTreeScenario(rep *Report, sc btScenario, tag string) int {
	dir := tmpDir()
	path := filepath.Join(dir, "bt-"+tag+".db")
	_ = os.Remove(path)
	inFlight("btree", sc)
	db, err := bolt.Open(path, 0o600, &bolt.Options{PageSize: sc.PageSize, NoSync: true, NoFreelistSync: true})
	if err != nil {
		rep.violation(*flagProp, "correspondence", "btree-open-failed", err.Error(), sc)
		return 0
	}
	defer func() { db.Close(); os.Remove(path) }()
	bolt.VerifEventHook = func(_ *bolt.DB, ev string, n int) {
		if ev == "rebalance" {
			btRebalanceLog = append(btRebalanceLog, n)
		}
	}
	defer func() { bolt.VerifEventHook = nil; bolt.VerifFLHook = nil }()
	var freedLog []uint64
	bolt.VerifFLHook = func(_ *bolt.DB, ev string, a, b, c uint64) {
		if ev == "free" {
			for i := uint64(0); i <= c; i++ {
				freedLog = append(freedLog, b+i)
			}
		}
	}
	ps := db.Info().PageSize
	shadow := map[string]string{}
	var lines, want []string
	add := func(l, w string) { lines = append(lines, l); want = append(want, w) }
	fail := func(sig, what string) {
		rep.violation(*flagProp, "monitor", sig, what, sc)
	}
	for ti, t := range sc.Txs {
		tx, err := db.Begin(true)
		if err != nil {
			fail("btree-begin-failed", err.Error())
			return len(lines)
		}
		b, err := tx.CreateBucketIfNotExists([]byte("b"))
		if err != nil {
			fail("btree-bucket-failed", err.Error())
			tx.Rollback()
			return len(lines)
		}
		b.FillPercent = t.Fill
		fill := t.Fill
		if fill < 0.1 {
			fill = 0.1
		} else if fill > 1.0 {
			fill = 1.0
		}
		before := b.VerifNodeTree()
		add("tree "+before, "ok c=true i=true") // the decidable invariants hold on the tree the real code committed
		beforeSet := map[string]bool{}
		if bn, _ := parseBT(strings.Fields(before)); bn != nil {
			bn.allPgids(beforeSet)
		}
		delete(beforeSet, "0")
		freedLog = freedLog[:0]
		add(fmt.Sprintf("cfg %d %d %d", ps, int(float64(ps)*fill), int(float64(ps)*t.Fill)/2+btDebugSkew), "ok")
		for _, o := range t.Ops {
			f := strings.Fields(o)
			switch f[0] {
			case "put":
				v := tokenVal(f[2])
				if err := b.Put([]byte(unhx(f[1])), v); err != nil {
					fail("btree-put-failed", fmt.Sprintf("tx %d `%s`: %v", ti, truncate(o, 60), err))
				}
				shadow[f[1]] = valToken(v)
			case "del":
				if err := b.Delete([]byte(unhx(f[1]))); err != nil {
					fail("btree-delete-failed", fmt.Sprintf("tx %d `%s`: %v", ti, o, err))
				}
				delete(shadow, f[1])
			}
			add(o, "ok")
		}
		mid := b.VerifNodeTree()
		add("dump", strings.TrimSpace(mid))
		add("intx", "i=true r=true")
		mn, _ := parseBT(strings.Fields(mid))
		mine := map[string]bool{}
		if mn != nil {
			mn.matPgids(mine)
		}
		btRebalanceLog = btRebalanceLog[:0]
		if err := tx.Commit(); err != nil {
			fail("btree-commit-failed", fmt.Sprintf("tx %d: %v", ti, err))
			return len(lines)
		}
		for _, pg := range btRebalanceLog {
			if mine[fmt.Sprint(pg)] {
				// "skipped" would mean the real code visited a node the model has already removed from the map
				add(fmt.Sprintf("rebalance %d", pg), "ok i=true r=true")
			}
		}
		var after string
		_ = db.View(func(rtx *bolt.Tx) error {
			after = rtx.Bucket([]byte("b")).VerifNodeTree()
			return nil
		})
		add("spill", "ok c=true")
		// the committed tree WITH the page ids of the pages the commit kept (everything else is a
		// newly written page, 0): which old pages survive is part of the comparison
		add("dump", "KEEP:"+btKeep(after, beforeSet))
		// copy-on-write (C06): a page of the old tree that the committed tree still references holds
		// exactly what it held, subtree and all
		{
			oldSub, newSub := map[string]string{}, map[string]string{}
			if bn, _ := parseBT(strings.Fields(before)); bn != nil {
				bn.byPgid(oldSub)
			}
			if an, _ := parseBT(strings.Fields(after)); an != nil {
				an.byPgid(newSub)
			}
			for pg, sub := range newSub {
				if old, ok := oldSub[pg]; ok && pg != "0" && old != sub {
					rep.violation("C06", "monitor", "btree-old-page-modified", fmt.Sprintf("tx %d: page %s belongs to the old tree and is still referenced by the committed tree, but its content (or something below it) changed", ti, pg), sc)
					break
				}
			}
		}
		// the hypotheses of C01Tree.commit_written on the real commit: the page spans of the nodes the
		// commit wrote (ids not in the old tree) are at least page 2, pairwise disjoint and disjoint
		// from every page span of the old tree (which open readers and a crash before the meta write
		// still need)
		{
			oldSp, newSp := map[string][2]uint64{}, map[string][2]uint64{}
			if bn, _ := parseBT(strings.Fields(before)); bn != nil {
				bn.spans(sc.PageSize, oldSp)
			}
			if an, _ := parseBT(strings.Fields(after)); an != nil {
				an.spans(sc.PageSize, newSp)
			}
			var fresh [][2]uint64
			for pg, sp := range newSp {
				// page id 0: an inline bucket, written inside a leaf element of its parent, not on a page of its own
				if _, kept := oldSp[pg]; !kept && sp[0] != 0 {
					fresh = append(fresh, sp)
				}
			}
			delete(oldSp, "0")
			bad := ""
			for i, a := range fresh {
				if a[0] < 2 {
					bad = fmt.Sprintf("a node was written at page %d", a[0])
				}
				for _, b := range fresh[i+1:] {
					if !(a[1] < b[0] || b[1] < a[0]) {
						bad = fmt.Sprintf("two nodes written by the commit overlap: pages %d-%d and %d-%d", a[0], a[1], b[0], b[1])
					}
				}
				for _, b := range oldSp {
					if !(a[1] < b[0] || b[1] < a[0]) {
						bad = fmt.Sprintf("a node written by the commit (pages %d-%d) overlaps pages %d-%d of the tree the transaction started from", a[0], a[1], b[0], b[1])
					}
				}
			}
			if bad != "" {
				rep.violation("C06", "monitor", "btree-written-over-old-tree", fmt.Sprintf("tx %d: %s", ti, bad), sc)
			} else if len(fresh) > 0 {
				rep.count("written-spans-disjoint")
			}
		}
		// pages of the old tree the transaction freed = old pages that do not survive, each once
		{
			surv := map[string]bool{}
			an, _ := parseBT(strings.Fields(after))
			if an != nil {
				an.allPgids(surv)
			}
			seen := map[uint64]int{}
			for _, id := range freedLog {
				seen[id]++
			}
			for pg := range beforeSet {
				var id uint64
				fmt.Sscan(pg, &id)
				switch {
				case surv[pg] && seen[id] > 0:
					rep.violation("C07", "monitor", "btree-page-freed-and-kept", fmt.Sprintf("tx %d: page %s of the bucket's old tree was freed although the committed tree still references it", ti, pg), sc)
				case !surv[pg] && seen[id] == 0:
					rep.violation("C07", "monitor", "btree-page-leaked", fmt.Sprintf("tx %d: page %s of the bucket's old tree is neither referenced by the committed tree nor freed", ti, pg), sc)
				case seen[id] > 1:
					rep.violation("C07", "monitor", "btree-page-freed-twice", fmt.Sprintf("tx %d: page %s freed %d times", ti, pg, seen[id]), sc)
				}
			}
		}
		rep.count("tx")
		// monitors on the committed tree itself
		an, _ := parseBT(strings.Fields(after))
		if an == nil {
			fail("btree-unparsable-tree", truncate(after, 200))
			return len(lines)
		}
		ld := -1
		var flat [][2]string
		if p := an.wf(true, 0, &ld, &flat); p != "" {
			rep.violation("C07", "monitor", "btree-structure:"+strings.SplitN(p, " ", 3)[0], fmt.Sprintf("after tx %d the bucket's tree is malformed: %s", ti, p), sc)
		}
		for i := 1; i < len(flat); i++ {
			if unhx(flat[i-1][0]) >= unhx(flat[i][0]) {
				rep.violation("C07", "monitor", "btree-key-order", fmt.Sprintf("after tx %d keys %s, %s are not strictly ascending across the tree", ti, flat[i-1][0], flat[i][0]), sc)
				break
			}
		}
		if len(flat) != len(shadow) {
			rep.violation("C04", "monitor", "btree-content-count", fmt.Sprintf("after tx %d the tree holds %d keys, the map semantics %d", ti, len(flat), len(shadow)), sc)
		} else {
			for _, kv := range flat {
				if w, ok := shadow[kv[0]]; !ok || w != kv[1] {
					rep.violation("C04", "monitor", "btree-content", fmt.Sprintf("after tx %d key %s: tree has %s, the map semantics %q (present=%v)", ti, kv[0], truncate(kv[1], 40), truncate(w, 40), ok), sc)
					break
				}
			}
		}
		if ld > 1 {
			rep.count("tx-on-branch-tree")
		}
		if len(btRebalanceLog) > 0 {
			rep.count("tx-with-rebalance")
		}
	}
	rep.Evaluations += len(lines)
	if *flagModel == "" {
		return len(lines)
	}
	got, err := runModel([]string{"btree"}, lines)
	if err != nil || len(got) != len(lines) {
		rep.violation(*flagProp, "correspondence", "model-driver-failed", fmt.Sprintf("btree driver: %v (%d/%d)", err, len(got), len(lines)), sc)
		return len(lines)
	}
	for i := range lines {
		w, g := want[i], got[i]
		if strings.HasPrefix(w, "KEEP:") {
			w = strings.TrimPrefix(w, "KEEP:")
			g = strings.TrimSpace(g)
		} else {
			g = strings.TrimSpace(g)
		}
		if w != g {
			rep.Disagree++
			kind := strings.Fields(lines[i])[0]
			if kind == "dump" && strings.HasPrefix(want[i], "KEEP:") {
				kind = "committed-tree"
			} else if kind == "dump" {
				kind = "node-tree-after-ops"
			}
			// first differing token for the message
			wt, gt := strings.Fields(w), strings.Fields(g)
			d := 0
			for d < len(wt) && d < len(gt) && wt[d] == gt[d] {
				d++
			}
			ctx := func(t []string) string {
				lo, hi := d-3, d+6
				if lo < 0 {
					lo = 0
				}
				if hi > len(t) {
					hi = len(t)
				}
				return strings.Join(t[lo:hi], " ")
			}
			rep.violation(*flagProp, "correspondence", "btree-model-vs-impl:"+kind,
				fmt.Sprintf("line %d `%s`: implementation and model differ at token %d: impl `…%s…` model `…%s…`", i, truncate(lines[i], 60), d, truncate(ctx(wt), 200), truncate(ctx(gt), 200)), sc)
			break
		}
	}
	return len(lines)
}

func btGenScenario(rng *rand.Rand, ntx int) btScenario {
	sc := btScenario{PageSize: []int{1024, 1024, 4096, 4096, 16384}[rng.Intn(5)]}
	ps := sc.PageSize
	live := map[int]bool{}
	key := func(i int) string { return hx(fmt.Sprintf("k%05d", i)) }
	domain := 200 + rng.Intn(3000)
	val := func() string {
		switch rng.Intn(12) {
		case 0:
			return "-"
		case 1:
			return fmt.Sprintf("*%d:%02x", ps/4+rng.Intn(ps), 97+rng.Intn(20))
		case 2:
			return fmt.Sprintf("*%d:%02x", ps+rng.Intn(3*ps), 97+rng.Intn(20))
		case 3, 4:
			return fmt.Sprintf("*%d:%02x", 33+rng.Intn(200), 97+rng.Intn(20))
		default:
			return hx(fmt.Sprintf("v%d", rng.Intn(100000)))
		}
	}
	for t := 0; t < ntx; t++ {
		tx := btTx{Fill: []float64{0.5, 0.5, 0.5, 1.0, 0.1, 0.3, 0.75, 0.05, 1.5}[rng.Intn(9)]}
		mode := rng.Intn(5)
		n := 1 + rng.Intn(40)
		if rng.Intn(3) == 0 {
			n = 100 + rng.Intn(400)
		}
		switch mode {
		case 0, 1: // growth, random or sequential
			base := rng.Intn(domain)
			for i := 0; i < n; i++ {
				k := rng.Intn(domain)
				if mode == 1 {
					k = (base + i) % domain
				}
				tx.Ops = append(tx.Ops, "put "+key(k)+" "+val())
				live[k] = true
			}
		case 2: // delete a contiguous range of live keys (empties whole leaves)
			var ks []int
			for k := range live {
				ks = append(ks, k)
			}
			sort.Ints(ks)
			if len(ks) > 0 {
				s := rng.Intn(len(ks))
				for i := s; i < len(ks) && i < s+n; i++ {
					tx.Ops = append(tx.Ops, "del "+key(ks[i]))
					delete(live, ks[i])
				}
			}
		case 3: // random deletes (incl. missing keys)
			for i := 0; i < n; i++ {
				k := rng.Intn(domain)
				tx.Ops = append(tx.Ops, "del "+key(k))
				delete(live, k)
			}
		default: // mixed
			for i := 0; i < n; i++ {
				k := rng.Intn(domain)
				if rng.Intn(2) == 0 {
					tx.Ops = append(tx.Ops, "del "+key(k))
					delete(live, k)
				} else {
					tx.Ops = append(tx.Ops, "put "+key(k)+" "+val())
					live[k] = true
				}
			}
		}
		if rng.Intn(25) == 0 { // delete everything
			var ks []int
			for k := range live {
				ks = append(ks, k)
			}
			sort.Ints(ks)
			for _, k := range ks {
				tx.Ops = append(tx.Ops, "del "+key(k))
				delete(live, k)
			}
		}
		sc.Txs = append(sc.Txs, tx)
	}
	return sc
}

func btreeEngine() {
	start := time.Now()
	rep := newReport("btree")
	rep.Rule = "case = one protocol line (tree hand-over, Put/Delete, node tree after the calls, each rebalance visit, committed tree) of a generated multi-transaction scenario; non-trivial = write transaction on a tree with branch pages or with rebalance visits"
	rng := rand.New(rand.NewSource(*flagSeed))
	nsc, ntx := 8, 30
	if *flagTier == "thorough" {
		nsc, ntx = 300, 40
	}
	for i := 0; i < nsc; i++ {
		sc := btGenScenario(rng, ntx)
		runBTreeScenario(rep, sc, fmt.Sprint(i))
		rep.Programs++
		if len(rep.Violations) > 5 {
			break
		}
	}
	inFlight("btree", nil)
	rep.Distinct = rep.Distribution["tx-on-branch-tree"] + rep.Distribution["tx-with-rebalance"]
	rep.finish(start)
}

func btreeReplay(rep *Report, raw json.RawMessage) {
	var sc btScenario
	_ = json.Unmarshal(raw, &sc)
	runBTreeScenario(rep, sc, "replay")
}
