package main

import (
	"bytes"
	"fmt"
	"math/rand"
	"os"
	"time"

	bolt "go.etcd.io/bbolt"
)

// A scenario shared by the options (C13) and backup (C14) engines: a read transaction (and a
// hot backup taken through it) across a commit that FAILS by the public API alone
// (ErrMaxSizeReached) and is followed by further commits.  Everything is deterministic in
// (seed, page size), so the same history can be replayed under every option combination.

type fcResult struct {
	Err        string // set when the scenario could not run as planned
	FailedErr  string // what the failing commit returned
	ReaderDiff string // "" or how the reader's view changed while it was open
	BackupDiff string // "" or how the backup differs from the reader's snapshot
	BackupErr  string
	Final      string // hash of the final content
	Check      string // Tx.Check on the final file
	Steps      int
}

type fcOpts struct {
	PageSize       int
	NoFreelistSync bool
	Freelist       bolt.FreelistType
	NoGrowSync     bool
	Backup         string // "", "WriteTo", "CopyFile"
}

func (o fcOpts) String() string {
	return fmt.Sprintf("ps=%d nofreelistsync=%v freelist=%s nogrowsync=%v backup=%s", o.PageSize, o.NoFreelistSync, o.Freelist, o.NoGrowSync, o.Backup)
}

func runFailedCommitScenario(path string, seed int64, o fcOpts) (res fcResult) {
	defer func() {
		if r := recover(); r != nil {
			res.Err = fmt.Sprintf("panic: %v", r)
		}
	}()
	_ = os.Remove(path)
	rng := rand.New(rand.NewSource(seed))
	const maxSize = 4 << 20
	db, err := bolt.Open(path, 0o600, &bolt.Options{PageSize: o.PageSize, NoFreelistSync: o.NoFreelistSync, FreelistType: o.Freelist,
		NoGrowSync: o.NoGrowSync, MaxSize: maxSize, InitialMmapSize: maxSize, Timeout: time.Second})
	if err != nil {
		res.Err = "open: " + err.Error()
		return
	}
	defer db.Close()
	nkeys := 150 + rng.Intn(200)
	val := func(gen int, i int) []byte {
		return bytes.Repeat([]byte{byte('a' + (gen+i)%26)}, 100+((i*37+gen*11)%400))
	}
	write := func(gen int, frac int) error {
		return db.Update(func(tx *bolt.Tx) error {
			b, err := tx.CreateBucketIfNotExists([]byte("data"))
			if err != nil {
				return err
			}
			for i := 0; i < nkeys; i++ {
				if i%frac == gen%frac {
					if err := b.Put([]byte(fmt.Sprintf("key-%04d", i)), val(gen, i)); err != nil {
						return err
					}
				}
			}
			return nil
		})
	}
	for g := 0; g < 3; g++ {
		if err := write(g, 1); err != nil {
			res.Err = "fill: " + err.Error()
			return
		}
		res.Steps++
	}
	// the reader / backup source
	rtx, err := db.Begin(false)
	if err != nil {
		res.Err = "begin reader: " + err.Error()
		return
	}
	defer func() { _ = rtx.Rollback() }()
	snap := dumpTx(rtx)
	// A writer that has to remap waits for the open read transaction (documented behaviour): in
	// this scenario that would be for ever.  Every writer step after this point runs under a
	// watchdog; if it blocks, the reader is closed, the writer finishes, and the scenario is
	// abandoned (it did not run as planned; nothing is concluded from it).
	guarded := func(f func() error) (error, bool) {
		ch := make(chan error, 1)
		go func() { ch <- f() }()
		select {
		case err := <-ch:
			return err, true
		case <-time.After(10 * time.Second): // generous: the machine may be loaded
			_ = rtx.Rollback()
			<-ch
			return nil, false
		}
	}
	// commits that release pages the reader still sees
	for g := 3; g < 5+rng.Intn(3); g++ {
		frac := 1 + rng.Intn(3)
		err, ran := guarded(func() error { return write(g, frac) })
		if !ran {
			res.Err = "a writer had to wait for the reader (remap)"
			return
		}
		if err != nil {
			res.Err = "overwrite: " + err.Error()
			return
		}
		res.Steps++
	}
	// the failing commit: more data than MaxSize allows
	ferr, ran := guarded(func() error {
		return db.Update(func(tx *bolt.Tx) error {
			b := tx.Bucket([]byte("data"))
			for i := 0; i < 40; i++ {
				if err := b.Put([]byte(fmt.Sprintf("big-%04d", i)), bytes.Repeat([]byte{'B'}, 200<<10)); err != nil {
					return err
				}
			}
			return nil
		})
	})
	if !ran {
		res.Err = "a writer had to wait for the reader (remap)"
		return
	}
	if ferr == nil {
		res.Err = "the oversized commit did not fail"
		return
	}
	res.FailedErr = ferr.Error()
	res.Steps++
	// further commits that need pages
	for g := 10; g < 14+rng.Intn(4); g++ {
		frac := 1 + rng.Intn(2)
		err, ran := guarded(func() error { return write(g, frac) })
		if !ran {
			res.Err = "a writer had to wait for the reader (remap)"
			return
		}
		if err != nil {
			res.Err = fmt.Sprintf("commit after the failed one: %v", err)
			return
		}
		res.Steps++
	}
	// the reader must still see its snapshot
	done := make(chan string, 1)
	go func() {
		defer func() {
			if r := recover(); r != nil {
				done <- fmt.Sprintf("reading through the open read transaction panics: %v", r)
			}
		}()
		if now := dumpTx(rtx); now != snap {
			done <- fmt.Sprintf("the open read transaction now sees %s, it saw %s when it began", hashStr(now), hashStr(snap))
			return
		}
		done <- ""
	}()
	select {
	case d := <-done:
		res.ReaderDiff = d
	case <-time.After(20 * time.Second):
		res.ReaderDiff = "reading through the open read transaction does not terminate"
		return
	}
	if o.Backup != "" {
		cp := path + ".copy"
		_ = os.Remove(cp)
		var berr error
		if o.Backup == "WriteTo" {
			var buf bytes.Buffer
			_, berr = rtx.WriteTo(&buf)
			if berr == nil {
				berr = os.WriteFile(cp, buf.Bytes(), 0o600)
			}
		} else {
			berr = rtx.CopyFile(cp, 0o600)
		}
		if berr != nil {
			res.BackupErr = berr.Error()
		} else if cdb, err := bolt.Open(cp, 0o600, &bolt.Options{ReadOnly: true, Timeout: time.Second}); err != nil {
			res.BackupErr = "the copy does not open: " + err.Error()
		} else {
			got := dumpDB(cdb)
			bad := checkDB(cdb)
			_ = cdb.Close()
			if got != snap {
				res.BackupDiff = fmt.Sprintf("the copy holds %s, the transaction's snapshot was %s", hashStr(got), hashStr(snap))
			} else if bad != "" {
				res.BackupDiff = "Tx.Check on the copy: " + bad
			}
		}
		_ = os.Remove(cp)
	}
	_ = rtx.Rollback()
	res.Final = hashStr(dumpDB(db))
	res.Check = checkDB(db)
	return
}
