package main

import (
	"bytes"
	"fmt"
	"math/rand"
	"os"
	"os/exec"
	"path/filepath"
	"runtime/debug"
	"strings"
	"time"

	bolt "go.etcd.io/bbolt"
)

// Engine crashsim (C01): histories are run on the real database with the I/O hook recording
// every write (with its bytes), sync, truncate and fsync of every commit. For every commit,
// post-crash images are built from the file as it was when the commit started (everything
// synced) plus: every prefix of the commit's I/O calls, and for the writes issued since the
// last completed sync a subset at sector granularity (512-byte sectors for the meta page;
// whole-page groups for data pages; all 2^m subsets when m <= 10, otherwise none / all /
// each single group dropped / each single group kept / random ones). Each image is opened
// with the real Open: monitor recoversTo = the content is the last acknowledged state or
// the in-flight state (the latter only if the meta page's first sector was persisted),
// Tx.Check is clean, a follow-up write transaction and a reopen work; a sample of the images
// is also decoded by the independent Lean reader (accounting exact).

func init() { engines["crashsim"] = crashsimEngine }

type ioRec struct {
	kind string
	off  int64
	data []byte
}

type commitRec struct {
	opIndex  int
	base     []byte // file content when the commit started (durable)
	io       []ioRec
	pre      string // dump before
	post     string // dump after (in-flight state)
	ok       bool
	pageSize int
}

type crashRecorder struct {
	cur *commitRec
}

var curCrash *crashRecorder

func crashsimEngine() {
	start := time.Now()
	rep := newReport("crashsim")
	rep.Rule = "case = one post-crash image (history, commit, prefix of its I/O calls, subset of unsynced sector groups); non-trivial = at least one unsynced write dropped or the crash point lies inside the commit; distinct by (commit, prefix, subset)"
	dir := tmpDir()
	defer os.RemoveAll(dir)
	rng := rand.New(rand.NewSource(*flagSeed))
	bolt.VerifFLHook = nil
	bolt.VerifIOHook = func(db *bolt.DB, kind string, off int64, data []byte) error {
		if c := curCrash; c != nil && c.cur != nil {
			r := ioRec{kind: kind, off: off}
			if kind == "write" {
				r.data = append([]byte(nil), data...)
			}
			c.cur.io = append(c.cur.io, r)
		}
		return nil
	}
	defer func() { bolt.VerifIOHook = nil }()
	nHist := 6
	budget := 5000 // images per run
	if *flagTier == "thorough" {
		nHist, budget = 80, 400000
	}
	for hi := 0; hi < nHist; hi++ {
		o := randOpts(rng)
		o.NoGrowSync = hi%3 == 1 // without grow-sync the file is extended by the page writes themselves
		if hi%4 == 3 {
			o.InitialMmap = 0
		}
		g := NewGen(rng.Int63(), o.PageSize)
		ops := g.History(4+rng.Intn(8), false, hi%3 == 0)
		path := filepath.Join(dir, fmt.Sprintf("h%d.db", hi))
		_ = os.Remove(path)
		e := NewExec(path, o.boltOptions())
		if err := e.Open(); err != nil {
			rep.Notes = append(rep.Notes, err.Error())
			continue
		}
		rec := &crashRecorder{}
		curCrash = rec
		var commits []*commitRec
		pre := dumpDB(e.DB)
		for i, op := range ops {
			if op.K == "commit" && e.W != nil {
				base, _ := os.ReadFile(path)
				rec.cur = &commitRec{opIndex: i, base: base, pre: pre, pageSize: e.DB.VerifPageSize()}
			}
			r := e.Do(op)
			if rec.cur != nil {
				c := rec.cur
				rec.cur = nil
				c.ok = r == "ok"
				if c.ok {
					c.post = dumpDB(e.DB)
					pre = c.post
					commits = append(commits, c)
					metaWriteModel(rep, dir, e.DB, c, o, ops[:i+1])
				}
			}
			if r == "timeout" || strings.HasPrefix(r, "panic") {
				break
			}
			if op.K == "reopen" && e.DB != nil {
				pre = dumpDB(e.DB)
			}
		}
		curCrash = nil
		e.CloseAll()
		rep.Programs++
		per := budget / nHist / max(len(commits), 1)
		for ci, c := range commits {
			crashCommit(rep, rng, dir, o, ops, c, per, hi, ci)
		}
	}
	rep.finish(start)
}

// metaWriteModel: the byte-level model of Tx.writeMeta (Model/MetaWrite.lean) for the meta the
// database holds after this commit must be exactly the page the commit wrote into a meta slot
// (the last write of the commit at offset 0 or pageSize), and it must go to slot txid%2.
func metaWriteModel(rep *Report, dir string, db *bolt.DB, c *commitRec, o optSet, ops []Op) {
	if *flagModel == "" {
		return
	}
	ps := int64(c.pageSize)
	var mw *ioRec
	for k := range c.io {
		r := &c.io[k]
		if r.kind == "write" && (r.off == 0 || r.off == ps) && int64(len(r.data)) == ps {
			mw = r
		}
	}
	rp := map[string]any{"options": o.String(), "opts": o, "ops": opLines(ops), "scenario": "meta write of the last commit"}
	rep.Evaluations++
	if mw == nil {
		rep.violation("C01", "correspondence", "meta-write-model-vs-impl", "the commit issued no page-sized write into a meta slot", rp)
		return
	}
	txid, root, seq, fl, pgid := db.VerifMeta()
	mo := filepath.Join(dir, "model-metapage.bin")
	_ = os.Remove(mo)
	defer os.Remove(mo)
	out, err := exec.Command(*flagModel, "metapage", mo, fmt.Sprint(ps), fmt.Sprint(root), fmt.Sprint(seq), fmt.Sprint(fl), fmt.Sprint(pgid), fmt.Sprint(txid)).Output()
	b, e2 := os.ReadFile(mo)
	if err != nil || e2 != nil || !strings.HasPrefix(string(out), "ok ") {
		rep.violation("C01", "correspondence", "model-driver-failed", fmt.Sprintf("%s %v %v", truncate(string(out), 80), err, e2), rp)
		return
	}
	if mw.off != int64(txid%2)*ps || !bytes.Equal(mw.data, b) {
		at := 0
		for at < len(b) && at < len(mw.data) && b[at] == mw.data[at] {
			at++
		}
		rep.Disagree++
		rep.violation("C01", "correspondence", "meta-write-model-vs-impl", fmt.Sprintf("commit at txid %d wrote its meta page at offset %d; the model writes slot %d and the bytes differ first at offset %d of the page", txid, mw.off, txid%2, at), rp)
		return
	}
	rep.count("meta-write-bytes")
}

type group struct {
	ioIdx  int
	off    int64
	data   []byte
	isMeta bool
	first  bool // first sector of the meta page (holds the whole meta struct)
}

// crashCommit enumerates post-crash images of one commit.
func crashCommit(rep *Report, rng *rand.Rand, dir string, o optSet, ops []Op, c *commitRec, budget, hi, ci int) {
	ps := int64(c.pageSize)
	// epochs: indices of syncs
	type image struct {
		desc     string
		prefix   int
		keep     map[int]bool // group index -> applied
		groups   []group
		durableN int // number of io records fully durable
	}
	n := len(c.io)
	made := 0
	for prefix := 0; prefix <= n && made < budget; prefix++ {
		// durable part: everything before the last sync/fsync within the prefix
		lastSync := -1
		for j := 0; j < prefix; j++ {
			if c.io[j].kind == "sync" || c.io[j].kind == "fsync" {
				lastSync = j
			}
		}
		// a crash exactly after a completed sync is covered by the next prefix's "none" subset;
		// build the unsynced groups
		var groups []group
		for j := lastSync + 1; j < prefix; j++ {
			r := c.io[j]
			if r.kind != "write" {
				continue
			}
			if r.off < 2*ps {
				for s := int64(0); s < int64(len(r.data)); s += 512 {
					groups = append(groups, group{ioIdx: j, off: r.off + s, data: r.data[s:min64(s+512, int64(len(r.data)))], isMeta: true, first: s == 0})
				}
			} else {
				for s := int64(0); s < int64(len(r.data)); s += ps {
					groups = append(groups, group{ioIdx: j, off: r.off + s, data: r.data[s:min64(s+ps, int64(len(r.data)))]})
				}
			}
		}
		m := len(groups)
		var subsets [][]bool
		if m == 0 {
			subsets = [][]bool{{}}
		} else if m <= 8 {
			for mask := 0; mask < 1<<m; mask++ {
				s := make([]bool, m)
				for b := 0; b < m; b++ {
					s[b] = mask&(1<<b) != 0
				}
				subsets = append(subsets, s)
			}
		} else {
			none, all := make([]bool, m), make([]bool, m)
			for b := range all {
				all[b] = true
			}
			subsets = append(subsets, none, all)
			for b := 0; b < m && b < 12; b++ {
				x := rng.Intn(m)
				d := append([]bool(nil), all...)
				d[x] = false
				k := make([]bool, m)
				k[x] = true
				subsets = append(subsets, d, k)
			}
			for r := 0; r < 6; r++ {
				s := make([]bool, m)
				for b := range s {
					s[b] = rng.Intn(2) == 0
				}
				subsets = append(subsets, s)
			}
		}
		for si, sub := range subsets {
			if made >= budget {
				break
			}
			made++
			img := append([]byte(nil), c.base...)
			apply := func(off int64, data []byte) {
				end := off + int64(len(data))
				if int64(len(img)) < end {
					img = append(img, make([]byte, end-int64(len(img)))...)
				}
				copy(img[off:end], data)
			}
			truncTo := int64(-1)
			for j := 0; j <= lastSync; j++ {
				switch c.io[j].kind {
				case "write":
					apply(c.io[j].off, c.io[j].data)
				case "truncate":
					truncTo = c.io[j].off
				}
			}
			if truncTo > int64(len(img)) {
				img = append(img, make([]byte, truncTo-int64(len(img)))...)
			}
			// an unsynced truncate: length extended or not (extended when si is odd)
			for j := lastSync + 1; j < prefix; j++ {
				if c.io[j].kind == "truncate" && si%2 == 1 && c.io[j].off > int64(len(img)) {
					img = append(img, make([]byte, c.io[j].off-int64(len(img)))...)
				}
			}
			metaFirstPersisted := false
			for gi, gr := range groups {
				if sub[gi] {
					apply(gr.off, gr.data)
					if gr.isMeta && gr.first {
						metaFirstPersisted = true
					}
				}
			}
			// was the meta write durable through a completed sync?
			for j := 0; j <= lastSync; j++ {
				if c.io[j].kind == "write" && c.io[j].off < 2*ps {
					metaFirstPersisted = true
				}
			}
			desc := fmt.Sprintf("history %d commit %d (op %d): crash after %d of %d I/O calls, unsynced groups kept %v", hi, ci, c.opIndex, prefix, n, boolsStr(sub))
			checkImage(rep, dir, o, ops, c, img, desc, metaFirstPersisted, prefix, made%25 == 0)
		}
	}
}

func min64(a, b int64) int64 {
	if a < b {
		return a
	}
	return b
}

func boolsStr(b []bool) string {
	var sb strings.Builder
	for _, x := range b {
		if x {
			sb.WriteByte('1')
		} else {
			sb.WriteByte('0')
		}
	}
	return sb.String()
}

var crashHangs int
var imgSeq int

// checkImage runs checkImage1 under a deadline: a corrupt image may make bbolt loop forever.
func checkImage(rep *Report, dir string, o optSet, ops []Op, c *commitRec, img []byte, desc string, metaPersisted bool, prefix int, leanDecode bool) {
	if crashHangs >= 3 || rep.NViolations >= 40 {
		return // enough: stop exploring (the violations are recorded)
	}
	done := make(chan struct{})
	go func() {
		defer close(done)
		checkImage1(rep, dir, o, ops, c, img, desc, metaPersisted, prefix, leanDecode)
	}()
	select {
	case <-done:
	case <-time.After(20 * time.Second):
		crashHangs++
		rep.violation("C01", "monitor", "recovery-hangs", "opening/using the post-crash image does not return within 20 s — "+desc+" ["+o.String()+"]",
			map[string]any{"options": o.String(), "opts": o, "ops": opLines(ops[:c.opIndex+1]), "crash": desc})
	}
}

func checkImage1(rep *Report, dir string, o optSet, ops []Op, c *commitRec, img []byte, desc string, metaPersisted bool, prefix int, leanDecode bool) {
	rep.Evaluations++
	if prefix > 0 {
		rep.Distinct++
	}
	imgSeq++
	path := filepath.Join(dir, fmt.Sprintf("crash%d.db", imgSeq%4))
	_ = os.WriteFile(path, img, 0o600)
	rp := func() map[string]any {
		return map[string]any{"options": o.String(), "opts": o, "ops": opLines(ops[:c.opIndex+1]), "crash": desc}
	}
	viol := func(sig, what string) {
		rep.violation("C01", "monitor", sig, what+" — "+desc+" ["+o.String()+"]", rp())
	}
	opts := o.boltOptions()
	// a corrupt image may make bbolt panic or touch unmapped memory: turn both into findings
	defer func() {
		if r := recover(); r != nil {
			rep.count("recover→PANIC")
			viol("recovery-panics", "opening/using the post-crash image panics: "+truncate(fmt.Sprint(r), 200))
		}
	}()
	debug.SetPanicOnFault(true)
	db, err := bolt.Open(path, 0o600, &opts)
	if err != nil {
		rep.count("recover→open-error")
		viol("recovery-open-fails", fmt.Sprintf("Open of the post-crash image fails: %v", err))
		return
	}
	got := dumpDB(db)
	switch {
	case got == c.pre && got == c.post:
		rep.count("recover→same")
	case got == c.pre:
		rep.count("recover→last-acknowledged")
		if prefix == len(c.io) {
			// every I/O call of the commit was issued and Commit has returned nil: the commit is
			// acknowledged, a crash now may lose nothing of it (durability)
			viol("acknowledged-commit-lost", "the commit had been acknowledged (all its I/O calls completed), yet recovery presents the state before it: its last writes were never synced")
		}
	case got == c.post:
		rep.count("recover→in-flight")
		if !metaPersisted {
			viol("inflight-without-meta", "recovery presents the in-flight transaction although its meta page was not persisted")
		}
	default:
		rep.count("recover→OTHER")
		viol("recovers-to-neither", "recovery presents a state that is neither the last acknowledged nor the in-flight one")
		_ = db.Close()
		return
	}
	if bad := checkDB(db); bad != "" {
		viol("recovered-db-fails-check", "Tx.Check on the recovered database: "+truncate(bad, 200))
	}
	// accepts further transactions
	if err := db.Update(func(tx *bolt.Tx) error {
		b, err := tx.CreateBucketIfNotExists([]byte("after-crash"))
		if err != nil {
			return err
		}
		return b.Put([]byte("k"), []byte(strings.Repeat("v", 300)))
	}); err != nil {
		viol("recovered-db-rejects-tx", fmt.Sprintf("a write transaction on the recovered database fails: %v", err))
	}
	if bad := checkDB(db); bad != "" {
		viol("recovered-db-fails-check-after-tx", "Tx.Check after a follow-up transaction: "+truncate(bad, 200))
	}
	_ = db.Close()
	if leanDecode && *flagModel != "" {
		out, err := exec.Command(*flagModel, "decode", path, fmt.Sprint(os.Getpagesize())).Output()
		dec := strings.Split(strings.TrimSpace(string(out)), "\n")
		if err != nil || len(dec) < 7 || !strings.HasPrefix(dec[5], "accounting ok=true") || dec[6] != "errors -" {
			viol("lean-decode-after-recovery", fmt.Sprintf("independent decode after recovery + follow-up transaction: %v", dec))
		}
		rep.count("lean-decoded")
	}
}
