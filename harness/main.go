package main

import (
	"bufio"
	"encoding/json"
	"flag"
	"fmt"
	"os"
	"os/exec"
	"path/filepath"
	"strings"
	"time"
)

// Common flags of every engine.
var (
	flagSeed  = flag.Int64("seed", 1, "PRNG seed (VERIF_SEED)")
	flagTier  = flag.String("tier", "quick", "quick|thorough")
	flagTmp   = flag.String("tmp", "", "scratch directory (outside /repo and /verif)")
	flagModel = flag.String("model", filepath.Join(baseDir(), "lean/.lake/build/bin/boltmodel"), "Lean model driver")
	flagOut   = flag.String("out", "", "write the engine report (JSON) here")
	flagRepl  = flag.String("replaydir", filepath.Join(baseDir(), "replays"), "directory for replay files")
	flagProp  = flag.String("prop", "", "property id the run is for")
	flagFile  = flag.String("replay", "", "replay file to re-execute")
)

// Report is what an engine tells the check driver.
type Report struct {
	Engine       string         `json:"engine"`
	Seed         int64          `json:"seed"`
	Tier         string         `json:"tier"`
	Programs     int            `json:"programs"`
	Evaluations  int            `json:"evaluations"`
	Distinct     int            `json:"distinct_nontrivial"`
	Rule         string         `json:"rule"`
	Disagree     int            `json:"disagreements"`
	Samples      []any          `json:"samples"`
	Distribution map[string]int `json:"distribution"`
	Violations   []Violation    `json:"violations"`
	NViolations  int            `json:"violations_total"`
	Notes        []string       `json:"notes,omitempty"`
	WallS        float64        `json:"wall_s"`
}

// Violation: a concrete case on which a monitor is false (Kind="monitor") or on
// which the model and the implementation disagree (Kind="correspondence").
type Violation struct {
	Property  string `json:"property"`
	Kind      string `json:"kind"`
	Signature string `json:"signature"` // matched against known_findings.json
	What      string `json:"what"`
	Replay    string `json:"replay"`
}

func newReport(engine string) *Report {
	return &Report{Engine: engine, Seed: *flagSeed, Tier: *flagTier, Distribution: map[string]int{}}
}

func (r *Report) count(k string) { r.Distribution[k]++ }

func (r *Report) sample(v any) {
	if len(r.Samples) < 5 {
		r.Samples = append(r.Samples, v)
	}
}

// baseDir: the verification tree this binary belongs to (<base>/bin/vh), so that a snapshot of
// /verif run elsewhere uses its own driver, CLI binary, golden corpus and replay directory.
func baseDir() string {
	if exe, err := os.Executable(); err == nil {
		// the binary lives in <base>/bin or in a private per-run copy <base>/bin/run.<pid>
		d := filepath.Dir(exe)
		for i := 0; i < 3; i++ {
			d = filepath.Dir(d)
			if _, err := os.Stat(filepath.Join(d, "harness")); err == nil {
				return d
			}
		}
	}
	return "/verif"
}

func cliPath() string {
	if p := os.Getenv("VERIF_CLI"); p != "" {
		return p
	}
	return filepath.Join(baseDir(), "bin/bbolt")
}

var replaySeq int

// inFlight records the case about to be executed, so that a crash of the process inside the
// library (stack overflow, fatal error, SIGBUS) still leaves a concrete replay behind; the
// check driver picks the file up when the engine dies without a report.
func inFlight(engine string, replay any) {
	_ = os.MkdirAll(*flagRepl, 0o755)
	path := filepath.Join(*flagRepl, fmt.Sprintf("inflight-%s-%s.json", *flagProp, engine))
	if replay == nil {
		_ = os.Remove(path)
		return
	}
	b, _ := json.Marshal(map[string]any{
		"property": *flagProp, "engine": engine, "kind": "monitor", "signature": "library-crashes-process",
		"what": "the process died (fatal error / stack overflow / fault) inside the library while executing this case",
		"seed": *flagSeed, "tier": *flagTier, "replay": replay,
	})
	_ = os.WriteFile(path, b, 0o644)
}

// violation records a violation and writes its replay file.
func (r *Report) violation(prop, kind, sig, what string, replay any) {
	r.NViolations++
	if len(r.Violations) >= 50 {
		return // enough concrete replays on file; keep counting
	}
	replaySeq++
	_ = os.MkdirAll(*flagRepl, 0o755)
	path := filepath.Join(*flagRepl, fmt.Sprintf("%s-%s-seed%d-%d.json", prop, r.Engine, *flagSeed, replaySeq))
	b, _ := json.MarshalIndent(map[string]any{
		"property": prop, "engine": r.Engine, "kind": kind, "signature": sig, "what": what,
		"seed": *flagSeed, "tier": *flagTier, "replay": replay,
	}, "", " ")
	_ = os.WriteFile(path, b, 0o644)
	if len(r.Violations) < 50 {
		r.Violations = append(r.Violations, Violation{prop, kind, sig, what, path})
	}
}

func (r *Report) finish(start time.Time) {
	r.WallS = time.Since(start).Seconds()
	b, _ := json.MarshalIndent(r, "", " ")
	if *flagOut != "" {
		_ = os.WriteFile(*flagOut, b, 0o644)
	} else {
		fmt.Println(string(b))
	}
}

func tmpDir() string {
	d := *flagTmp
	if d == "" {
		d = os.Getenv("VERIF_TMP")
	}
	if d == "" {
		base := "/dev/shm"
		if _, err := os.Stat(base); err != nil {
			base = "/var/tmp"
		}
		d = filepath.Join(base, fmt.Sprintf("verif.%d", os.Getpid()))
	}
	_ = os.MkdirAll(d, 0o755)
	return d
}

// runModel pipes `input` (lines) into the Lean driver and returns its output lines.
func runModel(args []string, input []string) ([]string, error) {
	cmd := exec.Command(*flagModel, args...)
	cmd.Stdin = strings.NewReader(strings.Join(input, "\n") + "\n")
	cmd.Stderr = os.Stderr
	out, err := cmd.Output()
	if err != nil {
		return nil, fmt.Errorf("model driver %v: %w", args, err)
	}
	var lines []string
	sc := bufio.NewScanner(strings.NewReader(string(out)))
	sc.Buffer(make([]byte, 1<<20), 1<<28)
	for sc.Scan() {
		lines = append(lines, sc.Text())
	}
	return lines, nil
}

var engines = map[string]func(){}

func main() {
	if len(os.Args) < 2 {
		fmt.Fprintln(os.Stderr, "usage: vh <engine> [flags]")
		os.Exit(2)
	}
	name := os.Args[1]
	os.Args = append(os.Args[:1], os.Args[2:]...)
	flag.Parse()
	fn, ok := engines[name]
	if !ok {
		fmt.Fprintln(os.Stderr, "unknown engine", name)
		os.Exit(2)
	}
	fn()
}
