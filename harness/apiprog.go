package main

import (
	"fmt"
	"math/rand"
	"os"
	"os/exec"
	"path/filepath"
	"sort"
	"strings"
	"time"

	bolt "go.etcd.io/bbolt"
)

// Engine apiprog (C04, C05, C07, C12, C13): random API programs executed on the
// real database; every returned value/error is compared with the Lean reference
// model `Spec.NestedMap` (driver command `api`); after every commit, rollback and
// reopen the file bytes are decoded by the independent Lean v2 reader (driver
// command `decode`) and compared with the API dump, with exact page accounting.

func init() { engines["apiprog"] = apiprog }

type optSet struct {
	PageSize       int
	Freelist       bolt.FreelistType
	NoFreelistSync bool
	NoGrowSync     bool
	InitialMmap    int
	Strict         bool
	MaxSize        int
	NoStatistics   bool
}

func (o optSet) String() string {
	s := fmt.Sprintf("ps=%d fl=%s nofls=%v nogrow=%v mmap=%d strict=%v", o.PageSize, o.Freelist, o.NoFreelistSync, o.NoGrowSync, o.InitialMmap, o.Strict)
	if o.MaxSize > 0 {
		s += fmt.Sprintf(" maxsize=%d", o.MaxSize)
	}
	if o.NoStatistics {
		s += " nostats"
	}
	return s
}

func (o optSet) boltOptions() bolt.Options {
	return bolt.Options{PageSize: o.PageSize, FreelistType: o.Freelist, NoFreelistSync: o.NoFreelistSync,
		NoGrowSync: o.NoGrowSync, InitialMmapSize: o.InitialMmap, Timeout: time.Second, MaxSize: o.MaxSize, NoStatistics: o.NoStatistics}
}

func randOpts(rng *rand.Rand) optSet {
	o := optSet{PageSize: []int{1024, 1024, 4096, 16384, 2048}[rng.Intn(5)], Freelist: bolt.FreelistArrayType}
	if rng.Intn(2) == 0 {
		o.Freelist = bolt.FreelistMapType
	}
	o.NoFreelistSync = rng.Intn(3) == 0
	o.NoGrowSync = rng.Intn(4) == 0
	// readers and the writer share one goroutine: a remap with a reader open would deadlock
	// (documented); keep the initial map large enough for these programs.
	o.InitialMmap = 64 << 20
	o.NoStatistics = rng.Intn(5) == 0
	return o
}

func resClass(r string) string {
	switch {
	case strings.HasPrefix(r, "err:"):
		return r
	case strings.HasPrefix(r, "panic"):
		return "panic"
	case strings.HasPrefix(r, "val:"):
		return "val"
	case strings.HasPrefix(r, "kv:nil"):
		return "kvnil"
	case strings.HasPrefix(r, "kv:"):
		return "kv"
	case strings.HasPrefix(r, "n:"):
		return "n"
	case strings.HasPrefix(r, "dump:"):
		return "dump"
	case strings.HasPrefix(r, "keys:"):
		return "keys"
	}
	return r
}

// hazards: structural preconditions of known defects, computed from the program text
// (prefix up to and including op i), used only to make violation signatures specific.
func hazards(ops []Op, upto int) []string {
	var hz []string
	touched := map[string]bool{} // bucket paths touched in the current write tx
	inTx := false
	delInTx := false
	has := map[string]bool{}
	add := func(h string) {
		if !has[h] {
			has[h] = true
			hz = append(hz, h)
		}
	}
	for i := 0; i <= upto && i < len(ops); i++ {
		o := ops[i]
		switch o.K {
		case "beginw":
			inTx, delInTx = true, false
			touched = map[string]bool{}
		case "commit", "rollback", "reopen":
			inTx = false
		}
		if !inTx || o.Tx != "w" {
			continue
		}
		p := pathStr(o.Path)
		switch o.K {
		case "put", "del", "setseq", "nextseq", "mkb", "mkbi", "rmb":
			touched[p] = true
			if o.K == "del" || o.K == "rmb" {
				delInTx = true
			}
			if o.K == "rmb" {
				// F5: the parent's leaf was materialised earlier in this tx
				child := pathStr(append(append([]string{}, o.Path...), o.Key))
				for t := range touched {
					if t == child || strings.HasPrefix(t, child+"/") {
						add("rmb-after-editing-inside")
					}
				}
			}
		case "mvb":
			child := append(append([]string{}, o.Path...), o.Key)
			cp := pathStr(child)
			dp := pathStr(o.Dst)
			if dp == cp || strings.HasPrefix(dp, cp+"/") {
				add("move-into-own-descendant")
			}
			for t := range touched {
				if t == cp || strings.HasPrefix(t, cp+"/") {
					add("move-after-editing-moved-bucket")
				}
			}
			touched[p], touched[dp] = true, true
		}
	}
	if delInTx {
		add("deletes-earlier-in-tx")
	}
	return hz
}

// primaryHazard: the first structural precondition of a known defect present in the program
// prefix, in a fixed priority order (signatures must be stable).
func primaryHazard(hz []string) string {
	for _, h := range []string{"move-into-own-descendant", "move-after-editing-moved-bucket", "rmb-after-editing-inside", "deletes-earlier-in-tx"} {
		for _, x := range hz {
			if x == h {
				return h
			}
		}
	}
	return ""
}

func propOfOp(k string) string {
	if strings.HasPrefix(k, "c") && k != "commit" && k != "close" && k != "cur" {
		return "C05"
	}
	return "C04"
}

type apiResult struct {
	ops      []Op
	impl     []string
	decodes  map[int][]string // op index -> decode output lines
	dumps    map[int]string   // op index -> dump hash of the committed state (API)
	stats    map[int][2]int   // op index -> FreePageN, PendingPageN
	bstats   map[int][4]int   // op index -> Bucket.Stats of the root bucket: BranchPageN, BranchOverflowN, LeafPageN, LeafOverflowN
	flstate  map[int]string
	fileSize map[int]int64
	shapes   map[int]string
}

// runAPI executes ops on a fresh database with the given options.
func runAPI(dir string, tag string, o optSet, ops []Op, withDecode bool) *apiResult {
	path := filepath.Join(dir, tag+".db")
	_ = os.Remove(path)
	e := NewExec(path, o.boltOptions())
	res := &apiResult{ops: ops, decodes: map[int][]string{}, dumps: map[int]string{}, stats: map[int][2]int{}, bstats: map[int][4]int{}, flstate: map[int]string{}, fileSize: map[int]int64{}}
	if err := e.Open(); err != nil {
		res.impl = append(res.impl, "open-failed:"+err.Error())
		return res
	}
	e.DB.StrictMode = o.Strict
	e.OnOpen = func(db *bolt.DB) { db.StrictMode = o.Strict }
	defer e.CloseAll()
	res.shapes = e.Shapes
	for i, op := range ops {
		r := e.Do(op)
		res.impl = append(res.impl, r)
		if r == "timeout" || strings.HasPrefix(r, "panic") {
			// the process state is unreliable after a panic inside bbolt or a hang: stop here
			break
		}
		if (op.K == "commit" || op.K == "rollback" || op.K == "reopen") && r == "ok" && e.DB != nil && e.W == nil {
			res.dumps[i] = hashStr(dumpDB(e.DB))
			st := e.DB.Stats()
			res.stats[i] = [2]int{st.FreePageN, st.PendingPageN}
			_ = e.DB.View(func(tx *bolt.Tx) error {
				bs := tx.Cursor().Bucket().Stats() // the root bucket: totals over every bucket
				res.bstats[i] = [4]int{bs.BranchPageN, bs.BranchOverflowN, bs.LeafPageN, bs.LeafOverflowN}
				return nil
			})
			if fi, err := os.Stat(path); err == nil {
				res.fileSize[i] = fi.Size()
			}
			if withDecode && *flagModel != "" {
				out, err := exec.Command(*flagModel, "decode", path, fmt.Sprint(os.Getpagesize())).Output()
				if err != nil {
					res.decodes[i] = []string{"driver-error " + err.Error()}
				} else {
					res.decodes[i] = strings.Split(strings.TrimSpace(string(out)), "\n")
				}
				free, pend := e.DB.VerifFreelistState()
				var ids []uint64
				ids = append(ids, free...)
				for _, p := range pend {
					ids = append(ids, p[1])
				}
				sortU64(ids)
				res.flstate[i] = u64s(ids)
			}
		}
	}
	return res
}

func sortU64(a []uint64) {
	for i := 1; i < len(a); i++ {
		for j := i; j > 0 && a[j] < a[j-1]; j-- {
			a[j], a[j-1] = a[j-1], a[j]
		}
	}
}

func apiprog() {
	start := time.Now()
	rep := newReport("apiprog")
	rep.Rule = "case = one API program (options, op list) run on a fresh database; non-trivial = at least one committed write transaction that changes content; distinct by program text"
	dir := tmpDir()
	defer os.RemoveAll(dir)
	rng := rand.New(rand.NewSource(*flagSeed))
	nProg := 150
	if *flagTier == "thorough" {
		nProg = 2500
	}
	for pi := 0; pi < nProg; pi++ {
		o := randOpts(rng)
		g := NewGen(rng.Int63(), o.PageSize)
		ops := g.History(4+rng.Intn(12), true, true)
		if pi%5 == 4 {
			ops = g.CursorProgram()
		}
		if pi%6 == 3 {
			ops = g.MoveProgram()
		}
		ops = append(ops, Op{K: "beginr", Tx: "rfinal"}, Op{K: "dump", Tx: "rfinal"}, Op{K: "endr", Tx: "rfinal"})
		inFlight("apiprog", map[string]any{"options": o.String(), "opts": o, "ops": opLines(ops)})
		res := runAPI(dir, fmt.Sprintf("p%d", pi), o, ops, true)
		inFlight("apiprog", nil)
		checkAPIResult(rep, o, res)
	}
	rep.finish(start)
}

func checkAPIResult(rep *Report, o optSet, res *apiResult) {
	ops, impl := res.ops, res.impl
	rep.Programs++
	rep.Evaluations += len(impl)
	replay := func(upto int) map[string]any {
		return map[string]any{"options": o.String(), "opts": o, "ops": opLines(ops[:min(upto+1, len(ops))])}
	}
	committed := 0
	for i, r := range impl {
		rep.count(ops[i].K + "→" + resClass(r))
		if ops[i].K == "commit" && r == "ok" {
			committed++
		}
	}
	if committed > 0 {
		rep.Distinct++
	}
	if rep.Programs <= 2 {
		n := min(len(impl), 10)
		rep.sample(map[string]any{"options": o.String(), "ops": opLines(ops[:n]), "impl": impl[:n]})
	}
	// --- spec side
	if *flagModel != "" {
		lines := opLines(ops[:len(impl)])
		spec, err := runModel([]string{"api"}, lines)
		if err != nil || len(spec) != len(lines) {
			rep.violation(*flagProp, "correspondence", "model-driver-failed", fmt.Sprintf("api driver: %v (%d/%d)", err, len(spec), len(lines)), replay(len(impl)))
			return
		}
		for i := range impl {
			if impl[i] == spec[i] {
				continue
			}
			rep.Disagree++
			prop := propOfOp(ops[i].K)
			hz := hazards(ops, i)
			sig := fmt.Sprintf("api:%s:impl=%s:spec=%s", ops[i].K, resClass(impl[i]), resClass(spec[i]))
			if h := primaryHazard(hz); h != "" {
				sig += ":" + h
			}
			if prop == "C05" {
				// did this cursor run off the end (Next returned nil) earlier?
				for j := 0; j < i; j++ {
					if ops[j].K == "cnext" && ops[j].Cur == ops[i].Cur && impl[j] == "kv:nil" {
						sig += ":after-next-off-end"
						break
					}
				}
			}
			rep.violation(prop, "monitor", sig,
				fmt.Sprintf("op %d `%s`: bbolt returns %q, the nested-map reference model returns %q [%s]", i, truncate(ops[i].Line(), 80), truncate(impl[i], 60), truncate(spec[i], 60), o),
				replay(i))
			break // later differences are consequences
		}
	}
	// --- cursor model (Model/Cursor.lean) on the real tree shape of every cursor's bucket
	if *flagModel != "" && len(res.shapes) > 0 {
		var lines, want []string
		var origin []int
		ids := make([]int, 0, len(res.shapes))
		for id := range res.shapes {
			ids = append(ids, id)
		}
		sort.Ints(ids)
		for _, id := range ids {
			lines = append(lines, "tree "+res.shapes[id])
			want = append(want, "ok")
			origin = append(origin, -1)
			for i := range impl {
				o := ops[i]
				if o.Cur != id || impl[i] == "skip" {
					continue
				}
				switch o.K {
				case "cfirst", "clast", "cnext", "cprev":
					lines = append(lines, o.K)
				case "cseek":
					lines = append(lines, "cseek "+hx(o.Key))
				default:
					continue
				}
				want = append(want, impl[i])
				origin = append(origin, i)
			}
		}
		got, err := runModel([]string{"cursor"}, lines)
		if err != nil || len(got) != len(lines) {
			rep.violation("C05", "correspondence", "model-driver-failed", fmt.Sprintf("cursor driver: %v (%d/%d)", err, len(got), len(lines)), replay(len(impl)))
		} else {
			rep.Distribution["cursor-model-steps"] += len(lines)
			for j := range lines {
				if got[j] != want[j] && !strings.HasPrefix(want[j], "timeout") {
					rep.Disagree++
					rep.violation("C05", "correspondence", "cursor-model-vs-impl:"+strings.Fields(lines[j])[0],
						fmt.Sprintf("op %d `%s` on the real tree shape: bbolt returns %q, the cursor model returns %q", origin[j], lines[j], truncate(want[j], 60), truncate(got[j], 60)), replay(max(origin[j], 0)))
					break
				}
			}
		}
	}
	// --- physical side: the independent reader after every commit/rollback/reopen
	for i, dec := range res.decodes {
		if len(dec) < 7 || !strings.HasPrefix(dec[0], "ok") {
			rep.violation("C12", "monitor", "decode-failed", fmt.Sprintf("after op %d the independent v2 reader cannot open the file: %v", i, dec), replay(i))
			continue
		}
		rep.count("decoded")
		if dec[1] != "dump:"+res.dumps[i] {
			rep.violation("C12", "monitor", "decode-content-differs", fmt.Sprintf("after op %d (%s): independent v2 decode of the file gives %s, the API reports dump:%s", i, ops[i].K, dec[1], res.dumps[i]), replay(i))
		}
		if dec[6] != "errors -" {
			rep.violation("C07", "monitor", "structure:"+firstWords(dec[6], 6), fmt.Sprintf("after op %d: structural errors found by the independent reader: %s", i, truncate(dec[6], 300)), replay(i))
		}
		if !strings.HasPrefix(dec[5], "accounting ok=true") {
			hz := hazards(ops, i)
			sig := "accounting:" + accountingClass(dec[5])
			if h := primaryHazard(hz); h != "" {
				sig += ":" + h
			}
			rep.violation("C07", "monitor", sig, fmt.Sprintf("after op %d (%s): %s [%s]", i, ops[i].K, truncate(dec[5], 300), o), replay(i))
		}
		// Bucket.Stats (summed over all buckets) reports the same tree pages as the independent reader
		if bs, ok := res.bstats[i]; ok && strings.HasPrefix(dec[2], "pages ") && dec[2] != "pages -" {
			var got [4]int
			for _, pg := range strings.Split(strings.TrimPrefix(dec[2], "pages "), ",") {
				var id, ovf, fl int
				fmt.Sscanf(pg, "%d+%d:%d", &id, &ovf, &fl)
				if fl == 1 {
					got[0]++
					got[1] += ovf
				} else if fl == 2 {
					got[2]++
					got[3] += ovf
				}
			}
			if got != bs {
				rep.violation("C07", "monitor", "bucket-stats-differ", fmt.Sprintf("after op %d: Bucket.Stats of the root bucket reports branch pages/overflow, leaf pages/overflow = %v, the independent reader finds %v in the file", i, bs, got), replay(i))
			}
		}
		// file at least as long as the high-water mark
		var ps, txid, root, pgid int64
		var fl uint64
		var fsz int64
		fmt.Sscanf(dec[0], "ok ps=%d txid=%d root=%d pgid=%d freelist=%d filesize=%d", &ps, &txid, &root, &pgid, &fl, &fsz)
		if fsz < pgid*ps {
			rep.violation("C07", "monitor", "file-shorter-than-hwm", fmt.Sprintf("after op %d: file size %d < high-water mark %d pages of %d", i, fsz, pgid, ps), replay(i))
		}
		// persisted free list == in-memory free ∪ pending (stats and freelist agree with the file)
		if dec[3] != "flpage -" {
			want := strings.TrimPrefix(dec[4], "free ")
			if want != res.flstate[i] {
				rep.violation("C07", "monitor", "freelist-page-vs-memory", fmt.Sprintf("after op %d: ids on the freelist page differ from the in-memory free+pending ids", i), replay(i))
			}
			n := 0
			if want != "-" {
				n = len(strings.Split(want, ","))
			}
			if st := res.stats[i]; !o.NoStatistics && st[0]+st[1] != n {
				rep.violation("C07", "monitor", "stats-vs-file", fmt.Sprintf("after op %d: Stats FreePageN+PendingPageN = %d but the file lists %d free ids", i, st[0]+st[1], n), replay(i))
			}
		}
	}
}

func accountingClass(s string) string {
	var cls []string
	for _, k := range []string{"leaked", "doubleRef", "freeAndUsed", "doubleFree", "freeOutOfRange"} {
		if !strings.Contains(s, k+"=[]") {
			cls = append(cls, k)
		}
	}
	return strings.Join(cls, "+")
}

func firstWords(s string, n int) string {
	f := strings.Fields(s)
	var out []string
	for _, w := range f {
		isNum := true
		for _, c := range w {
			if c < '0' || c > '9' {
				isNum = false
			}
		}
		if isNum || strings.HasSuffix(w, ":") {
			continue
		}
		out = append(out, w)
		if len(out) >= n {
			break
		}
	}
	return strings.Join(out, "-")
}

func truncate(s string, n int) string {
	if len(s) > n {
		return s[:n] + "…"
	}
	return s
}
