package main

import (
	"crypto/sha256"
	"fmt"
	"math/rand"
	"os"
	"os/exec"
	"path/filepath"
	"strings"
	"time"

	bolt "go.etcd.io/bbolt"
)

// Engine compact (C15): sources from generated programs (deep nesting, inline and paged
// buckets, empty buckets, empty and multi-page values, non-zero sequences) x transaction-size
// limits {1, 2, small, sizes that split inside a nested bucket, 0 = unlimited, 65536}:
// the library function Compact and the `bbolt compact` command. Monitors: destination content
// = source content, Tx.Check clean, exact accounting by the Lean reader, source bytes
// unchanged, CLI exit status; the model `Bolt.Compact.compact` on the decoded source must
// predict the destination content and the number of destination transactions.

func init() { engines["compact"] = compactEngine }

func fileHash(path string) string {
	b, err := os.ReadFile(path)
	if err != nil {
		return "unreadable"
	}
	return fmt.Sprintf("%x", sha256.Sum256(b))
}

// replayCompactCalls executes the model's destination calls (Compact.compactTxs: `tx`, `mkb`,
// `seq`, `put`, `end` lines) through the public API the way Compact does (FillPercent 1.0 on
// the bucket a key or nested bucket is added to; every transaction re-navigates from the root).
func replayCompactCalls(dst string, pageSize int, lines []string) (err error) {
	defer func() {
		if r := recover(); r != nil {
			err = fmt.Errorf("panic: %v", r)
		}
	}()
	d, err := bolt.Open(dst, 0o600, &bolt.Options{Timeout: time.Second, PageSize: pageSize})
	if err != nil {
		return err
	}
	defer d.Close()
	var tx *bolt.Tx
	defer func() {
		if tx != nil {
			_ = tx.Rollback()
		}
	}()
	nav := func(path string) *bolt.Bucket {
		if path == "-" {
			return nil
		}
		var b *bolt.Bucket
		for i, h := range strings.Split(path, "/") {
			if i == 0 {
				b = tx.Bucket([]byte(unhx(h)))
			} else {
				b = b.Bucket([]byte(unhx(h)))
			}
		}
		return b
	}
	for _, ln := range lines {
		f := strings.Fields(ln)
		if len(f) == 0 {
			continue
		}
		switch f[0] {
		case "tx", "end":
			if tx != nil {
				if err := tx.Commit(); err != nil {
					tx = nil
					return err
				}
				tx = nil
			}
			if f[0] == "tx" {
				if tx, err = d.Begin(true); err != nil {
					return err
				}
			}
		case "mkb":
			if b := nav(f[1]); b == nil {
				_, err = tx.CreateBucket([]byte(unhx(f[2])))
			} else {
				b.FillPercent = 1.0
				_, err = b.CreateBucket([]byte(unhx(f[2])))
			}
		case "seq":
			var n uint64
			fmt.Sscan(f[2], &n)
			err = nav(f[1]).SetSequence(n)
		case "put":
			b := nav(f[1])
			b.FillPercent = 1.0
			err = b.Put([]byte(unhx(f[2])), []byte(unhx(f[3])))
		default:
			err = fmt.Errorf("unknown line %q", ln)
		}
		if err != nil {
			return fmt.Errorf("%s: %w", truncate(ln, 60), err)
		}
	}
	return nil
}

// shapeOf: what does not depend on the order in which one commit hands out page ids (Go map
// iteration over dirty buckets and nodes): content, txid and the page/byte statistics of every
// top-level bucket (nested ones included).  The high-water mark, the file size and the number of
// free pages DO depend on that order (a span of n free pages is or is not available depending on
// which node asked first) and are not compared.
func shapeOf(path string) string {
	db, err := bolt.Open(path, 0o600, &bolt.Options{ReadOnly: true, PreLoadFreelist: true, Timeout: time.Second})
	if err != nil {
		return "unopenable: " + err.Error()
	}
	defer db.Close()
	var sb strings.Builder
	txid, _, _, _, _ := db.VerifMeta()
	fmt.Fprintf(&sb, "dump=%s txid=%d", hashStr(dumpDB(db)), txid)
	_ = db.View(func(tx *bolt.Tx) error {
		return tx.ForEach(func(name []byte, b *bolt.Bucket) error {
			fmt.Fprintf(&sb, " %s=%+v", hx(string(name)), b.Stats())
			return nil
		})
	})
	return sb.String()
}

func compactEngine() {
	start := time.Now()
	rep := newReport("compact")
	rep.Rule = "case = (source database, transaction-size limit, library or CLI); non-trivial = the source has nested buckets and the limit forces more than one destination transaction; distinct by (source, limit, mode)"
	dir := tmpDir()
	defer os.RemoveAll(dir)
	rng := rand.New(rand.NewSource(*flagSeed))
	nSrc := 8
	if *flagTier == "thorough" {
		nSrc = 120
	}
	for si := 0; si < nSrc; si++ {
		o := randOpts(rng)
		g := NewGen(rng.Int63(), o.PageSize)
		ops := g.History(5+rng.Intn(10), false, false)
		if si%3 == 0 {
			ops = append(g.MoveProgram(), ops...)
		}
		// non-zero sequences and empty values everywhere
		ops = append(ops, Op{K: "beginw"}, Op{K: "mkbi", Tx: "w", Key: "a"}, Op{K: "mkbi", Tx: "w", Path: []string{"a"}, Key: "empty"},
			Op{K: "put", Tx: "w", Path: []string{"a"}, Key: "emptyval", Val: ""}, Op{K: "setseq", Tx: "w", Path: []string{"a"}, N: 42},
			Op{K: "mkbi", Tx: "w", Path: []string{"a"}, Key: "n1"}, Op{K: "mkbi", Tx: "w", Path: []string{"a", "n1"}, Key: "n2"},
			Op{K: "setseq", Tx: "w", Path: []string{"a", "n1", "n2"}, N: 7}, Op{K: "put", Tx: "w", Path: []string{"a", "n1", "n2"}, Key: "deep", Val: strings.Repeat("d", 3*o.PageSize)},
			Op{K: "commit"})
		_ = runAPI(dir, fmt.Sprintf("src%d", si), o, ops, false)
		src := filepath.Join(dir, fmt.Sprintf("src%d.db", si))
		sdb, err := bolt.Open(src, 0o600, &bolt.Options{ReadOnly: true, Timeout: time.Second})
		if err != nil {
			continue
		}
		srcDump := hashStr(dumpDB(sdb))
		_ = sdb.Close()
		srcHash := fileHash(src)
		rep.Programs++
		limits := []int64{0, 1, 2, 17, 100, int64(200 + rng.Intn(2000)), int64(o.PageSize), 65536, int64(rng.Intn(100000))}
		for li, limit := range limits {
			for _, mode := range []string{"lib", "cli"} {
				if mode == "cli" && li%3 != 0 {
					continue
				}
				dst := filepath.Join(dir, fmt.Sprintf("dst%d-%d-%s.db", si, li, mode))
				_ = os.Remove(dst)
				rp := map[string]any{"options": o.String(), "opts": o, "ops": opLines(ops), "limit": limit, "mode": mode}
				rep.Evaluations++
				inFlight("compact", rp)
				var cerr error
				cliOut := ""
				if mode == "lib" {
					s, err := bolt.Open(src, 0o600, &bolt.Options{ReadOnly: true, Timeout: time.Second})
					if err != nil {
						continue
					}
					d, err := bolt.Open(dst, 0o600, &bolt.Options{Timeout: time.Second, PageSize: o.PageSize})
					if err != nil {
						_ = s.Close()
						continue
					}
					cerr = bolt.Compact(d, s, limit)
					_ = d.Close()
					_ = s.Close()
				} else {
					out, err := exec.Command(cliPath(), "compact", "-o", dst, "--tx-max-size", fmt.Sprint(limit), src).CombinedOutput()
					cerr, cliOut = err, string(out)
				}
				inFlight("compact", nil)
				if cerr != nil {
					rep.violation("C15", "monitor", "compact-fails:"+mode, fmt.Sprintf("Compact (limit %d, %s) fails: %v %s", limit, mode, cerr, truncate(cliOut, 120)), rp)
					continue
				}
				if h := fileHash(src); h != srcHash {
					rep.violation("C15", "monitor", "source-modified", fmt.Sprintf("the source file changed during compaction (limit %d, %s)", limit, mode), rp)
					srcHash = h
				}
				ddb, err := bolt.Open(dst, 0o600, &bolt.Options{ReadOnly: true, Timeout: time.Second})
				if err != nil {
					rep.violation("C15", "monitor", "destination-unopenable", fmt.Sprintf("destination does not open: %v", err), rp)
					continue
				}
				dstDump := hashStr(dumpDB(ddb))
				bad := checkDB(ddb)
				dtxid, _, _, _, _ := ddb.VerifMeta()
				_ = ddb.Close()
				if dstDump != srcDump {
					rep.violation("C15", "monitor", "content-differs", fmt.Sprintf("destination content %s differs from the source %s (limit %d, %s)", dstDump, srcDump, limit, mode), rp)
				}
				if bad != "" {
					rep.violation("C15", "monitor", "destination-fails-check", fmt.Sprintf("Tx.Check on the destination (limit %d, %s): %s", limit, mode, truncate(bad, 200)), rp)
				}
				if dec, ok := leanDecode(dst); !ok || leanVerdictBad(dec) {
					rep.violation("C15", "monitor", "destination-accounting", fmt.Sprintf("independent reader on the destination (limit %d): %v", limit, dec), rp)
				}
				// the model on the decoded source
				if *flagModel != "" && mode == "lib" {
					out, err := exec.Command(*flagModel, "compactmodel", src, fmt.Sprint(os.Getpagesize()), fmt.Sprint(limit)).Output()
					line := strings.TrimSpace(string(out))
					var mh string
					var commits int
					var merr bool
					if _, e := fmt.Sscanf(line, "dump:%s commits=%d err=%t", &mh, &commits, &merr); err != nil || e != nil {
						rep.violation("C15", "correspondence", "model-driver-failed", line, rp)
					} else {
						if commits > 0 {
							rep.Distinct++
						}
						// a fresh destination is at txid 1; every destination transaction adds one
						if mh != dstDump || merr || uint64(commits)+2 != dtxid {
							rep.Disagree++
							rep.violation("C15", "correspondence", "compact-model-vs-impl", fmt.Sprintf("limit %d: destination dump %s at txid %d; the model predicts %s after %d+1 transactions (err=%v)", limit, dstDump, dtxid, mh, commits, merr), rp)
						}
					}
				}
				// the model's destination CALLS, transaction by transaction, replayed through the real API
				if *flagModel != "" && mode == "lib" {
					out, err := exec.Command(*flagModel, "compactcalls", src, fmt.Sprint(os.Getpagesize()), fmt.Sprint(limit)).Output()
					lines := strings.Split(strings.TrimSpace(string(out)), "\n")
					if err != nil || len(lines) < 2 || lines[len(lines)-1] != "end" {
						rep.violation("C15", "correspondence", "model-driver-failed", truncate(string(out), 100), rp)
					} else {
						rdst := dst + ".replay"
						_ = os.Remove(rdst)
						rep.Evaluations++
						if err := replayCompactCalls(rdst, o.PageSize, lines); err != nil {
							rep.Disagree++
							rep.violation("C15", "correspondence", "compact-calls-vs-impl", fmt.Sprintf("limit %d: the model's destination calls do not run through the API: %v", limit, err), rp)
						} else if a, b := shapeOf(dst), shapeOf(rdst); a != b {
							rep.Disagree++
							rep.violation("C15", "correspondence", "compact-calls-vs-impl", fmt.Sprintf("limit %d: Compact produced [%s]; the model's calls (%d lines) replayed through the API produce [%s]", limit, truncate(a, 400), len(lines), truncate(b, 400)), rp)
						} else {
							rep.count("calls-replayed")
						}
						_ = os.Remove(rdst)
					}
				}
				rep.count(mode)
				_ = os.Remove(dst)
			}
		}
		if si < 2 {
			rep.sample(map[string]any{"options": o.String(), "source_dump": srcDump, "limits": limits})
		}
	}
	rep.finish(start)
}
