#!/bin/bash
# tools/mutcheck.sh <patch.diff> <Cnn> [<Cnn> ...]
# Runs the given checks (quick tier) against a scratch worktree of /repo with the seeded change
# applied (VERIF_REPO); /repo itself is never touched, so unchanged-tree runs can go on in
# parallel. The worktree is removed afterwards. Evidence goes to a scratch directory.
patch="$(readlink -f "$1")"; shift
wt=/var/tmp/mutrepo.$$
git -C /repo worktree add -q --detach "$wt" HEAD || exit 2
trap 'git -C /repo worktree remove --force "$wt" 2>/dev/null; rm -rf "$wt"; (cd /verif/harness && flock /verif/.build.lock go mod edit -replace=go.etcd.io/bbolt=/repo); echo "[mutcheck] scratch worktree removed"' EXIT
git -C "$wt" apply "$patch" || { echo "patch does not apply"; exit 2; }
cd /verif
export VERIF_EVIDENCE_DIR=/var/tmp/mutcheck-evidence   # never overwrite the committed evidence with runs on a changed tree
export VERIF_REPO="$wt"
tier=${VERIF_MUT_TIER:-quick}
for p in "$@"; do
  echo "=== $p with $(basename $(dirname $patch))/$(basename $patch)"
  timeout 3000 ./check "$p" --tier $tier 2>&1 | grep -E "^(VIOLATION|KNOWN-FINDING|check |  what|  broken|  also)" | cut -c1-400 | head -12
  echo "    exit=${PIPESTATUS[0]}"
done
