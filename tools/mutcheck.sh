#!/bin/bash
# tools/mutcheck.sh <patch.diff> <Cnn> [<Cnn> ...]
# Applies a seeded change to /repo, runs the given checks (quick tier) under a time limit,
# and ALWAYS restores /repo afterwards. Prints the last lines of every check.
patch="$1"; shift
cd /repo || exit 2
if ! git diff --quiet; then echo "/repo has uncommitted changes; refusing"; exit 2; fi
trap 'cd /repo && git checkout -- . && git clean -fdq -e "*.db" 2>/dev/null; echo "[mutcheck] /repo restored: $(git -C /repo status --short | wc -l) modified files"' EXIT
git apply "$patch" || { echo "patch does not apply"; exit 2; }
cd /verif
export VERIF_EVIDENCE_DIR=/var/tmp/mutcheck-evidence   # never overwrite the committed evidence with runs on a changed tree
for p in "$@"; do
  echo "=== $p with $(basename $(dirname $patch))/$(basename $patch)"
  timeout 1500 ./check "$p" --tier quick 2>&1 | grep -E "^(VIOLATION|KNOWN-FINDING|check |  what|  broken|  also)" | cut -c1-400 | head -12
  echo "    exit=${PIPESTATUS[0]}"
done
