#!/usr/bin/env python3
# prints the "theorems audited / engines" table of DESIGN.md E.11 from the committed evidence
import json, sys, os
sys.path.insert(0, '/verif')
from checks_table import PROPS
print("| prop | theorems audited (quick run) | engines |")
print("|---|---|---|")
for i in range(1, 21):
    p = "C%02d" % i
    e = json.load(open('/verif/evidence/%s.json' % p))
    n = len(e['coverage'].get('theorems', []))
    eng = ", ".join(x[0] for x in PROPS[p]['engines'])
    print("| %s | %d | %s |" % (p, n, eng))
