#!/bin/bash
# tools/runall.sh [tier]: every claimed check once on the current tree (evidence rewritten).
cd /verif
tier=${1:-quick}
for p in $(python3 -c "from checks_table import PROPS; print(' '.join(sorted(PROPS)))"); do
  ./check $p --tier $tier 2>&1 | grep -E "^(VIOLATION|KNOWN-FINDING|check )" | cut -c1-220
done
