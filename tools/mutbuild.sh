#!/bin/bash
# tools/mutbuild.sh <patch.diff> <out-binary>: builds the harness against a scratch worktree of
# /repo with the patch applied (and a scratch copy of the harness module); /repo and
# /verif/harness are not touched. Everything scratch is removed afterwards.
patch="$(readlink -f "$1")"; out="$2"
wt=/var/tmp/mutrepo.b$$; hb=/var/tmp/mutharness.$$
git -C /repo worktree add -q --detach "$wt" HEAD || exit 2
trap 'git -C /repo worktree remove --force "$wt" 2>/dev/null; rm -rf "$wt" "$hb"; echo "[mutbuild] scratch removed"' EXIT
git -C "$wt" apply "$patch" || exit 2
mkdir -p "$hb" && cp /verif/harness/*.go /verif/harness/go.mod "$hb"/ && cp "$wt/go.sum" "$hb"/go.sum
cd "$hb" && go mod edit -replace=go.etcd.io/bbolt="$wt" && GOFLAGS=-mod=mod GOPROXY=off go build -tags verif -o "$out" .
