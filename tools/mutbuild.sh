#!/bin/bash
# tools/mutbuild.sh <patch.diff> <out-binary>: builds the harness against /repo + patch, restores /repo at once.
patch="$1"; out="$2"
cd /repo || exit 2
if ! git diff --quiet; then echo "/repo has uncommitted changes; refusing"; exit 2; fi
trap 'cd /repo && git checkout -- . ; echo "[mutbuild] /repo restored: $(git -C /repo status --short | wc -l) modified"' EXIT
git apply "$patch" || exit 2
cd /verif/harness && GOFLAGS=-mod=mod GOPROXY=off go build -tags verif -o "$out" .
