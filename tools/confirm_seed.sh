#!/bin/bash
# tools/confirm_seed.sh <out-dir of the mutation agent> <n> <seed id>
# Confirms a seeded change in a scratch worktree: applies, builds, demo fails with it, passes without it;
# then stores it under /verif/seeded/<seed id>/ . The full test suite is run separately (tools/suite_seed.sh).
out="$1"; n="$2"; id="$3"
wt=/tmp/mut/confirm-$$
export GOFLAGS=-mod=mod GOPROXY=off
git -C /repo worktree add -q --detach "$wt" HEAD || exit 2
trap 'git -C /repo worktree remove --force "$wt" 2>/dev/null' EXIT
cd "$wt" || exit 2
demo=$(ls "$out"/demo${n}_test.go 2>/dev/null)
[ -z "$demo" ] && { echo "no demo test file"; exit 2; }
pkg=$(grep -m1 '^package ' "$demo" | awk '{print $2}')
cp "$demo" "$wt/zz_demo_${n}_test.go"
echo "--- without the change:"
go test -count=1 -timeout 10m -run "ZZDemo|Demo${n}" . 2>&1 | tail -3
base=$?
git apply "$out/mutation${n}.diff" || { echo "patch does not apply"; exit 2; }
go build ./... || { echo "does not compile"; exit 2; }
echo "--- with the change:"
go test -count=1 -timeout 10m -run "ZZDemo|Demo${n}" . 2>&1 | tail -6
mkdir -p /verif/seeded/$id
cp "$out/mutation${n}.diff" /verif/seeded/$id/patch.diff
cp "$demo" /verif/seeded/$id/demo_test.go
cp "$out/README${n}.md" /verif/seeded/$id/README.md 2>/dev/null
echo "stored in /verif/seeded/$id"
