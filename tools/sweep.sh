#!/bin/bash
# tools/sweep.sh: unchanged-tree sweep: quick (evidence rewritten), quick with other seeds and the
# thorough tier (evidence to a scratch directory). Any VIOLATION line here is a false alarm or a finding.
cd /verif
echo "### quick seed 1 $(date)"; tools/runall.sh quick
for s in 2 3; do echo "### quick seed $s $(date)"; VERIF_SEED=$s VERIF_EVIDENCE_DIR=/var/tmp/sweep-evidence tools/runall.sh quick; done
echo "### thorough $(date)"; VERIF_EVIDENCE_DIR=/var/tmp/sweep-evidence tools/runall.sh thorough
echo "### done $(date)"
