package main

import (
	"bytes"
	"fmt"
	"go/ast"
	"go/constant"
	"go/printer"
	"go/token"
	"math/big"
	"path/filepath"
	"strings"
)

// ---- translator for a small subset of integer Go --------------------------------
//
// Supported: int expressions (+ - * / % <<, comparisons, && || !), conversions
// between integer types (identity; Go int = Lean Int, see noOverflow note in
// DESIGN), if/else with optional init, assignment and op-assignment to locals,
// `for i := C1; i <= C2; i++` with constant bounds (unrolled), return of
// (value) or (value, nil) or (_, error). Reads of receiver fields become
// parameters; package constants are evaluated by go/types. A call to another
// translated method becomes a call of its Lean translation.

type trFunc struct {
	p      *pkgInfo
	fd     *ast.FuncDecl
	recv   string            // receiver identifier
	fields []string          // receiver fields read, in first-use order (become parameters)
	hasErr bool              // returns (T, error)
	known  map[string]*trSig // other translated functions callable from here
}

type trSig struct {
	lean   string
	fields []string
	hasErr bool
	nargs  int
}

func (t *trFunc) fail(n ast.Node, msg string) {
	var buf bytes.Buffer
	_ = printer.Fprint(&buf, fset, n)
	die("translator: unsupported %s in %s at %s: %s", msg, t.fd.Name.Name, fset.Position(n.Pos()), buf.String())
}

func (t *trFunc) field(name string) string {
	for _, f := range t.fields {
		if f == name {
			return t.recv + "_" + name
		}
	}
	t.fields = append(t.fields, name)
	return t.recv + "_" + name
}

func (t *trFunc) expr(e ast.Expr, env map[string]string) string {
	if tv, ok := t.p.info.Types[e]; ok && tv.Value != nil {
		switch tv.Value.Kind() {
		case constant.Int:
			s := tv.Value.ExactString()
			if strings.HasPrefix(s, "-") {
				return "(" + s + ")"
			}
			return s
		case constant.Bool:
			if constant.BoolVal(tv.Value) {
				return "True"
			}
			return "False"
		case constant.Float:
			if v := constant.ToInt(tv.Value); v.Kind() == constant.Int {
				return v.ExactString()
			}
		}
	}
	switch x := e.(type) {
	case *ast.ParenExpr:
		return t.expr(x.X, env)
	case *ast.Ident:
		if v, ok := env[x.Name]; ok {
			return v
		}
		t.fail(e, "identifier")
	case *ast.SelectorExpr:
		if id, ok := x.X.(*ast.Ident); ok && id.Name == t.recv {
			return t.field(x.Sel.Name)
		}
		t.fail(e, "selector")
	case *ast.BinaryExpr:
		a, b := t.expr(x.X, env), t.expr(x.Y, env)
		switch x.Op {
		case token.ADD:
			return "(" + a + " + " + b + ")"
		case token.SUB:
			return "(" + a + " - " + b + ")"
		case token.MUL:
			return "(" + a + " * " + b + ")"
		case token.QUO:
			return "(" + a + " / " + b + ")"
		case token.REM:
			return "(" + a + " % " + b + ")"
		case token.SHL:
			if av, ok := new(big.Int).SetString(a, 10); ok {
				if bv, ok := new(big.Int).SetString(b, 10); ok && bv.IsInt64() && bv.Int64() >= 0 && bv.Int64() < 4096 {
					return new(big.Int).Lsh(av, uint(bv.Int64())).String()
				}
			}
			return "(" + a + " * 2 ^ (Int.toNat " + b + "))"
		case token.LSS:
			return "(" + a + " < " + b + ")"
		case token.LEQ:
			return "(" + a + " ≤ " + b + ")"
		case token.GTR:
			return "(" + a + " > " + b + ")"
		case token.GEQ:
			return "(" + a + " ≥ " + b + ")"
		case token.EQL:
			return "(" + a + " = " + b + ")"
		case token.NEQ:
			return "(" + a + " ≠ " + b + ")"
		case token.LAND:
			return "(" + a + " ∧ " + b + ")"
		case token.LOR:
			return "(" + a + " ∨ " + b + ")"
		}
		t.fail(e, "operator")
	case *ast.UnaryExpr:
		if x.Op == token.NOT {
			return "(¬ " + t.expr(x.X, env) + ")"
		}
		t.fail(e, "unary operator")
	case *ast.CallExpr:
		// integer conversion?
		if tv, ok := t.p.info.Types[x.Fun]; ok && tv.IsType() && len(x.Args) == 1 {
			return t.expr(x.Args[0], env)
		}
		// call of a translated method on the receiver
		if sel, ok := x.Fun.(*ast.SelectorExpr); ok {
			if id, ok := sel.X.(*ast.Ident); ok && id.Name == t.recv {
				if sig, ok := t.known[sel.Sel.Name]; ok && !sig.hasErr {
					var args []string
					for _, f := range sig.fields {
						args = append(args, t.field(f))
					}
					for _, a := range x.Args {
						args = append(args, t.expr(a, env))
					}
					return "(" + sig.lean + " " + strings.Join(args, " ") + ")"
				}
			}
		}
		t.fail(e, "call")
	}
	t.fail(e, "expression")
	return ""
}

func copyEnv(env map[string]string) map[string]string {
	m := map[string]string{}
	for k, v := range env {
		m[k] = v
	}
	return m
}

var tmpCounter int

// stmts translates a statement list followed by the continuation `rest`
// (statements of the enclosing blocks still to run). Returns a Lean term.
func (t *trFunc) stmts(list []ast.Stmt, rest [][]ast.Stmt, env map[string]string, ind string) string {
	if len(list) == 0 {
		if len(rest) == 0 {
			die("translator: %s falls off the end without return", t.fd.Name.Name)
		}
		return t.stmts(rest[0], rest[1:], env, ind)
	}
	s, tail := list[0], list[1:]
	switch x := s.(type) {
	case *ast.ReturnStmt:
		if t.hasErr {
			if len(x.Results) != 2 {
				t.fail(s, "return arity")
			}
			if id, ok := x.Results[1].(*ast.Ident); ok && id.Name == "nil" {
				return "some " + t.expr(x.Results[0], env)
			}
			return "none"
		}
		if len(x.Results) != 1 {
			t.fail(s, "return arity")
		}
		return t.expr(x.Results[0], env)
	case *ast.AssignStmt:
		if len(x.Lhs) != 1 || len(x.Rhs) != 1 {
			t.fail(s, "multi-assignment")
		}
		id, ok := x.Lhs[0].(*ast.Ident)
		if !ok {
			t.fail(s, "assignment target")
		}
		var rhs string
		switch x.Tok {
		case token.DEFINE, token.ASSIGN:
			rhs = t.expr(x.Rhs[0], env)
		case token.ADD_ASSIGN:
			rhs = "(" + t.expr(x.Lhs[0], env) + " + " + t.expr(x.Rhs[0], env) + ")"
		case token.SUB_ASSIGN:
			rhs = "(" + t.expr(x.Lhs[0], env) + " - " + t.expr(x.Rhs[0], env) + ")"
		default:
			t.fail(s, "assignment operator")
		}
		tmpCounter++
		nm := fmt.Sprintf("%s_%d", id.Name, tmpCounter)
		env2 := copyEnv(env)
		env2[id.Name] = nm
		return "let " + nm + " : Int := " + rhs + "\n" + ind + t.stmts(tail, rest, env2, ind)
	case *ast.DeclStmt:
		gd, ok := x.Decl.(*ast.GenDecl)
		if !ok || gd.Tok != token.VAR || len(gd.Specs) != 1 {
			t.fail(s, "declaration")
		}
		vs := gd.Specs[0].(*ast.ValueSpec)
		if len(vs.Names) != 1 || len(vs.Values) != 1 {
			t.fail(s, "declaration")
		}
		tmpCounter++
		nm := fmt.Sprintf("%s_%d", vs.Names[0].Name, tmpCounter)
		env2 := copyEnv(env)
		rhs := t.expr(vs.Values[0], env)
		env2[vs.Names[0].Name] = nm
		return "let " + nm + " : Int := " + rhs + "\n" + ind + t.stmts(tail, rest, env2, ind)
	case *ast.IfStmt:
		pre := ""
		envI := env
		if x.Init != nil {
			as, ok := x.Init.(*ast.AssignStmt)
			if !ok || len(as.Lhs) != 1 || as.Tok != token.DEFINE {
				t.fail(s, "if-init")
			}
			id := as.Lhs[0].(*ast.Ident)
			tmpCounter++
			nm := fmt.Sprintf("%s_%d", id.Name, tmpCounter)
			envI = copyEnv(env)
			rhs := t.expr(as.Rhs[0], env)
			envI[id.Name] = nm
			pre = "let " + nm + " : Int := " + rhs + "\n" + ind
		}
		cond := t.expr(x.Cond, envI)
		after := append([][]ast.Stmt{tail}, rest...)
		// variables declared inside the branches do not escape; assignments to outer
		// variables do, which the continuation-passing translation handles by
		// translating `after` inside each branch with that branch's environment.
		thenT := t.stmts(x.Body.List, after, envI, ind+"  ")
		var elseT string
		switch el := x.Else.(type) {
		case nil:
			elseT = t.stmts(nil, after, env, ind+"  ")
		case *ast.BlockStmt:
			elseT = t.stmts(el.List, after, envI, ind+"  ")
		case *ast.IfStmt:
			elseT = t.stmts([]ast.Stmt{el}, after, envI, ind+"  ")
		}
		return pre + "if " + cond + " then\n" + ind + "  " + thenT + "\n" + ind + "else\n" + ind + "  " + elseT
	case *ast.ForStmt:
		// for i := C1; i <= C2; i++ { body }   with constant bounds: unrolled
		init, ok1 := x.Init.(*ast.AssignStmt)
		cond, ok2 := x.Cond.(*ast.BinaryExpr)
		post, ok3 := x.Post.(*ast.IncDecStmt)
		if !ok1 || !ok2 || !ok3 || post.Tok != token.INC || (cond.Op != token.LEQ && cond.Op != token.LSS) {
			t.fail(s, "for loop shape")
		}
		iv := init.Lhs[0].(*ast.Ident).Name
		lo, okl := constInt(t.p, init.Rhs[0])
		hi, okh := constInt(t.p, cond.Y)
		if !okl || !okh {
			t.fail(s, "for loop bounds (must be constant)")
		}
		if cond.Op == token.LSS {
			hi--
		}
		if hi-lo > 64 {
			t.fail(s, "for loop too long to unroll")
		}
		// the loop body must be a single `if cond { return ... }` without side effects: the loop
		// becomes `List.findSome?` over the literal index list, early return = `some`.
		if len(x.Body.List) != 1 {
			t.fail(s, "loop body (only a single `if ... { return }`)")
		}
		ifs, ok := x.Body.List[0].(*ast.IfStmt)
		if !ok || ifs.Else != nil || ifs.Init != nil || len(ifs.Body.List) != 1 {
			t.fail(s, "loop body shape")
		}
		if _, ok := ifs.Body.List[0].(*ast.ReturnStmt); !ok {
			t.fail(s, "loop body must return")
		}
		var idx []string
		for i := lo; i <= hi; i++ {
			idx = append(idx, fmt.Sprintf("%d", i))
		}
		envL := copyEnv(env)
		envL[iv] = iv
		condS := t.expr(ifs.Cond, envL)
		ret := t.stmts(ifs.Body.List, nil, envL, ind+"    ")
		after := t.stmts(nil, append([][]ast.Stmt{tail}, rest...), env, ind+"  ")
		return "match List.findSome? (fun (" + iv + " : Int) => if " + condS + " then some (" + ret + ") else none) [" + strings.Join(idx, ", ") + "] with\n" +
			ind + "| some r => r\n" + ind + "| none =>\n" + ind + "  " + after
	}
	t.fail(s, "statement")
	return ""
}

func constInt(p *pkgInfo, e ast.Expr) (int64, bool) {
	if tv, ok := p.info.Types[e]; ok && tv.Value != nil {
		v := constant.ToInt(tv.Value)
		if v.Kind() == constant.Int {
			n, ok := constant.Int64Val(v)
			return n, ok
		}
	}
	return 0, false
}

func translate(p *pkgInfo, recvType, name, lean string, known map[string]*trSig) (string, *trSig) {
	fd := findFunc(p, recvType, name)
	t := &trFunc{p: p, fd: fd, known: known}
	if fd.Recv != nil && len(fd.Recv.List[0].Names) == 1 {
		t.recv = fd.Recv.List[0].Names[0].Name
	}
	res := fd.Type.Results
	switch {
	case res != nil && len(res.List) == 1:
	case res != nil && len(res.List) == 2:
		t.hasErr = true
	default:
		die("translator: %s: unsupported result list", name)
	}
	env := map[string]string{}
	var params []string
	for _, f := range fd.Type.Params.List {
		for _, n := range f.Names {
			env[n.Name] = n.Name
			params = append(params, n.Name)
		}
	}
	body := t.stmts(fd.Body.List, nil, env, "  ")
	var sigp []string
	for _, f := range t.fields {
		sigp = append(sigp, "("+t.recv+"_"+f+" : Int)")
	}
	for _, pn := range params {
		sigp = append(sigp, "("+pn+" : Int)")
	}
	ret := "Int"
	if t.hasErr {
		ret = "Option Int"
	}
	src := fmt.Sprintf("/-- translated from `%s.%s` (%s) -/\ndef %s %s : %s :=\n  %s\n",
		recvType, name, filepath.Base(fset.Position(fd.Pos()).Filename), lean, strings.Join(sigp, " "), ret, body)
	return src, &trSig{lean: lean, fields: t.fields, hasErr: t.hasErr, nargs: len(params)}
}

// srcOf prints a node in canonical gofmt form without comments.
func srcOf(n ast.Node) string {
	var buf bytes.Buffer
	cfg := printer.Config{Mode: printer.RawFormat}
	_ = cfg.Fprint(&buf, token.NewFileSet(), n)
	// collapse whitespace
	return strings.Join(strings.Fields(buf.String()), " ")
}

func leanStr(s string) string {
	s = strings.ReplaceAll(s, "\\", "\\\\")
	s = strings.ReplaceAll(s, "\"", "\\\"")
	return "\"" + s + "\""
}

func genArith(root, common, freelist *pkgInfo) string {
	var b strings.Builder
	b.WriteString("import Bolt.Gen.Consts\nnamespace Bolt.Gen\n\n")
	known := map[string]*trSig{}
	for _, f := range []struct{ recv, name, lean string }{
		{"DB", "growSize", "growSize"},
		{"DB", "mmapSize", "mmapSize"},
	} {
		src, sig := translate(root, f.recv, f.name, f.lean, known)
		known[f.name] = sig
		b.WriteString(src + "\n")
	}
	b.WriteString("end Bolt.Gen\n")
	return b.String()
}
