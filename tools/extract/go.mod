module verifextract

go 1.25.0

toolchain go1.25.11
