// extract regenerates /verif/lean/Bolt/Gen/*.lean from the Go source of /repo.
//
// It is deliberately tiny: constants and struct layouts (via go/types with the
// source importer and amd64 sizes), a translator for a small subset of
// straight-line integer Go (Gen/Arith.lean), and call skeletons of selected
// functions (Gen/Cfg.lean). Anything outside the supported subset makes it exit
// non-zero: a broken tie, never a silent skip.
package main

import (
	"fmt"
	"go/ast"
	"go/constant"
	"go/importer"
	"go/parser"
	"go/token"
	"go/types"
	"os"
	"path/filepath"
	"sort"
	"strings"
)

var fset = token.NewFileSet()

func die(format string, a ...any) {
	fmt.Fprintf(os.Stderr, "extract: "+format+"\n", a...)
	os.Exit(2)
}

type pkgInfo struct {
	pkg   *types.Package
	info  *types.Info
	files []*ast.File
}

func load(dir, path string, tags map[string]bool) *pkgInfo {
	ents, err := os.ReadDir(dir)
	if err != nil {
		die("%v", err)
	}
	var files []*ast.File
	for _, e := range ents {
		n := e.Name()
		if e.IsDir() || !strings.HasSuffix(n, ".go") || strings.HasSuffix(n, "_test.go") {
			continue
		}
		if !fileMatches(filepath.Join(dir, n), n, tags) {
			continue
		}
		f, err := parser.ParseFile(fset, filepath.Join(dir, n), nil, parser.ParseComments)
		if err != nil {
			die("parse %s: %v", n, err)
		}
		files = append(files, f)
	}
	info := &types.Info{
		Types: map[ast.Expr]types.TypeAndValue{},
		Defs:  map[*ast.Ident]types.Object{},
		Uses:  map[*ast.Ident]types.Object{},
	}
	conf := types.Config{
		Importer: importer.ForCompiler(fset, "source", nil),
		Sizes:    types.SizesFor("gc", "amd64"),
		Error:    func(err error) {},
	}
	pkg, _ := conf.Check(path, fset, files, info)
	if pkg == nil {
		die("type check of %s failed", path)
	}
	return &pkgInfo{pkg, info, files}
}

// fileMatches: linux/amd64, build tag verif ON (the checks build with it).
func fileMatches(full, name string, tags map[string]bool) bool {
	base := strings.TrimSuffix(name, ".go")
	oses := []string{"windows", "openbsd", "solaris", "aix", "android", "darwin", "freebsd", "plan9"}
	arches := []string{"386", "arm", "arm64", "loong64", "mips64x", "mipsx", "ppc", "ppc64", "ppc64le", "riscv64", "s390x", "mips", "mips64", "mipsle", "mips64le"}
	for _, o := range oses {
		if strings.HasSuffix(base, "_"+o) {
			return false
		}
	}
	for _, a := range arches {
		if strings.HasSuffix(base, "_"+a) {
			return false
		}
	}
	src, _ := os.ReadFile(full)
	for _, line := range strings.Split(string(src), "\n") {
		line = strings.TrimSpace(line)
		if strings.HasPrefix(line, "package ") {
			break
		}
		if strings.HasPrefix(line, "//go:build ") {
			expr := strings.TrimPrefix(line, "//go:build ")
			return evalBuild(expr, tags)
		}
	}
	return true
}

func evalBuild(expr string, tags map[string]bool) bool {
	// tiny evaluator: handles "a", "!a", "a && b", "a || b", parentheses-free forms used in this repo.
	expr = strings.TrimSpace(expr)
	if i := strings.Index(expr, "||"); i >= 0 {
		return evalBuild(expr[:i], tags) || evalBuild(expr[i+2:], tags)
	}
	if i := strings.Index(expr, "&&"); i >= 0 {
		return evalBuild(expr[:i], tags) && evalBuild(expr[i+2:], tags)
	}
	expr = strings.Trim(expr, "() ")
	if strings.HasPrefix(expr, "!") {
		return !evalBuild(expr[1:], tags)
	}
	return tags[expr]
}

func (p *pkgInfo) constNat(name string) string {
	obj := p.pkg.Scope().Lookup(name)
	c, ok := obj.(*types.Const)
	if !ok {
		die("constant %s.%s not found", p.pkg.Name(), name)
	}
	v := constant.ToInt(c.Val())
	if v.Kind() != constant.Int {
		die("constant %s is not an integer: %v", name, c.Val())
	}
	return v.ExactString()
}

func (p *pkgInfo) structOf(name string) *types.Struct {
	obj := p.pkg.Scope().Lookup(name)
	if obj == nil {
		die("type %s.%s not found", p.pkg.Name(), name)
	}
	st, ok := obj.Type().Underlying().(*types.Struct)
	if !ok {
		die("%s is not a struct", name)
	}
	return st
}

var sizes = types.SizesFor("gc", "amd64")

// layout flattens nested structs: ("root.root", off, size)
func layout(st *types.Struct, prefix string, base int64, out *[]string) {
	fields := make([]*types.Var, st.NumFields())
	for i := range fields {
		fields[i] = st.Field(i)
	}
	offs := sizes.Offsetsof(fields)
	for i, f := range fields {
		if inner, ok := f.Type().Underlying().(*types.Struct); ok {
			layout(inner, prefix+f.Name()+".", base+offs[i], out)
			continue
		}
		*out = append(*out, fmt.Sprintf("(%q, %d, %d)", prefix+f.Name(), base+offs[i], sizes.Sizeof(f.Type())))
	}
}

func layoutDef(p *pkgInfo, leanName, goName string) string {
	var fs []string
	st := p.structOf(goName)
	layout(st, "", 0, &fs)
	return fmt.Sprintf("def %s : List (String × Nat × Nat) :=\n  [%s]\ndef %sSize : Nat := %d\n",
		leanName, strings.Join(fs, ", "), leanName, sizes.Sizeof(st))
}

func writeIfChanged(path, content string) {
	old, err := os.ReadFile(path)
	if err == nil && string(old) == content {
		return
	}
	if err := os.WriteFile(path, []byte(content), 0o644); err != nil {
		die("%v", err)
	}
}

func main() {
	if len(os.Args) != 3 {
		die("usage: extract <repo> <outdir>")
	}
	repo, out := os.Args[1], os.Args[2]
	if abs, err := filepath.Abs(out); err == nil {
		out = abs
	}
	if err := os.MkdirAll(out, 0o755); err != nil {
		die("%v", err)
	}
	if err := os.Chdir(repo); err != nil {
		die("%v", err)
	}
	tags := map[string]bool{"linux": true, "amd64": true, "unix": true, "verif": true, "go1.25": true}
	common := load(filepath.Join(repo, "internal/common"), "go.etcd.io/bbolt/internal/common", tags)
	root := load(repo, "go.etcd.io/bbolt", tags)
	freelist := load(filepath.Join(repo, "internal/freelist"), "go.etcd.io/bbolt/internal/freelist", tags)

	hdr := "-- GENERATED by /verif/tools/extract from /repo — do not edit.\n"

	// ---- Consts
	var b strings.Builder
	b.WriteString(hdr + "namespace Bolt.Gen\n\n")
	cn := func(lean string, p *pkgInfo, goName string) {
		fmt.Fprintf(&b, "def %s : Nat := %s\n", lean, p.constNat(goName))
	}
	cn("magic", common, "Magic")
	cn("version", common, "Version")
	cn("pgidNoFreelist", common, "PgidNoFreelist")
	cn("branchPageFlag", common, "BranchPageFlag")
	cn("leafPageFlag", common, "LeafPageFlag")
	cn("metaPageFlag", common, "MetaPageFlag")
	cn("freelistPageFlag", common, "FreelistPageFlag")
	cn("bucketLeafFlag", common, "BucketLeafFlag")
	cn("pageHeaderSize", common, "PageHeaderSize")
	cn("branchPageElementSize", common, "BranchPageElementSize")
	cn("leafPageElementSize", common, "LeafPageElementSize")
	cn("bucketHeaderSize", common, "BucketHeaderSize")
	cn("minKeysPerPage", common, "MinKeysPerPage")
	cn("maxMmapStep", common, "MaxMmapStep")
	cn("maxMapSize", common, "MaxMapSize")
	cn("maxAllocSize", common, "MaxAllocSize")
	cn("defaultAllocSize", common, "DefaultAllocSize")
	cn("defaultMaxBatchSize", common, "DefaultMaxBatchSize")
	cn("maxKeySize", root, "MaxKeySize")
	cn("maxValueSize", root, "MaxValueSize")
	// checksum range = unsafe.Offsetof(Meta{}.checksum), recomputed from Sum64's source
	b.WriteString(fmt.Sprintf("def metaChecksumLen : Nat := %d\n", checksumLen(common)))
	b.WriteString("\nend Bolt.Gen\n")
	writeIfChanged(filepath.Join(out, "Consts.lean"), b.String())

	// ---- Layout
	b.Reset()
	b.WriteString(hdr + "namespace Bolt.Gen\n\n")
	b.WriteString(layoutDef(common, "metaLayout", "Meta"))
	b.WriteString(layoutDef(common, "pageLayout", "Page"))
	b.WriteString(layoutDef(common, "branchElemLayout", "branchPageElement"))
	b.WriteString(layoutDef(common, "leafElemLayout", "leafPageElement"))
	b.WriteString(layoutDef(common, "inBucketLayout", "InBucket"))
	b.WriteString("\nend Bolt.Gen\n")
	writeIfChanged(filepath.Join(out, "Layout.lean"), b.String())

	// ---- Arith
	writeIfChanged(filepath.Join(out, "Arith.lean"), hdr+genArith(root, common, freelist))

	// ---- Cfg
	writeIfChanged(filepath.Join(out, "Cfg.lean"), hdr+genCfg(root, common, freelist))

	// ---- Tree (fingerprints of the transcribed tree/bucket/cursor functions)
	writeIfChanged(filepath.Join(out, "Tree.lean"), hdr+genTree(root))
}

// checksumLen finds, in Meta.Sum64, the array length of the conversion
// (*[N]byte)(unsafe.Pointer(m)) and evaluates N with go/types.
func checksumLen(p *pkgInfo) int64 {
	fn := findFunc(p, "Meta", "Sum64")
	var n int64 = -1
	ast.Inspect(fn.Body, func(x ast.Node) bool {
		if at, ok := x.(*ast.ArrayType); ok && at.Len != nil {
			if tv, ok := p.info.Types[at.Len]; ok && tv.Value != nil {
				v, _ := constant.Int64Val(constant.ToInt(tv.Value))
				n = v
			}
		}
		return true
	})
	if n < 0 {
		die("cannot find checksum range in Meta.Sum64")
	}
	return n
}

func findFunc(p *pkgInfo, recv, name string) *ast.FuncDecl {
	for _, f := range p.files {
		for _, d := range f.Decls {
			fd, ok := d.(*ast.FuncDecl)
			if !ok || fd.Name.Name != name || fd.Body == nil {
				continue
			}
			r := ""
			if fd.Recv != nil && len(fd.Recv.List) == 1 {
				t := fd.Recv.List[0].Type
				if s, ok := t.(*ast.StarExpr); ok {
					t = s.X
				}
				if id, ok := t.(*ast.Ident); ok {
					r = id.Name
				}
			}
			if r == recv {
				return fd
			}
		}
	}
	die("function %s.%s not found", recv, name)
	return nil
}

var _ = sort.Strings
