package main

import (
	"bytes"
	"fmt"
	"go/ast"
	"go/printer"
	"go/token"
	"hash/fnv"
	"strings"
)

// Fingerprints of the functions that the hand-written B+tree / bucket models (Model/Node,
// Model/BTree, Model/Bkt, Model/Cursor) transcribe: FNV-1a of the gofmt-printed body without
// comments, plus the number of statements.  Props/GenC04 states the values the models were
// transcribed from; an edit of any of these functions breaks that theorem (the correspondence
// engines then look for a concrete divergence).

func bodyFingerprint(fd *ast.FuncDecl) string {
	if fd == nil || fd.Body == nil {
		return "missing"
	}
	var buf bytes.Buffer
	// printing the body node alone drops the comments (they live in the File's comment list)
	_ = printer.Fprint(&buf, token.NewFileSet(), fd.Body)
	h := fnv.New64a()
	_, _ = h.Write(buf.Bytes())
	n := 0
	ast.Inspect(fd.Body, func(x ast.Node) bool {
		if _, ok := x.(ast.Stmt); ok {
			n++
		}
		return true
	})
	return fmt.Sprintf("%016x:%d", h.Sum64(), n)
}

func genTree(root *pkgInfo) string {
	var b strings.Builder
	b.WriteString("namespace Bolt.Gen\n\n")
	b.WriteString("/-- (function, fingerprint of its body) for every function the tree/bucket/cursor models transcribe -/\n")
	b.WriteString("def treeFns : List (String × String) :=\n  [")
	fns := [][2]string{
		{"node", "minKeys"}, {"node", "size"}, {"node", "sizeLessThan"}, {"node", "pageElementSize"}, {"node", "childAt"},
		{"node", "childIndex"}, {"node", "numChildren"}, {"node", "nextSibling"}, {"node", "prevSibling"}, {"node", "put"},
		{"node", "del"}, {"node", "read"}, {"node", "split"}, {"node", "splitTwo"}, {"node", "splitIndex"}, {"node", "spill"},
		{"node", "rebalance"}, {"node", "removeChild"}, {"node", "free"},
		{"Bucket", "Bucket"}, {"Bucket", "openBucket"}, {"Bucket", "CreateBucket"}, {"Bucket", "DeleteBucket"}, {"Bucket", "Put"},
		{"Bucket", "Delete"}, {"Bucket", "SetSequence"}, {"Bucket", "NextSequence"}, {"Bucket", "spill"}, {"Bucket", "inlineable"},
		{"Bucket", "maxInlineBucketSize"}, {"Bucket", "write"}, {"Bucket", "rebalance"}, {"Bucket", "node"}, {"Bucket", "free"},
		{"Cursor", "seek"}, {"Cursor", "search"}, {"Cursor", "searchNode"}, {"Cursor", "searchPage"}, {"Cursor", "nsearch"},
		{"Cursor", "node"}, {"Cursor", "keyValue"},
	}
	var items []string
	for _, f := range fns {
		items = append(items, fmt.Sprintf("(%s, %s)", leanStr(f[0]+"."+f[1]), leanStr(bodyFingerprint(findFunc(root, f[0], f[1])))))
	}
	b.WriteString(strings.Join(items, ",\n   ") + "]\n\n")
	b.WriteString("/-- the same for the navigation functions `Model/Cursor` transcribes -/\ndef cursorFns : List (String × String) :=\n  [")
	items = nil
	for _, f := range [][2]string{{"Cursor", "First"}, {"Cursor", "first"}, {"Cursor", "Last"}, {"Cursor", "last"}, {"Cursor", "Next"}, {"Cursor", "next"},
		{"Cursor", "Prev"}, {"Cursor", "prev"}, {"Cursor", "Seek"}, {"Cursor", "seek"}, {"Cursor", "goToFirstElementOnTheStack"},
		{"Cursor", "search"}, {"Cursor", "searchNode"}, {"Cursor", "searchPage"}, {"Cursor", "nsearch"}, {"Cursor", "keyValue"}, {"elemRef", "isLeaf"}, {"elemRef", "count"}} {
		items = append(items, fmt.Sprintf("(%s, %s)", leanStr(f[0]+"."+f[1]), leanStr(bodyFingerprint(findFunc(root, f[0], f[1])))))
	}
	b.WriteString(strings.Join(items, ",\n   ") + "]\n\n")
	b.WriteString("end Bolt.Gen\n")
	return b.String()
}
