package main

import (
	"fmt"
	"go/ast"
	"go/token"
	"strings"
)

// Gen/Cfg.lean: facts about control flow, locking, syscall arguments and a few source
// fragments, extracted from the AST. Hand-written expectations about them are proved by
// `decide`/`rfl` in the Props files; an edit that changes a fact breaks that proof.

func callName(c *ast.CallExpr) string { return srcOf(c.Fun) }

// callsIn lists the calls below n in source order (pre-order), skipping function literals
// unless deep is set.
func callsIn(n ast.Node, keep func(string) bool) []string {
	var out []string
	ast.Inspect(n, func(x ast.Node) bool {
		if c, ok := x.(*ast.CallExpr); ok {
			if nm := callName(c); keep(nm) {
				out = append(out, nm)
			}
		}
		return true
	})
	return out
}

func leanList(xs []string) string {
	q := make([]string, len(xs))
	for i, x := range xs {
		q[i] = leanStr(x)
	}
	return "[" + strings.Join(q, ", ") + "]"
}

func isErrNotNil(e ast.Expr) bool {
	s := srcOf(e)
	return s == "err != nil" || strings.HasSuffix(s, "; err != nil")
}

// commit facts
func commitFacts(root *pkgInfo) (mainCalls []string, errBranches []string) {
	fd := findFunc(root, "Tx", "Commit")
	interesting := func(nm string) bool {
		switch nm {
		case "tx.root.rebalance", "tx.root.spill", "tx.db.freelist.Free", "tx.commitFreelist", "tx.db.grow", "tx.write", "tx.writeMeta", "tx.close", "tx.rollback", "tx.Check":
			return true
		}
		return false
	}
	var lastCall string
	var walk func(list []ast.Stmt, inErr bool)
	walk = func(list []ast.Stmt, inErr bool) {
		for _, st := range list {
			switch x := st.(type) {
			case *ast.IfStmt:
				// calls in init/cond belong to the main path
				if x.Init != nil {
					for _, c := range callsIn(x.Init, interesting) {
						mainCalls = append(mainCalls, c)
						lastCall = c
					}
				}
				condErr := isErrNotNil(x.Cond)
				if condErr {
					calls := callsIn(x.Body, interesting)
					rb := false
					for _, c := range calls {
						if c == "tx.rollback" {
							rb = true
						}
					}
					hasRet := false
					ast.Inspect(x.Body, func(n ast.Node) bool {
						if _, ok := n.(*ast.ReturnStmt); ok {
							hasRet = true
						}
						return true
					})
					errBranches = append(errBranches, fmt.Sprintf("%s:rollback=%v:returns=%v", lastCall, rb, hasRet))
				} else {
					walk(x.Body.List, inErr)
					if el, ok := x.Else.(*ast.BlockStmt); ok {
						walk(el.List, inErr)
					}
				}
			case *ast.DeferStmt:
				// logging defers only
			default:
				for _, c := range callsIn(st, interesting) {
					mainCalls = append(mainCalls, c)
					lastCall = c
				}
			}
		}
	}
	walk(fd.Body.List, false)
	return
}

func lockOpsOf(p *pkgInfo, recv, name string) []string {
	fd := findFunc(p, recv, name)
	var out []string
	ast.Inspect(fd.Body, func(n ast.Node) bool {
		switch x := n.(type) {
		case *ast.DeferStmt:
			nm := callName(x.Call)
			if isLockOp(nm) {
				out = append(out, "defer "+shortLock(nm))
				return false
			}
		case *ast.CallExpr:
			nm := callName(x)
			if isLockOp(nm) {
				out = append(out, shortLock(nm))
			}
		}
		return true
	})
	return out
}

func isLockOp(nm string) bool {
	for _, s := range []string{".Lock", ".Unlock", ".RLock", ".RUnlock"} {
		if strings.HasSuffix(nm, s) && (strings.Contains(nm, "lock") || strings.Contains(nm, "Mu")) {
			return true
		}
	}
	return false
}

func shortLock(nm string) string {
	parts := strings.Split(nm, ".")
	if len(parts) >= 2 {
		return parts[len(parts)-2] + "." + parts[len(parts)-1]
	}
	return nm
}

// ioOrder: the order of writeAt / fdatasync calls in a function
func ioOrder(p *pkgInfo, recv, name string) []string {
	fd := findFunc(p, recv, name)
	return callsIn(fd.Body, func(nm string) bool {
		return strings.HasSuffix(nm, "ops.writeAt") || nm == "fdatasync" || strings.HasSuffix(nm, "file.Truncate") || strings.HasSuffix(nm, "file.Sync")
	})
}

func findStmtSrc(fd *ast.FuncDecl, pred func(string) bool) string {
	var found string
	ast.Inspect(fd.Body, func(n ast.Node) bool {
		if found != "" {
			return false
		}
		if st, ok := n.(ast.Stmt); ok {
			if _, isBlock := st.(*ast.BlockStmt); !isBlock {
				s := srcOf(st)
				if pred(s) {
					found = s
					return false
				}
			}
		}
		return true
	})
	return found
}

func stripComments(fd *ast.FuncDecl) {}

func genCfg(root, common, freelist *pkgInfo) string {
	var b strings.Builder
	b.WriteString("namespace Bolt.Gen\n\n")
	mc, eb := commitFacts(root)
	fmt.Fprintf(&b, "/-- calls on the main path of `Tx.Commit`, in source order -/\ndef commitCalls : List String := %s\n\n", leanList(mc))
	fmt.Fprintf(&b, "/-- every `if err != nil` block of `Tx.Commit`: failing call, whether the block calls `tx.rollback()`, whether it returns -/\ndef commitErrBranches : List String := %s\n\n", leanList(eb))
	cf := findFunc(root, "Tx", "commitFreelist")
	fmt.Fprintf(&b, "def commitFreelistCalls : List String := %s\n\n", leanList(callsIn(cf.Body, func(nm string) bool {
		return nm == "tx.allocate" || nm == "tx.rollback" || nm == "tx.db.freelist.Write" || nm == "tx.meta.SetFreelist"
	})))
	fmt.Fprintf(&b, "def txWriteIO : List String := %s\n", leanList(ioOrder(root, "Tx", "write")))
	fmt.Fprintf(&b, "def txWriteMetaIO : List String := %s\n", leanList(ioOrder(root, "Tx", "writeMeta")))
	fmt.Fprintf(&b, "def dbGrowIO : List String := %s\n", leanList(ioOrder(root, "DB", "grow")))
	fmt.Fprintf(&b, "def dbInitIO : List String := %s\n\n", leanList(ioOrder(root, "DB", "init")))
	// the NoSync guards
	fmt.Fprintf(&b, "def txWriteSyncGuard : String := %s\n", leanStr(guardOf(findFunc(root, "Tx", "write"), "fdatasync")))
	fmt.Fprintf(&b, "def txWriteMetaSyncGuard : String := %s\n\n", leanStr(guardOf(findFunc(root, "Tx", "writeMeta"), "fdatasync")))
	// locks
	b.WriteString("/-- lock operations per function, in source order -/\ndef lockOps : List (String × List String) :=\n  [")
	var items []string
	for _, f := range [][2]string{{"DB", "beginTx"}, {"DB", "beginRWTx"}, {"DB", "removeTx"}, {"Tx", "close"}, {"DB", "Close"}, {"DB", "mmap"}, {"Tx", "writeMeta"}, {"DB", "Batch"}, {"batch", "run"}, {"DB", "Stats"}, {"DB", "Update"}, {"DB", "View"}} {
		items = append(items, fmt.Sprintf("(%s, %s)", leanStr(f[0]+"."+f[1]), leanList(lockOpsOf(root, f[0], f[1]))))
	}
	b.WriteString(strings.Join(items, ",\n   ") + "]\n\n")
	// meta slot
	mw := findFunc(common, "Meta", "Write")
	fmt.Fprintf(&b, "def metaWriteSlot : String := %s\n", leanStr(findStmtSrc(mw, func(s string) bool { return strings.HasPrefix(s, "p.id =") })))
	// syscall arguments
	fl := findFunc(root, "", "flock")
	fmt.Fprintf(&b, "def flockSrc : String := %s\n", leanStr(srcOf(fl.Body)))
	mm := findFunc(root, "", "mmap")
	fmt.Fprintf(&b, "def mmapCall : String := %s\n", leanStr(findStmtSrc(mm, func(s string) bool { return strings.Contains(s, "unix.Mmap(") })))
	op := findFunc(root, "", "Open")
	fmt.Fprintf(&b, "def openFlockCall : String := %s\n", leanStr(firstCallSrc(op, "flock")))
	fmt.Fprintf(&b, "def openFlagSrc : String := %s\n", leanStr(findStmtSrc(op, func(s string) bool { return strings.HasPrefix(s, "if options.ReadOnly {") })))
	fmt.Fprintf(&b, "def openReadOnlyReturn : String := %s\n", leanStr(findStmtSrc(op, func(s string) bool { return strings.HasPrefix(s, "if db.readOnly {") })))
	brw := findFunc(root, "DB", "beginRWTx")
	fmt.Fprintf(&b, "def beginRWTxFirst : String := %s\n", leanStr(srcOf(brw.Body.List[0])))
	cl := findFunc(root, "DB", "close")
	fmt.Fprintf(&b, "def closeUnlockSrc : String := %s\n\n", leanStr(findStmtSrc(cl, func(s string) bool { return strings.HasPrefix(s, "if !db.readOnly {") })))
	// allocate pre-check and grow
	al := findFunc(root, "DB", "allocate")
	fmt.Fprintf(&b, "def allocateMinszSrc : String := %s\n", leanStr(findStmtSrc(al, func(s string) bool { return strings.HasPrefix(s, "var minsz") })))
	fmt.Fprintf(&b, "def allocatePrecheckSrc : String := %s\n", leanStr(stripLogging(findStmtSrc(al, func(s string) bool { return strings.HasPrefix(s, "if db.MaxSize > 0 {") }))))
	fmt.Fprintf(&b, "def allocateRemapSrc : String := %s\n", leanStr(findStmtSrc(al, func(s string) bool { return strings.HasPrefix(s, "if minsz >= db.datasz {") })))
	gr := findFunc(root, "DB", "grow")
	fmt.Fprintf(&b, "def growEarlyReturnSrc : String := %s\n", leanStr(findStmtSrc(gr, func(s string) bool { return strings.HasPrefix(s, "if sz <= fileSize {") })))
	fmt.Fprintf(&b, "def growSizeSrc : String := %s\n", leanStr(findStmtSrc(gr, func(s string) bool { return strings.HasPrefix(s, "sz = ") })))
	fmt.Fprintf(&b, "def growTruncateSrc : String := %s\n", leanStr(firstCallSrc(gr, "db.file.Truncate")))
	cm := findFunc(root, "Tx", "Commit")
	fmt.Fprintf(&b, "def commitGrowCall : String := %s\n", leanStr(firstCallSrc(cm, "tx.db.grow")))
	// Batch
	bt := findFunc(root, "DB", "Batch")
	fmt.Fprintf(&b, "\ndef batchTimerSrc : String := %s\n", leanStr(findStmtSrc(bt, func(s string) bool { return strings.HasPrefix(s, "db.batch.timer =") })))
	fmt.Fprintf(&b, "def batchFullSrc : String := %s\n", leanStr(findStmtSrc(bt, func(s string) bool { return strings.HasPrefix(s, "if len(db.batch.calls) >= db.MaxBatchSize {") })))
	fmt.Fprintf(&b, "def batchNewSrc : String := %s\n", leanStr(findStmtSrc(bt, func(s string) bool { return strings.HasPrefix(s, "if (db.batch == nil)") })))
	fmt.Fprintf(&b, "def batchSoloSrc : String := %s\n", leanStr(findStmtSrc(bt, func(s string) bool { return strings.HasPrefix(s, "if err == trySolo {") })))
	tg := findFunc(root, "batch", "trigger")
	fmt.Fprintf(&b, "def batchTriggerSrc : String := %s\n", leanStr(srcOf(tg.Body)))
	rn := findFunc(root, "batch", "run")
	fmt.Fprintf(&b, "def batchRunLoopSrc : String := %s\n", leanStr(findStmtSrc(rn, func(s string) bool { return strings.HasPrefix(s, "for len(b.calls) > 0 {") })))
	sc := findFunc(root, "", "safelyCall")
	fmt.Fprintf(&b, "def safelyCallSrc : String := %s\n", leanStr(srcOf(sc.Body)))
	up := findFunc(root, "DB", "Update")
	fmt.Fprintf(&b, "def updateSrc : String := %s\n", leanStr(srcOf(up.Body)))
	b.WriteString("\nend Bolt.Gen\n")
	return b.String()
}

// guardOf returns the condition of the innermost if statement enclosing the first call of `callee`.
func guardOf(fd *ast.FuncDecl, callee string) string {
	var res string
	var stack []ast.Node
	ast.Inspect(fd.Body, func(n ast.Node) bool {
		if n == nil {
			stack = stack[:len(stack)-1]
			return true
		}
		stack = append(stack, n)
		if c, ok := n.(*ast.CallExpr); ok && callName(c) == callee && res == "" {
			// the call sits in the Init of its own `if err := fdatasync(..); err != nil`; take the next enclosing if
			seen := 0
			for i := len(stack) - 1; i >= 0; i-- {
				if is, ok := stack[i].(*ast.IfStmt); ok {
					seen++
					if seen == 2 {
						res = srcOf(is.Cond)
						break
					}
				}
			}
		}
		return true
	})
	return res
}

func firstCallSrc(fd *ast.FuncDecl, callee string) string {
	var res string
	ast.Inspect(fd.Body, func(n ast.Node) bool {
		if c, ok := n.(*ast.CallExpr); ok && callName(c) == callee && res == "" {
			res = srcOf(c)
		}
		return true
	})
	return res
}

// stripLogging removes Logger() calls (diagnostics only) from a source fragment.
func stripLogging(s string) string {
	for {
		i := strings.Index(s, "db.Logger().")
		if i < 0 {
			return s
		}
		// cut up to the matching close paren
		depth, j := 0, i
		for ; j < len(s); j++ {
			if s[j] == '(' {
				depth++
			} else if s[j] == ')' {
				depth--
				if depth == 0 && j > strings.Index(s[i:], "(")+i+2 {
					// this closes the Errorf(...) call if we have passed Logger()'s own parens
					if strings.Count(s[i:j+1], "(") >= 2 {
						break
					}
				}
			}
		}
		s = s[:i] + s[min(j+1, len(s)):]
	}
}

var _ = token.ADD
