package main

import "strings"

func genCfg(root, common, freelist *pkgInfo) string {
	var b strings.Builder
	b.WriteString("namespace Bolt.Gen\n\nend Bolt.Gen\n")
	return b.String()
}
