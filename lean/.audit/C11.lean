import Bolt.Props.C11
#print axioms Bolt.C11.metaValid_damaged
#print axioms Bolt.C11.metaValid_untouched
#print axioms Bolt.C11.pickMeta_one_damaged
#print axioms Bolt.C11.pickMeta_both_damaged
#print axioms Bolt.C11.open_both_damaged_is_error
#print axioms Bolt.C11.open_small_file_is_error
#print axioms Bolt.C11.pageSizeFromSecondAux_finds
#print axioms Bolt.C11.read_zero
#print axioms Bolt.C11.zero_probe_invalid
#print axioms Bolt.C11.open_meta0_damaged
#print axioms Bolt.C11.open_meta1_damaged
