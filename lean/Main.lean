import Bolt.Driver.Meta
import Bolt.Driver.FL
import Bolt.Driver.Api
import Bolt.Driver.Store
import Bolt.Driver.Grow
import Bolt.Driver.Cursor
import Bolt.Driver.Batch
import Bolt.Driver.Versions
import Bolt.Driver.Check
import Bolt.Driver.Reencode
import Bolt.Driver.Compact
import Bolt.Driver.Flock
import Bolt.Driver.Node
import Bolt.Driver.BTree
import Bolt.Driver.Bkt
import Bolt.Driver.Surgery
import Bolt.Driver.Backup
open Bolt.Driver

def main (args : List String) : IO UInt32 := do
  match args with
  | ["openmeta", path, os] => cmdOpenMeta path (parseNat os); return 0
  | ["fl"] => cmdFL; return 0
  | ["api"] => cmdApi false; return 0
  | ["store"] => cmdStore; return 0
  | ["grow"] => cmdGrow; return 0
  | ["cursor"] => cmdCursor; return 0
  | ["batch"] => cmdBatch; return 0
  | ["versions"] => cmdVersions; return 0
  | ["flock"] => cmdFlock; return 0
  | ["node"] => cmdNode; return 0
  | ["btree"] => cmdBTree; return 0
  | ["bkt"] => cmdBkt; return 0
  | ["compactmodel", path, os, limit] => cmdCompactModel path (parseNat os) (parseNat limit); return 0
  | ["surgery", cmd, inp, out, os] => cmdSurgery cmd inp out (parseNat os); return 0
  | ["compactcalls", path, os, limit] => cmdCompactCalls path (parseNat os) (parseNat limit); return 0
  | ["backup", src, out, ps, root, seq, fl, pgid, txid] =>
    cmdBackup src out (parseNat ps) (parseNat root) (parseNat seq) (parseNat fl) (parseNat pgid) (parseNat txid); return 0
  | ["metapage", out, ps, root, seq, fl, pgid, txid] =>
    cmdMetaPage out (parseNat ps) (parseNat root) (parseNat seq) (parseNat fl) (parseNat pgid) (parseNat txid); return 0
  | ["reencode", path, os] => cmdReencode path (parseNat os); return 0
  | ["checkmodel", path, os, kind] => cmdCheckModel path (parseNat os) kind; return 0
  | ["api-verbose"] => cmdApi true; return 0
  | ["decode", path, os] => cmdDecode path (parseNat os) false; return 0
  | ["decode-verbose", path, os] => cmdDecode path (parseNat os) true; return 0
  | _ => IO.eprintln "usage: boltmodel <cmd> ..."; return 2
