import Bolt.Driver.Meta
import Bolt.Driver.FL
open Bolt.Driver

def main (args : List String) : IO UInt32 := do
  match args with
  | ["openmeta", path, os] => cmdOpenMeta path (parseNat os); return 0
  | ["fl"] => cmdFL; return 0
  | _ => IO.eprintln "usage: boltmodel <cmd> ..."; return 2
