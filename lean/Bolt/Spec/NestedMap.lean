/-
Reference model for C04/C05/C15: a tree of byte-string-keyed ordered maps, each
with a counter.  Every API call is a total function returning the documented
error and the unchanged state on error.  Core-only.
-/
import Bolt.Model.Bytes
namespace Bolt

inductive SVal where
  | val (v : Bytes)
  | bkt (seq : Nat) (ents : List (Bytes × SVal))
deriving Repr, Inhabited

abbrev Ents := List (Bytes × SVal)

/-- lexicographic byte order (`bytes.Compare a b < 0`) -/
def Bytes.lt : Bytes → Bytes → Bool
  | [], [] => false
  | [], _ :: _ => true
  | _ :: _, [] => false
  | a :: as, b :: bs => if a < b then true else if b < a then false else Bytes.lt as bs

def SVal.isBucket : SVal → Bool
  | .bkt _ _ => true
  | .val _ => false

def entsLookup (e : Ents) (k : Bytes) : Option SVal := (e.find? (fun p => p.1 == k)).map (·.2)

/-- sorted insert-or-replace -/
def entsInsert (k : Bytes) (v : SVal) : Ents → Ents
  | [] => [(k, v)]
  | (k', v') :: r =>
    if k == k' then (k, v) :: r
    else if Bytes.lt k k' then (k, v) :: (k', v') :: r
    else (k', v') :: entsInsert k v r

def entsErase (k : Bytes) (e : Ents) : Ents := e.filter (fun p => !(p.1 == k))

/-- the bucket at `path` below `root` (`none`: some component missing or not a bucket) -/
def bucketAt : List Bytes → SVal → Option (Nat × Ents)
  | [], .bkt s e => some (s, e)
  | k :: ks, .bkt _ e =>
    match entsLookup e k with
    | some v => bucketAt ks v
    | none => none
  | _, .val _ => none

/-- replace the bucket at `path` -/
def setBucketAt : List Bytes → (Nat × Ents) → SVal → SVal
  | [], (s, e), .bkt _ _ => .bkt s e
  | k :: ks, new, .bkt s e => .bkt s (e.map (fun p => if p.1 == k then (p.1, setBucketAt ks new p.2) else p))
  | _, _, v => v

inductive ApiErr
  | txNotWritable | bucketNotFound | bucketExists | bucketNameRequired | keyRequired
  | keyTooLarge | valueTooLarge | incompatibleValue | sameBuckets
  | noBucket      -- harness level: the bucket path does not resolve
  | rootOp        -- harness level: key/value operation on the root bucket
  | moveIntoSelf  -- destination lies inside the moved bucket (spec: must be refused)
deriving Repr, DecidableEq

def ApiErr.name : ApiErr → String
  | .txNotWritable => "ErrTxNotWritable" | .bucketNotFound => "ErrBucketNotFound"
  | .bucketExists => "ErrBucketExists" | .bucketNameRequired => "ErrBucketNameRequired"
  | .keyRequired => "ErrKeyRequired" | .keyTooLarge => "ErrKeyTooLarge"
  | .valueTooLarge => "ErrValueTooLarge" | .incompatibleValue => "ErrIncompatibleValue"
  | .sameBuckets => "ErrSameBuckets" | .noBucket => "nobucket" | .rootOp => "rootop"
  | .moveIntoSelf => "MoveIntoSelf"

def maxKeySize : Nat := 32768
def maxValueSize : Nat := 2147483646

/-! Each mutating call: `Except ApiErr SVal` = error with the state unchanged, or the new root. -/

def apiPut (root : SVal) (path : List Bytes) (k v : Bytes) : Except ApiErr SVal :=
  match bucketAt path root with
  | none => .error .noBucket
  | some (s, e) =>
    if path.isEmpty then .error .rootOp
    else if k.isEmpty then .error .keyRequired
    else if k.length > maxKeySize then .error .keyTooLarge
    else if v.length > maxValueSize then .error .valueTooLarge
    else match entsLookup e k with
      | some (.bkt _ _) => .error .incompatibleValue
      | _ => .ok (setBucketAt path (s, entsInsert k (.val v) e) root)

/-- `Get`: `none` for a missing key or a nested bucket -/
def apiGet (root : SVal) (path : List Bytes) (k : Bytes) : Except ApiErr (Option Bytes) :=
  match bucketAt path root with
  | none => .error .noBucket
  | some (_, e) =>
    if path.isEmpty then .error .rootOp
    else match entsLookup e k with
      | some (.val v) => .ok (some v)
      | _ => .ok none

def apiDelete (root : SVal) (path : List Bytes) (k : Bytes) : Except ApiErr SVal :=
  match bucketAt path root with
  | none => .error .noBucket
  | some (s, e) =>
    if path.isEmpty then .error .rootOp
    else match entsLookup e k with
      | none => .ok root
      | some (.bkt _ _) => .error .incompatibleValue
      | some (.val _) => .ok (setBucketAt path (s, entsErase k e) root)

def apiCreateBucket (root : SVal) (path : List Bytes) (k : Bytes) (ifNotExists : Bool) : Except ApiErr SVal :=
  match bucketAt path root with
  | none => .error .noBucket
  | some (s, e) =>
    if k.isEmpty then .error .bucketNameRequired
    else match entsLookup e k with
      | some (.bkt _ _) => if ifNotExists then .ok root else .error .bucketExists
      | some (.val _) => .error .incompatibleValue
      | none => .ok (setBucketAt path (s, entsInsert k (.bkt 0 []) e) root)

def apiDeleteBucket (root : SVal) (path : List Bytes) (k : Bytes) : Except ApiErr SVal :=
  match bucketAt path root with
  | none => .error .noBucket
  | some (s, e) =>
    match entsLookup e k with
    | none => .error .bucketNotFound
    | some (.val _) => .error .incompatibleValue
    | some (.bkt _ _) => .ok (setBucketAt path (s, entsErase k e) root)

def isPrefixOf (p q : List Bytes) : Bool :=
  match p, q with
  | [], _ => true
  | _ :: _, [] => false
  | a :: p', b :: q' => a == b && isPrefixOf p' q'

def apiMoveBucket (root : SVal) (src : List Bytes) (k : Bytes) (dst : List Bytes) : Except ApiErr SVal :=
  match bucketAt src root, bucketAt dst root with
  | none, _ => .error .noBucket
  | _, none => .error .noBucket
  | some (s, e), some (_, de) =>
    match entsLookup e k with
    | none => .error .bucketNotFound
    | some (.val _) => .error .incompatibleValue
    | some (.bkt ms me) =>
      if src == dst then .error .sameBuckets
      else match entsLookup de k with
        | some (.bkt _ _) => .error .bucketExists
        | some (.val _) => .error .incompatibleValue
        | none =>
          if isPrefixOf (src ++ [k]) dst then .error .sameBuckets
          else
            let r1 := setBucketAt src (s, entsErase k e) root
            match bucketAt dst r1 with
            | none => .error .noBucket
            | some (ds, de1) => .ok (setBucketAt dst (ds, entsInsert k (.bkt ms me) de1) r1)

def apiSequence (root : SVal) (path : List Bytes) : Except ApiErr Nat :=
  match bucketAt path root with
  | none => .error .noBucket
  | some (s, _) => if path.isEmpty then .error .rootOp else .ok s

def apiSetSequence (root : SVal) (path : List Bytes) (n : Nat) : Except ApiErr SVal :=
  match bucketAt path root with
  | none => .error .noBucket
  | some (_, e) => if path.isEmpty then .error .rootOp else .ok (setBucketAt path (n, e) root)

def apiNextSequence (root : SVal) (path : List Bytes) : Except ApiErr (SVal × Nat) :=
  match bucketAt path root with
  | none => .error .noBucket
  | some (s, e) =>
    if path.isEmpty then .error .rootOp
    else .ok (setBucketAt path ((s + 1) % 2^64, e) root, (s + 1) % 2^64)

/-! ### cursor over a bucket's key list (C05): a sorted list with a position -/

structure CurSpec where
  keys : List (Bytes × Option Bytes)   -- key, value (none = nested bucket), ascending
  pos : Option Nat                      -- none: not positioned yet; may equal keys.length (past the end)
deriving Inhabited

def entsView (e : Ents) : List (Bytes × Option Bytes) :=
  e.map (fun p => (p.1, match p.2 with | .val v => some v | .bkt _ _ => none))

def CurSpec.at (c : CurSpec) (i : Nat) : Option (Bytes × Option Bytes) := c.keys[i]?

def CurSpec.first (c : CurSpec) : CurSpec × Option (Bytes × Option Bytes) :=
  ({ c with pos := some 0 }, c.at 0)

def CurSpec.last (c : CurSpec) : CurSpec × Option (Bytes × Option Bytes) :=
  if c.keys.isEmpty then ({ c with pos := some 0 }, none)
  else ({ c with pos := some (c.keys.length - 1) }, c.at (c.keys.length - 1))

def CurSpec.next (c : CurSpec) : CurSpec × Option (Bytes × Option Bytes) :=
  match c.pos with
  | none => (c, none)
  | some i => if i + 1 < c.keys.length then ({ c with pos := some (i+1) }, c.at (i+1)) else (c, none)

def CurSpec.prev (c : CurSpec) : CurSpec × Option (Bytes × Option Bytes) :=
  match c.pos with
  | none => (c, none)
  | some i => if 0 < i then ({ c with pos := some (i-1) }, c.at (i-1)) else ({ c with pos := some 0 }, none)

def CurSpec.seek (c : CurSpec) (k : Bytes) : CurSpec × Option (Bytes × Option Bytes) :=
  let i := (c.keys.takeWhile (fun p => Bytes.lt p.1 k)).length
  ({ c with pos := some i }, c.at i)

end Bolt
