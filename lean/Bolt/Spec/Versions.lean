/-
Serial specification of transactions over a versioned store (C03): committed write
transactions have consecutive ids; a transaction with id `t` sees exactly the effects of
the committed writers with smaller id (a writer) or id ≤ t (a reader).  Instantiated for
the harness' workload: every committed writer increments one counter.
-/
namespace Bolt.Versions

structure TxRec where
  writer : Bool
  txid : Nat
  read : Nat          -- the counter value the transaction observed
  committed : Bool    -- writers only
  inc : Bool          -- writers only: the body incremented the counter (Batch functions sharing a transaction do not)
deriving Repr, DecidableEq

/-- the counter value that a serial execution in id order shows to transaction `r` -/
def expected (log : List TxRec) (firstId : Nat) (r : TxRec) : Nat :=
  let commits := log.filter (fun x => x.writer && x.committed && x.inc)
  if r.writer then (commits.filter (fun x => x.txid < r.txid)).length
  else (commits.filter (fun x => x.txid ≤ r.txid)).length

/-- committed writer ids are consecutive starting at `firstId` -/
def consecutive (log : List TxRec) (firstId : Nat) : Bool :=
  let ids := ((log.filter (fun x => x.writer && x.committed)).map (·.txid)).eraseDups
  (List.range ids.length).all (fun i => ids.contains (firstId + i)) &&
  ids.all (fun t => firstId ≤ t ∧ t < firstId + ids.length)

/-- first record that a serial execution cannot explain -/
def firstBad (log : List TxRec) (firstId : Nat) : Option TxRec :=
  log.find? (fun r => r.read != expected log firstId r)

end Bolt.Versions
