/-
The published bbolt/boltdb file format, version 2 — written by hand from the
format documentation, *not* derived from the Go structs. `Props/C12.lean` proves
the regenerated `Gen.Layout`/`Gen.Consts` equal to it; the Lean decoder
(`Model/Format.lean`) uses only these numbers.
-/
namespace Bolt.V2

def magic : Nat := 0xED0CDAED
def version : Nat := 2
def pgidNoFreelist : Nat := 0xFFFFFFFFFFFFFFFF

def branchPageFlag : Nat := 0x01
def leafPageFlag : Nat := 0x02
def metaPageFlag : Nat := 0x04
def freelistPageFlag : Nat := 0x10
def bucketLeafFlag : Nat := 0x01

def pageHeaderSize : Nat := 16
def elemSize : Nat := 16          -- branch and leaf elements are both 16 bytes
def bucketHeaderSize : Nat := 16
def metaSize : Nat := 64
def metaChecksumLen : Nat := 56   -- checksum covers every meta field before itself

/-- page header: id u64 @0, flags u16 @8, count u16 @10, overflow u32 @12 -/
def pageLayout : List (String × Nat × Nat) :=
  [("id", 0, 8), ("flags", 8, 2), ("count", 10, 2), ("overflow", 12, 4)]
/-- meta (follows the page header) -/
def metaLayout : List (String × Nat × Nat) :=
  [("magic", 0, 4), ("version", 4, 4), ("pageSize", 8, 4), ("flags", 12, 4),
   ("root.root", 16, 8), ("root.sequence", 24, 8), ("freelist", 32, 8),
   ("pgid", 40, 8), ("txid", 48, 8), ("checksum", 56, 8)]
def branchElemLayout : List (String × Nat × Nat) :=
  [("pos", 0, 4), ("ksize", 4, 4), ("pgid", 8, 8)]
def leafElemLayout : List (String × Nat × Nat) :=
  [("flags", 0, 4), ("pos", 4, 4), ("ksize", 8, 4), ("vsize", 12, 4)]
def inBucketLayout : List (String × Nat × Nat) :=
  [("root", 0, 8), ("sequence", 8, 8)]

end Bolt.V2
