import Bolt.Model.Grow
namespace Bolt.Driver
open Bolt Bolt.Grow

def intList (s : String) : List Int :=
  if s == "-" || s == "" then [] else (s.splitOn ",").map (fun x => x.toInt?.getD 0)

def growStep (line : String) : String :=
  match line.splitOn " " with
  | ["mmapSize", ps, size] =>
    match Gen.mmapSize ps.toInt! size.toInt! with
    | some m => s!"some {m}" | none => "none"
  | ["growSize", a, m, g] => toString (Gen.growSize a.toInt! m.toInt! g.toInt!)
  | ["commit", ps, alloc, mx, fs, ds, ms] =>
    let P : Params := { pageSize := ps.toInt!, allocSize := alloc.toInt!, maxSize := mx.toInt! }
    match commitGrow P { fileSize := fs.toInt!, datasz := ds.toInt! } (intList ms) with
    | .ok g => s!"ok {g.fileSize} {g.datasz}"
    | .error .maxSizeReached => "err maxsize"
    | .error .mmapTooLarge => "err mmap"
  | _ => "bad-op"

partial def growLoop (h out : IO.FS.Stream) : IO Unit := do
  let line ← h.getLine
  if line.isEmpty then return ()
  out.putStrLn (growStep line.trimAscii.toString)
  growLoop h out

def cmdGrow : IO Unit := do
  let out ← IO.getStdout
  growLoop (← IO.getStdin) out
  out.flush

end Bolt.Driver
