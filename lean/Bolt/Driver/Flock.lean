import Bolt.Model.Flock
namespace Bolt.Driver
open Bolt.Flock

def flockStep (s : LockSt) (line : String) : LockSt × String :=
  match line.splitOn " " with
  | ["open", id, mode] =>
    match openDb s id.toNat! (mode == "ro") with
    | some s' => (s', "granted")
    | none => (s, "refused")
  | ["close", id] => (closeDb s id.toNat!, "ok")
  | _ => (s, "bad-op")

partial def flockLoop (h out : IO.FS.Stream) (s : LockSt) : IO Unit := do
  let line ← h.getLine
  if line.isEmpty then return ()
  let (s', o) := flockStep s line.trimAscii.toString
  out.putStrLn o
  flockLoop h out s'

def cmdFlock : IO Unit := do
  let out ← IO.getStdout
  flockLoop (← IO.getStdin) out []
  out.flush

end Bolt.Driver
