import Bolt.Spec.Versions
namespace Bolt.Driver
open Bolt.Versions

/-- input: first line `first <id>`, then `w <txid> <read> <0|1>` / `r <txid> <read>`, then `end` -/
partial def versionsLoop (h out : IO.FS.Stream) (first : Nat) (log : List TxRec) : IO Unit := do
  let line ← h.getLine
  if line.isEmpty then return ()
  match line.trimAscii.toString.splitOn " " with
  | ["first", n] => versionsLoop h out n.toNat! log
  | ["w", t, r, c, i] => versionsLoop h out first ({ writer := true, txid := t.toNat!, read := r.toNat!, committed := c == "1", inc := i == "1" } :: log)
  | ["r", t, r] => versionsLoop h out first ({ writer := false, txid := t.toNat!, read := r.toNat!, committed := false, inc := false } :: log)
  | ["end"] =>
    let log := log.reverse
    let c := consecutive log first
    match firstBad log first with
    | none => out.putStrLn s!"serial=ok consecutive={c}"
    | some r => out.putStrLn s!"serial=bad consecutive={c} writer={r.writer} txid={r.txid} read={r.read} expected={expected log first r}"
    versionsLoop h out first []
  | _ => out.putStrLn "bad-op"; versionsLoop h out first log

def cmdVersions : IO Unit := do
  let out ← IO.getStdout
  versionsLoop (← IO.getStdin) out 0 []
  out.flush

end Bolt.Driver
