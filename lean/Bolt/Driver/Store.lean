import Bolt.Model.Store
import Bolt.Driver.FL
namespace Bolt.Driver
open Bolt.FL Bolt.Store

def kindOf (s : String) : Kind := if s == "hashmap" then .hashmap else .array

def storeStep (s : St) (line : String) : St × String :=
  let ev (e : Ev) : St × String :=
    match stepAll s e with
    | some s' => (s', "ok")
    | none => (s, "reject")
  match line.splitOn " " with
  | ["init", k] => (Store.init (kindOf k), "ok")
  | ["beginR"] => ev .beginR
  | ["endR", t] => ev (.endR t.toNat!)
  | ["beginW"] => ev .beginW
  | ["alloc", n, c] => ev (.alloc n.toNat! c.toNat!)
  | ["free", id, o] => ev (.free id.toNat! o.toNat!)
  | ["commit"] => ev .commit
  | ["rollback"] => ev .rollback
  | ["failedCommit"] => ev .failedCommit
  | ["reopen", k] => ev (.reopen (kindOf k))
  | ["used"] => (s, s!"txid={s.cur.txid} hwm={s.cur.hwm} used={showList (sortNat s.cur.used)}")
  | ["fl"] => (s, flState s.fl)
  | ["writer"] => match s.w with
      | none => (s, "none")
      | some w => (s, s!"txid={w.txid} hwm={w.hwm} allocated={showList (sortNat w.allocated)} freed={showList (sortNat w.freed)}")
  | _ => (s, "bad-op")

partial def storeLoop (h out : IO.FS.Stream) (s : St) : IO Unit := do
  let line ← h.getLine
  if line.isEmpty then return ()
  let (s', o) := storeStep s line.trimAscii.toString
  out.putStrLn o
  storeLoop h out s'

def cmdStore : IO Unit := do
  let out ← IO.getStdout
  storeLoop (← IO.getStdin) out (Store.init .array)
  out.flush

end Bolt.Driver
