import Bolt.Model.Batch
import Bolt.Driver.FL
namespace Bolt.Driver
open Bolt.Batch

structure BatchSt where
  s : St := start []
  scripts : List (Nat × List Outcome) := []
  calls : List Nat := []

def scriptOf (b : BatchSt) : Id → Nat → Outcome := fun c n =>
  match b.scripts.find? (·.1 == c) with
  | none => .ok
  | some (_, l) => l.getD n .ok

def parseOutcomes (s : String) : List Outcome :=
  s.toList.map (fun ch => if ch == 'f' then Outcome.fail else if ch == 'p' then Outcome.panic else Outcome.ok)

def resStr : Option Res → String
  | none => "waiting" | some .nil => "nil" | some .err => "err"

def batchStep (b : BatchSt) (line : String) : BatchSt × String :=
  match line.splitOn " " with
  | ["start", cs] => let calls := natList cs; ({ b with s := start calls, calls := calls }, "ok")
  | ["script", c, os] => ({ b with scripts := (c.toNat!, parseOutcomes os) :: b.scripts }, "ok")
  | ["batch", ok] =>
    let before := b.s
    let after := batchAttempt (scriptOf b) (ok == "1") before
    -- who was invoked in this attempt, in order: queue members whose invocation count grew
    let invoked := before.queue.filter (fun c => after.inv c > before.inv c)
    ({ b with s := after }, s!"invoked={showList invoked} queue={showList after.queue} solo={showList after.solo}")
  | ["solo", c, ok] =>
    let c := c.toNat!
    if c ∈ b.s.solo then ({ b with s := soloAttempt (scriptOf b) (ok == "1") c b.s }, "ok") else (b, "not-solo")
  | ["final"] =>
    (b, " ".intercalate (b.calls.map (fun c => s!"{c}:{resStr (b.s.result c)}:{b.s.applied c}")))
  | _ => (b, "bad-op")

partial def batchLoop (h out : IO.FS.Stream) (b : BatchSt) : IO Unit := do
  let line ← h.getLine
  if line.isEmpty then return ()
  let (b', o) := batchStep b line.trimAscii.toString
  out.putStrLn o
  batchLoop h out b'

def cmdBatch : IO Unit := do
  let out ← IO.getStdout
  batchLoop (← IO.getStdin) out {}
  out.flush

end Bolt.Driver
