import Bolt.Model.Freelist
namespace Bolt.Driver
open Bolt.FL

def natList (s : String) : List Nat :=
  if s == "-" || s == "" then [] else (s.splitOn ",").map (fun x => x.toNat?.getD 0)

def showList (l : List Nat) : String :=
  if l.isEmpty then "-" else ",".intercalate (l.map toString)

def insertBy (key : α → Nat) (x : α) : List α → List α
  | [] => [x]
  | y :: ys => if key x ≤ key y then x :: y :: ys else y :: insertBy key x ys

def sortBy (key : α → Nat) (l : List α) : List α := l.foldr (insertBy key) []

def showPending (f : FL) : String :=
  let ents := sortBy (fun p => p.1) f.pending
  if ents.isEmpty then "-" else
  ";".intercalate (ents.map (fun p =>
    s!"{p.1}:" ++ "+".intercalate ((sortBy (fun q => q.1) p.2.ids).map (fun q => s!"{q.1}/{q.2}"))))

def flState (f : FL) : String :=
  s!"free={showList f.freeIds} pend={showPending f} fc={f.freeCount} pc={f.pendingCount} est={f.estimatedWritePageSize}"

/-- one protocol line; returns new state and output -/
def flStep (f : FL) (line : String) : FL × String :=
  match line.splitOn " " with
  | ["new", "array"] => (FL.empty .array, "ok")
  | ["new", "hashmap"] => (FL.empty .hashmap, "ok")
  | ["init", ids] => match f.init (natList ids) with
      | some g => (g, "ok") | none => (f, "panic")
  | ["alloc", t, n, c] => match f.allocate t.toNat! n.toNat! c.toNat! with
      | some (g, id) => (g, toString id) | none => (f, "illegal")
  | ["free", t, id, o] => match f.free t.toNat! id.toNat! o.toNat! with
      | some g => (g, "ok") | none => (f, "panic")
  | ["rollback", t] => match f.rollback t.toNat! with
      | some g => (g, "ok") | none => (f, "panic")
  | ["addr", t] => (f.addReader t.toNat!, "ok")
  | ["rmr", t] => (f.removeReader t.toNat!, "ok")
  | ["release"] => (f.releasePending, "ok")
  | ["state"] => (f, flState f)
  | ["write"] => let (c, arr) := f.write; (f, s!"{c} {showList arr}")
  | ["read", c, arr] => match f.read c.toNat! (natList arr) with
      | some g => (g, "ok") | none => (f, "panic")
  | ["reload", c, arr] => match f.reload c.toNat! (natList arr) with
      | some g => (g, "ok") | none => (f, "panic")
  | ["nosync", ids] => match f.noSyncReload (natList ids) with
      | some g => (g, "ok") | none => (f, "panic")
  | _ => (f, "bad-op")

partial def flLoop (h : IO.FS.Stream) (out : IO.FS.Stream) (f : FL) : IO Unit := do
  let line ← h.getLine
  if line.isEmpty then return ()
  let (g, o) := flStep f line.trimAscii.toString
  out.putStrLn o
  flLoop h out g

def cmdFL : IO Unit := do
  let out ← IO.getStdout
  flLoop (← IO.getStdin) out (FL.empty .array)
  out.flush

end Bolt.Driver
