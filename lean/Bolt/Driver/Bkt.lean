import Bolt.Model.BktInv
import Bolt.Driver.BTree
namespace Bolt.Driver
open Bolt Bolt.BTree Bolt.Bkt

/-- parse `K <root> <seq> <tree> <n> {<hexname> <K…>}*n` (written by `Bucket.VerifBucketTree`) -/
partial def parseBk : List String → Option (Bk × List String)
  | "K" :: r :: s :: rest =>
    match parseN rest with
    | none => none
    | some (t, n :: rest') =>
      let rec kids (k : Nat) (toks : List String) (acc : List (Bytes × Bk)) : Option (List (Bytes × Bk) × List String) :=
        match k, toks with
        | 0, tk => some (acc.reverse, tk)
        | k+1, name :: tk =>
          match parseBk tk with
          | some (c, tk') => kids k tk' ((unhex name, c) :: acc)
          | none => none
        | _, _ => none
      (kids n.toNat! rest' []).map (fun (ks, tk) => (Bk.mk r.toNat! s.toNat! t ks, tk))
    | _ => none
  | _ => none

partial def showBk : Bk → String
  | .mk r s t o =>
    s!"K {r} {s} " ++ showN t ++ s!"{o.length} " ++ String.join (o.map (fun p => hexOrDash p.1 ++ " " ++ showBk p.2))

structure BkSt where
  orig : Bk := emptyInline
  cur : Option Bk := none
  ps : Nat := 4096
  sth : Nat := 2048
  rth : Nat := 1024
  spec : SVal := .bkt 0 []     -- the reference model's state, advanced by the api* functions

def parseBPath (s : String) : List Bytes := if s == "." then [] else (s.splitOn "/").map unhex

def bkStep (s : BkSt) (line : String) : BkSt × String :=
  -- the abstraction of the model state must equal the reference model's state after every step
  let agree (b : Bk) (sp : SVal) : String := if dumpSVal (absTop Bkt.fuel s.orig b) == dumpSVal sp then " a=true" else " a=false"
  let at_ (path : String) (f : Bk → Option Bk) (no : String) (sf : SVal → List Bytes → Except ApiErr SVal) : BkSt × String :=
    match s.cur with
    | none => (s, "none")
    | some b =>
      let sp' := match sf s.spec (topName :: parseBPath path) with | .ok v => v | .error _ => s.spec
      match modifyBk f (parseBPath path) b with
      | some b' => ({ s with cur := some b', spec := sp' }, "ok")
      | none => ({ s with spec := sp' }, no)
  match line.splitOn " " with
  | "orig" :: toks =>
    match parseBk (toks.filter (· ≠ "")) with
    | some (b, _) =>
      let sp := absTop Bkt.fuel b (closeAll b)
      -- the first hand-over initialises the reference state; later ones must agree with it
      let first := dumpSVal s.spec == dumpSVal (SVal.bkt 0 [])
      let sp' := if first then sp else s.spec
      ({ s with orig := b, cur := some (closeAll b), spec := sp' }, "ok" ++ (if dumpSVal sp == dumpSVal sp' then " a=true" else " a=false") ++ s!" o={origOk Bkt.fuel b} w={decide (WF Bkt.fuel b (closeAll b))} z={inlZeroOk Bkt.fuel b}")
    | none => ({ s with cur := none }, "bad-bucket-tree")
  | ["cfg", ps, sth, rth] => ({ s with ps := ps.toNat!, sth := sth.toNat!, rth := rth.toNat! }, "ok")
  | ["open", path, name] => at_ path (openAt Bkt.fuel s.orig (parseBPath path) (unhex name)) "nil" (fun r _ => .ok r)
  | ["mk", path, name] => at_ path (createAt Bkt.fuel (unhex name)) "refused" (fun r p => apiCreateBucket r p (unhex name) false)
  | ["rm", path, name] => at_ path (deleteAt Bkt.fuel (unhex name)) "refused" (fun r p => apiDeleteBucket r p (unhex name))
  | ["put", path, k, v] => at_ path (putAt Bkt.fuel (unhex k) (unval v)) "none" (fun r p => apiPut r p (unhex k) (unval v))
  | ["del", path, k] => at_ path (delAt Bkt.fuel (unhex k)) "none" (fun r p => apiDelete r p (unhex k))
  | ["seq", path, n] => at_ path (setSeqAt n.toNat!) "none" (fun r p => apiSetSequence r p n.toNat!)
  | ["nseq", path] => at_ path nextSeqAt "none" (fun r p => (apiNextSequence r p).map (·.1))
  | ["get", path, k] =>
    (s, match s.cur.bind (bkAt (parseBPath path)) with
        | some b => (match getAt Bkt.fuel (unhex k) b with | some v => "v:" ++ valStr v | none => "nil")
        | none => "none")
  | ["mv", src, k, dst] =>
    match s.cur with
    | none => (s, "none")
    | some b =>
      let sp' := match apiMoveBucket s.spec (topName :: parseBPath src) (unhex k) (topName :: parseBPath dst) with | .ok v => v | .error _ => s.spec
      match moveAt Bkt.fuel (parseBPath src) (unhex k) (parseBPath dst) b with
      | some b' => ({ s with cur := some b', spec := sp' }, "ok")
      | none => ({ s with spec := sp' }, "refused")
  | ["dump"] => (s, match s.cur with | some b => showBk b | none => "none")
  | ["agree"] => (s, match s.cur with | some b => (agree b s.spec).trimAscii.toString ++ s!" w={decide (WF Bkt.fuel s.orig b)}" | none => "none")
  | ["fullok"] => (s, match s.cur with | some b => s!"o={origShapeOk Bkt.fuel (full s.orig Bkt.fuel [] b)}" | none => "none")
  | [cmd, order] =>
    if cmd != "commit" && cmd != "commitroot" then (s, "bad-op") else
    match s.cur with
    | none => (s, "none")
    | some b =>
      let ord := if order == "-" then [] else (order.splitOn ",").map String.toNat!
      match (if cmd == "commit" then commitBk s.ps s.sth s.rth Bkt.fuel ord b else commitRoot s.ps s.sth s.rth Bkt.fuel ord b) with
      | some b' => ({ s with cur := some b' }, "ok" ++ agree b' s.spec)
      | none => ({ s with cur := none }, "none")
  | ["full"] => (s, match s.cur with | some b => showBk (full s.orig Bkt.fuel [] b) | none => "none")
  | _ => (s, "bad-op")

partial def bkLoop (h out : IO.FS.Stream) (s : BkSt) : IO Unit := do
  let line ← h.getLine
  if line.isEmpty then return ()
  let (s', o) := bkStep s line.trimAscii.toString
  out.putStrLn o
  bkLoop h out s'

def cmdBkt : IO Unit := do
  let out ← IO.getStdout
  bkLoop (← IO.getStdin) out {}
  out.flush

end Bolt.Driver
