import Bolt.Model.Backup
import Bolt.Model.MetaWrite
import Bolt.Driver.Meta
namespace Bolt.Driver
open Bolt Bolt.Backup

/-- `backup <src> <out> <ps> <root> <seq> <freelist> <pgid> <txid>`: the model of `Tx.WriteTo`
    for a read transaction with that meta on the bytes of `src`; writes the result to `out`. -/
def cmdBackup (src out : String) (ps root seq fl pgid txid : Nat) : IO Unit := do
  let ba ← IO.FS.readBinFile src
  let f := fileOfBytes ba
  if pgid < 2 then IO.println "err pgid below 2 is not modelled" else
  let bs := backupBytes f ps (txMeta ps root seq fl pgid txid)
  IO.FS.writeBinFile out (ByteArray.mk bs.toArray)
  IO.println s!"ok bytes={bs.length}"

/-- `metapage <out> <ps> <root> <seq> <freelist> <pgid> <txid>`: the page `Tx.writeMeta` writes
    for a transaction with that meta (`MetaWrite.metaPageOf`); prints the slot it goes to. -/
def cmdMetaPage (out : String) (ps root seq fl pgid txid : Nat) : IO Unit := do
  let m := txMeta ps root seq fl pgid txid
  let bs := MetaWrite.metaPageOf ps m
  IO.FS.writeBinFile out (ByteArray.mk bs.toArray)
  IO.println s!"ok slot={txid % 2} bytes={bs.length}"

end Bolt.Driver
