import Bolt.Model.Backup
import Bolt.Driver.Meta
namespace Bolt.Driver
open Bolt Bolt.Backup

/-- `backup <src> <out> <ps> <root> <seq> <freelist> <pgid> <txid>`: the model of `Tx.WriteTo`
    for a read transaction with that meta on the bytes of `src`; writes the result to `out`. -/
def cmdBackup (src out : String) (ps root seq fl pgid txid : Nat) : IO Unit := do
  let ba ← IO.FS.readBinFile src
  let f := fileOfBytes ba
  if pgid < 2 then IO.println "err pgid below 2 is not modelled" else
  let bs := backupBytes f ps (txMeta ps root seq fl pgid txid)
  IO.FS.writeBinFile out (ByteArray.mk bs.toArray)
  IO.println s!"ok bytes={bs.length}"

end Bolt.Driver
