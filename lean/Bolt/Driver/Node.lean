import Bolt.Model.Node
import Bolt.Driver.Api
import Bolt.Driver.FL
namespace Bolt.Driver
open Bolt Bolt.Node

def parseEls (s : String) : List El :=
  if s == "-" then [] else (s.splitOn ",").map (fun p => match p.splitOn ":" with
    | [k, v] => (k.toNat!, v.toNat!) | _ => (0, 0))

def nodeStep (line : String) : String :=
  match line.splitOn " " with
  | ["split", ps, th, els] =>
    let l := parseEls els
    showList ((split ps.toNat! th.toNat! l.length l).map (·.length))
  | ["size", els] => toString (nodeSize (parseEls els))
  | ["inline", ps, hasB, els] =>
    let l := parseEls els
    let n := l.length
    let tagged := (List.range n).map (fun i => (l.getD i (0,0), hasB == "1" && i + 1 == n))
    toString (inlineable ps.toNat! tagged)
  | "putdel" :: ops =>
    let keys := ops.foldl (fun ks o =>
      if o.startsWith "d" then del ks (unhex (o.drop 1).toString) else put ks (unhex (o.drop 1).toString)) []
    if keys.isEmpty then "-" else ",".intercalate (keys.map hexOf)
  | _ => "bad-op"

partial def nodeLoop (h out : IO.FS.Stream) : IO Unit := do
  let line ← h.getLine
  if line.isEmpty then return ()
  out.putStrLn (nodeStep line.trimAscii.toString)
  nodeLoop h out

def cmdNode : IO Unit := do
  let out ← IO.getStdout
  nodeLoop (← IO.getStdin) out
  out.flush

end Bolt.Driver
