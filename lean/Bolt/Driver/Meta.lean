/-
Line-protocol driver: runs the model's executable definitions on inputs produced
by the Go harness. Core-only (links as `lean_exe boltmodel`).
-/
import Bolt.Model.Meta
namespace Bolt.Driver
open Bolt

def fileOfBytes (ba : ByteArray) : File :=
  { size := ba.size, get := fun i => if h : i < ba.size then ba[i] else 0 }

def parseNat (s : String) : Nat := s.trimAscii.toString.toNat?.getD 0

/-- apply "pos:val,pos:val" overlays -/
def applyMuts (f : File) (s : String) : File :=
  if s == "-" then f else
  (s.splitOn ",").foldl (fun f m =>
    match m.splitOn ":" with
    | [p, v] => f.set (parseNat p) (UInt8.ofNat (parseNat v))
    | _ => f) f

def showOpen (f : File) (os : Nat) : String :=
  match openMeta f os with
  | .ok (ps, off) => s!"ok {ps} {(metaAt f off).txid} {(metaAt f off).root} {(metaAt f off).pgid}"
  | .error .invalid => "err invalid"
  | .error .tooSmall => "err toosmall"
  | .error .bothInvalid => "err bothinvalid"

/-- decidable version of `C11.CleanFile` for a given page size -/
def cleanFileCheck (f : File) (ps : Nat) : Bool :=
  (List.range 15).any (fun k => 1024 <<< k == ps) &&
  4 * ps ≤ f.size && metaValid f 16 && metaValid f (ps + 16) &&
  f.u32 (16+8) == ps && f.u32 (ps+16+8) == ps &&
  (List.range (ps - 80)).all (fun i => f.get (80 + i) == 0)

partial def loopLines (h : IO.FS.Stream) (fn : String → IO Unit) : IO Unit := do
  let line ← h.getLine
  if line.isEmpty then return ()
  fn (line.trimAscii.toString)
  loopLines h fn

def cmdOpenMeta (path : String) (os : Nat) : IO Unit := do
  let ba ← IO.FS.readBinFile path
  let f := fileOfBytes ba
  let stdin ← IO.getStdin
  let out ← IO.getStdout
  loopLines stdin fun line => do
    match line.splitOn " " with
    | ["clean", ps] => out.putStrLn (if cleanFileCheck f (parseNat ps) then "clean yes" else "clean no")
    | ["mut", m] => out.putStrLn (showOpen (applyMuts f m) os)
    | _ => out.putStrLn "bad-op"
  out.flush

end Bolt.Driver
