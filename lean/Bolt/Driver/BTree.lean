import Bolt.Model.BTreeInv
import Bolt.Driver.Api
namespace Bolt.Driver
open Bolt Bolt.BTree

/-- value token: hex, `-`, or `*<len>:<hh>` (one byte repeated) -/
def unval (s : String) : Bytes :=
  if s.startsWith "*" then
    match (s.drop 1).toString.splitOn ":" with
    | [n, hh] => List.replicate n.toNat! ((unhex hh).headD 0)
    | _ => []
  else unhex s

def valStr (v : Bytes) : String :=
  match v with
  | [] => "-"
  | b :: _ => if v.length > 32 ∧ v.all (· == b) then s!"*{v.length}:{hexOf [b]}" else hexOf v

def hexOrDash (b : Bytes) : String := if b.isEmpty then "-" else hexOf b

/-- parse the prefix form written by `Bucket.VerifNodeTree` -/
partial def parseN : List String → Option (N × List String)
  | "L" :: pg :: mat :: unb :: key :: n :: rest =>
    let h : Hd := { pgid := pg.toNat!, mat := mat == "1", unb := unb == "1", key := unhex key }
    let rec items (k : Nat) (toks : List String) (acc : List Item) : Option (List Item × List String) :=
      match k, toks with
      | 0, t => some (acc.reverse, t)
      | k+1, key :: val :: fl :: t => items k t ({ key := unhex key, val := unval val, flags := fl.toNat! } :: acc)
      | _, _ => none
    (items n.toNat! rest []).map (fun (is, t) => (N.leaf h is, t))
  | "B" :: pg :: mat :: unb :: key :: n :: rest =>
    let h : Hd := { pgid := pg.toNat!, mat := mat == "1", unb := unb == "1", key := unhex key }
    let rec kids (k : Nat) (toks : List String) (acc : List (Bytes × N)) : Option (List (Bytes × N) × List String) :=
      match k, toks with
      | 0, t => some (acc.reverse, t)
      | k+1, sep :: t =>
        match parseN t with
        | some (c, t') => kids k t' ((unhex sep, c) :: acc)
        | none => none
      | _, _ => none
    (kids n.toNat! rest []).map (fun (ks, t) => (N.branch h ks, t))
  | _ => none

def bit (b : Bool) : String := if b then "1" else "0"

partial def showN : N → String
  | .leaf h items =>
    s!"L {h.pgid} {bit h.mat} {bit h.unb} {hexOrDash h.key} {items.length} " ++
      String.join (items.map (fun i => s!"{hexOrDash i.key} {valStr i.val} {i.flags} "))
  | .branch h kids =>
    s!"B {h.pgid} {bit h.mat} {bit h.unb} {hexOrDash h.key} {kids.length} " ++
      String.join (kids.map (fun p => hexOrDash p.1 ++ " " ++ showN p.2))

structure BtSt where
  t : Option N := none      -- none: the model left its domain (Go would have corrupted the tree)
  ps : Nat := 4096
  sth : Nat := 2048
  rth : Nat := 1024

def btFuel : Nat := 64

def btStep (s : BtSt) (line : String) : BtSt × String :=
  let upd (r : Option N) : BtSt × String := ({ s with t := r }, if r.isSome then "ok" else "none")
  -- replies that also evaluate the decidable invariants on the model's current tree
  let updI (r : Option N) : BtSt × String :=
    ({ s with t := r }, match r with | some t => s!"ok i={decide (InTx t)} r={decide (InTxR t)}" | none => "none")
  let updC (r : Option N) : BtSt × String :=
    ({ s with t := r }, match r with | some t => s!"ok c={decide (Committed t)}" | none => "none")
  match line.splitOn " " with
  | "tree" :: toks =>
    match parseN (toks.filter (· ≠ "")) with
    | some (n, _) => ({ s with t := some n }, s!"ok c={decide (Committed n)} i={decide (InTx n)}")
    | none => ({ s with t := none }, "bad-tree")
  | ["cfg", ps, sth, rth] => ({ s with ps := ps.toNat!, sth := sth.toNat!, rth := rth.toNat! }, "ok")
  | ["put", k, v] => upd (s.t.bind (fun t => putT btFuel t (unhex k) (unval v)))
  | ["del", k] => upd (s.t.bind (fun t => delT btFuel t (unhex k)))
  | ["rebalance", pg] =>
    match s.t with
    | none => (s, "none")
    | some t =>
      match findMat pg.toNat! btFuel t with
      | none => (s, "skipped")
      | some path => updI (rebalanceAt s.rth t path)
  | ["spill"] => updC (s.t.bind (spillRoot s.ps s.sth btFuel))
  | ["intx"] => (s, match s.t with | some t => s!"i={decide (InTx t)} r={decide (InTxR t)}" | none => "none")
  | ["dump"] => (s, match s.t with | some t => showN t | none => "none")
  | _ => (s, "bad-op")

partial def btLoop (h out : IO.FS.Stream) (s : BtSt) : IO Unit := do
  let line ← h.getLine
  if line.isEmpty then return ()
  let (s', o) := btStep s line.trimAscii.toString
  out.putStrLn o
  btLoop h out s'

def cmdBTree : IO Unit := do
  let out ← IO.getStdout
  btLoop (← IO.getStdin) out {}
  out.flush

end Bolt.Driver
