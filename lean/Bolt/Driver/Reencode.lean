import Bolt.Model.Encode
import Bolt.Driver.Meta
namespace Bolt.Driver
open Bolt Bolt.Enc

/-- do the first `bs.length` bytes at `base` of `f` equal `bs`? -/
def bytesMatch (f : File) (base : Nat) (bs : Bytes) : Bool :=
  (f.read base bs.length) == bs

/-- `reencode <file> <os page size>`: every tree page, the freelist page and the chosen meta
    are decoded with the v2 reader and written again with the model's writers
    (`Model/Encode.lean`); the bytes must equal the file's (on the used prefix of each page). -/
def cmdReencode (path : String) (os : Nat) : IO Unit := do
  let ba ← IO.FS.readBinFile path
  let f := fileOfBytes ba
  match openMeta f os with
  | .error _ => IO.println "err open"
  | .ok (ps, moff) =>
    let d := decodeAt f ps moff
    let mut okN := 0
    let mut bad : List String := []
    for p in d.treePages do
      let (pg, ovf, flags) := (p.1, p.2.1, p.2.2)
      let base := pg * ps
      let limit := base + (ovf + 1) * ps
      let h := pageHdrAt f base
      if flags == V2.leafPageFlag then
        match leafElems f base limit h.count with
        | some es => if bytesMatch f base (leafPage pg ovf es) then okN := okN + 1 else bad := bad ++ [s!"leaf {pg}"]
        | none => bad := bad ++ [s!"leaf {pg} undecodable"]
      else if flags == V2.branchPageFlag then
        match branchElems f base limit h.count with
        | some es => if bytesMatch f base (branchPage pg ovf es) then okN := okN + 1 else bad := bad ++ [s!"branch {pg}"]
        | none => bad := bad ++ [s!"branch {pg} undecodable"]
      else bad := bad ++ [s!"page {pg} flags {flags}"]
    match d.freelistPage with
    | some (pg, ovf) =>
      if bytesMatch f (pg * ps) (freelistPage pg ovf d.freeIds) then okN := okN + 1 else bad := bad ++ [s!"freelist {pg}"]
    | none => pure ()
    let m := metaAt f moff
    if bytesMatch f moff (encodeMeta m) then okN := okN + 1 else bad := bad ++ ["meta"]
    IO.println s!"reencode ok={okN} bad={if bad.isEmpty then "-" else ",".intercalate bad}"

end Bolt.Driver
