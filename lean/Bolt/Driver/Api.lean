import Bolt.Spec.NestedMap
import Bolt.Model.Format
import Bolt.Driver.Meta
namespace Bolt.Driver
open Bolt

def hexDigit (c : Char) : Nat :=
  if '0' ≤ c ∧ c ≤ '9' then c.toNat - '0'.toNat
  else if 'a' ≤ c ∧ c ≤ 'f' then c.toNat - 'a'.toNat + 10 else 0

def unhexAux : List Char → Bytes
  | a :: b :: r => UInt8.ofNat (hexDigit a * 16 + hexDigit b) :: unhexAux r
  | _ => []

def unhex (s : String) : Bytes := if s == "-" then [] else unhexAux s.toList

def hexChar (n : Nat) : Char := if n < 10 then Char.ofNat (48 + n) else Char.ofNat (87 + n)

def hexOf (b : Bytes) : String :=
  if b.isEmpty then "-" else String.ofList (b.flatMap (fun x => [hexChar (x.toNat / 16), hexChar (x.toNat % 16)]))

def parsePath (s : String) : List Bytes := if s == "." then [] else (s.splitOn "/").map unhex

/-- canonical dump `{seq;k=v,k={...}}` (same text as the Go harness' dumpBucket) -/
partial def dumpSVal : SVal → String
  | .val v => hexOf v
  | .bkt s e => "{" ++ toString s ++ ";" ++ ",".intercalate (e.map (fun p => hexOf p.1 ++ "=" ++ dumpSVal p.2)) ++ "}"

def fnv64Str (s : String) : UInt64 :=
  s.toUTF8.foldl (fun h b => (h ^^^ b.toUInt64) * 1099511628211) 14695981039346656037

def hex16 (v : UInt64) : String :=
  String.ofList ((List.range 16).map (fun i => hexChar ((v.toNat >>> (4 * (15 - i))) % 16)))

def hashStr (s : String) : String := s!"{s.utf8ByteSize}:{hex16 (fnv64Str s)}"

structure ApiState where
  committed : SVal := .bkt 0 []
  writer : Option SVal := none
  readers : List (String × SVal) := []
  cursors : List (Nat × String × CurSpec) := []
  verbose : Bool := false

def ApiState.view (s : ApiState) (tx : String) : Option SVal :=
  if tx == "w" then s.writer else (s.readers.find? (·.1 == tx)).map (·.2)

def errStr (e : ApiErr) : String := "err:" ++ e.name

def kvStr : Option (Bytes × Option Bytes) → String
  | none => "kv:nil"
  | some (k, none) => "kv:" ++ hexOf k ++ ":bucket"
  | some (k, some v) => "kv:" ++ hexOf k ++ ":" ++ hexOf v

def dropCursors (s : ApiState) (tx : String) : ApiState :=
  { s with cursors := s.cursors.filter (fun c => c.2.1 != tx) }

def mutate (s : ApiState) (tx : String) (fn : SVal → Except ApiErr SVal) : ApiState × String :=
  match s.view tx with
  | none => (s, "skip")
  | some root =>
    if tx != "w" then
      -- path resolution happens in the harness before the API call; the API then reports ErrTxNotWritable
      match fn root with
      | .error .noBucket => (s, errStr .noBucket)
      | .error .rootOp => (s, errStr .rootOp)
      | _ => (s, errStr .txNotWritable)
    else match fn root with
      | .ok r => ({ s with writer := some r }, "ok")
      | .error e => (s, errStr e)

def apiStep (s : ApiState) (line : String) : ApiState × String :=
  match line.splitOn " " with
  | ["beginw"] => if s.writer.isSome then (s, "skip") else ({ s with writer := some s.committed }, "ok")
  | ["commit"] => match s.writer with
      | none => (s, "skip")
      | some w => (dropCursors { s with committed := w, writer := none } "w", "ok")
  | ["rollback"] => if s.writer.isNone then (s, "skip") else (dropCursors { s with writer := none } "w", "ok")
  | ["beginr", r] => if (s.readers.any (·.1 == r)) then (s, "skip")
      else ({ s with readers := (r, s.committed) :: s.readers }, "ok")
  | ["endr", r] => if (s.readers.any (·.1 == r)) then
        (dropCursors { s with readers := s.readers.filter (·.1 != r) } r, "ok") else (s, "skip")
  | ["reopen"] => ({ s with writer := none, readers := [], cursors := [] }, "ok")
  | ["close"] => ({ s with writer := none, readers := [], cursors := [] }, "ok")
  | ["put", tx, p, k, v] => mutate s tx (fun r => apiPut r (parsePath p) (unhex k) (unhex v))
  | ["putnil", tx, p, k] => mutate s tx (fun r => apiPut r (parsePath p) (unhex k) [])   -- Put(k, nil): an empty value
  | ["del", tx, p, k] => mutate s tx (fun r => apiDelete r (parsePath p) (unhex k))
  | ["mkb", tx, p, k] => mutate s tx (fun r => apiCreateBucket r (parsePath p) (unhex k) false)
  | ["mkbi", tx, p, k] =>
      -- CreateBucketIfNotExists on an existing bucket succeeds even in a read-only tx? No: the
      -- writability check comes first in the Go code.
      mutate s tx (fun r => apiCreateBucket r (parsePath p) (unhex k) true)
  | ["rmb", tx, p, k] => mutate s tx (fun r => apiDeleteBucket r (parsePath p) (unhex k))
  | ["mvb", tx, p, k, d] => mutate s tx (fun r => apiMoveBucket r (parsePath p) (unhex k) (parsePath d))
  | ["setseq", tx, p, n] => mutate s tx (fun r => apiSetSequence r (parsePath p) n.toNat!)
  | ["nextseq", tx, p] =>
      match s.view tx with
      | none => (s, "skip")
      | some root =>
        match apiNextSequence root (parsePath p) with
        | .error e => (s, errStr e)
        | .ok (r, n) => if tx != "w" then (s, errStr .txNotWritable) else ({ s with writer := some r }, s!"n:{n}")
  | ["seq", tx, p] =>
      match s.view tx with
      | none => (s, "skip")
      | some root => match apiSequence root (parsePath p) with
        | .ok n => (s, s!"n:{n}") | .error e => (s, errStr e)
  | ["get", tx, p, k] =>
      match s.view tx with
      | none => (s, "skip")
      | some root => match apiGet root (parsePath p) (unhex k) with
        | .ok none => (s, "nil") | .ok (some v) => (s, "val:" ++ hexOf v) | .error e => (s, errStr e)
  | ["dump", tx, p] =>
      match s.view tx with
      | none => (s, "skip")
      | some root => match bucketAt (parsePath p) root with
        | none => (s, errStr .noBucket)
        | some (sq, e) =>
          let sq := if (parsePath p).isEmpty then 0 else sq
          let d := dumpSVal (.bkt sq e)
          (s, "dump:" ++ (if s.verbose then d else hashStr d))
  | ["keys", tx, p] =>
      match s.view tx with
      | none => (s, "skip")
      | some root => match bucketAt (parsePath p) root with
        | none => (s, errStr .noBucket)
        | some (_, e) =>
          let ks := e.map (fun q => hexOf q.1 ++ (if q.2.isBucket then "*" else ""))
          (s, "keys:" ++ hashStr (",".intercalate ks))
  | ["cur", tx, p, id] =>
      match s.view tx with
      | none => (s, "skip")
      | some root => match bucketAt (parsePath p) root with
        | none => (s, errStr .noBucket)
        | some (_, e) =>
          let c : CurSpec := { keys := entsView e, pos := none }
          ({ s with cursors := (id.toNat!, tx, c) :: s.cursors.filter (·.1 != id.toNat!) }, "ok")
  | [op, id] =>
      match s.cursors.find? (·.1 == id.toNat!) with
      | none => (s, if op == "cfirst" || op == "clast" || op == "cnext" || op == "cprev" then "skip" else "bad-op")
      | some (_, tx, c) =>
        let r := match op with
          | "cfirst" => some c.first | "clast" => some c.last
          | "cnext" => some c.next | "cprev" => some c.prev | _ => none
        match r with
        | none => (s, "bad-op")
        | some (c', out) =>
          ({ s with cursors := (id.toNat!, tx, c') :: s.cursors.filter (·.1 != id.toNat!) }, kvStr out)
  | ["cseek", id, k] =>
      match s.cursors.find? (·.1 == id.toNat!) with
      | none => (s, "skip")
      | some (_, tx, c) =>
        let (c', out) := c.seek (unhex k)
        ({ s with cursors := (id.toNat!, tx, c') :: s.cursors.filter (·.1 != id.toNat!) }, kvStr out)
  | _ => (s, "bad-op")

partial def apiLoop (h out : IO.FS.Stream) (s : ApiState) : IO Unit := do
  let line ← h.getLine
  if line.isEmpty then return ()
  let l := line.trimAscii.toString
  -- `load <file>`: set the committed state to the Lean decode of a real file
  match l.splitOn " " with
  | ["load", path, os] =>
    let ba ← IO.FS.readBinFile path
    match decodeFile (fileOfBytes ba) os.toNat! with
    | .ok d => out.putStrLn "ok"; apiLoop h out { s with committed := d.content, writer := none, readers := [], cursors := [] }
    | .error e => out.putStrLn ("err:" ++ e); apiLoop h out s
  | _ =>
    let (s', o) := apiStep s l
    out.putStrLn o
    apiLoop h out s'

def cmdApi (verbose : Bool) : IO Unit := do
  let out ← IO.getStdout
  apiLoop (← IO.getStdin) out { verbose := verbose }
  out.flush

/-- `decode <file> <osPageSize>`: the independent reader's view of a real file. -/
def cmdDecode (path : String) (os : Nat) (verbose : Bool) : IO Unit := do
  let ba ← IO.FS.readBinFile path
  let f := fileOfBytes ba
  match decodeFile f os with
  | .error e => IO.println ("err " ++ e)
  | .ok d =>
    let dump := dumpSVal (match d.content with | .bkt _ e => .bkt 0 e | v => v)
    IO.println s!"ok ps={d.pageSize} txid={d.mt.txid} root={d.mt.root} pgid={d.mt.pgid} freelist={d.mt.freelist} filesize={f.size}"
    IO.println ("dump:" ++ (if verbose then dump else hashStr dump))
    let pgs := d.treePages.map (fun p => s!"{p.1}+{p.2.1}:{p.2.2}")
    IO.println ("pages " ++ (if pgs.isEmpty then "-" else ",".intercalate pgs))
    IO.println ("flpage " ++ (match d.freelistPage with | some p => s!"{p.1}+{p.2}" | none => "-"))
    IO.println ("free " ++ (if d.freeIds.isEmpty then "-" else ",".intercalate (d.freeIds.map toString)))
    let a := accounting d
    IO.println s!"accounting ok={a.ok} leaked={a.leaked} doubleRef={a.doubleRef} freeAndUsed={a.freeAndUsed} doubleFree={a.doubleFree} freeOutOfRange={a.freeOutOfRange}"
    IO.println ("errors " ++ (if d.errors.isEmpty then "-" else " | ".intercalate d.errors))
    -- a meta page is valid when its meta struct validates AND its page header says so: page id =
    -- slot, type flag = meta (a v2 reader such as `bbolt page`/`surgery` goes by the header)
    let hdrOk := fun (slot : Nat) => f.u64 (slot * d.pageSize) == slot && f.u16 (slot * d.pageSize + 8) == V2.metaPageFlag
    IO.println s!"metas m0={metaValid f 16 && hdrOk 0} m1={metaValid f (d.pageSize + 16) && hdrOk 1}"

end Bolt.Driver
