import Bolt.Model.Surgery
import Bolt.Model.Format
import Bolt.Driver.Meta
namespace Bolt.Driver
open Bolt Bolt.Surgery

def fileBytes (f : File) : ByteArray := Id.run do
  let mut ba := ByteArray.emptyWithCapacity f.size
  for i in [0:f.size] do
    ba := ba.push (f.get i)
  return ba

/-- `surgery <clear|revert> <in> <out> <os page size>`: the model of the repair command on the
    file's bytes; writes the patched file and prints whether the theorems' hypothesis
    (`metaPagesOk`) holds for the input and, for revert, whether the patched file decodes to
    exactly what the older meta slot described (the statement of `revert_opens_at_older`,
    evaluated). -/
def cmdSurgery (cmd inp out : String) (os : Nat) : IO Unit := do
  let ba ← IO.FS.readBinFile inp
  let f := fileOfBytes ba
  let ps := f.u32 24
  let hyp := metaPagesOk f ps
  let r := if cmd == "clear" then clearFreelist f else revertMeta f
  match r with
  | .error e => IO.println s!"err {e} hyp={hyp}"
  | .ok f' =>
    -- materialise once: `f'` is a closure over `f`
    let bytes := fileBytes f'
    IO.FS.writeBinFile out bytes
    IO.println s!"ok hyp={hyp} ps={ps} older={olderOff f ps} size={f'.size}"

end Bolt.Driver
