import Bolt.Model.Cursor
import Bolt.Driver.Api
namespace Bolt.Driver
open Bolt Bolt.Cur

/-- parse the prefix form written by `Bucket.VerifShape`:
    `L n {key val flags}*n` | `B n {sep subtree}*n` -/
partial def parseTree : List String → Option (Tree × List String)
  | "L" :: n :: rest =>
    let rec items (k : Nat) (toks : List String) (acc : List Item) : Option (List Item × List String) :=
      match k, toks with
      | 0, t => some (acc.reverse, t)
      | k+1, key :: val :: fl :: t => items k t ({ key := unhex key, val := unhex val, flags := fl.toNat! } :: acc)
      | _, _ => none
    (items n.toNat! rest []).map (fun (is, t) => (Tree.leaf is, t))
  | "B" :: n :: rest =>
    let rec kids (k : Nat) (toks : List String) (acc : List (Bytes × Tree)) : Option (List (Bytes × Tree) × List String) :=
      match k, toks with
      | 0, t => some (acc.reverse, t)
      | k+1, sep :: t =>
        match parseTree t with
        | some (c, t') => kids k t' ((unhex sep, c) :: acc)
        | none => none
      | _, _ => none
    (kids n.toNat! rest []).map (fun (ks, t) => (Tree.branch ks, t))
  | _ => none

def itemStr : Option Item → String
  | none => "kv:nil"
  | some it => kvStr (some it.view)

structure CurSt where
  tree : Tree := .leaf []
  st : Stack := []

def curStep (s : CurSt) (line : String) : CurSt × String :=
  let d := depth s.tree
  let fuel := size s.tree
  match line.splitOn " " with
  | "tree" :: toks =>
    match parseTree (toks.filter (· != "")) with
    | some (t, _) => ({ tree := t, st := [] }, "ok")
    | none => (s, "bad-tree")
  | ["cfirst"] => let r := first d fuel s.tree; ({ s with st := r.1 }, itemStr r.2)
  | ["clast"] => let r := last d fuel s.tree; ({ s with st := r.1 }, itemStr r.2)
  | ["cnext"] => let r := nextPub d fuel s.tree s.st; ({ s with st := r.1 }, itemStr r.2)
  | ["cprev"] => let r := prev d fuel s.tree s.st; ({ s with st := r.1 }, itemStr r.2)
  | ["cseek", k] => let r := seek d fuel s.tree (unhex k); ({ s with st := r.1 }, itemStr r.2)
  | _ => (s, "bad-op")

partial def curLoop (h out : IO.FS.Stream) (s : CurSt) : IO Unit := do
  let line ← h.getLine
  if line.isEmpty then return ()
  let (s', o) := curStep s line.trimAscii.toString
  out.putStrLn o
  curLoop h out s'

def cmdCursor : IO Unit := do
  let out ← IO.getStdout
  curLoop (← IO.getStdin) out {}
  out.flush

end Bolt.Driver
