import Bolt.Model.Check
import Bolt.Model.Format
import Bolt.Driver.Meta
namespace Bolt.Driver
open Bolt Bolt.Check

def errClass : Err → String
  | .alreadyFreed _ => "already-freed"
  | .outOfBounds _ => "out-of-bounds"
  | .multipleRefs _ => "multiple-references"
  | .reachableFreed _ => "reachable-freed"
  | .invalidType _ => "invalid-type"
  | .unreachableUnfreed _ => "unreachable-unfreed"
  | .keyOrder => "key-order"

/-- `checkmodel <file> <os page size> <array|hashmap>`: run the model of `Tx.check` on the
    independent decode of the file; prints the sorted set of error classes. -/
def cmdCheckModel (path : String) (os : Nat) (kind : String) : IO Unit := do
  let ba ← IO.FS.readBinFile path
  let f := fileOfBytes ba
  match decodeFile f os with
  | .error e => IO.println ("err " ++ e)
  | .ok d =>
    let keyErrs := (d.errors.filter (fun e => (e.splitOn "ascending").length > 1 || (e.splitOn "separator").length > 1)).length
    let mem := if kind == "hashmap" then d.freeIds.eraseDups else d.freeIds
    let inp : CheckIn := {
      hwm := d.mt.pgid,
      visited := d.treePages.map (fun p => { id := p.1, ovf := p.2.1, kind := p.2.2 }),
      freelistSpan := match d.freelistPage with | some p => (List.range (p.2 + 1)).map (p.1 + ·) | none => [],
      freeMem := mem, freeDisk := d.freeIds, keyErrs := keyErrs }
    let classes := ((check inp).map errClass).eraseDups
    let sorted := classes.toArray.qsort (· < ·) |>.toList
    IO.println ("classes " ++ (if sorted.isEmpty then "-" else ",".intercalate sorted))

end Bolt.Driver
