import Bolt.Model.Compact
import Bolt.Model.Format
import Bolt.Driver.Api
namespace Bolt.Driver
open Bolt Bolt.Compact

/-- `compactmodel <src file> <os page size> <limit>`: the model of `Compact` on the independent
    decode of the source; prints the destination dump hash, the number of destination
    transactions committed before the final one, and whether an API error occurred. -/
def cmdCompactModel (path : String) (os limit : Nat) : IO Unit := do
  let ba ← IO.FS.readBinFile path
  match decodeFile (fileOfBytes ba) os with
  | .error e => IO.println ("err " ++ e)
  | .ok d =>
    let src := match d.content with | .bkt _ e => SVal.bkt 0 e | v => v
    let r := compact limit src
    let dump := dumpSVal r.dst
    IO.println s!"dump:{hashStr dump} commits={r.commits} err={r.err.isSome}"

def pathStr (p : List Bytes) : String :=
  if p.isEmpty then "-" else "/".intercalate (p.map hexOf)

def dstCallLine : DstCall → String
  | .put p k v => s!"put {pathStr p} {hexOf k} {if v.isEmpty then "-" else hexOf v}"
  | .createBucket p k => s!"mkb {pathStr p} {hexOf k}"
  | .setSequence p n => s!"seq {pathStr p} {n}"

/-- `compactcalls <src file> <os page size> <limit>`: the destination calls of `Compact`,
    grouped by destination transaction (`Compact.compactTxs`), one call per line, every
    transaction introduced by a line `tx`. -/
def cmdCompactCalls (path : String) (os limit : Nat) : IO Unit := do
  let ba ← IO.FS.readBinFile path
  match decodeFile (fileOfBytes ba) os with
  | .error e => IO.println ("err " ++ e)
  | .ok d =>
    let ents := match d.content with | .bkt _ e => e | _ => []
    for tx in compactTxs limit ents do
      IO.println "tx"
      for c in tx do
        IO.println (dstCallLine c)
    IO.println "end"

end Bolt.Driver
