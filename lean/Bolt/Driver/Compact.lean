import Bolt.Model.Compact
import Bolt.Model.Format
import Bolt.Driver.Api
namespace Bolt.Driver
open Bolt Bolt.Compact

/-- `compactmodel <src file> <os page size> <limit>`: the model of `Compact` on the independent
    decode of the source; prints the destination dump hash, the number of destination
    transactions committed before the final one, and whether an API error occurred. -/
def cmdCompactModel (path : String) (os limit : Nat) : IO Unit := do
  let ba ← IO.FS.readBinFile path
  match decodeFile (fileOfBytes ba) os with
  | .error e => IO.println ("err " ++ e)
  | .ok d =>
    let src := match d.content with | .bkt _ e => SVal.bkt 0 e | v => v
    let r := compact limit src
    let dump := dumpSVal r.dst
    IO.println s!"dump:{hashStr dump} commits={r.commits} err={r.err.isSome}"

end Bolt.Driver
