/-
Helper lemmas for C05 after the repair of F11 (`Cursor.Next` = `nextPub`): refinement of the
sorted-list-with-position specification WITHOUT `NoEmptyLeafBelowRoot`.

`Rep`/`RepC` (Lemmas/Cursor.lean) alone is not inductive for `nextPub`: it allows a stack that
is past the end of a leaf while emptied leaves still lie to its right (never produced by the
code: `seek`, `first` always run `next` to the very end).  `EndOK` excludes exactly that, and
`RepE = RepC ∧ EndOK` is preserved by every public cursor call.
-/
import Bolt.Lemmas.Cursor
namespace Bolt.Cur

/-- a cursor with nothing under or right of it in key order has nothing right of it in the
    tree either (not even an emptied page): `advance` fails -/
def EndOK (st : Stack) : Prop := frm st = [] → advance st = none

/-- the abstraction relation that is inductive for ALL public cursor calls, empty leaves included -/
def RepE (t : Tree) (st : Stack) (c : CurSpec) : Prop := RepC t st c ∧ EndOK st

theorem endOK_nil : EndOK [] := fun _ => rfl

theorem endOK_of_leafIn {st : Stack} (h : LeafIn st) : EndOK st := by
  intro hf
  obtain ⟨x, _, hx, _⟩ := leafIn_elem h
  rw [hx] at hf; cases hf

theorem endOK_of_advance {st : Stack} (h : advance st = none) : EndOK st := fun _ => h

/-! ### `nextS` is `next` plus a flag -/

theorem nextS_eq_next (d : Nat) : ∀ (fuel : Nat) (sk : Bool) (st : Stack),
    ((nextS d fuel sk st).1, (nextS d fuel sk st).2.1) = next d fuel st
  | 0, _, _ => rfl
  | fuel+1, sk, st => by
    rw [nextS, next]
    cases h : advance st with
    | none => rfl
    | some st1 =>
      simp only []
      split
      · exact nextS_eq_next d fuel true _
      · rfl

theorem nextS_true (d : Nat) : ∀ (fuel : Nat) (st : Stack), (nextS d fuel true st).2.2 = true
  | 0, _ => rfl
  | fuel+1, st => by
    rw [nextS]
    cases h : advance st with
    | none => rfl
    | some st1 =>
      simp only []
      split
      · exact nextS_true d fuel _
      · rfl

theorem nextS_of_advance_none {d fuel : Nat} {sk : Bool} {st : Stack} (h : advance st = none) :
    nextS d fuel sk st = (st, none, sk) := by
  cases fuel with
  | zero => rfl
  | succ fuel => rw [nextS, h]

/-- `nextS` that moved (`advance` succeeded) and still found nothing has stepped over an empty page -/
theorem nextS_skipped {t : Tree} {d fuel : Nat} (hb : BranchesNonEmpty t) (hd : depth t ≤ d)
    {sk : Bool} {st st1 : Stack} (hv : VS t st) (h : advance st = some st1)
    (hnone : (nextS d (fuel + 1) sk st).2.1 = none) : (nextS d (fuel + 1) sk st).2.2 = true := by
  obtain ⟨_, hs2, _⟩ := advance_settled hb hd hv h
  rw [nextS] at hnone ⊢
  simp only [h] at hnone ⊢
  by_cases h0 : topCount (goToFirst d st1) = 0
  · rw [if_pos h0]; exact nextS_true d fuel _
  · rw [if_neg h0] at hnone
    obtain ⟨x, hk, _, _⟩ := leafIn_elem (settled_leafIn hs2 h0)
    rw [hk] at hnone
    cases hnone

theorem nextPub_eq (d fuel : Nat) (root : Tree) (st : Stack) :
    nextPub d fuel root st =
      match (nextS d fuel false st).2.1 with
      | some it => ((nextS d fuel false st).1, some it)
      | none => if (nextS d fuel false st).2.2 then ((last d fuel root).1, none)
                else ((nextS d fuel false st).1, none) := by
  unfold nextPub
  generalize nextS d fuel false st = r
  obtain ⟨a, b, s⟩ := r
  cases b <;> rfl

/-- a successful public `Next` is the internal `next` -/
theorem nextPub_of_some {d fuel : Nat} {root : Tree} {st : Stack} {x : Item}
    (h : (next d fuel st).2 = some x) : nextPub d fuel root st = next d fuel st := by
  have e := nextS_eq_next d fuel false st
  have h1 : (nextS d fuel false st).2.1 = some x := by rw [← e] at h; exact h
  rw [nextPub_eq, h1, ← e, h1]

theorem nextPub_of_advance_none {d fuel : Nat} {root : Tree} {st : Stack} (h : advance st = none) :
    nextPub d fuel root st = (st, none) := by
  rw [nextPub_eq, nextS_of_advance_none h]
  rfl

/-- running off the end across an emptied page: the repaired `Next` re-positions with `last` -/
theorem nextPub_of_skipped {d fuel : Nat} {root : Tree} {st : Stack}
    (h1 : (nextS d fuel false st).2.1 = none) (h2 : (nextS d fuel false st).2.2 = true) :
    nextPub d fuel root st = ((last d fuel root).1, none) := by
  rw [nextPub_eq, h1, h2]
  rfl

/-! ### a `none` from the forward loop means `advance` fails afterwards -/

theorem settle_none_adv {t : Tree} {d : Nat} (hb : BranchesNonEmpty t) (hd : depth t ≤ d) :
    ∀ (fuel : Nat) (st : Stack), VS t st → Settled st → (topCount st = 0 → sizeAfter st < fuel) →
      (settle d fuel st).2 = none → advance (settle d fuel st).1 = none
  | fuel, st, hv, hs, hf => by
    unfold settle
    split
    · rename_i h0
      cases fuel with
      | zero => have := hf h0; omega
      | succ fuel =>
        rw [next_succ]
        cases h : advance st with
        | none => intro _; exact h
        | some st1 =>
          obtain ⟨hv2, hs2, _⟩ := advance_settled hb hd hv h
          exact settle_none_adv hb hd fuel (goToFirst d st1) hv2 hs2 (fun h2 => by
            have := next_step_measure hv h h2
            have := hf h0
            omega)
    · rename_i h0
      obtain ⟨x, hk, _, _⟩ := leafIn_elem (settled_leafIn hs h0)
      intro hn
      rw [hk] at hn
      cases hn

theorem next_none_adv {t : Tree} {d : Nat} (hb : BranchesNonEmpty t) (hd : depth t ≤ d)
    (fuel : Nat) (st : Stack) (hv : VS t st) (hf : sizeAfter st < fuel) :
    (next d fuel st).2 = none → advance (next d fuel st).1 = none := by
  cases fuel with
  | zero => omega
  | succ fuel =>
    rw [next_succ]
    cases h : advance st with
    | none => intro _; exact h
    | some st1 =>
      obtain ⟨hv2, hs2, _⟩ := advance_settled hb hd hv h
      exact settle_none_adv hb hd fuel (goToFirst d st1) hv2 hs2 (fun h2 => by
        have := next_step_measure hv h h2
        omega)

theorem endOK_of_settleRes {t : Tree} {L : List Item} {r : Stack × Option Item} (h : SettleRes t L r)
    (hadv : r.2 = none → advance r.1 = none) : EndOK r.1 := by
  cases h with
  | found _ _ _ _ _ _ hin => exact endOK_of_leafIn hin
  | none _ _ _ _ _ _ => exact endOK_of_advance (hadv rfl)

theorem endOK_of_prevRes {t : Tree} {L : List Item} {fst : Stack} {r : Stack × Option Item}
    (h : PrevRes t L fst r) (hf : EndOK fst) : EndOK r.1 := by
  cases h with
  | found _ _ _ _ _ _ hin => exact endOK_of_leafIn hin
  | none _ => exact hf

section ops
variable {t : Tree} {d fuel : Nat} (hb : BranchesNonEmpty t) (hd : depth t ≤ d) (hf : size t ≤ fuel)
include hb hd hf

theorem first_endOK : EndOK (first d fuel t).1 := by
  apply endOK_of_settleRes (first_spec (fuel := fuel) hb hd hf)
  rw [first_eq]
  have hv0 : VS t [⟨t, 0⟩] := VS_root t 0 (by omega) (by omega)
  have hv : VS t (goToFirst d [⟨t, 0⟩]) := goToFirst_VS d _ hv0
  have hs : Settled (goToFirst d [⟨t, 0⟩]) := by
    apply goToFirst_settled d ⟨t, 0⟩ [] hd hb (Int.le_refl 0)
    show (0 : Int) < (t.count : Int) ∨ t.count = 0
    omega
  exact settle_none_adv hb hd fuel _ hv hs (fun _ => by have := VS_sizeAfter_lt hv; omega)

theorem last_endOK : EndOK (last d fuel t).1 :=
  endOK_of_prevRes (last_spec (fuel := fuel) hb hd hf) (first_endOK hb hd hf)

theorem prev_endOK {st : Stack} (hv : VS t st) : EndOK (prev d fuel t st).1 := by
  by_cases hne : st = []
  · subst hne
    have h1 : prev d fuel t [] = ([], none) := by
      cases fuel <;> simp [prev, stepBack, retreat]
    rw [h1]
    exact endOK_nil
  · exact endOK_of_prevRes (prev_spec hb hd fuel st hv hne hf) (first_endOK hb hd hf)

theorem seek_endOK (hs : SearchTree t) (k : Bytes) : EndOK (seek d fuel t k).1 := by
  obtain ⟨st0, _, _, _, hres⟩ := seek_res (d := d) (fuel := fuel) k hb hs hd hf
  apply endOK_of_settleRes hres
  obtain ⟨hv, hl, _, _⟩ := search_spec (t := t) (k := k) d t [] hd hb ⟨none, none, hs⟩ rfl
    (fun x hx => by simp [before] at hx) (fun x hx => by simp [after] at hx)
  simp only [seek]
  generalize search k d t [] = st at hv hl
  cases st with
  | nil => exact absurd hl (by simp [LeafAt])
  | cons f r =>
    simp only []
    split
    · exact next_none_adv hb hd fuel (f :: r) hv (by have := VS_sizeAfter_lt hv; omega)
    · rename_i hge
      have hin : LeafIn (f :: r) := ⟨hl.1, hl.2.1, by omega⟩
      obtain ⟨x, hk, _, _⟩ := leafIn_elem hin
      intro hn
      rw [hk] at hn
      cases hn

/-- **the repaired `Cursor.Next` refines the specification's `next`, empty leaves anywhere** -/
theorem nextPub_refines {c : CurSpec} {st : Stack} (h : RepE t st c) :
    RepE t (nextPub d fuel t st).1 c.next.1 ∧ (nextPub d fuel t st).2.map Item.view = c.next.2 := by
  obtain ⟨⟨hk, hrep⟩, he⟩ := h
  cases hp : c.pos with
  | none =>
    rw [hp] at hrep
    have hst : st = [] := hrep
    subst hst
    rw [nextPub_of_advance_none (by rfl)]
    simp only [CurSpec.next, hp]
    exact ⟨⟨⟨hk, by rw [hp]; rfl⟩, endOK_nil⟩, rfl⟩
  | some i =>
    rw [hp] at hrep
    obtain ⟨hv, hl, hlen, hin⟩ := hrep
    have hfl := VS_flatten_frm hv (leafAt_ne_nil hl)
    have hfu := VS_flatten_upto hv (leafAt_ne_nil hl)
    have hklen : c.keys.length = (flatten t).length := by rw [hk, List.length_map]
    have hfuel : sizeAfter st < fuel := by have := VS_sizeAfter_lt hv; omega
    cases ha : after st with
    | nil =>
      have hle : ¬ i + 1 < c.keys.length := by
        rw [hklen, ← hfl, List.length_append, hlen]
        by_cases hfe : frm st = []
        · rw [hfe]; simp
        · obtain ⟨x, _, hx, _⟩ := leafIn_elem (hin hfe)
          rw [hx, ha]; simp
      cases hadv : advance st with
      | none =>
        rw [nextPub_of_advance_none hadv]
        simp only [CurSpec.next, hp, hle, if_false]
        exact ⟨⟨⟨hk, by rw [hp]; exact ⟨hv, hl, hlen, hin⟩⟩, he⟩, rfl⟩
      | some st1 =>
        -- the cursor is ON the last key, emptied pages follow: `Next` skips them, finds
        -- nothing and re-positions with `last`
        have hfne : frm st ≠ [] := fun hfe => by rw [he hfe] at hadv; cases hadv
        obtain ⟨x, _, hx, _⟩ := leafIn_elem (hin hfne)
        have hflat : flatten t = before st ++ [x] := by rw [← hfl, hx, ha]
        have hnone : (next d fuel st).2 = none := by
          rcases next_spec hb hd fuel st hv hfuel with ⟨hadv', _, _⟩ | hres
          · rw [hadv'] at hadv; cases hadv
          · rw [hres.head, ha]; rfl
        have e := nextS_eq_next d fuel false st
        have h1 : (nextS d fuel false st).2.1 = none := by rw [← e] at hnone; exact hnone
        have h2 : (nextS d fuel false st).2.2 = true := by
          cases fuel with
          | zero => omega
          | succ fuel' => exact nextS_skipped hb hd hv hadv h1
        rw [nextPub_of_skipped h1 h2]
        have hlast := (last_refines hb hd hf hk).1
        have hke : c.keys.isEmpty = false := by rw [hk, hflat]; simp
        have hkl : c.keys.length - 1 = i := by rw [hklen, hflat]; simp [hlen]
        have hc : c.last.1 = c := by
          simp only [CurSpec.last, hke, Bool.false_eq_true, if_false, hkl]
          obtain ⟨keys, pos⟩ := c
          simp only at hp
          rw [hp]
        rw [hc] at hlast
        simp only [CurSpec.next, hp, hle, if_false]
        exact ⟨⟨hlast, last_endOK hb hd hf⟩, rfl⟩
    | cons y ys =>
      have hfne : frm st ≠ [] := frm_ne_nil_of_after hl (by rw [ha]; simp)
      obtain ⟨x, _, _, hux⟩ := leafIn_elem (hin hfne)
      have hul : (upto st).length = i + 1 := by rw [hux]; simp [hlen]
      rcases next_spec hb hd fuel st hv hfuel with ⟨_, ha', _⟩ | hres
      · rw [ha] at ha'; cases ha'
      · have hsome : (next d fuel st).2 = some y := by rw [hres.head, ha]; rfl
        rw [nextPub_of_some hsome]
        have := rep_of_settle hres hfu
        rw [hul] at this
        have hlt : i + 1 < c.keys.length := by
          rw [hklen, ← hfu, List.length_append, hul, ha]; simp
        have hend : EndOK (next d fuel st).1 :=
          endOK_of_settleRes hres (fun hn => by rw [hsome] at hn; cases hn)
        simp only [CurSpec.next, hp, hlt, if_true]
        refine ⟨⟨⟨hk, this.1⟩, hend⟩, ?_⟩
        rw [this.2]
        simp only [CurSpec.at, hk, List.getElem?_map]

/-- `first`, `last`, `prev`, `seek` preserve the strengthened relation as well -/
theorem first_refinesE {c : CurSpec} (hk : c.keys = (flatten t).map Item.view) :
    RepE t (first d fuel t).1 c.first.1 ∧ (first d fuel t).2.map Item.view = c.first.2 :=
  ⟨⟨(first_refines hb hd hf hk).1, first_endOK hb hd hf⟩, (first_refines hb hd hf hk).2⟩

theorem last_refinesE {c : CurSpec} (hk : c.keys = (flatten t).map Item.view) :
    RepE t (last d fuel t).1 c.last.1 ∧ (last d fuel t).2.map Item.view = c.last.2 :=
  ⟨⟨(last_refines hb hd hf hk).1, last_endOK hb hd hf⟩, (last_refines hb hd hf hk).2⟩

theorem seek_refinesE (hs : SearchTree t) {c : CurSpec} (k : Bytes) (hk : c.keys = (flatten t).map Item.view) :
    RepE t (seek d fuel t k).1 (c.seek k).1 ∧ (seek d fuel t k).2.map Item.view = (c.seek k).2 :=
  ⟨⟨(seek_refines hb hd hf hs k hk).1, seek_endOK hb hd hf hs k⟩, (seek_refines hb hd hf hs k hk).2⟩

theorem prev_refinesE {c : CurSpec} {st : Stack} (h : RepE t st c) :
    RepE t (prev d fuel t st).1 c.prev.1 ∧ (prev d fuel t st).2.map Item.view = c.prev.2 := by
  have hv : VS t st := by
    obtain ⟨⟨_, hrep⟩, _⟩ := h
    cases hp : c.pos with
    | none => rw [hp] at hrep; have : st = [] := hrep; rw [this]; trivial
    | some i => rw [hp] at hrep; exact hrep.1
  exact ⟨⟨(prev_refines hb hd hf h.1).1, prev_endOK hb hd hf hv⟩, (prev_refines hb hd hf h.1).2⟩

end ops

end Bolt.Cur
