import Bolt.Props.C02Tree
import Bolt.Props.C04Tree
import Bolt.Props.C06Tree
import Bolt.Model.Surgery
import Bolt.Lemmas.Surgery
namespace Bolt.WriteTreeL
open Bolt Bolt.BTree Bolt.C12Tree Bolt.C06Tree

/-! ### page-span arithmetic -/

/-- the end of a span `(pg, ovf)` in bytes -/
theorem span_end (pg ovf ps : Nat) : (pg + ovf + 1) * ps = pg * ps + (ovf + 1) * ps := by
  rw [Nat.add_assoc, Nat.add_mul]

/-- a span wholly below a page ends before that page starts -/
theorem span_below (a b c ps : Nat) (h : a + b < c) : (a + b + 1) * ps ≤ c * ps :=
  Nat.mul_le_mul_right ps h

/-- a byte inside the span `(p2, o2)` is outside every span `(p1, o1)` disjoint from it -/
theorem outside_of_disj (ps p1 o1 p2 o2 i : Nat) (hd : p1 + o1 < p2 ∨ p2 + o2 < p1)
    (h1 : p2 * ps ≤ i) (h2 : i < (p2 + o2 + 1) * ps) :
    ¬ (p1 * ps ≤ i ∧ i < (p1 + o1 + 1) * ps) := by
  rintro ⟨g1, g2⟩
  rcases hd with hd | hd
  · have := span_below p1 o1 p2 ps hd; omega
  · have := span_below p2 o2 p1 ps hd; omega

/-! ### `patch` and `Holds` -/

/-- after writing `img` (followed by any padding) at `off` the file holds `img` there -/
theorem holds_patch (f : File) (off : Nat) (img pad : Bytes) :
    Holds (Surgery.patch f off (img ++ pad)) off img := by
  intro i hi
  rw [SurgeryL.patch_get_in f off (img ++ pad) i (by rw [List.length_append]; omega)]
  simp only [List.getD_eq_getElem?_getD]
  rw [List.getElem?_append_left hi]

/-- `Holds` is a fact about the bytes of the window only -/
theorem holds_congr (f f' : File) (off : Nat) (img : Bytes)
    (h : ∀ i, i < img.length → f'.get (off + i) = f.get (off + i)) (hh : Holds f off img) :
    Holds f' off img := by
  intro i hi
  rw [h i hi]; exact hh i hi

/-! ### the nodes of a tree -/

theorem subtrees_self : ∀ n : N, n ∈ subtrees n
  | .leaf h items => by rw [subtrees]; exact List.mem_cons_self
  | .branch h kids => by rw [subtrees]; exact List.mem_cons_self

theorem subtrees_of_kids (h : Hd) (kids : List (Bytes × N)) (n : N) (hn : n ∈ subtreesKids kids) :
    n ∈ subtrees (.branch h kids) := by
  rw [subtrees]; exact List.mem_cons_of_mem _ hn

theorem subtreesKids_head (s : Bytes) (c : N) (r : List (Bytes × N)) (n : N) (hn : n ∈ subtrees c) :
    n ∈ subtreesKids ((s, c) :: r) := by
  rw [subtreesKids]; exact List.mem_append_left _ hn

theorem subtreesKids_tail (s : Bytes) (c : N) (r : List (Bytes × N)) (n : N) (hn : n ∈ subtreesKids r) :
    n ∈ subtreesKids ((s, c) :: r) := by
  rw [subtreesKids]; exact List.mem_append_right _ hn

mutual
/-- every node of a laid-out tree is laid out -/
theorem laid_subtree (f : File) (ps : Nat) : ∀ (t n : N), Laid f ps t → n ∈ subtrees t → Laid f ps n
  | .leaf h items, n, hl, hn => by
    rw [subtrees] at hn
    rw [List.mem_singleton.mp hn]; exact hl
  | .branch h kids, n, hl, hn => by
    rw [subtrees] at hn
    rcases List.mem_cons.mp hn with rfl | hn
    · exact hl
    · rw [Laid] at hl
      exact laid_subtreeKids f ps kids n hl.2 hn
theorem laid_subtreeKids (f : File) (ps : Nat) : ∀ (kids : List (Bytes × N)) (n : N),
    LaidKids f ps kids → n ∈ subtreesKids kids → Laid f ps n
  | [], n, _, hn => by rw [subtreesKids] at hn; cases hn
  | (s, c) :: r, n, hl, hn => by
    rw [subtreesKids] at hn
    rw [LaidKids] at hl
    rcases List.mem_append.mp hn with hn | hn
    · exact laid_subtree f ps c n hl.1 hn
    · exact laid_subtreeKids f ps r n hl.2 hn
end

end Bolt.WriteTreeL
