/-
Helper lemmas for C07 at tree level (`Bolt.Props.C07Tree`): which page ids the tree the commit
writes still references.  `Put`/`Delete` keep `pgids` (`OpsL.applyOps_pgids`), every
rebalance step only drops page ids (`RebL.rebalanceAt_step`), and `spill` replaces every
materialised node by pieces with a fresh header (`written`, page id 0) while pages stay
verbatim: the non-zero page ids after the spill are a sublist of those before.
-/
import Bolt.Model.BTreeInv
import Bolt.Lemmas.BTreeOps
import Bolt.Lemmas.BTreeReb
import Bolt.Lemmas.BTreeSpill
namespace Bolt.BTree.PagesL
open Bolt Bolt.BTree Bolt.Node
open Bolt.BTree.SpillL (Lt SortedIn kv spillStep)

/-- the old page ids in a list of page ids (0 = newly written) -/
def Kp (l : List Nat) : List Nat := l.filter (· ≠ 0)

theorem Kp_append (a b : List Nat) : Kp (a ++ b) = Kp a ++ Kp b := by
  unfold Kp; rw [List.filter_append]

theorem Kp_sub {a b : List Nat} (h : a.Sublist b) : (Kp a).Sublist (Kp b) := by
  unfold Kp; exact h.filter _

theorem Kp_zero_cons (l : List Nat) : Kp (0 :: l) = Kp l := by
  unfold Kp; simp

/-- page ids of a list of nodes -/
def pgidsL (pcs : List N) : List Nat := (pcs.map pgids).flatten

theorem pgidsL_nil : pgidsL [] = [] := rfl

theorem pgidsL_cons (q : N) (r : List N) : pgidsL (q :: r) = pgids q ++ pgidsL r := by
  unfold pgidsL; rw [List.map_cons, List.flatten_cons]

theorem pgidsL_single (q : N) : pgidsL [q] = pgids q := by
  rw [pgidsL_cons, pgidsL_nil, List.append_nil]

theorem pgidsKids_kv : ∀ pcs : List N, pgidsKids (pcs.map kv) = pgidsL pcs
  | [] => by rw [List.map_nil, OpsL.pgidsKids_nil, pgidsL_nil]
  | q :: r => by
    rw [List.map_cons, pgidsL_cons, ← pgidsKids_kv r]
    unfold kv
    rw [RebL.pgidsKids_cons]

theorem Kp_split_leaf : ∀ segs : List (List Item), Kp (pgidsL (segs.map (N.leaf written))) = []
  | [] => rfl
  | s :: r => by
    rw [List.map_cons, pgidsL_cons, OpsL.pgids_leaf, Kp_append, Kp_split_leaf r]
    rfl

theorem Kp_split_branch : ∀ segs : List (List (Bytes × N)),
    Kp (pgidsL (segs.map (N.branch written))) = Kp (pgidsKids segs.flatten)
  | [] => by rw [List.map_nil, List.flatten_nil, OpsL.pgidsKids_nil, pgidsL_nil]
  | s :: r => by
    rw [List.map_cons, pgidsL_cons, RebL.pgids_branch, Kp_append, Kp_split_branch r,
      List.flatten_cons, RebL.pgidsKids_append, Kp_append]
    show Kp (0 :: pgidsKids s) ++ _ = _
    rw [Kp_zero_cons]

/-! ### `putPieces` / `spillStep` basics -/

theorem putPieces_count : ∀ (pcs : List N) (ks : List (Bytes × N)) (key : Bytes) (r : List (Bytes × N)),
    putPieces ks key pcs = some r → ∀ q ∈ pcs, q.count ≠ 0
  | [], _, _, _, _ => by intro q hq; cases hq
  | p :: rest, ks, key, r, h => by
    rw [putPieces] at h
    by_cases h0 : p.count = 0
    · rw [if_pos h0] at h; cases h
    · rw [if_neg h0] at h
      intro q hq
      rcases List.mem_cons.mp hq with rfl | hq
      · exact h0
      · exact putPieces_count rest _ _ r h q hq

theorem foldl_step_none (ps sth fuel : Nat) : ∀ l : List (Bytes × N),
    l.foldl (spillStep ps sth fuel) none = none
  | [] => rfl
  | _ :: r => by rw [List.foldl_cons]; exact foldl_step_none ps sth fuel r

theorem spillN_zero (ps sth : Nat) (n : N) : spillN ps sth 0 n = none := by
  rw [spillN]

/-- what the induction hypothesis says about a child -/
def ChildP (ps sth fuel : Nat) (pmat : Bool) (c : N) : Prop :=
  ∀ lo hi pcs, inTxN false pmat lo hi c = true → c.count ≠ 0 → spillN ps sth fuel c = some pcs →
    pcs ≠ [] ∧ SortedIn lo hi (pcs.map N.firstKey) ∧ (Kp (pgidsL pcs)).Sublist (Kp (pgids c))

/-- a materialised node without inodes is written as one empty piece -/
theorem spill_count0 (ps sth fuel : Nat) (pmat : Bool) (lo hi : Option Bytes) (c : N) (pcs : List N)
    (hm : c.hd.mat = true) (hin : inTxN false pmat lo hi c = true) (h0 : c.count = 0)
    (hsp : spillN ps sth fuel c = some pcs) : ∃ q ∈ pcs, q.count = 0 := by
  cases c with
  | branch hd kids =>
    rw [inTxN] at hin
    simp only [Bool.and_eq_true, decide_eq_true_eq] at hin
    have := hin.1.1.1.2
    simp only [N.count] at h0
    omega
  | leaf hd items =>
    simp only [N.count] at h0
    have : items = [] := List.eq_nil_of_length_eq_zero h0
    subst this
    cases fuel with
    | zero => rw [spillN_zero] at hsp; cases hsp
    | succ f =>
      rw [SpillL.spillN_empty_leaf ps sth f hd hm] at hsp
      cases hsp
      exact ⟨_, List.mem_cons_self .., rfl⟩

/-! ### the fold over the children of a spilled branch -/

theorem fold_pg (ps sth fuel : Nat) (pmat : Bool) (hi : Option Bytes) (d : Nat) :
    ∀ (post A : List (Bytes × N)) (lo : Option Bytes) (R : List (Bytes × N)),
    (∀ p ∈ post, ChildP ps sth fuel pmat p.2) →
    inTxKids pmat lo hi post d = true →
    SortedIn lo hi (post.map (·.1)) →
    (∀ p ∈ post, p.1 ≠ []) →
    (∀ a ∈ A, ∀ p ∈ post, Bytes.lt a.1 p.1 = true) →
    (A ≠ [] → lo = post.head?.map (·.1)) →
    post.foldl (spillStep ps sth fuel) (some (A ++ post)) = some R →
    ∃ X, R = A ++ X ∧ post.length ≤ X.length ∧
      SortedIn lo hi (X.map (·.1)) ∧ (Kp (pgidsKids X)).Sublist (Kp (pgidsKids post)) := by
  intro post
  induction post with
  | nil =>
    intro A lo R _ _ _ _ _ _ hfold
    simp only [List.foldl_nil, Option.some.injEq] at hfold
    exact ⟨[], hfold.symm, Nat.le_refl _, SpillL.SortedIn_nil _ _, List.Sublist.refl _⟩
  | cons p r ihr =>
    intro A lo R hch hk hs hne hAp hAlo hfold
    obtain ⟨s, c⟩ := p
    rw [inTxKids] at hk
    simp only [Bool.and_eq_true, beq_iff_eq] at hk
    obtain ⟨⟨⟨hsc, hdc⟩, hinc⟩, hkr⟩ := hk
    have hAs : ∀ a ∈ A, Bytes.lt a.1 s = true := fun a ha => hAp a ha (s, c) (List.mem_cons_self ..)
    have hsb := hs.2 s (by simp)
    -- the upper bound of the child is below every later separator
    have hhic : ∀ k, ltHi ((r.head?.map (·.1)).orElse (fun _ => hi)) k = true →
        ∀ b ∈ r, Bytes.lt k b.1 = true := by
      intro k hk b hb
      cases r with
      | nil => cases hb
      | cons p' r' =>
        obtain ⟨s', c'⟩ := p'
        have hk' : Bytes.lt k s' = true := by simpa [ltHi] using hk
        rcases List.mem_cons.mp hb with rfl | hb
        · exact hk'
        · have h2 := (List.pairwise_cons.mp (List.pairwise_cons.mp hs.1).2).1 b.1
            (List.mem_map.mpr ⟨b, hb, rfl⟩)
          exact Bytes.lt_trans hk' h2
    have hshic : ltHi ((r.head?.map (·.1)).orElse (fun _ => hi)) s = true := by
      cases r with
      | nil => simpa using hsb.2
      | cons p' r' =>
        obtain ⟨s', c'⟩ := p'
        have := (List.pairwise_cons.mp hs.1).1 s' (by simp)
        simpa [ltHi] using this
    -- one step of the fold
    have hstep : ∀ S, spillStep ps sth fuel (some (A ++ (s, c) :: r)) (s, c) = some S →
        ∃ Xc, S = A ++ Xc ++ r ∧ 1 ≤ Xc.length ∧
        SortedIn lo ((r.head?.map (·.1)).orElse (fun _ => hi)) (Xc.map (·.1)) ∧
        (Kp (pgidsKids Xc)).Sublist (Kp (pgids c)) := by
      intro S hS
      by_cases hm : c.hd.mat = true
      · -- materialised child: spilled, its pieces re-inserted by key
        rw [if_pos hm] at hsc
        simp only [spillStep, hm, Bool.not_true, Bool.false_eq_true, if_false] at hS
        cases hsp : spillN ps sth fuel c with
        | none => rw [hsp] at hS; cases hS
        | some pieces =>
          rw [hsp] at hS
          simp only at hS
          have hcnt := putPieces_count _ _ _ _ hS
          have hc0 : c.count ≠ 0 := by
            intro h0
            obtain ⟨q, hq, hq0⟩ := spill_count0 ps sth fuel _ _ _ c pieces hm hinc h0 hsp
            exact hcnt q hq hq0
          obtain ⟨hpne, hkeys, hsub⟩ := hch (s, c) (List.mem_cons_self ..) _ _ pieces hinc hc0 hsp
          have hput := SpillL.putPieces_child A r s c pieces (hne (s, c) (List.mem_cons_self ..)) hpne
            hcnt hkeys.1 hAs
            (by
              intro a ha q hq
              have hlo := hAlo (List.ne_nil_of_mem ha)
              simp only [List.head?_cons, Option.map_some] at hlo
              have hge := (hkeys.2 q.firstKey (List.mem_map.mpr ⟨q, hq, rfl⟩)).1
              rw [hlo] at hge
              exact SpillL.lt_of_lt_of_le (hAs a ha) (by simpa [geLo] using hge))
            (by
              intro q hq b hb
              exact hhic _ (hkeys.2 q.firstKey (List.mem_map.mpr ⟨q, hq, rfl⟩)).2 b hb)
          rw [← hsc, hput] at hS
          simp only [Option.some.injEq] at hS
          refine ⟨pieces.map kv, hS.symm, ?_, ?_, ?_⟩
          · rw [List.length_map]
            cases pieces with
            | nil => exact absurd rfl hpne
            | cons a b => simp
          · rw [List.map_map]
            exact hkeys
          · rw [pgidsKids_kv]; exact hsub
      · -- a page stays as it is
        have hm' : c.hd.mat = false := by simpa using hm
        simp only [spillStep, hm', Bool.not_false, if_true, Option.some.injEq] at hS
        refine ⟨[(s, c)], ?_, Nat.le_refl _, ?_, ?_⟩
        · rw [← hS]; simp
        · exact ⟨by simp, by
            intro k hk
            simp only [List.map_cons, List.map_nil, List.mem_singleton] at hk; subst hk
            exact ⟨hsb.1, hshic⟩⟩
        · rw [RebL.pgidsKids_cons, OpsL.pgidsKids_nil, List.append_nil]
          exact List.Sublist.refl _
    rw [List.foldl_cons] at hfold
    cases hS : spillStep ps sth fuel (some (A ++ (s, c) :: r)) (s, c) with
    | none => rw [hS, foldl_step_none] at hfold; cases hfold
    | some S =>
      rw [hS] at hfold
      obtain ⟨Xc, rfl, hl1, hso, hpg⟩ := hstep S hS
      rw [RebL.pgidsKids_cons, Kp_append]
      cases r with
      | nil =>
        simp only [List.foldl_nil, Option.some.injEq] at hfold
        refine ⟨Xc, by rw [← hfold, List.append_nil], by simpa using hl1, by simpa using hso, ?_⟩
        rw [OpsL.pgidsKids_nil, show Kp [] = [] from rfl, List.append_nil]
        exact hpg
      | cons p' r' =>
        obtain ⟨s', c'⟩ := p'
        have hs'b := hs.2 s' (by simp)
        obtain ⟨X', hR, hl1', hso', hpg'⟩ := ihr (A ++ Xc) (some s') R
          (fun p hp => hch p (List.mem_cons_of_mem _ hp)) hkr (SpillL.seps_tail hs)
          (fun p hp => hne p (List.mem_cons_of_mem _ hp))
          (fun a ha p hp => by
            rcases List.mem_append.mp ha with ha | ha
            · exact hAp a ha p (List.mem_cons_of_mem _ hp)
            · exact hhic a.1 (hso.2 a.1 (List.mem_map.mpr ⟨a, ha, rfl⟩)).2 p hp)
          (fun _ => rfl) hfold
        refine ⟨Xc ++ X', ?_, ?_, ?_, ?_⟩
        · rw [hR, List.append_assoc]
        · simp only [List.length_cons, List.length_append] at hl1' ⊢; omega
        · rw [List.map_append]
          exact SpillL.SortedIn_append (by simpa using hso) hso' hs'b.1 hs'b.2
        · rw [RebL.pgidsKids_append, Kp_append]
          exact List.Sublist.append hpg hpg'

/-! ### `spillN` -/

theorem spillN_pg (ps sth : Nat) : ∀ (n : N) (fuel : Nat) (pmat : Bool) (lo hi : Option Bytes) (pcs : List N),
    inTxN false pmat lo hi n = true → n.count ≠ 0 → spillN ps sth fuel n = some pcs →
    pcs ≠ [] ∧ SortedIn lo hi (pcs.map N.firstKey) ∧ (Kp (pgidsL pcs)).Sublist (Kp (pgids n)) := by
  refine SpillL.N_ind ?_ ?_
  · intro hd items fuel pmat lo hi pcs h hc hsp
    cases fuel with
    | zero => rw [spillN_zero] at hsp; cases hsp
    | succ f =>
      rw [inTxN] at h
      simp only [Bool.and_eq_true, List.all_eq_true] at h
      have hne : items ≠ [] := by
        intro h0; subst h0; exact hc rfl
      have hs : SortedIn lo hi (items.map (·.key)) := by
        refine ⟨(SpillL.sortedKeys_iff _).mp h.1.2, ?_⟩
        intro k hk
        obtain ⟨x, hx, rfl⟩ := List.mem_map.mp hk
        exact ⟨(h.2 x hx).1.2, (h.2 x hx).2⟩
      rw [spillN] at hsp
      by_cases hm : hd.mat = true
      · simp only [N.hd, hm, Bool.not_true, Bool.false_eq_true, if_false, Option.some.injEq] at hsp
        subst hsp
        have hg := (SpillL.splitLeaf_good ps sth hd items lo hi hne
          (fun i hi' => by simpa using (h.2 i hi').1.1) hs).1
        refine ⟨hg.ne, hg.keys, ?_⟩
        obtain ⟨segs, heq, _⟩ := SpillL.splitNode_leaf_spec ps sth hd items
        rw [heq, Kp_split_leaf]
        exact List.nil_sublist _
      · have hm' : hd.mat = false := by simpa using hm
        simp only [N.hd, hm', Bool.not_false, if_true, Option.some.injEq] at hsp
        subst hsp
        refine ⟨by simp, ?_, ?_⟩
        · cases items with
          | nil => exact absurd rfl hne
          | cons a r =>
            refine SpillL.SortedIn_sublist ?_ hs
            simp [N.firstKey]
        · rw [pgidsL_single]; exact List.Sublist.refl _
  · intro hd kids ih fuel pmat lo hi pcs h hc hsp
    cases fuel with
    | zero => rw [spillN_zero] at hsp; cases hsp
    | succ f =>
      rw [inTxN] at h
      simp only [Bool.and_eq_true, List.all_eq_true, decide_eq_true_eq] at h
      obtain ⟨⟨⟨⟨_, h2⟩, hsk⟩, hall⟩, hk⟩ := h
      have hs : SortedIn lo hi (kids.map (·.1)) := by
        refine ⟨(SpillL.sortedKeys_iff _).mp hsk, ?_⟩
        intro k hk
        obtain ⟨x, hx, rfl⟩ := List.mem_map.mp hk
        exact ⟨(hall x hx).1.2, (hall x hx).2⟩
      generalize hdd : ((kids.head?.map (fun p => depth p.2)).getD 0) = d at hk
      have hkne : kids ≠ [] := by intro h0; subst h0; simp at h2
      rw [SpillL.spillN_branch] at hsp
      by_cases hm : hd.mat = true
      · simp only [hm, Bool.not_true, Bool.false_eq_true, if_false] at hsp
        cases hfold : kids.foldl (spillStep ps sth f) (some kids) with
        | none => rw [hfold] at hsp; cases hsp
        | some kids' =>
          rw [hfold] at hsp
          simp only [Option.some.injEq] at hsp
          subst hsp
          have hfold' : kids.foldl (spillStep ps sth f) (some ([] ++ kids)) = some kids' := by
            rw [List.nil_append]; exact hfold
          obtain ⟨X, hR, hl1, hso, hpg⟩ := fold_pg ps sth f hd.mat hi d kids [] lo kids'
            (fun p hp lo' hi' pcs' hin hc' hsp' => ih p hp f hd.mat lo' hi' pcs' hin hc' hsp')
            hk hs
            (fun p hp h0 => by have := (hall p hp).1.1; rw [h0] at this; simp at this)
            (by intro a ha; cases ha) (fun h0 => absurd rfl h0) hfold'
          rw [List.nil_append] at hR
          subst hR
          obtain ⟨segs, heq, hflat, hsne, hpos⟩ := SpillL.splitNode_branch_spec ps sth hd kids'
          have hpos := hpos (by omega)
          have hpos' : ∀ s ∈ segs, s ≠ [] := fun s hs h0 => by
            have := hpos s hs; subst h0; simp at this
          rw [heq]
          refine ⟨?_, ?_, ?_⟩
          · intro h0; exact hsne (List.map_eq_nil_iff.mp h0)
          · rw [List.map_map]
            refine SpillL.SortedIn_sublist ?_ hso
            rw [← hflat]
            exact SpillL.heads_sublist (fun p : Bytes × N => p.1) _
              (fun a r => by simp [N.firstKey]) segs hpos'
          · rw [Kp_split_branch, hflat, RebL.pgids_branch]
            exact hpg.trans (Kp_sub (List.sublist_cons_self _ _))
      · have hm' : hd.mat = false := by simpa using hm
        simp only [hm', Bool.not_false, if_true, Option.some.injEq] at hsp
        subst hsp
        refine ⟨by simp, ?_, ?_⟩
        · cases kids with
          | nil => exact absurd rfl hkne
          | cons a r =>
            refine SpillL.SortedIn_sublist ?_ hs
            simp [N.firstKey]
        · rw [pgidsL_single]; exact List.Sublist.refl _

/-! ### `growRoot` / `spillRoot` -/

theorem growRoot_pg (ps sth : Nat) : ∀ (fuel : Nat) (pcs : List N) (t' : N),
    (pcs.map N.firstKey).Pairwise Lt → growRoot ps sth fuel pcs = some t' →
    (Kp (pgids t')).Sublist (Kp (pgidsL pcs)) := by
  intro fuel
  induction fuel with
  | zero =>
    intro pcs t' _ h
    rw [growRoot] at h; cases h
  | succ f ih =>
    intro pcs t' hp h
    cases pcs with
    | nil => simp [growRoot] at h
    | cons p1 rest =>
      cases rest with
      | nil =>
        rw [growRoot.eq_3 _ _ _ _ (by omega)] at h
        cases h
        rw [pgidsL_single]; exact List.Sublist.refl _
      | cons p2 rest =>
        rw [growRoot.eq_4 _ _ _ _ (by simp) (by simp)] at h
        cases hput : putPieces [] [] (p1 :: p2 :: rest) with
        | none => rw [hput] at h; cases h
        | some kids =>
          rw [hput] at h
          simp only at h
          have hcnt := putPieces_count _ _ _ _ hput
          have hput' := SpillL.putPieces_rest (p1 :: p2 :: rest) [] [] hcnt hp
            (by intro a ha; cases ha) (by intro q _ b hb; cases hb)
          simp only [List.nil_append, List.append_nil] at hput'
          rw [hput'] at hput
          cases hput
          obtain ⟨segs, heq, hflat, hsne, hpos⟩ :=
            SpillL.splitNode_branch_spec ps sth written ((p1 :: p2 :: rest).map kv)
          have hpos := hpos (by simp)
          have hpos' : ∀ s ∈ segs, s ≠ [] := fun s hs h0 => by
            have := hpos s hs; subst h0; simp at this
          rw [heq] at h
          have hp2 : ((segs.map (N.branch written)).map N.firstKey).Pairwise Lt := by
            rw [List.map_map]
            have hsub := SpillL.heads_sublist (fun p : Bytes × N => p.1)
              (N.firstKey ∘ N.branch written) (fun a r => by simp [N.firstKey]) segs hpos'
            refine List.Pairwise.sublist hsub ?_
            rw [hflat, List.map_map]
            exact hp
          have := ih _ t' hp2 h
          rw [Kp_split_branch, hflat, pgidsKids_kv] at this
          exact this

theorem spillRoot_pg (ps sth fuel : Nat) (t t' : N) (hi : inTxN true true none none t = true)
    (h : spillRoot ps sth fuel t = some t') : (Kp (pgids t')).Sublist (Kp (pgids t)) := by
  unfold spillRoot at h
  by_cases hm : t.hd.mat = true
  · simp only [hm, Bool.not_true, Bool.false_eq_true, if_false] at h
    cases hsp : spillN ps sth fuel t with
    | none => rw [hsp] at h; cases h
    | some pcs =>
      rw [hsp] at h
      simp only at h
      by_cases he : ∃ hd, t = .leaf hd []
      · obtain ⟨hd, rfl⟩ := he
        cases fuel with
        | zero => rw [spillN_zero] at hsp; cases hsp
        | succ f =>
          rw [SpillL.spillN_empty_leaf ps sth f hd hm] at hsp
          cases hsp
          rw [growRoot.eq_3 _ _ _ _ (Nat.succ_ne_zero f)] at h
          cases h
          rw [OpsL.pgids_leaf]
          exact List.nil_sublist _
      · have hin := SpillL.inTx_nonroot hi (fun hd h0 => he ⟨hd, h0⟩)
        have hc : t.count ≠ 0 := by
          cases t with
          | leaf hd items =>
            cases items with
            | nil => exact absurd ⟨hd, rfl⟩ he
            | cons a r => simp [N.count]
          | branch hd kids =>
            rw [inTxN] at hin
            simp only [Bool.and_eq_true, decide_eq_true_eq] at hin
            have := hin.1.1.1.2
            simp only [N.count]; omega
        obtain ⟨_, hkeys, hsub⟩ := spillN_pg ps sth t fuel true none none pcs hin hc hsp
        exact (growRoot_pg ps sth fuel pcs t' hkeys.1 h).trans hsub
  · have hm' : t.hd.mat = false := by simpa using hm
    simp only [hm', Bool.not_false, if_true, Option.some.injEq] at h
    subst h
    exact List.Sublist.refl _

/-! ### rebalance -/

theorem rebalanceAll_sub (th fuel : Nat) : ∀ (order : List Nat) (t t' : N), (pgids t).Nodup →
    rebalanceAll th fuel t order = some t' → (pgids t').Sublist (pgids t)
  | [], t, t', _, h => by
    simp only [rebalanceAll, Option.some.injEq] at h
    subst h
    exact List.Sublist.refl _
  | pg :: rest, t, t', hn, h => by
    rw [rebalanceAll] at h
    cases hfm : findMat pg fuel t with
    | none =>
      rw [hfm] at h
      exact rebalanceAll_sub th fuel rest t t' hn h
    | some path =>
      rw [hfm] at h
      simp only at h
      obtain ⟨n, hn1, _, hn3⟩ := RebL.findMat_nodeAt hfm
      cases h1 : rebalanceAt th t path with
      | none => rw [h1] at h; cases h
      | some t1 =>
        rw [h1] at h
        simp only at h
        obtain ⟨s1, _, _⟩ := RebL.rebalanceAt_step hn1 hn3 hn h1
        exact (rebalanceAll_sub th fuel rest t1 t' (List.Nodup.sublist s1 hn) h).trans s1

end Bolt.BTree.PagesL
