import Bolt.Model.BTreeInv
namespace Bolt.BTree.PagesL
open Bolt Bolt.BTree

end Bolt.BTree.PagesL
