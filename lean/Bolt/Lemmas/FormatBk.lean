import Bolt.Lemmas.FormatTree
import Bolt.Model.BktInv
namespace Bolt.FormatBkL
open Bolt Bolt.BTree Bolt.Bkt

end Bolt.FormatBkL
