/-
Helper lemmas for `Bolt.Props.C12Bk`: the independent reader of `Model/Format.lean` on the
elements of a leaf page that may hold nested buckets — one element at a time (`decodeItem`): a
plain value, a nested bucket with its own pages (the reader goes on at the root page named in the
16-byte header), an inline bucket (the leaf image inside the value is read back) — and the
look-up of an attached nested bucket by name.
-/
import Bolt.Lemmas.FormatTree
import Bolt.Model.BktInv
namespace Bolt.FormatBkL
open Bolt Bolt.BTree Bolt.Bkt Bolt.Enc Bolt.FormatTreeL

/-- what `decodeLeafItems` does with one element -/
def decodeItem (f : File) (ps hwm fuel : Nat) (e : LeafElem) (ph : Phys) : (Bytes × SVal) × Phys :=
  if e.flags % 2 = 1 then
    if e.val.length < V2.bucketHeaderSize then ((e.key, SVal.bkt 0 []), ph.err "bucket value shorter than its header") else
    let root := getLE (e.val.take 8)
    let seq := getLE ((e.val.drop 8).take 8)
    if root = 0 then
      let g : File := { size := e.val.length, get := fun i => e.val.getD i 0 }
      let h := pageHdrAt g V2.bucketHeaderSize
      if h.flags ≠ V2.leafPageFlag then ((e.key, SVal.bkt seq []), ph.err "inline bucket page is not a leaf") else
      match leafElems g V2.bucketHeaderSize e.val.length h.count with
      | none => ((e.key, SVal.bkt seq []), ph.err "inline bucket element outside its value")
      | some es =>
        let ph := if keysAscending (es.map (·.key)) then ph else ph.err "inline bucket keys not ascending"
        let ph := if es.any (fun x => x.flags % 2 = 1) then ph.err "inline bucket holds a nested bucket" else ph
        ((e.key, SVal.bkt seq (es.map (fun x => (x.key, SVal.val x.val)))), ph)
    else
      let (ents, ph) := decodeTree f ps hwm fuel root ph
      ((e.key, SVal.bkt seq ents), ph)
  else ((e.key, SVal.val e.val), ph)

theorem decodeLeafItems_nil (f : File) (ps hwm fuel : Nat) (ph : Phys) :
    decodeLeafItems f ps hwm fuel [] ph = ([], ph) := by rw [decodeLeafItems]

theorem decodeLeafItems_cons (f : File) (ps hwm fuel : Nat) (e : LeafElem) (rest : List LeafElem) (ph : Phys) :
    decodeLeafItems f ps hwm fuel (e :: rest) ph =
      ((decodeItem f ps hwm fuel e ph).1 :: (decodeLeafItems f ps hwm fuel rest (decodeItem f ps hwm fuel e ph).2).1,
       (decodeLeafItems f ps hwm fuel rest (decodeItem f ps hwm fuel e ph).2).2) := by
  rw [decodeLeafItems]; rfl


theorem decodeItem_plain (f : File) (ps hwm fuel : Nat) (e : LeafElem) (ph : Phys)
    (h : ¬ e.flags % 2 = 1) : decodeItem f ps hwm fuel e ph = ((e.key, SVal.val e.val), ph) := by
  unfold decodeItem; rw [if_neg h]

theorem hdr_root (root seq : Nat) (rest : Bytes) (hr : root < 2^64) :
    getLE ((putLE 8 root ++ putLE 8 seq ++ rest).take 8) = root := by
  rw [List.append_assoc, List.take_left' (putLE_length 8 root)]
  exact getLE_putLE_of_lt (by simpa using hr)

theorem hdr_seq (root seq : Nat) (rest : Bytes) (hs : seq < 2^64) :
    getLE (((putLE 8 root ++ putLE 8 seq ++ rest).drop 8).take 8) = seq := by
  rw [List.append_assoc, List.drop_left' (putLE_length 8 root), List.take_left' (putLE_length 8 seq)]
  exact getLE_putLE_of_lt (by simpa using hs)

/-- a nested bucket with its own pages: the reader goes on at the root page of the header -/
theorem decodeItem_paged (f : File) (ps hwm fuel : Nat) (e : LeafElem) (ph ph' : Phys) (root seq : Nat)
    (ents : List (Bytes × SVal))
    (hfl : e.flags % 2 = 1) (hv : e.val = putLE 8 root ++ putLE 8 seq ++ []) (hr0 : root ≠ 0)
    (hr : root < 2^64) (hs : seq < 2^64)
    (h : decodeTree f ps hwm fuel root ph = (ents, ph')) :
    decodeItem f ps hwm fuel e ph = ((e.key, SVal.bkt seq ents), ph') := by
  unfold decodeItem
  have hlen : ¬ e.val.length < V2.bucketHeaderSize := by
    rw [hv]; simp [V2.bucketHeaderSize]
  rw [if_pos hfl, if_neg hlen]
  simp only []
  rw [hv, hdr_root root seq [] hr, hdr_seq root seq [] hs, if_neg hr0, h]

/-- an inline bucket: the leaf image inside the value is read back -/
theorem decodeItem_inline (f : File) (ps hwm fuel : Nat) (e : LeafElem) (ph : Phys) (seq : Nat)
    (es : List LeafElem)
    (hfl : e.flags % 2 = 1) (hv : e.val = putLE 8 0 ++ putLE 8 seq ++ leafPage 0 0 es)
    (hs : seq < 2^64) (hn : es.length < 0xFFFF) (hlen : e.val.length < 2^32)
    (hflags : ∀ x ∈ es, x.flags % 2 = 0 ∧ x.flags < 2^32)
    (hsorted : sortedKeys (es.map (·.key)) = true) :
    decodeItem f ps hwm fuel e ph =
      ((e.key, SVal.bkt seq (es.map (fun x => (x.key, SVal.val x.val)))), ph) := by
  have hvl : e.val.length = 16 + (leafPage 0 0 es).length := by rw [hv]; simp only [List.length_append, putLE_length]
  have hold : ∀ i, i < (leafPage 0 0 es).length →
      (fileOf e.val).get (16 + i) = (leafPage 0 0 es).getD i 0 := by
    intro i hi
    have := fileOf_get_append (putLE 8 0 ++ putLE 8 seq) (leafPage 0 0 es) i hi
    rw [hv]
    simp only [List.length_append, putLE_length] at this
    rw [this, List.getD_eq_getElem?_getD, List.getElem?_eq_getElem hi]; rfl
  obtain ⟨hh, he⟩ := leaf_at (fileOf e.val) 16 (leafPage 0 0 es).length 0 0 es hold (by decide) (by decide)
    hn (by omega) (Nat.le_refl _) (fun x hx => (hflags x hx).2)
  rw [← hvl] at he
  have hany : es.any (fun x => x.flags % 2 = 1) = false := by
    rw [List.any_eq_false]
    intro x hx
    have := (hflags x hx).1
    simp; omega
  unfold decodeItem
  have hlen : ¬ e.val.length < V2.bucketHeaderSize := by
    rw [hvl]; simp [V2.bucketHeaderSize]
  rw [if_pos hfl, if_neg hlen]
  have e1 : getLE (e.val.take 8) = 0 := by rw [hv]; exact hdr_root 0 seq _ (by decide)
  have e2 : getLE ((e.val.drop 8).take 8) = seq := by rw [hv]; exact hdr_seq 0 seq _ hs
  simp only [e1, e2, if_true]
  change (if (pageHdrAt (fileOf e.val) 16).flags ≠ V2.leafPageFlag then _ else
    match leafElems (fileOf e.val) 16 e.val.length (pageHdrAt (fileOf e.val) 16).count with
    | none => _
    | some es => _) = _
  rw [hh]
  simp only [ne_eq, not_true_eq_false, if_false, he, keysAscending_eq, hsorted, hany, if_true]
  rfl


/-- the reader on a leaf page (bucket elements allowed) held at its page offset: it goes on with
    the elements -/
theorem decodeTree_leafG (f : File) (ps hwm fuel pg ov : Nat) (ph : Phys) (es : List LeafElem)
    (hps : 0 < ps)
    (hold : ∀ i, i < (leafPage pg ov es).length → f.get (pg * ps + i) = (leafPage pg ov es).getD i 0)
    (h2 : 2 ≤ pg) (hhwm : pg + ov < hwm) (hw : hwm < 2^64) (hn : es.length < 0xFFFF)
    (hspan : (ov + 1) * ps < 2^32) (hsz : (leafPage pg ov es).length ≤ (ov + 1) * ps)
    (hfl : ∀ e ∈ es, e.flags < 2^32)
    (hsorted : sortedKeys (es.map (·.key)) = true) (hne : ∀ e ∈ es, e.key ≠ []) :
    decodeTree f ps hwm (fuel + 1) pg ph =
      decodeLeafItems f ps hwm fuel es
        { pages := ph.pages ++ [(pg, ov, V2.leafPageFlag)], errors := ph.errors } := by
  obtain ⟨hh, he⟩ := leaf_at f (pg * ps) ((ov + 1) * ps) pg ov es hold (by omega)
    (span_lt ov ps hps hspan) hn hspan hsz hfl
  rw [decodeTree]
  have hany : es.any (fun e => e.key.isEmpty) = false := by
    rw [List.any_eq_false]
    intro e h
    simp only [List.isEmpty_iff]
    exact hne e h
  simp only [hh, he, keysAscending_eq, hsorted, hany]
  rw [if_neg (show ¬ (pg < 2 ∨ pg ≥ hwm) by omega)]
  simp only [ne_eq, not_true_eq_false, if_false, if_true]
  rw [if_neg (show ¬ (pg + ov ≥ hwm) by omega)]
  rfl

/-- element by element: if every element decodes to `ent e` without a new error, so does the list -/
theorem decodeLeafItems_spec (f : File) (ps hwm fuel : Nat) (ent : LeafElem → Bytes × SVal) :
    ∀ (es : List LeafElem) (ph : Phys),
    (∀ e ∈ es, ∀ ph : Phys, ∃ ph', decodeItem f ps hwm fuel e ph = (ent e, ph') ∧ ph'.errors = ph.errors) →
    ∃ ph', decodeLeafItems f ps hwm fuel es ph = (es.map ent, ph') ∧ ph'.errors = ph.errors
  | [], ph, _ => ⟨ph, by rw [decodeLeafItems_nil]; rfl, rfl⟩
  | e :: rest, ph, h => by
    obtain ⟨ph1, h1, e1⟩ := h e (List.mem_cons_self ..) ph
    obtain ⟨ph2, h2, e2⟩ := decodeLeafItems_spec f ps hwm fuel ent rest ph1
      (fun x hx => h x (List.mem_cons_of_mem _ hx))
    refine ⟨ph2, ?_, e2.trans e1⟩
    rw [decodeLeafItems_cons, h1, h2]
    rfl

/-! ### attached nested buckets by name -/

theorem lookupBk_mem {k : Bytes} {c : Bk} : ∀ {o : List (Bytes × Bk)}, lookupBk k o = some c → (k, c) ∈ o
  | [], h => by simp [lookupBk] at h
  | q :: r, h => by
    unfold lookupBk at h
    rw [List.find?_cons] at h
    by_cases hq : (q.1 == k) = true
    · rw [hq] at h
      simp only [Option.map_some, Option.some.injEq] at h
      have : q.1 = k := by simpa using hq
      obtain ⟨q1, q2⟩ := q
      simp only at this h
      subst this; subst h
      exact List.mem_cons_self ..
    · have hq' : (q.1 == k) = false := by simpa using hq
      rw [hq'] at h
      exact List.mem_cons_of_mem _ (lookupBk_mem (o := r) h)

theorem lookupBk_of_name {k : Bytes} : ∀ {o : List (Bytes × Bk)}, k ∈ o.map (·.1) → ∃ c, lookupBk k o = some c
  | [], h => by cases h
  | q :: r, h => by
    unfold lookupBk
    rw [List.find?_cons]
    by_cases hq : (q.1 == k) = true
    · rw [hq]; exact ⟨q.2, rfl⟩
    · have hq' : (q.1 == k) = false := by simpa using hq
      rw [hq']
      have : k ∈ r.map (·.1) := by
        rcases List.mem_cons.mp h with h | h
        · exact absurd (by simp [h]) hq
        · exact h
      exact lookupBk_of_name (o := r) this

theorem origOkG_zero (ids : Bool) (b : Bk) : origOkG ids 0 b = false := by rw [origOkG]

theorem origOkG_succ (ids : Bool) (f : Nat) (b : Bk) :
    origOkG ids (f+1) b = true ↔
      Committed b.tree ∧ (ids = true → (pgids b.tree).Nodup) ∧ depth b.tree ≤ f ∧
      b.opened.map (·.1) = bucketNames b.tree ∧ ∀ q ∈ b.opened, origOkG ids f q.2 = true := by
  cases b with
  | mk r s t o =>
    rw [origOkG]
    cases ids <;>
    simp only [Bk.tree, Bk.opened, Bool.and_eq_true, decide_eq_true_eq, List.all_eq_true, beq_iff_eq,
      and_assoc, Bool.not_true, Bool.not_false, Bool.false_or,
      Bool.true_or, true_and, Bool.false_eq_true, false_imp_iff, forall_const]

/-- a bucket element's key is one of the tree's bucket names -/
theorem mem_bucketNames {t : N} {i : Item} (hi : i ∈ flatten t) (hf : i.flags % 2 = 1) :
    i.key ∈ bucketNames t := by
  unfold bucketNames
  rw [List.mem_filterMap]
  exact ⟨i, hi, by rw [if_pos hf]⟩

theorem bucketNames_nil {t : N} (h : bucketNames t = []) : ∀ i ∈ flatten t, i.flags % 2 = 0 := by
  intro i hi
  by_cases hf : i.flags % 2 = 1
  · have := mem_bucketNames hi hf
    rw [h] at this; cases this
  · omega

end Bolt.FormatBkL
