/-
Helper lemmas for C15 on the bucket model (`Bolt.Props.C15Bkt`): the list of destination calls of
`Compact`, folded with `specCall`, is the compaction walk `Compact.walkEnts` below the top bucket;
folds of `specCall` over histories / with content-neutral calls filtered out.
-/
import Bolt.Lemmas.NestedMap
import Bolt.Props.C04BktTx
namespace Bolt.CompactBktL
open Bolt Bolt.Bkt Bolt.C04Bkt Bolt.Compact

/-- the destination calls for the entries of the bucket at `path` (the same equations as
    `C15Bkt.compactCalls`, which is shown equal to it there) -/
def calls (path : List Bytes) : Ents → List Call
  | [] => []
  | (k, .val v) :: rest => Call.put path k v :: calls path rest
  | (k, .bkt s e) :: rest =>
    Call.createBucket path k :: Call.setSequence (path ++ [k]) s :: (calls (path ++ [k]) e ++ calls path rest)

/-- any function with the three defining equations is `calls` -/
theorem calls_unique (f : List Bytes → Ents → List Call)
    (h1 : ∀ path, f path [] = [])
    (h2 : ∀ path k v rest, f path ((k, .val v) :: rest) = Call.put path k v :: f path rest)
    (h3 : ∀ path k s e rest, f path ((k, .bkt s e) :: rest) =
      Call.createBucket path k :: Call.setSequence (path ++ [k]) s :: (f (path ++ [k]) e ++ f path rest)) :
    ∀ (ents : Ents) (path : List Bytes), f path ents = calls path ents := by
  intro ents
  induction ents using ents_induction with
  | nil => intro path; rw [h1, calls]
  | consVal k v rest ih => intro path; rw [h2, calls, ih]
  | consBkt k s e rest ihe ihrest => intro path; rw [h3, calls, ihe, ihrest]

/-- `calls` is empty only for an empty entry list -/
theorem calls_eq_nil {path : List Bytes} {ents : Ents} (h : calls path ents = []) : ents = [] := by
  cases ents with
  | nil => rfl
  | cons p rest =>
    obtain ⟨k, v⟩ := p
    cases v <;> simp [calls] at h

/-! ### the walk stops at the first error -/

theorem visit_of_err {limit : Nat} {a : Acc} {path : List Bytes} {k : Bytes} {v : Option Bytes} {seq : Nat}
    (h : a.err.isSome = true) : visit limit a path k v seq = a := by
  unfold visit
  simp [h]

theorem walkEnts_of_err (limit : Nat) : ∀ (ents : Ents) (path : List Bytes) (a : Acc),
    a.err.isSome = true → walkEnts limit path ents a = a := by
  intro ents
  induction ents using ents_induction with
  | nil => intro path a _; rw [walkEnts.eq_1]
  | consVal k v rest ih =>
    intro path a h
    rw [walkEnts.eq_2, visit_of_err h, ih _ _ h]
  | consBkt k s e rest ihe ihrest =>
    intro path a h
    rw [walkEnts.eq_3, walkBucket, visit_of_err h, ihe _ _ h, ihrest _ _ h]

/-- no error at the end: no error before -/
theorem err_none_of_walkEnts {limit : Nat} {ents : Ents} {path : List Bytes} {a : Acc}
    (h : (walkEnts limit path ents a).err = none) : a.err = none := by
  cases he : a.err with
  | none => rfl
  | some e =>
    have hs : a.err.isSome = true := by rw [he]; rfl
    rw [walkEnts_of_err limit ents path a hs, he] at h
    cases h

/-! ### a visit without error made the API calls successfully -/

theorem visit_put_inv {limit : Nat} {a : Acc} {path : List Bytes} {k x : Bytes}
    (ha : a.err = none) (h : (visit limit a path k (some x) 0).err = none) :
    apiPut a.dst path k x = .ok (visit limit a path k (some x) 0).dst := by
  cases hp : apiPut a.dst path k x with
  | error e =>
    exfalso
    unfold visit at h
    simp [ha, hp] at h
  | ok d => rw [(visit_put_ok (limit := limit) ha hp).2]

theorem visit_bucket_inv {limit : Nat} {a : Acc} {path : List Bytes} {k : Bytes} {seq : Nat}
    (ha : a.err = none) (h : (visit limit a path k none seq).err = none) :
    ∃ d1, apiCreateBucket a.dst path k false = .ok d1 ∧
      apiSetSequence d1 (path ++ [k]) seq = .ok (visit limit a path k none seq).dst := by
  cases h1 : apiCreateBucket a.dst path k false with
  | error e =>
    exfalso
    unfold visit at h
    simp [ha, h1] at h
  | ok d1 =>
    cases h2 : apiSetSequence d1 (path ++ [k]) seq with
    | error e =>
      exfalso
      unfold visit at h
      simp [ha, h1, h2] at h
    | ok d2 => exact ⟨d1, rfl, by rw [(visit_bucket_ok (limit := limit) ha h1 h2).2]; exact h2⟩

/-! ### the calls, folded with `specCall`, are the walk below the top bucket -/

theorem specCall_put_ok {s d : SVal} {path : List Bytes} {k v : Bytes}
    (h : apiPut s (topName :: path) k v = .ok d) : specCall s (.put path k v) = d := by
  simp only [specCall, apiPath, h, orOld]

theorem specCall_createBucket_ok {s d : SVal} {path : List Bytes} {k : Bytes}
    (h : apiCreateBucket s (topName :: path) k false = .ok d) : specCall s (.createBucket path k) = d := by
  simp only [specCall, apiPath, h, orOld]

theorem specCall_setSequence_ok {s d : SVal} {path : List Bytes} {n : Nat}
    (h : apiSetSequence s (topName :: path) n = .ok d) : specCall s (.setSequence path n) = d := by
  simp only [specCall, apiPath, h, orOld]

/-- if the walk at `topName :: path` ends without error, the calls give its destination -/
theorem calls_foldl_eq_walk (limit : Nat) : ∀ (ents : Ents) (path : List Bytes) (a : Acc),
    (walkEnts limit (topName :: path) ents a).err = none →
    (calls path ents).foldl specCall a.dst = (walkEnts limit (topName :: path) ents a).dst := by
  intro ents
  induction ents using ents_induction with
  | nil => intro path a _; rw [walkEnts.eq_1, calls, List.foldl_nil]
  | consVal k v rest ih =>
    intro path a h
    have ha := err_none_of_walkEnts h
    rw [walkEnts.eq_2] at h ⊢
    have ha1 := err_none_of_walkEnts h
    rw [calls, List.foldl_cons, specCall_put_ok (visit_put_inv ha ha1)]
    exact ih path _ h
  | consBkt k s e rest ihe ihrest =>
    intro path a h
    have ha := err_none_of_walkEnts h
    rw [walkEnts.eq_3, walkBucket] at h ⊢
    have ha2 := err_none_of_walkEnts h
    have ha1 := err_none_of_walkEnts ha2
    obtain ⟨d1, hc, hs⟩ := visit_bucket_inv ha ha1
    rw [calls, List.foldl_cons, List.foldl_cons, List.foldl_append, specCall_createBucket_ok hc,
      specCall_setSequence_ok (by rw [← List.cons_append]; exact hs)]
    rw [ihe (path ++ [k]) _ (by rw [← List.cons_append]; exact ha2), ← List.cons_append]
    exact ihrest path _ h

/-- **the calls rebuild the entries below an empty top bucket** -/
theorem calls_rebuild (ents : Ents) (hwf : SWF (.bkt 0 ents)) (hk : KeysOK (.bkt 0 ents)) :
    (calls [] ents).foldl specCall (.bkt 0 [(topName, .bkt 0 [])]) = .bkt 0 [(topName, .bkt 0 ents)] := by
  have ⟨h1, h2⟩ := (swf_bkt _ _).mp hwf
  have h0 : SWF (.bkt 0 []) := (swf_bkt _ _).mpr ⟨List.Pairwise.nil, by simp⟩
  have htop : SWF (.bkt 0 [(topName, .bkt 0 [])]) :=
    (swf_bkt _ _).mpr ⟨List.pairwise_singleton _ _, by intro p hp; rw [List.mem_singleton.mp hp]; exact h0⟩
  have hk' : EntsKeysOK ents := by rw [KeysOK] at hk; exact hk
  have hb : bucketAt [topName] (.bkt 0 [(topName, .bkt 0 [])]) = some (0, []) := by
    simp [bucketAt, entsLookup]
  have hw := walkEnts_spec 0 ents [topName]
    { dst := .bkt 0 [(topName, .bkt 0 [])], size := 0, commits := 0, err := none } 0 []
    rfl htop hb (by simpa using h1) h2 hk' (fun hp => by cases hp)
  have := calls_foldl_eq_walk 0 ents []
    { dst := .bkt 0 [(topName, .bkt 0 [])], size := 0, commits := 0, err := none } hw.1
  rw [hw.2] at this
  rw [this]
  simp [setBucketAt]

/-! ### folds of `specCall` -/

/-- the calls of a history, transaction after transaction = all calls in one list -/
theorem foldl_flatten {α : Type} (f : α → List Call) : ∀ (recs : List α) (s : SVal),
    recs.foldl (fun s r => (f r).foldl specCall s) s = ((recs.map f).flatten).foldl specCall s
  | [], s => rfl
  | r :: rest, s => by
    rw [List.foldl_cons, List.map_cons, List.flatten_cons, List.foldl_append, foldl_flatten f rest]

/-- leaving out calls that change nothing -/
theorem foldl_filter_neutral (p : Call → Bool) (hp : ∀ c s, p c = false → specCall s c = s) :
    ∀ (cs : List Call) (s : SVal), (cs.filter p).foldl specCall s = cs.foldl specCall s
  | [], s => rfl
  | c :: cs, s => by
    cases hc : p c with
    | true => rw [List.filter_cons_of_pos hc, List.foldl_cons, List.foldl_cons, foldl_filter_neutral p hp cs]
    | false =>
      rw [List.filter_cons_of_neg (by simp [hc]), List.foldl_cons, hp c s hc, foldl_filter_neutral p hp cs]

/-! ### the destination calls grouped by destination transaction (`Compact.compactTxs`) -/

/-- one callback: the calls are appended, in the current or in a new transaction -/
theorem txVisit_flatten (limit : Nat) (a : TxAcc) (sz : Nat) (cs : List DstCall) :
    ((txVisit limit a sz cs).done ++ [(txVisit limit a sz cs).cur]).flatten =
      (a.done ++ [a.cur]).flatten ++ cs := by
  unfold txVisit
  split <;> simp [List.flatten_append]

/-- the grouped walk appends exactly `dstCalls` -/
theorem txEnts_flatten (limit : Nat) : ∀ (ents : Ents) (path : List Bytes) (a : TxAcc),
    ((txEnts limit path ents a).done ++ [(txEnts limit path ents a).cur]).flatten =
      (a.done ++ [a.cur]).flatten ++ dstCalls path ents := by
  intro ents
  induction ents using ents_induction with
  | nil => intro path a; rw [txEnts.eq_1, dstCalls.eq_1, List.append_nil]
  | consVal k v rest ih =>
    intro path a
    rw [txEnts.eq_2, dstCalls.eq_2, ih, txVisit_flatten, List.append_assoc, List.singleton_append]
  | consBkt k s e rest ihe ihrest =>
    intro path a
    rw [txEnts.eq_3, dstCalls.eq_3, ihrest, ihe, txVisit_flatten]
    simp only [List.append_assoc, List.cons_append, List.nil_append]

/-- the size / transaction counters of the grouped walk and of the content walk agree -/
def TxRel (a : TxAcc) (b : Acc) : Prop := a.size = b.size ∧ a.done.length = b.commits

theorem txVisit_put_rel {limit : Nat} {a : TxAcc} {b : Acc} {path : List Bytes} {k x : Bytes}
    (cs : List DstCall) (hb : b.err = none) (h : (visit limit b path k (some x) 0).err = none)
    (hr : TxRel a b) :
    TxRel (txVisit limit a (k.length + x.length) cs) (visit limit b path k (some x) 0) := by
  obtain ⟨hs, hc⟩ := hr
  cases hp : apiPut b.dst path k x with
  | error e =>
    exfalso
    unfold visit at h
    simp [hb, hp] at h
  | ok d =>
    unfold visit txVisit TxRel
    simp only [hb, hp, hs]
    split <;> simp [hc]

theorem txVisit_bucket_rel {limit : Nat} {a : TxAcc} {b : Acc} {path : List Bytes} {k : Bytes} {seq : Nat}
    (cs : List DstCall) (hb : b.err = none) (h : (visit limit b path k none seq).err = none)
    (hr : TxRel a b) :
    TxRel (txVisit limit a k.length cs) (visit limit b path k none seq) := by
  obtain ⟨hs, hc⟩ := hr
  cases h1 : apiCreateBucket b.dst path k false with
  | error e =>
    exfalso
    unfold visit at h
    simp [hb, h1] at h
  | ok d1 =>
    cases h2 : apiSetSequence d1 (path ++ [k]) seq with
    | error e =>
      exfalso
      unfold visit at h
      simp [hb, h1, h2] at h
    | ok d2 =>
      unfold visit txVisit TxRel
      simp only [hb, h1, h2, hs, Nat.add_zero]
      split <;> simp [hc]

/-- if the content walk ends without error, the counters agree all along -/
theorem txEnts_rel (limit : Nat) : ∀ (ents : Ents) (path : List Bytes) (a : TxAcc) (b : Acc),
    (walkEnts limit path ents b).err = none → TxRel a b →
    TxRel (txEnts limit path ents a) (walkEnts limit path ents b) := by
  intro ents
  induction ents using ents_induction with
  | nil => intro path a b _ hr; rw [txEnts.eq_1, walkEnts.eq_1]; exact hr
  | consVal k v rest ih =>
    intro path a b h hr
    have hb := err_none_of_walkEnts h
    rw [walkEnts.eq_2] at h ⊢
    rw [txEnts.eq_2]
    exact ih path _ _ h (txVisit_put_rel _ hb (err_none_of_walkEnts h) hr)
  | consBkt k s e rest ihe ihrest =>
    intro path a b h hr
    have hb := err_none_of_walkEnts h
    rw [walkEnts.eq_3, walkBucket] at h ⊢
    rw [txEnts.eq_3]
    have h2 := err_none_of_walkEnts h
    exact ihrest path _ _ h (ihe _ _ _ h2 (txVisit_bucket_rel _ hb (err_none_of_walkEnts h2) hr))

end Bolt.CompactBktL

