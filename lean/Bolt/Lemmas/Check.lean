/-
Helper lemmas for C19: characterisation of `dups`, `span`, `visitPage`, `visitAll`, `check`.
-/
import Bolt.Model.Check
namespace Bolt.Check

theorem mem_span {p : PageInfo} {q : Nat} : q ∈ span p ↔ p.id ≤ q ∧ q ≤ p.id + p.ovf := by
  unfold span
  simp only [List.mem_map, List.mem_range]
  constructor
  · rintro ⟨a, ha, rfl⟩; omega
  · rintro ⟨h1, h2⟩; exact ⟨q - p.id, by omega, by omega⟩

theorem head_mem_span (p : PageInfo) : p.id ∈ span p := mem_span.2 ⟨Nat.le_refl _, by omega⟩

theorem span_nodup (p : PageInfo) : (span p).Nodup := by
  unfold span
  rw [List.Nodup, List.pairwise_map]
  refine List.Pairwise.imp ?_ (List.nodup_range (n := p.ovf + 1))
  intro a b h h'; exact h (by omega)

theorem dups_eq_nil_iff (l : List Nat) : dups l = [] ↔ l.Nodup := by
  induction l with
  | nil => simp [dups]
  | cons x r ih =>
    simp only [dups, List.append_eq_nil_iff, ih, List.nodup_cons]
    by_cases hx : x ∈ r <;> simp [hx]

theorem visitPage_fst (hwm : Nat) (freed reach : List Nat) (p : PageInfo) :
    (visitPage hwm freed reach p).1 = reach ++ span p := rfl

theorem filter_map_eq_nil_iff {α β : Type} (l : List α) (f : α → Bool) (g : α → β) :
    (l.filter f).map g = [] ↔ ∀ x ∈ l, f x = false := by
  simp [List.filter_eq_nil_iff]

/-- the four per-page conditions -/
theorem visitPage_snd_eq_nil_iff (hwm : Nat) (freed reach : List Nat) (p : PageInfo) :
    (visitPage hwm freed reach p).2 = [] ↔
      p.id ≤ hwm ∧ (∀ q ∈ span p, q ∉ reach) ∧ (∀ q ∈ span p, q ∉ freed) ∧
        (p.kind = 1 ∨ p.kind = 2) := by
  unfold visitPage
  simp only [List.append_eq_nil_iff, filter_map_eq_nil_iff]
  constructor
  · rintro ⟨⟨⟨h1, h2⟩, h3⟩, h4⟩
    have h3' : ∀ q ∈ span p, q ∉ freed := by
      intro q hq hf; have := h3 q hq; simp [hf] at this
    refine ⟨?_, ?_, h3', ?_⟩
    · by_cases h : p.id > hwm
      · simp [h] at h1
      · omega
    · intro q hq hr; have := h2 q hq; simp [hr] at this
    · have hrf : ((span p).filter (fun id => freed.contains id)).map Err.reachableFreed = [] :=
        (filter_map_eq_nil_iff _ _ _).2 h3
      rw [hrf] at h4
      by_cases hk : p.kind = 1 ∨ p.kind = 2
      · exact hk
      · exfalso
        have : p.kind ≠ 1 ∧ p.kind ≠ 2 := by omega
        simp [this] at h4
  · rintro ⟨h1, h2, h3, h4⟩
    refine ⟨⟨⟨?_, ?_⟩, ?_⟩, ?_⟩
    · have : ¬ p.id > hwm := by omega
      simp [this]
    · intro q hq; simpa using h2 q hq
    · intro q hq; simpa using h3 q hq
    · have : ¬ (p.kind ≠ 1 ∧ p.kind ≠ 2) := by omega
      simp [this]

theorem visitAll_cons (hwm : Nat) (freed : List Nat) (p : PageInfo) (rest : List PageInfo)
    (reach : List Nat) :
    visitAll hwm freed (p :: rest) reach =
      ((visitAll hwm freed rest (reach ++ span p)).1,
        (visitPage hwm freed reach p).2 ++ (visitAll hwm freed rest (reach ++ span p)).2) := rfl

/-- the final reach list -/
theorem visitAll_fst (hwm : Nat) (freed : List Nat) (ps : List PageInfo) (reach : List Nat) :
    (visitAll hwm freed ps reach).1 = reach ++ ps.flatMap span := by
  induction ps generalizing reach with
  | nil => simp [visitAll]
  | cons p rest ih => rw [visitAll_cons]; simp [ih]

/-- the bucket walk reports nothing iff no id is covered twice, no covered id was already
    reachable or is free, and every visited page is an in-range branch/leaf page -/
theorem visitAll_snd_eq_nil_iff (hwm : Nat) (freed : List Nat) (ps : List PageInfo)
    (reach : List Nat) :
    (visitAll hwm freed ps reach).2 = [] ↔
      (ps.flatMap span).Nodup ∧ (∀ q ∈ ps.flatMap span, q ∉ reach ∧ q ∉ freed) ∧
        (∀ p ∈ ps, p.id ≤ hwm ∧ (p.kind = 1 ∨ p.kind = 2)) := by
  induction ps generalizing reach with
  | nil => simp [visitAll]
  | cons p rest ih =>
    rw [visitAll_cons]
    simp only [List.append_eq_nil_iff, visitPage_snd_eq_nil_iff, ih, List.flatMap_cons,
      List.nodup_append, List.mem_append, List.forall_mem_cons]
    constructor
    · rintro ⟨⟨h1, h2, h3, h4⟩, h5, h6, h7⟩
      refine ⟨⟨span_nodup p, h5, ?_⟩, ?_, ⟨h1, h4⟩, h7⟩
      · intro a ha b hb hab
        subst hab
        exact (h6 a hb).1 (Or.inr ha)
      · rintro q (hq | hq)
        · exact ⟨h2 q hq, h3 q hq⟩
        · exact ⟨fun hr => (h6 q hq).1 (Or.inl hr), (h6 q hq).2⟩
    · rintro ⟨⟨_, h5, hd⟩, h6, ⟨h1, h4⟩, h7⟩
      refine ⟨⟨h1, fun q hq => (h6 q (Or.inl hq)).1, fun q hq => (h6 q (Or.inl hq)).2, h4⟩,
        h5, ?_, h7⟩
      intro q hq
      refine ⟨?_, (h6 q (Or.inr hq)).2⟩
      rintro (hr | hs)
      · exact (h6 q (Or.inr hq)).1 hr
      · exact hd q hs q hq rfl

/-- `check` as a plain concatenation -/
theorem check_eq (d : CheckIn) :
    check d =
      (dups d.freeMem).map Err.alreadyFreed ++ (dups d.freeDisk).map Err.alreadyFreed ++
        (visitAll d.hwm d.freeMem d.visited ([0, 1] ++ d.freelistSpan)).2 ++
        ((List.range d.hwm).filter (fun i =>
            !(([0, 1] ++ d.freelistSpan) ++ d.visited.flatMap span).contains i &&
              !d.freeMem.contains i)).map Err.unreachableUnfreed ++
        (if d.keyErrs > 0 then [Err.keyOrder] else []) := by
  rw [← visitAll_fst d.hwm d.freeMem d.visited]
  rfl

/-- the unreachable-unfreed sweep -/
theorem sweep_eq_nil_iff (n : Nat) (R F : List Nat) :
    ((List.range n).filter (fun i => !R.contains i && !F.contains i)).map
        Err.unreachableUnfreed = [] ↔ ∀ q, q < n → q ∈ R ∨ q ∈ F := by
  rw [filter_map_eq_nil_iff]
  constructor
  · intro h q hq
    have := h q (List.mem_range.2 hq)
    by_cases hr : q ∈ R
    · exact Or.inl hr
    · by_cases hf : q ∈ F
      · exact Or.inr hf
      · simp [hr, hf] at this
  · intro h q hq
    rcases h q (List.mem_range.1 hq) with hr | hf
    · simp [hr]
    · simp [hf]

/-- `Tx.check` reports nothing iff the database is consistent -/
theorem check_eq_nil_iff (d : CheckIn) :
    check d = [] ↔
      d.freeMem.Nodup ∧ d.freeDisk.Nodup ∧
      (d.visited.flatMap span).Nodup ∧
      (∀ q ∈ d.visited.flatMap span, (q ≠ 0 ∧ q ≠ 1 ∧ q ∉ d.freelistSpan) ∧ q ∉ d.freeMem) ∧
      (∀ p ∈ d.visited, p.id ≤ d.hwm ∧ (p.kind = 1 ∨ p.kind = 2)) ∧
      (∀ q, q < d.hwm →
        (q = 0 ∨ q = 1 ∨ q ∈ d.freelistSpan) ∨ q ∈ d.visited.flatMap span ∨ q ∈ d.freeMem) ∧
      d.keyErrs = 0 := by
  rw [check_eq]
  have hk : (if d.keyErrs > 0 then [Err.keyOrder] else []) = [] ↔ d.keyErrs = 0 := by
    by_cases h : d.keyErrs > 0
    · simp [h]; omega
    · simp [h]; omega
  have hm : ∀ q, q ∈ [0, 1] ++ d.freelistSpan ↔ (q = 0 ∨ q = 1 ∨ q ∈ d.freelistSpan) := by
    intro q; simp
  simp only [List.append_eq_nil_iff, visitAll_snd_eq_nil_iff, sweep_eq_nil_iff, hk]
  simp only [List.map_eq_nil_iff, dups_eq_nil_iff]
  constructor
  · rintro ⟨⟨⟨⟨h1, h2⟩, h3, h4, h5⟩, h6⟩, h7⟩
    refine ⟨h1, h2, h3, ?_, h5, ?_, h7⟩
    · intro q hq
      have := h4 q hq
      rw [hm] at this
      refine ⟨⟨?_, ?_, ?_⟩, this.2⟩ <;> intro h <;> exact this.1 (by simp [h])
    · intro q hq
      have := h6 q hq
      rw [List.mem_append, hm] at this
      rcases this with (h | h) | h
      · exact Or.inl h
      · exact Or.inr (Or.inl h)
      · exact Or.inr (Or.inr h)
  · rintro ⟨h1, h2, h3, h4, h5, h6, h7⟩
    refine ⟨⟨⟨⟨h1, h2⟩, h3, ?_, h5⟩, ?_⟩, h7⟩
    · intro q hq
      have := h4 q hq
      rw [hm]
      refine ⟨?_, this.2⟩
      rintro (h | h | h)
      · exact this.1.1 h
      · exact this.1.2.1 h
      · exact this.1.2.2 h
    · intro q hq
      rw [List.mem_append, hm]
      rcases h6 q hq with h | h | h
      · exact Or.inl (Or.inl h)
      · exact Or.inl (Or.inr h)
      · exact Or.inr h

end Bolt.Check
