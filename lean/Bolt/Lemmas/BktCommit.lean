/-
Helper lemmas for `Bolt.Props.C04Bkt` (`commitBk_refines`): `Bucket.rebalance` and
`Bucket.spill` over the opened buckets of a write transaction.
-/
import Bolt.Model.BktInv
import Bolt.Props.C04Tree
namespace Bolt.Bkt.BktCommitL
open Bolt Bolt.BTree Bolt.Bkt

/-! ### `Bolt.BTree.tightN` (model copy) = `RebL.tightN` -/

mutual
theorem tightN_eq : ∀ (n : N) (lo : Option Bytes), Bolt.BTree.tightN lo n = RebL.tightN lo n
  | .leaf _ _, lo => by simp only [Bolt.BTree.tightN, RebL.tightN]
  | .branch _ kids, lo => by
    simp only [Bolt.BTree.tightN, RebL.tightN, tightKids_eq kids lo]
    cases lo <;> rfl
theorem tightKids_eq : ∀ (kids : List (Bytes × N)) (lo : Option Bytes),
    Bolt.BTree.tightKids lo kids = RebL.tightKids lo kids
  | [], lo => by simp only [Bolt.BTree.tightKids, RebL.tightKids]
  | (_, c) :: r, lo => by
    simp only [Bolt.BTree.tightKids, RebL.tightKids, tightN_eq c lo, tightKids_eq r _]
end

/-! ### the content of a tree up to the values of bucket elements -/

/-- what the abstraction reads of an item: key, bucket flag, value unless a bucket -/
def normI (i : Item) : Bytes × Bool × Bytes :=
  (i.key, decide (i.flags % 2 = 1), if i.flags % 2 = 1 then [] else i.val)

def nf (t : N) : List (Bytes × Bool × Bytes) := (flatten t).map normI

def namesOf (l : List (Bytes × Bool × Bytes)) : List Bytes :=
  l.filterMap (fun x => if x.2.1 then some x.1 else none)

theorem bucketNames_nf (t : N) : bucketNames t = namesOf (nf t) := by
  unfold bucketNames namesOf nf
  rw [List.filterMap_map]
  congr 1
  funext i
  simp only [Function.comp, normI]
  by_cases h : i.flags % 2 = 1 <;> simp [h]

theorem mem_namesOf {l : List (Bytes × Bool × Bytes)} {x : Bytes × Bool × Bytes} (hx : x ∈ l)
    (hb : x.2.1 = true) : x.1 ∈ namesOf l := by
  unfold namesOf
  rw [List.mem_filterMap]
  exact ⟨x, hx, by simp [hb]⟩

theorem nf_length (t t' : N) (h : nf t' = nf t) : (flatten t').length = (flatten t).length := by
  have := congrArg List.length h
  simpa [nf] using this

theorem mem_bucketNames {t : N} {n : Bytes} (h : n ∈ bucketNames t) :
    ∃ x ∈ flatten t, x.key = n ∧ x.flags % 2 = 1 := by
  unfold bucketNames at h
  rw [List.mem_filterMap] at h
  obtain ⟨x, hx, he⟩ := h
  by_cases hf : x.flags % 2 = 1
  · rw [if_pos hf] at he
    exact ⟨x, hx, by simpa using he, hf⟩
  · rw [if_neg hf] at he; cases he

/-! ### `lookupBk` -/

theorem lookupBk_nil (k : Bytes) : lookupBk k [] = none := rfl

theorem lookupBk_cons (k : Bytes) (p : Bytes × Bk) (r : List (Bytes × Bk)) :
    lookupBk k (p :: r) = if p.1 = k then some p.2 else lookupBk k r := by
  unfold lookupBk
  rw [List.find?_cons]
  by_cases h : p.1 = k
  · simp [h]
  · have : (p.1 == k) = false := by simpa using h
    simp [this, h]

theorem lookupBk_mem {k : Bytes} {o : List (Bytes × Bk)} {c : Bk} (h : lookupBk k o = some c) :
    (k, c) ∈ o := by
  induction o with
  | nil => cases h
  | cons p r ih =>
    rw [lookupBk_cons] at h
    by_cases hp : p.1 = k
    · rw [if_pos hp] at h
      cases h
      subst hp
      exact List.mem_cons_self ..
    · rw [if_neg hp] at h
      exact List.mem_cons_of_mem _ (ih h)

theorem lookupBk_isSome_iff (k : Bytes) (o : List (Bytes × Bk)) :
    (lookupBk k o).isSome = true ↔ k ∈ o.map (·.1) := by
  induction o with
  | nil => simp [lookupBk_nil]
  | cons p r ih =>
    rw [lookupBk_cons]
    by_cases hp : p.1 = k
    · simp [hp]
    · rw [if_neg hp, ih]
      simp only [List.map_cons, List.mem_cons]
      constructor
      · exact Or.inr
      · rintro (h | h)
        · exact absurd h.symm hp
        · exact h

/-- two caches with the same names whose buckets are related name by name -/
inductive Rel2 (R : Bytes → Bk → Bk → Prop) : List (Bytes × Bk) → List (Bytes × Bk) → Prop
  | nil : Rel2 R [] []
  | cons {p q : Bytes × Bk} {r r' : List (Bytes × Bk)} :
      (q.1 = p.1 ∧ R p.1 p.2 q.2) → Rel2 R r r' → Rel2 R (p :: r) (q :: r')

theorem lookupBk_rel {R : Bytes → Bk → Bk → Prop} : ∀ {o o' : List (Bytes × Bk)},
    Rel2 R o o' → ∀ k,
    (lookupBk k o = none ∧ lookupBk k o' = none) ∨
      ∃ c c', lookupBk k o = some c ∧ lookupBk k o' = some c' ∧ R k c c'
  | _, _, .nil, k => Or.inl ⟨rfl, rfl⟩
  | _, _, .cons (p := p) (q := q) hpq hr, k => by
    rw [lookupBk_cons, lookupBk_cons, hpq.1]
    by_cases hp : p.1 = k
    · rw [if_pos hp, if_pos hp]
      exact Or.inr ⟨_, _, rfl, rfl, hp ▸ hpq.2⟩
    · rw [if_neg hp, if_neg hp]
      exact lookupBk_rel hr k

theorem forall₂_names {R : Bytes → Bk → Bk → Prop} {o o' : List (Bytes × Bk)}
    (h : Rel2 R o o') : o'.map (·.1) = o.map (·.1) := by
  induction h with
  | nil => rfl
  | cons hpq _ ih => simp only [List.map_cons, hpq.1, ih]

/-! ### `absBk` through the normal form -/

/-- the content of the nested bucket `k` of a bucket at `path` with cache `o` -/
def childAbs (orig : Bk) (f : Nat) (path : List Bytes) (o : List (Bytes × Bk)) (k : Bytes) : SVal :=
  match lookupBk k o with
  | some c => absBk orig f (path ++ [k]) c
  | none =>
    match bkAt (path ++ [k]) orig with
    | some c => absBk c f [] c
    | none => .bkt 0 []

theorem absBk_succ (orig : Bk) (f : Nat) (path : List Bytes) (b : Bk) :
    absBk orig (f+1) path b = .bkt b.seq ((nf b.tree).map (fun x =>
      if x.2.1 then (x.1, childAbs orig f path b.opened x.1) else (x.1, .val x.2.2))) := by
  rw [absBk, nf, List.map_map]
  congr 1
  apply List.map_congr_left
  intro i _
  simp only [Function.comp, normI, childAbs]
  by_cases h : i.flags % 2 = 1
  · simp only [h, decide_true, if_true]; rfl
  · simp [h]

theorem absBk_congr (orig : Bk) (f : Nat) (path : List Bytes) (b b' : Bk)
    (hs : b'.seq = b.seq) (hn : nf b'.tree = nf b.tree)
    (hc : ∀ k ∈ bucketNames b.tree, childAbs orig f path b'.opened k = childAbs orig f path b.opened k) :
    absBk orig (f+1) path b' = absBk orig (f+1) path b := by
  rw [absBk_succ, absBk_succ, hs, hn]
  congr 1
  apply List.map_congr_left
  intro x hx
  by_cases hb : x.2.1 = true
  · rw [if_pos hb, if_pos hb, hc x.1 (by rw [bucketNames_nf]; exact mem_namesOf hx hb)]
  · rw [if_neg hb, if_neg hb]

theorem childAbs_some {orig : Bk} {f : Nat} {path : List Bytes} {o : List (Bytes × Bk)} {k : Bytes} {c : Bk}
    (h : lookupBk k o = some c) : childAbs orig f path o k = absBk orig f (path ++ [k]) c := by
  unfold childAbs; rw [h]

theorem childAbs_none {orig : Bk} {f : Nat} {path : List Bytes} {o : List (Bytes × Bk)} {k : Bytes}
    (h : lookupBk k o = none) : childAbs orig f path o k =
      match bkAt (path ++ [k]) orig with
      | some c => absBk c f [] c
      | none => .bkt 0 [] := by
  unfold childAbs; rw [h]

theorem childAbs_rel {R : Bytes → Bk → Bk → Prop} {orig : Bk} {f : Nat} {path : List Bytes}
    {o o' : List (Bytes × Bk)} (h : Rel2 R o o')
    (hR : ∀ k c c', R k c c' → absBk orig f (path ++ [k]) c' = absBk orig f (path ++ [k]) c) (k : Bytes) :
    childAbs orig f path o' k = childAbs orig f path o k := by
  rcases lookupBk_rel h k with ⟨h1, h2⟩ | ⟨c, c', h1, h2, h3⟩
  · rw [childAbs_none h1, childAbs_none h2]
  · rw [childAbs_some h1, childAbs_some h2]
    exact hR k c c' h3

theorem rel2_mem_right {R : Bytes → Bk → Bk → Prop} {o o' : List (Bytes × Bk)} (h : Rel2 R o o') :
    ∀ q ∈ o', ∃ p ∈ o, q.1 = p.1 ∧ R p.1 p.2 q.2 := by
  induction h with
  | nil => intro q hq; cases hq
  | cons hpq _ ih =>
    intro q hq
    rcases List.mem_cons.mp hq with rfl | hq
    · exact ⟨_, List.mem_cons_self .., hpq⟩
    · obtain ⟨p, hp, h⟩ := ih q hq
      exact ⟨p, List.mem_cons_of_mem _ hp, h⟩

theorem rel2_append {R : Bytes → Bk → Bk → Prop} {a a' b b' : List (Bytes × Bk)} (h1 : Rel2 R a a')
    (h2 : Rel2 R b b') : Rel2 R (a ++ b) (a' ++ b') := by
  induction h1 with
  | nil => exact h2
  | cons hpq _ ih => exact .cons hpq ih

/-! ### start-of-transaction buckets -/

theorem origOkG_zero (ids : Bool) (b : Bk) : origOkG ids 0 b = false := by
  cases b; rfl

theorem origOkG_succ (ids : Bool) (f r s : Nat) (t : N) (o : List (Bytes × Bk)) :
    origOkG ids (f+1) (.mk r s t o) = true ↔
      Committed t ∧ (ids = true → (pgids t).Nodup) ∧ depth t ≤ f ∧ o.map (·.1) = bucketNames t ∧
      ∀ p ∈ o, origOkG ids f p.2 = true := by
  rw [origOkG]
  simp only [Bool.and_eq_true, Bool.or_eq_true, Bool.not_eq_true', decide_eq_true_eq,
    List.all_eq_true, beq_iff_eq]
  constructor
  · rintro ⟨⟨⟨⟨h1, h2⟩, h3⟩, h4⟩, h5⟩
    refine ⟨h1, ?_, h3, h4, h5⟩
    intro hi
    rcases h2 with h2 | h2
    · rw [hi] at h2; cases h2
    · exact h2
  · rintro ⟨h1, h2, h3, h4, h5⟩
    refine ⟨⟨⟨⟨h1, ?_⟩, h3⟩, h4⟩, h5⟩
    cases ids with
    | false => exact Or.inl rfl
    | true => exact Or.inr (h2 rfl)

theorem bkAt_nil (b : Bk) : bkAt [] b = some b := by rw [bkAt]

theorem bkAt_cons (n : Bytes) (rest : List Bytes) (b : Bk) :
    bkAt (n :: rest) b = (lookupBk n b.opened).bind (bkAt rest) := by rw [bkAt]

/-- the bucket found at a path of a start-of-transaction state is one, with the fuel left -/
theorem origAt (ids : Bool) : ∀ (p : List Bytes) (fu : Nat) (b c : Bk), origOkG ids fu b = true →
    bkAt p b = some c → origOkG ids (fu - p.length) c = true
  | [], fu, b, c, h, hb => by
    rw [bkAt_nil] at hb; cases hb; exact h
  | n :: rest, 0, b, c, h, _ => by rw [origOkG_zero] at h; cases h
  | n :: rest, f+1, .mk r s t o, c, h, hb => by
    rw [bkAt_cons] at hb
    cases hl : lookupBk n (Bk.mk r s t o).opened with
    | none => rw [hl] at hb; cases hb
    | some c0 =>
      rw [hl] at hb
      have hm := lookupBk_mem hl
      have h0 := ((origOkG_succ ..).mp h).2.2.2.2 _ hm
      have := origAt ids rest f c0 c h0 hb
      simpa using this

theorem origOkG_mono (ids : Bool) : ∀ (f : Nat) (b : Bk), origOkG ids f b = true → ∀ f', f ≤ f' →
    origOkG false f' b = true
  | 0, b, h, _, _ => by rw [origOkG_zero] at h; cases h
  | f+1, .mk r s t o, h, 0, hle => by omega
  | f+1, .mk r s t o, h, f'+1, hle => by
    obtain ⟨h1, _, h3, h4, h5⟩ := (origOkG_succ ..).mp h
    rw [origOkG_succ]
    refine ⟨h1, fun hi => (by cases hi), by omega, h4, ?_⟩
    intro p hp
    exact origOkG_mono ids f p.2 (h5 p hp) f' (by omega)

/-- the content of a start-of-transaction bucket does not depend on the fuel (once it covers
    the nesting), nor on where the bucket sits -/
theorem absBk_indep (ids : Bool) : ∀ (f : Nat) (c : Bk), origOkG ids f c = true → ∀ F', f ≤ F' →
    ∀ (X : Bk) (p : List Bytes), absBk X F' p c = absBk c f [] c
  | 0, c, h, _, _, _, _ => by rw [origOkG_zero] at h; cases h
  | f+1, .mk r s t o, h, 0, hle, _, _ => by omega
  | f+1, .mk r s t o, h, F'+1, hle, X, p => by
    obtain ⟨_, _, _, h4, h5⟩ := (origOkG_succ ..).mp h
    rw [absBk_succ, absBk_succ]
    congr 1
    apply List.map_congr_left
    intro x hx
    by_cases hb : x.2.1 = true
    · rw [if_pos hb, if_pos hb]
      have hn : x.1 ∈ bucketNames t := by rw [bucketNames_nf]; exact mem_namesOf hx hb
      have hs : (lookupBk x.1 o).isSome = true := by rw [lookupBk_isSome_iff, h4]; exact hn
      obtain ⟨c', hc'⟩ := Option.isSome_iff_exists.mp hs
      have hm := lookupBk_mem hc'
      have h0 := h5 _ hm
      have e1 : childAbs X F' p (Bk.mk r s t o).opened x.1 = absBk X F' (p ++ [x.1]) c' := childAbs_some hc'
      have e2 : childAbs (Bk.mk r s t o) f [] (Bk.mk r s t o).opened x.1 =
          absBk (Bk.mk r s t o) f ([] ++ [x.1]) c' := childAbs_some hc'
      rw [e1, e2, absBk_indep ids f c' h0 F' (by omega) X (p ++ [x.1]),
        absBk_indep ids f c' h0 f (Nat.le_refl _) (Bk.mk r s t o) ([] ++ [x.1])]
    · rw [if_neg hb, if_neg hb]

/-! ### `Bucket.rebalance` -/

/-- page ids of every node present in some opened bucket's node map (= `C04Bkt.allMatPgids`) -/
def allMat (fu : Nat) : Nat → Bk → List Nat
  | 0, _ => []
  | f+1, .mk _ _ t o => matPgids fu t ++ (o.map (fun p => allMat fu f p.2)).flatten

/-- (= `C04Bkt.fuelOk`) -/
def fuelOk' (fu : Nat) : Nat → Bk → Bool
  | 0, _ => false
  | f+1, .mk _ _ t o => decide (depth t + (flatten t).length + 2 ≤ fu) && o.all (fun p => fuelOk' fu f p.2)

theorem curOk_zero (orig : Bk) (path : List Bytes) (b : Bk) : curOk orig 0 path b = false := by
  cases b; rfl

theorem curOk_succ (orig : Bk) (f : Nat) (path : List Bytes) (r s : Nat) (t : N) (o : List (Bytes × Bk)) :
    curOk orig (f+1) path (.mk r s t o) = true ↔
      InTx t ∧ Bolt.BTree.tightN none t = true ∧ (pgids t).Nodup ∧ depth t ≤ f ∧
      nodupB (o.map (·.1)) = true ∧
      (∀ p ∈ o, p.1 ∈ bucketNames t ∧ curOk orig f (path ++ [p.1]) p.2 = true) ∧
      (∀ n ∈ bucketNames t, (lookupBk n o).isSome = true ∨ (bkAt (path ++ [n]) orig).isSome = true) := by
  rw [curOk]
  simp only [Bool.and_eq_true, Bool.or_eq_true, decide_eq_true_eq, List.all_eq_true,
    List.contains_iff_mem, and_assoc]

/-- the state between `Bucket.rebalance` and `Bucket.spill` -/
def midOk (orig : Bk) (fu : Nat) : Nat → List Bytes → Bk → Prop
  | 0, _, _ => False
  | f+1, path, .mk _ _ t o =>
    InTx t ∧ anyUnb t = false ∧ depth t + (flatten t).length + 2 ≤ fu ∧
    (∀ p ∈ o, p.1 ∈ bucketNames t ∧ midOk orig fu f (path ++ [p.1]) p.2) ∧
    (∀ n ∈ bucketNames t, (lookupBk n o).isSome = true ∨ (bkAt (path ++ [n]) orig).isSome = true)

def rebStep (g : Bk → Option Bk) (acc : Option (List (Bytes × Bk))) (p : Bytes × Bk) :
    Option (List (Bytes × Bk)) :=
  match acc with
  | none => none
  | some l => (g p.2).map (fun c => l ++ [(p.1, c)])

theorem rebalanceBk_succ (th fu : Nat) (order : List Nat) (f r s : Nat) (t : N) (o : List (Bytes × Bk)) :
    rebalanceBk th fu order (f+1) (.mk r s t o) =
      match rebalanceAll th fu t order with
      | none => none
      | some t' => (o.foldl (rebStep (rebalanceBk th fu order f)) (some [])).map (fun o' => .mk r s t' o') := by
  rw [rebalanceBk]; rfl

theorem foldl_rebStep (g : Bk → Option Bk) (R : Bytes → Bk → Bk → Prop) :
    ∀ (o acc : List (Bytes × Bk)), (∀ p ∈ o, ∃ c, g p.2 = some c ∧ R p.1 p.2 c) →
    ∃ o', o.foldl (rebStep g) (some acc) = some (acc ++ o') ∧ Rel2 R o o'
  | [], acc, _ => ⟨[], by simp, .nil⟩
  | p :: r, acc, h => by
    obtain ⟨c, hc, hR⟩ := h p (List.mem_cons_self ..)
    obtain ⟨o', ho', hrel⟩ := foldl_rebStep g R r (acc ++ [(p.1, c)])
      (fun q hq => h q (List.mem_cons_of_mem _ hq))
    refine ⟨(p.1, c) :: o', ?_, .cons ⟨rfl, hR⟩ hrel⟩
    rw [List.foldl_cons]
    have : rebStep g (some acc) p = some (acc ++ [(p.1, c)]) := by
      simp only [rebStep, hc, Option.map_some]
    rw [this, ho']
    simp

theorem rebalanceBk_ok (orig : Bk) (rth fu : Nat) (order : List Nat) :
    ∀ (f : Nat) (path : List Bytes) (b : Bk), f ≤ fu → curOk orig f path b = true →
    fuelOk' fu f b = true → (∀ pg ∈ allMat fu f b, pg ∈ order) →
    ∃ b', rebalanceBk rth fu order f b = some b' ∧ midOk orig fu f path b' ∧
      absBk orig f path b' = absBk orig f path b
  | 0, path, b, _, hc, _, _ => by rw [curOk_zero] at hc; cases hc
  | f+1, path, .mk r s t o, hle, hc, hf, hm => by
    obtain ⟨h1, h2, h3, h4, _, h6, h7⟩ := (curOk_succ ..).mp hc
    rw [fuelOk'] at hf
    simp only [Bool.and_eq_true, decide_eq_true_eq, List.all_eq_true] at hf
    rw [allMat] at hm
    have hR : InTxR t := RebL.inTxR_of_inTx_tight t h1 (by rw [← tightN_eq]; exact h2)
    obtain ⟨t', e1, hR', hfl, hd⟩ := C04Tree.rebalanceAll_refines rth fu t order hR
    have hu : anyUnb t' = false :=
      C04Tree.rebalanceAll_settles rth fu t t' order hR h3 (by omega)
        (fun pg hpg => hm pg (List.mem_append_left _ hpg)) e1
    have hbn : bucketNames t' = bucketNames t := by unfold bucketNames; rw [hfl]
    have hnf : nf t' = nf t := by unfold nf; rw [hfl]
    obtain ⟨o', e2, hrel⟩ := foldl_rebStep (rebalanceBk rth fu order f)
      (fun k c c' => midOk orig fu f (path ++ [k]) c' ∧
        absBk orig f (path ++ [k]) c' = absBk orig f (path ++ [k]) c) o [] (by
        intro p hp
        obtain ⟨c, hc1, hc2, hc3⟩ := rebalanceBk_ok orig rth fu order f (path ++ [p.1]) p.2 (by omega)
          (h6 p hp).2 (hf.2 p hp) (fun pg hpg => hm pg (List.mem_append_right _
            (List.mem_flatten.mpr ⟨_, List.mem_map.mpr ⟨p, hp, rfl⟩, hpg⟩)))
        exact ⟨c, hc1, hc2, hc3⟩)
    rw [List.nil_append] at e2
    refine ⟨.mk r s t' o', ?_, ?_, ?_⟩
    · rw [rebalanceBk_succ, e1]; simp only [e2, Option.map_some]
    · rw [midOk]
      refine ⟨C04Tree.inTxR_inTx t' hR', hu, by rw [hfl]; omega, ?_, ?_⟩
      · intro q hq
        obtain ⟨p, hp, hqp, hmid, _⟩ := rel2_mem_right hrel q hq
        rw [hqp, hbn]
        exact ⟨(h6 p hp).1, hmid⟩
      · intro n hn
        rw [hbn] at hn
        rcases h7 n hn with h | h
        · left
          rw [lookupBk_isSome_iff] at h ⊢
          rw [forall₂_names hrel]; exact h
        · exact Or.inr h
    · apply absBk_congr orig f path (.mk r s t o) (.mk r s t' o') rfl hnf
      intro k _
      exact childAbs_rel hrel (fun k c c' h => h.2) k

/-! ### rewriting the element of a nested bucket in its parent's tree -/

theorem leafPutF_eq (k v : Bytes) (fl : Nat) (h : Hd) (items : List Item) :
    leafPutF k v fl (.leaf h items) = some (.leaf h (insSorted { key := k, val := v, flags := fl } items)) := by
  rw [← OpsL.putItems_eq]
  unfold leafPutF OpsL.putItems
  simp only
  split <;> rfl

theorem leafOK_putF (k v : Bytes) (fl : Nat) (hk : k ≠ []) :
    OpsL.LeafOK k (leafPutF k v fl) (insSorted { key := k, val := v, flags := fl }) := by
  intro root lo hi h items hm hn hr
  refine ⟨h, leafPutF_eq k v fl h items, hm, rfl, rfl, ?_⟩
  rw [OpsL.inTxN_leaf] at hn ⊢
  obtain ⟨h1, _, h3, h4⟩ := hn
  refine ⟨h1, Or.inr (Or.inl ?_), OpsL.insSorted_sorted _ items h3, ?_⟩
  · intro e
    have := OpsL.insSorted_find_same { key := k, val := v, flags := fl } items
    rw [e] at this; simp at this
  · intro x hx
    rcases OpsL.insSorted_mem _ items x hx with rfl | hx
    · exact ⟨hk, hr⟩
    · exact h4 x hx

theorem anyUnb_leaf (h : Hd) (items : List Item) : anyUnb (.leaf h items) = h.unb := by rw [anyUnb]
theorem anyUnb_branch (h : Hd) (kids : List (Bytes × N)) :
    anyUnb (.branch h kids) = (h.unb || anyUnbKids kids) := by rw [anyUnb]

theorem anyUnb_materialize (n : N) (h : anyUnb n = false) : anyUnb (materialize n) = false := by
  unfold materialize
  split
  · exact h
  · cases n with
    | leaf hd items => simp only [N.setHd, anyUnb_leaf]
    | branch hd kids =>
      rw [anyUnb_branch, Bool.or_eq_false_iff] at h
      simp only [N.setHd, anyUnb_branch, h.2, Bool.or_self]

theorem modifyAt_anyUnb (g : N → Option N) (hg : ∀ n n', g n = some n' → anyUnb n = false → anyUnb n' = false) :
    ∀ (path : List Nat) (n n' : N), modifyAt g path n = some n' → anyUnb n = false → anyUnb n' = false
  | [], n, n', h, hu => by
    rw [modifyAt] at h
    exact hg _ _ h (anyUnb_materialize n hu)
  | i :: rest, n, n', h, hu => by
    rw [modifyAt] at h
    have hm := anyUnb_materialize n hu
    cases hn : materialize n with
    | leaf hd items => rw [hn] at h; cases h
    | branch hd kids =>
      rw [hn] at h hm
      simp only at h
      cases hk : kids[i]? with
      | none => rw [hk] at h; cases h
      | some sc =>
        obtain ⟨sk, c⟩ := sc
        rw [hk] at h
        simp only at h
        cases hc : modifyAt g rest c with
        | none => rw [hc] at h; cases h
        | some c' =>
          rw [hc] at h
          simp only [Option.map_some, Option.some.injEq] at h
          subst h
          rw [anyUnb_branch, Bool.or_eq_false_iff] at hm
          rw [anyUnb_branch, Bool.or_eq_false_iff]
          refine ⟨hm.1, ?_⟩
          have hall := (SpillL.anyUnbKids_iff kids).mp hm.2
          rw [SpillL.anyUnbKids_iff]
          intro q hq
          rcases List.mem_or_eq_of_mem_set hq with hq | rfl
          · exact hall q hq
          · exact modifyAt_anyUnb g hg rest c c' hc (hall _ (List.mem_of_getElem? hk))

theorem leafPutF_anyUnb (k v : Bytes) (fl : Nat) :
    ∀ n n', leafPutF k v fl n = some n' → anyUnb n = false → anyUnb n' = false
  | .leaf h items, n', e, hu => by
    rw [leafPutF_eq] at e
    cases e
    rw [anyUnb_leaf] at hu ⊢
    exact hu
  | .branch _ _, n', e, _ => by rw [leafPutF] at e; cases e

/-- replacing an element by one the abstraction does not tell apart -/
theorem insSorted_norm (it : Item) : ∀ (l : List Item), OpsL.SortedI l → ∀ x ∈ l, x.key = it.key →
    normI x = normI it → (insSorted it l).map normI = l.map normI
  | [], _, x, hx, _, _ => by cases hx
  | y :: r, hs, x, hx, hk, hn => by
    have hs' := List.pairwise_cons.mp hs
    rw [OpsL.insSorted_cons]
    by_cases h1 : it.key = y.key
    · have hxy : x = y := by
        rcases List.mem_cons.mp hx with h | h
        · exact h
        · exact absurd (hk.trans h1).symm (Bytes.lt_ne (hs'.1 x h))
      subst hxy
      simp only [h1, beq_self_eq_true, if_true, List.map_cons, hn]
    · have h1' : (it.key == y.key) = false := by simpa using h1
      have hxr : x ∈ r := by
        rcases List.mem_cons.mp hx with h | h
        · subst h; exact absurd hk.symm h1
        · exact h
      have h2 : ¬ Bytes.lt it.key y.key = true := by
        have := hs'.1 x hxr
        rw [hk] at this
        rw [Bytes.lt_asymm this]; exact Bool.noConfusion
      simp only [h1', Bool.false_eq_true, if_false, if_neg h2, List.map_cons,
        insSorted_norm it r hs'.2 x hxr hk hn]

theorem find_sorted : ∀ (l : List Item), OpsL.SortedI l → ∀ x ∈ l,
    l.find? (fun i => i.key == x.key) = some x
  | [], _, x, hx => by cases hx
  | y :: r, hs, x, hx => by
    have hs' := List.pairwise_cons.mp hs
    by_cases h1 : y.key = x.key
    · rw [OpsL.find_cons_eq r h1]
      rcases List.mem_cons.mp hx with h | h
      · rw [h]
      · exact absurd h1 (Bytes.lt_ne (hs'.1 x h))
    · rw [OpsL.find_cons_ne r h1]
      rcases List.mem_cons.mp hx with h | h
      · subst h; exact absurd rfl h1
      · exact find_sorted r hs'.2 x h

theorem inTx_sortedI (t : N) (h : InTx t) : OpsL.SortedI (flatten t) := by
  have := (SpillL.inTx_flatten_sorted t true true none none h).1
  rw [List.pairwise_map] at this
  exact this

/-- `Bucket.spill` rewrites the element `name` of the parent: the seek finds it, the put
    replaces its value; nothing the abstraction or the spill depends on changes -/
theorem rewrite_ok (fu : Nat) (t : N) (name : Bytes) (vlen : Nat) (hi : InTx t) (hu : anyUnb t = false)
    (hd : depth t ≤ fu) (hn : name ∈ bucketNames t) :
    ∃ it t', seekItem name fu t = some it ∧ it.key = name ∧ it.flags % 2 = 1 ∧
      modifyAt (leafPutF name (zeros vlen) 1) (searchPath name fu t) t = some t' ∧
      InTx t' ∧ anyUnb t' = false ∧ depth t' = depth t ∧ nf t' = nf t := by
  obtain ⟨x, hx, hxk, hxf⟩ := mem_bucketNames hn
  have hs := inTx_sortedI t hi
  have hne : name ≠ [] := hxk ▸ (OpsL.inTxN_range t true true none none hi x hx).1
  have hseek := OpsL.seek_find name fu t true true none none hd hi (OpsL.inR_none name)
  have hfind := find_sorted (flatten t) hs x hx
  rw [hxk] at hfind
  rw [hfind] at hseek
  have hsk : seekItem name fu t = some x := by
    cases hsi : seekItem name fu t with
    | none => rw [hsi] at hseek; simp at hseek
    | some y =>
      rw [hsi] at hseek
      simp only [Option.filter] at hseek
      split at hseek
      · exact hseek.symm
      · cases hseek
  obtain ⟨t', e, hin, _, hd', hfl⟩ := OpsL.modify_ok name (leafPutF name (zeros vlen) 1)
    (insSorted { key := name, val := zeros vlen, flags := 1 }) (leafOK_putF name _ 1 hne)
    (OpsL.loc_insSorted { key := name, val := zeros vlen, flags := 1 }) fu t true true none none hd hi
    (OpsL.inR_none name)
  refine ⟨x, t', hsk, hxk, hxf, e, hin, ?_, hd', ?_⟩
  · exact modifyAt_anyUnb _ (leafPutF_anyUnb name _ 1) _ t t' e hu
  · unfold nf
    rw [hfl]
    apply insSorted_norm _ _ hs x hx hxk
    simp [normI, hxk, hxf]

/-! ### `Bucket.spill` -/

/-- what `Bucket.spill` does with one opened sub-bucket: the bucket as written, whether it had
    a root node, the length of the value written into the parent -/
def childRes (ps : Nat) (g : Bk → Option (Bk × Bool)) (child : Bk) : Option (Bk × Bool × Nat) :=
  if inlineableBk ps child then some (asInline child, true, 16 + child.tree.size)
  else (g child).map (fun (c, had) => (c, had, 16))

def spillStep (ps fu : Nat) (g : Bk → Option (Bk × Bool)) (acc : Option (N × List (Bytes × Bk)))
    (p : Bytes × Bk) : Option (N × List (Bytes × Bk)) :=
  match acc with
  | none => none
  | some (t, done) =>
    match childRes ps g p.2 with
    | none => none
    | some (c, hadRoot, vlen) =>
      if !hadRoot then some (t, done ++ [(p.1, c)]) else
      match seekItem p.1 fu t with
      | some it =>
        if it.key = p.1 ∧ it.flags % 2 = 1 then
          (modifyAt (leafPutF p.1 (zeros vlen) 1) (searchPath p.1 fu t) t).map (fun t' => (t', done ++ [(p.1, c)]))
        else none
      | none => none

theorem spillBk_succ (ps sth fu f r s : Nat) (t : N) (o : List (Bytes × Bk)) :
    spillBk ps sth fu (f+1) (.mk r s t o) =
      match o.foldl (spillStep ps fu (spillBk ps sth fu f)) (some (t, [])) with
      | none => none
      | some (t1, o') =>
        if !t1.hd.mat then some (.mk r s t1 o', false) else
        (spillRoot ps sth fu t1).map (fun t2 => (.mk newPage s t2 o', true)) := by
  rw [spillBk]; rfl

/-- what the fold keeps of the parent's tree -/
def TreeInv (nf0 : List (Bytes × Bool × Bytes)) (d : Nat) (t : N) : Prop :=
  InTx t ∧ anyUnb t = false ∧ depth t = d ∧ nf t = nf0

theorem foldl_spillStep (ps fu : Nat) (g : Bk → Option (Bk × Bool)) (R : Bytes → Bk → Bk → Prop)
    (nf0 : List (Bytes × Bool × Bytes)) (d : Nat) (hd : d ≤ fu) :
    ∀ (o : List (Bytes × Bk)) (t : N) (done : List (Bytes × Bk)), TreeInv nf0 d t →
    (∀ p ∈ o, p.1 ∈ namesOf nf0 ∧ ∃ c had vlen, childRes ps g p.2 = some (c, had, vlen) ∧ R p.1 p.2 c) →
    ∃ t1 o', o.foldl (spillStep ps fu g) (some (t, done)) = some (t1, done ++ o') ∧
      TreeInv nf0 d t1 ∧ Rel2 R o o'
  | [], t, done, ht, _ => ⟨t, [], by simp, ht, .nil⟩
  | p :: r, t, done, ht, h => by
    obtain ⟨hn, c, had, vlen, hc, hR⟩ := h p (List.mem_cons_self ..)
    have hrest := fun q hq => h q (List.mem_cons_of_mem _ hq)
    rw [List.foldl_cons]
    cases had with
    | false =>
      have e : spillStep ps fu g (some (t, done)) p = some (t, done ++ [(p.1, c)]) := by
        simp only [spillStep, hc, Bool.not_false, if_true]
      obtain ⟨t1, o', e1, ht1, hrel⟩ := foldl_spillStep ps fu g R nf0 d hd r t (done ++ [(p.1, c)]) ht hrest
      refine ⟨t1, (p.1, c) :: o', ?_, ht1, .cons ⟨rfl, hR⟩ hrel⟩
      rw [e, e1]; simp
    | true =>
      obtain ⟨hi, hu, hdt, hnf⟩ := ht
      obtain ⟨it, t', hs, hk, hfl, hm, hi', hu', hd', hnf'⟩ := rewrite_ok fu t p.1 vlen hi hu (by omega)
        (by rw [bucketNames_nf, hnf]; exact hn)
      have e : spillStep ps fu g (some (t, done)) p = some (t', done ++ [(p.1, c)]) := by
        simp only [spillStep, hc, Bool.not_true, Bool.false_eq_true, if_false, hs, hk, hfl, and_self,
          if_true, hm, Option.map_some]
      obtain ⟨t1, o', e1, ht1, hrel⟩ := foldl_spillStep ps fu g R nf0 d hd r t' (done ++ [(p.1, c)])
        ⟨hi', hu', by omega, by rw [hnf', hnf]⟩ hrest
      refine ⟨t1, (p.1, c) :: o', ?_, ht1, .cons ⟨rfl, hR⟩ hrel⟩
      rw [e, e1]; simp

/-- what `Bucket.spill` leaves: every opened bucket's tree is a committed tree, and every
    nested bucket is opened or found in `orig` -/
def outOk (orig : Bk) : Nat → List Bytes → Bk → Prop
  | 0, _, _ => False
  | f+1, path, .mk _ _ t o =>
    Committed t ∧ (∀ p ∈ o, outOk orig f (path ++ [p.1]) p.2) ∧
    (∀ n ∈ bucketNames t, (lookupBk n o).isSome = true ∨ (bkAt (path ++ [n]) orig).isSome = true)

theorem inlineableAux_no_bucket (m : Nat) : ∀ (l : List (Node.El × Bool)) (sz : Nat),
    Node.inlineableAux m sz l = true → ∀ e ∈ l, e.2 = false
  | [], _, _, e, he => by cases he
  | (el, b) :: r, sz, h, e, he => by
    rw [Node.inlineableAux] at h
    cases b with
    | true => simp at h
    | false =>
      simp only [Bool.false_eq_true, if_false] at h
      split at h
      · cases h
      · rcases List.mem_cons.mp he with rfl | he
        · rfl
        · exact inlineableAux_no_bucket m r _ h e he

theorem inTx_leaf_committed (h : Hd) (items : List Item) (hi : InTx (.leaf h items)) :
    Committed (.leaf written items) := by
  obtain ⟨_, _, h3, h4⟩ := (OpsL.inTxN_leaf ..).mp hi
  refine ⟨(OpsL.committedN_leaf ..).mpr ⟨rfl, rfl, Or.inl rfl, h3, fun x hx => (h4 x hx).1⟩, ?_⟩
  rw [OpsL.flatten_leaf, OpsL.sortedKeys_items]
  exact h3

/-- a sub-bucket that fits is written inline -/
theorem asInline_ok (orig : Bk) (ps fu : Nat) : ∀ (f : Nat) (path : List Bytes) (b : Bk),
    midOk orig fu f path b → inlineableBk ps b = true →
    outOk orig f path (asInline b) ∧ absBk orig f path (asInline b) = absBk orig f path b
  | 0, _, _, h, _ => by rw [midOk] at h; exact h.elim
  | f+1, path, .mk r s (.branch hd kids) o, _, hin => by
    simp [inlineableBk, Bk.tree] at hin
  | f+1, path, .mk r s (.leaf hd items) o, h, hin => by
    rw [midOk] at h
    obtain ⟨h1, _, _, h4, _⟩ := h
    simp only [inlineableBk, Bk.tree, Bool.and_eq_true, Node.inlineable] at hin
    have hnb : bucketNames (.leaf hd items) = [] := by
      unfold bucketNames
      rw [OpsL.flatten_leaf, List.filterMap_eq_nil_iff]
      intro i hi
      have := inlineableAux_no_bucket _ _ _ hin.2 _ (List.mem_map.mpr ⟨i, hi, rfl⟩)
      simp only [beq_eq_false_iff_ne, ne_eq] at this
      rw [if_neg this]
    have ho : o = [] := by
      cases o with
      | nil => rfl
      | cons p r =>
        have := (h4 p (List.mem_cons_self ..)).1
        rw [hnb] at this; cases this
    subst ho
    have hnb' : bucketNames (.leaf written items) = [] := by
      unfold bucketNames at hnb ⊢
      rw [OpsL.flatten_leaf] at hnb ⊢
      exact hnb
    refine ⟨?_, ?_⟩
    · show outOk orig (f+1) path (.mk 0 s (.leaf written items) [])
      rw [outOk]
      refine ⟨inTx_leaf_committed hd items h1, fun p hp => (by cases hp), ?_⟩
      intro n hn
      rw [hnb'] at hn; cases hn
    · show absBk orig (f+1) path (.mk 0 s (.leaf written items) []) = _
      apply absBk_congr orig f path _ _ rfl
      · simp only [nf, Bk.tree, OpsL.flatten_leaf]
      · intro k _; rfl

theorem committed_of_unmat (t : N) (hi : InTx t) (hm : t.hd.mat = false) : Committed t := by
  refine ⟨SpillL.unmat_committed t true true none none hm hi, ?_⟩
  rw [SpillL.sortedKeys_iff]
  exact (SpillL.inTx_flatten_sorted t true true none none hi).1

theorem spillBk_ok (orig : Bk) (ps sth fu : Nat) : ∀ (f : Nat) (path : List Bytes) (b : Bk),
    midOk orig fu f path b →
    ∃ b' had, spillBk ps sth fu f b = some (b', had) ∧ outOk orig f path b' ∧
      absBk orig f path b' = absBk orig f path b
  | 0, _, _, h => by rw [midOk] at h; exact h.elim
  | f+1, path, .mk r s t o, h => by
    rw [midOk] at h
    obtain ⟨h1, h2, h3, h4, h5⟩ := h
    obtain ⟨t1, o', e1, ⟨hi1, hu1, hd1, hnf1⟩, hrel⟩ := foldl_spillStep ps fu (spillBk ps sth fu f)
      (fun k c c' => outOk orig f (path ++ [k]) c' ∧
        absBk orig f (path ++ [k]) c' = absBk orig f (path ++ [k]) c) (nf t) (depth t) (by omega)
      o t [] ⟨h1, h2, rfl, rfl⟩ (by
        intro p hp
        obtain ⟨hp1, hp2⟩ := h4 p hp
        refine ⟨by rw [← bucketNames_nf]; exact hp1, ?_⟩
        by_cases hin : inlineableBk ps p.2 = true
        · refine ⟨asInline p.2, true, 16 + p.2.tree.size, by simp only [childRes, hin, if_true], ?_⟩
          exact asInline_ok orig ps fu f _ _ hp2 hin
        · obtain ⟨c, had, hc1, hc2, hc3⟩ := spillBk_ok orig ps sth fu f (path ++ [p.1]) p.2 hp2
          exact ⟨c, had, 16, by simp only [childRes, hin, Bool.false_eq_true, if_false, hc1, Option.map_some],
            hc2, hc3⟩)
    rw [List.nil_append] at e1
    have hlen := nf_length t t1 hnf1
    have hbn1 : bucketNames t1 = bucketNames t := by rw [bucketNames_nf, bucketNames_nf, hnf1]
    -- the result, for either tree
    have fin : ∀ (r' : Nat) (t2 : N), Committed t2 → nf t2 = nf t →
        outOk orig (f+1) path (.mk r' s t2 o') ∧
          absBk orig (f+1) path (.mk r' s t2 o') = absBk orig (f+1) path (.mk r s t o) := by
      intro r' t2 hc2 hnf2
      have hbn2 : bucketNames t2 = bucketNames t := by rw [bucketNames_nf, bucketNames_nf, hnf2]
      refine ⟨?_, ?_⟩
      · rw [outOk]
        refine ⟨hc2, ?_, ?_⟩
        · intro q hq
          obtain ⟨p, _, hqp, hout, _⟩ := rel2_mem_right hrel q hq
          rw [hqp]; exact hout
        · intro n hn
          rw [hbn2] at hn
          rcases h5 n hn with h | h
          · left
            rw [lookupBk_isSome_iff] at h ⊢
            rw [forall₂_names hrel]; exact h
          · exact Or.inr h
      · apply absBk_congr orig f path (.mk r s t o) (.mk r' s t2 o') rfl hnf2
        intro k _
        exact childAbs_rel hrel (fun k c c' h => h.2) k
    rw [spillBk_succ, e1]
    by_cases hm : t1.hd.mat = true
    · obtain ⟨t2, e2, hc2, hfl2⟩ := C04Tree.spillRoot_refines ps sth fu t1 hi1 hu1 (by omega)
      have := fin newPage t2 hc2 (by unfold nf at hnf1 ⊢; rw [hfl2]; exact hnf1)
      refine ⟨.mk newPage s t2 o', true, ?_, this⟩
      simp only [hm, Bool.not_true, Bool.false_eq_true, if_false, e2, Option.map_some]
    · have hm' : t1.hd.mat = false := by simpa using hm
      have := fin r t1 (committed_of_unmat t1 hi1 hm') hnf1
      refine ⟨.mk r s t1 o', false, ?_, this⟩
      simp only [hm', Bool.not_false, if_true]

/-! ### what the next transaction reads -/

/-- the nested bucket `n` as `full` attaches it -/
def kidOf (orig : Bk) (f : Nat) (path : List Bytes) (o : List (Bytes × Bk)) (n : Bytes) : Option (Bytes × Bk) :=
  match lookupBk n o with
  | some c => some (n, full orig f (path ++ [n]) c)
  | none => (bkAt (path ++ [n]) orig).map (fun c => (n, c))

theorem full_succ (orig : Bk) (f : Nat) (path : List Bytes) (r s : Nat) (t : N) (o : List (Bytes × Bk)) :
    full orig (f+1) path (.mk r s t o) = .mk r s t ((bucketNames t).filterMap (kidOf orig f path o)) := by
  rw [full]; rfl

theorem kidOf_fst {orig : Bk} {f : Nat} {path : List Bytes} {o : List (Bytes × Bk)} {n : Bytes} {q : Bytes × Bk}
    (h : kidOf orig f path o n = some q) : q.1 = n := by
  unfold kidOf at h
  split at h
  · cases h; rfl
  · cases hb : bkAt (path ++ [n]) orig with
    | none => rw [hb] at h; cases h
    | some c => rw [hb] at h; cases h; rfl

theorem fm_names (g : Bytes → Option (Bytes × Bk)) (hg : ∀ n q, g n = some q → q.1 = n) :
    ∀ (l : List Bytes), (∀ n ∈ l, (g n).isSome = true) → (l.filterMap g).map (·.1) = l
  | [], _ => rfl
  | a :: r, h => by
    obtain ⟨q, hq⟩ := Option.isSome_iff_exists.mp (h a (List.mem_cons_self ..))
    rw [List.filterMap_cons, hq]
    simp only [List.map_cons, hg a q hq, fm_names g hg r (fun n hn => h n (List.mem_cons_of_mem _ hn))]

theorem fm_lookup (g : Bytes → Option (Bytes × Bk)) (hg : ∀ n q, g n = some q → q.1 = n) (k : Bytes) :
    ∀ (l : List Bytes), (∀ n ∈ l, (g n).isSome = true) → k ∈ l →
    lookupBk k (l.filterMap g) = (g k).map (·.2)
  | [], _, hk => by cases hk
  | a :: r, h, hk => by
    obtain ⟨q, hq⟩ := Option.isSome_iff_exists.mp (h a (List.mem_cons_self ..))
    rw [List.filterMap_cons, hq]
    simp only
    rw [lookupBk_cons, hg a q hq]
    by_cases ha : a = k
    · subst ha; rw [if_pos rfl, hq]; rfl
    · rw [if_neg ha]
      rcases List.mem_cons.mp hk with hk | hk
      · exact absurd hk.symm ha
      · exact fm_lookup g hg k r (fun n hn => h n (List.mem_cons_of_mem _ hn)) hk

theorem exists_uniform {α : Type} (P : Nat → α → Prop) : ∀ (l : List α),
    (∀ x ∈ l, ∃ F, ∀ F', F ≤ F' → P F' x) → ∃ F, ∀ F', F ≤ F' → ∀ x ∈ l, P F' x
  | [], _ => ⟨0, fun _ _ x hx => by cases hx⟩
  | a :: r, h => by
    obtain ⟨F1, h1⟩ := h a (List.mem_cons_self ..)
    obtain ⟨F2, h2⟩ := exists_uniform P r (fun x hx => h x (List.mem_cons_of_mem _ hx))
    refine ⟨max F1 F2, ?_⟩
    intro F' hF x hx
    rcases List.mem_cons.mp hx with rfl | hx
    · exact h1 F' (by omega)
    · exact h2 F' (by omega) x hx

theorem full_ok (orig : Bk) (fu : Nat) (ho : origOk fu orig = true) :
    ∀ (f : Nat) (path : List Bytes) (b : Bk), f + path.length = fu → outOk orig f path b →
    ∃ F, ∀ F', F ≤ F' → origOkG false F' (full orig f path b) = true ∧
      ∀ (X : Bk) (p : List Bytes), absBk X F' p (full orig f path b) = absBk orig f path b
  | 0, _, _, _, h => by rw [outOk] at h; exact h.elim
  | f+1, path, .mk r s t o, hlev, h => by
    rw [outOk] at h
    obtain ⟨hc, hch, hnames⟩ := h
    obtain ⟨F0, hF0⟩ := exists_uniform
      (fun F' (q : Bytes × Bk) => origOkG false F' (full orig f (path ++ [q.1]) q.2) = true ∧
        ∀ (X : Bk) (p : List Bytes),
          absBk X F' p (full orig f (path ++ [q.1]) q.2) = absBk orig f (path ++ [q.1]) q.2) o
      (fun q hq => full_ok orig fu ho f (path ++ [q.1]) q.2
        (by rw [List.length_append, List.length_singleton]; omega) (hch q hq))
    -- buckets taken from `orig`
    have horig : ∀ n c, bkAt (path ++ [n]) orig = some c → origOkG true f c = true := by
      intro n c hb
      have := origAt true (path ++ [n]) fu orig c ho hb
      rw [List.length_append, List.length_singleton] at this
      have e : fu - (path.length + 1) = f := by omega
      rw [e] at this; exact this
    have hg : ∀ n q, kidOf orig f path o n = some q → q.1 = n := fun n q h => kidOf_fst h
    have hsome : ∀ n ∈ bucketNames t, (kidOf orig f path o n).isSome = true := by
      intro n hn
      unfold kidOf
      cases hl : lookupBk n o with
      | some c => rfl
      | none =>
        rcases hnames n hn with h | h
        · rw [hl] at h; cases h
        · simp only [Option.isSome_map]; exact h
    refine ⟨max (max F0 f) (depth t) + 1, ?_⟩
    intro F' hF'
    cases F' with
    | zero => omega
    | succ F'' =>
    rw [full_succ]
    refine ⟨?_, ?_⟩
    · rw [origOkG_succ]
      refine ⟨hc, fun hi => (by cases hi), by omega, fm_names _ hg _ hsome, ?_⟩
      intro q hq
      obtain ⟨n, hn, hq⟩ := List.mem_filterMap.mp hq
      unfold kidOf at hq
      cases hl : lookupBk n o with
      | some c =>
        rw [hl] at hq
        cases hq
        exact (hF0 F'' (by omega) (n, c) (lookupBk_mem hl)).1
      | none =>
        rw [hl] at hq
        cases hb : bkAt (path ++ [n]) orig with
        | none => rw [hb] at hq; cases hq
        | some c =>
          rw [hb] at hq
          cases hq
          exact origOkG_mono true f c (horig n c hb) F'' (by omega)
    · intro X p
      rw [absBk_succ, absBk_succ]
      congr 1
      apply List.map_congr_left
      intro x hx
      by_cases hb : x.2.1 = true
      · rw [if_pos hb, if_pos hb]
        have hn : x.1 ∈ bucketNames t := by rw [bucketNames_nf]; exact mem_namesOf hx hb
        have hlk := fm_lookup _ hg x.1 _ hsome hn
        congr 1
        cases hl : lookupBk x.1 o with
        | some c =>
          have e1 : kidOf orig f path o x.1 = some (x.1, full orig f (path ++ [x.1]) c) := by
            unfold kidOf; rw [hl]
          rw [e1] at hlk
          have e2 : childAbs orig f path (Bk.mk r s t o).opened x.1 = absBk orig f (path ++ [x.1]) c :=
            childAbs_some hl
          have e3 : childAbs X F'' p (Bk.mk r s t ((bucketNames t).filterMap (kidOf orig f path o))).opened x.1 =
              absBk X F'' (p ++ [x.1]) (full orig f (path ++ [x.1]) c) := childAbs_some hlk
          rw [e2, e3]
          exact (hF0 F'' (by omega) (x.1, c) (lookupBk_mem hl)).2 X (p ++ [x.1])
        | none =>
          rcases hnames x.1 hn with h | h
          · rw [hl] at h; cases h
          · obtain ⟨c, hc'⟩ := Option.isSome_iff_exists.mp h
            have e1 : kidOf orig f path o x.1 = some (x.1, c) := by
              unfold kidOf; rw [hl, hc']; rfl
            rw [e1] at hlk
            have e2 : childAbs orig f path (Bk.mk r s t o).opened x.1 = absBk c f [] c := by
              show childAbs orig f path o x.1 = _
              rw [childAbs_none hl, hc']
            have e3 : childAbs X F'' p (Bk.mk r s t ((bucketNames t).filterMap (kidOf orig f path o))).opened x.1 =
                absBk X F'' (p ++ [x.1]) c := childAbs_some hlk
            rw [e2, e3]
            exact absBk_indep true f c (horig x.1 c hc') F'' (by omega) X (p ++ [x.1])
      · rw [if_neg hb, if_neg hb]

/-! ### the commit -/

theorem commit_ok (ps sth rth fu : Nat) (orig cur : Bk) (order : List Nat)
    (hw : WF fu orig cur) (hf : fuelOk' fu fu cur = true)
    (hc : ∀ pg ∈ allMat fu fu cur, pg ∈ order) :
    ∃ cur' fu', commitBk ps sth rth fu order cur = some cur' ∧
      absTop fu orig cur' = absTop fu orig cur ∧
      fu ≤ fu' ∧ origShapeOk fu' (full orig fu [] cur') = true ∧
      absTop fu' (full orig fu [] cur') (full orig fu [] cur') = absTop fu orig cur := by
  obtain ⟨ho, hcur⟩ := hw
  obtain ⟨b1, e1, hmid, habs1⟩ := rebalanceBk_ok orig rth fu order fu [] cur (Nat.le_refl _) hcur hf hc
  have key : ∃ cur', commitBk ps sth rth fu order cur = some cur' ∧ outOk orig fu [] cur' ∧
      absBk orig fu [] cur' = absBk orig fu [] cur := by
    unfold commitBk
    rw [e1, Option.bind_some]
    by_cases hin : inlineableBk ps b1 = true
    · obtain ⟨h1, h2⟩ := asInline_ok orig ps fu fu [] b1 hmid hin
      exact ⟨asInline b1, by rw [if_pos hin], h1, h2.trans habs1⟩
    · obtain ⟨b2, had, e2, h1, h2⟩ := spillBk_ok orig ps sth fu fu [] b1 hmid
      exact ⟨b2, by rw [if_neg hin, e2]; rfl, h1, h2.trans habs1⟩
  obtain ⟨cur', e, hout, habs⟩ := key
  obtain ⟨F, hF⟩ := full_ok orig fu ho fu [] cur' (by simp) hout
  obtain ⟨hs, ha⟩ := hF (max F fu) (by omega)
  refine ⟨cur', max F fu, e, ?_, by omega, hs, ?_⟩
  · unfold absTop; rw [habs]
  · unfold absTop; rw [ha, habs]

end Bolt.Bkt.BktCommitL
