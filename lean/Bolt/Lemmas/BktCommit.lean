import Bolt.Model.BktInv
namespace Bolt.Bkt.BktCommitL
open Bolt Bolt.BTree Bolt.Bkt

end Bolt.Bkt.BktCommitL
