import Bolt.Model.MetaWrite
import Bolt.Props.C14Bytes
import Bolt.Lemmas.Backup
import Bolt.Lemmas.Surgery
namespace Bolt.MetaWriteL
open Bolt Bolt.MetaWrite Bolt.Surgery Bolt.Backup Bolt.C14Bytes

/-! ### `Open` on two files that agree on the two meta pages -/

/-- a 64-byte window below `2*ps` is the same in both files -/
theorem low_shift {f f' : File} {ps off : Nat} (hm : ∀ i, i < 2 * ps → f'.get i = f.get i)
    (ho : off + 64 ≤ 2 * ps) : ∀ j, j < 64 → f'.get (off + j) = f.get (off + j) :=
  fun j hj => hm (off + j) (by omega)

/-- `Open` chooses the same meta in two files that agree below `2*ps`, the second at least as
    long as the first -/
theorem openMeta_congr_low (f f' : File) (ps os : Nat) (h : metaPagesOk f ps = true)
    (hm : ∀ i, i < 2 * ps → f'.get i = f.get i) (hsz : f.size ≤ f'.size) :
    openMeta f' os = openMeta f os ∧
    ∃ moff, (moff = 16 ∨ moff = ps + 16) ∧ openMeta f os = .ok (ps, moff) := by
  have ok := SurgeryL.pagesOk_of h
  have hps := ok.ps80
  have s0 := low_shift (off := 16) hm (by omega)
  have s1 := low_shift (off := ps + 16) hm (by omega)
  have v0 : metaValid f' 16 = true := (SurgeryL.metaValid_shift s0).trans ok.v0
  have v1 : metaValid f' (ps + 16) = true := (SurgeryL.metaValid_shift s1).trans ok.v1
  have k32 : f'.u32 24 = f.u32 24 := SurgeryL.u32_shift (fun j hj => hm _ (by omega))
  have t0 : f'.u64 (16 + 48) = f.u64 (16 + 48) := SurgeryL.u64_shift (fun j hj => hm _ (by omega))
  have t1 : f'.u64 (ps + 16 + 48) = f.u64 (ps + 16 + 48) :=
    SurgeryL.u64_shift (fun j hj => hm _ (by omega))
  have o := SurgeryL.openMeta_ok f os ps ok.s4096 ok.v0 ok.v1 ok.ps0 ok.s2
  have o' := SurgeryL.openMeta_ok f' os ps (by have := ok.s4096; omega) v0 v1 (k32.trans ok.ps0)
    (by have := ok.s2; omega)
  rw [t0, t1] at o'
  refine ⟨o'.trans o.symm, _, ?_, o⟩
  by_cases c : f.u64 (ps + 16 + 48) > f.u64 (16 + 48)
  · rw [if_pos c]; exact Or.inr rfl
  · rw [if_neg c]; exact Or.inl rfl

/-! ### the written meta page -/

/-- the 64 bytes of the meta struct of the written page -/
theorem patch_meta_shift (f : File) (ps s : Nat) (m : Meta) (h80 : 80 ≤ ps) :
    ∀ j, j < 64 → (patch f (s * ps) (metaPage ps s m)).get (s * ps + 16 + j) =
      (Enc.fileOf (metaPage ps s m)).get (16 + j) := by
  intro j hj
  rw [Nat.add_assoc, SurgeryL.patch_get_in f (s * ps) _ (16 + j)
    (by rw [BackupL.metaPage_length _ _ _ h80]; omega)]
  rfl

theorem metaPage_split (ps s : Nat) (m : Meta) :
    metaPage ps s m = Enc.header s V2.metaPageFlag 0 0 ++ (encodeMeta m ++ List.replicate (ps - 80) 0) := by
  simp only [metaPage, List.append_assoc]

/-- the meta struct of the written slot is valid and is the transaction's meta -/
theorem patch_meta (f : File) (ps s : Nat) (m : Meta) (hm : MetaOk ps m) :
    metaValid (patch f (s * ps) (metaPage ps s m)) (s * ps + 16) = true ∧
    metaAt (patch f (s * ps) (metaPage ps s m)) (s * ps + 16) =
      { m with checksum := metaSum (patch f (s * ps) (metaPage ps s m)) (s * ps + 16) } := by
  have sh := patch_meta_shift f ps s m hm.ps80
  have a := BackupL.meta_of_split (off := 16) _ _ m (metaPage_split ps s m)
    (by rw [Enc.header_length]) hm.magic hm.version (by rw [hm.pageSize]; exact hm.ps32)
    hm.flags hm.root hm.seq hm.freelist hm.pgid hm.txid
  rw [SurgeryL.metaValid_shift sh, SurgeryL.metaAt_shift sh, SurgeryL.metaSum_shift sh]
  exact a

/-- the meta write for slot `s ∈ {0, 1}` -/
theorem publish_aux (f : File) (ps os : Nat) (m : Meta) (s : Nat) (hs : s = 0 ∨ s = 1)
    (h : metaPagesOk f ps = true) (hm : MetaOk ps m)
    (hnew : (metaAt f ((1 - s) * ps + 16)).txid < m.txid) :
    (patch f (s * ps) (metaPage ps s m)).size = f.size ∧
    (∀ i, ¬ (s * ps ≤ i ∧ i < s * ps + ps) → (patch f (s * ps) (metaPage ps s m)).get i = f.get i) ∧
    metaValid (patch f (s * ps) (metaPage ps s m)) (s * ps + 16) = true ∧
    metaAt (patch f (s * ps) (metaPage ps s m)) (s * ps + 16) =
      { m with checksum := metaSum (patch f (s * ps) (metaPage ps s m)) (s * ps + 16) } ∧
    openMeta (patch f (s * ps) (metaPage ps s m)) os = .ok (ps, s * ps + 16) := by
  have ok := SurgeryL.pagesOk_of h
  have hps := ok.ps80
  have hs2 := ok.s2
  have hlen : (metaPage ps s m).length = ps := BackupL.metaPage_length _ _ _ hps
  obtain ⟨pv, pm⟩ := patch_meta f ps s m hm
  have hsize : (patch f (s * ps) (metaPage ps s m)).size = f.size :=
    SurgeryL.patch_size f _ _ (by rw [hlen]; rcases hs with rfl | rfl <;> omega)
  have hout : ∀ i, ¬ (s * ps ≤ i ∧ i < s * ps + ps) →
      (patch f (s * ps) (metaPage ps s m)).get i = f.get i :=
    fun i hi => SurgeryL.patch_get_out f _ _ i (by rw [hlen]; exact hi)
  refine ⟨hsize, hout, pv, pm, ?_⟩
  generalize patch f (s * ps) (metaPage ps s m) = f' at *
  have htx : f'.u64 (s * ps + 16 + 48) = m.txid := by
    have := congrArg Meta.txid pm
    simp only [metaAt] at this
    exact this
  have hpz : f'.u32 (s * ps + 16 + 8) = ps := by
    have := congrArg Meta.pageSize pm
    simp only [metaAt] at this
    exact this.trans hm.pageSize
  have hold : (metaAt f ((1 - s) * ps + 16)).txid = f.u64 ((1 - s) * ps + 16 + 48) := rfl
  rw [hold] at hnew
  rcases hs with rfl | rfl
  · simp only [Nat.zero_mul, Nat.zero_add, Nat.sub_zero, Nat.one_mul] at *
    have s1 : ∀ j, j < 64 → f'.get (ps + 16 + j) = f.get (ps + 16 + j) :=
      fun j hj => hout _ (by omega)
    have v1 : metaValid f' (ps + 16) = true := (SurgeryL.metaValid_shift s1).trans ok.v1
    have t1 : f'.u64 (ps + 16 + 48) = f.u64 (ps + 16 + 48) :=
      SurgeryL.u64_shift (fun j hj => hout _ (by omega))
    rw [SurgeryL.openMeta_ok f' os ps (by rw [hsize]; exact ok.s4096) pv v1 hpz
      (by rw [hsize]; exact hs2), htx, t1, if_neg (by omega)]
  · simp only [Nat.one_mul, Nat.sub_self, Nat.zero_mul, Nat.zero_add] at *
    have s0 : ∀ j, j < 64 → f'.get (16 + j) = f.get (16 + j) :=
      fun j hj => hout _ (by omega)
    have v0 : metaValid f' 16 = true := (SurgeryL.metaValid_shift s0).trans ok.v0
    have t0 : f'.u64 (16 + 48) = f.u64 (16 + 48) :=
      SurgeryL.u64_shift (fun j hj => hout _ (by omega))
    have k32 : f'.u32 24 = f.u32 24 := SurgeryL.u32_shift (fun j hj => hout _ (by omega))
    rw [SurgeryL.openMeta_ok f' os ps (by rw [hsize]; exact ok.s4096) v0 pv (k32.trans ok.ps0)
      (by rw [hsize]; exact hs2), htx, t0, if_pos (by omega)]

end Bolt.MetaWriteL
