/-
Helper lemmas for `Bolt.Props.C04Bridge`: how `find?` / `insSorted` / `filter` on an item list
commute with a key-preserving map into the entry list of the API-level model.
-/
import Bolt.Model.BTreeInv
namespace Bolt.BTree.BridgeL
open Bolt Bolt.BTree

/-- `find?` by key commutes with a key-preserving map -/
theorem find_map (f : Item → Bytes × SVal) (hf : ∀ i, (f i).1 = i.key) (k : Bytes) :
    ∀ l : List Item,
      (l.map f).find? (fun p => p.1 == k) = (l.find? (fun i => i.key == k)).map f
  | [] => rfl
  | x :: r => by
    rw [List.map_cons, List.find?_cons, List.find?_cons, hf x]
    cases h : (x.key == k)
    · exact find_map f hf k r
    · rfl

/-- the lookup of the API-level model on the image of an item list -/
theorem lookup_map (f : Item → Bytes × SVal) (hf : ∀ i, (f i).1 = i.key) (k : Bytes)
    (l : List Item) :
    entsLookup (l.map f) k = (l.find? (fun i => i.key == k)).map (fun i => (f i).2) := by
  unfold entsLookup
  rw [find_map f hf k l]
  cases l.find? (fun i => i.key == k) <;> rfl

/-- `insSorted` is `entsInsert` under a key-preserving map -/
theorem insSorted_map (f : Item → Bytes × SVal) (hf : ∀ i, (f i).1 = i.key) (it : Item) :
    ∀ l : List Item, (insSorted it l).map f = entsInsert it.key (f it).2 (l.map f)
  | [] => by
    show [f it] = [(it.key, (f it).2)]
    rw [← hf it]
  | x :: r => by
    have hx : f x = (x.key, (f x).2) := by rw [← hf x]
    have hit : f it = (it.key, (f it).2) := by rw [← hf it]
    rw [List.map_cons, hx, entsInsert, insSorted]
    cases h1 : (it.key == x.key)
    · cases h2 : Bytes.lt it.key x.key
      · simp only [Bool.false_eq_true, if_false, List.map_cons]
        rw [insSorted_map f hf it r, ← hx]
      · simp only [Bool.false_eq_true, if_false, if_true, List.map_cons]
        rw [← hx, ← hit]
    · simp only [if_true, List.map_cons]
      rw [← hit]

/-- deleting by key commutes with a key-preserving map -/
theorem filter_map (f : Item → Bytes × SVal) (hf : ∀ i, (f i).1 = i.key) (k : Bytes) :
    ∀ l : List Item,
      (l.filter (fun i => !(i.key == k))).map f = entsErase k (l.map f)
  | [] => rfl
  | x :: r => by
    unfold entsErase
    rw [List.map_cons, List.filter_cons, List.filter_cons, hf x]
    cases h : (x.key == k)
    · simp only [Bool.not_false, if_true, List.map_cons]
      rw [filter_map f hf k r]; rfl
    · simp only [Bool.not_true, Bool.false_eq_true, if_false]
      rw [filter_map f hf k r]; rfl

/-- a missing key: the filter of `specDel` changes nothing -/
theorem filter_of_find_isNone (k : Bytes) :
    ∀ l : List Item, (l.find? (fun i => i.key == k)).isNone = true →
      l.filter (fun i => !(i.key == k)) = l
  | [], _ => rfl
  | x :: r, h => by
    rw [List.find?_cons] at h
    rw [List.filter_cons]
    cases hx : (x.key == k)
    · rw [hx] at h
      simp only [Bool.not_false, if_true]
      rw [filter_of_find_isNone k r h]
    · rw [hx] at h; cases h

end Bolt.BTree.BridgeL
