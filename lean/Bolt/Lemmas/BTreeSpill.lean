/-
Helper lemmas for C04/C07 (`Bolt.Props.C04Tree`): `node.spill` / `node.split` on the
in-transaction B+tree (`spillN`, `putPieces`, `splitNode`, `growRoot`, `spillRoot`).
-/
import Bolt.Model.BTreeInv
import Bolt.Lemmas.Node
import Bolt.Props.C04Node
namespace Bolt.BTree.SpillL
open Bolt Bolt.BTree Bolt.Node

/-! ### induction on the nested inductive `N` -/

theorem N_ind {P : N → Prop} (hleaf : ∀ h items, P (.leaf h items))
    (hbranch : ∀ h kids, (∀ p ∈ kids, P p.2) → P (.branch h kids)) : ∀ n, P n := by
  intro n
  exact N.rec (motive_1 := P) (motive_2 := fun kids => ∀ p ∈ kids, P p.2) (motive_3 := fun p => P p.2)
    hleaf hbranch (by intro p hp; cases hp)
    (fun p r hp hr q hq => by
      rcases List.mem_cons.mp hq with rfl | hq
      · exact hp
      · exact hr q hq)
    (fun _ _ h => h) n

/-! ### the byte order -/

abbrev Lt (a b : Bytes) : Prop := Bytes.lt a b = true

/-- `a < b ≤ c` -/
theorem lt_of_lt_of_le {a b c : Bytes} (h1 : Bytes.lt a b = true) (h2 : Bytes.lt c b = false) :
    Bytes.lt a c = true := by
  cases h : Bytes.lt a c with
  | true => rfl
  | false =>
    by_cases hac : a = c
    · subst hac; rw [h1] at h2; cases h2
    · have := Bytes.lt_total h hac
      rw [Bytes.lt_trans this h1] at h2; cases h2

/-- `a ≤ b < c` -/
theorem lt_of_le_of_lt {a b c : Bytes} (h1 : Bytes.lt b a = false) (h2 : Bytes.lt b c = true) :
    Bytes.lt a c = true := by
  cases h : Bytes.lt a c with
  | true => rfl
  | false =>
    by_cases hac : a = c
    · subst hac; rw [h2] at h1; cases h1
    · have := Bytes.lt_total h hac
      rw [Bytes.lt_trans h2 this] at h1; cases h1

/-- `a ≤ b ≤ c` -/
theorem le_trans {a b c : Bytes} (h1 : Bytes.lt b a = false) (h2 : Bytes.lt c b = false) :
    Bytes.lt c a = false := by
  cases h : Bytes.lt c a with
  | false => rfl
  | true => rw [lt_of_lt_of_le h h1] at h2; cases h2

theorem sortedKeys_iff : ∀ l : List Bytes, sortedKeys l = true ↔ l.Pairwise Lt
  | [] => by simp [sortedKeys]
  | [_] => by simp [sortedKeys]
  | a :: b :: r => by
    have ih := sortedKeys_iff (b :: r)
    rw [sortedKeys, Bool.and_eq_true, ih]
    constructor
    · intro ⟨h1, h2⟩
      refine List.pairwise_cons.mpr ⟨?_, h2⟩
      intro x hx
      rcases List.mem_cons.mp hx with rfl | hx
      · exact h1
      · exact Bytes.lt_trans h1 ((List.pairwise_cons.mp h2).1 x hx)
    · intro h
      have := List.pairwise_cons.mp h
      exact ⟨this.1 _ (List.mem_cons_self ..), this.2⟩

theorem geLo_trans {lo : Option Bytes} {s x : Bytes} (h1 : geLo lo s = true)
    (h2 : Bytes.lt x s = false) : geLo lo x = true := by
  cases lo with
  | none => rfl
  | some l =>
    simp only [geLo, Bool.not_eq_true'] at h1 ⊢
    exact le_trans h1 h2

theorem ltHi_trans {hi : Option Bytes} {s x : Bytes} (h1 : ltHi hi s = true)
    (h2 : Bytes.lt x s = true) : ltHi hi x = true := by
  cases hi with
  | none => rfl
  | some l =>
    simp only [ltHi] at h1 ⊢
    exact Bytes.lt_trans h2 h1

/-! ### list forms of the mutual `…Kids` functions -/

theorem committedKids_iff (d : Nat) : ∀ kids : List (Bytes × N), committedKids kids d = true ↔
    ∀ p ∈ kids, p.1 = p.2.firstKey ∧ depth p.2 = d ∧ committedN false p.2 = true
  | [] => by simp [committedKids]
  | (s, c) :: r => by
    rw [committedKids, Bool.and_eq_true, Bool.and_eq_true, Bool.and_eq_true, committedKids_iff d r]
    simp only [beq_iff_eq, List.mem_cons, forall_eq_or_imp]
    constructor
    · rintro ⟨⟨⟨h1, h2⟩, h3⟩, h4⟩; exact ⟨⟨h1, h2, h3⟩, h4⟩
    · rintro ⟨⟨h1, h2, h3⟩, h4⟩; exact ⟨⟨⟨h1, h2⟩, h3⟩, h4⟩

theorem flattenKids_eq : ∀ kids : List (Bytes × N),
    flattenKids kids = (kids.map (fun p => flatten p.2)).flatten
  | [] => by simp [flattenKids]
  | (s, c) :: r => by rw [flattenKids, flattenKids_eq r]; simp

theorem flattenKids_append (a b : List (Bytes × N)) :
    flattenKids (a ++ b) = flattenKids a ++ flattenKids b := by
  simp [flattenKids_eq]

theorem depthKids_le_iff (m : Nat) : ∀ kids : List (Bytes × N),
    depthKids kids ≤ m ↔ ∀ p ∈ kids, depth p.2 ≤ m
  | [] => by simp [depthKids]
  | (s, c) :: r => by
    rw [depthKids, Nat.max_le, depthKids_le_iff m r]
    simp only [List.mem_cons, forall_eq_or_imp]

theorem depth_le_depthKids {kids : List (Bytes × N)} {p : Bytes × N} (hp : p ∈ kids) :
    depth p.2 ≤ depthKids kids :=
  (depthKids_le_iff _ kids).mp (Nat.le_refl _) p hp

theorem depthKids_uniform (d : Nat) : ∀ kids : List (Bytes × N), kids ≠ [] →
    (∀ p ∈ kids, depth p.2 = d) → depthKids kids = d
  | [], h, _ => absurd rfl h
  | [(s, c)], _, h => by
    rw [depthKids, depthKids, h (s, c) (List.mem_cons_self ..)]; simp
  | (s, c) :: q :: r, _, h => by
    rw [depthKids, depthKids_uniform d (q :: r) (by simp) (fun p hp => h p (List.mem_cons_of_mem _ hp)),
      h (s, c) (List.mem_cons_self ..)]
    simp

theorem anyUnbKids_iff : ∀ kids : List (Bytes × N),
    anyUnbKids kids = false ↔ ∀ p ∈ kids, anyUnb p.2 = false
  | [] => by simp [anyUnbKids]
  | (s, c) :: r => by
    rw [anyUnbKids, Bool.or_eq_false_iff, anyUnbKids_iff r]
    simp only [List.mem_cons, forall_eq_or_imp]

theorem one_le_depth (n : N) : 1 ≤ depth n := by
  cases n with
  | leaf h items => rw [depth]; exact Nat.le_refl _
  | branch h kids => rw [depth]; omega

/-! ### committed nodes -/

theorem committed_root_of_false (n : N) (h : committedN false n = true) : committedN true n = true := by
  cases n with
  | leaf hd items =>
    rw [committedN] at h ⊢
    simp only [Bool.and_eq_true, Bool.or_eq_true, Bool.false_or] at h ⊢
    exact ⟨⟨⟨⟨h.1.1.1.1, h.1.1.1.2⟩, Or.inr h.1.1.2⟩, h.1.2⟩, h.2⟩
  | branch hd kids => rw [committedN] at h ⊢; exact h

theorem committed_count (n : N) (h : committedN false n = true) : n.count ≠ 0 := by
  cases n with
  | leaf hd items =>
    rw [committedN] at h
    simp only [Bool.and_eq_true, Bool.false_or] at h
    have := h.1.1.2
    cases items with
    | nil => simp at this
    | cons a r => simp [N.count]
  | branch hd kids =>
    rw [committedN] at h
    simp only [Bool.and_eq_true, decide_eq_true_eq] at h
    have := h.1.1.2
    simp only [N.count]; omega

theorem committed_flatten_ne : ∀ n : N, committedN false n = true → flatten n ≠ [] := by
  refine N_ind ?_ ?_
  · intro hd items h
    rw [committedN] at h
    simp only [Bool.and_eq_true, Bool.false_or] at h
    have := h.1.1.2
    rw [flatten]
    cases items with
    | nil => simp at this
    | cons a r => simp
  · intro hd kids ih h
    rw [committedN] at h
    simp only [Bool.and_eq_true, decide_eq_true_eq] at h
    have hlen := h.1.1.2
    have hk := (committedKids_iff _ kids).mp h.2
    rw [flatten]
    cases kids with
    | nil => simp at hlen
    | cons p r =>
      obtain ⟨s, c⟩ := p
      rw [flattenKids]
      have := ih (s, c) (List.mem_cons_self ..) (hk (s, c) (List.mem_cons_self ..)).2.2
      intro h0
      exact this (List.append_eq_nil_iff.mp h0).1

theorem length_le_flatten (L : List N) (h : ∀ q ∈ L, flatten q ≠ []) :
    L.length ≤ ((L.map flatten).flatten).length := by
  induction L with
  | nil => simp
  | cons q r ih =>
    have h1 := h q (List.mem_cons_self ..)
    have h2 := ih (fun q hq => h q (List.mem_cons_of_mem _ hq))
    have : 1 ≤ (flatten q).length := by
      cases hq : flatten q with
      | nil => exact absurd hq h1
      | cons a b => simp
    simp only [List.map_cons, List.flatten_cons, List.length_append, List.length_cons]
    omega

/-! ### an unmaterialised subtree of an in-transaction tree is a committed tree -/

theorem inTx_pmat_false {root : Bool} {lo hi : Option Bytes} {n : N}
    (h : inTxN root false lo hi n = true) : n.hd.mat = false := by
  cases n with
  | leaf hd items =>
    rw [inTxN] at h
    simp only [Bool.and_eq_true, Bool.or_eq_true, Bool.not_eq_true', Bool.or_false] at h
    exact h.1.1.1.2
  | branch hd kids =>
    rw [inTxN] at h
    simp only [Bool.and_eq_true, Bool.or_eq_true, Bool.not_eq_true', Bool.or_false] at h
    exact h.1.1.1.1.2

theorem unmat_committed : ∀ (n : N) (root pmat : Bool) (lo hi : Option Bytes), n.hd.mat = false →
    inTxN root pmat lo hi n = true → committedN root n = true := by
  refine N_ind ?_ ?_
  · intro hd items root pmat lo hi hm h
    simp only [N.hd] at hm
    rw [inTxN] at h
    rw [committedN]
    simp only [hm, Bool.and_eq_true, Bool.or_eq_true, Bool.not_eq_true', Bool.or_false,
      Bool.false_and, Bool.not_false, Bool.true_and, List.all_eq_true] at h ⊢
    refine ⟨⟨⟨h.1.1.1.1, h.1.1.2⟩, h.1.2⟩, ?_⟩
    intro x hx
    exact (h.2 x hx).1.1
  · intro hd kids ih root pmat lo hi hm h
    simp only [N.hd] at hm
    rw [inTxN] at h
    rw [committedN]
    simp only [hm, Bool.and_eq_true, Bool.or_eq_true, Bool.not_eq_true', Bool.or_false,
      Bool.not_false, Bool.true_and, decide_eq_true_eq] at h ⊢
    refine ⟨⟨⟨h.1.1.1.1.1, h.1.1.1.2⟩, h.1.1.2⟩, ?_⟩
    have hk := h.2
    generalize ((kids.head?.map (fun p => depth p.2)).getD 0) = d at hk ⊢
    clear h
    -- kids-level induction
    have key : ∀ (l : List (Bytes × N)) (lo : Option Bytes), (∀ p ∈ l, p ∈ kids) →
        inTxKids false lo hi l d = true → committedKids l d = true := by
      intro l
      induction l with
      | nil => intro _ _ _; rw [committedKids]
      | cons p r ihr =>
        intro lo hsub hk
        obtain ⟨s, c⟩ := p
        rw [inTxKids] at hk
        simp only [Bool.and_eq_true, beq_iff_eq] at hk
        have hcm : c.hd.mat = false := inTx_pmat_false hk.1.2
        rw [committedKids]
        simp only [Bool.and_eq_true, beq_iff_eq]
        refine ⟨⟨⟨?_, hk.1.1.2⟩, ?_⟩, ?_⟩
        · have := hk.1.1.1; rw [hcm] at this; simpa using this
        · exact ih (s, c) (hsub _ (List.mem_cons_self ..)) false false _ _ hcm hk.1.2
        · exact ihr _ (fun p hp => hsub p (List.mem_cons_of_mem _ hp)) hk.2
    exact key kids lo (fun _ h => h) hk

/-! ### sorted key lists within bounds -/

/-- strictly ascending and within `[lo, hi)` -/
def SortedIn (lo hi : Option Bytes) (ks : List Bytes) : Prop :=
  ks.Pairwise Lt ∧ ∀ k ∈ ks, geLo lo k = true ∧ ltHi hi k = true

theorem SortedIn_nil (lo hi : Option Bytes) : SortedIn lo hi [] := ⟨List.Pairwise.nil, by simp⟩

theorem SortedIn_append {lo hi : Option Bytes} {m : Bytes} {a b : List Bytes}
    (ha : SortedIn lo (some m) a) (hb : SortedIn (some m) hi b)
    (hlo : geLo lo m = true) (hhi : ltHi hi m = true) : SortedIn lo hi (a ++ b) := by
  have hlt : ∀ x ∈ a, Bytes.lt x m = true := fun x hx => by simpa [ltHi] using (ha.2 x hx).2
  have hge : ∀ y ∈ b, Bytes.lt y m = false := fun y hy => by simpa [geLo] using (hb.2 y hy).1
  refine ⟨List.pairwise_append.mpr ⟨ha.1, hb.1, ?_⟩, ?_⟩
  · intro x hx y hy
    exact lt_of_lt_of_le (hlt x hx) (hge y hy)
  · intro k hk
    rcases List.mem_append.mp hk with hk | hk
    · exact ⟨(ha.2 k hk).1, ltHi_trans hhi (hlt k hk)⟩
    · exact ⟨geLo_trans hlo (hge k hk), (hb.2 k hk).2⟩

theorem SortedIn_sublist {lo hi : Option Bytes} {a b : List Bytes} (h : a.Sublist b)
    (hb : SortedIn lo hi b) : SortedIn lo hi a :=
  ⟨hb.1.sublist h, fun k hk => hb.2 k (h.subset hk)⟩

/-- the separators of a tail of a sorted separator list are bounded below by the first one -/
theorem seps_tail {lo hi : Option Bytes} {s s' : Bytes} {r : List Bytes}
    (h : SortedIn lo hi (s :: s' :: r)) : SortedIn (some s') hi (s' :: r) := by
  have h2 := (List.pairwise_cons.mp h.1).2
  refine ⟨h2, ?_⟩
  intro k hk
  refine ⟨?_, (h.2 k (List.mem_cons_of_mem _ hk)).2⟩
  rcases List.mem_cons.mp hk with rfl | hk
  · simp [geLo, Bytes.lt_irrefl]
  · have := (List.pairwise_cons.mp h2).1 k hk
    simp [geLo, Bytes.lt_asymm this]

/-! ### the content of an in-transaction tree is sorted -/

theorem inTx_flatten_sorted : ∀ (n : N) (root pmat : Bool) (lo hi : Option Bytes),
    inTxN root pmat lo hi n = true → SortedIn lo hi ((flatten n).map (·.key)) := by
  refine N_ind ?_ ?_
  · intro hd items root pmat lo hi h
    rw [inTxN] at h
    simp only [Bool.and_eq_true, List.all_eq_true] at h
    rw [flatten]
    refine ⟨(sortedKeys_iff _).mp h.1.2, ?_⟩
    intro k hk
    obtain ⟨x, hx, rfl⟩ := List.mem_map.mp hk
    have := h.2 x hx
    exact ⟨this.1.2, this.2⟩
  · intro hd kids ih root pmat lo hi h
    rw [inTxN] at h
    simp only [Bool.and_eq_true, List.all_eq_true] at h
    have hk := h.2
    have hs : SortedIn lo hi (kids.map (·.1)) := by
      refine ⟨(sortedKeys_iff _).mp h.1.1.2, ?_⟩
      intro k hk
      obtain ⟨x, hx, rfl⟩ := List.mem_map.mp hk
      have := h.1.2 x hx
      exact ⟨this.1.2, this.2⟩
    generalize ((kids.head?.map (fun p => depth p.2)).getD 0) = d at hk
    rw [flatten]
    clear h
    have key : ∀ (l : List (Bytes × N)) (lo : Option Bytes), (∀ p ∈ l, p ∈ kids) →
        inTxKids hd.mat lo hi l d = true → SortedIn lo hi (l.map (·.1)) →
        SortedIn lo hi ((flattenKids l).map (·.key)) := by
      intro l
      induction l with
      | nil => intro _ _ _ _; rw [flattenKids]; exact SortedIn_nil _ _
      | cons p r ihr =>
        intro lo hsub hk hs
        obtain ⟨s, c⟩ := p
        rw [inTxKids] at hk
        simp only [Bool.and_eq_true] at hk
        have hc := ih (s, c) (hsub _ (List.mem_cons_self ..)) _ _ _ _ hk.1.2
        rw [flattenKids]
        cases r with
        | nil =>
          rw [flattenKids]
          simpa using hc
        | cons p' r' =>
          obtain ⟨s', c'⟩ := p'
          have hr := ihr (some s') (fun p hp => hsub p (List.mem_cons_of_mem _ hp)) hk.2 (seps_tail hs)
          have hb := hs.2 s' (by simp)
          rw [List.map_append]
          exact SortedIn_append (by simpa using hc) hr hb.1 hb.2
    exact key kids lo (fun _ h => h) hk hs

/-! ### `cut` and `splitNode` -/

theorem cut_spec {α : Type} : ∀ (lens : List Nat) (l : List α), lens.sum = l.length →
    (cut lens l).flatten = l ∧ (cut lens l).map List.length = lens
  | [], l, h => by
    have : l = [] := by
      cases l with
      | nil => rfl
      | cons a r => simp at h
    subst this
    simp [cut]
  | n :: ns, l, h => by
    simp only [List.sum_cons] at h
    have ih := cut_spec ns (l.drop n) (by rw [List.length_drop]; omega)
    rw [cut]
    refine ⟨?_, ?_⟩
    · rw [List.flatten_cons, ih.1, List.take_append_drop]
    · rw [List.map_cons, ih.2, List.length_take]
      congr 1; omega

theorem cut_ne_nil {α : Type} (lens : List Nat) (l : List α) (h : lens ≠ []) : cut lens l ≠ [] := by
  cases lens with
  | nil => exact absurd rfl h
  | cons n ns => simp [cut]

theorem split_pos (ps th : Nat) (fuel : Nat) (l : List El) (hl : l ≠ []) :
    ∀ p ∈ split ps th fuel l, p ≠ [] := by
  intro p hp
  by_cases h2 : 2 ≤ l.length
  · have := C04Node.split_min_keys_aux ps th fuel l h2 p hp
    intro h0; subst h0; simp at this
  · have h1 : l.length ≤ 4 := by omega
    have : split ps th fuel l = [l] := by
      cases fuel with
      | zero => rw [split]
      | succ f => rw [split, if_pos (Or.inl h1)]
    rw [this] at hp
    simp at hp; subst hp; exact hl

theorem lens_sum (ps sth fuel : Nat) (els : List El) :
    ((split ps sth fuel els).map List.length).sum = els.length := by
  rw [← List.length_flatten, C04Node.split_concat]

theorem splitNode_leaf_spec (ps sth : Nat) (hd : Hd) (items : List Item) :
    ∃ segs : List (List Item), splitNode ps sth (.leaf hd items) = segs.map (N.leaf written) ∧
      segs.flatten = items ∧ segs ≠ [] ∧ (items ≠ [] → ∀ s ∈ segs, s ≠ []) := by
  have hsum := lens_sum ps sth (N.leaf hd items).count (N.leaf hd items).els
  have hlen : (N.leaf hd items).els.length = items.length := by simp [N.els]
  rw [hlen] at hsum
  have hc := cut_spec _ items hsum
  refine ⟨cut ((split ps sth (N.leaf hd items).count (N.leaf hd items).els).map List.length) items,
    rfl, hc.1, ?_, ?_⟩
  · apply cut_ne_nil
    intro h0
    exact split_ne_nil ps sth _ _ (List.map_eq_nil_iff.mp h0)
  · intro hne s hs h0
    have : s.length ∈ (cut ((split ps sth (N.leaf hd items).count (N.leaf hd items).els).map
        List.length) items).map List.length := List.mem_map.mpr ⟨s, hs, rfl⟩
    rw [hc.2] at this
    obtain ⟨p, hp, hpl⟩ := List.mem_map.mp this
    have hels : (N.leaf hd items).els ≠ [] := by
      intro h1; rw [h1] at hlen
      cases items with
      | nil => exact hne rfl
      | cons a r => simp at hlen
    have hpos := split_pos ps sth _ _ hels p hp
    subst h0
    simp at hpl
    exact hpos hpl

theorem splitNode_branch_spec (ps sth : Nat) (hd : Hd) (kids : List (Bytes × N)) :
    ∃ segs : List (List (Bytes × N)), splitNode ps sth (.branch hd kids) = segs.map (N.branch written) ∧
      segs.flatten = kids ∧ segs ≠ [] ∧ (2 ≤ kids.length → ∀ s ∈ segs, 2 ≤ s.length) := by
  have hsum := lens_sum ps sth (N.branch hd kids).count (N.branch hd kids).els
  have hlen : (N.branch hd kids).els.length = kids.length := by simp [N.els]
  rw [hlen] at hsum
  have hc := cut_spec _ kids hsum
  refine ⟨cut ((split ps sth (N.branch hd kids).count (N.branch hd kids).els).map List.length) kids,
    rfl, hc.1, ?_, ?_⟩
  · apply cut_ne_nil
    intro h0
    exact split_ne_nil ps sth _ _ (List.map_eq_nil_iff.mp h0)
  · intro h2 s hs
    have : s.length ∈ (cut ((split ps sth (N.branch hd kids).count (N.branch hd kids).els).map
        List.length) kids).map List.length := List.mem_map.mpr ⟨s, hs, rfl⟩
    rw [hc.2] at this
    obtain ⟨p, hp, hpl⟩ := List.mem_map.mp this
    have := C04Node.split_min_keys_aux ps sth _ _ (by rw [hlen]; exact h2) p hp
    omega

/-- the heads of consecutive non-empty segments form a sublist -/
theorem heads_sublist {α β : Type} (f : α → β) (g : List α → β)
    (hg : ∀ a r, g (a :: r) = f a) : ∀ segs : List (List α), (∀ s ∈ segs, s ≠ []) →
    (segs.map g).Sublist (segs.flatten.map f)
  | [], _ => by simp
  | s :: rest, h => by
    have ih := heads_sublist f g hg rest (fun s hs => h s (List.mem_cons_of_mem _ hs))
    cases s with
    | nil => exact absurd rfl (h [] (List.mem_cons_self ..))
    | cons a r =>
      rw [List.map_cons, hg, List.flatten_cons, List.map_append, List.map_cons, List.cons_append]
      exact List.Sublist.cons_cons _ (ih.trans (List.sublist_append_right _ _))

theorem two_mul_length_le {α : Type} : ∀ segs : List (List α), (∀ s ∈ segs, 2 ≤ s.length) →
    2 * segs.length ≤ segs.flatten.length
  | [], _ => by simp
  | s :: rest, h => by
    have ih := two_mul_length_le rest (fun s hs => h s (List.mem_cons_of_mem _ hs))
    have := h s (List.mem_cons_self ..)
    simp only [List.length_cons, List.flatten_cons, List.length_append]
    omega

theorem length_le_flatten_length {α : Type} : ∀ segs : List (List α), (∀ s ∈ segs, s ≠ []) →
    segs.length ≤ segs.flatten.length
  | [], _ => by simp
  | s :: rest, h => by
    have ih := length_le_flatten_length rest (fun s hs => h s (List.mem_cons_of_mem _ hs))
    have : 1 ≤ s.length := by
      cases s with
      | nil => exact absurd rfl (h [] (List.mem_cons_self ..))
      | cons a r => simp
    simp only [List.length_cons, List.flatten_cons, List.length_append]
    omega

theorem flatten_map_flatten {α β : Type} (f : α → List β) : ∀ segs : List (List α),
    (segs.map (fun s => (s.map f).flatten)).flatten = (segs.flatten.map f).flatten
  | [] => by simp
  | s :: rest => by
    simp only [List.map_cons, List.flatten_cons, List.map_append, List.flatten_append,
      flatten_map_flatten f rest]

/-! ### the pieces a node is written as -/

/-- what `spillN` returns for a node with bounds `[lo, hi)`, depth `d` and content `F` -/
structure GoodPieces (lo hi : Option Bytes) (d : Nat) (F : List Item) (pieces : List N) : Prop where
  ne : pieces ≠ []
  comm : ∀ q ∈ pieces, committedN false q = true
  dep : ∀ q ∈ pieces, depth q = d
  flat : (pieces.map flatten).flatten = F
  keys : SortedIn lo hi (pieces.map N.firstKey)

theorem splitLeaf_good (ps sth : Nat) (hd : Hd) (items : List Item) (lo hi : Option Bytes)
    (hne : items ≠ []) (hk : ∀ i ∈ items, i.key.isEmpty = false)
    (hs : SortedIn lo hi (items.map (·.key))) :
    GoodPieces lo hi 1 items (splitNode ps sth (.leaf hd items)) ∧
      (splitNode ps sth (.leaf hd items)).length ≤ items.length := by
  obtain ⟨segs, heq, hflat, hsne, hpos⟩ := splitNode_leaf_spec ps sth hd items
  have hpos := hpos hne
  rw [heq]
  refine ⟨⟨?_, ?_, ?_, ?_, ?_⟩, ?_⟩
  · intro h0; exact hsne (List.map_eq_nil_iff.mp h0)
  · intro q hq
    obtain ⟨seg, hseg, rfl⟩ := List.mem_map.mp hq
    have hsub : seg.Sublist items := hflat ▸ List.sublist_flatten_of_mem hseg
    have h1 : sortedKeys (seg.map (·.key)) = true :=
      (sortedKeys_iff _).mpr (hs.1.sublist (hsub.map _))
    have h2 : seg.isEmpty = false := by
      cases seg with
      | nil => exact absurd rfl (hpos [] hseg)
      | cons a r => rfl
    rw [committedN]
    simp only [written, h1, h2, Bool.not_false, Bool.true_and, Bool.false_or,
      List.all_eq_true, Bool.not_eq_true']
    intro x hx
    exact hk x (hsub.subset hx)
  · intro q hq
    obtain ⟨seg, _, rfl⟩ := List.mem_map.mp hq
    rw [depth]
  · rw [List.map_map]
    have : (flatten ∘ N.leaf written) = (fun seg : List Item => seg) := by
      funext seg; simp only [Function.comp, flatten]
    rw [this, List.map_id', hflat]
  · rw [List.map_map]
    refine SortedIn_sublist ?_ hs
    rw [← hflat]
    exact heads_sublist (fun i : Item => i.key) _ (fun a r => by simp [N.firstKey]) segs hpos
  · rw [List.length_map, ← hflat]
    exact length_le_flatten_length segs hpos

theorem splitBranch_good (ps sth : Nat) (hd : Hd) (X : List (Bytes × N)) (lo hi : Option Bytes) (d : Nat)
    (h2 : 2 ≤ X.length)
    (hX : ∀ p ∈ X, p.1 = p.2.firstKey ∧ depth p.2 = d ∧ committedN false p.2 = true)
    (hs : SortedIn lo hi (X.map (·.1))) :
    GoodPieces lo hi (d + 1) (flattenKids X) (splitNode ps sth (.branch hd X)) ∧
      2 * (splitNode ps sth (.branch hd X)).length ≤ X.length := by
  obtain ⟨segs, heq, hflat, hsne, hpos⟩ := splitNode_branch_spec ps sth hd X
  have hpos := hpos h2
  have hpos' : ∀ s ∈ segs, s ≠ [] := fun s hs h0 => by
    have := hpos s hs; subst h0; simp at this
  rw [heq]
  refine ⟨⟨?_, ?_, ?_, ?_, ?_⟩, ?_⟩
  · intro h0; exact hsne (List.map_eq_nil_iff.mp h0)
  · intro q hq
    obtain ⟨seg, hseg, rfl⟩ := List.mem_map.mp hq
    have hsub : seg.Sublist X := hflat ▸ List.sublist_flatten_of_mem hseg
    have h1 : sortedKeys (seg.map (·.1)) = true :=
      (sortedKeys_iff _).mpr (hs.1.sublist (hsub.map _))
    have h3 : 2 ≤ seg.length := hpos seg hseg
    have h4 : (seg.head?.map (fun p => depth p.2)).getD 0 = d := by
      cases seg with
      | nil => simp at h3
      | cons a r => simp [(hX a (hsub.subset (List.mem_cons_self ..))).2.1]
    have h5 : committedKids seg d = true :=
      (committedKids_iff d seg).mpr (fun p hp => hX p (hsub.subset hp))
    rw [committedN, h4, h5]
    simp [written, h1, h3]
  · intro q hq
    obtain ⟨seg, hseg, rfl⟩ := List.mem_map.mp hq
    have hsub : seg.Sublist X := hflat ▸ List.sublist_flatten_of_mem hseg
    rw [depth, depthKids_uniform d seg (hpos' seg hseg) (fun p hp => (hX p (hsub.subset hp)).2.1)]
    omega
  · rw [List.map_map]
    have : (flatten ∘ N.branch written) =
        (fun seg : List (Bytes × N) => (seg.map (fun p => flatten p.2)).flatten) := by
      funext seg; simp only [Function.comp, flatten, flattenKids_eq]
    rw [this, flatten_map_flatten, hflat, flattenKids_eq]
  · rw [List.map_map]
    refine SortedIn_sublist ?_ hs
    rw [← hflat]
    exact heads_sublist (fun p : Bytes × N => p.1) _ (fun a r => by simp [N.firstKey]) segs hpos'
  · rw [List.length_map, ← hflat]
    exact two_mul_length_le segs hpos

/-! ### `branchPut` / `putPieces`: re-insertion of the pieces by key -/

/-- the inode a piece is stored under -/
def kv (q : N) : Bytes × N := (q.firstKey, q)

theorem branchPut_cons_lt (a : Bytes × N) (l : List (Bytes × N)) (k k' : Bytes) (q : N)
    (h : Bytes.lt a.1 k = true) : branchPut (a :: l) k k' q = a :: branchPut l k k' q := by
  unfold branchPut
  simp only [List.map_cons, lowerBound_cons, h, if_true, List.getElem?_cons_succ,
    List.set_cons_succ, List.take_succ_cons, List.drop_succ_cons]
  split <;> rfl

theorem branchPut_head_eq (s k' : Bytes) (c q : N) (B : List (Bytes × N)) :
    branchPut ((s, c) :: B) s k' q = (k', q) :: B := by
  unfold branchPut
  simp [lowerBound_cons, Bytes.lt_irrefl]

theorem branchPut_insert_head (k : Bytes) (q : N) (B : List (Bytes × N))
    (h : ∀ b ∈ B, Bytes.lt k b.1 = true) : branchPut B k k q = (k, q) :: B := by
  unfold branchPut
  cases B with
  | nil => simp [lowerBound_nil]
  | cons b r =>
    have hb := h b (List.mem_cons_self ..)
    have hne : b.1 ≠ k := fun e => Bytes.lt_ne hb e.symm
    simp [lowerBound_cons, Bytes.lt_asymm hb, hne]

theorem branchPut_replace (A B : List (Bytes × N)) (s k' : Bytes) (c q : N)
    (hA : ∀ a ∈ A, Bytes.lt a.1 s = true) :
    branchPut (A ++ (s, c) :: B) s k' q = A ++ (k', q) :: B := by
  induction A with
  | nil => exact branchPut_head_eq s k' c q B
  | cons a A ih =>
    rw [List.cons_append, branchPut_cons_lt _ _ _ _ _ (hA a (List.mem_cons_self ..)),
      ih (fun x hx => hA x (List.mem_cons_of_mem _ hx))]
    rfl

theorem branchPut_insert (A B : List (Bytes × N)) (k : Bytes) (q : N)
    (hA : ∀ a ∈ A, Bytes.lt a.1 k = true) (hB : ∀ b ∈ B, Bytes.lt k b.1 = true) :
    branchPut (A ++ B) k k q = A ++ (k, q) :: B := by
  induction A with
  | nil => exact branchPut_insert_head k q B hB
  | cons a A ih =>
    rw [List.cons_append, branchPut_cons_lt _ _ _ _ _ (hA a (List.mem_cons_self ..)),
      ih (fun x hx => hA x (List.mem_cons_of_mem _ hx))]
    rfl

/-- the further pieces (new nodes, `key == nil`) are inserted in order right after the first -/
theorem putPieces_rest : ∀ (qs : List N) (A B : List (Bytes × N)),
    (∀ q ∈ qs, q.count ≠ 0) → (qs.map N.firstKey).Pairwise Lt →
    (∀ a ∈ A, ∀ q ∈ qs, Bytes.lt a.1 q.firstKey = true) →
    (∀ q ∈ qs, ∀ b ∈ B, Bytes.lt q.firstKey b.1 = true) →
    putPieces (A ++ B) [] qs = some (A ++ qs.map kv ++ B)
  | [], A, B, _, _, _, _ => by simp [putPieces]
  | q :: qs, A, B, hc, hp, hA, hB => by
    rw [putPieces, if_neg (hc q (List.mem_cons_self ..))]
    simp only [if_true]
    rw [branchPut_insert A B _ q (fun a ha => hA a ha q (List.mem_cons_self ..))
      (fun b hb => hB q (List.mem_cons_self ..) b hb)]
    have hp' := List.pairwise_cons.mp hp
    have := putPieces_rest qs (A ++ [kv q]) B (fun x hx => hc x (List.mem_cons_of_mem _ hx)) hp'.2
      (fun a ha x hx => by
        rcases List.mem_append.mp ha with ha | ha
        · exact hA a ha x (List.mem_cons_of_mem _ hx)
        · simp only [List.mem_singleton] at ha; subst ha
          exact hp'.1 _ (List.mem_map.mpr ⟨x, hx, rfl⟩))
      (fun x hx b hb => hB x (List.mem_cons_of_mem _ hx) b hb)
    simp only [List.append_assoc, List.singleton_append, List.map_cons] at this ⊢
    exact this

/-- the pieces of a spilled child replace its inode -/
theorem putPieces_child (A B : List (Bytes × N)) (s : Bytes) (c : N) (qs : List N)
    (hs : s ≠ []) (hne : qs ≠ [])
    (hc : ∀ q ∈ qs, q.count ≠ 0) (hp : (qs.map N.firstKey).Pairwise Lt)
    (hAs : ∀ a ∈ A, Bytes.lt a.1 s = true)
    (hA : ∀ a ∈ A, ∀ q ∈ qs, Bytes.lt a.1 q.firstKey = true)
    (hB : ∀ q ∈ qs, ∀ b ∈ B, Bytes.lt q.firstKey b.1 = true) :
    putPieces (A ++ (s, c) :: B) s qs = some (A ++ qs.map kv ++ B) := by
  cases qs with
  | nil => exact absurd rfl hne
  | cons q qs =>
    rw [putPieces, if_neg (hc q (List.mem_cons_self ..))]
    simp only [if_neg hs]
    rw [branchPut_replace A B s _ c q hAs]
    have hp' := List.pairwise_cons.mp hp
    have := putPieces_rest qs (A ++ [kv q]) B (fun x hx => hc x (List.mem_cons_of_mem _ hx)) hp'.2
      (fun a ha x hx => by
        rcases List.mem_append.mp ha with ha | ha
        · exact hA a ha x (List.mem_cons_of_mem _ hx)
        · simp only [List.mem_singleton] at ha; subst ha
          exact hp'.1 _ (List.mem_map.mpr ⟨x, hx, rfl⟩))
      (fun x hx b hb => hB x (List.mem_cons_of_mem _ hx) b hb)
    simp only [List.append_assoc, List.singleton_append, List.map_cons] at this ⊢
    exact this

/-! ### `spillN` -/

/-- the `step` closure of `spillN` -/
def spillStep (ps sth fuel : Nat) (acc : Option (List (Bytes × N))) (sc : Bytes × N) :
    Option (List (Bytes × N)) :=
  match acc with
  | none => none
  | some ks =>
    if !sc.2.hd.mat then some ks else
    match spillN ps sth fuel sc.2 with
    | none => none
    | some pieces => putPieces ks sc.2.hd.key pieces

theorem spillN_branch (ps sth fuel : Nat) (h : Hd) (kids : List (Bytes × N)) :
    spillN ps sth (fuel+1) (.branch h kids) =
      if !h.mat then some [.branch h kids] else
      match kids.foldl (spillStep ps sth fuel) (some kids) with
      | none => none
      | some kids' => some (splitNode ps sth (.branch h kids')) := rfl

theorem inTxKids_depth (pm : Bool) (hi : Option Bytes) (d : Nat) : ∀ (l : List (Bytes × N))
    (lo : Option Bytes), inTxKids pm lo hi l d = true → ∀ p ∈ l, depth p.2 = d
  | [], _, _ => by simp
  | (s, c) :: r, lo, h => by
    rw [inTxKids] at h
    simp only [Bool.and_eq_true, beq_iff_eq] at h
    intro p hp
    rcases List.mem_cons.mp hp with rfl | hp
    · exact h.1.1.2
    · exact inTxKids_depth pm hi d r _ h.2 p hp

/-- what the induction hypothesis says about a child -/
def ChildOK (ps sth fuel : Nat) (pmat : Bool) (c : N) : Prop :=
  ∀ lo hi, inTxN false pmat lo hi c = true → anyUnb c = false →
    ∃ pieces, spillN ps sth fuel c = some pieces ∧
      GoodPieces lo hi (depth c) (flatten c) pieces ∧ pieces.length ≤ (flatten c).length

theorem fold_ok (ps sth fuel : Nat) (pmat : Bool) (hi : Option Bytes) (d : Nat) :
    ∀ (post A : List (Bytes × N)) (lo : Option Bytes),
    (∀ p ∈ post, ChildOK ps sth fuel pmat p.2) →
    inTxKids pmat lo hi post d = true →
    (∀ p ∈ post, anyUnb p.2 = false) →
    SortedIn lo hi (post.map (·.1)) →
    (∀ p ∈ post, p.1 ≠ []) →
    (∀ a ∈ A, ∀ p ∈ post, Bytes.lt a.1 p.1 = true) →
    (A ≠ [] → lo = post.head?.map (·.1)) →
    ∃ X, post.foldl (spillStep ps sth fuel) (some (A ++ post)) = some (A ++ X) ∧
      post.length ≤ X.length ∧ X.length ≤ (flattenKids post).length ∧
      (∀ p ∈ X, p.1 = p.2.firstKey ∧ depth p.2 = d ∧ committedN false p.2 = true) ∧
      flattenKids X = flattenKids post ∧
      SortedIn lo hi (X.map (·.1)) := by
  intro post
  induction post with
  | nil =>
    intro A lo _ _ _ _ _ _ _
    exact ⟨[], rfl, Nat.le_refl _, Nat.le_refl _, by simp, rfl, SortedIn_nil _ _⟩
  | cons p r ihr =>
    intro A lo hch hk hu hs hne hAp hAlo
    obtain ⟨s, c⟩ := p
    rw [inTxKids] at hk
    simp only [Bool.and_eq_true, beq_iff_eq] at hk
    obtain ⟨⟨⟨hsc, hdc⟩, hinc⟩, hkr⟩ := hk
    have hAs : ∀ a ∈ A, Bytes.lt a.1 s = true := fun a ha => hAp a ha (s, c) (List.mem_cons_self ..)
    have hsb := hs.2 s (by simp)
    have huc := hu (s, c) (List.mem_cons_self ..)
    -- the upper bound of the child is below every later separator
    have hhic : ∀ k, ltHi ((r.head?.map (·.1)).orElse (fun _ => hi)) k = true →
        ∀ b ∈ r, Bytes.lt k b.1 = true := by
      intro k hk b hb
      cases r with
      | nil => cases hb
      | cons p' r' =>
        obtain ⟨s', c'⟩ := p'
        have hk' : Bytes.lt k s' = true := by simpa [ltHi] using hk
        rcases List.mem_cons.mp hb with rfl | hb
        · exact hk'
        · have h2 := (List.pairwise_cons.mp (List.pairwise_cons.mp hs.1).2).1 b.1
            (List.mem_map.mpr ⟨b, hb, rfl⟩)
          exact Bytes.lt_trans hk' h2
    have hshic : ltHi ((r.head?.map (·.1)).orElse (fun _ => hi)) s = true := by
      cases r with
      | nil => simpa using hsb.2
      | cons p' r' =>
        obtain ⟨s', c'⟩ := p'
        have := (List.pairwise_cons.mp hs.1).1 s' (by simp)
        simpa [ltHi] using this
    -- one step of the fold
    have hstep : ∃ Xc, spillStep ps sth fuel (some (A ++ (s, c) :: r)) (s, c) = some (A ++ Xc ++ r) ∧
        1 ≤ Xc.length ∧ Xc.length ≤ (flatten c).length ∧
        (∀ p ∈ Xc, p.1 = p.2.firstKey ∧ depth p.2 = d ∧ committedN false p.2 = true) ∧
        flattenKids Xc = flatten c ∧
        SortedIn lo ((r.head?.map (·.1)).orElse (fun _ => hi)) (Xc.map (·.1)) := by
      by_cases hm : c.hd.mat = true
      · -- materialised child: spilled, its pieces re-inserted by key
        rw [if_pos hm] at hsc
        obtain ⟨pieces, hsp, hg, hlen⟩ := hch (s, c) (List.mem_cons_self ..) _ _ hinc huc
        refine ⟨pieces.map kv, ?_, ?_, ?_, ?_, ?_, ?_⟩
        · simp only [spillStep, hm, Bool.not_true, Bool.false_eq_true, if_false, hsp]
          rw [← hsc]
          refine putPieces_child A r s c pieces (hne (s, c) (List.mem_cons_self ..)) hg.ne
            (fun q hq => committed_count q (hg.comm q hq)) hg.keys.1 hAs ?_ ?_
          · intro a ha q hq
            have hlo := hAlo (List.ne_nil_of_mem ha)
            simp only [List.head?_cons, Option.map_some] at hlo
            have hge := (hg.keys.2 q.firstKey (List.mem_map.mpr ⟨q, hq, rfl⟩)).1
            rw [hlo] at hge
            exact lt_of_lt_of_le (hAs a ha) (by simpa [geLo] using hge)
          · intro q hq b hb
            exact hhic _ (hg.keys.2 q.firstKey (List.mem_map.mpr ⟨q, hq, rfl⟩)).2 b hb
        · rw [List.length_map]
          cases pieces with
          | nil => exact absurd rfl hg.ne
          | cons a b => simp
        · rw [List.length_map]; exact hlen
        · intro p hp
          obtain ⟨q, hq, rfl⟩ := List.mem_map.mp hp
          exact ⟨rfl, (hg.dep q hq).trans hdc, hg.comm q hq⟩
        · rw [flattenKids_eq, List.map_map]
          exact hg.flat
        · rw [List.map_map]
          exact hg.keys
      · -- a page stays as it is
        have hm' : c.hd.mat = false := by simpa using hm
        rw [if_neg hm] at hsc
        have hcc := unmat_committed c _ _ _ _ hm' hinc
        refine ⟨[(s, c)], ?_, Nat.le_refl _, ?_, ?_, ?_, ?_⟩
        · simp [spillStep, hm']
        · have := committed_flatten_ne c hcc
          cases hf : flatten c with
          | nil => exact absurd hf this
          | cons a b => simp
        · intro p hp
          simp only [List.mem_singleton] at hp; subst hp
          exact ⟨hsc, hdc, hcc⟩
        · rw [flattenKids, flattenKids, List.append_nil]
        · exact ⟨by simp, by
            intro k hk
            simp only [List.map_cons, List.map_nil, List.mem_singleton] at hk; subst hk
            exact ⟨hsb.1, hshic⟩⟩
    obtain ⟨Xc, hst, hl1, hl2, hel, hfl, hso⟩ := hstep
    rw [List.foldl_cons, hst, flattenKids]
    cases r with
    | nil =>
      refine ⟨Xc, by simp, by simpa using hl1, by simpa [flattenKids] using hl2, hel,
        by simp [flattenKids, hfl], by simpa using hso⟩
    | cons p' r' =>
      obtain ⟨s', c'⟩ := p'
      have hs'b := hs.2 s' (by simp)
      have hXlt : ∀ x ∈ Xc, Bytes.lt x.1 s' = true := fun x hx => by
        have := (hso.2 x.1 (List.mem_map.mpr ⟨x, hx, rfl⟩)).2
        simpa [ltHi] using this
      obtain ⟨X', hf', hl1', hl2', hel', hfl', hso'⟩ := ihr (A ++ Xc) (some s')
        (fun p hp => hch p (List.mem_cons_of_mem _ hp)) hkr
        (fun p hp => hu p (List.mem_cons_of_mem _ hp)) (seps_tail hs)
        (fun p hp => hne p (List.mem_cons_of_mem _ hp))
        (fun a ha p hp => by
          rcases List.mem_append.mp ha with ha | ha
          · exact hAp a ha p (List.mem_cons_of_mem _ hp)
          · exact hhic a.1 (hso.2 a.1 (List.mem_map.mpr ⟨a, ha, rfl⟩)).2 p hp)
        (fun _ => rfl)
      refine ⟨Xc ++ X', ?_, ?_, ?_, ?_, ?_, ?_⟩
      · rw [hf', List.append_assoc]
      · simp only [List.length_cons, List.length_append] at hl1' ⊢; omega
      · simp only [List.length_append] at hl2' ⊢; omega
      · intro p hp
        rcases List.mem_append.mp hp with hp | hp
        · exact hel p hp
        · exact hel' p hp
      · rw [flattenKids_append, hfl, hfl']
      · rw [List.map_append]
        exact SortedIn_append (by simpa using hso) hso' hs'b.1 hs'b.2

theorem spillN_ok (ps sth : Nat) : ∀ (n : N) (fuel : Nat) (pmat : Bool) (lo hi : Option Bytes),
    depth n ≤ fuel → inTxN false pmat lo hi n = true → anyUnb n = false →
    ∃ pieces, spillN ps sth fuel n = some pieces ∧
      GoodPieces lo hi (depth n) (flatten n) pieces ∧ pieces.length ≤ (flatten n).length := by
  refine N_ind ?_ ?_
  · intro hd items fuel pmat lo hi hf h hu
    cases fuel with
    | zero => rw [depth] at hf; omega
    | succ f =>
      have hcomm := fun hm => unmat_committed (.leaf hd items) false pmat lo hi hm h
      rw [anyUnb] at hu
      rw [inTxN] at h
      simp only [hu, Bool.and_eq_true, List.all_eq_true, Bool.false_or, Bool.and_false,
        Bool.or_false, Bool.not_eq_true'] at h
      have hne : items ≠ [] := by
        intro h0; subst h0; simp at h
      have hs : SortedIn lo hi (items.map (·.key)) := by
        refine ⟨(sortedKeys_iff _).mp h.1.2, ?_⟩
        intro k hk
        obtain ⟨x, hx, rfl⟩ := List.mem_map.mp hk
        exact ⟨(h.2 x hx).1.2, (h.2 x hx).2⟩
      rw [spillN, depth, flatten]
      by_cases hm : hd.mat = true
      · simp only [N.hd, hm, Bool.not_true, Bool.false_eq_true, if_false]
        have := splitLeaf_good ps sth hd items lo hi hne (fun i hi' => (h.2 i hi').1.1) hs
        exact ⟨_, rfl, this.1, this.2⟩
      · have hm' : hd.mat = false := by simpa using hm
        simp only [N.hd, hm', Bool.not_false, if_true]
        refine ⟨_, rfl, ⟨by simp, ?_, ?_, ?_, ?_⟩, ?_⟩
        · intro q hq; simp only [List.mem_singleton] at hq; subst hq; exact hcomm hm'
        · intro q hq; simp only [List.mem_singleton] at hq; subst hq; rw [depth]
        · simp [flatten]
        · cases items with
          | nil => exact absurd rfl hne
          | cons a r =>
            refine SortedIn_sublist ?_ hs
            simp [N.firstKey]
        · cases items with
          | nil => exact absurd rfl hne
          | cons a r => simp
  · intro hd kids ih fuel pmat lo hi hf h hu
    cases fuel with
    | zero => rw [depth] at hf; omega
    | succ f =>
      have hcomm := fun hm => unmat_committed (.branch hd kids) false pmat lo hi hm h
      rw [anyUnb, Bool.or_eq_false_iff] at hu
      rw [inTxN] at h
      simp only [Bool.and_eq_true, List.all_eq_true, decide_eq_true_eq, Bool.not_eq_true'] at h
      obtain ⟨⟨⟨⟨⟨_, _⟩, h2⟩, hsk⟩, hall⟩, hk⟩ := h
      have hs : SortedIn lo hi (kids.map (·.1)) := by
        refine ⟨(sortedKeys_iff _).mp hsk, ?_⟩
        intro k hk
        obtain ⟨x, hx, rfl⟩ := List.mem_map.mp hk
        exact ⟨(hall x hx).1.2, (hall x hx).2⟩
      generalize hdd : ((kids.head?.map (fun p => depth p.2)).getD 0) = d at hk
      have hdep := inTxKids_depth _ _ _ kids _ hk
      have hkne : kids ≠ [] := by intro h0; subst h0; simp at h2
      have hdn : depth (.branch hd kids) = d + 1 := by
        rw [depth, depthKids_uniform d kids hkne hdep]; omega
      rw [depth] at hf
      rw [spillN_branch, hdn, flatten]
      by_cases hm : hd.mat = true
      · simp only [hm, Bool.not_true, Bool.false_eq_true, if_false]
        obtain ⟨X, hfold, hl1, hl2, hel, hfl, hso⟩ := fold_ok ps sth f hd.mat hi d kids [] lo
          (fun p hp lo' hi' hin hub =>
            ih p hp f hd.mat lo' hi' (by have := depth_le_depthKids hp; omega) hin hub)
          hk ((anyUnbKids_iff kids).mp hu.2) hs
          (fun p hp h0 => by have := (hall p hp).1.1; rw [h0] at this; simp at this)
          (by intro a ha; cases ha) (fun h0 => absurd rfl h0)
        simp only [List.nil_append] at hfold
        rw [hfold]
        have := splitBranch_good ps sth hd X lo hi d (by omega) hel hso
        refine ⟨_, rfl, hfl ▸ this.1, ?_⟩
        have := this.2
        omega
      · have hm' : hd.mat = false := by simpa using hm
        simp only [hm', Bool.not_false, if_true]
        have hc := hcomm hm'
        refine ⟨_, rfl, ⟨by simp, ?_, ?_, ?_, ?_⟩, ?_⟩
        · intro q hq; simp only [List.mem_singleton] at hq; subst hq; exact hc
        · intro q hq; simp only [List.mem_singleton] at hq; subst hq; exact hdn
        · simp [flatten]
        · cases kids with
          | nil => exact absurd rfl hkne
          | cons a r =>
            refine SortedIn_sublist ?_ hs
            simp [N.firstKey]
        · have := committed_flatten_ne _ hc
          rw [flatten] at this
          cases hfk : flattenKids kids with
          | nil => exact absurd hfk this
          | cons a b => simp

/-! ### `growRoot` / `spillRoot` -/

theorem growRoot_ok (ps sth : Nat) : ∀ (fuel : Nat) (pieces : List N) (d : Nat) (F : List Item),
    pieces.length ≤ fuel → GoodPieces none none d F pieces →
    ∃ t', growRoot ps sth fuel pieces = some t' ∧ committedN true t' = true ∧ flatten t' = F := by
  intro fuel
  induction fuel with
  | zero =>
    intro pieces d F hl hg
    cases pieces with
    | nil => exact absurd rfl hg.ne
    | cons a b => simp at hl
  | succ f ih =>
    intro pieces d F hl hg
    cases pieces with
    | nil => exact absurd rfl hg.ne
    | cons p1 rest =>
      cases rest with
      | nil =>
        refine ⟨p1, ?_, committed_root_of_false p1 (hg.comm p1 (List.mem_cons_self ..)), ?_⟩
        · rw [growRoot.eq_3 _ _ _ _ (by omega)]
        · have := hg.flat; simpa using this
      | cons p2 rest =>
        rw [growRoot.eq_4 _ _ _ _ (by simp) (by simp)]
        have hput := putPieces_rest (p1 :: p2 :: rest) [] []
          (fun q hq => committed_count q (hg.comm q hq)) hg.keys.1
          (by intro a ha; cases ha) (by intro q _ b hb; cases hb)
        simp only [List.nil_append, List.append_nil] at hput
        rw [hput]
        have hsb := splitBranch_good ps sth written ((p1 :: p2 :: rest).map kv) none none d
          (by simp)
          (fun p hp => by
            obtain ⟨q, hq, rfl⟩ := List.mem_map.mp hp
            exact ⟨rfl, hg.dep q hq, hg.comm q hq⟩)
          (by rw [List.map_map]; exact hg.keys)
        have hfl : flattenKids ((p1 :: p2 :: rest).map kv) = F := by
          rw [flattenKids_eq, List.map_map]; exact hg.flat
        rw [hfl] at hsb
        refine ih _ (d + 1) F ?_ hsb.1
        have := hsb.2
        simp only [List.length_map, List.length_cons] at this hl
        omega

theorem inTx_nonroot {pmat : Bool} {lo hi : Option Bytes} {n : N}
    (h : inTxN true pmat lo hi n = true) (hne : ∀ hd, n ≠ .leaf hd []) :
    inTxN false pmat lo hi n = true := by
  cases n with
  | leaf hd items =>
    rw [inTxN] at h ⊢
    cases items with
    | nil => exact absurd rfl (hne hd)
    | cons a r => simpa using h
  | branch hd kids => rw [inTxN] at h ⊢; exact h

theorem spillN_empty_leaf (ps sth fuel : Nat) (hd : Hd) (hm : hd.mat = true) :
    spillN ps sth (fuel+1) (.leaf hd []) = some [.leaf written []] := by
  rw [spillN]
  simp only [N.hd, hm, Bool.not_true, Bool.false_eq_true, if_false]
  rfl

theorem spillRoot_ok (ps sth fuel : Nat) (t : N) (hi : inTxN true true none none t = true)
    (hu : anyUnb t = false) (hf : depth t + (flatten t).length + 2 ≤ fuel) :
    ∃ t', spillRoot ps sth fuel t = some t' ∧
      (committedN true t' = true ∧ sortedKeys ((flatten t').map (·.key)) = true) ∧
      flatten t' = flatten t := by
  have hsorted := (sortedKeys_iff _).mpr (inTx_flatten_sorted t _ _ _ _ hi).1
  unfold spillRoot
  by_cases hm : t.hd.mat = true
  · simp only [hm, Bool.not_true, Bool.false_eq_true, if_false]
    by_cases he : ∃ hd, t = .leaf hd []
    · obtain ⟨hd, rfl⟩ := he
      obtain ⟨f, rfl⟩ : ∃ f, fuel = f + 1 := ⟨fuel - 1, by omega⟩
      rw [spillN_empty_leaf ps sth f hd hm]
      simp only []
      rw [growRoot.eq_3 _ _ _ _ (Nat.succ_ne_zero f)]
      exact ⟨_, rfl, ⟨rfl, rfl⟩, rfl⟩
    · have hin := inTx_nonroot hi (fun hd h0 => he ⟨hd, h0⟩)
      obtain ⟨pieces, hsp, hg, hlen⟩ := spillN_ok ps sth t fuel true none none (by omega) hin hu
      rw [hsp]
      obtain ⟨t', hgr, hc, hfl⟩ := growRoot_ok ps sth fuel pieces _ _ (by omega) hg
      exact ⟨t', hgr, ⟨hc, by rw [hfl]; exact hsorted⟩, hfl⟩
  · have hm' : t.hd.mat = false := by simpa using hm
    simp only [hm', Bool.not_false, if_true]
    exact ⟨t, rfl, ⟨unmat_committed t _ _ _ _ hm' hi, hsorted⟩, rfl⟩

/-! ## Fuel monotonicity of `commit`: once the fuel covers the depth of the tree, more fuel
gives the same result.  No well-formedness of the tree is assumed. -/

/-! ### basics -/

theorem mono_N_ind {P : N → Prop} (hleaf : ∀ h items, P (.leaf h items))
    (hbranch : ∀ h kids, (∀ p ∈ kids, P p.2) → P (.branch h kids)) : ∀ n, P n := by
  intro n
  exact N.rec (motive_1 := P) (motive_2 := fun kids => ∀ p ∈ kids, P p.2) (motive_3 := fun p => P p.2)
    hleaf hbranch (by intro p hp; cases hp) (fun p r hp hr q hq => by
      rcases List.mem_cons.mp hq with rfl | hq; exact hp; exact hr q hq) (fun _ _ h => h) n

theorem mono_depthKids_le (m : Nat) : ∀ kids : List (Bytes × N),
    depthKids kids ≤ m ↔ ∀ p ∈ kids, depth p.2 ≤ m
  | [] => by simp [depthKids]
  | (s, c) :: r => by
    rw [depthKids]
    have ih := mono_depthKids_le m r
    constructor
    · intro h p hp
      rcases List.mem_cons.mp hp with rfl | hp
      · exact Nat.le_trans (Nat.le_max_left _ _) h
      · exact ih.mp (Nat.le_trans (Nat.le_max_right _ _) h) p hp
    · intro h
      exact Nat.max_le.mpr ⟨h (s, c) (List.mem_cons_self), ih.mpr (fun p hp => h p (List.mem_cons_of_mem _ hp))⟩

theorem mono_depth_le_depthKids {kids : List (Bytes × N)} {p : Bytes × N} (hp : p ∈ kids) :
    depth p.2 ≤ depthKids kids :=
  (mono_depthKids_le _ kids).mp (Nat.le_refl _) p hp

theorem mono_depth_getElem? {kids : List (Bytes × N)} {i : Nat} {s : Bytes} {c : N}
    (h : kids[i]? = some (s, c)) : depth c ≤ depthKids kids :=
  mono_depth_le_depthKids (p := (s, c)) (List.mem_of_getElem? h)

theorem mono_depth_pos : ∀ n : N, 1 ≤ depth n
  | .leaf _ _ => by rw [depth]; exact Nat.le_refl _
  | .branch _ _ => by rw [depth]; omega

theorem mono_depth_setHd (h : Hd) : ∀ n : N, depth (n.setHd h) = depth n
  | .leaf _ _ => by simp only [N.setHd, depth]
  | .branch _ _ => by simp only [N.setHd, depth]

theorem mono_depth_materialize (n : N) : depth (materialize n) = depth n := by
  unfold materialize
  split
  · rfl
  · exact mono_depth_setHd _ _

theorem mono_depth_branch (h : Hd) (kids : List (Bytes × N)) :
    depth (.branch h kids) = 1 + depthKids kids := by rw [depth]

theorem mono_depth_leaf (h : Hd) (items : List Item) : depth (.leaf h items) = 1 := by rw [depth]

/-! ### 1. search -/

theorem mono_searchPath (k : Bytes) : ∀ (t : N) (f f' : Nat), depth t ≤ f → f ≤ f' →
    searchPath k f' t = searchPath k f t := by
  intro t
  induction t using mono_N_ind with
  | hleaf h items =>
    intro f f' hd hle
    have := mono_depth_pos (.leaf h items)
    obtain ⟨g, rfl⟩ : ∃ g, f = g + 1 := ⟨f - 1, by omega⟩
    obtain ⟨g', rfl⟩ : ∃ g', f' = g' + 1 := ⟨f' - 1, by omega⟩
    simp only [searchPath]
  | hbranch h kids ih =>
    intro f f' hd hle
    rw [mono_depth_branch] at hd
    obtain ⟨g, rfl⟩ : ∃ g, f = g + 1 := ⟨f - 1, by omega⟩
    obtain ⟨g', rfl⟩ : ∃ g', f' = g' + 1 := ⟨f' - 1, by omega⟩
    simp only [searchPath]
    split
    · rfl
    · next s c hc =>
      have := mono_depth_getElem? hc
      have e : searchPath k g' c = searchPath k g c :=
        ih (s, c) (List.mem_of_getElem? hc) g g' (by show depth c ≤ g; omega) (by omega)
      rw [e]

theorem mono_seekItem (k : Bytes) (t : N) (f f' : Nat) (hd : depth t ≤ f) (hle : f ≤ f') :
    seekItem k f' t = seekItem k f t := by
  unfold seekItem; rw [mono_searchPath k t f f' hd hle]

theorem mono_putT (t : N) (k v : Bytes) (f f' : Nat) (hd : depth t ≤ f) (hle : f ≤ f') :
    putT f' t k v = putT f t k v := by
  unfold putT; rw [mono_searchPath k t f f' hd hle, mono_seekItem k t f f' hd hle]

theorem mono_delT (t : N) (k : Bytes) (f f' : Nat) (hd : depth t ≤ f) (hle : f ≤ f') :
    delT f' t k = delT f t k := by
  unfold delT; rw [mono_searchPath k t f f' hd hle, mono_seekItem k t f f' hd hle]

theorem mono_applyOp (t : N) (o : Op) (f f' : Nat) (hd : depth t ≤ f) (hle : f ≤ f') :
    applyOp f' t o = applyOp f t o := by
  cases o with
  | put k v => exact mono_putT t k v f f' hd hle
  | del k => exact mono_delT t k f f' hd hle

/-! ### 2. `Put`/`Delete` keep the depth -/

theorem mono_depthKids_set : ∀ (kids : List (Bytes × N)) (i : Nat) (s s' : Bytes) (c c' : N),
    kids[i]? = some (s, c) → depth c' = depth c → depthKids (kids.set i (s', c')) = depthKids kids
  | [], i, s, s', c, c', h, _ => by simp at h
  | (a, b) :: r, 0, s, s', c, c', h, hd => by
    simp only [List.getElem?_cons_zero, Option.some.injEq, Prod.mk.injEq] at h
    obtain ⟨rfl, rfl⟩ := h
    simp only [List.set_cons_zero, depthKids, hd]
  | (a, b) :: r, i+1, s, s', c, c', h, hd => by
    simp only [List.getElem?_cons_succ] at h
    simp only [List.set_cons_succ, depthKids, mono_depthKids_set r i s s' c c' h hd]

theorem mono_depth_modifyAt (g : N → Option N) (hg : ∀ x y, g x = some y → depth y = depth x) :
    ∀ (path : List Nat) (n n' : N), modifyAt g path n = some n' → depth n' = depth n
  | [], n, n', h => by
    rw [modifyAt] at h
    rw [hg _ _ h, mono_depth_materialize]
  | i :: rest, n, n', h => by
    rw [modifyAt] at h
    have hm := mono_depth_materialize n
    split at h
    · cases h
    · next hh kids hmat =>
      rw [hmat] at hm
      split at h
      · cases h
      · next s c hc =>
        cases hr : modifyAt g rest c with
        | none => rw [hr] at h; cases h
        | some c' =>
          rw [hr] at h
          simp only [Option.map_some, Option.some.injEq] at h
          subst h
          have := mono_depth_modifyAt g hg rest c c' hr
          rw [← hm, mono_depth_branch, mono_depth_branch, mono_depthKids_set kids i s s c c' hc this]

theorem mono_depth_leafPut (k v : Bytes) (x y : N) (h : leafPut k v x = some y) : depth y = depth x := by
  cases x with
  | leaf hh items =>
    simp only [leafPut] at h
    split at h <;> (cases h; simp only [depth])
  | branch hh kids => simp [leafPut] at h

theorem mono_depth_leafDel (k : Bytes) (x y : N) (h : leafDel k x = some y) : depth y = depth x := by
  cases x with
  | leaf hh items =>
    simp only [leafDel] at h
    split at h <;> (cases h; simp only [depth])
  | branch hh kids => simp [leafDel] at h

theorem mono_depth_applyOp (fuel : Nat) (t t' : N) (o : Op) (h : applyOp fuel t o = some t') :
    depth t' = depth t := by
  cases o with
  | put k v =>
    simp only [applyOp, putT] at h
    split at h
    · split at h
      · cases h; rfl
      · exact mono_depth_modifyAt _ (mono_depth_leafPut k v) _ _ _ h
    · exact mono_depth_modifyAt _ (mono_depth_leafPut k v) _ _ _ h
  | del k =>
    simp only [applyOp, delT] at h
    split at h
    · split at h
      · exact mono_depth_modifyAt _ (mono_depth_leafDel k) _ _ _ h
      · cases h; rfl
    · cases h; rfl

theorem mono_depth_applyOps (fuel : Nat) : ∀ (ops : List Op) (t t1 : N),
    applyOps fuel t ops = some t1 → depth t1 = depth t
  | [], t, t1, h => by simp only [applyOps, Option.some.injEq] at h; subst h; rfl
  | o :: os, t, t1, h => by
    rw [applyOps] at h
    cases ho : applyOp fuel t o with
    | none => rw [ho] at h; cases h
    | some t' =>
      rw [ho] at h
      simp only [Option.bind_some] at h
      rw [mono_depth_applyOps fuel os t' t1 h, mono_depth_applyOp fuel t t' o ho]

theorem mono_applyOps (f f' : Nat) (hle : f ≤ f') : ∀ (ops : List Op) (t : N), depth t ≤ f →
    applyOps f' t ops = applyOps f t ops
  | [], t, _ => by simp only [applyOps]
  | o :: os, t, hd => by
    rw [applyOps, applyOps, mono_applyOp t o f f' hd hle]
    cases ho : applyOp f t o with
    | none => rfl
    | some t' =>
      simp only [Option.bind_some]
      exact mono_applyOps f f' hle os t' (by rw [mono_depth_applyOp f t t' o ho]; exact hd)

/-! ### 3. `findMat` -/

theorem mono_findSome?_congr {α β} (f g : α → Option β) : ∀ (l : List α), (∀ x ∈ l, f x = g x) →
    l.findSome? f = l.findSome? g
  | [], _ => rfl
  | a :: r, h => by
    simp only [List.findSome?_cons, h a List.mem_cons_self,
      mono_findSome?_congr f g r (fun x hx => h x (List.mem_cons_of_mem _ hx))]

theorem mono_findMat (pg : Nat) : ∀ (t : N) (f f' : Nat), depth t ≤ f → f ≤ f' →
    findMat pg f' t = findMat pg f t := by
  intro t
  induction t using mono_N_ind with
  | hleaf h items =>
    intro f f' hd hle
    have := mono_depth_pos (.leaf h items)
    obtain ⟨g, rfl⟩ : ∃ g, f = g + 1 := ⟨f - 1, by omega⟩
    obtain ⟨g', rfl⟩ : ∃ g', f' = g' + 1 := ⟨f' - 1, by omega⟩
    simp only [findMat]
  | hbranch h kids ih =>
    intro f f' hd hle
    rw [mono_depth_branch] at hd
    obtain ⟨g, rfl⟩ : ∃ g, f = g + 1 := ⟨f - 1, by omega⟩
    obtain ⟨g', rfl⟩ : ∃ g', f' = g' + 1 := ⟨f' - 1, by omega⟩
    simp only [findMat]
    split
    · rfl
    · split
      · rfl
      · apply mono_findSome?_congr
        intro i _
        split
        · next s c hc =>
          have := mono_depth_getElem? hc
          have e : findMat pg g' c = findMat pg g c :=
            ih (s, c) (List.mem_of_getElem? hc) g g' (by show depth c ≤ g; omega) (by omega)
          rw [e]
        · rfl

/-! ### 4. rebalance does not deepen the tree -/

theorem mono_depth_branch_le {h : Hd} {ks : List (Bytes × N)} {m : Nat}
    (hk : ∀ p ∈ ks, depth p.2 ≤ m) : depth (.branch h ks) ≤ 1 + m := by
  rw [mono_depth_branch]
  have := (mono_depthKids_le m ks).mpr hk
  omega

theorem mono_depth_appendInodes (l r m : N) (h : appendInodes l r = some m) :
    depth m ≤ max (depth l) (depth r) := by
  cases l with
  | leaf hl a =>
    cases r with
    | leaf hr b => simp only [appendInodes, Option.some.injEq] at h; subst h; simp only [depth]; omega
    | branch hr b => simp [appendInodes] at h
  | branch hl a =>
    cases r with
    | leaf hr b => simp [appendInodes] at h
    | branch hr b =>
      simp only [appendInodes, Option.some.injEq] at h; subst h
      simp only [mono_depth_branch]
      have : depthKids (a ++ b) ≤ max (depthKids a) (depthKids b) := by
        rw [mono_depthKids_le]
        intro p hp
        rcases List.mem_append.mp hp with hp | hp
        · have := mono_depth_le_depthKids hp; omega
        · have := mono_depth_le_depthKids hp; omega
      omega

theorem mono_depth_rebalRoot (th : Nat) (n r : N) (h : rebalRoot th n = some r) : depth r ≤ depth n := by
  unfold rebalRoot at h
  split at h
  · cases h; exact Nat.le_refl _
  · have hs := mono_depth_setHd { n.hd with unb := false } n
    generalize n.setHd { n.hd with unb := false } = n1 at h hs
    simp only [] at h
    split at h
    · cases h; omega
    · split at h
      · next hh a c _ =>
        have hm := mono_depth_materialize c
        rw [mono_depth_branch, depthKids, depthKids] at hs
        split at h
        · next hmat => cases h; rw [mono_depth_leaf]; omega
        · next h2 k2 hmat => cases h; rw [hmat, mono_depth_branch] at hm; rw [mono_depth_branch]; omega
      · cases h; omega

theorem mono_depth_rebalChild (th : Nat) (h : Hd) (kids : List (Bytes × N)) (p : Nat) (r : N) (b : Bool)
    (hr : rebalChild th h kids p = some (r, b)) : depth r ≤ 1 + depthKids kids := by
  unfold rebalChild at hr
  split at hr
  · cases hr
  · next s n0 hp =>
    split at hr
    · cases hr; rw [mono_depth_branch]; exact Nat.le_refl _
    · have hn0 := mono_depth_getElem? hp
      have hs := mono_depth_setHd { n0.hd with unb := false } n0
      generalize n0.setHd { n0.hd with unb := false } = n at hr hs
      have hK : ∀ q ∈ kids.set p (s, n), depth q.2 ≤ depthKids kids := by
        intro q hq
        rcases List.mem_or_eq_of_mem_set hq with hq | rfl
        · exact mono_depth_le_depthKids hq
        · show depth n ≤ _; omega
      simp only [] at hr
      generalize kids.set p (s, n) = kids2 at hr hK
      have hn : depth n ≤ depthKids kids := by omega
      split at hr
      · cases hr; exact mono_depth_branch_le hK
      · split at hr
        · split at hr
          · cases hr
            exact mono_depth_branch_le (fun q hq => hK q (List.mem_of_mem_eraseIdx hq))
          · cases hr
        · split at hr
          · cases hr
          · split at hr
            · cases hr
            · split at hr
              · split at hr
                · cases hr
                · next sr r0 h1 =>
                  split at hr
                  · cases ha : appendInodes n (materialize r0) with
                    | none => rw [ha] at hr; cases hr
                    | some m =>
                      rw [ha] at hr
                      simp only [Option.map_some, Option.some.injEq, Prod.mk.injEq] at hr
                      obtain ⟨rfl, _⟩ := hr
                      have hm := mono_depth_appendInodes _ _ _ ha
                      have hr0 : depth r0 ≤ depthKids kids := hK (sr, r0) (List.mem_of_getElem? h1)
                      rw [mono_depth_materialize] at hm
                      apply mono_depth_branch_le
                      intro q hq
                      rcases List.mem_cons.mp hq with rfl | hq
                      · show depth m ≤ _; omega
                      · exact hK q (List.mem_of_mem_drop hq)
                  · cases hr
              · split at hr
                · cases hr
                · next sl l0 h1 =>
                  split at hr
                  · cases ha : appendInodes (materialize l0) n with
                    | none => rw [ha] at hr; cases hr
                    | some m =>
                      rw [ha] at hr
                      simp only [Option.map_some, Option.some.injEq, Prod.mk.injEq] at hr
                      obtain ⟨rfl, _⟩ := hr
                      have hm := mono_depth_appendInodes _ _ _ ha
                      have hl0 : depth l0 ≤ depthKids kids := hK (sl, l0) (List.mem_of_getElem? h1)
                      rw [mono_depth_materialize] at hm
                      apply mono_depth_branch_le
                      intro q hq
                      rcases List.mem_append.mp hq with hq | hq
                      · exact hK q (List.mem_of_mem_take hq)
                      · rcases List.mem_cons.mp hq with rfl | hq
                        · show depth m ≤ _; omega
                        · exact hK q (List.mem_of_mem_drop hq)
                  · cases hr

theorem mono_depthKids_set_le (kids : List (Bytes × N)) (i : Nat) (s : Bytes) (c : N) (m : Nat)
    (hk : depthKids kids ≤ m) (hc : depth c ≤ m) : depthKids (kids.set i (s, c)) ≤ m := by
  rw [mono_depthKids_le]
  intro q hq
  rcases List.mem_or_eq_of_mem_set hq with hq | rfl
  · exact Nat.le_trans (mono_depth_le_depthKids hq) hk
  · exact hc

theorem mono_depth_rebalGo (th : Nat) : ∀ (path : List Nat) (n r : N) (b : Bool),
    rebalGo th path n = some (r, b) → depth r ≤ depth n
  | [], n, r, b, h => by
    simp only [rebalGo, Option.some.injEq, Prod.mk.injEq] at h
    rw [h.1]; exact Nat.le_refl _
  | p :: rest, n, r, b, h => by
    cases n with
    | leaf hh items => simp [rebalGo] at h
    | branch hh kids =>
      rw [rebalGo] at h
      split at h
      · cases h
      · next s c hc =>
        split at h
        · cases h
        · next c' call hgo =>
          have ih := mono_depth_rebalGo th rest c c' call hgo
          have hcd := mono_depth_getElem? hc
          have hset := mono_depthKids_set_le kids p s c' (depthKids kids) (Nat.le_refl _) (by omega)
          simp only [] at h
          rw [mono_depth_branch]
          split at h
          · have := mono_depth_rebalChild th hh _ p r b h
            omega
          · cases h; rw [mono_depth_branch]; omega

theorem mono_depth_rebalanceAt (th : Nat) (t t' : N) (path : List Nat)
    (h : rebalanceAt th t path = some t') : depth t' ≤ depth t := by
  unfold rebalanceAt at h
  split at h
  · cases h
  · next r call hgo =>
    have := mono_depth_rebalGo th path t r call hgo
    split at h
    · have := mono_depth_rebalRoot th r t' h; omega
    · cases h; exact this

/-! ### 5. `rebalanceAll` -/

theorem mono_rebalanceAll (th f f' : Nat) (hle : f ≤ f') : ∀ (order : List Nat) (t : N), depth t ≤ f →
    rebalanceAll th f' t order = rebalanceAll th f t order
  | [], t, _ => by simp only [rebalanceAll]
  | pg :: rest, t, hd => by
    rw [rebalanceAll, rebalanceAll, mono_findMat pg t f f' hd hle]
    split
    · exact mono_rebalanceAll th f f' hle rest t hd
    · next path _ =>
      split
      · rfl
      · next t' hat =>
        have := mono_depth_rebalanceAt th t t' path hat
        exact mono_rebalanceAll th f f' hle rest t' (by omega)

/-! ### 6. spill: more fuel keeps a successful result -/

/-- the local `step` of `spillN` -/
def mono_spillStep (ps sth fuel : Nat) (acc : Option (List (Bytes × N))) (sc : Bytes × N) :
    Option (List (Bytes × N)) :=
  match acc with
  | none => none
  | some ks =>
    if !sc.2.hd.mat then some ks else
    match spillN ps sth fuel sc.2 with
    | none => none
    | some pieces => putPieces ks sc.2.hd.key pieces

theorem mono_spillN_branch (ps sth fuel : Nat) (h : Hd) (kids : List (Bytes × N)) :
    spillN ps sth (fuel+1) (.branch h kids) =
      if !h.mat then some [.branch h kids] else
      match kids.foldl (mono_spillStep ps sth fuel) (some kids) with
      | none => none
      | some kids' => some (splitNode ps sth (.branch h kids')) := rfl

theorem mono_spillN_leaf (ps sth fuel : Nat) (h : Hd) (items : List Item) :
    spillN ps sth (fuel+1) (.leaf h items) =
      if !h.mat then some [.leaf h items] else some (splitNode ps sth (.leaf h items)) := rfl

theorem mono_foldl_none (ps sth fuel : Nat) : ∀ (l : List (Bytes × N)),
    l.foldl (mono_spillStep ps sth fuel) none = none
  | [] => rfl
  | a :: r => by
    rw [List.foldl_cons]
    exact mono_foldl_none ps sth fuel r

theorem mono_foldl_spillStep (ps sth g g' : Nat) : ∀ (l : List (Bytes × N)),
    (∀ p ∈ l, ∀ r, spillN ps sth g p.2 = some r → spillN ps sth g' p.2 = some r) →
    ∀ (acc : Option (List (Bytes × N))) (res : List (Bytes × N)),
      l.foldl (mono_spillStep ps sth g) acc = some res →
      l.foldl (mono_spillStep ps sth g') acc = some res
  | [], _, acc, res, h => h
  | a :: r, hl, acc, res, h => by
    rw [List.foldl_cons] at h ⊢
    have e : mono_spillStep ps sth g' acc a = mono_spillStep ps sth g acc a := by
      cases acc with
      | none => rfl
      | some ks =>
        simp only [mono_spillStep] at h ⊢
        split
        · rfl
        · next hm =>
          rw [if_neg hm] at h
          cases hs : spillN ps sth g a.2 with
          | none =>
            rw [hs] at h
            simp only [] at h
            rw [mono_foldl_none] at h; cases h
          | some pieces => rw [hl a List.mem_cons_self pieces hs]
    rw [e]
    exact mono_foldl_spillStep ps sth g g' r (fun p hp => hl p (List.mem_cons_of_mem _ hp)) _ res h

theorem mono_spillN (ps sth : Nat) : ∀ (n : N) (f f' : Nat) (r : List N),
    spillN ps sth f n = some r → f ≤ f' → spillN ps sth f' n = some r := by
  intro n
  induction n using mono_N_ind with
  | hleaf h items =>
    intro f f' r hs hle
    cases f with
    | zero => simp [spillN] at hs
    | succ g =>
      obtain ⟨g', rfl⟩ : ∃ g', f' = g' + 1 := ⟨f' - 1, by omega⟩
      rw [mono_spillN_leaf] at hs ⊢
      exact hs
  | hbranch h kids ih =>
    intro f f' r hs hle
    cases f with
    | zero => simp [spillN] at hs
    | succ g =>
      obtain ⟨g', rfl⟩ : ∃ g', f' = g' + 1 := ⟨f' - 1, by omega⟩
      rw [mono_spillN_branch] at hs ⊢
      split
      · next hm => rw [if_pos hm] at hs; exact hs
      · next hm =>
        rw [if_neg hm] at hs
        cases hf : kids.foldl (mono_spillStep ps sth g) (some kids) with
        | none => rw [hf] at hs; cases hs
        | some kids' =>
          rw [hf] at hs
          rw [mono_foldl_spillStep ps sth g g' kids
            (fun p hp r hr => ih p hp g g' r hr (by omega)) (some kids) kids' hf]
          exact hs

theorem mono_growRoot (ps sth : Nat) : ∀ (f f' : Nat) (pieces : List N) (r : N),
    growRoot ps sth f pieces = some r → f ≤ f' → growRoot ps sth f' pieces = some r
  | 0, _, pieces, r, h, _ => by simp [growRoot] at h
  | g+1, f', pieces, r, h, hle => by
    obtain ⟨g', rfl⟩ : ∃ g', f' = g' + 1 := ⟨f' - 1, by omega⟩
    match pieces, h with
    | [], h => simp [growRoot] at h
    | [p], h => simp only [growRoot] at h ⊢; exact h
    | a :: b :: rest, h =>
      simp only [growRoot] at h ⊢
      split at h
      · cases h
      · next kids hk =>
        exact mono_growRoot ps sth g g' _ r h (by omega)

theorem mono_spillRoot (ps sth f f' : Nat) (t r : N) (h : spillRoot ps sth f t = some r) (hle : f ≤ f') :
    spillRoot ps sth f' t = some r := by
  unfold spillRoot at h ⊢
  split
  · next hm => rw [if_pos hm] at h; exact h
  · next hm =>
    rw [if_neg hm] at h
    cases hs : spillN ps sth f t with
    | none => rw [hs] at h; cases h
    | some pieces =>
      rw [hs] at h
      rw [mono_spillN ps sth t f f' pieces hs hle]
      exact mono_growRoot ps sth f f' pieces r h hle

/-! ### 7. the whole commit -/

theorem mono_commit (ps sth rth f f' : Nat) (t : N) (ops : List Op) (order : List Nat) (r : N)
    (hd : depth t ≤ f) (h : commit ps sth rth f t ops order = some r) (hle : f ≤ f') :
    commit ps sth rth f' t ops order = some r := by
  unfold commit at h ⊢
  rw [mono_applyOps f f' hle ops t hd]
  cases h1 : applyOps f t ops with
  | none => rw [h1] at h; cases h
  | some t1 =>
    rw [h1] at h
    simp only [Option.bind_some] at h ⊢
    have hd1 : depth t1 ≤ f := by rw [mono_depth_applyOps f ops t t1 h1]; exact hd
    rw [mono_rebalanceAll rth f f' hle order t1 hd1]
    cases h2 : rebalanceAll rth f t1 order with
    | none => rw [h2] at h; cases h
    | some t2 =>
      rw [h2] at h
      simp only [Option.bind_some] at h ⊢
      exact mono_spillRoot ps sth f f' t2 r h hle

end Bolt.BTree.SpillL
