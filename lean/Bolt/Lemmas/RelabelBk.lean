/-
Helpers for `Props/C01Bkt` (relabelling a committed bucket tree): generic facts about two caches
(`opened` lists) with the same names whose buckets are related pairwise (`BktCommitL.Rel2`), and
about what of a bucket depends on `flatten` of its tree only.
-/
import Bolt.Props.C01Tree
import Bolt.Props.C04BktRoot
import Bolt.Props.C12Bk
namespace Bolt.RelabelBkL
open Bolt Bolt.BTree Bolt.Bkt Bolt.Bkt.BktCommitL

/-- the names of the nested buckets are read off `flatten` -/
theorem bucketNames_of_flatten (t t' : N) (h : flatten t' = flatten t) : bucketNames t' = bucketNames t := by
  unfold bucketNames; rw [h]

/-- so is the normal form `absBk` reads -/
theorem nf_of_flatten (t t' : N) (h : flatten t' = flatten t) : nf t' = nf t := by
  unfold nf; rw [h]

/-- pairwise related through `zip` with equal lengths = `Rel2` -/
theorem rel2_of_zip {R : Bytes → Bk → Bk → Prop} : ∀ (oa ob : List (Bytes × Bk)),
    oa.length = ob.length → (∀ p ∈ oa.zip ob, p.1.1 = p.2.1 ∧ R p.1.1 p.1.2 p.2.2) → Rel2 R oa ob
  | [], [], _, _ => .nil
  | [], _ :: _, hl, _ => by simp at hl
  | _ :: _, [], hl, _ => by simp at hl
  | p :: r, q :: r', hl, h => by
    have h0 := h (p, q) (by rw [List.zip_cons_cons]; exact List.mem_cons_self ..)
    refine .cons ⟨h0.1.symm, h0.2⟩ (rel2_of_zip r r' (by simpa using hl) ?_)
    intro x hx
    exact h x (by rw [List.zip_cons_cons]; exact List.mem_cons_of_mem _ hx)

/-- a bucket element of the tree is found in a cache that holds exactly the bucket names -/
theorem lookup_of_names {t : N} {o : List (Bytes × Bk)} (h4 : o.map (·.1) = bucketNames t)
    {x : Bytes × Bool × Bytes} (hx : x ∈ nf t) (hb : x.2.1 = true) : ∃ c, lookupBk x.1 o = some c := by
  have hnm : x.1 ∈ bucketNames t := by rw [bucketNames_nf]; exact mem_namesOf hx hb
  have hs : (lookupBk x.1 o).isSome = true := by rw [lookupBk_isSome_iff, h4]; exact hnm
  exact Option.isSome_iff_exists.mp hs

/-- the shape invariant does not hold with fuel 0 -/
theorem shape_pos (fu : Nat) (b : Bk) (h : origShapeOk fu b = true) : ∃ g, fu = g + 1 := by
  cases fu with
  | zero => unfold origShapeOk at h; rw [origOkG_zero] at h; cases h
  | succ g => exact ⟨g, rfl⟩

/-- one step of `absBk` on a fully attached bucket whose children's contents are known -/
theorem absBk_step_congr (X Y : Bk) (f : Nat) (p q : List Bytes) (ra sa rb : Nat) (ta tb : N)
    (oa ob : List (Bytes × Bk)) (hfl : flatten tb = flatten ta)
    (hch : ∀ x ∈ nf ta, x.2.1 = true → childAbs Y f q ob x.1 = childAbs X f p oa x.1) :
    absBk Y (f+1) q (.mk rb sa tb ob) = absBk X (f+1) p (.mk ra sa ta oa) := by
  rw [absBk_succ, absBk_succ]
  show SVal.bkt sa ((nf tb).map _) = SVal.bkt sa ((nf ta).map _)
  rw [nf_of_flatten ta tb hfl]
  congr 1
  apply List.map_congr_left
  intro x hx
  by_cases hb : x.2.1 = true
  · rw [if_pos hb, if_pos hb]
    show (x.1, childAbs Y f q ob x.1) = (x.1, childAbs X f p oa x.1)
    rw [hch x hx hb]
  · rw [if_neg hb, if_neg hb]

end Bolt.RelabelBkL
