/-
Helper lemmas for `Bolt.Props.C04BktGet`: `Bucket.Get` on one bucket is a lookup in the
bucket's item list, and the reference model's `apiGet` on the abstraction is the same lookup.
-/
import Bolt.Lemmas.BktOps
namespace Bolt.Bkt.BktGetL
open Bolt Bolt.BTree Bolt.Bkt Bolt.Bkt.BktOpsL

/-- what `Get` answers on an item list: the value of the plain element with key `k` -/
def specGet (l : List Item) (k : Bytes) : Option Bytes :=
  match l.find? (fun i => i.key == k) with
  | some i => if i.flags % 2 = 0 then some i.val else none
  | none => none

/-- `getAt` reads the element of `flatten` with key `k` -/
theorem getAt_spec (fu : Nat) (k : Bytes) (b : Bk) (hi : InTx b.tree) (hd : depth b.tree ≤ fu) :
    getAt fu k b = specGet (flatten b.tree) k := by
  have hseek := OpsL.seek_find k fu b.tree true true none none hd hi (OpsL.inR_none k)
  unfold getAt specGet
  rw [hseek]
  cases seekItem k fu b.tree with
  | none => rfl
  | some it =>
    by_cases hk : it.key = k
    · by_cases hf : it.flags % 2 = 0 <;> simp [Option.filter, hk, hf]
    · simp [Option.filter, hk]

theorem getAt_local (orig : Bk) (fu f : Nat) (path : List Bytes) (b : Bk) (k : Bytes)
    (hc : curOk orig (f+1) path b = true) (hfu : f ≤ fu) :
    getAt fu k b = specGet (flatten b.tree) k := by
  obtain ⟨c1, _, _, c4, _, _, _⟩ := (curOk_succ ..).mp hc
  exact getAt_spec fu k b c1 (Nat.le_trans c4 hfu)

/-- `apiGet` on a bucket whose entries are the abstraction of the item list `l` -/
theorem apiGet_abs (sub : Bytes → SVal) (hsub : ∀ n, (sub n).isBucket = true) (root : SVal)
    (p : List Bytes) (s : Nat) (l : List Item) (k : Bytes)
    (hp : bucketAt (topName :: p) root = some (s, l.map (absIt sub))) :
    apiGet root (topName :: p) k = .ok (specGet l k) := by
  unfold apiGet specGet
  rw [hp]
  simp only [apiPath_ne, Bool.false_eq_true, if_false]
  rw [lookup_abs]
  cases l.find? (fun i => i.key == k) with
  | none => rfl
  | some i =>
    simp only [Option.map_some]
    by_cases hf : i.flags % 2 = 1
    · have hsb := hsub i.key
      have h0 : ¬ i.flags % 2 = 0 := by omega
      rw [absIt_bucket _ _ hf, if_neg h0]
      cases hx : sub i.key with
      | val w => rw [hx] at hsb; cases hsb
      | bkt q e => rfl
    · have h0 : i.flags % 2 = 0 := by omega
      rw [absIt_plain _ _ hf, if_pos h0]

/-- `Get` after an accepted `Put` on the item list -/
theorem specGet_specPut (l : List Item) (k v : Bytes) (hb : isBucketAt l k = false) :
    specGet (specPut l k v) k = some v := by
  unfold specGet specPut
  rw [hb]
  simp only [Bool.false_eq_true, if_false]
  rw [OpsL.insSorted_find_same { key := k, val := v, flags := 0 } l]
  rfl

end Bolt.Bkt.BktGetL
