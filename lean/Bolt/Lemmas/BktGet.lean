import Bolt.Lemmas.BktOps
namespace Bolt.Bkt.BktGetL
open Bolt Bolt.BTree Bolt.Bkt

end Bolt.Bkt.BktGetL
