import Bolt.Lemmas.Cursor
import Bolt.Model.BTreeInv
namespace Bolt.CursorTxL
open Bolt Bolt.BTree

end Bolt.CursorTxL
