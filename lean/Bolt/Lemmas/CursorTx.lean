/-
Helper lemmas for `Props/C05Tx`: the tree of a write transaction (`Model/BTree`, invariant
`inTxN`) seen through a header-forgetting map into the cursor's trees (`Model/Cursor`) satisfies
the hypotheses of the cursor theorems.  The map itself (`C05Tx.toCur`) is defined in the property
file, which imports this one; the lemmas here are therefore stated for ANY triple of functions
`ci`/`f`/`g` satisfying the defining equations of `toCurItem`/`toCur`/`toCurKids` (`IsToCur`).
-/
import Bolt.Lemmas.Cursor
import Bolt.Model.BTreeInv
import Bolt.Lemmas.BTreeOps
namespace Bolt.CursorTxL
open Bolt Bolt.BTree Bolt.BTree.OpsL

/-- the defining equations of `C05Tx.toCurItem` / `toCur` / `toCurKids` -/
structure IsToCur (ci : Item → Cur.Item) (f : N → Cur.Tree)
    (g : List (Bytes × N) → List (Bytes × Cur.Tree)) : Prop where
  key : ∀ i, (ci i).key = i.key
  leaf : ∀ h items, f (.leaf h items) = .leaf (items.map ci)
  branch : ∀ h kids, f (.branch h kids) = .branch (g kids)
  nil : g [] = []
  cons : ∀ s c r, g ((s, c) :: r) = (s, f c) :: g r

section
variable {ci : Item → Cur.Item} {f : N → Cur.Tree} {g : List (Bytes × N) → List (Bytes × Cur.Tree)}

/-! ### flatten / depth -/

theorem cur_flatten_leaf (items : List Cur.Item) : Cur.flatten (.leaf items) = items := by rw [Cur.flatten]
theorem cur_flatten_branch (kids : List (Bytes × Cur.Tree)) :
    Cur.flatten (.branch kids) = Cur.flattenKids kids := by rw [Cur.flatten]
theorem cur_flattenKids_nil : Cur.flattenKids [] = [] := by rw [Cur.flattenKids]
theorem cur_flattenKids_cons (s : Bytes) (c : Cur.Tree) (r : List (Bytes × Cur.Tree)) :
    Cur.flattenKids ((s, c) :: r) = Cur.flatten c ++ Cur.flattenKids r := by rw [Cur.flattenKids]

theorem cur_depth_leaf (items : List Cur.Item) : Cur.depth (.leaf items) = 1 := by rw [Cur.depth]
theorem cur_depth_branch (kids : List (Bytes × Cur.Tree)) :
    Cur.depth (.branch kids) = 1 + Cur.depthKids kids := by rw [Cur.depth]
theorem cur_depthKids_nil : Cur.depthKids [] = 0 := by rw [Cur.depthKids]
theorem cur_depthKids_cons (s : Bytes) (c : Cur.Tree) (r : List (Bytes × Cur.Tree)) :
    Cur.depthKids ((s, c) :: r) = max (Cur.depth c) (Cur.depthKids r) := by rw [Cur.depthKids]

mutual
theorem flatten_eq (T : IsToCur ci f g) : ∀ t : N, Cur.flatten (f t) = (flatten t).map ci
  | .leaf h items => by rw [T.leaf, cur_flatten_leaf, flatten_leaf]
  | .branch h kids => by rw [T.branch, cur_flatten_branch, flatten_branch, flattenKids_eq T kids]
theorem flattenKids_eq (T : IsToCur ci f g) : ∀ kids : List (Bytes × N),
    Cur.flattenKids (g kids) = (flattenKids kids).map ci
  | [] => by rw [T.nil, cur_flattenKids_nil, flattenKids_nil]; rfl
  | (s, c) :: r => by
    rw [T.cons, cur_flattenKids_cons, flattenKids_cons, List.map_append, flatten_eq T c,
      flattenKids_eq T r]
end

mutual
theorem depth_eq (T : IsToCur ci f g) : ∀ t : N, Cur.depth (f t) = depth t
  | .leaf h items => by rw [T.leaf, cur_depth_leaf, depth_leaf]
  | .branch h kids => by rw [T.branch, cur_depth_branch, depth_branch, depthKids_eq T kids]
theorem depthKids_eq (T : IsToCur ci f g) : ∀ kids : List (Bytes × N),
    Cur.depthKids (g kids) = depthKids kids
  | [] => by rw [T.nil, cur_depthKids_nil, depthKids_nil]
  | (s, c) :: r => by
    rw [T.cons, cur_depthKids_cons, depthKids_cons, depth_eq T c, depthKids_eq T r]
end

/-! ### branches are non-empty -/

mutual
theorem bne (T : IsToCur ci f g) : ∀ (n : N) (root pmat : Bool) (lo hi : Option Bytes),
    inTxN root pmat lo hi n = true → Cur.BranchesNonEmpty (f n)
  | .leaf h items, _, _, _, _, _ => by rw [T.leaf]; simp only [Cur.BranchesNonEmpty]
  | .branch h kids, root, pmat, lo, hi, hn => by
    obtain ⟨_, h2, _, _, hk⟩ := (inTxN_branch ..).mp hn
    rw [T.branch]
    simp only [Cur.BranchesNonEmpty]
    refine ⟨?_, bneKids T kids _ _ _ _ hk⟩
    cases kids with
    | nil => simp at h2
    | cons p r => obtain ⟨s, c⟩ := p; rw [T.cons]; exact List.cons_ne_nil _ _
theorem bneKids (T : IsToCur ci f g) : ∀ (kids : List (Bytes × N)) (pmat : Bool) (lo hi : Option Bytes)
    (d : Nat), inTxKids pmat lo hi kids d = true → Cur.BranchesNonEmptyKids (g kids)
  | [], _, _, _, _, _ => by rw [T.nil]; simp only [Cur.BranchesNonEmptyKids]
  | (s, c) :: r, pmat, lo, hi, d, hk => by
    obtain ⟨_, _, hc, hr⟩ := (inTxKids_cons ..).mp hk
    rw [T.cons]
    simp only [Cur.BranchesNonEmptyKids]
    exact ⟨bne T c _ _ _ _ hc, bneKids T r _ _ _ _ hr⟩
end

/-! ### search-tree order -/

theorem geLo_iff (lo : Option Bytes) (k : Bytes) : geLo lo k = true ↔ Cur.geLo lo k := by
  cases lo with
  | none => simp [geLo, Cur.geLo]
  | some l => simp [geLo, Cur.geLo]

theorem ltHi_iff (hi : Option Bytes) (k : Bytes) : ltHi hi k = true ↔ Cur.ltHi hi k := by
  cases hi with
  | none => simp [ltHi, Cur.ltHi]
  | some l => simp [ltHi, Cur.ltHi]

mutual
theorem st (T : IsToCur ci f g) : ∀ (n : N) (root pmat : Bool) (lo hi : Option Bytes),
    inTxN root pmat lo hi n = true → Cur.ST lo hi (f n)
  | .leaf h items, root, pmat, lo, hi, hn => by
    obtain ⟨_, _, hs, hr⟩ := (inTxN_leaf ..).mp hn
    rw [T.leaf]
    simp only [Cur.ST]
    refine ⟨?_, ?_⟩
    · rw [List.pairwise_map]
      unfold SortedI at hs
      simpa only [T.key] using hs
    · intro it hit
      obtain ⟨x, hx, rfl⟩ := List.mem_map.mp hit
      rw [T.key]
      exact ⟨(geLo_iff ..).mp (hr x hx).2.1, (ltHi_iff ..).mp (hr x hx).2.2⟩
  | .branch h kids, root, pmat, lo, hi, hn => by
    obtain ⟨_, _, hs, hr, hk⟩ := (inTxN_branch ..).mp hn
    rw [T.branch]
    simp only [Cur.ST]
    exact kidsST T kids h.mat true lo lo hi _ hs (fun p hp => (hr p hp).2) hk (fun _ => rfl)
      (fun e => Bool.noConfusion e)
/-- `lo0` is the node's lower bound, `clo` the one `inTxKids` gives the head child: the node's
    for the first child, the child's own separator for every other one -/
theorem kidsST (T : IsToCur ci f g) : ∀ (kids : List (Bytes × N)) (pmat isFirst : Bool)
    (lo0 clo hi : Option Bytes) (d : Nat), SortedK kids → (∀ p ∈ kids, InR lo0 hi p.1) →
    inTxKids pmat clo hi kids d = true → (isFirst = true → clo = lo0) →
    (isFirst = false → clo = kids.head?.map (·.1)) → Cur.KidsST isFirst lo0 hi (g kids)
  | [], _, _, _, _, _, _, _, _, _, _, _ => by rw [T.nil]; simp only [Cur.KidsST]
  | (s, c) :: r, pmat, isFirst, lo0, clo, hi, d, hs, hr, hk, h1, h2 => by
    obtain ⟨_, _, hc, hrest⟩ := (inTxKids_cons ..).mp hk
    have hrs := hr (s, c) (by simp)
    have hb : (if isFirst = true then lo0 else some s) = clo := by
      cases isFirst with
      | true => simp [h1 rfl]
      | false => simpa using (h2 rfl).symm
    have hfst : isFirst = true ∨ Cur.geLo lo0 s := by
      cases isFirst with
      | true => exact Or.inl rfl
      | false => exact Or.inr ((geLo_iff ..).mp hrs.1)
    rw [T.cons]
    cases r with
    | nil =>
      rw [T.nil, Cur.kidsST_single]
      refine ⟨hfst, (ltHi_iff ..).mp hrs.2, ?_⟩
      rw [hb]
      simpa using st T c _ _ _ _ hc
    | cons q r' =>
      obtain ⟨s', c'⟩ := q
      have hrec := kidsST T ((s', c') :: r') pmat false lo0 (some s') hi d (List.Pairwise.of_cons hs)
        (fun p hp => hr p (List.mem_cons_of_mem _ hp)) (by simpa using hrest)
        (fun e => Bool.noConfusion e) (fun _ => by simp)
      rw [T.cons] at hrec ⊢
      rw [Cur.kidsST_cons2]
      refine ⟨hfst, (ltHi_iff ..).mp hrs.2, ?_, ?_, hrec⟩
      · exact (List.pairwise_cons.mp hs).1 (s', c') (by simp)
      · rw [hb]
        simpa using st T c _ _ _ _ hc
end

/-! ### no node is unbalanced ⇒ no empty leaf below the root -/

theorem anyUnb_leaf (h : Hd) (items : List Item) : anyUnb (.leaf h items) = h.unb := by rw [anyUnb]
theorem anyUnb_branch (h : Hd) (kids : List (Bytes × N)) :
    anyUnb (.branch h kids) = (h.unb || anyUnbKids kids) := by rw [anyUnb]
theorem anyUnbKids_nil : anyUnbKids [] = false := by rw [anyUnbKids]
theorem anyUnbKids_cons (s : Bytes) (c : N) (r : List (Bytes × N)) :
    anyUnbKids ((s, c) :: r) = (anyUnb c || anyUnbKids r) := by rw [anyUnbKids]

mutual
theorem nel (T : IsToCur ci f g) : ∀ (n : N) (pmat : Bool) (lo hi : Option Bytes),
    inTxN false pmat lo hi n = true → anyUnb n = false → Cur.NoEmptyLeaf (f n)
  | .leaf h items, pmat, lo, hi, hn, hu => by
    obtain ⟨_, h2, _, _⟩ := (inTxN_leaf ..).mp hn
    rw [anyUnb_leaf] at hu
    rw [T.leaf]
    simp only [Cur.NoEmptyLeaf]
    rcases h2 with h2 | h2 | h2
    · exact Bool.noConfusion h2
    · intro e; exact h2 (List.map_eq_nil_iff.mp e)
    · rw [hu] at h2; exact Bool.noConfusion h2.2
  | .branch h kids, pmat, lo, hi, hn, hu => by
    obtain ⟨_, _, _, _, hk⟩ := (inTxN_branch ..).mp hn
    rw [anyUnb_branch, Bool.or_eq_false_iff] at hu
    rw [T.branch]
    simp only [Cur.NoEmptyLeaf]
    exact nelKids T kids _ _ _ _ hk hu.2
theorem nelKids (T : IsToCur ci f g) : ∀ (kids : List (Bytes × N)) (pmat : Bool) (lo hi : Option Bytes)
    (d : Nat), inTxKids pmat lo hi kids d = true → anyUnbKids kids = false →
    Cur.NoEmptyLeafKids (g kids)
  | [], _, _, _, _, _, _ => by rw [T.nil]; simp only [Cur.NoEmptyLeafKids]
  | (s, c) :: r, pmat, lo, hi, d, hk, hu => by
    obtain ⟨_, _, hc, hr⟩ := (inTxKids_cons ..).mp hk
    rw [anyUnbKids_cons, Bool.or_eq_false_iff] at hu
    rw [T.cons]
    simp only [Cur.NoEmptyLeafKids]
    exact ⟨nel T c _ _ _ hc hu.1, nelKids T r _ _ _ _ hr hu.2⟩
end

theorem nelbr (T : IsToCur ci f g) : ∀ (n : N) (root pmat : Bool) (lo hi : Option Bytes),
    inTxN root pmat lo hi n = true → anyUnb n = false → Cur.NoEmptyLeafBelowRoot (f n)
  | .leaf h items, _, _, _, _, _, _ => by rw [T.leaf]; simp only [Cur.NoEmptyLeafBelowRoot]
  | .branch h kids, root, pmat, lo, hi, hn, hu => by
    obtain ⟨_, _, _, _, hk⟩ := (inTxN_branch ..).mp hn
    rw [anyUnb_branch, Bool.or_eq_false_iff] at hu
    rw [T.branch]
    simp only [Cur.NoEmptyLeafBelowRoot]
    exact nelKids T kids _ _ _ _ hk hu.2

end

/-! ### `Put` never marks a node unbalanced -/

mutual
theorem committedN_anyUnb : ∀ (n : N) (root : Bool), committedN root n = true → anyUnb n = false
  | .leaf h items, root, hc => by
    obtain ⟨_, hu, _⟩ := (committedN_leaf ..).mp hc
    rw [anyUnb_leaf]; exact hu
  | .branch h kids, root, hc => by
    obtain ⟨_, hu, _, _, hk⟩ := (committedN_branch ..).mp hc
    rw [anyUnb_branch, hu, Bool.false_or]
    exact committedKids_anyUnb kids _ hk
theorem committedKids_anyUnb : ∀ (kids : List (Bytes × N)) (d : Nat), committedKids kids d = true →
    anyUnbKids kids = false
  | [], _, _ => anyUnbKids_nil
  | (s, c) :: r, d, hk => by
    obtain ⟨_, _, hc, hr⟩ := (committedKids_cons ..).mp hk
    rw [anyUnbKids_cons, committedN_anyUnb c _ hc, committedKids_anyUnb r d hr]; rfl
end

theorem mhd_unb_false (h : Hd) (fk : Bytes) (hu : h.unb = false) : (mhd h fk).unb = false := by
  cases hm : (mhd h fk).unb with
  | false => rfl
  | true => have := (mhd_unb h fk hm).2; rw [hu] at this; exact Bool.noConfusion this

theorem materialize_anyUnb : ∀ n : N, anyUnb n = false → anyUnb (materialize n) = false
  | .leaf h items, hu => by
    rw [anyUnb_leaf] at hu
    rw [materialize_leaf, anyUnb_leaf]; exact mhd_unb_false _ _ hu
  | .branch h kids, hu => by
    rw [anyUnb_branch, Bool.or_eq_false_iff] at hu
    rw [materialize_branch, anyUnb_branch, mhd_unb_false _ _ hu.1, hu.2]; rfl

theorem anyUnbKids_set : ∀ (kids : List (Bytes × N)) (i : Nat) (s : Bytes) (c' : N),
    anyUnbKids kids = false → anyUnb c' = false → anyUnbKids (kids.set i (s, c')) = false
  | [], _, _, _, _, _ => by rw [List.set_nil]; exact anyUnbKids_nil
  | (s0, c0) :: r, 0, s, c', hk, hc => by
    rw [anyUnbKids_cons, Bool.or_eq_false_iff] at hk
    rw [List.set_cons_zero, anyUnbKids_cons, hc, hk.2]; rfl
  | (s0, c0) :: r, i+1, s, c', hk, hc => by
    rw [anyUnbKids_cons, Bool.or_eq_false_iff] at hk
    rw [List.set_cons_succ, anyUnbKids_cons, hk.1, anyUnbKids_set r i s c' hk.2 hc]; rfl

theorem anyUnbKids_get : ∀ (kids : List (Bytes × N)) (i : Nat) (s : Bytes) (c : N),
    anyUnbKids kids = false → kids[i]? = some (s, c) → anyUnb c = false
  | [], _, _, _, _, hg => by simp at hg
  | (s0, c0) :: r, 0, s, c, hk, hg => by
    rw [anyUnbKids_cons, Bool.or_eq_false_iff] at hk
    simp only [List.getElem?_cons_zero, Option.some.injEq, Prod.mk.injEq] at hg
    rw [← hg.2]; exact hk.1
  | (s0, c0) :: r, i+1, s, c, hk, hg => by
    rw [anyUnbKids_cons, Bool.or_eq_false_iff] at hk
    rw [List.getElem?_cons_succ] at hg
    exact anyUnbKids_get r i s c hk.2 hg

theorem modifyAt_anyUnb (fn : N → Option N)
    (hf : ∀ n n', fn n = some n' → anyUnb n = false → anyUnb n' = false) :
    ∀ (path : List Nat) (n n' : N), modifyAt fn path n = some n' → anyUnb n = false → anyUnb n' = false
  | [], n, n', h, hu => by
    rw [modifyAt_nil] at h
    exact hf _ _ h (materialize_anyUnb n hu)
  | i :: rest, .leaf hd items, n', h, _ => by
    rw [modifyAt, materialize_leaf] at h; cases h
  | i :: rest, .branch hd kids, n', h, hu => by
    cases hg : kids[i]? with
    | none =>
      rw [modifyAt, materialize_branch] at h; simp only [hg] at h; cases h
    | some p =>
      obtain ⟨s, c⟩ := p
      rw [modifyAt_branch fn i rest hd kids s c hg] at h
      obtain ⟨c', hc', rfl⟩ := Option.map_eq_some_iff.mp h
      rw [anyUnb_branch, Bool.or_eq_false_iff] at hu
      have hcu := modifyAt_anyUnb fn hf rest c c' hc' (anyUnbKids_get kids i s c hu.2 hg)
      rw [anyUnb_branch, mhd_unb_false _ _ hu.1, anyUnbKids_set kids i s c' hu.2 hcu]; rfl

theorem leafPut_anyUnb (k v : Bytes) : ∀ n n', leafPut k v n = some n' → anyUnb n = false →
    anyUnb n' = false
  | .leaf h items, n', e, hu => by
    rw [leafPut_eq] at e; cases e; rw [anyUnb_leaf] at hu ⊢; exact hu
  | .branch _ _, n', e, _ => by simp [leafPut] at e

theorem putT_anyUnb (fuel : Nat) (t t' : N) (k v : Bytes) (h : putT fuel t k v = some t')
    (hu : anyUnb t = false) : anyUnb t' = false := by
  unfold putT at h
  split at h
  · split at h
    · cases h; exact hu
    · exact modifyAt_anyUnb _ (leafPut_anyUnb k v) _ _ _ h hu
  · exact modifyAt_anyUnb _ (leafPut_anyUnb k v) _ _ _ h hu

theorem applyOps_anyUnb (fuel : Nat) : ∀ (ops : List Op) (t t1 : N),
    (∀ o ∈ ops, ∃ k v, o = Op.put k v) → applyOps fuel t ops = some t1 → anyUnb t = false →
    anyUnb t1 = false
  | [], t, t1, _, h, hu => by rw [applyOps] at h; cases h; exact hu
  | o :: os, t, t1, hp, h, hu => by
    rw [applyOps] at h
    obtain ⟨t', e1, e2⟩ := Option.bind_eq_some_iff.mp h
    refine applyOps_anyUnb fuel os t' t1 (fun o ho => hp o (List.mem_cons_of_mem _ ho)) e2 ?_
    obtain ⟨k, v, rfl⟩ := hp o (by simp)
    exact putT_anyUnb fuel t t' k v e1 hu

end Bolt.CursorTxL
