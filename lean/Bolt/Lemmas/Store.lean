/-
Invariant of the transaction/version protocol model (`Model/Store.lean`) and its
preservation.  Property theorems that follow from it are in Props/C01, C02, C06, C07,
C08, C10, C20.
-/
import Bolt.Model.Store
import Bolt.Lemmas.Freelist

/-! ## Part 1 — additional allocator facts (frames for `allocs`/`readers`, pending entries) -/
namespace Bolt.FL

/-- `(q, a)` is recorded as pending for transaction `t` (`a` = allocating txid or 0). -/
def PEnt (pending : List (Txid × TxPending)) (t : Txid) (q : Pgid) (a : Txid) : Prop :=
  ∃ txp, (t, txp) ∈ pending ∧ (q, a) ∈ txp.ids

theorem mem_pendingIds {f : FL} {q : Nat} : q ∈ f.pendingIds ↔ ∃ t a, PEnt f.pending t q a := by
  rw [pendingIds_eq, mem_pidsOf]
  constructor
  · rintro ⟨t, txp, a, h1, h2⟩; exact ⟨t, a, txp, h1, h2⟩
  · rintro ⟨t, a, txp, h1, h2⟩; exact ⟨t, txp, a, h1, h2⟩

theorem PEnt.mem_pendingIds {f : FL} {t q a : Nat} (h : PEnt f.pending t q a) : q ∈ f.pendingIds :=
  FL.mem_pendingIds.mpr ⟨t, a, h⟩

theorem PEnt.key {pending : List (Txid × TxPending)} {t q a : Nat} (h : PEnt pending t q a) :
    ∃ e ∈ pending, e.1 = t := by
  obtain ⟨txp, h1, _⟩ := h
  exact ⟨(t, txp), h1, rfl⟩

theorem pent_nil {t q a : Nat} : ¬ PEnt [] t q a := by
  rintro ⟨_, h, _⟩; cases h

theorem pent_addPending (pending : List (Txid × TxPending)) (txid : Txid) (new : List (Pgid × Txid))
    (t q a : Nat) :
    PEnt (addPending pending txid new) t q a ↔ (PEnt pending t q a ∨ (t = txid ∧ (q, a) ∈ new)) := by
  unfold addPending
  split
  · rename_i p0 hsome
    have h1 := List.mem_of_find?_eq_some hsome
    have h2 : p0.1 = txid := by simpa using List.find?_some hsome
    constructor
    · rintro ⟨txp, hm, hx⟩
      rw [List.mem_map] at hm
      obtain ⟨p, hp, he⟩ := hm
      by_cases hpt : p.1 = txid
      · rw [if_pos hpt] at he
        cases he
        rcases List.mem_append.mp hx with hx | hx
        · exact Or.inl ⟨p.2, hp, hx⟩
        · exact Or.inr ⟨hpt, hx⟩
      · rw [if_neg hpt] at he
        subst he
        exact Or.inl ⟨_, hp, hx⟩
    · rintro (⟨txp, hm, hx⟩ | ⟨rfl, hx⟩)
      · by_cases hpt : t = txid
        · refine ⟨{ txp with ids := txp.ids ++ new }, ?_, List.mem_append_left _ hx⟩
          rw [List.mem_map]
          exact ⟨(t, txp), hm, by simp [hpt]⟩
        · refine ⟨txp, ?_, hx⟩
          rw [List.mem_map]
          exact ⟨(t, txp), hm, by simp [hpt]⟩
      · refine ⟨{ p0.2 with ids := p0.2.ids ++ new }, ?_, List.mem_append_right _ hx⟩
        rw [List.mem_map]
        exact ⟨p0, h1, by rw [if_pos h2, h2]⟩
  · constructor
    · rintro ⟨txp, hm, hx⟩
      rcases List.mem_append.mp hm with hm | hm
      · exact Or.inl ⟨txp, hm, hx⟩
      · simp only [List.mem_singleton, Prod.mk.injEq] at hm
        obtain ⟨rfl, rfl⟩ := hm
        exact Or.inr ⟨rfl, hx⟩
    · rintro (⟨txp, hm, hx⟩ | ⟨rfl, hx⟩)
      · exact ⟨txp, List.mem_append_left _ hm, hx⟩
      · exact ⟨{ ids := new, lastReleaseBegin := 0 }, by simp, hx⟩

theorem addPending_key (pending : List (Txid × TxPending)) (txid : Txid) (new : List (Pgid × Txid)) :
    ∀ e ∈ addPending pending txid new, e.1 = txid ∨ ∃ e' ∈ pending, e'.1 = e.1 := by
  intro e he
  unfold addPending at he
  split at he
  · rw [List.mem_map] at he
    obtain ⟨p, hp, rfl⟩ := he
    right
    refine ⟨p, hp, ?_⟩
    split <;> rfl
  · rcases List.mem_append.mp he with he | he
    · exact Or.inr ⟨e, he, rfl⟩
    · simp only [List.mem_singleton] at he
      subst he
      exact Or.inl rfl

theorem pent_filter_ne (pending : List (Txid × TxPending)) (txid t q a : Nat) :
    PEnt (pending.filter (fun p => p.1 ≠ txid)) t q a ↔ (PEnt pending t q a ∧ t ≠ txid) := by
  constructor
  · rintro ⟨txp, hm, hx⟩
    rw [List.mem_filter] at hm
    exact ⟨⟨txp, hm.1, hx⟩, by simpa using hm.2⟩
  · rintro ⟨⟨txp, hm, hx⟩, hne⟩
    exact ⟨txp, List.mem_filter.mpr ⟨hm, by simpa using hne⟩, hx⟩

theorem fst_unique {l : List (Pgid × Txid)} (h : (l.map (·.1)).Nodup) {q a a' : Nat}
    (h1 : (q, a) ∈ l) (h2 : (q, a') ∈ l) : a = a' := by
  induction l with
  | nil => cases h1
  | cons x xs ih =>
    rw [List.map_cons, List.nodup_cons] at h
    rcases List.mem_cons.mp h1 with e1 | m1 <;> rcases List.mem_cons.mp h2 with e2 | m2
    · rw [← e1] at e2; cases e2; rfl
    · subst e1
      exact absurd (List.mem_map.mpr ⟨(q, a'), m2, rfl⟩) h.1
    · subst e2
      exact absurd (List.mem_map.mpr ⟨(q, a), m1, rfl⟩) h.1
    · exact ih h.2 m1 m2

theorem pent_unique {pending : List (Txid × TxPending)} (hnd : (pidsOf pending).Nodup)
    {t t' q a a' : Nat} (h : PEnt pending t q a) (h' : PEnt pending t' q a') : t = t' ∧ a = a' := by
  induction pending with
  | nil => exact absurd h pent_nil
  | cons p ps ih =>
    rw [pidsOf_cons, List.nodup_append] at hnd
    obtain ⟨hn1, hn2, hn3⟩ := hnd
    obtain ⟨txp, hm, hx⟩ := h
    obtain ⟨txp', hm', hx'⟩ := h'
    have hq : ∀ {t txp a}, (t, txp) ∈ ps → (q, a) ∈ txp.ids → q ∈ pidsOf ps :=
      fun hm hx => mem_pidsOf.mpr ⟨_, _, _, hm, hx⟩
    rcases List.mem_cons.mp hm with e1 | m1 <;> rcases List.mem_cons.mp hm' with e2 | m2
    · subst e1
      cases e2
      exact ⟨rfl, fst_unique hn1 hx hx'⟩
    · subst e1
      exact absurd rfl (hn3 q (List.mem_map.mpr ⟨(q, a), hx, rfl⟩) q (hq m2 hx'))
    · subst e2
      exact absurd rfl (hn3 q (List.mem_map.mpr ⟨(q, a'), hx', rfl⟩) q (hq m1 hx))
    · exact ih hn2 ⟨txp, m1, hx⟩ ⟨txp', m2, hx'⟩

theorem FLInv.pent_unique {f : FL} (hinv : FLInv f) {t t' q a a' : Nat}
    (h : PEnt f.pending t q a) (h' : PEnt f.pending t' q a') : t = t' ∧ a = a' :=
  FL.pent_unique (pendingIds_eq f ▸ hinv.pending_nodup) h h'

/-! ### `Allocate`: frames and a backend-independent contract -/

theorem mem_setAlloc {al : List (Pgid × Txid)} {id tx : Nat} {x : Pgid × Txid}
    (h : x ∈ setAlloc al id tx) : x = (id, tx) ∨ x ∈ al := by
  unfold setAlloc at h
  rcases List.mem_cons.mp h with h | h
  · exact Or.inl h
  · exact Or.inr (List.mem_filter.mp h).1

theorem allocate_frame {f : FL} {txid n c : Nat} {g : FL} {id : Nat}
    (h : f.allocate txid n c = some (g, id)) :
    g.readers = f.readers ∧ ∀ x ∈ g.allocs, x ∈ f.allocs ∨ x = (id, txid) := by
  unfold FL.allocate at h
  split at h
  · split at h
    · cases h; exact ⟨rfl, fun x hx => Or.inl hx⟩
    · split at h
      · cases h
      · cases h; exact ⟨rfl, fun x hx => Or.inl hx⟩
      · cases h
        exact ⟨rfl, fun x hx => (mem_setAlloc hx).symm⟩
  · split at h
    · split at h
      · cases h; exact ⟨rfl, fun x hx => Or.inl hx⟩
      · cases h
    · split at h
      · split at h
        · cases h
        · cases h; exact ⟨rfl, fun x hx => Or.inl hx⟩
      · split at h
        · split at h
          · cases h
          · cases h
            exact ⟨rfl, fun x hx => (mem_setAlloc hx).symm⟩
        · cases h

/-- `Allocate`, either backend, any legal choice. -/
theorem allocate_spec {f : FL} (hinv : FLInv f) {txid n c : Nat} {g : FL} {id : Nat}
    (h : f.allocate txid n c = some (g, id)) :
    FLInv g ∧ g.pending = f.pending ∧ g.readers = f.readers ∧
    (∀ x ∈ g.allocs, x ∈ f.allocs ∨ x = (id, txid)) ∧
    (id ≠ 0 → 0 < n ∧ 2 ≤ id ∧ (∀ q, id ≤ q → q < id + n → q ∈ f.freeIds) ∧
              (∀ q, q ∈ g.freeIds ↔ (q ∈ f.freeIds ∧ ¬ (id ≤ q ∧ q < id + n)))) ∧
    (id = 0 → g = f) := by
  obtain ⟨hr, ha⟩ := allocate_frame h
  cases hk : f.kind with
  | array =>
    obtain ⟨g', id', h', h1, h2, h3, h4⟩ := array_allocate_spec' hk hinv txid n c
    rw [h] at h'
    cases h'
    refine ⟨h1, h2, hr, ha, fun h0 => ?_, fun h0 => (h4 h0).1⟩
    obtain ⟨a1, a2, a3, a4, _⟩ := h3 h0
    exact ⟨a1, a2, a3, a4⟩
  | hashmap =>
    obtain ⟨h1, h2, h3, h4⟩ := hm_allocate_spec' hk hinv h
    exact ⟨h1, h2, hr, ha, h3, fun h0 => (h4 h0).1⟩

/-! ### `ReleasePendingPages`: frames -/

theorem mergeSpans_allocs (f : FL) (ids : List Pgid) : (f.mergeSpans ids).allocs = f.allocs := by
  unfold FL.mergeSpans; split
  · rfl
  · split <;> rfl

theorem release_allocs (f : FL) (t : Txid) : (f.release t).allocs = f.allocs := by
  unfold FL.release; exact mergeSpans_allocs _ _

theorem release_readers (f : FL) (t : Txid) : (f.release t).readers = f.readers := by
  unfold FL.release; exact mergeSpans_readers _ _

theorem releaseRange_allocs (f : FL) (b e : Txid) : (f.releaseRange b e).allocs = f.allocs := by
  unfold FL.releaseRange; split
  · rfl
  · exact mergeSpans_allocs _ _

theorem releaseRange_readers (f : FL) (b e : Txid) : (f.releaseRange b e).readers = f.readers := by
  unfold FL.releaseRange; split
  · rfl
  · exact mergeSpans_readers _ _

theorem rpTail_frame (l : List Txid) : ∀ (g : FL) (m : Txid),
    (rpTail l g m).allocs = g.allocs ∧ (rpTail l g m).readers = g.readers := by
  induction l with
  | nil => intro g m; rw [rpTail_nil]; exact ⟨releaseRange_allocs _ _ _, releaseRange_readers _ _ _⟩
  | cons tid l ih =>
    intro g m
    rw [rpTail_cons]
    obtain ⟨h1, h2⟩ := ih (if tid > 0 then g.releaseRange m (tid - 1) else g) (inc64 tid)
    rw [h1, h2]
    split
    · exact ⟨releaseRange_allocs _ _ _, releaseRange_readers _ _ _⟩
    · exact ⟨rfl, rfl⟩

theorem rpFirst_frame (f : FL) :
    (rpFirst f).allocs = f.allocs ∧ (rpFirst f).readers = sortNat f.readers := by
  unfold rpFirst
  split
  · exact ⟨release_allocs _ _, release_readers _ _⟩
  · exact ⟨rfl, rfl⟩

theorem releasePending_allocs (f : FL) : f.releasePending.allocs = f.allocs := by
  rw [releasePending_eq, (rpTail_frame _ _ _).1, (rpFirst_frame f).1]

theorem releasePending_readers (f : FL) : f.releasePending.readers = sortNat f.readers := by
  rw [releasePending_eq, (rpTail_frame _ _ _).2, (rpFirst_frame f).2]

/-- `Rel` in terms of pending entries. -/
theorem Rel.pent {P : Txid → Txid → Prop} {f g : FL} (h : Rel P f g) {t q a : Nat}
    (hp : PEnt g.pending t q a) : PEnt f.pending t q a := by
  obtain ⟨txp', h1, h2⟩ := hp
  obtain ⟨txp, h3, h4⟩ := h.2.2.2 t txp' h1
  exact ⟨txp, h3, h4 _ h2⟩

theorem Rel.key {P : Txid → Txid → Prop} {f g : FL} (h : Rel P f g) :
    ∀ e ∈ g.pending, ∃ e' ∈ f.pending, e'.1 = e.1 := by
  intro e he
  obtain ⟨txp, h3, _⟩ := h.2.2.2 e.1 e.2 he
  exact ⟨(e.1, txp), h3, rfl⟩

/-! ### `Rollback` -/

theorem foldl_setAlloc_mem (ids : List (Pgid × Txid)) : ∀ (al : List (Pgid × Txid)) (x : Pgid × Txid),
    x ∈ ids.foldl (fun al q => if q.2 = 0 then al else setAlloc al q.1 q.2) al → x ∈ al ∨ x ∈ ids := by
  induction ids with
  | nil => intro al x h; exact Or.inl h
  | cons q qs ih =>
    intro al x h
    rw [List.foldl_cons] at h
    rcases ih _ x h with h | h
    · split at h
      · exact Or.inl h
      · rcases mem_setAlloc h with h | h
        · exact Or.inr (h ▸ List.mem_cons_self)
        · exact Or.inl h
    · exact Or.inr (List.mem_cons_of_mem _ h)

theorem rollback_allocs {f g : FL} {txid : Nat} (h : f.rollback txid = some g) :
    g.readers = f.readers ∧ ∀ x ∈ g.allocs, x ∈ f.allocs ∨ PEnt f.pending txid x.1 x.2 := by
  unfold FL.rollback at h
  split at h
  · cases h; exact ⟨rfl, fun x hx => Or.inl hx⟩
  · rename_i t txp hsome
    split at h
    · cases h
    · cases h
      refine ⟨rfl, fun x hx => ?_⟩
      have h1 := List.mem_of_find?_eq_some hsome
      have h2 : t = txid := by simpa using List.find?_some hsome
      rcases foldl_setAlloc_mem _ _ _ (List.mem_filter.mp hx).1 with h3 | h3
      · exact Or.inl h3
      · exact Or.inr ⟨txp, h2 ▸ h1, h3⟩

theorem rollback_isSome {f : FL} {txid : Nat} (h : ∀ q a, PEnt f.pending txid q a → a ≠ txid) :
    (f.rollback txid).isSome = true := by
  unfold FL.rollback
  split
  · rfl
  · rename_i t txp hsome
    have h1 := List.mem_of_find?_eq_some hsome
    have h2 : t = txid := by simpa using List.find?_some hsome
    have : txp.ids.any (fun q => q.2 ≠ 0 ∧ q.2 = txid) = false := by
      rw [List.any_eq_false]
      intro q hq
      have := h q.1 q.2 ⟨txp, h2 ▸ h1, hq⟩
      simp [this]
    simp only [this]
    rfl

theorem pidsOf_filter_sublist (p : Txid × TxPending → Bool) (l : List (Txid × TxPending)) :
    (pidsOf (l.filter p)).Sublist (pidsOf l) := by
  induction l with
  | nil => exact List.Sublist.refl _
  | cons x xs ih =>
    rw [List.filter_cons]
    split
    · rw [pidsOf_cons, pidsOf_cons]
      exact List.Sublist.append (List.Sublist.refl _) ih
    · rw [pidsOf_cons]
      exact ih.trans (List.sublist_append_right _ _)

theorem FLInv.filterPending {f g : FL} (hinv : FLInv f) (p : Txid × TxPending → Bool)
    (hk : g.kind = f.kind) (hi : g.ids = f.ids) (hs : g.spans = f.spans)
    (hp : g.pending = f.pending.filter p) : FLInv g := by
  have h1 := freeIds_congr hk hi hs
  have hsub : g.pendingIds.Sublist f.pendingIds := by
    rw [pendingIds_eq, pendingIds_eq, hp]; exact pidsOf_filter_sublist p _
  refine ⟨by rw [hk, hi]; exact hinv.array_sorted, by rw [hk, hs]; exact hinv.spans_wf, ?_, ?_, ?_, ?_⟩
  · intro q hq hq'
    exact hinv.disjoint q (h1 ▸ hq) (hsub.subset hq')
  · exact hsub.nodup hinv.pending_nodup
  · rw [hp]; exact (List.Sublist.map _ List.filter_sublist).nodup hinv.pending_keys
  · intro q hq; exact hinv.pending_ge2 q (hsub.subset hq)

theorem rollback_inv {f g : FL} (hinv : FLInv f) {txid : Nat} (h : f.rollback txid = some g) : FLInv g := by
  obtain ⟨h1, h2, h3, h4⟩ := rollback_frame' h
  exact hinv.filterPending _ h1 h2 h3 h4

/-! ### `Init` -/

theorem init_frame {f g : FL} {ids : List Pgid} (h : f.init ids = some g) :
    g.readers = f.readers ∧ g.allocs = f.allocs ∧ g.pending = f.pending ∧ g.kind = f.kind := by
  unfold FL.init at h
  split at h
  · cases h; exact ⟨rfl, rfl, rfl, rfl⟩
  · split at h
    · cases h; exact ⟨rfl, rfl, rfl, rfl⟩
    · cases h

theorem spansOfSorted_go_wf (start size : Nat) (ys : List Nat)
    (hsz : 0 < size) (h2 : 2 ≤ start)
    (hs : ys.Pairwise (· < ·)) (hge : ∀ y ∈ ys, start + size ≤ y) :
    SpansWF (spansOfSorted.go start size ys) ∧ ∀ s ∈ spansOfSorted.go start size ys, start ≤ s.1 := by
  fun_induction spansOfSorted.go start size ys with
  | case1 start size =>
    refine ⟨⟨?_, by simp⟩, ?_⟩
    · intro s hs'; simp only [List.mem_singleton] at hs'; subst hs'; exact ⟨hsz, h2⟩
    · intro s hs'; simp only [List.mem_singleton] at hs'; subst hs'; exact Nat.le_refl _
  | case2 start size ys ih =>
    rw [List.pairwise_cons] at hs
    apply ih (by omega) h2 hs.2
    intro z hz
    have := hs.1 z hz
    fomega
  | case3 start size y ys hy ih =>
    rw [List.pairwise_cons] at hs
    have hy' := hge y (by simp)
    obtain ⟨⟨w1, w2⟩, w3⟩ := ih (by omega) (by fomega) hs.2 (by
      intro z hz
      have := hs.1 z hz
      fomega)
    refine ⟨⟨?_, ?_⟩, ?_⟩
    · intro s hs'
      rcases List.mem_cons.mp hs' with h | h
      · subst h; exact ⟨hsz, h2⟩
      · exact w1 s h
    · rw [List.pairwise_cons]
      refine ⟨?_, w2⟩
      intro s hs'
      have := w3 s hs'
      show start + size < s.1
      fomega
    · intro s hs'
      rcases List.mem_cons.mp hs' with h | h
      · subst h; exact Nat.le_refl _
      · have := w3 s h
        fomega

theorem spansOfSorted_wf {l : List Nat} (hs : l.Pairwise (· < ·)) (hge : ∀ q ∈ l, 2 ≤ q) :
    SpansWF (spansOfSorted l) := by
  cases l with
  | nil => exact SpansWF.nil
  | cons x xs =>
    rw [List.pairwise_cons] at hs
    simp only [spansOfSorted]
    refine (spansOfSorted_go_wf x 1 xs (by omega) (hge x (by simp)) hs.2 ?_).1
    intro y hy
    have := hs.1 y hy
    fomega

/-- `Init` on a sorted list of ids ≥ 2 disjoint from the pending ids yields a well-formed
    allocator whose free ids are exactly that list (both backends). -/
theorem init_inv {f : FL} {ids : List Pgid} (hs : ids.Pairwise (· < ·)) (hge : ∀ q ∈ ids, 2 ≤ q)
    (hd : ∀ q ∈ ids, q ∉ f.pendingIds) (hn : f.pendingIds.Nodup)
    (hkeys : (f.pending.map (·.1)).Nodup) (hg2 : ∀ q ∈ f.pendingIds, 2 ≤ q) :
    ∃ g, f.init ids = some g ∧ FLInv g ∧ g.freeIds = ids := by
  obtain ⟨g, h1, h2, h3⟩ := init_freeIds hs f
  have hpi : g.pendingIds = f.pendingIds := pendingIds_congr h3
  refine ⟨g, h1, ⟨?_, ?_, ?_, ?_, ?_, ?_⟩, h2⟩
  · intro hk
    have : g.ids = ids := by
      unfold FL.init at h1
      split at h1
      · cases h1; rfl
      · rename_i hk'
        split at h1
        · cases h1; rw [hk'] at hk; cases hk
        · cases h1
    rw [this]; exact ⟨hs, hge⟩
  · intro hk
    have : g.spans = spansOfSorted ids := by
      unfold FL.init at h1
      split at h1
      · rename_i hk'; cases h1; rw [hk'] at hk; cases hk
      · split at h1
        · cases h1; rfl
        · cases h1
    rw [this]; exact spansOfSorted_wf hs hge
  · intro q hq; rw [hpi]; rw [h2] at hq; exact hd q hq
  · rw [hpi]; exact hn
  · rw [h3]; exact hkeys
  · rw [hpi]; exact hg2

theorem lookupAlloc_cases (allocs : List (Pgid × Txid)) (id : Pgid) :
    (lookupAlloc allocs id).getD 0 = 0 ∨ (id, (lookupAlloc allocs id).getD 0) ∈ allocs := by
  unfold lookupAlloc
  cases hfind : allocs.find? (fun a => a.1 = id) with
  | none => exact Or.inl rfl
  | some x =>
    right
    have h1 := List.mem_of_find?_eq_some hfind
    have h2 : x.1 = id := by simpa using List.find?_some hfind
    simp only [Option.map_some, Option.getD_some]
    rw [← h2]
    exact h1

/-- what `Free` does, in terms of pending entries -/
theorem free_spec' {f : FL} (hinv : FLInv f) {txid id ov : Nat} {g : FL} (h : f.free txid id ov = some g) :
    FLInv g ∧ g.freeIds = f.freeIds ∧ g.readers = f.readers ∧
    (∀ x ∈ g.allocs, x ∈ f.allocs) ∧
    (∀ p, p ∈ g.pendingIds ↔ (p ∈ f.pendingIds ∨ (id ≤ p ∧ p < id + (ov + 1)))) ∧
    (∀ t q a, PEnt g.pending t q a ↔
      (PEnt f.pending t q a ∨ (t = txid ∧ (id ≤ q ∧ q < id + (ov + 1)) ∧ a = (lookupAlloc f.allocs id).getD 0))) ∧
    (∀ e ∈ g.pending, e.1 = txid ∨ ∃ e' ∈ f.pending, e'.1 = e.1) := by
  obtain ⟨h1, h2, h3⟩ := free_inv hinv h
  obtain ⟨_, _, hg⟩ := free_some h
  refine ⟨h1, h2, by rw [hg], ?_, ?_, ?_, ?_⟩
  · intro x hx
    rw [hg] at hx
    exact (List.mem_filter.mp hx).1
  · intro p
    rw [h3.mem_iff, List.mem_append, mem_expandSpan']
  · intro t q a
    rw [hg]
    show PEnt (addPending _ _ _) t q a ↔ _
    rw [pent_addPending, List.mem_map]
    constructor
    · rintro (h4 | ⟨h4, q', h5, h6⟩)
      · exact Or.inl h4
      · cases h6
        exact Or.inr ⟨h4, mem_expandSpan'.mp h5, rfl⟩
    · rintro (h4 | ⟨h4, h5, h6⟩)
      · exact Or.inl h4
      · exact Or.inr ⟨h4, q, mem_expandSpan'.mpr h5, by rw [h6]⟩
  · rw [hg]
    exact addPending_key _ _ _

end Bolt.FL

namespace Bolt.Store
open Bolt.FL

/-- states reachable from a freshly initialised database by any event sequence the
    model accepts (the harness checks that every real trace is accepted) -/
def Reachable (s : St) : Prop := ∃ k evs, runEvs (init k) evs = some s

/-! ## Part 2 — basic facts about the protocol model -/

theorem mem_run {q id n : Nat} : q ∈ run id n ↔ id ≤ q ∧ q < id + n := by
  unfold run
  rw [List.mem_map]
  constructor
  · rintro ⟨k, hk, rfl⟩
    have := List.mem_range.mp hk
    omega
  · rintro ⟨h1, h2⟩
    exact ⟨q - id, List.mem_range.mpr (by omega), by omega⟩

theorem run_nodup (id n : Nat) : (run id n).Nodup := by
  have : (run id n).Pairwise (· < ·) := expandSpan_sorted (id, n)
  exact (sorted_lt_iff.mp this).2

theorem contains_false {l : List Nat} {p : Nat} : l.contains p = false ↔ p ∉ l := by
  rw [← Bool.not_eq_true, List.contains_iff_mem]

theorem mem_used {v : Version} {p : Nat} : p ∈ v.used ↔ ∃ st, (p, st) ∈ v.content := by
  unfold Version.used
  rw [List.mem_map]
  constructor
  · rintro ⟨⟨p', st⟩, h, rfl⟩; exact ⟨st, h⟩
  · rintro ⟨st, h⟩; exact ⟨(p, st), h, rfl⟩

theorem mem_used_of_mem {v : Version} {pc : Pgid × Nat} (h : pc ∈ v.content) : pc.1 ∈ v.used :=
  List.mem_map.mpr ⟨pc, h, rfl⟩

theorem diskGet_of_mem {d : List (Pgid × Nat)} (hnd : (d.map (·.1)).Nodup) {p st : Nat}
    (h : (p, st) ∈ d) : diskGet d p = some st := by
  unfold diskGet
  induction d with
  | nil => cases h
  | cons x xs ih =>
    rw [List.map_cons, List.nodup_cons] at hnd
    rw [List.find?_cons]
    rcases List.mem_cons.mp h with e | m
    · subst e; simp
    · have hne : x.1 ≠ p := by
        intro he
        exact hnd.1 (List.mem_map.mpr ⟨(p, st), m, he.symm⟩)
      have : (x.1 == p) = false := by simpa using hne
      rw [this]
      exact ih hnd.2 m

theorem diskGet_append_of_not_mem {l d : List (Pgid × Nat)} {p : Nat} (h : p ∉ l.map (·.1)) :
    diskGet (l ++ d) p = diskGet d p := by
  unfold diskGet
  rw [List.find?_append]
  have : l.find? (fun x => x.1 == p) = none := by
    rw [List.find?_eq_none]
    intro x hx
    have : x.1 ≠ p := fun he => h (List.mem_map.mpr ⟨x, hx, he⟩)
    simpa using this
  rw [this]; rfl

theorem diskGet_stamped {ps : List Pgid} {t : Nat} {d : List (Pgid × Nat)} {p : Nat} (h : p ∈ ps) :
    diskGet (ps.map (fun q => (q, t)) ++ d) p = some t := by
  unfold diskGet
  rw [List.find?_append]
  induction ps with
  | nil => cases h
  | cons x xs ih =>
    rw [List.map_cons, List.find?_cons]
    by_cases hx : x = p
    · subst hx; simp
    · have : ((x, t).1 == p) = false := by simpa using hx
      rw [this]
      rcases List.mem_cons.mp h with e | m
      · exact absurd e.symm hx
      · exact ih m

theorem map_fst_stamped (ps : List Pgid) (t : Nat) : (ps.map (fun q => (q, t))).map (·.1) = ps := by
  rw [List.map_map]
  conv => rhs; rw [← List.map_id ps]
  rfl

theorem diskGet_stamped_of_not_mem {ps : List Pgid} {t : Nat} {d : List (Pgid × Nat)} {p : Nat}
    (h : p ∉ ps) : diskGet (ps.map (fun q => (q, t)) ++ d) p = diskGet d p :=
  diskGet_append_of_not_mem (by rw [map_fst_stamped]; exact h)

/-- writing pages that a version does not reference leaves it intact -/
theorem Intact.write {d : List (Pgid × Nat)} {v : Version} (h : Intact d v) (ps : List Pgid) (t : Nat)
    (hd : ∀ p ∈ ps, p ∉ v.used) : Intact (ps.map (fun q => (q, t)) ++ d) v := by
  intro pc hpc
  rw [diskGet_stamped_of_not_mem]
  · exact h pc hpc
  · intro hm
    exact hd _ hm (mem_used_of_mem hpc)

theorem stampOf_of_mem {v : Version} (hnd : v.used.Nodup) {p st : Nat} (h : (p, st) ∈ v.content) :
    stampOf v p = some st := diskGet_of_mem hnd h

theorem newVersion_used (cur : Version) (w : W) :
    (newVersion cur w).used = cur.used.filter (fun p => !w.freed.contains p) ++ w.allocated := by
  unfold newVersion Version.used
  simp only [List.map_append, map_fst_stamped]
  rw [List.filter_map]
  rfl

theorem mem_newVersion_content {cur : Version} {w : W} {pc : Pgid × Nat} :
    pc ∈ (newVersion cur w).content ↔
      ((pc ∈ cur.content ∧ pc.1 ∉ w.freed) ∨ (pc.1 ∈ w.allocated ∧ pc.2 = w.txid)) := by
  unfold newVersion
  simp only [List.mem_append, List.mem_filter, List.mem_map, Bool.not_eq_true', contains_false]
  constructor
  · rintro (⟨h1, h2⟩ | ⟨p, hp, rfl⟩)
    · exact Or.inl ⟨h1, h2⟩
    · exact Or.inr ⟨hp, rfl⟩
  · rintro (⟨h1, h2⟩ | ⟨h1, h2⟩)
    · exact Or.inl ⟨h1, h2⟩
    · exact Or.inr ⟨pc.1, h1, by rw [← h2]⟩

/-! ### the shape of each transition -/

theorem step_beginR {s s' : St} (h : stepAll s .beginR = some s') :
    s' = { s with readers := s.cur :: s.readers, fl := s.fl.addReader s.cur.txid } := by
  simp only [stepAll, step, Option.some.injEq] at h
  exact h.symm

theorem step_endR {s s' : St} {t : Nat} (h : stepAll s (.endR t) = some s') :
    ∃ v, v ∈ s.readers ∧ v.txid = t ∧
      s' = { s with readers := s.readers.erase v, fl := s.fl.removeReader t } := by
  simp only [stepAll, step] at h
  split at h
  · cases h
  · rename_i v hv
    simp only [Option.some.injEq] at h
    exact ⟨v, List.mem_of_find?_eq_some hv, by simpa using List.find?_some hv, h.symm⟩

theorem step_beginW {s s' : St} (h : stepAll s .beginW = some s') :
    s.w = none ∧
    s' = { s with fl := s.fl.releasePending,
                  w := some { txid := s.cur.txid + 1, hwm := s.cur.hwm, allocated := [], freed := [] } } := by
  simp only [stepAll, step] at h
  split at h
  · cases h
  · rename_i hw
    simp only [Option.some.injEq] at h
    refine ⟨?_, h.symm⟩
    cases hsw : s.w with
    | none => rfl
    | some w => rw [hsw] at hw; simp at hw

theorem step_alloc {s s' : St} {n c : Nat} (h : stepAll s (.alloc n c) = some s') :
    ∃ w fl' id, s.w = some w ∧ n ≠ 0 ∧ s.fl.allocate w.txid n c = some (fl', id) ∧
      ((id ≠ 0 ∧ s' = { s with fl := fl', w := some { w with allocated := w.allocated ++ run id n } }) ∨
       (id = 0 ∧ s' = { s with fl := fl',
                               w := some { w with hwm := w.hwm + n, allocated := w.allocated ++ run w.hwm n } })) := by
  simp only [stepAll, step] at h
  split at h
  · cases h
  · rename_i w hw
    split at h
    · cases h
    · rename_i hn
      unfold allocStep at h
      split at h
      · cases h
      · rename_i fl' id ha
        refine ⟨w, fl', id, hw, hn, ha, ?_⟩
        split at h
        · rename_i hid
          simp only [Option.some.injEq] at h
          exact Or.inl ⟨hid, h.symm⟩
        · rename_i hid
          simp only [Option.some.injEq] at h
          exact Or.inr ⟨by simpa using hid, h.symm⟩

theorem step_free {s s' : St} {id ovf : Nat} (h : stepAll s (.free id ovf) = some s') :
    ∃ w fl', s.w = some w ∧
      (∀ p ∈ run id (ovf + 1), p ∈ s.cur.used ∧ p ∉ w.freed ∧ stampOf s.cur p = stampOf s.cur id) ∧
      s.fl.free w.txid id ovf = some fl' ∧
      s' = { s with fl := fl', w := some { w with freed := w.freed ++ run id (ovf + 1) } } := by
  simp only [stepAll, step] at h
  split at h
  · cases h
  · rename_i w hw
    split at h
    · rename_i hg
      split at h
      · cases h
      · rename_i fl' hf
        simp only [Option.some.injEq] at h
        refine ⟨w, fl', hw, ?_, hf, h.symm⟩
        intro p hp
        rw [List.all_eq_true] at hg
        have := hg p hp
        simp only [Bool.and_eq_true, List.contains_iff_mem, Bool.not_eq_true', contains_false,
          beq_iff_eq] at this
        exact ⟨this.1.1, this.1.2, this.2⟩
    · cases h

theorem step_commit {s s' : St} (h : stepAll s .commit = some s') :
    ∃ w, s.w = some w ∧
      s' = { s with cur := newVersion s.cur w, old := some s.cur, w := none,
                    disk := w.allocated.map (fun p => (p, w.txid)) ++ s.disk } := by
  simp only [stepAll, step] at h
  split at h
  · cases h
  · rename_i w hw
    simp only [Option.some.injEq] at h
    exact ⟨w, hw, h.symm⟩

theorem step_rollback {s s' : St} (h : stepAll s .rollback = some s') :
    ∃ w fl', s.w = some w ∧ w.allocated = [] ∧ s.fl.rollback w.txid = some fl' ∧
      s' = { s with fl := fl', w := none } := by
  simp only [stepAll, step] at h
  split at h
  · cases h
  · rename_i w hw
    split at h
    · cases h
    · rename_i ha
      split at h
      · cases h
      · rename_i fl' hr
        simp only [Option.some.injEq] at h
        exact ⟨w, fl', hw, by simpa using ha, hr, h.symm⟩

theorem step_failedCommit {s s' : St} (h : stepAll s .failedCommit = some s') :
    ∃ w fl1 fl2, s.w = some w ∧ s.fl.rollback w.txid = some fl1 ∧
      fl1.noSyncReload (freshFree s.cur) = some fl2 ∧
      s' = { s with fl := fl2, w := none,
                    disk := w.allocated.map (fun p => (p, w.txid)) ++ s.disk } := by
  simp only [stepAll, step] at h
  split at h
  · cases h
  · rename_i w hw
    split at h
    · cases h
    · rename_i fl1 h1
      split at h
      · cases h
      · rename_i fl2 h2
        simp only [Option.some.injEq] at h
        exact ⟨w, fl1, fl2, hw, h1, h2, h.symm⟩

theorem step_reopen {s s' : St} {k : Kind} (h : stepAll s (.reopen k) = some s') :
    s.w = none ∧ s.readers = [] ∧ ∃ fl, (FL.empty k).init (freshFree s.cur) = some fl ∧
      s' = { s with fl := fl } := by
  simp only [stepAll, stepReopen] at h
  split at h
  · cases h
  · rename_i hg
    split at h
    · cases h
    · rename_i fl hf
      simp only [Option.some.injEq] at h
      have hg' : ¬ s.w.isSome = true ∧ ¬ s.readers ≠ [] := by
        constructor
        · intro h1; exact hg (Or.inl h1)
        · intro h1; exact hg (Or.inr h1)
      refine ⟨?_, by simpa using hg'.2, fl, hf, h.symm⟩
      cases hsw : s.w with
      | none => rfl
      | some w => rw [hsw] at hg'; simp at hg'

/-! ## Part 3 — the invariants -/

/-- the high-water mark in force -/
def St.hwm (s : St) : Nat := match s.w with | some w => w.hwm | none => s.cur.hwm
/-- pages the open writer (if any) has allocated -/
def St.allocated (s : St) : List Pgid := match s.w with | some w => w.allocated | none => []
/-- pages the open writer (if any) has freed -/
def St.freed (s : St) : List Pgid := match s.w with | some w => w.freed | none => []

theorem St.allocated_some {s : St} {w : W} (hw : s.w = some w) : s.allocated = w.allocated := by
  simp only [St.allocated, hw]
theorem St.freed_some {s : St} {w : W} (hw : s.w = some w) : s.freed = w.freed := by
  simp only [St.freed, hw]
theorem St.hwm_some {s : St} {w : W} (hw : s.w = some w) : s.hwm = w.hwm := by
  simp only [St.hwm, hw]
theorem St.allocated_none {s : St} (hw : s.w = none) : s.allocated = [] := by
  simp only [St.allocated, hw]
theorem St.freed_none {s : St} (hw : s.w = none) : s.freed = [] := by
  simp only [St.freed, hw]
theorem St.hwm_none {s : St} (hw : s.w = none) : s.hwm = s.cur.hwm := by
  simp only [St.hwm, hw]

/-- **Accounting invariant** (holds in every reachable state, no side condition). -/
structure Inv (s : St) : Prop where
  fl : FLInv s.fl
  regs : s.fl.readers.Perm (s.readers.map (·.txid))
  rd_le : ∀ r ∈ s.readers, r.txid ≤ s.cur.txid
  wr_tx : ∀ w, s.w = some w → w.txid = s.cur.txid + 1
  used_nodup : s.cur.used.Nodup
  used_bd : ∀ p ∈ s.cur.used, 2 ≤ p ∧ p < s.cur.hwm
  free_bd : ∀ p ∈ s.fl.freeIds, p < s.cur.hwm
  pend_bd : ∀ p ∈ s.fl.pendingIds, p < s.cur.hwm
  used_free : ∀ p ∈ s.cur.used, p ∉ s.fl.freeIds
  hwm_ge2 : 2 ≤ s.cur.hwm
  hwm_le : s.cur.hwm ≤ s.hwm
  alloc_nodup : s.allocated.Nodup
  alloc_bd : ∀ p ∈ s.allocated, 2 ≤ p ∧ p < s.hwm ∧ p ∉ s.cur.used ∧ p ∉ s.fl.freeIds ∧ p ∉ s.fl.pendingIds
  cover : ∀ p, 2 ≤ p → p < s.hwm →
    p ∈ s.cur.used ∨ p ∈ s.fl.freeIds ∨ p ∈ s.fl.pendingIds ∨ p ∈ s.allocated
  freed_iff : ∀ p, p ∈ s.freed ↔ ∃ a, PEnt s.fl.pending (s.cur.txid + 1) p a
  used_pend : ∀ p ∈ s.cur.used, p ∈ s.fl.pendingIds → p ∈ s.freed
  freed_used : ∀ p ∈ s.freed, p ∈ s.cur.used
  pend_tx : ∀ e ∈ s.fl.pending, e.1 ≤ s.cur.txid + 1
  allocs_le : ∀ x ∈ s.fl.allocs, x.2 ≤ s.cur.txid + 1 ∧ (x.1 ∈ s.cur.used → x.2 ≤ s.cur.txid)
  pend_atx : ∀ q a, PEnt s.fl.pending (s.cur.txid + 1) q a → a ≤ s.cur.txid
  disk : Intact s.disk s.cur

/-- **Reader protection invariant** (needs transaction ids below `2^64 - 1`). -/
structure RInv (s : St) : Prop where
  stamps : ∀ pc ∈ s.cur.content, pc.2 ≤ s.cur.txid
  rstamps : ∀ r ∈ s.readers, ∀ pc ∈ r.content, pc.2 ≤ r.txid
  prot : ∀ r ∈ s.readers, ∀ pc ∈ r.content, pc ∈ s.cur.content ∨
    ∃ t a, PEnt s.fl.pending t pc.1 a ∧ a ≤ r.txid ∧ r.txid < t ∧ t ≤ s.cur.txid
  allocs_st : ∀ x ∈ s.fl.allocs, ∀ st, (x.1, st) ∈ s.cur.content → x.2 ≤ st
  pend_st : ∀ q a, PEnt s.fl.pending (s.cur.txid + 1) q a → ∀ st, (q, st) ∈ s.cur.content → a ≤ st
  rdisk : ∀ r ∈ s.readers, Intact s.disk r

theorem empty_freeIds (k : Kind) : (FL.empty k).freeIds = [] := by
  cases k <;> rfl

theorem empty_inv (k : Kind) : FLInv (FL.empty k) :=
  ⟨fun _ => ⟨List.Pairwise.nil, fun _ h => (by cases h)⟩, fun _ => SpansWF.nil,
   fun _ h _ => (by rw [empty_freeIds] at h; cases h), List.nodup_nil, List.nodup_nil,
   fun _ h => (by cases h)⟩

theorem inv_init (k : Kind) : Inv (init k) := by
  have hfree := empty_freeIds k
  have hused : (init k).cur.used = [2, 3] := rfl
  have hpend : (init k).fl.pendingIds = [] := rfl
  refine { fl := empty_inv k, regs := List.Perm.refl _, rd_le := fun _ h => (by cases h),
           wr_tx := fun _ h => (by cases h), used_nodup := (by rw [hused]; decide), used_bd := ?_,
           free_bd := ?_, pend_bd := fun _ h => (by cases h), used_free := ?_,
           hwm_ge2 := (by show 2 ≤ 4; omega), hwm_le := Nat.le_refl _, alloc_nodup := List.nodup_nil,
           alloc_bd := fun _ h => (by cases h),
           cover := ?_, freed_iff := ?_, used_pend := fun _ _ h => (by cases h),
           freed_used := fun _ h => (by cases h), pend_tx := fun _ h => (by cases h),
           allocs_le := fun _ h => (by cases h), pend_atx := ?_, disk := ?_ }
  · intro p hp
    rw [hused] at hp
    simp only [List.mem_cons, List.not_mem_nil, or_false] at hp
    show 2 ≤ p ∧ p < 4
    fomega
  · intro p hp
    change p ∈ (FL.empty k).freeIds at hp
    rw [hfree] at hp; cases hp
  · intro p _ hp
    change p ∈ (FL.empty k).freeIds at hp
    rw [hfree] at hp; cases hp
  · intro p h1 h2
    left
    rw [hused]
    change p < 4 at h2
    simp only [List.mem_cons, List.not_mem_nil, or_false]
    omega
  · intro p
    constructor
    · intro h; cases h
    · rintro ⟨a, h⟩; exact absurd h pent_nil
  · intro q a h; exact absurd h pent_nil
  · intro pc hpc
    change pc ∈ [(2, 0), (3, 0)] at hpc
    simp only [List.mem_cons, List.not_mem_nil, or_false] at hpc
    rcases hpc with rfl | rfl <;> rfl

theorem rinv_init (k : Kind) : RInv (init k) := by
  refine { stamps := ?_, rstamps := fun _ h => (by cases h), prot := fun _ h => (by cases h),
           allocs_st := fun _ h => (by cases h), pend_st := fun q a h => absurd h pent_nil,
           rdisk := fun _ h => (by cases h) }
  intro pc hpc
  change pc ∈ [(2, 0), (3, 0)] at hpc
  simp only [List.mem_cons, List.not_mem_nil, or_false] at hpc
  rcases hpc with rfl | rfl <;> exact Nat.zero_le _

/-! ### preservation, event by event -/

theorem mem_freshFree {v : Version} {p : Nat} : p ∈ freshFree v ↔ (2 ≤ p ∧ p < v.hwm ∧ p ∉ v.used) := by
  unfold freshFree
  rw [List.mem_filter, List.mem_range]
  simp only [Bool.decide_and, Bool.and_eq_true, decide_eq_true_eq, Bool.not_eq_true', contains_false]
  constructor
  · rintro ⟨h1, h2, h3⟩; exact ⟨h2, h1, h3⟩
  · rintro ⟨h1, h2, h3⟩; exact ⟨h2, h1, h3⟩

theorem freshFree_sorted (v : Version) : (freshFree v).Pairwise (· < ·) :=
  List.Pairwise.filter _ List.pairwise_lt_range


/-- the file after the data pages of a commit are written holds the new version -/
theorem intact_newVersion {s : St} (hi : Inv s) {w : W} (hw : s.w = some w) :
    Intact (w.allocated.map (fun p => (p, w.txid)) ++ s.disk) (newVersion s.cur w) := by
  intro pc hpc
  rcases mem_newVersion_content.mp hpc with ⟨h1, _⟩ | ⟨h1, h2⟩
  · rw [diskGet_stamped_of_not_mem]
    · exact hi.disk pc h1
    · intro ha
      rw [← St.allocated_some hw] at ha
      exact (hi.alloc_bd _ ha).2.2.1 (mem_used_of_mem h1)
  · rw [diskGet_stamped h1, h2]

theorem intact_cur_write {s : St} (hi : Inv s) {w : W} (hw : s.w = some w) (ps : List Pgid)
    (hps : ∀ p ∈ ps, p ∈ w.allocated) (t : Nat) :
    Intact (ps.map (fun p => (p, t)) ++ s.disk) s.cur := by
  apply hi.disk.write
  intro p hp
  have := hps p hp
  rw [← St.allocated_some hw] at this
  exact (hi.alloc_bd _ this).2.2.1


theorem map_erase_perm {α β : Type} [DecidableEq α] [DecidableEq β] (f : α → β) {v : α} {l : List α}
    (hv : v ∈ l) : ((l.map f).erase (f v)).Perm ((l.erase v).map f) := by
  induction l with
  | nil => cases hv
  | cons x xs ih =>
    by_cases hx : x = v
    · subst hx
      simp
    · have hv' : v ∈ xs := by
        rcases List.mem_cons.mp hv with e | m
        · exact absurd e.symm hx
        · exact m
      rw [List.erase_cons_tail (by simpa using hx), List.map_cons, List.map_cons]
      by_cases hfx : f x = f v
      · rw [hfx, List.erase_cons_head]
        exact ((List.perm_cons_erase hv').map f)
      · rw [List.erase_cons_tail (by simpa using hfx)]
        exact (ih hv').cons _

theorem inv_beginR {s s' : St} (hi : Inv s) (h : stepAll s .beginR = some s') : Inv s' := by
  rw [step_beginR h]
  exact { hi with
    fl := hi.fl.congr rfl rfl rfl rfl
    regs := List.perm_append_comm.trans (hi.regs.cons _)
    rd_le := fun r hr => by
      rcases List.mem_cons.mp hr with e | m
      · rw [e]; exact Nat.le_refl _
      · exact hi.rd_le r m }

theorem inv_endR {s s' : St} {t : Nat} (hi : Inv s) (h : stepAll s (.endR t) = some s') : Inv s' := by
  obtain ⟨v, hv, hvt, rfl⟩ := step_endR h
  exact { hi with
    fl := hi.fl.congr rfl rfl rfl rfl
    regs := by
      subst hvt
      exact (hi.regs.erase v.txid).trans (map_erase_perm (·.txid) hv)
    rd_le := fun r hr => hi.rd_le r (List.mem_of_mem_erase hr) }

theorem Inv.used_not_pending {s : St} (hi : Inv s) (hw : s.w = none) :
    ∀ p ∈ s.cur.used, p ∉ s.fl.pendingIds := by
  intro p hp hpp
  have := hi.used_pend p hp hpp
  simp only [St.freed, hw] at this
  cases this

theorem inv_beginW {s s' : St} (hi : Inv s) (h : stepAll s .beginW = some s') : Inv s' := by
  obtain ⟨hw, rfl⟩ := step_beginW h
  have hrel := releasePending_rel_true hi.fl
  have hnp := hi.used_not_pending hw
  have hsub := hrel.2.1
  have hfreed : s.freed = [] := by simp only [St.freed, hw]
  exact { hi with
    fl := hrel.1
    regs := by
      show (s.fl.releasePending).readers.Perm _
      rw [releasePending_readers]
      exact (sortNat_perm _).trans hi.regs
    wr_tx := fun w hw' => by cases hw'; rfl
    free_bd := fun p hp => by
      rcases (hsub p).mp (Or.inl hp) with h1 | h1
      · exact hi.free_bd p h1
      · exact hi.pend_bd p h1
    pend_bd := fun p hp => by
      rcases (hsub p).mp (Or.inr hp) with h1 | h1
      · exact hi.free_bd p h1
      · exact hi.pend_bd p h1
    used_free := fun p hp hf => by
      rcases (hsub p).mp (Or.inl hf) with h1 | h1
      · exact hi.used_free p hp h1
      · exact hnp p hp h1
    hwm_le := Nat.le_refl _
    alloc_nodup := List.nodup_nil
    alloc_bd := fun p hp => (List.not_mem_nil hp).elim
    cover := fun p h1 h2 => by
      rcases hi.cover p h1 (by simp only [St.hwm, hw]; exact h2) with h3 | h3 | h3 | h3
      · exact Or.inl h3
      · rcases (hsub p).mpr (Or.inl h3) with h4 | h4
        · exact Or.inr (Or.inl h4)
        · exact Or.inr (Or.inr (Or.inl h4))
      · rcases (hsub p).mpr (Or.inr h3) with h4 | h4
        · exact Or.inr (Or.inl h4)
        · exact Or.inr (Or.inr (Or.inl h4))
      · simp only [St.allocated, hw] at h3
        cases h3
    freed_iff := fun p => by
      constructor
      · intro hp; exact (List.not_mem_nil hp).elim
      · rintro ⟨a, hp⟩
        have := (hi.freed_iff p).mpr ⟨a, hrel.pent hp⟩
        rw [hfreed] at this
        cases this
    used_pend := fun p hp hpp => by
      rcases (hsub p).mp (Or.inr hpp) with h1 | h1
      · exact absurd h1 (hi.used_free p hp)
      · exact absurd h1 (hnp p hp)
    freed_used := fun p hp => (List.not_mem_nil hp).elim
    pend_tx := fun e he => by
      obtain ⟨e', he', h1⟩ := hrel.key e he
      rw [← h1]; exact hi.pend_tx e' he'
    allocs_le := fun x hx => by
      have hx' : x ∈ (s.fl.releasePending).allocs := hx
      rw [releasePending_allocs] at hx'
      exact hi.allocs_le x hx'
    pend_atx := fun q a hp => hi.pend_atx q a (hrel.pent hp) }

theorem inv_alloc {s s' : St} {n c : Nat} (hi : Inv s) (h : stepAll s (.alloc n c) = some s') : Inv s' := by
  obtain ⟨w, fl', id, hw, hn, ha, h2⟩ := step_alloc h
  obtain ⟨sp1, hp, hrd, hal, sp5, sp6⟩ := allocate_spec hi.fl ha
  have hwt := hi.wr_tx w hw
  have hpi : fl'.pendingIds = s.fl.pendingIds := pendingIds_congr hp
  have hhwm := hi.hwm_le
  rw [St.hwm_some hw] at hhwm
  have hand := hi.alloc_nodup
  rw [St.allocated_some hw] at hand
  have habd := hi.alloc_bd
  rw [St.allocated_some hw, St.hwm_some hw] at habd
  have hcov := hi.cover
  rw [St.allocated_some hw, St.hwm_some hw] at hcov
  rcases h2 with ⟨hid, rfl⟩ | ⟨hid, rfl⟩
  · obtain ⟨hn0, hid2, hrun, hfree⟩ := sp5 hid
    exact { hi with
      fl := sp1
      regs := by show fl'.readers.Perm _; rw [hrd]; exact hi.regs
      wr_tx := fun w' hw' => by cases hw'; exact hwt
      free_bd := fun p hp' => hi.free_bd p ((hfree p).mp hp').1
      pend_bd := fun p hp' => hi.pend_bd p (hpi ▸ hp')
      used_free := fun p hp' hf => hi.used_free p hp' ((hfree p).mp hf).1
      hwm_le := hhwm
      alloc_nodup := by
        show (w.allocated ++ run id n).Nodup
        rw [List.nodup_append]
        refine ⟨hand, run_nodup _ _, ?_⟩
        intro a ha1 b hb hab
        subst hab
        rw [mem_run] at hb
        exact (habd a ha1).2.2.2.1 (hrun a hb.1 hb.2)
      alloc_bd := fun p hp' => by
        have hp' : p ∈ w.allocated ++ run id n := hp'
        show 2 ≤ p ∧ p < w.hwm ∧ p ∉ s.cur.used ∧ p ∉ fl'.freeIds ∧ p ∉ fl'.pendingIds
        rw [hpi]
        rcases List.mem_append.mp hp' with h1 | h1
        · obtain ⟨b1, b2, b3, b4, b5⟩ := habd p h1
          exact ⟨b1, b2, b3, fun hf => b4 ((hfree p).mp hf).1, b5⟩
        · rw [mem_run] at h1
          have hf := hrun p h1.1 h1.2
          have := hi.free_bd p hf
          refine ⟨hi.fl.freeIds_ge2 hf, by fomega, fun hu => hi.used_free p hu hf,
                  fun hf' => ((hfree p).mp hf').2 h1, hi.fl.disjoint p hf⟩
      cover := fun p h1 h3 => by
        show p ∈ s.cur.used ∨ p ∈ fl'.freeIds ∨ p ∈ fl'.pendingIds ∨ p ∈ w.allocated ++ run id n
        rw [hpi]
        rcases hcov p h1 h3 with h4 | h4 | h4 | h4
        · exact Or.inl h4
        · by_cases hin : id ≤ p ∧ p < id + n
          · exact Or.inr (Or.inr (Or.inr (List.mem_append_right _ (mem_run.mpr hin))))
          · exact Or.inr (Or.inl ((hfree p).mpr ⟨h4, hin⟩))
        · exact Or.inr (Or.inr (Or.inl h4))
        · exact Or.inr (Or.inr (Or.inr (List.mem_append_left _ h4)))
      freed_iff := fun p => by
        have := hi.freed_iff p
        rw [St.freed_some hw] at this
        show p ∈ w.freed ↔ ∃ a, PEnt fl'.pending (s.cur.txid + 1) p a
        rw [hp]; exact this
      used_pend := fun p h1 h3 => by
        have := hi.used_pend p h1 (hpi ▸ h3)
        rw [St.freed_some hw] at this
        exact this
      freed_used := fun p h1 => hi.freed_used p (by rw [St.freed_some hw]; exact h1)
      pend_tx := fun e he => hi.pend_tx e (hp ▸ he)
      allocs_le := fun x hx => by
        rcases hal x hx with h1 | h1
        · exact hi.allocs_le x h1
        · subst h1
          refine ⟨by show w.txid ≤ _; fomega, fun hu => ?_⟩
          exact absurd (hrun id (Nat.le_refl _) (by fomega)) (hi.used_free id hu)
      pend_atx := fun q a hq => hi.pend_atx q a (hp ▸ hq) }
  · have hfl := sp6 hid
    subst hfl
    exact { hi with
      wr_tx := fun w' hw' => by cases hw'; exact hwt
      hwm_le := by show s.cur.hwm ≤ w.hwm + n; fomega
      alloc_nodup := by
        show (w.allocated ++ run w.hwm n).Nodup
        rw [List.nodup_append]
        refine ⟨hand, run_nodup _ _, ?_⟩
        intro a ha1 b hb hab
        subst hab
        rw [mem_run] at hb
        have := (habd a ha1).2.1
        fomega
      alloc_bd := fun p hp' => by
        have hp' : p ∈ w.allocated ++ run w.hwm n := hp'
        show 2 ≤ p ∧ p < w.hwm + n ∧ p ∉ s.cur.used ∧ p ∉ s.fl.freeIds ∧ p ∉ s.fl.pendingIds
        rcases List.mem_append.mp hp' with h1 | h1
        · obtain ⟨b1, b2, b3, b4, b5⟩ := habd p h1
          exact ⟨b1, by fomega, b3, b4, b5⟩
        · rw [mem_run] at h1
          have h2 := hi.hwm_ge2
          refine ⟨by fomega, by fomega, fun hu => ?_, fun hf => ?_, fun hf => ?_⟩
          · have := (hi.used_bd p hu).2; fomega
          · have := hi.free_bd p hf; fomega
          · have := hi.pend_bd p hf; fomega
      cover := fun p h1 h3 => by
        have h3 : p < w.hwm + n := h3
        show p ∈ s.cur.used ∨ p ∈ s.fl.freeIds ∨ p ∈ s.fl.pendingIds ∨ p ∈ w.allocated ++ run w.hwm n
        by_cases hlt : p < w.hwm
        · rcases hcov p h1 hlt with h4 | h4 | h4 | h4
          · exact Or.inl h4
          · exact Or.inr (Or.inl h4)
          · exact Or.inr (Or.inr (Or.inl h4))
          · exact Or.inr (Or.inr (Or.inr (List.mem_append_left _ h4)))
        · exact Or.inr (Or.inr (Or.inr (List.mem_append_right _ (mem_run.mpr ⟨by fomega, h3⟩))))
      freed_iff := fun p => by
        have := hi.freed_iff p
        rw [St.freed_some hw] at this
        exact this
      used_pend := fun p h1 h3 => by
        have := hi.used_pend p h1 h3
        rw [St.freed_some hw] at this
        exact this
      freed_used := fun p h1 => hi.freed_used p (by rw [St.freed_some hw]; exact h1) }

theorem inv_free {s s' : St} {id ovf : Nat} (hi : Inv s) (h : stepAll s (.free id ovf) = some s') : Inv s' := by
  obtain ⟨w, fl', hw, hg, hf, rfl⟩ := step_free h
  obtain ⟨f1, hfree, hrd, hal, hpi, hpent, hkey⟩ := free_spec' hi.fl hf
  have hwt := hi.wr_tx w hw
  have hhwm := hi.hwm_le
  rw [St.hwm_some hw] at hhwm
  have hand := hi.alloc_nodup
  rw [St.allocated_some hw] at hand
  have habd := hi.alloc_bd
  rw [St.allocated_some hw, St.hwm_some hw] at habd
  have hcov := hi.cover
  rw [St.allocated_some hw, St.hwm_some hw] at hcov
  have hfi := hi.freed_iff
  rw [St.freed_some hw] at hfi
  have hup := hi.used_pend
  rw [St.freed_some hw] at hup
  have hfu := hi.freed_used
  rw [St.freed_some hw] at hfu
  exact { hi with
    fl := f1
    regs := by show fl'.readers.Perm _; rw [hrd]; exact hi.regs
    wr_tx := fun w' hw' => by cases hw'; exact hwt
    free_bd := fun p hp => hi.free_bd p (hfree ▸ hp)
    pend_bd := fun p hp => by
      rcases (hpi p).mp hp with h1 | h1
      · exact hi.pend_bd p h1
      · exact (hi.used_bd p (hg p (mem_run.mpr h1)).1).2
    used_free := fun p hp hf' => hi.used_free p hp (hfree ▸ hf')
    hwm_le := hhwm
    alloc_nodup := hand
    alloc_bd := fun p hp => by
      obtain ⟨b1, b2, b3, b4, b5⟩ := habd p hp
      refine ⟨b1, b2, b3, fun hf' => b4 (hfree ▸ hf'), fun hp' => ?_⟩
      rcases (hpi p).mp hp' with h1 | h1
      · exact b5 h1
      · exact b3 (hg p (mem_run.mpr h1)).1
    cover := fun p h1 h2 => by
      rcases hcov p h1 h2 with h3 | h3 | h3 | h3
      · exact Or.inl h3
      · exact Or.inr (Or.inl (hfree ▸ h3))
      · exact Or.inr (Or.inr (Or.inl ((hpi p).mpr (Or.inl h3))))
      · exact Or.inr (Or.inr (Or.inr h3))
    freed_iff := fun p => by
      show p ∈ w.freed ++ run id (ovf + 1) ↔ ∃ a, PEnt fl'.pending (s.cur.txid + 1) p a
      rw [List.mem_append, hfi p, mem_run]
      constructor
      · rintro (⟨a, h1⟩ | h1)
        · exact ⟨a, (hpent _ _ _).mpr (Or.inl h1)⟩
        · exact ⟨_, (hpent _ _ _).mpr (Or.inr ⟨hwt.symm, h1, rfl⟩)⟩
      · rintro ⟨a, h1⟩
        rcases (hpent _ _ _).mp h1 with h2 | ⟨_, h2, _⟩
        · exact Or.inl ⟨a, h2⟩
        · exact Or.inr h2
    used_pend := fun p hp hpp => by
      show p ∈ w.freed ++ run id (ovf + 1)
      rcases (hpi p).mp hpp with h1 | h1
      · exact List.mem_append_left _ (hup p hp h1)
      · exact List.mem_append_right _ (mem_run.mpr h1)
    freed_used := fun p hp => by
      have hp : p ∈ w.freed ++ run id (ovf + 1) := hp
      rcases List.mem_append.mp hp with h1 | h1
      · exact hfu p h1
      · exact (hg p h1).1
    pend_tx := fun e he => by
      rcases hkey e he with h1 | ⟨e', he', h1⟩
      · rw [h1, hwt]; exact Nat.le_refl _
      · rw [← h1]; exact hi.pend_tx e' he'
    allocs_le := fun x hx => hi.allocs_le x (hal x hx)
    pend_atx := fun q a hq => by
      rcases (hpent _ _ _).mp hq with h1 | ⟨_, h1, h2⟩
      · exact hi.pend_atx q a h1
      · rw [h2]
        rcases lookupAlloc_cases s.fl.allocs id with h3 | h3
        · rw [h3]; exact Nat.zero_le _
        · exact (hi.allocs_le _ h3).2 (hg id (mem_run.mpr ⟨Nat.le_refl _, by omega⟩)).1 }

theorem mem_newVersion_used {cur : Version} {w : W} {p : Nat} :
    p ∈ (newVersion cur w).used ↔ ((p ∈ cur.used ∧ p ∉ w.freed) ∨ p ∈ w.allocated) := by
  rw [newVersion_used, List.mem_append, List.mem_filter]
  simp only [Bool.not_eq_true', contains_false]

theorem inv_commit {s s' : St} (hi : Inv s) (h : stepAll s .commit = some s') : Inv s' := by
  obtain ⟨w, hw, rfl⟩ := step_commit h
  have hwt := hi.wr_tx w hw
  have hhwm := hi.hwm_le
  rw [St.hwm_some hw] at hhwm
  have hand := hi.alloc_nodup
  rw [St.allocated_some hw] at hand
  have habd := hi.alloc_bd
  rw [St.allocated_some hw, St.hwm_some hw] at habd
  have hcov := hi.cover
  rw [St.allocated_some hw, St.hwm_some hw] at hcov
  have hfi := hi.freed_iff
  rw [St.freed_some hw] at hfi
  have hup := hi.used_pend
  rw [St.freed_some hw] at hup
  have hnokey : ∀ q a, ¬ PEnt s.fl.pending (w.txid + 1) q a := by
    intro q a hp
    obtain ⟨e, he, het⟩ := hp.key
    have := hi.pend_tx e he
    fomega
  have hge2 := hi.hwm_ge2
  exact { hi with
    rd_le := fun r hr => by
      have := hi.rd_le r hr
      show r.txid ≤ w.txid
      fomega
    wr_tx := fun w' hw' => by cases hw'
    used_nodup := by
      rw [newVersion_used, List.nodup_append]
      refine ⟨hi.used_nodup.sublist List.filter_sublist, hand, ?_⟩
      intro a ha b hb hab
      subst hab
      exact (habd a hb).2.2.1 (List.mem_filter.mp ha).1
    used_bd := fun p hp => by
      show 2 ≤ p ∧ p < w.hwm
      rcases mem_newVersion_used.mp hp with ⟨h1, _⟩ | h1
      · have := hi.used_bd p h1
        exact ⟨this.1, by fomega⟩
      · exact ⟨(habd p h1).1, (habd p h1).2.1⟩
    free_bd := fun p hp => by
      have := hi.free_bd p hp
      show p < w.hwm
      fomega
    pend_bd := fun p hp => by
      have := hi.pend_bd p hp
      show p < w.hwm
      fomega
    used_free := fun p hp => by
      rcases mem_newVersion_used.mp hp with ⟨h1, _⟩ | h1
      · exact hi.used_free p h1
      · exact (habd p h1).2.2.2.1
    hwm_ge2 := by show 2 ≤ w.hwm; fomega
    hwm_le := Nat.le_refl _
    alloc_nodup := List.nodup_nil
    alloc_bd := fun p hp => (List.not_mem_nil hp).elim
    cover := fun p h1 h2 => by
      rcases hcov p h1 h2 with h3 | h3 | h3 | h3
      · by_cases hfr : p ∈ w.freed
        · obtain ⟨a, ha⟩ := (hfi p).mp hfr
          exact Or.inr (Or.inr (Or.inl ha.mem_pendingIds))
        · exact Or.inl (mem_newVersion_used.mpr (Or.inl ⟨h3, hfr⟩))
      · exact Or.inr (Or.inl h3)
      · exact Or.inr (Or.inr (Or.inl h3))
      · exact Or.inl (mem_newVersion_used.mpr (Or.inr h3))
    freed_iff := fun p => by
      constructor
      · intro hp; exact (List.not_mem_nil hp).elim
      · rintro ⟨a, hp⟩; exact absurd hp (hnokey p a)
    used_pend := fun p hp hpp => by
      rcases mem_newVersion_used.mp hp with ⟨h1, h2⟩ | h1
      · exact absurd (hup p h1 hpp) h2
      · exact absurd hpp (habd p h1).2.2.2.2
    freed_used := fun p hp => (List.not_mem_nil hp).elim
    pend_tx := fun e he => by
      have := hi.pend_tx e he
      show e.1 ≤ w.txid + 1
      fomega
    allocs_le := fun x hx => by
      have := (hi.allocs_le x hx).1
      show x.2 ≤ w.txid + 1 ∧ (_ → x.2 ≤ w.txid)
      exact ⟨by fomega, fun _ => by fomega⟩
    pend_atx := fun q a hq => absurd hq (hnokey q a)
    disk := intact_newVersion hi hw }

/-- what `Rollback(w.txid)` does to the allocator of a state with open writer `w` -/
theorem rollback_facts {s : St} (hi : Inv s) {w : W} (hw : s.w = some w) {fl1 : FL}
    (hrb : s.fl.rollback w.txid = some fl1) :
    FLInv fl1 ∧ fl1.freeIds = s.fl.freeIds ∧ fl1.readers = s.fl.readers ∧
    (∀ t q a, PEnt fl1.pending t q a ↔ (PEnt s.fl.pending t q a ∧ t ≠ s.cur.txid + 1)) ∧
    (∀ p, p ∈ fl1.pendingIds ↔ (p ∈ s.fl.pendingIds ∧ p ∉ w.freed)) ∧
    (∀ e ∈ fl1.pending, e.1 ≤ s.cur.txid) ∧
    (∀ x ∈ fl1.allocs, x ∈ s.fl.allocs ∨ PEnt s.fl.pending (s.cur.txid + 1) x.1 x.2) := by
  have hwt := hi.wr_tx w hw
  have hfi := hi.freed_iff
  rw [St.freed_some hw] at hfi
  obtain ⟨h1, h2, h3, h4⟩ := rollback_frame' hrb
  obtain ⟨h5, h6⟩ := rollback_allocs hrb
  rw [hwt] at h4 h6
  have hpent : ∀ t q a, PEnt fl1.pending t q a ↔ (PEnt s.fl.pending t q a ∧ t ≠ s.cur.txid + 1) := by
    intro t q a
    rw [h4]
    exact pent_filter_ne _ _ _ _ _
  refine ⟨rollback_inv hi.fl hrb, freeIds_congr h1 h2 h3, h5, hpent, ?_, ?_, h6⟩
  · intro p
    rw [mem_pendingIds, mem_pendingIds]
    constructor
    · rintro ⟨t, a, hp⟩
      obtain ⟨hp1, hp2⟩ := (hpent t p a).mp hp
      refine ⟨⟨t, a, hp1⟩, fun hfr => ?_⟩
      obtain ⟨a', ha'⟩ := (hfi p).mp hfr
      exact hp2 (hi.fl.pent_unique hp1 ha').1
    · rintro ⟨⟨t, a, hp⟩, hnf⟩
      refine ⟨t, a, (hpent t p a).mpr ⟨hp, fun ht => ?_⟩⟩
      subst ht
      exact hnf ((hfi p).mpr ⟨a, hp⟩)
  · intro e he
    rw [h4, List.mem_filter] at he
    have h7 := hi.pend_tx e he.1
    have h8 : e.1 ≠ s.cur.txid + 1 := by simpa using he.2
    fomega

/-- the state after the writer is abandoned (user rollback / failed commit) -/
theorem inv_abort {s : St} (hi : Inv s) {w : W} (hw : s.w = some w) {fl1 fl2 : FL}
    (hrb : s.fl.rollback w.txid = some fl1)
    (h2 : FLInv fl2) (hrd : fl2.readers = fl1.readers) (hpd : fl2.pending = fl1.pending)
    (hal : fl2.allocs = fl1.allocs)
    (hfb : ∀ p ∈ fl2.freeIds, p < s.cur.hwm ∧ p ∉ s.cur.used)
    (hcv : ∀ p, 2 ≤ p → p < s.cur.hwm → p ∉ s.cur.used → p ∉ fl1.pendingIds → p ∈ fl2.freeIds)
    (d : List (Pgid × Nat)) (hd : Intact d s.cur) :
    Inv { s with fl := fl2, w := none, disk := d } := by
  obtain ⟨_, _, r3, r4, r5, r6, r7⟩ := rollback_facts hi hw hrb
  have hpi : fl2.pendingIds = fl1.pendingIds := pendingIds_congr hpd
  have hup := hi.used_pend
  rw [St.freed_some hw] at hup
  exact { hi with
    fl := h2
    regs := by show fl2.readers.Perm _; rw [hrd, r3]; exact hi.regs
    wr_tx := fun w' hw' => by cases hw'
    free_bd := fun p hp => (hfb p hp).1
    pend_bd := fun p hp => hi.pend_bd p ((r5 p).mp (hpi ▸ hp)).1
    used_free := fun p hp hf => (hfb p hf).2 hp
    hwm_le := Nat.le_refl _
    alloc_nodup := List.nodup_nil
    alloc_bd := fun p hp => (List.not_mem_nil hp).elim
    cover := fun p h3 h4 => by
      show p ∈ s.cur.used ∨ p ∈ fl2.freeIds ∨ p ∈ fl2.pendingIds ∨ p ∈ []
      rw [hpi]
      by_cases hu : p ∈ s.cur.used
      · exact Or.inl hu
      · by_cases hpp : p ∈ fl1.pendingIds
        · exact Or.inr (Or.inr (Or.inl hpp))
        · exact Or.inr (Or.inl (hcv p h3 h4 hu hpp))
    freed_iff := fun p => by
      constructor
      · intro hp; exact (List.not_mem_nil hp).elim
      · rintro ⟨a, hp⟩
        have hp : PEnt fl2.pending (s.cur.txid + 1) p a := hp
        rw [hpd] at hp
        exact absurd rfl ((r4 _ _ _).mp hp).2
    used_pend := fun p hp hpp => by
      have hpp : p ∈ fl2.pendingIds := hpp
      rw [hpi] at hpp
      obtain ⟨h5, h6⟩ := (r5 p).mp hpp
      exact absurd (hup p hp h5) h6
    freed_used := fun p hp => (List.not_mem_nil hp).elim
    pend_tx := fun e he => by
      have he : e ∈ fl2.pending := he
      rw [hpd] at he
      have := r6 e he
      show e.1 ≤ s.cur.txid + 1
      fomega
    allocs_le := fun x hx => by
      have hx : x ∈ fl2.allocs := hx
      rw [hal] at hx
      rcases r7 x hx with h5 | h5
      · exact hi.allocs_le x h5
      · have := hi.pend_atx _ _ h5
        exact ⟨by fomega, fun _ => this⟩
    pend_atx := fun q a hq => by
      have hq : PEnt fl2.pending (s.cur.txid + 1) q a := hq
      rw [hpd] at hq
      exact absurd rfl ((r4 _ _ _).mp hq).2
    disk := hd }

theorem inv_rollback {s s' : St} (hi : Inv s) (h : stepAll s .rollback = some s') : Inv s' := by
  obtain ⟨w, fl', hw, hnil, hrb, rfl⟩ := step_rollback h
  obtain ⟨_, r2, _, _, r5, _, _⟩ := rollback_facts hi hw hrb
  have hcov := hi.cover
  rw [St.allocated_some hw, St.hwm_some hw, hnil] at hcov
  have hhwm := hi.hwm_le
  rw [St.hwm_some hw] at hhwm
  have hfu := hi.freed_used
  rw [St.freed_some hw] at hfu
  refine inv_abort hi hw hrb (rollback_inv hi.fl hrb) rfl rfl rfl ?_ ?_ s.disk hi.disk
  · intro p hp
    rw [r2] at hp
    exact ⟨hi.free_bd p hp, fun hu => hi.used_free p hu hp⟩
  · intro p h1 h2 h3 h4
    rw [r2]
    rcases hcov p h1 (by fomega) with h5 | h5 | h5 | h5
    · exact absurd h5 h3
    · exact h5
    · by_cases hfr : p ∈ w.freed
      · exact absurd (hfu p hfr) h3
      · exact absurd ((r5 p).mpr ⟨h5, hfr⟩) h4
    · cases h5

theorem inv_failedCommit {s s' : St} (hi : Inv s) (h : stepAll s .failedCommit = some s') : Inv s' := by
  obtain ⟨w, fl1, fl2, hw, hrb, hre, rfl⟩ := step_failedCommit h
  have hf1 := rollback_inv hi.fl hrb
  have hs : ((freshFree s.cur).filter (fun id => !fl1.pendingIds.contains id)).Pairwise (· < ·) :=
    List.Pairwise.filter _ (freshFree_sorted s.cur)
  obtain ⟨g, hg1, hg2, hg3⟩ := init_inv (f := fl1) hs
    (fun q hq => (mem_freshFree.mp (List.mem_filter.mp hq).1).1)
    (fun q hq => by
      have := (List.mem_filter.mp hq).2
      simpa [contains_false] using this)
    hf1.pending_nodup hf1.pending_keys hf1.pending_ge2
  have hre' : fl1.init ((freshFree s.cur).filter (fun id => !fl1.pendingIds.contains id)) = some fl2 := hre
  rw [hre'] at hg1
  cases hg1
  obtain ⟨i1, i2, i3, _⟩ := init_frame hre'
  have hmem : ∀ p, p ∈ fl2.freeIds ↔ (p ∈ freshFree s.cur ∧ p ∉ fl1.pendingIds) := by
    intro p
    rw [hg3, List.mem_filter]
    simp only [Bool.not_eq_true', contains_false]
  refine inv_abort hi hw hrb hg2 i1 i3 i2 ?_ ?_ _ (intact_cur_write hi hw _ (fun p hp => hp) _)
  · intro p hp
    obtain ⟨h1, _⟩ := (hmem p).mp hp
    rw [mem_freshFree] at h1
    exact ⟨h1.2.1, h1.2.2⟩
  · intro p h1 h2 h3 h4
    exact (hmem p).mpr ⟨mem_freshFree.mpr ⟨h1, h2, h3⟩, h4⟩

theorem inv_reopen {s s' : St} {k : Kind} (hi : Inv s) (h : stepAll s (.reopen k) = some s') : Inv s' := by
  obtain ⟨hw, hnr, fl, hfl, rfl⟩ := step_reopen h
  obtain ⟨g, hg1, hg2, hg3⟩ := init_inv (f := FL.empty k) (freshFree_sorted s.cur)
    (fun q hq => (mem_freshFree.mp hq).1) (fun q _ hq => by cases hq)
    List.nodup_nil List.nodup_nil (fun q hq => by cases hq)
  rw [hfl] at hg1
  cases hg1
  obtain ⟨i1, i2, i3, _⟩ := init_frame hfl
  have hp : fl.pending = [] := i3
  have hpi : fl.pendingIds = [] := by rw [pendingIds_eq, hp]; rfl
  have hal : fl.allocs = [] := i2
  exact { hi with
    fl := hg2
    regs := by
      show fl.readers.Perm _
      rw [i1, hnr]
      exact List.Perm.refl _
    free_bd := fun p hp' => by
      have hp' : p ∈ fl.freeIds := hp'
      rw [hg3] at hp'
      exact (mem_freshFree.mp hp').2.1
    pend_bd := fun p hp' => by
      have hp' : p ∈ fl.pendingIds := hp'
      rw [hpi] at hp'; cases hp'
    used_free := fun p hu hf => by
      have hf : p ∈ fl.freeIds := hf
      rw [hg3] at hf
      exact (mem_freshFree.mp hf).2.2 hu
    alloc_bd := fun p hp' => by
      have hp' : p ∈ s.allocated := hp'
      rw [St.allocated_none hw] at hp'; cases hp'
    cover := fun p h1 h2 => by
      have h2 : p < s.hwm := h2
      rw [St.hwm_none hw] at h2
      show p ∈ s.cur.used ∨ p ∈ fl.freeIds ∨ _
      by_cases hu : p ∈ s.cur.used
      · exact Or.inl hu
      · right; left
        rw [hg3]
        exact mem_freshFree.mpr ⟨h1, h2, hu⟩
    freed_iff := fun p => by
      show p ∈ s.freed ↔ ∃ a, PEnt fl.pending (s.cur.txid + 1) p a
      rw [St.freed_none hw, hp]
      constructor
      · intro h1; cases h1
      · rintro ⟨a, h1⟩; exact absurd h1 pent_nil
    used_pend := fun p _ hpp => by
      have hpp : p ∈ fl.pendingIds := hpp
      rw [hpi] at hpp; cases hpp
    pend_tx := fun e he => by
      have he : e ∈ fl.pending := he
      rw [hp] at he; cases he
    allocs_le := fun x hx => by
      have hx : x ∈ fl.allocs := hx
      rw [hal] at hx; cases hx
    pend_atx := fun q a hq => by
      have hq : PEnt fl.pending (s.cur.txid + 1) q a := hq
      rw [hp] at hq
      exact absurd hq pent_nil }

theorem inv_step {s s' : St} {e : Ev} (hi : Inv s) (h : stepAll s e = some s') : Inv s' := by
  cases e with
  | beginR => exact inv_beginR hi h
  | endR t => exact inv_endR hi h
  | beginW => exact inv_beginW hi h
  | alloc n c => exact inv_alloc hi h
  | free id ovf => exact inv_free hi h
  | commit => exact inv_commit hi h
  | rollback => exact inv_rollback hi h
  | failedCommit => exact inv_failedCommit hi h
  | reopen k => exact inv_reopen hi h

theorem runEvs_cons {s s' : St} {e : Ev} {es : List Ev} :
    runEvs s (e :: es) = some s' ↔ ∃ s1, stepAll s e = some s1 ∧ runEvs s1 es = some s' := by
  simp only [runEvs]
  cases stepAll s e with
  | none => simp
  | some s1 => simp

theorem runEvs_nil {s s' : St} : runEvs s [] = some s' ↔ s' = s := by
  simp only [runEvs, Option.some.injEq]
  exact eq_comm

theorem inv_run {evs : List Ev} : ∀ {s s' : St}, Inv s → runEvs s evs = some s' → Inv s' := by
  induction evs with
  | nil => intro s s' hi h; rw [runEvs_nil] at h; exact h ▸ hi
  | cons e es ih =>
    intro s s' hi h
    obtain ⟨s1, hs, h1⟩ := runEvs_cons.mp h
    exact ih (inv_step hi hs) h1

/-- every reachable state satisfies the accounting invariant -/
theorem Reachable.inv {s : St} (hr : Reachable s) : Inv s := by
  obtain ⟨k, evs, h⟩ := hr
  exact inv_run (inv_init k) h

theorem runEvs_snoc {evs : List Ev} : ∀ {s s1 s' : St} {e : Ev}, runEvs s evs = some s1 →
    stepAll s1 e = some s' → runEvs s (evs ++ [e]) = some s' := by
  induction evs with
  | nil =>
    intro s s1 s' e h1 h2
    rw [runEvs_nil] at h1; subst h1
    exact runEvs_cons.mpr ⟨s', h2, runEvs_nil.mpr rfl⟩
  | cons e1 es ih =>
    intro s s1 s' e h1 h2
    obtain ⟨s2, hs, h3⟩ := runEvs_cons.mp h1
    exact runEvs_cons.mpr ⟨s2, hs, ih h3 h2⟩

theorem Reachable.step {s s' : St} {e : Ev} (hr : Reachable s) (h : stepAll s e = some s') : Reachable s' := by
  obtain ⟨k, evs, hrun⟩ := hr
  exact ⟨k, evs ++ [e], runEvs_snoc hrun h⟩

theorem runEvs_append {es1 : List Ev} : ∀ {s s1 s' : St} {es2 : List Ev}, runEvs s es1 = some s1 →
    runEvs s1 es2 = some s' → runEvs s (es1 ++ es2) = some s' := by
  induction es1 with
  | nil => intro s s1 s' es2 h1 h2; rw [runEvs_nil] at h1; subst h1; exact h2
  | cons e1 es ih =>
    intro s s1 s' es2 h1 h2
    obtain ⟨s2, hs, h3⟩ := runEvs_cons.mp h1
    exact runEvs_cons.mpr ⟨s2, hs, ih h3 h2⟩

theorem Reachable.run {s s' : St} {es : List Ev} (hr : Reachable s) (h : runEvs s es = some s') : Reachable s' := by
  obtain ⟨k, evs, hrun⟩ := hr
  exact ⟨k, evs ++ es, runEvs_append hrun h⟩

/-- transaction ids never decrease -/
theorem txid_mono {s s' : St} {e : Ev} (hi : Inv s) (h : stepAll s e = some s') : s.cur.txid ≤ s'.cur.txid := by
  cases e with
  | beginR => rw [step_beginR h]; exact Nat.le_refl _
  | endR t => obtain ⟨v, _, _, rfl⟩ := step_endR h; exact Nat.le_refl _
  | beginW => rw [(step_beginW h).2]; exact Nat.le_refl _
  | alloc n c =>
    obtain ⟨w, fl', id, _, _, _, h1 | h1⟩ := step_alloc h <;> rw [h1.2] <;> exact Nat.le_refl _
  | free id ovf => obtain ⟨w, fl', _, _, _, rfl⟩ := step_free h; exact Nat.le_refl _
  | commit =>
    obtain ⟨w, hw, rfl⟩ := step_commit h
    show s.cur.txid ≤ w.txid
    rw [hi.wr_tx w hw]; omega
  | rollback => obtain ⟨w, fl', _, _, _, rfl⟩ := step_rollback h; exact Nat.le_refl _
  | failedCommit => obtain ⟨w, fl1, fl2, _, _, _, rfl⟩ := step_failedCommit h; exact Nat.le_refl _
  | reopen k => obtain ⟨_, _, fl, _, rfl⟩ := step_reopen h; exact Nat.le_refl _

/-! ### preservation of reader protection, event by event -/

/-- a page of an open reader's version is still referenced by the newest version or is pending -/
theorem reader_page_cases {s : St} (hri : RInv s) {r : Version} (hr : r ∈ s.readers) {p : Nat}
    (hp : p ∈ r.used) : p ∈ s.cur.used ∨ p ∈ s.fl.pendingIds := by
  obtain ⟨st, hst⟩ := mem_used.mp hp
  rcases hri.prot r hr (p, st) hst with h | ⟨t, a, h, _⟩
  · exact Or.inl (mem_used.mpr ⟨st, h⟩)
  · exact Or.inr h.mem_pendingIds

theorem reader_page_not_free {s : St} (hi : Inv s) (hri : RInv s) {r : Version} (hr : r ∈ s.readers)
    {p : Nat} (hp : p ∈ r.used) : p ∉ s.fl.freeIds := by
  rcases reader_page_cases hri hr hp with h | h
  · exact hi.used_free p h
  · exact fun hf => hi.fl.disjoint p hf h

theorem reader_page_not_allocated {s : St} (hi : Inv s) (hri : RInv s) {r : Version} (hr : r ∈ s.readers)
    {p : Nat} (hp : p ∈ r.used) : p ∉ s.allocated := by
  intro ha
  obtain ⟨_, _, h1, _, h2⟩ := hi.alloc_bd p ha
  rcases reader_page_cases hri hr hp with h | h
  · exact h1 h
  · exact h2 h


theorem mem_of_stampOf {v : Version} {p st : Nat} (h : stampOf v p = some st) : (p, st) ∈ v.content := by
  unfold stampOf at h
  cases hf : v.content.find? (fun x => x.1 == p) with
  | none => rw [hf] at h; cases h
  | some x =>
    rw [hf] at h
    simp only [Option.map_some, Option.some.injEq] at h
    have h1 := List.mem_of_find?_eq_some hf
    have h2 : x.1 = p := by simpa using List.find?_some hf
    rw [← h2, ← h]
    exact h1

theorem rinv_beginR {s s' : St} (hi : Inv s) (hri : RInv s) (h : stepAll s .beginR = some s') : RInv s' := by
  rw [step_beginR h]
  exact { hri with
    rstamps := fun r hr => by
      rcases List.mem_cons.mp hr with e | m
      · rw [e]; exact hri.stamps
      · exact hri.rstamps r m
    prot := fun r hr => by
      rcases List.mem_cons.mp hr with e | m
      · rw [e]; exact fun pc hpc => Or.inl hpc
      · exact hri.prot r m
    rdisk := fun r hr => by
      rcases List.mem_cons.mp hr with e | m
      · rw [e]; exact hi.disk
      · exact hri.rdisk r m }

theorem rinv_endR {s s' : St} {t : Nat} (hri : RInv s) (h : stepAll s (.endR t) = some s') : RInv s' := by
  obtain ⟨v, hv, hvt, rfl⟩ := step_endR h
  exact { hri with
    rstamps := fun r hr => hri.rstamps r (List.mem_of_mem_erase hr)
    prot := fun r hr => hri.prot r (List.mem_of_mem_erase hr)
    rdisk := fun r hr => hri.rdisk r (List.mem_of_mem_erase hr) }

theorem rinv_beginW {s s' : St} (hi : Inv s) (hri : RInv s) (hb : s.cur.txid + 2 < maxU64)
    (h : stepAll s .beginW = some s') : RInv s' := by
  obtain ⟨hw, rfl⟩ := step_beginW h
  have hrel := releasePending_rel_safe hi.fl (by
    intro t ht
    obtain ⟨r, hr, rfl⟩ := List.mem_map.mp (hi.regs.mem_iff.mp ht)
    have := hi.rd_le r hr
    fomega)
  exact { hri with
    prot := fun r hr pc hpc => by
      rcases hri.prot r hr pc hpc with h1 | ⟨t, a, hp, h1, h2, h3⟩
      · exact Or.inl h1
      · right
        have hreg : r.txid ∈ s.fl.readers := hi.regs.mem_iff.mpr (List.mem_map.mpr ⟨r, hr, rfl⟩)
        rcases (hrel.2.1 pc.1).mpr (Or.inr hp.mem_pendingIds) with hq | hq
        · exfalso
          rcases hrel.2.2.1 pc.1 hq with h4 | ⟨t', txp, a', h4, h5, h6⟩
          · exact hi.fl.disjoint _ h4 hp.mem_pendingIds
          · obtain ⟨e1, e2⟩ := hi.fl.pent_unique hp ⟨txp, h4, h5⟩
            subst e1; subst e2
            exact h6 r.txid hreg ⟨h1, h2⟩
        · obtain ⟨t', a', hp'⟩ := mem_pendingIds.mp hq
          obtain ⟨e1, e2⟩ := hi.fl.pent_unique hp (hrel.pent hp')
          subst e1; subst e2
          exact ⟨t, a, hp', h1, h2, h3⟩
    allocs_st := fun x hx => by
      have hx : x ∈ (s.fl.releasePending).allocs := hx
      rw [releasePending_allocs] at hx
      exact hri.allocs_st x hx
    pend_st := fun q a hq => hri.pend_st q a (hrel.pent hq) }

theorem rinv_alloc {s s' : St} {n c : Nat} (hi : Inv s) (hri : RInv s)
    (h : stepAll s (.alloc n c) = some s') : RInv s' := by
  obtain ⟨w, fl', id, hw, hn, ha, h2⟩ := step_alloc h
  obtain ⟨sp1, hp, hrd, hal, sp5, sp6⟩ := allocate_spec hi.fl ha
  rcases h2 with ⟨hid, rfl⟩ | ⟨hid, rfl⟩
  · obtain ⟨hn0, hid2, hrun, hfree⟩ := sp5 hid
    exact { hri with
      prot := fun r hr pc hpc => by
        show pc ∈ s.cur.content ∨ ∃ t a, PEnt fl'.pending t pc.1 a ∧ _
        rw [hp]; exact hri.prot r hr pc hpc
      allocs_st := fun x hx st hst => by
        rcases hal x hx with h1 | h1
        · exact hri.allocs_st x h1 st hst
        · subst h1
          exact absurd (hrun id (Nat.le_refl _) (by omega)) (hi.used_free id (mem_used.mpr ⟨st, hst⟩))
      pend_st := fun q a hq => hri.pend_st q a (hp ▸ hq) }
  · have hfl := sp6 hid
    subst hfl
    exact { hri with }

theorem rinv_free {s s' : St} {id ovf : Nat} (hi : Inv s) (hri : RInv s)
    (h : stepAll s (.free id ovf) = some s') : RInv s' := by
  obtain ⟨w, fl', hw, hg, hf, rfl⟩ := step_free h
  obtain ⟨f1, hfree, hrd, hal, hpi, hpent, hkey⟩ := free_spec' hi.fl hf
  exact { hri with
    prot := fun r hr pc hpc => by
      rcases hri.prot r hr pc hpc with h1 | ⟨t, a, hp, h1⟩
      · exact Or.inl h1
      · exact Or.inr ⟨t, a, (hpent _ _ _).mpr (Or.inl hp), h1⟩
    allocs_st := fun x hx => hri.allocs_st x (hal x hx)
    pend_st := fun q a hq st hst => by
      rcases (hpent _ _ _).mp hq with h1 | ⟨_, h1, h2⟩
      · exact hri.pend_st q a h1 st hst
      · rw [h2]
        rcases lookupAlloc_cases s.fl.allocs id with h3 | h3
        · rw [h3]; exact Nat.zero_le _
        · have h4 := (hg q (mem_run.mpr h1)).2.2
          rw [stampOf_of_mem hi.used_nodup hst] at h4
          exact hri.allocs_st _ h3 st (mem_of_stampOf h4.symm) }

theorem rinv_commit {s s' : St} (hi : Inv s) (hri : RInv s) (h : stepAll s .commit = some s') : RInv s' := by
  obtain ⟨w, hw, rfl⟩ := step_commit h
  have hwt := hi.wr_tx w hw
  have hfi := hi.freed_iff
  rw [St.freed_some hw] at hfi
  have hnokey : ∀ q a, ¬ PEnt s.fl.pending (w.txid + 1) q a := by
    intro q a hp
    obtain ⟨e, he, het⟩ := hp.key
    have := hi.pend_tx e he
    fomega
  exact { hri with
    stamps := fun pc hpc => by
      show pc.2 ≤ w.txid
      rcases mem_newVersion_content.mp hpc with ⟨h1, _⟩ | ⟨_, h1⟩
      · have := hri.stamps pc h1; fomega
      · rw [h1]; exact Nat.le_refl _
    prot := fun r hr pc hpc => by
      show pc ∈ (newVersion s.cur w).content ∨ ∃ t a, PEnt s.fl.pending t pc.1 a ∧ a ≤ r.txid ∧ r.txid < t ∧ t ≤ w.txid
      rcases hri.prot r hr pc hpc with h1 | ⟨t, a, hp, h1, h2, h3⟩
      · by_cases hfr : pc.1 ∈ w.freed
        · obtain ⟨a, ha⟩ := (hfi pc.1).mp hfr
          have h4 := hri.pend_st _ _ ha pc.2 h1
          have h5 := hri.rstamps r hr pc hpc
          have h6 := hi.rd_le r hr
          exact Or.inr ⟨_, a, ha, by fomega, by fomega, by fomega⟩
        · exact Or.inl (mem_newVersion_content.mpr (Or.inl ⟨h1, hfr⟩))
      · exact Or.inr ⟨t, a, hp, h1, h2, by fomega⟩
    allocs_st := fun x hx st hst => by
      rcases mem_newVersion_content.mp hst with ⟨h1, _⟩ | ⟨_, h1⟩
      · exact hri.allocs_st x hx st h1
      · have := (hi.allocs_le x hx).1
        have h1 : st = w.txid := h1
        fomega
    pend_st := fun q a hq => absurd hq (hnokey q a)
    rdisk := fun r hr => by
      apply (hri.rdisk r hr).write
      intro p hp hpr
      rw [← St.allocated_some hw] at hp
      exact reader_page_not_allocated hi hri hr hpr hp }

theorem rinv_abort {s : St} (hi : Inv s) (hri : RInv s) {w : W} (hw : s.w = some w) {fl1 fl2 : FL}
    (hrb : s.fl.rollback w.txid = some fl1)
    (hpd : fl2.pending = fl1.pending) (hal : fl2.allocs = fl1.allocs)
    (d : List (Pgid × Nat)) (hd : ∀ r ∈ s.readers, Intact d r) :
    RInv { s with fl := fl2, w := none, disk := d } := by
  obtain ⟨_, _, r3, r4, r5, r6, r7⟩ := rollback_facts hi hw hrb
  exact { hri with
    prot := fun r hr pc hpc => by
      show pc ∈ s.cur.content ∨ ∃ t a, PEnt fl2.pending t pc.1 a ∧ _
      rw [hpd]
      rcases hri.prot r hr pc hpc with h1 | ⟨t, a, hp, h1, h2, h3⟩
      · exact Or.inl h1
      · exact Or.inr ⟨t, a, (r4 _ _ _).mpr ⟨hp, by fomega⟩, h1, h2, h3⟩
    allocs_st := fun x hx st hst => by
      have hx : x ∈ fl2.allocs := hx
      rw [hal] at hx
      rcases r7 x hx with h5 | h5
      · exact hri.allocs_st x h5 st hst
      · exact hri.pend_st _ _ h5 st hst
    pend_st := fun q a hq => by
      have hq : PEnt fl2.pending (s.cur.txid + 1) q a := hq
      rw [hpd] at hq
      exact absurd rfl ((r4 _ _ _).mp hq).2
    rdisk := hd }

theorem rinv_rollback {s s' : St} (hi : Inv s) (hri : RInv s) (h : stepAll s .rollback = some s') : RInv s' := by
  obtain ⟨w, fl', hw, hnil, hrb, rfl⟩ := step_rollback h
  exact rinv_abort hi hri hw hrb rfl rfl s.disk hri.rdisk

theorem rinv_failedCommit {s s' : St} (hi : Inv s) (hri : RInv s)
    (h : stepAll s .failedCommit = some s') : RInv s' := by
  obtain ⟨w, fl1, fl2, hw, hrb, hre, rfl⟩ := step_failedCommit h
  obtain ⟨_, i2, i3, _⟩ := init_frame (f := fl1) hre
  refine rinv_abort hi hri hw hrb i3 i2 _ ?_
  intro r hr
  apply (hri.rdisk r hr).write
  intro p hp hpr
  rw [← St.allocated_some hw] at hp
  exact reader_page_not_allocated hi hri hr hpr hp

theorem rinv_reopen {s s' : St} {k : Kind} (hri : RInv s) (h : stepAll s (.reopen k) = some s') : RInv s' := by
  obtain ⟨hw, hnr, fl, hfl, rfl⟩ := step_reopen h
  obtain ⟨_, i2, i3, _⟩ := init_frame hfl
  have hp : fl.pending = [] := i3
  have hal : fl.allocs = [] := i2
  exact { hri with
    prot := fun r hr => by
      have hr : r ∈ s.readers := hr
      rw [hnr] at hr; cases hr
    allocs_st := fun x hx => by
      have hx : x ∈ fl.allocs := hx
      rw [hal] at hx; cases hx
    pend_st := fun q a hq => by
      have hq : PEnt fl.pending (s.cur.txid + 1) q a := hq
      rw [hp] at hq
      exact absurd hq pent_nil }

theorem rinv_step {s s' : St} {e : Ev} (hi : Inv s) (hri : RInv s) (hb : s.cur.txid + 2 < maxU64)
    (h : stepAll s e = some s') : RInv s' := by
  cases e with
  | beginR => exact rinv_beginR hi hri h
  | endR t => exact rinv_endR hri h
  | beginW => exact rinv_beginW hi hri hb h
  | alloc n c => exact rinv_alloc hi hri h
  | free id ovf => exact rinv_free hi hri h
  | commit => exact rinv_commit hi hri h
  | rollback => exact rinv_rollback hi hri h
  | failedCommit => exact rinv_failedCommit hi hri h
  | reopen k => exact rinv_reopen hri h

theorem run_mono {evs : List Ev} : ∀ {s s' : St}, Inv s → runEvs s evs = some s' →
    s.cur.txid ≤ s'.cur.txid := by
  induction evs with
  | nil => intro s s' _ h; rw [runEvs_nil] at h; subst h; exact Nat.le_refl _
  | cons e es ih =>
    intro s s' hi h
    obtain ⟨s1, hs, h1⟩ := runEvs_cons.mp h
    exact Nat.le_trans (txid_mono hi hs) (ih (inv_step hi hs) h1)

theorem rinv_run {evs : List Ev} : ∀ {s s' : St}, Inv s → RInv s → runEvs s evs = some s' →
    s'.cur.txid + 2 < maxU64 → RInv s' := by
  induction evs with
  | nil => intro s s' hi hri h hb; rw [runEvs_nil] at h; subst h; exact hri
  | cons e es ih =>
    intro s s' hi hri h hb
    obtain ⟨s1, hs, h1⟩ := runEvs_cons.mp h
    have hi1 := inv_step hi hs
    have hm := txid_mono hi hs
    have hm2 := run_mono hi1 h1
    exact ih hi1 (rinv_step hi hri (by omega) hs) h1 hb

/-- every reachable state within the first `2^64 - 3` transactions satisfies reader protection -/
theorem Reachable.rinv {s : St} (hr : Reachable s) (hb : s.cur.txid + 2 < maxU64) : RInv s := by
  obtain ⟨k, evs, h⟩ := hr
  exact rinv_run (inv_init k) (rinv_init k) h hb

/-! ## Part 4 — consequences used by the property theorems -/

/-- a state whose pending entries all belong to the open writer -/
def OwnOnly (s : St) : Prop := ∀ e ∈ s.fl.pending, e.1 = s.cur.txid + 1

theorem ownOnly_run {evs : List Ev}
    (hevs : ∀ e ∈ evs, (∃ n c, e = .alloc n c) ∨ (∃ i o, e = .free i o)) :
    ∀ {s s' : St}, Inv s → OwnOnly s → runEvs s evs = some s' → OwnOnly s' := by
  induction evs with
  | nil => intro s s' _ ho h; rw [runEvs_nil] at h; subst h; exact ho
  | cons e es ih =>
    intro s s' hi ho h
    obtain ⟨s1, hs, h1⟩ := runEvs_cons.mp h
    refine ih (fun e he => hevs e (List.mem_cons_of_mem _ he)) (inv_step hi hs) ?_ h1
    rcases hevs e (by simp) with ⟨n, c, rfl⟩ | ⟨i, o, rfl⟩
    · obtain ⟨w, fl', id, hw, _, ha, h2⟩ := step_alloc hs
      have hp := (allocate_spec hi.fl ha).2.1
      intro e he
      rcases h2 with ⟨_, rfl⟩ | ⟨_, rfl⟩
      · exact ho e (hp ▸ he)
      · exact ho e (hp ▸ he)
    · obtain ⟨w, fl', hw, _, hf, rfl⟩ := step_free hs
      obtain ⟨_, _, rfl⟩ := free_some hf
      intro e he
      rcases addPending_key _ _ _ e he with h3 | ⟨e', he', h3⟩
      · rw [h3]; exact hi.wr_tx w hw
      · rw [← h3]; exact ho e' he'

/-- `beginW` with no reader open releases everything -/
theorem beginW_no_readers {s s' : St} (hi : Inv s) (hb : s.cur.txid + 2 < maxU64) (hnr : s.readers = [])
    (h : stepAll s .beginW = some s') :
    s'.fl.pending = [] ∧ ∀ p, p ∈ s'.fl.freeIds ↔ (p ∈ s.fl.freeIds ∨ p ∈ s.fl.pendingIds) := by
  rw [(step_beginW h).2]
  apply releasePending_live hi.fl
  · have := hi.regs.length_eq
    rw [hnr] at this
    exact List.eq_nil_of_length_eq_zero this
  · intro e he
    have := hi.pend_tx e he
    fomega

/-- the failure path never gets stuck -/
theorem failedCommit_enabled {s : St} (hi : Inv s) {w : W} (hw : s.w = some w) :
    (stepAll s .failedCommit).isSome = true := by
  have hwt := hi.wr_tx w hw
  have h1 : (s.fl.rollback w.txid).isSome = true := by
    apply rollback_isSome
    intro q a hp
    rw [hwt] at hp
    have := hi.pend_atx q a hp
    fomega
  obtain ⟨fl1, hfl1⟩ := Option.isSome_iff_exists.mp h1
  have hs : ((freshFree s.cur).filter (fun id => !fl1.pendingIds.contains id)).Pairwise (· < ·) :=
    List.Pairwise.filter _ (freshFree_sorted s.cur)
  obtain ⟨fl2, hfl2, _⟩ := init_freeIds hs fl1
  have h2 : fl1.noSyncReload (freshFree s.cur) = some fl2 := hfl2
  unfold freshFree at h2
  simp only [stepAll, step, hw, hfl1, h2]
  rfl

/-! ## Non-vacuity -/

/-- a concrete non-trivial reachable state (a reader open on an old version, pending pages of
    two transactions, a writer with allocations) — the hypotheses of the property theorems
    are satisfiable -/
def demoTrace : List Ev :=
  [.beginW, .alloc 1 0, .free 3 0, .commit, .beginR, .beginW, .alloc 2 0, .free 4 0, .commit,
   .beginW, .alloc 1 0]

example : ∃ s, Reachable s ∧ s.cur.txid + 2 < maxU64 ∧ s.readers.length = 1 ∧ s.w.isSome = true ∧
    s.fl.pendingIds.length = 2 := by
  have h : (runEvs (init .hashmap) demoTrace).any (fun s =>
      decide (s.cur.txid + 2 < maxU64) && decide (s.readers.length = 1) && s.w.isSome &&
      decide (s.fl.pendingIds.length = 2)) = true := by decide
  cases hs : runEvs (init .hashmap) demoTrace with
  | none => rw [hs] at h; cases h
  | some s =>
  rw [hs] at h
  have hp : (decide (s.cur.txid + 2 < maxU64) && decide (s.readers.length = 1) && s.w.isSome &&
      decide (s.fl.pendingIds.length = 2)) = true := h
  simp only [Bool.and_eq_true, decide_eq_true_eq] at hp
  exact ⟨s, ⟨.hashmap, demoTrace, hs⟩, hp.1.1.1, hp.1.1.2, hp.1.2, hp.2⟩

end Bolt.Store
