/-
Invariant of the transaction/version protocol model (`Model/Store.lean`) and its
preservation.  Property theorems that follow from it are in Props/C01, C02, C06, C07,
C08, C10, C20.
-/
import Bolt.Model.Store
import Bolt.Lemmas.Freelist
namespace Bolt.Store
open Bolt.FL

/-- states reachable from a freshly initialised database by any event sequence the
    model accepts (the harness checks that every real trace is accepted) -/
def Reachable (s : St) : Prop := ∃ k evs, runEvs (init k) evs = some s

end Bolt.Store
