/-
Helper lemmas for C16 (`DB.Batch`): `runFns`, `swapRemove`, and the reachability invariant.
-/
import Bolt.Model.Batch
namespace Bolt.Batch

/-! ### `runFns` -/

/-- a failing index returned by `runFns` points at a call of the list whose function did
    not return nil on the invocation just made -/
theorem runFns_some (script : Id → Nat → Outcome) :
    ∀ (l : List Id) (inv : Id → Nat) (k i : Nat) (inv' : Id → Nat),
      runFns script l inv k = (some i, inv') →
      ∃ j c n, i = k + j ∧ l[j]? = some c ∧ script c n ≠ .ok
  | [], inv, k, i, inv', h => by simp [runFns] at h
  | c :: rest, inv, k, i, inv', h => by
    unfold runFns at h
    by_cases hc : script c (inv c) = .ok
    · simp only [hc, if_true] at h
      obtain ⟨j, c', n, hi, hj, hn⟩ := runFns_some script rest _ _ _ _ h
      exact ⟨j + 1, c', n, by omega, by simpa using hj, hn⟩
    · simp only [hc, if_false] at h
      refine ⟨0, c, inv c, ?_, by simp, hc⟩
      have := congrArg Prod.fst h
      simp at this
      omega

/-- if `runFns` reports no failure, every function of the list returned nil -/
theorem runFns_none (script : Id → Nat → Outcome) :
    ∀ (l : List Id) (inv : Id → Nat) (k : Nat) (inv' : Id → Nat),
      runFns script l inv k = (none, inv') → ∀ c ∈ l, ∃ n, script c n = .ok
  | [], _, _, _, _ => by simp
  | c :: rest, inv, k, inv', h => by
    unfold runFns at h
    by_cases hc : script c (inv c) = .ok
    · simp only [hc, if_true] at h
      intro x hx
      rcases List.mem_cons.1 hx with rfl | hx
      · exact ⟨_, hc⟩
      · exact runFns_none script rest _ _ _ h x hx
    · simp only [hc, if_false] at h
      have := congrArg Prod.fst h
      simp at this

/-! ### `swapRemove` -/

theorem swapRemove_cons_succ (a : Id) (t : List Id) (j : Nat) (ht : t ≠ []) :
    swapRemove (a :: t) (j + 1) = a :: swapRemove t j := by
  obtain ⟨b, t', rfl⟩ := List.exists_cons_of_ne_nil ht
  simp only [swapRemove, List.getLast?_cons_cons]
  cases hl : (b :: t').getLast? with
  | none => simp at hl
  | some last =>
    simp only [List.set_cons_succ]
    cases hs : (b :: t').set j last with
    | nil => simp at hs
    | cons x xs => simp [List.dropLast]

/-- removing the `i`-th call by `swapRemove` removes exactly that call (up to order) -/
theorem swapRemove_perm : ∀ (l : List Id) (i : Nat) (c : Id), l[i]? = some c →
    (c :: swapRemove l i).Perm l
  | [], i, c, h => by simp at h
  | [a], 0, c, h => by
    simp at h; subst h; simp [swapRemove]
  | [a], j + 1, c, h => by simp at h
  | a :: b :: t, 0, c, h => by
    simp at h; subst h
    have hne : (b :: t) ≠ [] := by simp
    have hl : (a :: b :: t).getLast? = some ((b :: t).getLast hne) := by
      rw [List.getLast?_cons_cons, List.getLast?_eq_some_getLast hne]
    simp only [swapRemove, hl, List.set_cons_zero]
    refine List.Perm.cons _ ?_
    have : ((b :: t).getLast hne :: b :: t).dropLast = (b :: t).getLast hne :: (b :: t).dropLast := by
      simp [List.dropLast]
    rw [this]
    have h2 : (b :: t).dropLast ++ [(b :: t).getLast hne] = b :: t := List.dropLast_concat_getLast hne
    calc ((b :: t).getLast hne :: (b :: t).dropLast).Perm ((b :: t).dropLast ++ [(b :: t).getLast hne]) :=
          (List.perm_append_singleton _ _).symm
      _ = b :: t := h2
  | a :: b :: t, j + 1, c, h => by
    have h' : (b :: t)[j]? = some c := by simpa using h
    rw [swapRemove_cons_succ a (b :: t) j (by simp)]
    exact (List.Perm.swap a c _).trans (List.Perm.cons a (swapRemove_perm (b :: t) j c h'))

theorem swapRemove_length (l : List Id) (i : Nat) (hl : l ≠ []) :
    (swapRemove l i).length + 1 = l.length := by
  unfold swapRemove
  rw [List.getLast?_eq_some_getLast hl]
  simp
  have : 0 < l.length := List.length_pos_iff.2 hl
  omega

/-! ### the invariant -/

structure Inv (calls : List Id) (s : St) : Prop where
  qnd : s.queue.Nodup
  snd : s.solo.Nodup
  disj : ∀ c, c ∈ s.queue → c ∉ s.solo
  qres : ∀ c, c ∈ s.queue → s.result c = none
  sres : ∀ c, c ∈ s.solo → s.result c = none
  cover : ∀ c, c ∈ calls → c ∈ s.queue ∨ c ∈ s.solo ∨ s.result c ≠ none
  app : ∀ c, (s.result c = some .nil → s.applied c = 1) ∧ (s.result c ≠ some .nil → s.applied c = 0)

theorem inv_start (calls : List Id) (hnd : calls.Nodup) : Inv calls (start calls) where
  qnd := hnd
  snd := by simp [start]
  disj := by simp [start]
  qres := by simp [start]
  sres := by simp [start]
  cover := by intro c hc; exact Or.inl hc
  app := by simp [start]

theorem inv_batch (script : Id → Nat → Outcome) (calls : List Id) (commitOk : Bool) (s : St)
    (I : Inv calls s) : Inv calls (batchAttempt script commitOk s) := by
  unfold batchAttempt
  by_cases hq : s.queue = []
  · simp only [hq, if_true]; exact I
  simp only [hq, if_false]
  rcases hr : runFns script s.queue s.inv 0 with ⟨_ | i, inv'⟩
  · -- no failure
    cases commitOk
    · simp only [Bool.false_eq_true, if_false]
      refine ⟨by simp, I.snd, by simp, by simp, ?_, ?_, ?_⟩
      · intro c hc
        have : c ∉ s.queue := fun h => I.disj c h hc
        simp [this, I.sres c hc]
      · intro c hc
        rcases I.cover c hc with h | h | h
        · right; right; simp [h]
        · right; left; exact h
        · right; right
          by_cases hcq : c ∈ s.queue
          · simp [hcq]
          · simpa [hcq] using h
      · intro c
        by_cases hcq : c ∈ s.queue
        · have := I.qres c hcq
          have := I.app c
          simp_all
        · simpa [hcq] using I.app c
    · simp only [if_true]
      refine ⟨by simp, I.snd, by simp, by simp, ?_, ?_, ?_⟩
      · intro c hc
        have : c ∉ s.queue := fun h => I.disj c h hc
        simp [this, I.sres c hc]
      · intro c hc
        rcases I.cover c hc with h | h | h
        · right; right; simp [h]
        · right; left; exact h
        · right; right
          by_cases hcq : c ∈ s.queue
          · simp [hcq]
          · simpa [hcq] using h
      · intro c
        by_cases hcq : c ∈ s.queue
        · have := I.qres c hcq
          have := I.app c
          simp_all
        · simpa [hcq] using I.app c
  · -- call `i` failed
    obtain ⟨j, c, n, hij, hj, -⟩ := runFns_some script _ _ _ _ _ hr
    have hi : s.queue[i]? = some c := by
      have : i = j := by omega
      rw [this]; exact hj
    simp only [hi]
    have hperm := swapRemove_perm s.queue i c hi
    have hnd : (c :: swapRemove s.queue i).Nodup := hperm.nodup_iff.2 I.qnd
    have hmem : ∀ x, x ∈ s.queue ↔ x = c ∨ x ∈ swapRemove s.queue i := by
      intro x; rw [← hperm.mem_iff]; simp
    have hcq : c ∈ s.queue := (hmem c).2 (Or.inl rfl)
    have hcn : c ∉ swapRemove s.queue i := (List.nodup_cons.1 hnd).1
    refine ⟨(List.nodup_cons.1 hnd).2, ?_, ?_, ?_, ?_, ?_, I.app⟩
    · exact List.nodup_cons.2 ⟨I.disj c hcq, I.snd⟩
    · intro x hx hs
      rcases List.mem_cons.1 hs with rfl | hs
      · exact hcn hx
      · exact I.disj x ((hmem x).2 (Or.inr hx)) hs
    · intro x hx; exact I.qres x ((hmem x).2 (Or.inr hx))
    · intro x hx
      rcases List.mem_cons.1 hx with rfl | hx
      · exact I.qres _ hcq
      · exact I.sres x hx
    · intro x hx
      rcases I.cover x hx with h | h | h
      · rcases (hmem x).1 h with rfl | h
        · right; left; exact List.mem_cons_self
        · left; exact h
      · right; left; exact List.mem_cons_of_mem _ h
      · right; right; exact h

theorem inv_solo (script : Id → Nat → Outcome) (calls : List Id) (commitOk : Bool) (c : Id) (s : St)
    (I : Inv calls s) : Inv calls (soloAttempt script commitOk c s) := by
  unfold soloAttempt
  by_cases hc : c ∉ s.solo
  · simp only [hc, not_false_eq_true, if_true]; exact I
  simp only [hc, if_false]
  have hc : c ∈ s.solo := Classical.not_not.1 hc
  have hcs : c ∉ s.solo.erase c := fun h => (List.Nodup.mem_erase_iff I.snd).1 h |>.1 rfl
  have hcq : c ∉ s.queue := fun h => I.disj c h hc
  have hrc := I.sres c hc
  have happ := (I.app c).2 (by simp [hrc])
  have hsub : ∀ x, x ∈ s.solo.erase c → x ∈ s.solo := fun x hx => List.mem_of_mem_erase hx
  have hcov : ∀ r x, x ∈ calls → x ∈ s.queue ∨ x ∈ s.solo.erase c ∨ setRes s.result c r x ≠ none := by
    intro r x hx
    by_cases hxc : x = c
    · right; right; simp [setRes, hxc]
    rcases I.cover x hx with h | h | h
    · left; exact h
    · right; left; exact (List.mem_erase_of_ne hxc).2 h
    · right; right; simpa [setRes, hxc] using h
  have hq : ∀ r x, x ∈ s.queue → setRes s.result c r x = none := by
    intro r x hx
    have : x ≠ c := fun h => hcq (h ▸ hx)
    simpa [setRes, this] using I.qres x hx
  have hs : ∀ r x, x ∈ s.solo.erase c → setRes s.result c r x = none := by
    intro r x hx
    have : x ≠ c := fun h => hcs (h ▸ hx)
    simpa [setRes, this] using I.sres x (hsub x hx)
  split
  · refine ⟨I.qnd, I.snd.erase c, fun x hx h => I.disj x hx (hsub x h), hq _, hs _, hcov _, ?_⟩
    intro x
    by_cases hxc : x = c
    · subst hxc; simp [setRes, bump, happ]
    · simpa [setRes, bump, hxc] using I.app x
  · refine ⟨I.qnd, I.snd.erase c, fun x hx h => I.disj x hx (hsub x h), hq _, hs _, hcov _, ?_⟩
    intro x
    by_cases hxc : x = c
    · subst hxc; simp [setRes, happ]
    · simpa [setRes, hxc] using I.app x

theorem inv_reach (script : Id → Nat → Outcome) (calls : List Id) (hnd : calls.Nodup)
    (s : St) (h : Reach script (start calls) s) : Inv calls s := by
  induction h with
  | refl => exact inv_start calls hnd
  | step _ hs ih =>
    cases hs with
    | batch commitOk => exact inv_batch script calls commitOk _ ih
    | solo commitOk c => exact inv_solo script calls commitOk c _ ih

theorem reach_of_reachOk (script : Id → Nat → Outcome) (s0 s : St) (h : ReachOk script s0 s) :
    Reach script s0 s := by
  induction h with
  | refl => exact .refl
  | batch _ ih => exact .step ih (.batch _ true)
  | solo c _ ih => exact .step ih (.solo _ true c)

/-! ### who is sent to a solo retry, who is answered what -/

theorem batch_solo_mem (script : Id → Nat → Outcome) (commitOk : Bool) (s : St) (x : Id)
    (hx : x ∈ (batchAttempt script commitOk s).solo) : x ∈ s.solo ∨ ∃ n, script x n ≠ .ok := by
  unfold batchAttempt at hx
  by_cases hq : s.queue = []
  · simp only [hq, if_true] at hx; exact Or.inl hx
  simp only [hq, if_false] at hx
  rcases hr : runFns script s.queue s.inv 0 with ⟨_ | i, inv'⟩
  · rw [hr] at hx
    cases commitOk <;> exact Or.inl hx
  · rw [hr] at hx
    obtain ⟨j, c, n, hij, hj, hn⟩ := runFns_some script _ _ _ _ _ hr
    have hi : s.queue[i]? = some c := by
      have : i = j := by omega
      rw [this]; exact hj
    simp only [hi] at hx
    rcases List.mem_cons.1 hx with rfl | hx
    · exact Or.inr ⟨n, hn⟩
    · exact Or.inl hx

theorem solo_solo_mem (script : Id → Nat → Outcome) (commitOk : Bool) (c : Id) (s : St) (x : Id)
    (hx : x ∈ (soloAttempt script commitOk c s).solo) : x ∈ s.solo := by
  unfold soloAttempt at hx
  by_cases hc : c ∉ s.solo
  · simpa only [hc, not_false_eq_true, if_true] using hx
  simp only [hc, if_false] at hx
  split at hx <;> exact List.mem_of_mem_erase hx

theorem batch_result_nil (script : Id → Nat → Outcome) (commitOk : Bool) (s : St) (x : Id)
    (hx : (batchAttempt script commitOk s).result x = some .nil) :
    s.result x = some .nil ∨ ∃ n, script x n = .ok := by
  unfold batchAttempt at hx
  by_cases hq : s.queue = []
  · simp only [hq, if_true] at hx; exact Or.inl hx
  simp only [hq, if_false] at hx
  rcases hr : runFns script s.queue s.inv 0 with ⟨_ | i, inv'⟩
  · rw [hr] at hx
    by_cases hxq : x ∈ s.queue
    · exact Or.inr (runFns_none script _ _ _ _ hr x hxq)
    · cases commitOk <;> simp [hxq] at hx <;> exact Or.inl hx
  · rw [hr] at hx
    cases hi : s.queue[i]? <;> simp only [hi] at hx <;> exact Or.inl hx

theorem solo_result_nil (script : Id → Nat → Outcome) (commitOk : Bool) (c : Id) (s : St) (x : Id)
    (hx : (soloAttempt script commitOk c s).result x = some .nil) :
    s.result x = some .nil ∨ ∃ n, script x n = .ok := by
  unfold soloAttempt at hx
  by_cases hc : c ∉ s.solo
  · simp only [hc, not_false_eq_true, if_true] at hx; exact Or.inl hx
  simp only [hc, if_false] at hx
  split at hx
  next h =>
    by_cases hxc : x = c
    · subst hxc; exact Or.inr ⟨_, h.1⟩
    · simp [setRes, hxc] at hx; exact Or.inl hx
  next h =>
    by_cases hxc : x = c
    · simp [setRes, hxc] at hx
    · simp [setRes, hxc] at hx; exact Or.inl hx

theorem batch_result_err_ok (script : Id → Nat → Outcome) (s : St) (x : Id)
    (hx : (batchAttempt script true s).result x = some .err) : s.result x = some .err := by
  unfold batchAttempt at hx
  by_cases hq : s.queue = []
  · simpa only [hq, if_true] using hx
  simp only [hq, if_false] at hx
  rcases hr : runFns script s.queue s.inv 0 with ⟨_ | i, inv'⟩
  · rw [hr] at hx
    by_cases hxq : x ∈ s.queue
    · simp [hxq] at hx
    · simpa [hxq] using hx
  · rw [hr] at hx
    cases hi : s.queue[i]? <;> simp only [hi] at hx <;> exact hx

theorem solo_result_err_ok (script : Id → Nat → Outcome) (c : Id) (s : St) (x : Id)
    (hx : (soloAttempt script true c s).result x = some .err) :
    s.result x = some .err ∨ (x ∈ s.solo ∧ ∃ n, script x n ≠ .ok) := by
  unfold soloAttempt at hx
  by_cases hc : c ∉ s.solo
  · simp only [hc, not_false_eq_true, if_true] at hx; exact Or.inl hx
  simp only [hc, if_false] at hx
  split at hx
  next h =>
    by_cases hxc : x = c
    · simp [setRes, hxc] at hx
    · simp [setRes, hxc] at hx; exact Or.inl hx
  next h =>
    by_cases hxc : x = c
    · subst hxc
      refine Or.inr ⟨Classical.not_not.1 hc, _, fun hok => h ⟨hok, trivial⟩⟩
    · simp [setRes, hxc] at hx; exact Or.inl hx

end Bolt.Batch
