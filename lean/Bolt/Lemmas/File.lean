import Bolt.Model.Meta
namespace Bolt

theorem File.read_succ (f : File) (off n : Nat) :
    f.read off (n+1) = f.get off :: f.read (off+1) n := by
  simp only [File.read, List.range_succ_eq_map, List.map_cons, List.map_map, Nat.add_zero]
  congr 1
  apply List.map_congr_left
  intro a _
  simp only [Function.comp]
  congr 1
  omega

theorem File.read_split (f : File) (off n k : Nat) (hk : k < n) :
    f.read off n = f.read off k ++ f.get (off + k) :: f.read (off + k + 1) (n - k - 1) := by
  induction k generalizing off n with
  | zero =>
    obtain ⟨m, rfl⟩ : ∃ m, n = m + 1 := ⟨n - 1, by omega⟩
    rw [File.read_succ]
    simp [File.read]
  | succ k ih =>
    obtain ⟨m, rfl⟩ : ∃ m, n = m + 1 := ⟨n - 1, by omega⟩
    rw [File.read_succ, File.read_succ f off k, ih (off+1) m (by omega)]
    simp only [List.cons_append]
    have e1 : off + 1 + k = off + (k + 1) := by omega
    have e2 : m - k - 1 = m + 1 - (k + 1) - 1 := by omega
    rw [e1, e2]

theorem File.read_set_outside (f : File) (p : Nat) (v : UInt8) (off n : Nat)
    (h : p < off ∨ off + n ≤ p) : (f.set p v).read off n = f.read off n := by
  simp only [File.read, File.set]
  apply List.map_congr_left
  intro a ha
  have := List.mem_range.mp ha
  have : off + a ≠ p := by omega
  simp [this]

@[simp] theorem File.set_get_self (f : File) (p : Nat) (v : UInt8) : (f.set p v).get p = v := by
  simp [File.set]

@[simp] theorem File.set_size (f : File) (p : Nat) (v : UInt8) : (f.set p v).size = f.size := rfl

/-- Reading a window that contains the overwritten byte. -/
theorem File.read_set_inside (f : File) (v : UInt8) (off n k : Nat) (hk : k < n) :
    (f.set (off + k) v).read off n
      = f.read off k ++ v :: f.read (off + k + 1) (n - k - 1) := by
  rw [File.read_split _ off n k hk, File.read_set_outside _ _ _ off k (by omega),
      File.read_set_outside _ _ _ (off+k+1) (n-k-1) (by omega), File.set_get_self]

/-- A window containing an overwritten byte (with a different value) changes. -/
theorem File.read_set_ne (f : File) (v : UInt8) (off n k : Nat) (hk : k < n)
    (hv : v ≠ f.get (off + k)) : (f.set (off + k) v).read off n ≠ f.read off n := by
  rw [File.read_set_inside f v off n k hk, File.read_split f off n k hk]
  intro h
  have := List.append_cancel_left h
  simp at this
  exact hv this

theorem getLE_ne_of_ne {a b : Bytes} (hl : a.length = b.length) (h : a ≠ b) : getLE a ≠ getLE b :=
  fun he => h (getLE_inj a b hl he)

end Bolt
