import Bolt.Lemmas.BktRoot
import Bolt.Lemmas.BktMove
namespace Bolt.Bkt.BktHistoryL
open Bolt Bolt.BTree Bolt.Bkt

end Bolt.Bkt.BktHistoryL
