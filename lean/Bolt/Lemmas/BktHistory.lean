/-
Helpers for `Props/C04History`: the content (`absBk`) of a start-of-transaction bucket
(`origOkG`) is the same for EVERY fuel that covers the bucket NESTING (`nestOk`) — `absBk` recurses
along the nesting only, it never descends into a tree, so the `depth t ≤ f` clauses of `origOkG`
play no role for it.
-/
import Bolt.Lemmas.BktRoot
import Bolt.Lemmas.BktMove
namespace Bolt.Bkt.BktHistoryL
open Bolt Bolt.BTree Bolt.Bkt Bolt.Bkt.BktCommitL

/-- the fuel `f` covers the nesting of the (attached) sub-buckets of `b`: one unit per level -/
def nestOk : Nat → Bk → Bool
  | 0, _ => false
  | f+1, .mk _ _ _ o => o.all (fun p => nestOk f p.2)

theorem nestOk_zero (b : Bk) : nestOk 0 b = false := by
  cases b; rfl

theorem nestOk_succ (f r s : Nat) (t : N) (o : List (Bytes × Bk)) :
    nestOk (f+1) (.mk r s t o) = true ↔ ∀ p ∈ o, nestOk f p.2 = true := by
  rw [nestOk]
  simp only [List.all_eq_true]

/-- `origOkG` covers the nesting -/
theorem nestOk_of_origOkG (ids : Bool) : ∀ (f : Nat) (b : Bk), origOkG ids f b = true → nestOk f b = true
  | 0, b, h => by rw [origOkG_zero] at h; cases h
  | f+1, .mk r s t o, h => by
    obtain ⟨_, _, _, _, h5⟩ := (origOkG_succ ..).mp h
    rw [nestOk_succ]
    intro p hp
    exact nestOk_of_origOkG ids f p.2 (h5 p hp)

theorem nestOk_mono : ∀ (f : Nat) (b : Bk), nestOk f b = true → ∀ f', f ≤ f' → nestOk f' b = true
  | 0, b, h, _, _ => by rw [nestOk_zero] at h; cases h
  | f+1, .mk r s t o, h, 0, hle => by omega
  | f+1, .mk r s t o, h, f'+1, hle => by
    rw [nestOk_succ] at h ⊢
    intro p hp
    exact nestOk_mono f p.2 (h p hp) f' (by omega)

/-- the content of a start-of-transaction bucket is the same for every fuel covering its nesting
    (smaller or larger than the fuel of `origOkG`), for every `orig` and path -/
theorem absBk_nest (ids : Bool) : ∀ (f : Nat) (c : Bk), origOkG ids f c = true → ∀ F', nestOk F' c = true →
    ∀ (X : Bk) (p : List Bytes), absBk X F' p c = absBk c f [] c
  | 0, c, h, _, _, _, _ => by rw [origOkG_zero] at h; cases h
  | f+1, .mk r s t o, h, 0, hn, _, _ => by rw [nestOk_zero] at hn; cases hn
  | f+1, .mk r s t o, h, F'+1, hn, X, p => by
    obtain ⟨_, _, _, h4, h5⟩ := (origOkG_succ ..).mp h
    rw [nestOk_succ] at hn
    rw [absBk_succ, absBk_succ]
    congr 1
    apply List.map_congr_left
    intro x hx
    by_cases hb : x.2.1 = true
    · rw [if_pos hb, if_pos hb]
      have hnm : x.1 ∈ bucketNames t := by rw [bucketNames_nf]; exact mem_namesOf hx hb
      have hs : (lookupBk x.1 o).isSome = true := by rw [lookupBk_isSome_iff, h4]; exact hnm
      obtain ⟨c', hc'⟩ := Option.isSome_iff_exists.mp hs
      have hm := lookupBk_mem hc'
      have h0 := h5 _ hm
      have e1 : childAbs X F' p (Bk.mk r s t o).opened x.1 = absBk X F' (p ++ [x.1]) c' := childAbs_some hc'
      have e2 : childAbs (Bk.mk r s t o) f [] (Bk.mk r s t o).opened x.1 =
          absBk (Bk.mk r s t o) f ([] ++ [x.1]) c' := childAbs_some hc'
      rw [e1, e2, absBk_nest ids f c' h0 F' (hn _ hm) X (p ++ [x.1]),
        absBk_nest ids f c' h0 f (nestOk_of_origOkG ids f c' h0) (Bk.mk r s t o) ([] ++ [x.1])]
    · rw [if_neg hb, if_neg hb]

/-- two fuels covering the nesting give the same content -/
theorem absBk_nest2 (ids : Bool) (f : Nat) (c : Bk) (h : origOkG ids f c = true) (F1 F2 : Nat)
    (h1 : nestOk F1 c = true) (h2 : nestOk F2 c = true) (X Y : Bk) (p q : List Bytes) :
    absBk X F1 p c = absBk Y F2 q c := by
  rw [absBk_nest ids f c h F1 h1 X p, absBk_nest ids f c h F2 h2 Y q]

/-- `origOk` (distinct page ids) implies `origShapeOk` -/
theorem shape_of_origOk (f : Nat) (b : Bk) (h : origOk f b = true) : origShapeOk f b = true :=
  origOkG_mono true f b h f (Nat.le_refl _)

end Bolt.Bkt.BktHistoryL
