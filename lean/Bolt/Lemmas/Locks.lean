/-
Helper lemmas for C03 (lock discipline): which locks a goroutine holds is a function of its
*remaining* program; a per-suffix table checked by `decide`; the reachability invariant.
-/
import Bolt.Model.Locks
namespace Bolt.Locks

/-! ### what a goroutine holds, read off its remaining program

A goroutine holds lock `X` iff the first `X`-action of its remaining program is the unlock. -/

/-- the first action among `lk`, `ul` in the list is `ul` -/
def firstIs (lk ul : Act) : List Act → Bool
  | [] => false
  | a :: r => if a = ul then true else if a = lk then false else firstIs lk ul r

abbrev hRw := firstIs .lockRw .unlockRw
abbrev hMt := firstIs .lockMeta .unlockMeta
abbrev hStat := firstIs .lockStat .unlockStat
abbrev hMmapW := firstIs .lockMmap .unlockMmap
abbrev hR := firstIs .rlockMmap .runlockMmap
abbrev hTx := firstIs .setRwtx .clearRwtx

/-- remaining program of goroutine `i` (`[]` for an index that is no goroutine) -/
def P (s : St) (i : Nat) : List Act := (s.progs[i]?).getD []

/-- `r` is a suffix of one of the programs -/
def Good (r : List Act) : Prop := ∃ p ∈ programs, r <:+ p

theorem good_nil : Good [] := ⟨stats, by simp [programs], List.nil_suffix⟩

theorem good_tail {a : Act} {r : List Act} (h : Good (a :: r)) : Good r := by
  obtain ⟨p, hp, hs⟩ := h
  exact ⟨p, hp, (List.suffix_cons a r).trans hs⟩

/-- all suffixes of a list (core Lean has no `List.tails`) -/
def tails : List Act → List (List Act)
  | [] => [[]]
  | a :: r => (a :: r) :: tails r

theorem mem_tails : ∀ (p r : List Act), r ∈ tails p ↔ r <:+ p
  | [], r => by simp [tails]
  | a :: p, r => by
    simp only [tails, List.mem_cons, List.suffix_cons_iff]
    rw [mem_tails p r]

/-- lift a decidable per-suffix check from the finite table to every `Good` suffix -/
theorem good_of_check (chk : List Act → Prop) (h : ∀ p ∈ programs, ∀ r ∈ tails p, chk r)
    (r : List Act) (hg : Good r) : chk r := by
  obtain ⟨p, hp, hs⟩ := hg
  exact h p hp r ((mem_tails _ _).2 hs)

/-- after `lk` the lock is held, after `ul` it is not -/
def chkLock (lk ul : Act) (r : List Act) : Prop :=
  (r.head? = some lk → firstIs lk ul r.tail = true) ∧ (r.head? = some ul → firstIs lk ul r.tail = false)

instance (lk ul : Act) (r : List Act) : Decidable (chkLock lk ul r) := by
  unfold chkLock; infer_instance

theorem tbl_rw : ∀ p ∈ programs, ∀ r ∈ tails p, chkLock .lockRw .unlockRw r := by decide
theorem tbl_mt : ∀ p ∈ programs, ∀ r ∈ tails p, chkLock .lockMeta .unlockMeta r := by decide
theorem tbl_stat : ∀ p ∈ programs, ∀ r ∈ tails p, chkLock .lockStat .unlockStat r := by decide
theorem tbl_mmapW : ∀ p ∈ programs, ∀ r ∈ tails p, chkLock .lockMmap .unlockMmap r := by decide
theorem tbl_R : ∀ p ∈ programs, ∀ r ∈ tails p, chkLock .rlockMmap .runlockMmap r := by decide
theorem tbl_tx : ∀ p ∈ programs, ∀ r ∈ tails p, chkLock .setRwtx .clearRwtx r := by decide

/-- `db.rwtx` is only set inside the `rwlock` critical section -/
theorem tbl_tx_rw : ∀ p ∈ programs, ∀ r ∈ tails p, hTx r = true → hRw r = true := by decide
/-- `statlock` is a leaf: its holder's next action is the unlock -/
theorem tbl_stat_head : ∀ p ∈ programs, ∀ r ∈ tails p, hStat r = true → r.head? = some .unlockStat := by decide
/-- the exclusive holder of `mmaplock` releases it next -/
theorem tbl_mmapW_head : ∀ p ∈ programs, ∀ r ∈ tails p, hMmapW r = true → r.head? = some .unlockMmap := by decide
/-- a shared holder of `mmaplock` never waits for `rwlock`, `metalock` or `mmaplock` -/
theorem tbl_R_head : ∀ p ∈ programs, ∀ r ∈ tails p, hR r = true →
    r.head? ≠ some .lockRw ∧ r.head? ≠ some .lockMeta ∧ r.head? ≠ some .lockMmap := by decide
/-- the holder of `metalock` never waits for `rwlock` -/
theorem tbl_mt_head : ∀ p ∈ programs, ∀ r ∈ tails p, hMt r = true → r.head? ≠ some .lockRw := by decide

theorem lock_after {lk ul : Act} (tbl : ∀ p ∈ programs, ∀ r ∈ tails p, chkLock lk ul r)
    {rest : List Act} (hg : Good (lk :: rest)) : firstIs lk ul rest = true :=
  (good_of_check _ tbl _ hg).1 rfl

theorem unlock_after {lk ul : Act} (tbl : ∀ p ∈ programs, ∀ r ∈ tails p, chkLock lk ul r)
    {rest : List Act} (hg : Good (ul :: rest)) : firstIs lk ul rest = false :=
  (good_of_check _ tbl _ hg).2 rfl

/-! ### generic preservation of "holder ↔ suffix" clauses -/

section
variable {h : List Act → Bool} {Pold Pnew : Nat → List Act} {i : Nat} {a : Act} {rest : List Act}

theorem iff_unch {Q : Nat → Prop}
    (hP : ∀ j, Pnew j = if j = i then rest else Pold j) (hi : Pold i = a :: rest)
    (hh : h (a :: rest) = h rest) (old : ∀ j, Q j ↔ h (Pold j) = true) :
    ∀ j, Q j ↔ h (Pnew j) = true := by
  intro j
  rw [hP j]
  by_cases hj : j = i
  · subst hj; simp only [if_true]; rw [← hh, ← hi]; exact old j
  · simp only [hj, if_false]; exact old j

theorem imp_unch {Q : Nat → Prop}
    (hP : ∀ j, Pnew j = if j = i then rest else Pold j) (hi : Pold i = a :: rest)
    (hh : h (a :: rest) = h rest) (old : ∀ j, Q j → h (Pold j) = true) :
    ∀ j, Q j → h (Pnew j) = true := by
  intro j
  rw [hP j]
  by_cases hj : j = i
  · subst hj; simp only [if_true]; rw [← hh, ← hi]; exact old j
  · simp only [hj, if_false]; exact old j

theorem excl_lock {v v' : Option Nat}
    (hP : ∀ j, Pnew j = if j = i then rest else Pold j)
    (hv : v = none) (hv' : v' = some i) (hr : h rest = true)
    (old : ∀ j, v = some j ↔ h (Pold j) = true) :
    ∀ j, v' = some j ↔ h (Pnew j) = true := by
  intro j
  rw [hP j, hv']
  by_cases hj : j = i
  · subst hj; simp [hr]
  · simp only [hj, if_false]
    have := old j
    rw [hv] at this
    constructor
    · intro e; exact absurd (Option.some.inj e).symm hj
    · intro e; exact absurd (this.2 e) (by simp)

theorem excl_unlock {v v' : Option Nat}
    (hP : ∀ j, Pnew j = if j = i then rest else Pold j)
    (hv : v = some i) (hv' : v' = none) (hr : h rest = false)
    (old : ∀ j, v = some j ↔ h (Pold j) = true) :
    ∀ j, v' = some j ↔ h (Pnew j) = true := by
  intro j
  rw [hP j, hv']
  by_cases hj : j = i
  · subst hj; simp [hr]
  · simp only [hj, if_false]
    have := old j
    rw [hv] at this
    constructor
    · intro e; exact absurd e (by simp)
    · intro e; exact absurd (Option.some.inj (this.2 e)).symm hj

end

/-! ### the invariant -/

structure Inv (s : St) : Prop where
  good : ∀ (j : Nat) (r : List Act), s.progs[j]? = some r → Good r
  rw : ∀ j, s.rw = some j ↔ hRw (P s j) = true
  mt : ∀ j, s.mt = some j ↔ hMt (P s j) = true
  stat : ∀ j, s.stat = some j ↔ hStat (P s j) = true
  mmapW : ∀ j, s.mmapW = some j ↔ hMmapW (P s j) = true
  rnd : s.mmapR.Nodup
  rmem : ∀ j, j ∈ s.mmapR ↔ hR (P s j) = true
  rwtx : ∀ j, s.rwtx = some j → hTx (P s j) = true

theorem good_P {s : St} (I : Inv s) (j : Nat) : Good (P s j) := by
  unfold P
  cases hj : s.progs[j]? with
  | none => exact good_nil
  | some r => exact I.good j r hj

theorem start_not_held (ps : List (List Act)) (hps : ∀ p ∈ ps, p ∈ programs) (lk ul : Act)
    (hall : ∀ p ∈ programs, firstIs lk ul p = false) (j : Nat) : firstIs lk ul (P (start ps) j) = false := by
  unfold P; simp only [start]
  cases hj : ps[j]? with
  | none => rfl
  | some r => exact hall r (hps r (List.mem_of_getElem? hj))

theorem none_iff_false {v : Option Nat} (hv : v = none) {b : Bool} (hb : b = false) (j : Nat) :
    v = some j ↔ b = true := by
  subst hv; subst hb; simp

theorem inv_start (ps : List (List Act)) (hps : ∀ p ∈ ps, p ∈ programs) : Inv (start ps) where
  good := by
    intro j r hj
    exact ⟨r, hps r (List.mem_of_getElem? hj), List.suffix_refl r⟩
  rw := fun j => none_iff_false rfl (start_not_held ps hps _ _ (by decide) j) j
  mt := fun j => none_iff_false rfl (start_not_held ps hps _ _ (by decide) j) j
  stat := fun j => none_iff_false rfl (start_not_held ps hps _ _ (by decide) j) j
  mmapW := fun j => none_iff_false rfl (start_not_held ps hps _ _ (by decide) j) j
  rnd := by simp [start]
  rmem := by
    intro j
    have hg : hR (P (start ps) j) = false := start_not_held ps hps _ _ (by decide) j
    rw [hg]; simp [start]
  rwtx := by simp [start]

/-- shape of a step -/
theorem step_eq {s s' : St} {i : Nat} (h : step s i = some s') :
    ∃ a rest, s.progs[i]? = some (a :: rest) ∧ enabled s i a = true ∧
      s' = { apply s i a with progs := s.progs.set i rest } := by
  unfold step at h
  split at h
  next a rest hp =>
    by_cases he : enabled s i a = true
    · simp only [he, if_true] at h
      exact ⟨a, rest, hp, he, (Option.some.inj h).symm⟩
    · simp [he] at h
  next => simp at h

theorem apply_progs (s : St) (i : Nat) (a : Act) : (apply s i a).progs = s.progs := by
  cases a <;> rfl

theorem P_set {s : St} {i : Nat} {a : Act} {rest : List Act} (hp : s.progs[i]? = some (a :: rest)) (t : St)
    (ht : t.progs = s.progs.set i rest) : ∀ j, P t j = if j = i then rest else P s j := by
  intro j
  have hi : i < s.progs.length := (List.getElem?_eq_some_iff.1 hp).1
  unfold P
  rw [ht, List.getElem?_set]
  by_cases hj : j = i
  · subst hj; simp [hi]
  · have : ¬ i = j := fun e => hj e.symm
    simp [hj, this]

theorem inv_step {s s' : St} {i : Nat} (I : Inv s) (h : step s i = some s') : Inv s' := by
  obtain ⟨a, rest, hp, hen, rfl⟩ := step_eq h
  have hPi : P s i = a :: rest := by simp [P, hp]
  have hga : Good (a :: rest) := I.good i _ hp
  have hgood : ∀ (j : Nat) (r : List Act), (s.progs.set i rest)[j]? = some r → Good r := by
    intro j r hj
    rcases List.mem_or_eq_of_mem_set (List.mem_of_getElem? hj) with hm | rfl
    · obtain ⟨k, hk⟩ := List.getElem?_of_mem hm
      exact I.good k r hk
    · exact good_tail hga
  cases a with
  | lockRw =>
    have hP := P_set hp { apply s i .lockRw with progs := s.progs.set i rest } rfl
    have hv : s.rw = none := by simpa [enabled] using hen
    exact ⟨hgood, excl_lock hP hv rfl (lock_after tbl_rw hga) I.rw,
      iff_unch hP hPi rfl I.mt, iff_unch hP hPi rfl I.stat, iff_unch hP hPi rfl I.mmapW,
      I.rnd, iff_unch hP hPi rfl I.rmem, imp_unch hP hPi rfl I.rwtx⟩
  | unlockRw =>
    have hP := P_set hp { apply s i .unlockRw with progs := s.progs.set i rest } rfl
    have hv : s.rw = some i := by simpa [enabled] using hen
    exact ⟨hgood, excl_unlock hP hv rfl (unlock_after tbl_rw hga) I.rw,
      iff_unch hP hPi rfl I.mt, iff_unch hP hPi rfl I.stat, iff_unch hP hPi rfl I.mmapW,
      I.rnd, iff_unch hP hPi rfl I.rmem, imp_unch hP hPi rfl I.rwtx⟩
  | lockMeta =>
    have hP := P_set hp { apply s i .lockMeta with progs := s.progs.set i rest } rfl
    have hv : s.mt = none := by simpa [enabled] using hen
    exact ⟨hgood, iff_unch hP hPi rfl I.rw, excl_lock hP hv rfl (lock_after tbl_mt hga) I.mt,
      iff_unch hP hPi rfl I.stat, iff_unch hP hPi rfl I.mmapW,
      I.rnd, iff_unch hP hPi rfl I.rmem, imp_unch hP hPi rfl I.rwtx⟩
  | unlockMeta =>
    have hP := P_set hp { apply s i .unlockMeta with progs := s.progs.set i rest } rfl
    have hv : s.mt = some i := by simpa [enabled] using hen
    exact ⟨hgood, iff_unch hP hPi rfl I.rw, excl_unlock hP hv rfl (unlock_after tbl_mt hga) I.mt,
      iff_unch hP hPi rfl I.stat, iff_unch hP hPi rfl I.mmapW,
      I.rnd, iff_unch hP hPi rfl I.rmem, imp_unch hP hPi rfl I.rwtx⟩
  | lockStat =>
    have hP := P_set hp { apply s i .lockStat with progs := s.progs.set i rest } rfl
    have hv : s.stat = none := by simpa [enabled] using hen
    exact ⟨hgood, iff_unch hP hPi rfl I.rw, iff_unch hP hPi rfl I.mt,
      excl_lock hP hv rfl (lock_after tbl_stat hga) I.stat, iff_unch hP hPi rfl I.mmapW,
      I.rnd, iff_unch hP hPi rfl I.rmem, imp_unch hP hPi rfl I.rwtx⟩
  | unlockStat =>
    have hP := P_set hp { apply s i .unlockStat with progs := s.progs.set i rest } rfl
    have hv : s.stat = some i := by simpa [enabled] using hen
    exact ⟨hgood, iff_unch hP hPi rfl I.rw, iff_unch hP hPi rfl I.mt,
      excl_unlock hP hv rfl (unlock_after tbl_stat hga) I.stat, iff_unch hP hPi rfl I.mmapW,
      I.rnd, iff_unch hP hPi rfl I.rmem, imp_unch hP hPi rfl I.rwtx⟩
  | rlockMmap =>
    have hP := P_set hp { apply s i .rlockMmap with progs := s.progs.set i rest } rfl
    have hni : i ∉ s.mmapR := by
      intro hm
      have := (I.rmem i).1 hm
      rw [hPi] at this
      exact absurd this (by simp [firstIs])
    refine ⟨hgood, iff_unch hP hPi rfl I.rw, iff_unch hP hPi rfl I.mt, iff_unch hP hPi rfl I.stat,
      iff_unch hP hPi rfl I.mmapW, List.nodup_cons.2 ⟨hni, I.rnd⟩, ?_, imp_unch hP hPi rfl I.rwtx⟩
    intro j
    rw [hP j]
    show j ∈ i :: s.mmapR ↔ _
    by_cases hj : j = i
    · subst hj; simp [lock_after tbl_R hga]
    · simp only [hj, if_false, List.mem_cons, false_or]
      exact I.rmem j
  | runlockMmap =>
    have hP := P_set hp { apply s i .runlockMmap with progs := s.progs.set i rest } rfl
    refine ⟨hgood, iff_unch hP hPi rfl I.rw, iff_unch hP hPi rfl I.mt, iff_unch hP hPi rfl I.stat,
      iff_unch hP hPi rfl I.mmapW, I.rnd.erase i, ?_, imp_unch hP hPi rfl I.rwtx⟩
    intro j
    rw [hP j]
    show j ∈ s.mmapR.erase i ↔ _
    rw [List.Nodup.mem_erase_iff I.rnd]
    by_cases hj : j = i
    · subst hj; simp [unlock_after tbl_R hga]
    · simp only [hj, if_false, ne_eq, not_false_eq_true, true_and]
      exact I.rmem j
  | lockMmap =>
    have hP := P_set hp { apply s i .lockMmap with progs := s.progs.set i rest } rfl
    have hv : s.mmapW = none := by
      have : s.mmapW.isNone = true ∧ s.mmapR.isEmpty = true := by simpa [enabled] using hen
      simpa using this.1
    exact ⟨hgood, iff_unch hP hPi rfl I.rw, iff_unch hP hPi rfl I.mt, iff_unch hP hPi rfl I.stat,
      excl_lock hP hv rfl (lock_after tbl_mmapW hga) I.mmapW,
      I.rnd, iff_unch hP hPi rfl I.rmem, imp_unch hP hPi rfl I.rwtx⟩
  | unlockMmap =>
    have hP := P_set hp { apply s i .unlockMmap with progs := s.progs.set i rest } rfl
    have hv : s.mmapW = some i := by simpa [enabled] using hen
    exact ⟨hgood, iff_unch hP hPi rfl I.rw, iff_unch hP hPi rfl I.mt, iff_unch hP hPi rfl I.stat,
      excl_unlock hP hv rfl (unlock_after tbl_mmapW hga) I.mmapW,
      I.rnd, iff_unch hP hPi rfl I.rmem, imp_unch hP hPi rfl I.rwtx⟩
  | setRwtx =>
    have hP := P_set hp { apply s i .setRwtx with progs := s.progs.set i rest } rfl
    refine ⟨hgood, iff_unch hP hPi rfl I.rw, iff_unch hP hPi rfl I.mt, iff_unch hP hPi rfl I.stat,
      iff_unch hP hPi rfl I.mmapW, I.rnd, iff_unch hP hPi rfl I.rmem, ?_⟩
    intro j hj
    have : i = j := Option.some.inj hj
    subst this
    rw [hP i]; simp only [if_true]
    exact lock_after tbl_tx hga
  | clearRwtx =>
    have hP := P_set hp { apply s i .clearRwtx with progs := s.progs.set i rest } rfl
    refine ⟨hgood, iff_unch hP hPi rfl I.rw, iff_unch hP hPi rfl I.mt, iff_unch hP hPi rfl I.stat,
      iff_unch hP hPi rfl I.mmapW, I.rnd, iff_unch hP hPi rfl I.rmem, ?_⟩
    intro j hj
    exact absurd hj (by simp [apply])

theorem inv_reach (ps : List (List Act)) (hps : ∀ p ∈ ps, p ∈ programs)
    (s : St) (h : Reach (start ps) s) : Inv s := by
  induction h with
  | refl => exact inv_start ps hps
  | step i _ hs ih => exact inv_step ih hs

/-! ### progress -/

/-- a goroutine that holds something has a non-empty remaining program -/
theorem P_cons_of_firstIs {s : St} {k : Nat} {lk ul : Act} (h : firstIs lk ul (P s k) = true) :
    ∃ a rest, s.progs[k]? = some (a :: rest) ∧ P s k = a :: rest := by
  unfold P at h ⊢
  cases hk : s.progs[k]? with
  | none => rw [hk] at h; simp [firstIs] at h
  | some r =>
    cases r with
    | nil => rw [hk] at h; simp [firstIs] at h
    | cons a rest => exact ⟨a, rest, rfl, rfl⟩

theorem step_of_enabled {s : St} {k : Nat} {a : Act} {rest : List Act}
    (hk : s.progs[k]? = some (a :: rest)) (he : enabled s k a = true) : ∃ i s', step s i = some s' := by
  refine ⟨k, { apply s k a with progs := s.progs.set k rest }, ?_⟩
  unfold step
  rw [hk]
  simp only [he, if_true]

/-- what the next action of a goroutine may be waiting for -/
def blocked (s : St) : Act → Bool
  | .lockRw => s.rw.isSome
  | .lockMeta => s.mt.isSome
  | .lockStat => s.stat.isSome
  | .rlockMmap => s.mmapW.isSome
  | .lockMmap => s.mmapW.isSome || !s.mmapR.isEmpty
  | _ => false

/-- an unlock by the holder is always enabled; a lock is enabled unless the lock is taken -/
theorem enabled_or_blocked {s : St} (I : Inv s) {k : Nat} {a : Act} {rest : List Act}
    (hk : s.progs[k]? = some (a :: rest)) : enabled s k a = true ∨ blocked s a = true := by
  have hPk : P s k = a :: rest := by simp [P, hk]
  cases a with
  | lockRw => cases h : s.rw <;> simp [enabled, blocked, h]
  | lockMeta => cases h : s.mt <;> simp [enabled, blocked, h]
  | lockStat => cases h : s.stat <;> simp [enabled, blocked, h]
  | rlockMmap => cases h : s.mmapW <;> simp [enabled, blocked, h]
  | lockMmap => cases h : s.mmapW <;> cases h2 : s.mmapR <;> simp [enabled, blocked, h, h2]
  | unlockRw =>
    left
    have := (I.rw k).2 (by rw [hPk]; rfl)
    simp [enabled, this]
  | unlockMeta =>
    left
    have := (I.mt k).2 (by rw [hPk]; rfl)
    simp [enabled, this]
  | unlockStat =>
    left
    have := (I.stat k).2 (by rw [hPk]; rfl)
    simp [enabled, this]
  | unlockMmap =>
    left
    have := (I.mmapW k).2 (by rw [hPk]; rfl)
    simp [enabled, this]
  | runlockMmap =>
    left
    have := (I.rmem k).2 (by rw [hPk]; rfl)
    simp [enabled, this]
  | setRwtx => left; rfl
  | clearRwtx => left; rfl

theorem progress {s : St} (I : Inv s) (hlive : ∃ p ∈ s.progs, p ≠ []) : ∃ i s', step s i = some s' := by
  cases hst : s.stat with
  | some k =>
    -- the holder of statlock unlocks it next
    have hh := (I.stat k).1 hst
    obtain ⟨a, rest, hk, hPk⟩ := P_cons_of_firstIs hh
    have hhead := good_of_check _ tbl_stat_head _ (good_P I k) hh
    rw [hPk] at hhead
    have : a = .unlockStat := by simpa using hhead
    subst this
    exact step_of_enabled hk (by simp [enabled, hst])
  | none =>
  cases hmw : s.mmapW with
  | some k =>
    have hh := (I.mmapW k).1 hmw
    obtain ⟨a, rest, hk, hPk⟩ := P_cons_of_firstIs hh
    have hhead := good_of_check _ tbl_mmapW_head _ (good_P I k) hh
    rw [hPk] at hhead
    have : a = .unlockMmap := by simpa using hhead
    subst this
    exact step_of_enabled hk (by simp [enabled, hmw])
  | none =>
  cases hmr : s.mmapR with
  | cons k tl =>
    -- a reader never waits for rwlock, metalock or the exclusive mmaplock; statlock is free
    have hh := (I.rmem k).1 (by rw [hmr]; exact List.mem_cons_self)
    obtain ⟨a, rest, hk, hPk⟩ := P_cons_of_firstIs hh
    have hhead := good_of_check _ tbl_R_head _ (good_P I k) hh
    rw [hPk] at hhead
    rcases enabled_or_blocked I hk with he | hb
    · exact step_of_enabled hk he
    · exfalso
      cases a <;> simp_all [blocked]
  | nil =>
  cases hmt : s.mt with
  | some k =>
    have hh := (I.mt k).1 hmt
    obtain ⟨a, rest, hk, hPk⟩ := P_cons_of_firstIs hh
    have hhead := good_of_check _ tbl_mt_head _ (good_P I k) hh
    rw [hPk] at hhead hh
    rcases enabled_or_blocked I hk with he | hb
    · exact step_of_enabled hk he
    · exfalso
      cases a <;> simp_all [blocked, firstIs]
  | none =>
  cases hrw : s.rw with
  | some k =>
    have hh := (I.rw k).1 hrw
    obtain ⟨a, rest, hk, hPk⟩ := P_cons_of_firstIs hh
    rw [hPk] at hh
    rcases enabled_or_blocked I hk with he | hb
    · exact step_of_enabled hk he
    · exfalso
      cases a <;> simp_all [blocked, firstIs]
  | none =>
    obtain ⟨p, hp, hne⟩ := hlive
    obtain ⟨k, hk⟩ := List.getElem?_of_mem hp
    obtain ⟨a, rest, rfl⟩ := List.exists_cons_of_ne_nil hne
    rcases enabled_or_blocked I hk with he | hb
    · exact step_of_enabled hk he
    · exfalso
      cases a <;> simp_all [blocked]

/-! ### running a schedule -/

def run (s : St) : List Nat → Option St
  | [] => some s
  | i :: rest => match step s i with
    | some s' => run s' rest
    | none => none

theorem reach_run (s0 : St) : ∀ (sched : List Nat) (s s' : St), Reach s0 s → run s sched = some s' → Reach s0 s'
  | [], s, s', hr, h => by
    simp only [run] at h
    exact Option.some.inj h ▸ hr
  | i :: rest, s, s', hr, h => by
    simp only [run] at h
    split at h
    next s1 hs => exact reach_run s0 rest s1 s' (.step i hr hs) h
    next => simp at h

end Bolt.Locks
