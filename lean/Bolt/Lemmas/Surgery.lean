import Bolt.Model.Surgery
import Bolt.Model.Format
import Bolt.Lemmas.Encode
namespace Bolt.SurgeryL
open Bolt Bolt.Surgery

/-! ### reads depend only on the bytes read -/

/-- a read is determined by the bytes of its window (possibly at another offset of another file) -/
theorem read_shift {f' f : File} {o' o n : Nat} (h : ∀ j, j < n → f'.get (o' + j) = f.get (o + j)) :
    f'.read o' n = f.read o n := by
  unfold File.read
  apply List.map_congr_left
  intro j hj
  exact h j (List.mem_range.mp hj)

theorem read_congr {f' f : File} {off n : Nat}
    (h : ∀ i, off ≤ i → i < off + n → f'.get i = f.get i) : f'.read off n = f.read off n :=
  read_shift (fun j hj => h (off + j) (by omega) (by omega))

/-- the two files have the same bytes from `lo` on -/
def AgreeFrom (f' f : File) (lo : Nat) : Prop := ∀ i, lo ≤ i → f'.get i = f.get i

theorem read_from {f' f : File} {lo : Nat} (h : AgreeFrom f' f lo) {off : Nat} (n : Nat)
    (ho : lo ≤ off) : f'.read off n = f.read off n :=
  read_congr (fun i hi _ => h i (by omega))

theorem u16_from {f' f : File} {lo : Nat} (h : AgreeFrom f' f lo) {off : Nat} (ho : lo ≤ off) :
    f'.u16 off = f.u16 off := by unfold File.u16; rw [read_from h 2 ho]

theorem u32_from {f' f : File} {lo : Nat} (h : AgreeFrom f' f lo) {off : Nat} (ho : lo ≤ off) :
    f'.u32 off = f.u32 off := by unfold File.u32; rw [read_from h 4 ho]

theorem u64_from {f' f : File} {lo : Nat} (h : AgreeFrom f' f lo) {off : Nat} (ho : lo ≤ off) :
    f'.u64 off = f.u64 off := by unfold File.u64; rw [read_from h 8 ho]

theorem pageHdrAt_from {f' f : File} {lo : Nat} (h : AgreeFrom f' f lo) {base : Nat} (hb : lo ≤ base) :
    pageHdrAt f' base = pageHdrAt f base := by
  unfold pageHdrAt
  rw [u64_from h hb, u16_from h (off := base + 8) (by omega), u16_from h (off := base + 10) (by omega),
      u32_from h (off := base + 12) (by omega)]

theorem leafElemAt_from {f' f : File} {lo : Nat} (h : AgreeFrom f' f lo) {base : Nat} (hb : lo ≤ base)
    (limit i : Nat) : leafElemAt f' base limit i = leafElemAt f base limit i := by
  unfold leafElemAt
  have e0 := u32_from h (off := base + 16 + 16 * i) (by omega)
  have e1 := u32_from h (off := base + 16 + 16 * i + 4) (by omega)
  have e2 := u32_from h (off := base + 16 + 16 * i + 8) (by omega)
  have e3 := u32_from h (off := base + 16 + 16 * i + 12) (by omega)
  have r1 := fun n => read_from h (off := base + 16 + 16 * i + f.u32 (base + 16 + 16 * i + 4)) n (by omega)
  have r2 := fun n => read_from h (off := base + 16 + 16 * i + f.u32 (base + 16 + 16 * i + 4) +
        f.u32 (base + 16 + 16 * i + 8)) n (by omega)
  simp only [V2.pageHeaderSize, V2.elemSize, e0, e1, e2, e3, r1, r2]
  rfl

theorem branchElemAt_from {f' f : File} {lo : Nat} (h : AgreeFrom f' f lo) {base : Nat} (hb : lo ≤ base)
    (limit i : Nat) : branchElemAt f' base limit i = branchElemAt f base limit i := by
  unfold branchElemAt
  have e0 := u32_from h (off := base + 16 + 16 * i) (by omega)
  have e1 := u32_from h (off := base + 16 + 16 * i + 4) (by omega)
  have e2 := u64_from h (off := base + 16 + 16 * i + 8) (by omega)
  have r1 := fun n => read_from h (off := base + 16 + 16 * i + f.u32 (base + 16 + 16 * i)) n (by omega)
  simp only [V2.pageHeaderSize, V2.elemSize, e0, e1, e2, r1]
  rfl

theorem leafElems_from {f' f : File} {lo : Nat} (h : AgreeFrom f' f lo) {base : Nat} (hb : lo ≤ base)
    (limit count : Nat) : leafElems f' base limit count = leafElems f base limit count := by
  unfold leafElems
  rw [funext (leafElemAt_from h hb limit)]

theorem branchElems_from {f' f : File} {lo : Nat} (h : AgreeFrom f' f lo) {base : Nat} (hb : lo ≤ base)
    (limit count : Nat) : branchElems f' base limit count = branchElems f base limit count := by
  unfold branchElems
  rw [funext (branchElemAt_from h hb limit)]

/-! ### the tree walk reads pages 2 and above only -/

theorem decodeKids_of_tree (f' f : File) (ps hwm fuel : Nat)
    (ht : ∀ pg ph, decodeTree f' ps hwm fuel pg ph = decodeTree f ps hwm fuel pg ph) :
    ∀ (es : List BranchElem) (ph : Phys),
      decodeKids f' ps hwm fuel es ph = decodeKids f ps hwm fuel es ph
  | [], ph => by rw [decodeKids, decodeKids]
  | e :: rest, ph => by
    conv => lhs; rw [decodeKids]
    conv => rhs; rw [decodeKids]
    simp only [ht, decodeKids_of_tree f' f ps hwm fuel ht rest]

theorem decodeLeafItems_of_tree (f' f : File) (ps hwm fuel : Nat)
    (ht : ∀ pg ph, decodeTree f' ps hwm fuel pg ph = decodeTree f ps hwm fuel pg ph) :
    ∀ (es : List LeafElem) (ph : Phys),
      decodeLeafItems f' ps hwm fuel es ph = decodeLeafItems f ps hwm fuel es ph
  | [], ph => by rw [decodeLeafItems, decodeLeafItems]
  | e :: rest, ph => by
    conv => lhs; rw [decodeLeafItems]
    conv => rhs; rw [decodeLeafItems]
    simp only [ht, decodeLeafItems_of_tree f' f ps hwm fuel ht rest]

theorem decodeTree_from {f' f : File} {ps : Nat} (h : AgreeFrom f' f (2 * ps)) (hwm : Nat) :
    ∀ (fuel pg : Nat) (ph : Phys),
      decodeTree f' ps hwm fuel pg ph = decodeTree f ps hwm fuel pg ph
  | 0, pg, ph => by rw [decodeTree, decodeTree]
  | fuel + 1, pg, ph => by
    conv => lhs; rw [decodeTree]
    conv => rhs; rw [decodeTree]
    by_cases hg : pg < 2 ∨ pg ≥ hwm
    · rw [if_pos hg, if_pos hg]
    · rw [if_neg hg, if_neg hg]
      have hb : 2 * ps ≤ pg * ps := Nat.mul_le_mul_right ps (by omega)
      have hK := decodeKids_of_tree f' f ps hwm fuel (decodeTree_from h hwm fuel)
      have hL := decodeLeafItems_of_tree f' f ps hwm fuel (decodeTree_from h hwm fuel)
      simp only [pageHdrAt_from h hb, leafElems_from h hb, branchElems_from h hb, hK, hL]

theorem decodeFreelist_from {f' f : File} {ps : Nat} (h : AgreeFrom f' f (2 * ps)) (pg : Nat)
    (hpg : 2 ≤ pg) : decodeFreelist f' ps pg = decodeFreelist f ps pg := by
  have hb : 2 * ps ≤ pg * ps := Nat.mul_le_mul_right ps hpg
  unfold decodeFreelist
  have hu : ∀ k, f'.u64 (pg * ps + 16 + k) = f.u64 (pg * ps + 16 + k) :=
    fun k => u64_from h (by omega)
  have hu0 : f'.u64 (pg * ps + 16) = f.u64 (pg * ps + 16) := u64_from h (by omega)
  simp only [pageHdrAt_from h hb, hu, hu0]

theorem decodeAt_from {f' f : File} {ps moff' moff : Nat} (h : AgreeFrom f' f (2 * ps))
    (hm : metaAt f' moff' = metaAt f moff) : decodeAt f' ps moff' = decodeAt f ps moff := by
  unfold decodeAt
  rw [hm]
  simp only [decodeTree_from h]
  by_cases h1 : (metaAt f moff).freelist = V2.pgidNoFreelist
  · simp only [if_pos h1]
  · by_cases h2 : (metaAt f moff).freelist < 2 ∨ (metaAt f moff).freelist ≥ (metaAt f moff).pgid
    · simp only [if_neg h1, if_pos h2]
    · rw [decodeFreelist_from h _ (by omega)]

/-! ### buffers, splices and patches -/

theorem read_getD (f : File) (off n j : Nat) (hj : j < n) : (f.read off n).getD j 0 = f.get (off + j) := by
  unfold File.read
  rw [List.getD_eq_getElem?_getD, List.getElem?_map, List.getElem?_range hj]
  rfl

theorem splice_length (b v : Bytes) (off : Nat) (h : off + v.length ≤ b.length) :
    (splice b off v).length = b.length := by
  unfold splice
  simp only [List.length_append, List.length_take, List.length_drop]
  omega

theorem splice_getD (b v : Bytes) (off : Nat) (h : off + v.length ≤ b.length) (j : Nat) :
    (splice b off v).getD j 0 =
      if off ≤ j ∧ j < off + v.length then v.getD (j - off) 0 else b.getD j 0 := by
  unfold splice
  have hl : (b.take off).length = off := by rw [List.length_take]; omega
  simp only [List.getD_eq_getElem?_getD]
  by_cases h1 : j < off
  · rw [if_neg (by omega), List.append_assoc, List.getElem?_append_left (by omega),
        List.getElem?_take_of_lt h1]
  · by_cases h2 : j < off + v.length
    · rw [if_pos (by omega), List.getElem?_append_left (by rw [List.length_append]; omega),
          List.getElem?_append_right (by omega), hl]
    · rw [if_neg (by omega), List.getElem?_append_right (by rw [List.length_append]; omega),
          List.length_append, hl, List.getElem?_drop]
      congr 2
      omega

/-- a slice of a buffer is the read of a file that holds the same bytes -/
theorem slice_eq_read (x : Bytes) (a k : Nat) (g : File) (o : Nat) (hlen : a + k ≤ x.length)
    (h : ∀ j, j < k → x.getD (a + j) 0 = g.get (o + j)) : (x.drop a).take k = g.read o k := by
  apply List.ext_getElem
  · rw [List.length_take, List.length_drop, File.read_length]; omega
  · intro j h1 h2
    rw [File.read_length] at h2
    have := h j h2
    rw [List.getD_eq_getElem?_getD, List.getElem?_eq_getElem (by omega)] at this
    simp only [File.read, List.getElem_take, List.getElem_drop, List.getElem_map, List.getElem_range]
    simpa using this

theorem take_eq_read (x : Bytes) (k : Nat) (g : File) (o : Nat) (hlen : k ≤ x.length)
    (h : ∀ j, j < k → x.getD j 0 = g.get (o + j)) : x.take k = g.read o k := by
  have := slice_eq_read x 0 k g o (by omega) (fun j hj => by rw [Nat.zero_add]; exact h j hj)
  simpa using this

/-- a file window that holds the bytes `v` reads as `v` -/
theorem read_eq_of_getD (f : File) (off : Nat) (v : Bytes)
    (h : ∀ j, j < v.length → f.get (off + j) = v.getD j 0) : f.read off v.length = v := by
  apply List.ext_getElem
  · rw [File.read_length]
  · intro j h1 h2
    have := h j h2
    rw [List.getD_eq_getElem?_getD, List.getElem?_eq_getElem h2] at this
    simp only [File.read, List.getElem_map, List.getElem_range]
    simpa using this

theorem patch_size (f : File) (off : Nat) (bs : Bytes) (h : off + bs.length ≤ f.size) :
    (patch f off bs).size = f.size := by
  unfold patch
  simp only
  omega

theorem patch_get_in (f : File) (off : Nat) (bs : Bytes) (j : Nat) (hj : j < bs.length) :
    (patch f off bs).get (off + j) = bs.getD j 0 := by
  unfold patch
  simp only
  rw [if_pos (by omega)]
  congr 1
  omega

theorem patch_get_out (f : File) (off : Nat) (bs : Bytes) (i : Nat)
    (hi : ¬ (off ≤ i ∧ i < off + bs.length)) : (patch f off bs).get i = f.get i := by
  unfold patch
  simp only
  rw [if_neg hi]

/-! ### shifted windows: the meta struct is a function of its 64 bytes -/

theorem sub_shift {f' f : File} {o' o : Nat} (h : ∀ j, j < 64 → f'.get (o' + j) = f.get (o + j))
    (k n : Nat) (hk : k + n ≤ 64) : ∀ j, j < n → f'.get (o' + k + j) = f.get (o + k + j) := by
  intro j hj
  rw [Nat.add_assoc, Nat.add_assoc]
  exact h (k + j) (by omega)

theorem u32_shift {f' f : File} {o' o : Nat} (h : ∀ j, j < 4 → f'.get (o' + j) = f.get (o + j)) :
    f'.u32 o' = f.u32 o := by unfold File.u32; rw [read_shift h]

theorem u64_shift {f' f : File} {o' o : Nat} (h : ∀ j, j < 8 → f'.get (o' + j) = f.get (o + j)) :
    f'.u64 o' = f.u64 o := by unfold File.u64; rw [read_shift h]

theorem metaSum_shift {f' f : File} {o' o : Nat} (h : ∀ j, j < 64 → f'.get (o' + j) = f.get (o + j)) :
    metaSum f' o' = metaSum f o := by
  unfold metaSum V2.metaChecksumLen
  rw [read_shift (fun j hj => h j (by omega))]

theorem metaAt_shift {f' f : File} {o' o : Nat} (h : ∀ j, j < 64 → f'.get (o' + j) = f.get (o + j)) :
    metaAt f' o' = metaAt f o := by
  unfold metaAt
  rw [u32_shift (o' := o') (o := o) (fun j hj => h j (by omega)),
      u32_shift (sub_shift h 4 4 (by omega)), u32_shift (sub_shift h 8 4 (by omega)),
      u32_shift (sub_shift h 12 4 (by omega)), u64_shift (sub_shift h 16 8 (by omega)),
      u64_shift (sub_shift h 24 8 (by omega)), u64_shift (sub_shift h 32 8 (by omega)),
      u64_shift (sub_shift h 40 8 (by omega)), u64_shift (sub_shift h 48 8 (by omega)),
      u64_shift (sub_shift h 56 8 (by omega))]

theorem metaValid_shift {f' f : File} {o' o : Nat} (h : ∀ j, j < 64 → f'.get (o' + j) = f.get (o + j)) :
    metaValid f' o' = metaValid f o := by
  unfold metaValid
  rw [u32_shift (o' := o') (o := o) (fun j hj => h j (by omega)),
      u32_shift (sub_shift h 4 4 (by omega)), u64_shift (sub_shift h 56 8 (by omega)),
      metaSum_shift h]

theorem shift_of_congr {f' f : File} {o : Nat} (h : ∀ i, o ≤ i → i < o + 64 → f'.get i = f.get i) :
    ∀ j, j < 64 → f'.get (o + j) = f.get (o + j) := fun j hj => h (o + j) (by omega) (by omega)

/-! ### `ReadPage` / `WritePage` on a sane page -/

theorem pageAndHwm_ok (f : File) (ps : Nat) (h1 : 4096 ≤ f.size) (h2 : f.u32 16 = V2.magic)
    (h3 : f.u32 24 = ps) (h4 : 80 ≤ ps) : pageAndHwm f = .ok (ps, f.u64 56) := by
  unfold pageAndHwm
  rw [if_neg (by omega), if_neg (fun hne => hne h2), if_neg (by omega), h3]

theorem readPage_ok (f : File) (ps hwm pg : Nat) (hp : pageAndHwm f = .ok (ps, hwm))
    (hh : hwm % 2 ^ 32 ≠ 3) (hsz : pg * ps + ps ≤ f.size) (hid : f.u64 (pg * ps) = pg)
    (hov : f.u32 (pg * ps + 12) = 0) : readPage f pg = .ok (ps, f.read (pg * ps) ps) := by
  unfold readPage
  rw [hp]
  simp only
  rw [if_neg (by omega), if_neg (fun hne => hne hid), hov, if_neg (by omega),
      if_neg (by rw [Nat.zero_add, Nat.one_mul]; omega), Nat.zero_add, Nat.one_mul]

theorem writePage_ok (f : File) (ps hwm : Nat) (buf : Bytes) (hp : pageAndHwm f = .ok (ps, hwm))
    (hlen : buf.length = ps) (hov : getLE ((buf.drop 12).take 4) = 0) :
    writePage f buf = .ok (patch f (getLE (buf.take 8) * ps) buf) := by
  unfold writePage
  rw [hp]
  simp only
  rw [hov, if_neg (by rw [Nat.zero_add, Nat.mul_one]; exact fun hne => hne hlen.symm)]

/-! ### `clearFreelistInMetaPage` -/

theorem clearInMeta_unfold (f : File) (pg ps : Nat) (buf : Bytes) (hr : readPage f pg = .ok (ps, buf)) :
    clearFreelistInMeta f pg =
      writePage f (splice (splice buf 48 (putLE 8 V2.pgidNoFreelist)) 72
        (putLE 8 (fnv1a64 (((splice buf 48 (putLE 8 V2.pgidNoFreelist)).drop 16).take 56)).toNat)) := by
  unfold clearFreelistInMeta
  rw [hr]
  rfl

theorem clearInMeta_spec (f : File) (ps hwm pg : Nat) (hp : pageAndHwm f = .ok (ps, hwm))
    (hh : hwm % 2 ^ 32 ≠ 3) (hps : 80 ≤ ps) (hsz : pg * ps + ps ≤ f.size)
    (hid : f.u64 (pg * ps) = pg) (hov : f.u32 (pg * ps + 12) = 0) :
    ∃ f', clearFreelistInMeta f pg = .ok f' ∧ f'.size = f.size ∧
      (∀ i, ¬ (pg * ps + 48 ≤ i ∧ i < pg * ps + 56) → ¬ (pg * ps + 72 ≤ i ∧ i < pg * ps + 80) →
        f'.get i = f.get i) ∧
      f'.u64 (pg * ps + 48) = V2.pgidNoFreelist ∧
      f'.u64 (pg * ps + 72) = metaSum f' (pg * ps + 16) := by
  have hr := readPage_ok f ps hwm pg hp hh hsz hid hov
  rw [clearInMeta_unfold f pg ps _ hr]
  obtain ⟨base, hbase⟩ : ∃ base, base = pg * ps := ⟨_, rfl⟩
  rw [← hbase] at hsz hid hov ⊢
  have hbl : (f.read base ps).length = ps := File.read_length ..
  have hbg : ∀ j, j < ps → (f.read base ps).getD j 0 = f.get (base + j) :=
    fun j hj => read_getD f base ps j hj
  generalize f.read base ps = buf at hbl hbg ⊢
  have hv1l : (putLE 8 V2.pgidNoFreelist).length = 8 := putLE_length ..
  have hv1 : getLE (putLE 8 V2.pgidNoFreelist) = V2.pgidNoFreelist :=
    getLE_putLE_of_lt (by decide)
  generalize putLE 8 V2.pgidNoFreelist = v1 at hv1l hv1 ⊢
  have hb1l := splice_length buf v1 48 (by omega)
  have hb1g := splice_getD buf v1 48 (by omega)
  rw [hv1l] at hb1g
  generalize splice buf 48 v1 = b1 at hb1l hb1g ⊢
  generalize hsum : (fnv1a64 ((b1.drop 16).take 56)).toNat = sum
  have hsumlt : sum < 2 ^ 64 := by rw [← hsum]; exact BitVec.isLt _
  have hv2l : (putLE 8 sum).length = 8 := putLE_length ..
  have hv2 : getLE (putLE 8 sum) = sum := getLE_putLE_of_lt (by omega)
  generalize putLE 8 sum = v2 at hv2l hv2 ⊢
  have hb2l := splice_length b1 v2 72 (by omega)
  have hb2g := splice_getD b1 v2 72 (by omega)
  rw [hv2l] at hb2g
  generalize splice b1 72 v2 = b2 at hb2l hb2g ⊢
  have hlow : ∀ j, j < 48 → b2.getD j 0 = f.get (base + j) := by
    intro j hj
    rw [hb2g, if_neg (by omega), hb1g, if_neg (by omega), hbg j (by omega)]
  have hid2 : getLE (b2.take 8) = pg := by
    rw [take_eq_read b2 8 f base (by omega) (fun j hj => hlow j (by omega))]; exact hid
  have hov2 : getLE ((b2.drop 12).take 4) = 0 := by
    rw [slice_eq_read b2 12 4 f (base + 12) (by omega)
      (fun j hj => by rw [hlow (12 + j) (by omega), Nat.add_assoc])]
    exact hov
  rw [writePage_ok f ps hwm b2 hp (by omega) hov2, hid2, ← hbase]
  have hin : ∀ j, j < ps → (patch f base b2).get (base + j) = b2.getD j 0 :=
    fun j hj => patch_get_in f base b2 j (by omega)
  refine ⟨_, rfl, patch_size f base b2 (by omega), ?_, ?_, ?_⟩
  · intro i h1 h2
    by_cases hi : base ≤ i ∧ i < base + b2.length
    · obtain ⟨j, rfl⟩ : ∃ j, i = base + j := ⟨i - base, by omega⟩
      rw [hin j (by omega), hb2g, if_neg (by omega), hb1g, if_neg (by omega), hbg j (by omega)]
    · exact patch_get_out f base b2 i hi
  · have := read_eq_of_getD (patch f base b2) (base + 48) v1 (fun j hj => by
      rw [Nat.add_assoc, hin _ (by omega), hb2g, if_neg (by omega), hb1g, if_pos (by omega)]
      congr 1; omega)
    rw [hv1l] at this
    unfold File.u64
    rw [this, hv1]
  · have := read_eq_of_getD (patch f base b2) (base + 72) v2 (fun j hj => by
      rw [Nat.add_assoc, hin _ (by omega), hb2g, if_pos (by omega)]
      congr 1; omega)
    rw [hv2l] at this
    unfold File.u64 metaSum V2.metaChecksumLen
    rw [this, hv2, ← hsum,
      slice_eq_read b1 16 56 (patch f base b2) (base + 16) (by omega) (fun j hj => by
        rw [Nat.add_assoc, hin _ (by omega), hb2g, if_neg (by omega)])]

/-! ### what `metaPagesOk` says -/

structure PagesOk (f : File) (ps : Nat) : Prop where
  s4096 : 4096 ≤ f.size
  s2 : 2 * ps ≤ f.size
  ps80 : 80 ≤ ps
  ps0 : f.u32 24 = ps
  ps1 : f.u32 (ps + 24) = ps
  id0 : f.u64 0 = 0
  id1 : f.u64 ps = 1
  ov0 : f.u32 12 = 0
  ov1 : f.u32 (ps + 12) = 0
  hwm : f.u64 56 % 2 ^ 32 ≠ 3
  v0 : metaValid f 16 = true
  v1 : metaValid f (ps + 16) = true

theorem pagesOk_of {f : File} {ps : Nat} (h : metaPagesOk f ps = true) : PagesOk f ps := by
  simp only [metaPagesOk, Bool.and_eq_true, decide_eq_true_eq, beq_iff_eq, bne_iff_ne, ne_eq] at h
  obtain ⟨⟨⟨⟨⟨⟨⟨⟨⟨⟨⟨a, b⟩, c⟩, d⟩, e⟩, g⟩, h⟩, i⟩, j⟩, k⟩, l⟩, m⟩ := h
  exact ⟨a, b, c, d, e, g, h, i, j, k, l, m⟩

theorem metaValid_iff {f : File} {off : Nat} :
    metaValid f off = true ↔
      f.u32 off = V2.magic ∧ f.u32 (off + 4) = V2.version ∧ f.u64 (off + 56) = metaSum f off := by
  simp only [metaValid, Bool.and_eq_true, beq_iff_eq, and_assoc]

/-- one meta struct after its free-list and checksum fields were rewritten -/
theorem metaAt_clear {f1 f : File} {base : Nat}
    (hg : ∀ i, ¬ (base + 48 ≤ i ∧ i < base + 56) → ¬ (base + 72 ≤ i ∧ i < base + 80) →
      f1.get i = f.get i)
    (hfl : f1.u64 (base + 48) = V2.pgidNoFreelist) (hck : f1.u64 (base + 72) = metaSum f1 (base + 16)) :
    metaAt f1 (base + 16) = { metaAt f (base + 16) with
        freelist := V2.pgidNoFreelist, checksum := metaSum f1 (base + 16) } ∧
    (metaValid f (base + 16) = true → metaValid f1 (base + 16) = true) := by
  have k32 : ∀ off, (off + 4 ≤ base + 48 ∨ (base + 56 ≤ off ∧ off + 4 ≤ base + 72) ∨ base + 80 ≤ off) →
      f1.u32 off = f.u32 off := fun off ho => u32_shift (fun j hj => hg _ (by omega) (by omega))
  have k64 : ∀ off, (off + 8 ≤ base + 48 ∨ (base + 56 ≤ off ∧ off + 8 ≤ base + 72) ∨ base + 80 ≤ off) →
      f1.u64 off = f.u64 off := fun off ho => u64_shift (fun j hj => hg _ (by omega) (by omega))
  have a1 : base + 16 + 32 = base + 48 := by omega
  have a2 : base + 16 + 56 = base + 72 := by omega
  constructor
  · simp only [metaAt, Meta.mk.injEq, a1, a2]
    exact ⟨k32 _ (by omega), k32 _ (by omega), k32 _ (by omega), k32 _ (by omega), k64 _ (by omega),
      k64 _ (by omega), hfl, k64 _ (by omega), k64 _ (by omega), hck⟩
  · intro hv
    obtain ⟨m, v, _⟩ := metaValid_iff.mp hv
    rw [metaValid_iff, a2]
    exact ⟨(k32 _ (by omega)).trans m, (k32 _ (by omega)).trans v, hck⟩

theorem clearFreelist_spec (f : File) (ps : Nat) (h : metaPagesOk f ps = true) :
    ∃ f', clearFreelist f = .ok f' ∧ f'.size = f.size ∧
      (∀ i, ¬ (48 ≤ i ∧ i < 56) → ¬ (72 ≤ i ∧ i < 80) →
            ¬ (ps + 48 ≤ i ∧ i < ps + 56) → ¬ (ps + 72 ≤ i ∧ i < ps + 80) → f'.get i = f.get i) ∧
      metaValid f' 16 = true ∧ metaValid f' (ps + 16) = true ∧
      (∀ moff, moff = 16 ∨ moff = ps + 16 →
        metaAt f' moff = { metaAt f moff with freelist := V2.pgidNoFreelist, checksum := metaSum f' moff }) := by
  have ok := pagesOk_of h
  have hps := ok.ps80
  have hs2 := ok.s2
  obtain ⟨m0, _, _⟩ := metaValid_iff.mp ok.v0
  have hp := pageAndHwm_ok f ps ok.s4096 m0 ok.ps0 ok.ps80
  obtain ⟨f1, hc1, hs1, hg1, hfl1, hck1⟩ := clearInMeta_spec f ps (f.u64 56) 0 hp ok.hwm ok.ps80
    (by omega) (by rw [Nat.zero_mul]; exact ok.id0) (by rw [Nat.zero_mul, Nat.zero_add]; exact ok.ov0)
  simp only [Nat.zero_mul, Nat.zero_add] at hg1 hfl1 hck1
  have k32 : ∀ off, (off + 4 ≤ 48 ∨ (56 ≤ off ∧ off + 4 ≤ 72) ∨ 80 ≤ off) →
      f1.u32 off = f.u32 off := fun off ho => u32_shift (fun j hj => hg1 _ (by omega) (by omega))
  have k64 : ∀ off, (off + 8 ≤ 48 ∨ (56 ≤ off ∧ off + 8 ≤ 72) ∨ 80 ≤ off) →
      f1.u64 off = f.u64 off := fun off ho => u64_shift (fun j hj => hg1 _ (by omega) (by omega))
  have hp1 : pageAndHwm f1 = .ok (ps, f.u64 56) := by
    rw [← k64 56 (by omega)]
    exact pageAndHwm_ok f1 ps (by rw [hs1]; exact ok.s4096) ((k32 16 (by omega)).trans m0)
      ((k32 24 (by omega)).trans ok.ps0) ok.ps80
  obtain ⟨f2, hc2, hs2', hg2, hfl2, hck2⟩ := clearInMeta_spec f1 ps (f.u64 56) 1 hp1 ok.hwm ok.ps80
    (by omega) (by rw [Nat.one_mul, k64 ps (by omega)]; exact ok.id1)
    (by rw [Nat.one_mul, k32 (ps + 12) (by omega)]; exact ok.ov1)
  simp only [Nat.one_mul] at hg2 hfl2 hck2
  -- the two structs, step by step
  have c1 := metaAt_clear (f1 := f1) (f := f) (base := 0)
    (by simpa only [Nat.zero_add] using hg1) (by simpa only [Nat.zero_add] using hfl1)
    (by simpa only [Nat.zero_add] using hck1)
  simp only [Nat.zero_add] at c1
  have c2 := metaAt_clear (f1 := f2) (f := f1) (base := ps) hg2 hfl2 hck2
  have sh0 : ∀ j, j < 64 → f2.get (16 + j) = f1.get (16 + j) :=
    fun j hj => hg2 _ (by omega) (by omega)
  have sh1 : ∀ j, j < 64 → f1.get (ps + 16 + j) = f.get (ps + 16 + j) :=
    fun j hj => hg1 _ (by omega) (by omega)
  refine ⟨f2, ?_, hs2'.trans hs1, ?_, ?_, ?_, ?_⟩
  · unfold clearFreelist
    rw [hc1]
    exact hc2
  · intro i a b c d
    rw [hg2 i c d, hg1 i a b]
  · rw [metaValid_shift sh0]
    exact c1.2 ok.v0
  · apply c2.2
    rw [metaValid_shift sh1]
    exact ok.v1
  · intro moff hm
    rcases hm with rfl | rfl
    · rw [metaAt_shift sh0, metaSum_shift sh0]
      exact c1.1
    · rw [c2.1, metaAt_shift sh1]

/-! ### `Open` on a file with two valid metas -/

theorem openMeta_ok (f : File) (os ps : Nat) (h1 : 4096 ≤ f.size) (hv0 : metaValid f 16 = true)
    (hv1 : metaValid f (ps + 16) = true) (hps : f.u32 24 = ps) (hsz : 2 * ps ≤ f.size) :
    openMeta f os = .ok (ps, if f.u64 (ps + 16 + 48) > f.u64 (16 + 48) then ps + 16 else 16) := by
  have hg : getPageSize f os = .ok ps := by
    unfold getPageSize pageSizeFromFirst
    rw [if_pos ⟨h1, hv0⟩]
    simp only [Nat.reduceAdd]
    rw [hps]
  unfold openMeta
  rw [hg]
  simp only
  rw [if_neg (by omega), hv0, hv1]
  unfold pickMeta
  by_cases h : f.u64 (ps + 16 + 48) > f.u64 (16 + 48)
  · simp only [h, if_true, hv1, Bool.not_true, Bool.and_self, Bool.false_eq_true, if_false]
  · simp only [h, if_false, hv0, if_true, Bool.not_true, Bool.and_self, Bool.false_eq_true]

/-- the reader's view after the free-list field of its meta was set to "none" -/
theorem decodeAt_nofl {f' f : File} {ps moff c : Nat} (h : AgreeFrom f' f (2 * ps))
    (hm : metaAt f' moff = { metaAt f moff with freelist := V2.pgidNoFreelist, checksum := c }) :
    (decodeAt f' ps moff).content = (decodeAt f ps moff).content ∧
    (decodeAt f' ps moff).treePages = (decodeAt f ps moff).treePages ∧
    (decodeAt f' ps moff).freelistPage = none ∧ (decodeAt f' ps moff).freeIds = [] ∧
    (decodeAt f' ps moff).mt.txid = (decodeAt f ps moff).mt.txid ∧
    (decodeAt f' ps moff).mt.pgid = (decodeAt f ps moff).mt.pgid ∧
    (decodeAt f' ps moff).mt.root = (decodeAt f ps moff).mt.root := by
  simp only [decodeAt, hm, decodeTree_from h, if_true]
  exact ⟨trivial, trivial, trivial, trivial, trivial, trivial, trivial⟩

theorem abandon_keeps_content (f : File) (ps os : Nat) (h : metaPagesOk f ps = true) :
    ∃ f', clearFreelist f = .ok f' ∧ openMeta f' os = openMeta f os ∧
      ∀ moff, moff = 16 ∨ moff = ps + 16 →
        (decodeAt f' ps moff).content = (decodeAt f ps moff).content ∧
        (decodeAt f' ps moff).treePages = (decodeAt f ps moff).treePages ∧
        (decodeAt f' ps moff).freelistPage = none ∧ (decodeAt f' ps moff).freeIds = [] ∧
        (decodeAt f' ps moff).mt.txid = (decodeAt f ps moff).mt.txid ∧
        (decodeAt f' ps moff).mt.pgid = (decodeAt f ps moff).mt.pgid ∧
        (decodeAt f' ps moff).mt.root = (decodeAt f ps moff).mt.root := by
  have ok := pagesOk_of h
  have hps := ok.ps80
  obtain ⟨f', hc, hs, hg, hv0, hv1, hm⟩ := clearFreelist_spec f ps h
  have k32 : f'.u32 24 = f.u32 24 := u32_shift (fun j hj => hg _ (by omega) (by omega) (by omega) (by omega))
  have t0 : f'.u64 (16 + 48) = f.u64 (16 + 48) :=
    u64_shift (fun j hj => hg _ (by omega) (by omega) (by omega) (by omega))
  have t1 : f'.u64 (ps + 16 + 48) = f.u64 (ps + 16 + 48) :=
    u64_shift (fun j hj => hg _ (by omega) (by omega) (by omega) (by omega))
  have hag : AgreeFrom f' f (2 * ps) :=
    fun i hi => hg i (by omega) (by omega) (by omega) (by omega)
  refine ⟨f', hc, ?_, fun moff hmo => decodeAt_nofl hag (hm moff hmo)⟩
  rw [openMeta_ok f' os ps (by rw [hs]; exact ok.s4096) hv0 hv1 (k32.trans ok.ps0) (by rw [hs]; exact ok.s2),
      openMeta_ok f os ps ok.s4096 ok.v0 ok.v1 ok.ps0 ok.s2, t0, t1]

/-! ### `CopyPage`, `GetActiveMetaPage`, `RevertMetaPage` -/

theorem read_slice (f : File) (off n a k : Nat) (h : a + k ≤ n) :
    ((f.read off n).drop a).take k = f.read (off + a) k :=
  slice_eq_read _ a k f (off + a) (by rw [File.read_length]; exact h)
    (fun j hj => by rw [read_getD f off n (a + j) (by omega), Nat.add_assoc])

theorem splice_zero_take (b v : Bytes) : (splice b 0 v).take v.length = v := by
  unfold splice
  simp

theorem copyPage_spec (f : File) (ps hwm src tgt : Nat) (hp : pageAndHwm f = .ok (ps, hwm))
    (hh : hwm % 2 ^ 32 ≠ 3) (hps : 80 ≤ ps) (hsz : src * ps + ps ≤ f.size)
    (hid : f.u64 (src * ps) = src) (hov : f.u32 (src * ps + 12) = 0)
    (htsz : tgt * ps + ps ≤ f.size) (ht : tgt < 2 ^ 64) :
    ∃ f', copyPage f src tgt = .ok f' ∧ f'.size = f.size ∧
      (∀ i, ¬ (tgt * ps ≤ i ∧ i < tgt * ps + ps) → f'.get i = f.get i) ∧
      (∀ j, 8 ≤ j → j < ps → f'.get (tgt * ps + j) = f.get (src * ps + j)) := by
  have hr := readPage_ok f ps hwm src hp hh hsz hid hov
  unfold copyPage
  rw [hr]
  simp only
  have hbl : (f.read (src * ps) ps).length = ps := File.read_length ..
  have hbg : ∀ j, j < ps → (f.read (src * ps) ps).getD j 0 = f.get (src * ps + j) :=
    fun j hj => read_getD f _ ps j hj
  generalize f.read (src * ps) ps = buf at hbl hbg ⊢
  have hvl : (putLE 8 tgt).length = 8 := putLE_length ..
  have hv : getLE (putLE 8 tgt) = tgt := getLE_putLE_of_lt (by omega)
  generalize putLE 8 tgt = v at hvl hv ⊢
  have hb1l := splice_length buf v 0 (by omega)
  have hb1g := splice_getD buf v 0 (by omega)
  have hb1t := splice_zero_take buf v
  rw [hvl] at hb1g hb1t
  generalize splice buf 0 v = b1 at hb1l hb1g hb1t ⊢
  have hhigh : ∀ j, 8 ≤ j → j < ps → b1.getD j 0 = f.get (src * ps + j) := by
    intro j h8 hj
    rw [hb1g, if_neg (by omega), hbg j hj]
  have hov2 : getLE ((b1.drop 12).take 4) = 0 := by
    rw [slice_eq_read b1 12 4 f (src * ps + 12) (by omega)
      (fun j hj => by rw [hhigh (12 + j) (by omega) (by omega), Nat.add_assoc])]
    exact hov
  rw [writePage_ok f ps hwm b1 hp (by omega) hov2, hb1t, hv]
  refine ⟨_, rfl, patch_size f _ b1 (by omega), ?_, ?_⟩
  · intro i hi
    exact patch_get_out f _ b1 i (by rw [hb1l, hbl]; exact hi)
  · intro j h8 hj
    rw [patch_get_in f _ b1 j (by omega), hhigh j h8 hj]

theorem pagesOk_hp {f : File} {ps : Nat} (ok : PagesOk f ps) : pageAndHwm f = .ok (ps, f.u64 56) :=
  pageAndHwm_ok f ps ok.s4096 (metaValid_iff.mp ok.v0).1 ok.ps0 ok.ps80

theorem activeMeta_ok {f : File} {ps : Nat} (ok : PagesOk f ps) :
    activeMeta f = .ok (if f.u64 (16 + 48) < f.u64 (ps + 16 + 48) then 1 else 0) := by
  have hp := pagesOk_hp ok
  have hps := ok.ps80
  have hs2 := ok.s2
  have r0 := readPage_ok f ps _ 0 hp ok.hwm (by omega) (by rw [Nat.zero_mul]; exact ok.id0)
    (by rw [Nat.zero_mul, Nat.zero_add]; exact ok.ov0)
  have r1 := readPage_ok f ps _ 1 hp ok.hwm (by omega) (by rw [Nat.one_mul]; exact ok.id1)
    (by rw [Nat.one_mul]; exact ok.ov1)
  unfold activeMeta
  rw [r0, r1]
  simp only
  rw [read_slice f _ ps (16 + 48) 8 (by omega), read_slice f _ ps (16 + 48) 8 (by omega),
      Nat.zero_mul, Nat.zero_add, Nat.one_mul, Nat.add_assoc ps 16 48]
  unfold File.u64
  by_cases h : getLE (f.read (16 + 48) 8) < getLE (f.read (ps + (16 + 48)) 8)
  · rw [if_pos h, if_pos h]
  · rw [if_neg h, if_neg h]

theorem revertMeta_spec (f : File) (ps : Nat) (h : metaPagesOk f ps = true) :
    ∃ f', revertMeta f = .ok f' ∧ f'.size = f.size ∧
      (∀ i, 2 * ps ≤ i → f'.get i = f.get i) ∧
      (∀ i, (if olderOff f ps = 16 then i < ps else ps ≤ i) → f'.get i = f.get i) ∧
      metaAt f' 16 = metaAt f (olderOff f ps) ∧ metaAt f' (ps + 16) = metaAt f (olderOff f ps) ∧
      metaValid f' 16 = true ∧ metaValid f' (ps + 16) = true := by
  have ok := pagesOk_of h
  have hp := pagesOk_hp ok
  have hps := ok.ps80
  have hs2 := ok.s2
  unfold revertMeta
  rw [activeMeta_ok ok]
  simp only
  by_cases ht : f.u64 (16 + 48) < f.u64 (ps + 16 + 48)
  · have hold : olderOff f ps = 16 := by unfold olderOff; rw [if_pos ht]
    rw [if_pos ht, if_neg (by decide), hold]
    obtain ⟨f', hc, hs, hout, hin⟩ := copyPage_spec f ps _ 0 1 hp ok.hwm hps (by omega)
      (by rw [Nat.zero_mul]; exact ok.id0) (by rw [Nat.zero_mul, Nat.zero_add]; exact ok.ov0)
      (by omega) (by omega)
    simp only [Nat.zero_mul, Nat.zero_add, Nat.one_mul] at hout hin
    have sh0 : ∀ j, j < 64 → f'.get (16 + j) = f.get (16 + j) :=
      fun j hj => hout _ (by omega)
    have sh1 : ∀ j, j < 64 → f'.get (ps + 16 + j) = f.get (16 + j) :=
      fun j hj => by rw [Nat.add_assoc]; exact hin (16 + j) (by omega) (by omega)
    refine ⟨f', hc, hs, fun i hi => hout i (by omega), ?_, metaAt_shift sh0, metaAt_shift sh1,
      (metaValid_shift sh0).trans ok.v0, (metaValid_shift sh1).trans ok.v0⟩
    intro i hi
    rw [if_pos rfl] at hi
    exact hout i (by omega)
  · have hold : olderOff f ps = ps + 16 := by unfold olderOff; rw [if_neg ht]
    rw [if_neg ht, if_pos rfl, hold]
    obtain ⟨f', hc, hs, hout, hin⟩ := copyPage_spec f ps _ 1 0 hp ok.hwm hps (by omega)
      (by rw [Nat.one_mul]; exact ok.id1) (by rw [Nat.one_mul]; exact ok.ov1)
      (by omega) (by omega)
    simp only [Nat.zero_mul, Nat.zero_add, Nat.one_mul] at hout hin
    have sh0 : ∀ j, j < 64 → f'.get (16 + j) = f.get (ps + 16 + j) :=
      fun j hj => by rw [Nat.add_assoc]; exact hin (16 + j) (by omega) (by omega)
    have sh1 : ∀ j, j < 64 → f'.get (ps + 16 + j) = f.get (ps + 16 + j) :=
      fun j hj => hout _ (by omega)
    refine ⟨f', hc, hs, fun i hi => hout i (by omega), ?_, metaAt_shift sh0, metaAt_shift sh1,
      (metaValid_shift sh0).trans ok.v1, (metaValid_shift sh1).trans ok.v1⟩
    intro i hi
    rw [if_neg (by omega)] at hi
    exact hout i (by omega)

theorem olderOff_cases (f : File) (ps : Nat) : olderOff f ps = 16 ∨ olderOff f ps = ps + 16 := by
  unfold olderOff
  by_cases h : f.u64 (16 + 48) < f.u64 (ps + 16 + 48)
  · rw [if_pos h]; exact Or.inl rfl
  · rw [if_neg h]; exact Or.inr rfl

theorem revert_opens_at_older (f : File) (ps os : Nat) (h : metaPagesOk f ps = true) :
    ∃ f', revertMeta f = .ok f' ∧ decodeFile f' os = .ok (decodeAt f ps (olderOff f ps)) := by
  have ok := pagesOk_of h
  obtain ⟨f', hc, hs, h2, _, m0, m1, v0, v1⟩ := revertMeta_spec f ps h
  refine ⟨f', hc, ?_⟩
  have hpsz : (metaAt f (olderOff f ps)).pageSize = ps := by
    rcases olderOff_cases f ps with e | e
    · rw [e]; exact ok.ps0
    · rw [e]
      show f.u32 (ps + 16 + 8) = ps
      rw [Nat.add_assoc]; exact ok.ps1
  have hps' : f'.u32 24 = ps := (congrArg Meta.pageSize m0).trans hpsz
  have htx : f'.u64 (ps + 16 + 48) = f'.u64 (16 + 48) :=
    (congrArg Meta.txid m1).trans (congrArg Meta.txid m0).symm
  have ho := openMeta_ok f' os ps (by rw [hs]; exact ok.s4096) v0 v1 hps' (by rw [hs]; exact ok.s2)
  rw [htx, if_neg (Nat.lt_irrefl _)] at ho
  unfold decodeFile
  rw [ho]
  simp only
  rw [decodeAt_from h2 m0]

end Bolt.SurgeryL
