/-
Helper lemmas for C04/C07 (`Bolt.Props.C04Node`): the node layer's pure functions.
-/
import Bolt.Model.Node
import Bolt.Lemmas.NestedMap
namespace Bolt.Node
open Bolt

/-! ### sizes -/

theorem nodeSize_nil : nodeSize [] = 16 := rfl

theorem nodeSize_cons (e : El) (r : List El) : nodeSize (e :: r) = elSize e + nodeSize r := by
  simp only [nodeSize, List.map_cons, List.sum_cons]; omega

/-- the early-exit scan on a non-empty list decides `sz + Σ sizes < v` -/
theorem sizeLessThanAux_cons (v : Nat) : ∀ (r : List El) (sz : Nat) (e : El),
    sizeLessThanAux v sz (e :: r) = true ↔ sz + ((e :: r).map elSize).sum < v
  | [], sz, e => by
    simp only [sizeLessThanAux, List.map_cons, List.map_nil, List.sum_cons, List.sum_nil]
    by_cases h : sz + elSize e ≥ v
    · simp only [h, if_true]; constructor
      · intro h'; exact Bool.noConfusion h'
      · intro h'; omega
    · simp only [h, if_false]; constructor
      · intro _; omega
      · intro _; trivial
  | e' :: r', sz, e => by
    have ih := sizeLessThanAux_cons v r' (sz + elSize e) e'
    rw [sizeLessThanAux]
    simp only [List.map_cons, List.sum_cons] at ih ⊢
    by_cases h : sz + elSize e ≥ v
    · simp only [h, if_true]; constructor
      · intro h'; exact Bool.noConfusion h'
      · intro h'; omega
    · simp only [h, if_false]
      rw [ih]; omega

/-! ### `splitIndex` -/

theorem splitIndexAux_bounds (th len : Nat) (hlen : 5 ≤ len) :
    ∀ (r : List El) (i sz index : Nat), i + r.length = len → i + 2 ≤ len → (0 < i → index + 1 = i) →
      2 ≤ splitIndexAux th len i sz index r ∧ splitIndexAux th len i sz index r + 3 ≤ len
  | [], i, sz, index, h1, h2, _ => by simp at h1; omega
  | e :: r, i, sz, index, h1, h2, h3 => by
    rw [splitIndexAux]
    simp only [List.length_cons] at h1
    by_cases hlt : i + 2 < len
    · rw [if_pos hlt]
      by_cases hb : i ≥ 2 ∧ sz + elSize e > th
      · rw [if_pos hb]; omega
      · rw [if_neg hb]
        exact splitIndexAux_bounds th len hlen r (i+1) (sz + elSize e) i (by omega) (by omega) (by intro _; rfl)
    · rw [if_neg hlt]
      have : 0 < i := by omega
      have := h3 this
      omega

/-! ### `split` -/

theorem split_ne_nil (ps th : Nat) : ∀ (fuel : Nat) (l : List El), split ps th fuel l ≠ []
  | 0, l => by simp [split]
  | fuel+1, l => by
    rw [split]
    by_cases h : l.length ≤ 4 ∨ sizeLessThan ps l = true
    · simp [h]
    · simp [h]

/-! ### `inlineable` -/

theorem inlineableAux_spec (maxSz : Nat) : ∀ (l : List (El × Bool)) (sz : Nat),
    inlineableAux maxSz sz l = true →
      (∀ e ∈ l, e.2 = false) ∧ (l ≠ [] → sz + ((l.map (·.1)).map elSize).sum ≤ maxSz)
  | [], _, _ => by simp
  | (e, b) :: r, sz, h => by
    rw [inlineableAux] at h
    cases b with
    | true => simp at h
    | false =>
      simp only [Bool.false_eq_true, if_false] at h
      by_cases hgt : sz + elSize e > maxSz
      · simp [hgt] at h
      · simp only [hgt, if_false] at h
        have ih := inlineableAux_spec maxSz r (sz + elSize e) h
        refine ⟨?_, ?_⟩
        · intro x hx
          rcases List.mem_cons.mp hx with hx | hx
          · subst hx; rfl
          · exact ih.1 x hx
        · intro _
          simp only [List.map_cons, List.sum_cons]
          cases r with
          | nil => simp; omega
          | cons a r' =>
            have := ih.2 (by simp)
            omega

/-! ### sorted `put` / `del` -/

theorem lowerBound_nil (k : Bytes) : lowerBound [] k = 0 := rfl

theorem lowerBound_cons (a : Bytes) (r : List Bytes) (k : Bytes) :
    lowerBound (a :: r) k = if Bytes.lt a k = true then lowerBound r k + 1 else 0 := by
  unfold lowerBound
  by_cases h : Bytes.lt a k = true
  · simp [h]
  · simp [h]

theorem put_nil (k : Bytes) : put [] k = [k] := by
  simp [put, lowerBound]

theorem put_cons (a : Bytes) (r : List Bytes) (k : Bytes) :
    put (a :: r) k =
      if Bytes.lt a k = true then a :: put r k else if a = k then a :: r else k :: a :: r := by
  unfold put
  simp only [lowerBound_cons]
  by_cases h : Bytes.lt a k = true
  · simp only [h, if_true, List.getElem?_cons_succ, List.take_succ_cons, List.drop_succ_cons]
    by_cases h2 : r[lowerBound r k]? = some k
    · simp [h2]
    · simp [h2]
  · rw [if_neg h, if_neg h]
    simp only [List.getElem?_cons_zero, List.take_zero, List.drop_zero, List.nil_append,
      Option.some.injEq]

theorem del_nil (k : Bytes) : del [] k = [] := by
  simp [del, lowerBound]

theorem del_cons (a : Bytes) (r : List Bytes) (k : Bytes) :
    del (a :: r) k =
      if Bytes.lt a k = true then a :: del r k else if a = k then r else a :: r := by
  unfold del
  simp only [lowerBound_cons]
  by_cases h : Bytes.lt a k = true
  · simp only [h, if_true, List.getElem?_cons_succ, List.take_succ_cons, List.drop_succ_cons]
    by_cases h2 : r[lowerBound r k]? = some k
    · simp [h2]
    · simp [h2]
  · rw [if_neg h, if_neg h]
    simp only [List.getElem?_cons_zero, List.take_zero, List.drop_succ_cons, List.drop_zero,
      List.nil_append, Option.some.injEq]

/-- membership after `put` (no sortedness needed) -/
theorem mem_put (k x : Bytes) : ∀ keys : List Bytes, x ∈ put keys k ↔ x = k ∨ x ∈ keys
  | [] => by simp [put_nil]
  | a :: r => by
    rw [put_cons]
    by_cases h : Bytes.lt a k = true
    · simp only [h, if_true, List.mem_cons, mem_put k x r]
      constructor
      · rintro (h | h | h) <;> simp [h]
      · rintro (h | h | h) <;> simp [h]
    · simp only [h]
      by_cases h2 : a = k
      · subst h2; simp
      · simp [h2]

/-- `del` only removes -/
theorem mem_of_mem_del (k x : Bytes) : ∀ keys : List Bytes, x ∈ del keys k → x ∈ keys
  | [] => by simp [del_nil]
  | a :: r => by
    rw [del_cons]
    by_cases h : Bytes.lt a k = true
    · simp only [h, if_true, List.mem_cons]
      rintro (h | h)
      · exact Or.inl h
      · exact Or.inr (mem_of_mem_del k x r h)
    · simp only [h]
      by_cases h2 : a = k
      · simp only [h2, if_true]; exact List.mem_cons_of_mem _
      · simp only [h2, if_false]; exact id

end Bolt.Node
