import Bolt.Model.BktInv
namespace Bolt.Bkt.BktOpsL
open Bolt Bolt.BTree Bolt.Bkt

end Bolt.Bkt.BktOpsL
