/-
Helper lemmas for `Bolt.Props.C04BktOps`: the abstraction `absBk` of a bucket with nested
buckets under the well-formedness `curOk`, a frame lemma for `modifyBk`, and the local effect
of every API call on one bucket.
-/
import Bolt.Model.BktInv
import Bolt.Lemmas.BTreeOps
import Bolt.Lemmas.BTreeReb
import Bolt.Lemmas.BTreeSpill
import Bolt.Lemmas.BTreeBridge
set_option linter.unusedSimpArgs false
namespace Bolt.Bkt.BktOpsL
open Bolt Bolt.BTree Bolt.Bkt

/-! ### the copy of `tightN` in the model is the one of `Lemmas/BTreeReb` -/

mutual
theorem tightN_eq : ∀ (n : N) (lo : Option Bytes), tightN lo n = RebL.tightN lo n
  | .leaf _ _, lo => by simp only [tightN, RebL.tightN]
  | .branch _ kids, lo => by cases lo <;> simp only [tightN, RebL.tightN, tightKids_eq kids _]
theorem tightKids_eq : ∀ (kids : List (Bytes × N)) (lo : Option Bytes),
    tightKids lo kids = RebL.tightKids lo kids
  | [], lo => by simp only [tightKids, RebL.tightKids]
  | (_, c) :: r, lo => by simp only [tightKids, RebL.tightKids, tightN_eq c lo, tightKids_eq r _]
end

/-! ### unfolding the abstraction -/

/-- content of the nested bucket named `n` of a bucket at `path` whose cache is `o` -/
def subV (orig : Bk) (f : Nat) (path : List Bytes) (o : List (Bytes × Bk)) (n : Bytes) : SVal :=
  match lookupBk n o with
  | some c => absBk orig f (path ++ [n]) c
  | none =>
    match bkAt (path ++ [n]) orig with
    | some c => absBk c f [] c
    | none => .bkt 0 []

def absIt (sub : Bytes → SVal) (i : Item) : Bytes × SVal :=
  if i.flags % 2 = 1 then (i.key, sub i.key) else (i.key, .val i.val)

/-- the entries of `absBk` -/
def entsA (orig : Bk) : Nat → List Bytes → Bk → Ents
  | 0, _, _ => []
  | f+1, path, b => (flatten b.tree).map (absIt (subV orig f path b.opened))

theorem absBk_eq (orig : Bk) (f : Nat) (path : List Bytes) (b : Bk) :
    absBk orig f path b = .bkt b.seq (entsA orig f path b) := by
  cases f with
  | zero => rfl
  | succ f => rfl

theorem absIt_fst (sub : Bytes → SVal) (i : Item) : (absIt sub i).1 = i.key := by
  unfold absIt; split <;> rfl


theorem absIt_bucket (sub : Bytes → SVal) (i : Item) (h : i.flags % 2 = 1) :
    absIt sub i = (i.key, sub i.key) := by
  unfold absIt; rw [if_pos h]

theorem absIt_plain (sub : Bytes → SVal) (i : Item) (h : ¬ i.flags % 2 = 1) :
    absIt sub i = (i.key, .val i.val) := by
  unfold absIt; rw [if_neg h]

/-- `absIt` only looks at `sub` on the key of a bucket element -/
theorem absIt_congr (sub sub' : Bytes → SVal) (i : Item) (h : i.flags % 2 = 1 → sub i.key = sub' i.key) :
    absIt sub i = absIt sub' i := by
  unfold absIt
  by_cases hf : i.flags % 2 = 1
  · rw [if_pos hf, if_pos hf, h hf]
  · rw [if_neg hf, if_neg hf]

theorem absBk_isBkt (orig : Bk) (f : Nat) (path : List Bytes) (b : Bk) :
    (absBk orig f path b).isBucket = true := by rw [absBk_eq]; rfl

theorem subV_isBkt (orig : Bk) (f : Nat) (path : List Bytes) (o : List (Bytes × Bk)) (n : Bytes) :
    (subV orig f path o n).isBucket = true := by
  unfold subV
  split
  · exact absBk_isBkt ..
  · split
    · exact absBk_isBkt ..
    · rfl

/-! ### the cache `opened` -/

theorem lookupBk_nil (n : Bytes) : lookupBk n [] = none := rfl

theorem lookupBk_cons (n : Bytes) (q : Bytes × Bk) (l : List (Bytes × Bk)) :
    lookupBk n (q :: l) = if q.1 = n then some q.2 else lookupBk n l := by
  unfold lookupBk
  rw [List.find?_cons]
  by_cases h : q.1 = n
  · have : (q.1 == n) = true := by simpa using h
    rw [this, if_pos h]; rfl
  · have : (q.1 == n) = false := by simpa using h
    rw [this, if_neg h]

theorem lookupBk_replace (n : Bytes) (c' : Bk) (k : Bytes) : ∀ l : List (Bytes × Bk),
    lookupBk k (l.map (fun p => if p.1 == n then (p.1, c') else p)) =
      if k = n then (lookupBk n l).map (fun _ => c') else lookupBk k l
  | [] => by simp [lookupBk_nil]
  | q :: l => by
    have ih := lookupBk_replace n c' k l
    rw [List.map_cons, lookupBk_cons, ih]
    by_cases hq : q.1 = n
    · by_cases hk : k = n
      · subst hk; simp [hq, lookupBk_cons]
      · have : ¬ q.1 = k := fun e => hk (e ▸ hq)
        have hnk : ¬ n = k := fun e => hk e.symm
        simp [hq, hk, hnk, lookupBk_cons]
    · by_cases hk : k = n
      · subst hk; simp [hq, lookupBk_cons]
      · simp [hq, hk, lookupBk_cons]

theorem lookupBk_filter (n k : Bytes) : ∀ l : List (Bytes × Bk),
    lookupBk k (l.filter (fun p => !(p.1 == n))) = if k = n then none else lookupBk k l
  | [] => by simp [lookupBk_nil]
  | q :: l => by
    have ih := lookupBk_filter n k l
    rw [List.filter_cons]
    by_cases hq : q.1 = n
    · simp only [hq, beq_self_eq_true, Bool.not_true, Bool.false_eq_true, if_false]
      rw [ih, lookupBk_cons]
      by_cases hk : k = n
      · simp [hk]
      · have : ¬ q.1 = k := fun e => hk (e ▸ hq)
        simp [hk, this]
    · have hq' : (q.1 == n) = false := by simpa using hq
      simp only [hq', Bool.not_false, if_true]
      rw [lookupBk_cons, lookupBk_cons, ih]
      by_cases hk : k = n
      · subst hk; simp [hq]
      · simp [hk]

theorem lookupBk_snoc (n k : Bytes) (c : Bk) : ∀ l : List (Bytes × Bk),
    lookupBk k (l ++ [(n, c)]) = (lookupBk k l).or (if n = k then some c else none)
  | [] => by simp [lookupBk_nil, lookupBk_cons]
  | q :: l => by
    rw [List.cons_append, lookupBk_cons, lookupBk_cons, lookupBk_snoc n k c l]
    by_cases hq : q.1 = k <;> simp [hq]

theorem lookupBk_mem {n : Bytes} {c : Bk} : ∀ {l : List (Bytes × Bk)}, lookupBk n l = some c → (n, c) ∈ l
  | [], h => by simp [lookupBk_nil] at h
  | q :: l, h => by
    rw [lookupBk_cons] at h
    by_cases hq : q.1 = n
    · rw [if_pos hq] at h; cases h; subst hq; exact List.mem_cons_self ..
    · rw [if_neg hq] at h; exact List.mem_cons_of_mem _ (lookupBk_mem h)

theorem lookupBk_isSome (n : Bytes) : ∀ l : List (Bytes × Bk),
    (lookupBk n l).isSome = true ↔ n ∈ l.map (·.1)
  | [] => by simp [lookupBk_nil]
  | q :: l => by
    rw [lookupBk_cons, List.map_cons, List.mem_cons]
    by_cases hq : q.1 = n
    · simp [hq]
    · rw [if_neg hq, lookupBk_isSome n l]
      constructor
      · exact Or.inr
      · rintro (h | h)
        · exact absurd h.symm hq
        · exact h

theorem lookupBk_none (n : Bytes) (l : List (Bytes × Bk)) :
    lookupBk n l = none ↔ n ∉ l.map (·.1) := by
  rw [← lookupBk_isSome]
  cases lookupBk n l <;> simp

theorem nodupB_iff : ∀ l : List Bytes, nodupB l = true ↔ l.Nodup
  | [] => by simp [nodupB]
  | a :: r => by
    rw [nodupB, List.nodup_cons, Bool.and_eq_true, nodupB_iff r]
    simp

/-- with distinct names the cache holds one entry per name -/
theorem lookupBk_unique {n : Bytes} {c : Bk} : ∀ {l : List (Bytes × Bk)}, (l.map (·.1)).Nodup →
    lookupBk n l = some c → ∀ q ∈ l, q.1 = n → q = (n, c)
  | [], _, h, _, _, _ => by simp [lookupBk_nil] at h
  | x :: l, hn, h, q, hq, hqn => by
    rw [List.map_cons, List.nodup_cons] at hn
    rw [lookupBk_cons] at h
    by_cases hx : x.1 = n
    · rw [if_pos hx] at h
      cases h
      rcases List.mem_cons.mp hq with rfl | hq
      · rw [← hx]
      · exfalso; apply hn.1
        rw [hx, ← hqn]; exact List.mem_map_of_mem hq
    · rw [if_neg hx] at h
      rcases List.mem_cons.mp hq with rfl | hq
      · exact absurd hqn hx
      · exact lookupBk_unique hn.2 h q hq hqn

theorem replace_id {n : Bytes} {c : Bk} {l : List (Bytes × Bk)} (hn : (l.map (·.1)).Nodup)
    (h : lookupBk n l = some c) : l.map (fun p => if p.1 == n then (p.1, c) else p) = l := by
  conv => rhs; rw [← List.map_id l]
  apply List.map_congr_left
  intro q hq
  by_cases hqn : q.1 = n
  · have := lookupBk_unique hn h q hq hqn
    simp [hqn, this]
  · simp [hqn]

theorem replace_names (n : Bytes) (c : Bk) (l : List (Bytes × Bk)) :
    (l.map (fun p => if p.1 == n then (p.1, c) else p)).map (·.1) = l.map (·.1) := by
  rw [List.map_map]
  apply List.map_congr_left
  intro q _
  by_cases hqn : q.1 = n <;> simp [hqn]


/-! ### item lists -/

/-- in a list with ascending keys an item is the one `find?` returns for its key -/
theorem find_of_mem : ∀ {l : List Item}, OpsL.SortedI l → ∀ x ∈ l, l.find? (fun i => i.key == x.key) = some x
  | [], _, x, hx => by cases hx
  | a :: r, hs, x, hx => by
    have hs' := List.pairwise_cons.mp hs
    by_cases ha : a.key = x.key
    · rcases List.mem_cons.mp hx with rfl | hx
      · exact OpsL.find_cons_eq _ rfl
      · exact absurd ha (Bytes.lt_ne (hs'.1 x hx))
    · rw [OpsL.find_cons_ne _ ha]
      rcases List.mem_cons.mp hx with rfl | hx
      · exact absurd rfl ha
      · exact find_of_mem hs'.2 x hx

theorem find_mem {l : List Item} {k : Bytes} {x : Item} (h : l.find? (fun i => i.key == k) = some x) :
    x ∈ l ∧ x.key = k := by
  refine ⟨List.mem_of_find?_eq_some h, ?_⟩
  have := List.find?_some h
  simpa using this

def bktName (i : Item) : Option Bytes := if i.flags % 2 = 1 then some i.key else none

theorem bucketNames_eq (t : N) : bucketNames t = (flatten t).filterMap bktName := rfl

theorem mem_names {l : List Item} {n : Bytes} :
    n ∈ l.filterMap bktName ↔ ∃ i ∈ l, i.flags % 2 = 1 ∧ i.key = n := by
  rw [List.mem_filterMap]
  constructor
  · rintro ⟨i, hi, h⟩
    unfold bktName at h
    by_cases hf : i.flags % 2 = 1
    · rw [if_pos hf] at h; cases h; exact ⟨i, hi, hf, rfl⟩
    · rw [if_neg hf] at h; cases h
  · rintro ⟨i, hi, hf, rfl⟩
    exact ⟨i, hi, by unfold bktName; rw [if_pos hf]⟩

/-- a bucket name of a sorted item list is found by `find?`, as a bucket element -/
theorem names_find {l : List Item} (hs : OpsL.SortedI l) {n : Bytes} :
    n ∈ l.filterMap bktName ↔ ∃ i, l.find? (fun i => i.key == n) = some i ∧ i.flags % 2 = 1 := by
  rw [mem_names]
  constructor
  · rintro ⟨i, hi, hf, rfl⟩
    exact ⟨i, find_of_mem hs i hi, hf⟩
  · rintro ⟨i, hi, hf⟩
    exact ⟨i, (find_mem hi).1, hf, (find_mem hi).2⟩

theorem lookup_abs (sub : Bytes → SVal) (l : List Item) (k : Bytes) :
    entsLookup (l.map (absIt sub)) k = (l.find? (fun i => i.key == k)).map (fun i => (absIt sub i).2) :=
  BridgeL.lookup_map (absIt sub) (absIt_fst sub) k l

/-- the entry of a nested bucket -/
theorem lookup_abs_bucket (sub : Bytes → SVal) {l : List Item} (hs : OpsL.SortedI l) {n : Bytes}
    (hn : n ∈ l.filterMap bktName) : entsLookup (l.map (absIt sub)) n = some (sub n) := by
  obtain ⟨i, hi, hf⟩ := (names_find hs).mp hn
  rw [lookup_abs, hi, Option.map_some, absIt_bucket sub i hf, (find_mem hi).2]

theorem inTx_sorted {t : N} (h : InTx t) : OpsL.SortedI (flatten t) := by
  have := (SpillL.inTx_flatten_sorted t _ _ _ _ h).1
  rw [List.pairwise_map] at this
  exact this

/-! ### the invariants, clause by clause -/

theorem curOk_zero (orig : Bk) (path : List Bytes) (b : Bk) : curOk orig 0 path b = false := by
  rw [curOk]

theorem curOk_succ (orig : Bk) (f : Nat) (path : List Bytes) (b : Bk) :
    curOk orig (f+1) path b = true ↔
      InTx b.tree ∧ tightN none b.tree = true ∧ (pgids b.tree).Nodup ∧ depth b.tree ≤ f ∧
      (b.opened.map (·.1)).Nodup ∧
      (∀ q ∈ b.opened, q.1 ∈ bucketNames b.tree ∧ curOk orig f (path ++ [q.1]) q.2 = true) ∧
      (∀ n ∈ bucketNames b.tree,
        (lookupBk n b.opened).isSome = true ∨ (bkAt (path ++ [n]) orig).isSome = true) := by
  cases b with
  | mk r s t o =>
    rw [curOk]
    simp only [Bk.tree, Bk.opened, Bool.and_eq_true, decide_eq_true_eq, nodupB_iff, List.all_eq_true,
      List.contains_iff_mem, Bool.or_eq_true, and_assoc]

theorem curOk_pos {orig : Bk} {f : Nat} {path : List Bytes} {b : Bk} (h : curOk orig f path b = true) :
    ∃ f', f = f' + 1 := by
  cases f with
  | zero => rw [curOk_zero] at h; cases h
  | succ f' => exact ⟨f', rfl⟩

theorem origOkG_zero (ids : Bool) (b : Bk) : origOkG ids 0 b = false := by rw [origOkG]

theorem origOkG_succ (ids : Bool) (f : Nat) (b : Bk) :
    origOkG ids (f+1) b = true ↔
      Committed b.tree ∧ (ids = true → (pgids b.tree).Nodup) ∧ depth b.tree ≤ f ∧
      b.opened.map (·.1) = bucketNames b.tree ∧ ∀ q ∈ b.opened, origOkG ids f q.2 = true := by
  cases b with
  | mk r s t o =>
    rw [origOkG]
    cases ids <;>
    simp only [Bk.tree, Bk.opened, Bool.and_eq_true, decide_eq_true_eq, List.all_eq_true, beq_iff_eq,
      Bool.or_eq_true, Bool.not_eq_true', and_assoc, Bool.not_true, Bool.not_false, Bool.false_or,
      Bool.true_or, true_and, Bool.false_eq_true, false_imp_iff, true_imp_iff, forall_const]


/-! ### navigation: `bkAt` in the model is `bucketAt` on the abstraction -/

theorem bkAt_nil (b : Bk) : bkAt [] b = some b := rfl

theorem bkAt_cons (n : Bytes) (rest : List Bytes) (b : Bk) :
    bkAt (n :: rest) b = (lookupBk n b.opened).bind (bkAt rest) := rfl

theorem bkAt_cons_some {n : Bytes} {rest : List Bytes} {c b : Bk} (h : bkAt (n :: rest) c = some b) :
    ∃ ch, lookupBk n c.opened = some ch ∧ bkAt rest ch = some b := by
  rw [bkAt_cons] at h
  exact Option.bind_eq_some_iff.mp h

theorem bkAt_append (q : List Bytes) : ∀ (p : List Bytes) (c : Bk),
    bkAt (p ++ q) c = (bkAt p c).bind (bkAt q)
  | [], c => by simp [bkAt_nil]
  | n :: p, c => by
    rw [List.cons_append, bkAt_cons, bkAt_cons]
    cases lookupBk n c.opened with
    | none => rfl
    | some ch => simp only [Option.bind_some]; exact bkAt_append q p ch

theorem bkAt_snoc {p : List Bytes} {c b : Bk} (n : Bytes) (h : bkAt p c = some b) :
    bkAt (p ++ [n]) c = lookupBk n b.opened := by
  rw [bkAt_append, h, Option.bind_some, bkAt_cons]
  cases lookupBk n b.opened <;> rfl

theorem modifyBk_nil (g : Bk → Option Bk) (b : Bk) : modifyBk g [] b = g b := rfl

theorem modifyBk_cons (g : Bk → Option Bk) (n : Bytes) (rest : List Bytes) (b ch : Bk)
    (h : lookupBk n b.opened = some ch) :
    modifyBk g (n :: rest) b = (modifyBk g rest ch).map
      (fun c' => b.setOpened (b.opened.map (fun p => if p.1 == n then (p.1, c') else p))) := by
  rw [modifyBk]; simp only [h]

theorem setOpened_seq (o : List (Bytes × Bk)) (b : Bk) : (b.setOpened o).seq = b.seq := by cases b; rfl
theorem setOpened_tree (o : List (Bytes × Bk)) (b : Bk) : (b.setOpened o).tree = b.tree := by cases b; rfl
theorem setOpened_opened (o : List (Bytes × Bk)) (b : Bk) : (b.setOpened o).opened = o := by cases b; rfl
theorem setTree_seq (t : N) (b : Bk) : (b.setTree t).seq = b.seq := by cases b; rfl
theorem setTree_tree (t : N) (b : Bk) : (b.setTree t).tree = t := by cases b; rfl
theorem setTree_opened (t : N) (b : Bk) : (b.setTree t).opened = b.opened := by cases b; rfl
theorem setSeq_seq (s : Nat) (b : Bk) : (b.setSeq s).seq = s := by cases b; rfl
theorem setSeq_tree (s : Nat) (b : Bk) : (b.setSeq s).tree = b.tree := by cases b; rfl
theorem setSeq_opened (s : Nat) (b : Bk) : (b.setSeq s).opened = b.opened := by cases b; rfl
theorem setTree_self (b : Bk) : b.setTree b.tree = b := by cases b; rfl
theorem setOpened_self (b : Bk) : b.setOpened b.opened = b := by cases b; rfl

theorem modifyBk_none (g : Bk → Option Bk) : ∀ (p : List Bytes) (c b : Bk),
    bkAt p c = some b → g b = none → modifyBk g p c = none
  | [], c, b, h, hg => by rw [bkAt_nil] at h; cases h; exact hg
  | n :: rest, c, b, h, hg => by
    obtain ⟨ch, h1, h2⟩ := bkAt_cons_some h
    rw [modifyBk_cons g n rest c ch h1, modifyBk_none g rest ch b h2 hg]; rfl

theorem modifyBk_some (g : Bk → Option Bk) : ∀ (p : List Bytes) (c b b' : Bk),
    bkAt p c = some b → g b = some b' → ∃ c', modifyBk g p c = some c' ∧ bkAt p c' = some b'
  | [], c, b, b', h, hg => by rw [bkAt_nil] at h; cases h; exact ⟨b', hg, rfl⟩
  | n :: rest, c, b, b', h, hg => by
    obtain ⟨ch, h1, h2⟩ := bkAt_cons_some h
    obtain ⟨ch', e, hb⟩ := modifyBk_some g rest ch b b' h2 hg
    refine ⟨_, by rw [modifyBk_cons g n rest c ch h1, e]; rfl, ?_⟩
    rw [bkAt_cons, setOpened_opened, lookupBk_replace, if_pos rfl, h1]
    exact hb

/-- (A) the bucket the model reaches through its cache is the bucket the reference model finds
    at the same path -/
theorem bucketAt_abs (orig : Bk) : ∀ (p : List Bytes) (fu : Nat) (pre : List Bytes) (c b : Bk),
    curOk orig fu pre c = true → bkAt p c = some b →
    ∃ f, fu = f + p.length ∧ curOk orig f (pre ++ p) b = true ∧
      bucketAt p (absBk orig fu pre c) = some (b.seq, entsA orig f (pre ++ p) b)
  | [], fu, pre, c, b, hc, h => by
    rw [bkAt_nil] at h; cases h
    refine ⟨fu, rfl, by rw [List.append_nil]; exact hc, ?_⟩
    rw [absBk_eq, List.append_nil]; simp
  | n :: rest, fu, pre, c, b, hc, h => by
    obtain ⟨ch, h1, h2⟩ := bkAt_cons_some h
    obtain ⟨fu', rfl⟩ := curOk_pos hc
    have hc' := (curOk_succ ..).mp hc
    obtain ⟨hin, _, _, _, _, ho, _⟩ := hc'
    have hq := ho _ (lookupBk_mem h1)
    obtain ⟨f, hf, hcb, hba⟩ := bucketAt_abs orig rest fu' (pre ++ [n]) ch b hq.2 h2
    have e : pre ++ [n] ++ rest = pre ++ n :: rest := by simp
    rw [e] at hcb hba
    refine ⟨f, by rw [hf]; rfl, hcb, ?_⟩
    rw [absBk_eq, bucketAt_cons]
    show (entsLookup ((flatten c.tree).map (absIt (subV orig fu' pre c.opened))) n).bind (bucketAt rest) = _
    rw [lookup_abs_bucket _ (inTx_sorted hin) hq.1, Option.bind_some]
    unfold subV
    simp only [h1]
    exact hba

/-- (B) replacing the bucket at `p` replaces the bucket at `p` of the abstraction -/
theorem abs_modify (orig : Bk) (g : Bk → Option Bk) : ∀ (p : List Bytes) (f : Nat) (pre : List Bytes)
    (c c' b b' : Bk), bkAt p c = some b → modifyBk g p c = some c' → g b = some b' →
    absBk orig (f + p.length) pre c' =
      setBucketAt p (b'.seq, entsA orig f (pre ++ p) b') (absBk orig (f + p.length) pre c)
  | [], f, pre, c, c', b, b', h, hm, hg => by
    rw [bkAt_nil] at h; cases h
    rw [modifyBk_nil, hg] at hm; cases hm
    rw [absBk_eq, absBk_eq, List.append_nil]; simp
  | n :: rest, f, pre, c, c', b, b', h, hm, hg => by
    obtain ⟨ch, h1, h2⟩ := bkAt_cons_some h
    rw [modifyBk_cons g n rest c ch h1] at hm
    obtain ⟨ch', hm', rfl⟩ := Option.map_eq_some_iff.mp hm
    have ih := abs_modify orig g rest f (pre ++ [n]) ch ch' b b' h2 hm' hg
    have e : pre ++ [n] ++ rest = pre ++ n :: rest := by simp
    rw [e] at ih
    rw [absBk_eq, absBk_eq, setBucketAt_cons, setOpened_seq]
    congr 1
    show List.map _ (flatten (Bk.setOpened _ c).tree) = entsUpdate n _ (List.map _ (flatten c.tree))
    rw [setOpened_tree, setOpened_opened]
    unfold entsUpdate
    rw [List.map_map]
    apply List.map_congr_left
    intro i _
    simp only [Function.comp]
    rw [absIt_fst]
    by_cases hf : i.flags % 2 = 1
    · rw [absIt_bucket _ i hf, absIt_bucket _ i hf]
      by_cases hk : i.key = n
      · simp only [hk, beq_self_eq_true, if_true]
        unfold subV
        rw [lookupBk_replace, if_pos rfl, h1]
        simp only [Option.map_some]
        exact congrArg (Prod.mk n) ih
      · have hk' : (i.key == n) = false := by simpa using hk
        simp only [hk', Bool.false_eq_true, if_false]
        unfold subV
        rw [lookupBk_replace, if_neg hk]
    · rw [absIt_plain _ i hf, absIt_plain _ i hf]
      by_cases hk : i.key = n
      · simp [hk]
      · have hk' : (i.key == n) = false := by simpa using hk
        simp only [hk', Bool.false_eq_true, if_false]

/-- (C) … and keeps the invariant when the new bucket satisfies it -/
theorem curOk_modify (orig : Bk) (g : Bk → Option Bk) : ∀ (p : List Bytes) (f : Nat) (pre : List Bytes)
    (c c' b b' : Bk), curOk orig (f + p.length) pre c = true → bkAt p c = some b →
    modifyBk g p c = some c' → g b = some b' → curOk orig f (pre ++ p) b' = true →
    curOk orig (f + p.length) pre c' = true
  | [], f, pre, c, c', b, b', hc, h, hm, hg, hb' => by
    rw [bkAt_nil] at h; cases h
    rw [modifyBk_nil, hg] at hm; cases hm
    rw [List.append_nil] at hb'; exact hb'
  | n :: rest, f, pre, c, c', b, b', hc, h, hm, hg, hb' => by
    obtain ⟨ch, h1, h2⟩ := bkAt_cons_some h
    rw [modifyBk_cons g n rest c ch h1] at hm
    obtain ⟨ch', hm', rfl⟩ := Option.map_eq_some_iff.mp hm
    have e : pre ++ [n] ++ rest = pre ++ n :: rest := by simp
    have hc' := (curOk_succ orig (f + rest.length) pre c).mp hc
    obtain ⟨c1, c2, c3, c4, c5, c6, c7⟩ := hc'
    have hch := c6 _ (lookupBk_mem h1)
    have ih := curOk_modify orig g rest f (pre ++ [n]) ch ch' b b' hch.2 h2 hm' hg (by rw [e]; exact hb')
    apply (curOk_succ orig (f + rest.length) pre _).mpr
    rw [setOpened_tree, setOpened_opened]
    refine ⟨c1, c2, c3, c4, by rw [replace_names]; exact c5, ?_, ?_⟩
    · intro q hq
      obtain ⟨q0, hq0, rfl⟩ := List.mem_map.mp hq
      by_cases hqn : q0.1 = n
      · simp only [hqn, beq_self_eq_true, if_true]
        exact ⟨hch.1, ih⟩
      · have : (q0.1 == n) = false := by simpa using hqn
        simp only [this, Bool.false_eq_true, if_false]
        exact c6 q0 hq0
    · intro m hm
      rcases c7 m hm with h' | h'
      · left
        rw [lookupBk_replace]
        by_cases hmn : m = n
        · rw [if_pos hmn, h1]; rfl
        · rw [if_neg hmn]; exact h'
      · exact Or.inr h'

/-- (D) replacing a bucket by itself changes nothing -/
theorem modifyBk_id (orig : Bk) (g : Bk → Option Bk) : ∀ (p : List Bytes) (fu : Nat) (pre : List Bytes)
    (c b : Bk), curOk orig fu pre c = true → bkAt p c = some b → g b = some b →
    modifyBk g p c = some c
  | [], fu, pre, c, b, _, h, hg => by
    rw [bkAt_nil] at h; cases h; exact hg
  | n :: rest, fu, pre, c, b, hc, h, hg => by
    obtain ⟨ch, h1, h2⟩ := bkAt_cons_some h
    obtain ⟨fu', rfl⟩ := curOk_pos hc
    obtain ⟨_, _, _, _, c5, c6, _⟩ := (curOk_succ ..).mp hc
    have hch := c6 _ (lookupBk_mem h1)
    rw [modifyBk_cons g n rest c ch h1, modifyBk_id orig g rest fu' (pre ++ [n]) ch b hch.2 h2 hg]
    simp only [Option.map_some]
    rw [replace_id c5 h1, setOpened_self]


/-! ### buckets of the state the transaction started from -/

theorem closeAll_seq (b : Bk) : (closeAll b).seq = b.seq := by cases b; rfl
theorem closeAll_tree (b : Bk) : (closeAll b).tree = b.tree := by cases b; rfl
theorem closeAll_opened (b : Bk) : (closeAll b).opened = [] := by cases b; rfl

theorem origOk_pos {ids : Bool} {g : Nat} {b : Bk} (h : origOkG ids g b = true) : ∃ g', g = g' + 1 := by
  cases g with
  | zero => rw [origOkG_zero] at h; cases h
  | succ g' => exact ⟨g', rfl⟩

/-- every bucket element of an original bucket is attached -/
theorem orig_lookup {ids : Bool} {g : Nat} {d : Bk} (h : origOkG ids (g+1) d = true) {n : Bytes}
    (hn : n ∈ bucketNames d.tree) : ∃ c2, lookupBk n d.opened = some c2 ∧ origOkG ids g c2 = true := by
  obtain ⟨_, _, _, hnames, hall⟩ := (origOkG_succ ..).mp h
  have : (lookupBk n d.opened).isSome = true := by rw [lookupBk_isSome, hnames]; exact hn
  obtain ⟨c2, hc2⟩ := Option.isSome_iff_exists.mp this
  exact ⟨c2, hc2, hall _ (lookupBk_mem hc2)⟩

theorem origOk_at (ids : Bool) : ∀ (q : List Bytes) (g : Nat) (o c : Bk), origOkG ids g o = true →
    bkAt q o = some c → ∃ g', g = g' + q.length ∧ origOkG ids g' c = true
  | [], g, o, c, ho, h => by rw [bkAt_nil] at h; cases h; exact ⟨g, rfl, ho⟩
  | n :: rest, g, o, c, ho, h => by
    obtain ⟨ch, h1, h2⟩ := bkAt_cons_some h
    obtain ⟨g1, rfl⟩ := origOk_pos ho
    obtain ⟨_, _, _, _, hall⟩ := (origOkG_succ ..).mp ho
    obtain ⟨g', hg', hc⟩ := origOk_at ids rest g1 ch c (hall _ (lookupBk_mem h1)) h2
    exact ⟨g', by rw [hg']; rfl, hc⟩

/-- the content of an original bucket does not depend on where it is looked at from -/
theorem abs_orig (ids : Bool) : ∀ (f g : Nat) (c : Bk) (q : List Bytes) (d : Bk), origOkG ids g d = true →
    bkAt q c = some d → absBk c f q d = absBk d f [] d
  | 0, _, c, q, d, _, _ => by rw [absBk_eq, absBk_eq]; rfl
  | f+1, g, c, q, d, hd, h => by
    obtain ⟨g', rfl⟩ := origOk_pos hd
    rw [absBk_eq, absBk_eq]
    congr 1
    show List.map _ _ = List.map _ _
    apply List.map_congr_left
    intro i hi
    apply absIt_congr
    intro hf
    have hn : i.key ∈ bucketNames d.tree := mem_names.mpr ⟨i, hi, hf, rfl⟩
    obtain ⟨c2, hc2, ho2⟩ := orig_lookup hd hn
    unfold subV
    simp only [hc2]
    rw [abs_orig ids f g' c (q ++ [i.key]) c2 ho2 (by rw [bkAt_snoc _ h]; exact hc2),
      abs_orig ids f g' d ([] ++ [i.key]) c2 ho2 (by rw [bkAt_snoc _ (bkAt_nil d)]; exact hc2)]

/-- a freshly opened bucket has the content the file holds for it -/
theorem abs_closeAll (ids : Bool) (orig : Bk) (f g : Nat) (q : List Bytes) (c : Bk)
    (hc : origOkG ids g c = true) (h : bkAt q orig = some c) :
    absBk orig f q (closeAll c) = absBk c f [] c := by
  rw [absBk_eq, absBk_eq, closeAll_seq]
  congr 1
  cases f with
  | zero => rfl
  | succ f =>
    obtain ⟨g', rfl⟩ := origOk_pos hc
    show List.map _ (flatten (closeAll c).tree) = List.map _ _
    rw [closeAll_tree, closeAll_opened]
    apply List.map_congr_left
    intro i hi
    apply absIt_congr
    intro hf
    have hn : i.key ∈ bucketNames c.tree := mem_names.mpr ⟨i, hi, hf, rfl⟩
    obtain ⟨c2, hc2, ho2⟩ := orig_lookup hc hn
    unfold subV
    rw [lookupBk_nil, bkAt_snoc _ h]
    simp only [hc2]
    rw [abs_orig ids f g' c ([] ++ [i.key]) c2 ho2 (by rw [bkAt_snoc _ (bkAt_nil c)]; exact hc2)]

/-- … and is well-formed -/
theorem curOk_closeAll (orig : Bk) (g : Nat) (q : List Bytes) (c : Bk)
    (hc : origOkG true g c = true) (h : bkAt q orig = some c) : curOk orig g q (closeAll c) = true := by
  obtain ⟨g', rfl⟩ := origOk_pos hc
  obtain ⟨h1, h2, h3, h4, _⟩ := (origOkG_succ ..).mp hc
  apply (curOk_succ ..).mpr
  rw [closeAll_tree, closeAll_opened]
  refine ⟨OpsL.committed_inTx _ h1, ?_, h2 rfl, h3, List.nodup_nil, fun q hq => (by cases hq), ?_⟩
  · rw [tightN_eq]
    exact RebL.tight_of_committed _ true none h1.1 (fun l hl => by cases hl)
  · intro n hn
    right
    rw [bkAt_snoc _ h, lookupBk_isSome, h4]; exact hn


/-! ### bucket names under the list operations -/

theorem bktName_none {i : Item} (h : ¬ i.flags % 2 = 1) : bktName i = none := by
  unfold bktName; rw [if_neg h]

theorem bktName_some {i : Item} (h : i.flags % 2 = 1) : bktName i = some i.key := by
  unfold bktName; rw [if_pos h]

theorem names_insSorted (it : Item) (hit : ¬ it.flags % 2 = 1) : ∀ l : List Item,
    (∀ x, l.find? (fun i => i.key == it.key) = some x → ¬ x.flags % 2 = 1) →
    (insSorted it l).filterMap bktName = l.filterMap bktName
  | [], _ => by simp [insSorted, bktName_none hit]
  | x :: r, h => by
    rw [OpsL.insSorted_cons]
    by_cases h1 : it.key = x.key
    · have hx : ¬ x.flags % 2 = 1 := h x (OpsL.find_cons_eq _ h1.symm)
      simp [h1, List.filterMap_cons, bktName_none hit, bktName_none hx]
    · have h1' : (it.key == x.key) = false := by simpa using h1
      rw [h1']
      simp only [Bool.false_eq_true, if_false]
      by_cases h2 : Bytes.lt it.key x.key = true
      · rw [if_pos h2, List.filterMap_cons, bktName_none hit]
      · rw [if_neg h2, List.filterMap_cons, List.filterMap_cons (a := x),
          names_insSorted it hit r (fun y hy => h y (by rw [OpsL.find_cons_ne _ (fun e => h1 e.symm)]; exact hy))]

theorem filterMap_filter_none {α β} (F : α → Option β) (p : α → Bool) : ∀ l : List α,
    (∀ x ∈ l, p x = false → F x = none) → (l.filter p).filterMap F = l.filterMap F
  | [], _ => rfl
  | a :: r, h => by
    have ih := filterMap_filter_none F p r (fun x hx => h x (List.mem_cons_of_mem _ hx))
    rw [List.filter_cons]
    cases hp : p a with
    | true => simp only [if_true]; rw [List.filterMap_cons, List.filterMap_cons, ih]
    | false =>
      simp only [Bool.false_eq_true, if_false]
      rw [List.filterMap_cons, h a (List.mem_cons_self ..) hp, ih]

theorem names_filter (k : Bytes) {l : List Item} (hs : OpsL.SortedI l)
    (h : ∀ x, l.find? (fun i => i.key == k) = some x → ¬ x.flags % 2 = 1) :
    (l.filter (fun i => !(i.key == k))).filterMap bktName = l.filterMap bktName := by
  apply filterMap_filter_none
  intro x hx hp
  have hk : x.key = k := by simpa using hp
  apply bktName_none
  apply h x
  rw [← hk]; exact find_of_mem hs x hx

theorem isBucketAt_false {l : List Item} {k : Bytes} (h : isBucketAt l k = false) :
    ∀ x, l.find? (fun i => i.key == k) = some x → ¬ x.flags % 2 = 1 := by
  intro x hx hf
  unfold isBucketAt at h
  rw [hx] at h
  simp [hf] at h

theorem names_specPut {l : List Item} (k v : Bytes) :
    (specPut l k v).filterMap bktName = l.filterMap bktName := by
  unfold specPut
  cases hb : isBucketAt l k with
  | true => rfl
  | false =>
    simp only [Bool.false_eq_true, if_false]
    exact names_insSorted _ (by show ¬ 0 % 2 = 1; decide) l (isBucketAt_false hb)

theorem names_specDel {l : List Item} (hs : OpsL.SortedI l) (k : Bytes) :
    (specDel l k).filterMap bktName = l.filterMap bktName := by
  unfold specDel
  cases hb : isBucketAt l k with
  | true => rfl
  | false =>
    simp only [Bool.false_eq_true, if_false]
    exact names_filter k hs (isBucketAt_false hb)

/-! ### `Put` / `Delete` on one bucket -/

theorem entsA_succ (orig : Bk) (f : Nat) (path : List Bytes) (b : Bk) :
    entsA orig (f+1) path b = (flatten b.tree).map (absIt (subV orig f path b.opened)) := rfl

/-- replacing the tree by one with the same page ids, depth, names -/
theorem curOk_setTree {orig : Bk} {f : Nat} {path : List Bytes} {b : Bk} {t' : N}
    (hc : curOk orig (f+1) path b = true) (h1 : InTx t') (h2 : tightN none t' = true)
    (h3 : pgids t' = pgids b.tree) (h4 : depth t' = depth b.tree)
    (h5 : bucketNames t' = bucketNames b.tree) : curOk orig (f+1) path (b.setTree t') = true := by
  obtain ⟨_, _, c3, c4, c5, c6, c7⟩ := (curOk_succ ..).mp hc
  apply (curOk_succ ..).mpr
  rw [setTree_tree, setTree_opened, h3, h4, h5]
  exact ⟨h1, h2, c3, c4, c5, c6, c7⟩

theorem put_local (orig : Bk) (fu f : Nat) (path : List Bytes) (b : Bk) (k v : Bytes)
    (hc : curOk orig (f+1) path b = true) (hfu : f ≤ fu) (hk : k ≠ []) :
    ∃ b', putAt fu k v b = some b' ∧ curOk orig (f+1) path b' = true ∧ b'.seq = b.seq ∧
      entsA orig (f+1) path b' =
        (specPut (flatten b.tree) k v).map (absIt (subV orig f path b.opened)) := by
  obtain ⟨c1, c2, c3, c4, c5, c6, c7⟩ := (curOk_succ ..).mp hc
  obtain ⟨t', e, hin, hd, hfl⟩ := OpsL.putT_ok fu b.tree k v c1 hk (Nat.le_trans c4 hfu)
  refine ⟨b.setTree t', by unfold putAt; rw [e]; rfl, ?_, setTree_seq .., ?_⟩
  · apply curOk_setTree hc hin ?_ (OpsL.putT_pgids _ _ _ _ _ e) hd
    · rw [bucketNames_eq, bucketNames_eq, hfl]; exact names_specPut k v
    · rw [tightN_eq] at c2 ⊢
      exact RebL.applyOp_tight (o := .put k v) e c2
  · rw [entsA_succ, setTree_tree, setTree_opened, hfl]

theorem del_local (orig : Bk) (fu f : Nat) (path : List Bytes) (b : Bk) (k : Bytes)
    (hc : curOk orig (f+1) path b = true) (hfu : f ≤ fu) :
    ∃ b', delAt fu k b = some b' ∧ curOk orig (f+1) path b' = true ∧ b'.seq = b.seq ∧
      entsA orig (f+1) path b' =
        (specDel (flatten b.tree) k).map (absIt (subV orig f path b.opened)) := by
  obtain ⟨c1, c2, c3, c4, c5, c6, c7⟩ := (curOk_succ ..).mp hc
  obtain ⟨t', e, hin, hd, hfl⟩ := OpsL.delT_ok fu b.tree k c1 (Nat.le_trans c4 hfu)
  refine ⟨b.setTree t', by unfold delAt; rw [e]; rfl, ?_, setTree_seq .., ?_⟩
  · apply curOk_setTree hc hin ?_ (OpsL.delT_pgids _ _ _ _ e) hd
    · rw [bucketNames_eq, bucketNames_eq, hfl]; exact names_specDel (inTx_sorted c1) k
    · rw [tightN_eq] at c2 ⊢
      exact RebL.applyOp_tight (o := .del k) e c2
  · rw [entsA_succ, setTree_tree, setTree_opened, hfl]


/-! ### `node.put` with a flags argument -/

theorem leafPutF_eq (k v : Bytes) (fl : Nat) (h : Hd) (items : List Item) :
    leafPutF k v fl (.leaf h items) = some (.leaf h (insSorted { key := k, val := v, flags := fl } items)) := by
  rw [← OpsL.putItems_eq]
  unfold leafPutF OpsL.putItems
  simp only
  split <;> rfl

theorem leafOK_putF (k v : Bytes) (fl : Nat) (hk : k ≠ []) :
    OpsL.LeafOK k (leafPutF k v fl) (insSorted { key := k, val := v, flags := fl }) := by
  intro root lo hi h items hm hn hr
  refine ⟨h, leafPutF_eq k v fl h items, hm, rfl, rfl, ?_⟩
  rw [OpsL.inTxN_leaf] at hn ⊢
  obtain ⟨h1, _, h3, h4⟩ := hn
  refine ⟨h1, Or.inr (Or.inl ?_), OpsL.insSorted_sorted _ items h3, ?_⟩
  · intro e
    have := OpsL.insSorted_find_same { key := k, val := v, flags := fl } items
    rw [e] at this; simp at this
  · intro x hx
    rcases OpsL.insSorted_mem _ items x hx with rfl | hx
    · exact ⟨hk, hr⟩
    · exact h4 x hx

theorem leafPutF_pgids (k v : Bytes) (fl : Nat) : ∀ n n', leafPutF k v fl n = some n' → pgids n' = pgids n
  | .leaf h items, n', e => by
    rw [leafPutF_eq] at e; cases e; rw [OpsL.pgids_leaf, OpsL.pgids_leaf]
  | .branch _ _, n', e => by simp [leafPutF] at e

theorem leafPutF_leaf (k v : Bytes) (fl : Nat) :
    ∀ x x', leafPutF k v fl x = some x' → ∃ h items, x' = .leaf h items
  | .leaf h items, x', e => by rw [leafPutF_eq] at e; cases e; exact ⟨_, _, rfl⟩
  | .branch _ _, x', e => by simp [leafPutF] at e

theorem mem_insSorted_self (it : Item) (l : List Item) : it ∈ insSorted it l :=
  List.mem_of_find?_eq_some (OpsL.insSorted_find_same it l)

theorem mem_insSorted_of_mem (it : Item) : ∀ (l : List Item) (x : Item), x ∈ l → x.key ≠ it.key →
    x ∈ insSorted it l
  | [], x, hx, _ => by cases hx
  | a :: r, x, hx, hne => by
    rw [OpsL.insSorted_cons]
    by_cases h1 : it.key = a.key
    · simp only [h1, beq_self_eq_true, if_true]
      rcases List.mem_cons.mp hx with rfl | hx
      · exact absurd h1.symm hne
      · exact List.mem_cons_of_mem _ hx
    · have h1' : (it.key == a.key) = false := by simpa using h1
      rw [h1']
      simp only [Bool.false_eq_true, if_false]
      by_cases h2 : Bytes.lt it.key a.key = true
      · rw [if_pos h2]; exact List.mem_cons_of_mem _ hx
      · rw [if_neg h2]
        rcases List.mem_cons.mp hx with rfl | hx
        · exact List.mem_cons_self ..
        · exact List.mem_cons_of_mem _ (mem_insSorted_of_mem it r x hx hne)

/-- the names after a new bucket element went in -/
theorem names_insBucket (it : Item) (hit : it.flags % 2 = 1) (l : List Item)
    (hnone : l.find? (fun i => i.key == it.key) = none) (n : Bytes) :
    n ∈ (insSorted it l).filterMap bktName ↔ n = it.key ∨ n ∈ l.filterMap bktName := by
  rw [mem_names, mem_names]
  constructor
  · rintro ⟨i, hi, hf, rfl⟩
    rcases OpsL.insSorted_mem it l i hi with rfl | hi
    · exact Or.inl rfl
    · exact Or.inr ⟨i, hi, hf, rfl⟩
  · rintro (rfl | ⟨i, hi, hf, rfl⟩)
    · exact ⟨it, mem_insSorted_self it l, hit, rfl⟩
    · refine ⟨i, mem_insSorted_of_mem it l i hi ?_, hf, rfl⟩
      have := List.find?_eq_none.mp hnone i hi
      simpa using this

theorem names_erase (k : Bytes) (l : List Item) (n : Bytes) :
    n ∈ (l.filter (fun i => !(i.key == k))).filterMap bktName ↔ n ∈ l.filterMap bktName ∧ n ≠ k := by
  rw [mem_names, mem_names]
  constructor
  · rintro ⟨i, hi, hf, rfl⟩
    obtain ⟨h1, h2⟩ := List.mem_filter.mp hi
    exact ⟨⟨i, h1, hf, rfl⟩, by simpa using h2⟩
  · rintro ⟨⟨i, hi, hf, rfl⟩, hne⟩
    exact ⟨i, List.mem_filter.mpr ⟨hi, by simpa using hne⟩, hf, rfl⟩

/-! ### `CreateBucket` / `DeleteBucket` / `SetSequence` / `Bucket` on one bucket -/

theorem absBk_emptyInline (orig : Bk) (f : Nat) (q : List Bytes) : absBk orig f q emptyInline = .bkt 0 [] := by
  rw [absBk_eq]
  cases f <;> rfl

theorem curOk_emptyInline (orig : Bk) (f : Nat) (q : List Bytes) : curOk orig (f+2) q emptyInline = true := by
  apply (curOk_succ ..).mpr
  refine ⟨by decide, rfl, by decide, ?_, List.nodup_nil, fun q hq => (by cases hq), fun n hn => (by cases hn)⟩
  show depth (N.leaf _ []) ≤ f + 1
  rw [OpsL.depth_leaf]; omega

/-- the cache after `CreateBucket` / `DeleteBucket` answers as before for every other name -/
theorem lookupBk_created (name k : Bytes) (c : Bk) (o : List (Bytes × Bk)) (hk : k ≠ name) :
    lookupBk k (o.filter (fun p => !(p.1 == name)) ++ [(name, c)]) = lookupBk k o := by
  rw [lookupBk_snoc, lookupBk_filter, if_neg hk, if_neg (fun e => hk e.symm)]
  cases lookupBk k o <;> rfl

theorem subV_congr (orig : Bk) (f : Nat) (path : List Bytes) (o o' : List (Bytes × Bk)) (n : Bytes)
    (h : lookupBk n o' = lookupBk n o) : subV orig f path o' n = subV orig f path o n := by
  unfold subV; rw [h]

theorem nodup_filter_names (name : Bytes) {o : List (Bytes × Bk)} (h : (o.map (·.1)).Nodup) :
    ((o.filter (fun p => !(p.1 == name))).map (·.1)).Nodup :=
  List.Nodup.sublist (List.Sublist.map _ List.filter_sublist) h

theorem create_local (orig : Bk) (fu f : Nat) (path : List Bytes) (b : Bk) (name : Bytes)
    (hc : curOk orig (f+1) path b = true) (hfu : f ≤ fu) (hf2 : 2 ≤ f) :
    (createAt fu name b = none ∧
      (name = [] ∨ ((flatten b.tree).find? (fun i => i.key == name)).isSome = true)) ∨
    (∃ b', createAt fu name b = some b' ∧ name ≠ [] ∧
      (flatten b.tree).find? (fun i => i.key == name) = none ∧
      curOk orig (f+1) path b' = true ∧ b'.seq = b.seq ∧
      entsA orig (f+1) path b' = entsInsert name (.bkt 0 []) (entsA orig (f+1) path b) ∧
      (lookupBk name b'.opened).isSome = true) := by
  obtain ⟨c1, c2, c3, c4, c5, c6, c7⟩ := (curOk_succ ..).mp hc
  have hdf : depth b.tree ≤ fu := Nat.le_trans c4 hfu
  have hseek := OpsL.seek_find name fu b.tree true true none none hdf c1 (OpsL.inR_none name)
  by_cases hn : name = []
  · left; exact ⟨by unfold createAt; rw [if_pos hn], Or.inl hn⟩
  have hcre : createAt fu name b =
      if ((flatten b.tree).find? (fun i => i.key == name)).isSome then none else createAt.go fu name b := by
    unfold createAt
    rw [if_neg hn, hseek]
    cases seekItem name fu b.tree with
    | none => simp
    | some it => by_cases hk : it.key = name <;> simp [Option.filter, hk]
  cases hfind : (flatten b.tree).find? (fun i => i.key == name) with
  | some i =>
    left
    rw [hfind] at hcre
    exact ⟨hcre, Or.inr rfl⟩
  | none =>
    right
    rw [hfind] at hcre
    simp only [Option.isSome_none, Bool.false_eq_true, if_false] at hcre
    obtain ⟨t', e, hin, _, hd, hfl⟩ := OpsL.modify_ok name (leafPutF name newBucketVal 1)
      (insSorted { key := name, val := newBucketVal, flags := 1 }) (leafOK_putF name newBucketVal 1 hn)
      (OpsL.loc_insSorted { key := name, val := newBucketVal, flags := 1 }) fu b.tree true true none none
      hdf c1 (OpsL.inR_none name)
    have hnames : ∀ n, n ∈ bucketNames t' ↔ n = name ∨ n ∈ bucketNames b.tree := by
      intro n
      rw [bucketNames_eq, bucketNames_eq, hfl]
      exact names_insBucket { key := name, val := newBucketVal, flags := 1 } rfl _ hfind n
    refine ⟨_, by rw [hcre]; unfold createAt.go; rw [e]; rfl, hn, rfl, ?_, ?_, ?_, ?_⟩
    · apply (curOk_succ ..).mpr
      rw [setOpened_tree, setOpened_opened, setTree_tree]
      refine ⟨hin, ?_, ?_, by rw [hd]; exact c4, ?_, ?_, ?_⟩
      · rw [tightN_eq] at c2 ⊢
        exact RebL.modifyAt_tight (leafPutF_leaf name newBucketVal 1) _ _ _ e _ c2
      · rw [OpsL.modifyAt_pgids _ (leafPutF_pgids name newBucketVal 1) _ _ _ e]; exact c3
      · rw [List.map_append, List.nodup_append]
        refine ⟨nodup_filter_names name c5, by simp, ?_⟩
        intro a ha b' hb'
        obtain ⟨q, hq, rfl⟩ := List.mem_map.mp ha
        have := (List.mem_filter.mp hq).2
        simp only [List.map_cons, List.map_nil, List.mem_singleton] at hb'
        subst hb'
        simpa using this
      · intro q hq
        rcases List.mem_append.mp hq with hq | hq
        · obtain ⟨hq1, _⟩ := List.mem_filter.mp hq
          exact ⟨(hnames _).mpr (Or.inr (c6 q hq1).1), (c6 q hq1).2⟩
        · simp only [List.mem_singleton] at hq
          subst hq
          obtain ⟨f', rfl⟩ : ∃ f', f = f' + 2 := ⟨f - 2, by omega⟩
          exact ⟨(hnames _).mpr (Or.inl rfl), curOk_emptyInline ..⟩
      · intro n hn'
        by_cases hnn : n = name
        · left; subst hnn
          rw [lookupBk_snoc, if_pos rfl]
          cases lookupBk n (b.opened.filter _) <;> rfl
        · rw [lookupBk_created name n _ _ hnn]
          rcases (hnames n).mp hn' with h' | h'
          · exact absurd h' hnn
          · exact c7 n h'
    · rw [setOpened_seq, setTree_seq]
    · rw [entsA_succ, entsA_succ, setOpened_tree, setOpened_opened, setTree_tree, hfl,
        BridgeL.insSorted_map _ (absIt_fst _)]
      have h1 : (absIt (subV orig f path (b.opened.filter (fun p => !(p.1 == name)) ++ [(name, emptyInline)]))
          { key := name, val := newBucketVal, flags := 1 }).2 = .bkt 0 [] := by
        rw [absIt_bucket _ _ rfl]
        show subV _ _ _ _ name = _
        unfold subV
        have : lookupBk name (b.opened.filter (fun p => !(p.1 == name)) ++ [(name, emptyInline)]) =
            some emptyInline := by
          rw [lookupBk_snoc, lookupBk_filter, if_pos rfl, if_pos rfl]; rfl
        simp only [this]
        exact absBk_emptyInline ..
      rw [h1]
      congr 1
      apply List.map_congr_left
      intro i hi
      apply absIt_congr
      intro _
      apply subV_congr
      apply lookupBk_created
      have := List.find?_eq_none.mp hfind i hi
      simpa using this
    · rw [setOpened_opened, lookupBk_snoc, if_pos rfl]
      cases lookupBk name (b.opened.filter _) <;> rfl


theorem lookupBk_deleted (name k : Bytes) (o : List (Bytes × Bk)) (hk : k ≠ name) :
    lookupBk k (o.filter (fun p => !(p.1 == name))) = lookupBk k o := by
  rw [lookupBk_filter, if_neg hk]

theorem delete_local (orig : Bk) (fu f : Nat) (path : List Bytes) (b : Bk) (name : Bytes)
    (hc : curOk orig (f+1) path b = true) (hfu : f ≤ fu) :
    (deleteAt fu name b = none ∧
      ∀ i, (flatten b.tree).find? (fun i => i.key == name) = some i → ¬ i.flags % 2 = 1) ∨
    (∃ b' i, deleteAt fu name b = some b' ∧
      (flatten b.tree).find? (fun i => i.key == name) = some i ∧ i.flags % 2 = 1 ∧
      curOk orig (f+1) path b' = true ∧ b'.seq = b.seq ∧
      entsA orig (f+1) path b' = entsErase name (entsA orig (f+1) path b)) := by
  obtain ⟨c1, c2, c3, c4, c5, c6, c7⟩ := (curOk_succ ..).mp hc
  have hdf : depth b.tree ≤ fu := Nat.le_trans c4 hfu
  have hseek := OpsL.seek_find name fu b.tree true true none none hdf c1 (OpsL.inR_none name)
  have hdel : deleteAt fu name b =
      match (flatten b.tree).find? (fun i => i.key == name) with
      | some i => if i.flags % 2 = 1 then
          (modifyAt (leafDel name) (searchPath name fu b.tree) b.tree).map (fun t =>
            (b.setTree t).setOpened (b.opened.filter (fun p => !(p.1 == name))))
          else none
      | none => none := by
    unfold deleteAt
    rw [hseek]
    cases seekItem name fu b.tree with
    | none => simp
    | some it =>
      by_cases hk : it.key = name
      · by_cases hf : it.flags % 2 = 1 <;> simp [Option.filter, hk, hf]
      · simp [Option.filter, hk]
  cases hfind : (flatten b.tree).find? (fun i => i.key == name) with
  | none =>
    left
    rw [hfind] at hdel
    exact ⟨hdel, fun i hi => by cases hi⟩
  | some i =>
    rw [hfind] at hdel
    simp only at hdel
    by_cases hf : i.flags % 2 = 1
    · right
      rw [if_pos hf] at hdel
      obtain ⟨t', e, hin, _, hd, hfl⟩ := OpsL.modify_ok name (leafDel name)
        (fun l => l.filter (fun i => !(i.key == name))) (OpsL.leafOK_del name) (OpsL.loc_filter name)
        fu b.tree true true none none hdf c1 (OpsL.inR_none name)
      have hnames : ∀ n, n ∈ bucketNames t' ↔ n ∈ bucketNames b.tree ∧ n ≠ name := by
        intro n
        rw [bucketNames_eq, bucketNames_eq, hfl]
        exact names_erase name _ n
      refine ⟨_, i, by rw [hdel, e]; rfl, rfl, hf, ?_, ?_, ?_⟩
      · apply (curOk_succ ..).mpr
        rw [setOpened_tree, setOpened_opened, setTree_tree]
        refine ⟨hin, ?_, ?_, by rw [hd]; exact c4, nodup_filter_names name c5, ?_, ?_⟩
        · rw [tightN_eq] at c2 ⊢
          exact RebL.modifyAt_tight (RebL.leafDel_leaf name) _ _ _ e _ c2
        · rw [OpsL.modifyAt_pgids _ (OpsL.leafDel_pgids name) _ _ _ e]; exact c3
        · intro q hq
          obtain ⟨hq1, hq2⟩ := List.mem_filter.mp hq
          exact ⟨(hnames _).mpr ⟨(c6 q hq1).1, by simpa using hq2⟩, (c6 q hq1).2⟩
        · intro n hn'
          obtain ⟨h1, h2⟩ := (hnames n).mp hn'
          rw [lookupBk_deleted name n _ h2]
          exact c7 n h1
      · rw [setOpened_seq, setTree_seq]
      · rw [entsA_succ, entsA_succ, setOpened_tree, setOpened_opened, setTree_tree, hfl,
          ← BridgeL.filter_map _ (absIt_fst _)]
        apply List.map_congr_left
        intro x hx
        apply absIt_congr
        intro _
        apply subV_congr
        apply lookupBk_deleted
        have := (List.mem_filter.mp hx).2
        simpa using this
    · left
      rw [if_neg hf] at hdel
      refine ⟨hdel, fun j hj => ?_⟩
      cases hj; exact hf

/-! `SetSequence` -/

theorem inTx_materialize {t : N} (h : InTx t) : InTx (materialize t) := by
  unfold InTx at h ⊢
  cases t with
  | leaf hd items =>
    rw [OpsL.materialize_leaf]
    rw [OpsL.inTxN_leaf] at h ⊢
    exact ⟨OpsL.mhd_ok .., Or.inl rfl, h.2.2⟩
  | branch hd kids =>
    rw [OpsL.materialize_branch]
    rw [OpsL.inTxN_branch] at h ⊢
    refine ⟨OpsL.mhd_ok .., h.2.1, h.2.2.1, h.2.2.2.1, ?_⟩
    rw [OpsL.mhd_mat]
    exact OpsL.inTxKids_pmat h.2.2.2.2

theorem materialize_flatten (t : N) : flatten (materialize t) = flatten t := by
  cases t with
  | leaf hd items => rw [OpsL.materialize_leaf, OpsL.flatten_leaf, OpsL.flatten_leaf]
  | branch hd kids => rw [OpsL.materialize_branch, OpsL.flatten_branch, OpsL.flatten_branch]

theorem materialize_depth (t : N) : depth (materialize t) = depth t := by
  cases t with
  | leaf hd items => rw [OpsL.materialize_leaf, OpsL.depth_leaf, OpsL.depth_leaf]
  | branch hd kids => rw [OpsL.materialize_branch, OpsL.depth_branch, OpsL.depth_branch]

theorem materialize_tight (lo : Option Bytes) (t : N) : tightN lo (materialize t) = tightN lo t := by
  cases t with
  | leaf hd items => rw [OpsL.materialize_leaf]; simp only [tightN]
  | branch hd kids => rw [OpsL.materialize_branch]; simp only [tightN]

theorem setSeq_local (orig : Bk) (f : Nat) (path : List Bytes) (b : Bk) (s : Nat)
    (hc : curOk orig (f+1) path b = true) :
    ∃ b', setSeqAt s b = some b' ∧ curOk orig (f+1) path b' = true ∧ b'.seq = s ∧
      entsA orig (f+1) path b' = entsA orig (f+1) path b := by
  obtain ⟨c1, c2, c3, c4, c5, c6, c7⟩ := (curOk_succ ..).mp hc
  refine ⟨_, rfl, ?_, setSeq_seq .., ?_⟩
  · apply (curOk_succ ..).mpr
    rw [setSeq_tree, setSeq_opened, setTree_tree, setTree_opened, OpsL.materialize_pgids,
      materialize_depth, materialize_tight, bucketNames_eq, materialize_flatten, ← bucketNames_eq]
    exact ⟨inTx_materialize c1, c2, c3, c4, c5, c6, c7⟩
  · rw [entsA_succ, entsA_succ, setSeq_tree, setSeq_opened, setTree_tree, setTree_opened,
      materialize_flatten]

/-! `Bucket` -/

theorem open_local (orig : Bk) (fu f g : Nat) (path : List Bytes) (b : Bk) (name : Bytes)
    (ho : origOkG true g orig = true) (hg : g = f + 1 + path.length)
    (hc : curOk orig (f+1) path b = true) (hfu : f ≤ fu) :
    (openAt fu orig path name b = none ∧ name ∉ bucketNames b.tree) ∨
    (∃ b', openAt fu orig path name b = some b' ∧ name ∈ bucketNames b.tree ∧
      curOk orig (f+1) path b' = true ∧ b'.seq = b.seq ∧
      entsA orig (f+1) path b' = entsA orig (f+1) path b ∧
      (lookupBk name b'.opened).isSome = true) := by
  obtain ⟨c1, c2, c3, c4, c5, c6, c7⟩ := (curOk_succ ..).mp hc
  have hdf : depth b.tree ≤ fu := Nat.le_trans c4 hfu
  have hseek := OpsL.seek_find name fu b.tree true true none none hdf c1 (OpsL.inR_none name)
  have hs := inTx_sorted c1
  cases hl : lookupBk name b.opened with
  | some ch =>
    right
    refine ⟨b, by unfold openAt; rw [hl], (c6 _ (lookupBk_mem hl)).1, hc, rfl, rfl, by rw [hl]; rfl⟩
  | none =>
    have hop : openAt fu orig path name b =
        match (flatten b.tree).find? (fun i => i.key == name) with
        | some i => if i.flags % 2 = 1 then
            (bkAt (path ++ [name]) orig).map (fun c => b.setOpened (b.opened ++ [(name, closeAll c)]))
            else none
        | none => none := by
      unfold openAt
      rw [hl, hseek]
      cases seekItem name fu b.tree with
      | none => simp
      | some it =>
        by_cases hk : it.key = name
        · by_cases hf : it.flags % 2 = 1 <;> simp [Option.filter, hk, hf]
        · simp [Option.filter, hk]
    cases hfind : (flatten b.tree).find? (fun i => i.key == name) with
    | none =>
      left
      rw [hfind] at hop
      refine ⟨hop, fun hn => ?_⟩
      obtain ⟨i, hi, _⟩ := (names_find hs).mp hn
      rw [hfind] at hi; cases hi
    | some i =>
      rw [hfind] at hop
      simp only at hop
      by_cases hf : i.flags % 2 = 1
      · right
        rw [if_pos hf] at hop
        have hname : name ∈ bucketNames b.tree := (names_find hs).mpr ⟨i, hfind, hf⟩
        have hbk : (bkAt (path ++ [name]) orig).isSome = true := by
          rcases c7 name hname with h' | h'
          · rw [hl] at h'; cases h'
          · exact h'
        obtain ⟨c, hcq⟩ := Option.isSome_iff_exists.mp hbk
        rw [hcq] at hop
        obtain ⟨g', hg', hoc⟩ := origOk_at true _ g orig c ho hcq
        have hgf : g' = f := by
          rw [hg, List.length_append] at hg'
          simp only [List.length_cons, List.length_nil] at hg'
          omega
        subst hgf
        refine ⟨_, hop, hname, ?_, setOpened_seq .., ?_, ?_⟩
        · apply (curOk_succ ..).mpr
          rw [setOpened_tree, setOpened_opened]
          refine ⟨c1, c2, c3, c4, ?_, ?_, ?_⟩
          · rw [List.map_append, List.nodup_append]
            refine ⟨c5, by simp, ?_⟩
            intro a ha b' hb'
            simp only [List.map_cons, List.map_nil, List.mem_singleton] at hb'
            subst hb'
            intro e; subst e
            exact (lookupBk_none _ _).mp hl ha
          · intro q hq
            rcases List.mem_append.mp hq with hq | hq
            · exact c6 q hq
            · simp only [List.mem_singleton] at hq
              subst hq
              exact ⟨hname, curOk_closeAll orig g' (path ++ [name]) c hoc hcq⟩
          · intro n hn'
            rcases c7 n hn' with h' | h'
            · left
              rw [lookupBk_snoc]
              obtain ⟨x, hx⟩ := Option.isSome_iff_exists.mp h'
              rw [hx]; rfl
            · exact Or.inr h'
        · rw [entsA_succ, entsA_succ, setOpened_tree, setOpened_opened]
          apply List.map_congr_left
          intro x hx
          apply absIt_congr
          intro _
          by_cases hxn : x.key = name
          · rw [hxn]
            unfold subV
            have : lookupBk name (b.opened ++ [(name, closeAll c)]) = some (closeAll c) := by
              rw [lookupBk_snoc, hl, if_pos rfl]; rfl
            simp only [this, hl, hcq]
            exact abs_closeAll true orig g' (g') (path ++ [name]) c hoc hcq
          · apply subV_congr
            rw [lookupBk_snoc, if_neg (fun e => hxn e.symm)]
            cases lookupBk x.key b.opened <;> rfl
        · rw [setOpened_opened, lookupBk_snoc, hl, if_pos rfl]; rfl
      · left
        rw [if_neg hf] at hop
        refine ⟨hop, fun hn => ?_⟩
        obtain ⟨j, hj, hjf⟩ := (names_find hs).mp hn
        rw [hfind] at hj; cases hj
        exact hf hjf


/-! ### the whole state -/

theorem absTop_bucketAt (fu : Nat) (orig cur : Bk) (p : List Bytes) :
    bucketAt (topName :: p) (absTop fu orig cur) = bucketAt p (absBk orig fu [] cur) := by
  unfold absTop
  rw [bucketAt_cons, entsLookup_cons, if_pos rfl]; rfl

theorem absTop_set (fu : Nat) (orig cur : Bk) (p : List Bytes) (x : Nat × Ents) :
    setBucketAt (topName :: p) x (absTop fu orig cur) =
      .bkt 0 [(topName, setBucketAt p x (absBk orig fu [] cur))] := by
  unfold absTop
  rw [setBucketAt_cons]
  simp [entsUpdate]

/-- everything the refinement theorems need about the bucket at an opened path -/
theorem frame (fu : Nat) (orig cur : Bk) (p : List Bytes) (b : Bk)
    (hw : curOk orig fu [] cur = true) (hb : bkAt p cur = some b) :
    ∃ f, fu = f + 1 + p.length ∧ curOk orig (f+1) p b = true ∧
      bucketAt (topName :: p) (absTop fu orig cur) = some (b.seq, entsA orig (f+1) p b) ∧
      (∀ (g : Bk → Option Bk) (b' : Bk), g b = some b' → curOk orig (f+1) p b' = true →
        ∃ cur', modifyBk g p cur = some cur' ∧ curOk orig fu [] cur' = true ∧ bkAt p cur' = some b' ∧
          absTop fu orig cur' =
            setBucketAt (topName :: p) (b'.seq, entsA orig (f+1) p b') (absTop fu orig cur)) ∧
      (∀ g : Bk → Option Bk, g b = none → modifyBk g p cur = none) ∧
      (∀ g : Bk → Option Bk, g b = some b → modifyBk g p cur = some cur) ∧
      setBucketAt (topName :: p) (b.seq, entsA orig (f+1) p b) (absTop fu orig cur) = absTop fu orig cur := by
  obtain ⟨f0, hfu, hcb, hba⟩ := bucketAt_abs orig p fu [] cur b hw hb
  rw [List.nil_append] at hcb hba
  obtain ⟨f, rfl⟩ := curOk_pos hcb
  subst hfu
  have hid : ∀ g : Bk → Option Bk, g b = some b → modifyBk g p cur = some cur :=
    fun g hg => modifyBk_id orig g p _ [] cur b hw hb hg
  refine ⟨f, rfl, hcb, by rw [absTop_bucketAt]; exact hba, ?_, fun g hg => modifyBk_none g p cur b hb hg,
    hid, ?_⟩
  · intro g b' hg hcb'
    obtain ⟨cur', hm, hb'⟩ := modifyBk_some g p cur b b' hb hg
    refine ⟨cur', hm, ?_, hb', ?_⟩
    · exact curOk_modify orig g p (f+1) [] cur cur' b b' hw hb hm hg (by rw [List.nil_append]; exact hcb')
    · have := abs_modify orig g p (f+1) [] cur cur' b b' hb hm hg
      rw [List.nil_append] at this
      rw [absTop_set, ← this]; rfl
  · have := abs_modify orig some p (f+1) [] cur cur b b hb (hid some rfl) rfl
    rw [List.nil_append] at this
    rw [absTop_set, ← this]; rfl

/-! ### the reference model on the abstraction of one bucket -/

theorem apiPath_ne (p : List Bytes) : (topName :: p).isEmpty = false := rfl

theorem absIt_snd_bucket (sub : Bytes → SVal) (hsub : ∀ n, (sub n).isBucket = true) (i : Item) :
    (absIt sub i).2.isBucket = decide (i.flags % 2 = 1) := by
  by_cases hf : i.flags % 2 = 1
  · rw [absIt_bucket _ _ hf]; simp [hf, hsub]
  · rw [absIt_plain _ _ hf]; simp [hf, SVal.isBucket]

theorem isBucketAt_abs (sub : Bytes → SVal) (hsub : ∀ n, (sub n).isBucket = true) (l : List Item) (k : Bytes) :
    isBucketAt l k = (entsLookup (l.map (absIt sub)) k).any SVal.isBucket := by
  rw [lookup_abs]
  unfold isBucketAt
  cases l.find? (fun i => i.key == k) with
  | none => rfl
  | some i =>
    simp only [Option.any_some, Option.map_some]
    rw [absIt_snd_bucket sub hsub]
    by_cases hf : i.flags % 2 = 1 <;> simp [hf]

theorem specPut_map (sub : Bytes → SVal) (l : List Item) (k v : Bytes) (hb : isBucketAt l k = false) :
    (specPut l k v).map (absIt sub) = entsInsert k (.val v) (l.map (absIt sub)) := by
  unfold specPut
  rw [hb]
  simp only [Bool.false_eq_true, if_false]
  rw [BridgeL.insSorted_map _ (absIt_fst sub)]
  rfl

theorem specPut_refused (l : List Item) (k v : Bytes) (hb : isBucketAt l k = true) : specPut l k v = l := by
  unfold specPut; rw [hb]; rfl

theorem specDel_map (sub : Bytes → SVal) (l : List Item) (k : Bytes) (hb : isBucketAt l k = false) :
    (specDel l k).map (absIt sub) = entsErase k (l.map (absIt sub)) := by
  unfold specDel
  rw [hb]
  simp only [Bool.false_eq_true, if_false]
  exact BridgeL.filter_map _ (absIt_fst sub) k l

theorem specDel_refused (l : List Item) (k : Bytes) (hb : isBucketAt l k = true) : specDel l k = l := by
  unfold specDel; rw [hb]; rfl

theorem specDel_missing (l : List Item) (k : Bytes) (h : l.find? (fun i => i.key == k) = none) :
    specDel l k = l := by
  unfold specDel
  split
  · rfl
  · exact OpsL.filter_of_find_none k l h

/-- `apiPut` on a bucket whose entries are the abstraction of the item list `l` -/
theorem apiPut_abs (sub : Bytes → SVal) (hsub : ∀ n, (sub n).isBucket = true) (root : SVal)
    (p : List Bytes) (s : Nat) (l : List Item) (k v : Bytes)
    (hp : bucketAt (topName :: p) root = some (s, l.map (absIt sub)))
    (hk : k ≠ []) (hkl : k.length ≤ maxKeySize) (hvl : v.length ≤ maxValueSize) :
    apiPut root (topName :: p) k v =
      if isBucketAt l k then .error .incompatibleValue
      else .ok (setBucketAt (topName :: p) (s, (specPut l k v).map (absIt sub)) root) := by
  have hke : k.isEmpty = false := by
    cases k with
    | nil => exact absurd rfl hk
    | cons _ _ => rfl
  have hkl' : ¬ k.length > maxKeySize := Nat.not_lt.mpr hkl
  have hvl' : ¬ v.length > maxValueSize := Nat.not_lt.mpr hvl
  have hib := isBucketAt_abs sub hsub l k
  unfold apiPut
  rw [hp]
  simp only [apiPath_ne, hke, Bool.false_eq_true, if_false, if_neg hkl', if_neg hvl']
  cases hl : entsLookup (l.map (absIt sub)) k with
  | none =>
    rw [hl] at hib
    have hb : isBucketAt l k = false := hib
    rw [hb, specPut_map sub l k v hb]; rfl
  | some x =>
    rw [hl] at hib
    cases x with
    | val w =>
      have hb : isBucketAt l k = false := hib
      rw [hb, specPut_map sub l k v hb]; rfl
    | bkt q e =>
      have hb : isBucketAt l k = true := hib
      rw [hb]; rfl

/-- `apiDelete` likewise -/
theorem apiDelete_abs (sub : Bytes → SVal) (hsub : ∀ n, (sub n).isBucket = true) (root : SVal)
    (p : List Bytes) (s : Nat) (l : List Item) (k : Bytes)
    (hp : bucketAt (topName :: p) root = some (s, l.map (absIt sub))) :
    apiDelete root (topName :: p) k =
      if isBucketAt l k then .error .incompatibleValue
      else if (l.find? (fun i => i.key == k)).isNone then .ok root
      else .ok (setBucketAt (topName :: p) (s, (specDel l k).map (absIt sub)) root) := by
  have hib := isBucketAt_abs sub hsub l k
  have hlk := lookup_abs sub l k
  unfold apiDelete
  rw [hp]
  simp only [apiPath_ne, Bool.false_eq_true, if_false]
  cases hfi : l.find? (fun i => i.key == k) with
  | none =>
    rw [hfi] at hlk
    rw [hlk] at hib ⊢
    have hb : isBucketAt l k = false := hib
    rw [hb]; rfl
  | some i =>
    rw [hfi] at hlk
    rw [hlk] at hib ⊢
    simp only [Option.map_some] at hib ⊢
    cases hx : (absIt sub i).2 with
    | val w =>
      rw [hx] at hib
      have hb : isBucketAt l k = false := hib
      rw [hb, specDel_map sub l k hb]; rfl
    | bkt q e =>
      rw [hx] at hib
      have hb : isBucketAt l k = true := hib
      rw [hb]; rfl

/-- `apiCreateBucket` likewise -/
theorem apiCreate_abs (sub : Bytes → SVal) (root : SVal)
    (p : List Bytes) (s : Nat) (l : List Item) (name : Bytes)
    (hp : bucketAt (topName :: p) root = some (s, l.map (absIt sub))) :
    (name ≠ [] → l.find? (fun i => i.key == name) = none →
      apiCreateBucket root (topName :: p) name false =
        .ok (setBucketAt (topName :: p) (s, entsInsert name (.bkt 0 []) (l.map (absIt sub))) root)) ∧
    (name = [] ∨ (l.find? (fun i => i.key == name)).isSome = true →
      ∃ e, apiCreateBucket root (topName :: p) name false = .error e) := by
  have hlk := lookup_abs sub l name
  constructor
  · intro hn hf
    have hke : name.isEmpty = false := by
      cases name with
      | nil => exact absurd rfl hn
      | cons _ _ => rfl
    rw [hf] at hlk
    unfold apiCreateBucket
    rw [hp]
    simp only [hke, Bool.false_eq_true, if_false]
    rw [hlk]; rfl
  · intro h
    unfold apiCreateBucket
    rw [hp]
    simp only
    by_cases hn : name = []
    · subst hn; exact ⟨_, rfl⟩
    · have hke : name.isEmpty = false := by
        cases name with
        | nil => exact absurd rfl hn
        | cons _ _ => rfl
      rcases h with h | h
      · exact absurd h hn
      · obtain ⟨i, hi⟩ := Option.isSome_iff_exists.mp h
        rw [hi] at hlk
        simp only [hke, Bool.false_eq_true, if_false]
        rw [hlk]
        simp only [Option.map_some]
        cases (absIt sub i).2 with
        | val w => exact ⟨_, rfl⟩
        | bkt q e => exact ⟨_, rfl⟩

/-- `apiDeleteBucket` likewise -/
theorem apiDeleteBucket_abs (sub : Bytes → SVal) (hsub : ∀ n, (sub n).isBucket = true) (root : SVal)
    (p : List Bytes) (s : Nat) (l : List Item) (name : Bytes)
    (hp : bucketAt (topName :: p) root = some (s, l.map (absIt sub))) :
    (∀ i, l.find? (fun i => i.key == name) = some i → i.flags % 2 = 1 →
      apiDeleteBucket root (topName :: p) name =
        .ok (setBucketAt (topName :: p) (s, entsErase name (l.map (absIt sub))) root)) ∧
    ((∀ i, l.find? (fun i => i.key == name) = some i → ¬ i.flags % 2 = 1) →
      ∃ e, apiDeleteBucket root (topName :: p) name = .error e) := by
  have hlk := lookup_abs sub l name
  constructor
  · intro i hi hf
    rw [hi] at hlk
    unfold apiDeleteBucket
    rw [hp]
    simp only
    rw [hlk]
    simp only [Option.map_some]
    have := absIt_snd_bucket sub hsub i
    cases hx : (absIt sub i).2 with
    | val w => rw [hx] at this; simp [hf, SVal.isBucket] at this
    | bkt q e => rfl
  · intro h
    unfold apiDeleteBucket
    rw [hp]
    simp only
    rw [hlk]
    cases hfi : l.find? (fun i => i.key == name) with
    | none => exact ⟨_, rfl⟩
    | some i =>
      simp only [Option.map_some]
      rw [absIt_plain _ _ (h i hfi)]
      exact ⟨_, rfl⟩

/-- the bucket named `name` below a bucket whose entries abstract `l` -/
theorem bucketAt_child (sub : Bytes → SVal) (hsub : ∀ n, (sub n).isBucket = true) (root : SVal)
    (p : List Bytes) (s : Nat) {l : List Item} (hs : OpsL.SortedI l) (name : Bytes)
    (hp : bucketAt p root = some (s, l.map (absIt sub))) :
    (name ∈ l.filterMap bktName → (bucketAt (p ++ [name]) root).isSome = true) ∧
    (name ∉ l.filterMap bktName → (bucketAt (p ++ [name]) root).isNone = true) := by
  rw [bucketAt_snoc name hp]
  constructor
  · intro hn
    rw [lookup_abs_bucket sub hs hn, Option.bind_some]
    have := hsub name
    cases hx : sub name with
    | val w => rw [hx] at this; cases this
    | bkt q e => simp
  · intro hn
    rw [lookup_abs]
    cases hfi : l.find? (fun i => i.key == name) with
    | none => rfl
    | some i =>
      have hf : ¬ i.flags % 2 = 1 := fun hf => hn ((names_find hs).mpr ⟨i, hfi, hf⟩)
      simp only [Option.map_some, Option.bind_some]
      rw [absIt_plain _ _ hf]
      simp

end Bolt.Bkt.BktOpsL
