/-
Helper lemmas for C06 at tree level (`Bolt.Props.C06Tree`): copy-on-write.  The argument of
`Bolt.Lemmas.BTreePages` one level finer: instead of page ids we track SUBTREES.  `fz t` lists
the nodes of `t` that lie in an unmaterialised subtree (a page of the committed tree the
transaction has not read into a `node`).  `Put`/`Delete` (`modifyAt`) only rebuild materialised
nodes, `rebalance` only moves whole children between materialised nodes (materialising a
sibling at most) and `spill` keeps pages verbatim while everything it writes gets page id 0:
in each phase the frozen nodes of the result are frozen nodes of the input, and every node of
the spilled tree with a page id ≠ 0 is frozen.
-/
import Bolt.Lemmas.BTreePages
namespace Bolt.BTree.CowL
open Bolt Bolt.BTree Bolt.Node
open Bolt.BTree.SpillL (Lt SortedIn kv spillStep)

/-! ### all nodes / the frozen nodes of a tree -/

mutual
/-- every node of a tree (the tree itself included); `C06Tree.subtrees` -/
def sub : N → List N
  | .leaf h items => [.leaf h items]
  | .branch h kids => .branch h kids :: subKids kids
def subKids : List (Bytes × N) → List N
  | [] => []
  | (_, c) :: r => sub c ++ subKids r
end

mutual
/-- the nodes inside an unmaterialised subtree -/
def fz : N → List N
  | .leaf h items => if h.mat then [] else [.leaf h items]
  | .branch h kids => if h.mat then fzKids kids else .branch h kids :: subKids kids
def fzKids : List (Bytes × N) → List N
  | [] => []
  | (_, c) :: r => fz c ++ fzKids r
end

/-- the frozen nodes strictly below a node -/
def below : N → List N
  | .leaf _ _ => []
  | .branch _ kids => fzKids kids

theorem sub_leaf (h : Hd) (items : List Item) : sub (.leaf h items) = [.leaf h items] := by rw [sub]
theorem sub_branch (h : Hd) (kids : List (Bytes × N)) :
    sub (.branch h kids) = .branch h kids :: subKids kids := by rw [sub]
theorem subKids_nil : subKids [] = [] := by rw [subKids]
theorem subKids_cons (s : Bytes) (c : N) (r : List (Bytes × N)) :
    subKids ((s, c) :: r) = sub c ++ subKids r := by rw [subKids]

theorem fzKids_nil : fzKids [] = [] := by rw [fzKids]
theorem fzKids_cons (s : Bytes) (c : N) (r : List (Bytes × N)) :
    fzKids ((s, c) :: r) = fz c ++ fzKids r := by rw [fzKids]

theorem sub_self (n : N) : n ∈ sub n := by
  cases n with
  | leaf h items => rw [sub_leaf]; exact List.mem_cons_self ..
  | branch h kids => rw [sub_branch]; exact List.mem_cons_self ..

theorem subKids_append : ∀ (a b : List (Bytes × N)), subKids (a ++ b) = subKids a ++ subKids b
  | [], b => by rw [subKids_nil, List.nil_append, List.nil_append]
  | (s, c) :: r, b => by
    rw [List.cons_append, subKids_cons, subKids_cons, subKids_append r b, List.append_assoc]

theorem mem_subKids : ∀ (kids : List (Bytes × N)) (x : N), x ∈ subKids kids ↔ ∃ p ∈ kids, x ∈ sub p.2
  | [], x => by simp [subKids_nil]
  | (s, c) :: r, x => by
    rw [subKids_cons, List.mem_append, mem_subKids r x]
    simp

theorem mem_fzKids : ∀ (kids : List (Bytes × N)) (x : N), x ∈ fzKids kids ↔ ∃ p ∈ kids, x ∈ fz p.2
  | [], x => by simp [fzKids_nil]
  | (s, c) :: r, x => by
    rw [fzKids_cons, List.mem_append, mem_fzKids r x]
    simp

theorem fz_not_mat {n : N} (h : n.hd.mat = false) : fz n = sub n := by
  cases n with
  | leaf hd items => simp only [N.hd] at h; rw [fz, sub_leaf]; simp [h]
  | branch hd kids => simp only [N.hd] at h; rw [fz, sub_branch]; simp [h]

theorem fz_mat {n : N} (h : n.hd.mat = true) : fz n = below n := by
  cases n with
  | leaf hd items => simp only [N.hd] at h; rw [fz]; simp [h, below]
  | branch hd kids => simp only [N.hd] at h; rw [fz]; simp [h, below]

theorem below_setHd (n : N) (h : Hd) : below (n.setHd h) = below n := by
  cases n <;> rfl

mutual
theorem fz_sub : ∀ (n : N), ∀ x ∈ fz n, x ∈ sub n
  | .leaf h items => by
    intro x hx
    rw [fz] at hx
    rw [sub_leaf]
    split at hx
    · cases hx
    · exact hx
  | .branch h kids => by
    intro x hx
    rw [fz] at hx
    rw [sub_branch]
    split at hx
    · exact List.mem_cons_of_mem _ (fzKids_sub kids x hx)
    · exact hx
theorem fzKids_sub : ∀ (kids : List (Bytes × N)), ∀ x ∈ fzKids kids, x ∈ subKids kids
  | [] => by intro x hx; rw [fzKids_nil] at hx; cases hx
  | (s, c) :: r => by
    intro x hx
    rw [fzKids_cons] at hx
    rw [subKids_cons]
    rcases List.mem_append.mp hx with hx | hx
    · exact List.mem_append_left _ (fz_sub c x hx)
    · exact List.mem_append_right _ (fzKids_sub r x hx)
end

theorem below_fz (n : N) : ∀ x ∈ below n, x ∈ fz n := by
  intro x hx
  by_cases hm : n.hd.mat = true
  · rw [fz_mat hm]; exact hx
  · have hm' : n.hd.mat = false := by simpa using hm
    rw [fz_not_mat hm']
    cases n with
    | leaf h items => cases hx
    | branch h kids =>
      rw [sub_branch]
      exact List.mem_cons_of_mem _ (fzKids_sub kids x hx)

theorem setHd_hd (n : N) (h : Hd) : (n.setHd h).hd = h := by cases n <;> rfl

/-- a node given a materialised header: only what was frozen below it stays frozen -/
theorem fz_setHd {n : N} {h : Hd} (hm : h.mat = true) : fz (n.setHd h) = below n := by
  rw [fz_mat (by rw [setHd_hd]; exact hm), below_setHd]

theorem fz_materialize (n : N) : fz (materialize n) = below n := by
  rw [RebL.materialize_eq, fz_setHd (RebL.mhd_mat n)]

theorem materialize_mat (n : N) : (materialize n).hd.mat = true := by
  rw [RebL.materialize_eq, setHd_hd]; exact RebL.mhd_mat n

theorem fz_clr {n : N} (hm : n.hd.mat = true) : fz (RebL.clr n) = below n := by
  unfold RebL.clr
  rw [fz_setHd (by exact hm)]

theorem clr_mat {n : N} (hm : n.hd.mat = true) : (RebL.clr n).hd.mat = true := by
  unfold RebL.clr; rw [setHd_hd]; exact hm

/-! ### `Put` / `Delete`: only the materialised path is rebuilt -/

theorem mem_set {α} : ∀ (l : List α) (i : Nat) (a x : α), x ∈ l.set i a → x ∈ l ∨ x = a
  | [], _, _, _, h => by simp at h
  | b :: l, 0, a, x, h => by
    rw [List.set_cons_zero] at h
    rcases List.mem_cons.mp h with h | h
    · exact Or.inr h
    · exact Or.inl (List.mem_cons_of_mem _ h)
  | b :: l, i+1, a, x, h => by
    rw [List.set_cons_succ] at h
    rcases List.mem_cons.mp h with h | h
    · exact Or.inl (h ▸ List.mem_cons_self ..)
    · rcases mem_set l i a x h with h | h
      · exact Or.inl (List.mem_cons_of_mem _ h)
      · exact Or.inr h

theorem fzKids_set (kids : List (Bytes × N)) (i : Nat) (s : Bytes) (c c' : N)
    (hg : kids[i]? = some (s, c)) (hc : ∀ x ∈ fz c', x ∈ fz c) :
    ∀ x ∈ fzKids (kids.set i (s, c')), x ∈ fzKids kids := by
  intro x hx
  obtain ⟨p, hp, hxp⟩ := (mem_fzKids _ x).mp hx
  rcases mem_set kids i (s, c') p hp with hp | rfl
  · exact (mem_fzKids _ x).mpr ⟨p, hp, hxp⟩
  · exact (mem_fzKids _ x).mpr ⟨(s, c), List.mem_of_getElem? hg, hc x hxp⟩

theorem modifyAt_fz (f : N → Option N)
    (hf : ∀ n n', n.hd.mat = true → f n = some n' → ∀ x ∈ fz n', x ∈ fz n) :
    ∀ (path : List Nat) (n n' : N), modifyAt f path n = some n' → ∀ x ∈ fz n', x ∈ fz n
  | [], n, n', h => by
    rw [OpsL.modifyAt_nil] at h
    intro x hx
    have := hf _ _ (materialize_mat n) h x hx
    rw [fz_materialize] at this
    exact below_fz n x this
  | i :: rest, .leaf hd items, n', h => by
    rw [modifyAt, OpsL.materialize_leaf] at h; cases h
  | i :: rest, .branch hd kids, n', h => by
    cases hg : kids[i]? with
    | none =>
      rw [modifyAt, OpsL.materialize_branch] at h; simp only [hg] at h; cases h
    | some p =>
      obtain ⟨s, c⟩ := p
      rw [OpsL.modifyAt_branch f i rest hd kids s c hg] at h
      obtain ⟨c', hc', rfl⟩ := Option.map_eq_some_iff.mp h
      have ih := modifyAt_fz f hf rest c c' hc'
      intro x hx
      rw [fz_mat (by exact OpsL.mhd_mat _ _)] at hx
      exact below_fz (.branch hd kids) x (fzKids_set kids i s c c' hg ih x hx)

theorem leafPut_fz (k v : Bytes) : ∀ n n', n.hd.mat = true → leafPut k v n = some n' →
    ∀ x ∈ fz n', x ∈ fz n
  | .leaf h items, n', hm, e => by
    rw [OpsL.leafPut_eq] at e; cases e
    intro x hx
    rw [fz_mat (by exact hm)] at hx
    cases hx
  | .branch _ _, n', _, e => by simp [leafPut] at e

theorem leafDel_fz (k : Bytes) : ∀ n n', n.hd.mat = true → leafDel k n = some n' →
    ∀ x ∈ fz n', x ∈ fz n
  | .leaf h items, n', hm, e => by
    simp only [N.hd] at hm
    unfold leafDel at e
    simp only at e
    intro x hx
    split at e <;> cases e
    · rw [fz_mat (by exact hm)] at hx; cases hx
    · exact hx
  | .branch _ _, n', _, e => by simp [leafDel] at e

theorem putT_fz (fuel : Nat) (t t' : N) (k v : Bytes) (h : putT fuel t k v = some t') :
    ∀ x ∈ fz t', x ∈ fz t := by
  unfold putT at h
  split at h
  · split at h
    · cases h; exact fun _ h => h
    · exact modifyAt_fz _ (leafPut_fz k v) _ _ _ h
  · exact modifyAt_fz _ (leafPut_fz k v) _ _ _ h

theorem delT_fz (fuel : Nat) (t t' : N) (k : Bytes) (h : delT fuel t k = some t') :
    ∀ x ∈ fz t', x ∈ fz t := by
  unfold delT at h
  split at h
  · split at h
    · exact modifyAt_fz _ (leafDel_fz k) _ _ _ h
    · cases h; exact fun _ h => h
  · cases h; exact fun _ h => h

theorem applyOps_fz (fuel : Nat) : ∀ (ops : List Op) (t t1 : N), applyOps fuel t ops = some t1 →
    ∀ x ∈ fz t1, x ∈ fz t
  | [], t, t1, h => by rw [applyOps] at h; cases h; exact fun _ h => h
  | o :: os, t, t1, h => by
    rw [applyOps] at h
    obtain ⟨t', e1, e2⟩ := Option.bind_eq_some_iff.mp h
    intro x hx
    have hx' := applyOps_fz fuel os t' t1 e2 x hx
    cases o with
    | put k v => exact putT_fz fuel t t' k v e1 x hx'
    | del k => exact delT_fz fuel t t' k e1 x hx'

/-! ### rebalance: whole children move between materialised nodes -/

/-- every node on the path is materialised -/
def MatPath : List Nat → N → Prop
  | [], n => n.hd.mat = true
  | _ :: _, .leaf _ _ => False
  | i :: rest, .branch h kids => h.mat = true ∧ ∀ p, kids[i]? = some p → MatPath rest p.2

theorem findMat_matPath {pg : Nat} : ∀ {fuel : Nat} {t : N} {path : List Nat},
    findMat pg fuel t = some path → MatPath path t
  | 0, t, path, h => by simp [findMat] at h
  | fuel+1, t, path, h => by
    unfold findMat at h
    by_cases h1 : t.hd.mat = true ∧ t.hd.pgid = pg
    · rw [if_pos h1] at h
      cases h
      exact h1.1
    · rw [if_neg h1] at h
      by_cases h2 : (!t.hd.mat) = true
      · rw [if_pos h2] at h; cases h
      · rw [if_neg h2] at h
        cases t with
        | leaf hd items => cases h
        | branch hd kids =>
          simp only at h
          obtain ⟨i, _, hf⟩ := RebL.findSome?_range_some h
          cases hk : kids[i]? with
          | none => rw [hk] at hf; cases hf
          | some sc =>
            obtain ⟨s, c⟩ := sc
            rw [hk] at hf
            simp only [Option.map_eq_some_iff] at hf
            obtain ⟨rest, hr, rfl⟩ := hf
            refine ⟨by simpa [N.hd] using h2, ?_⟩
            intro p hp
            rw [hk] at hp
            cases hp
            exact findMat_matPath hr

theorem appendInodes_fz {l r m : N} (h : appendInodes l r = some m) (hm : l.hd.mat = true) :
    m.hd.mat = true ∧ ∀ x ∈ fz m, x ∈ below l ∨ x ∈ below r := by
  cases l with
  | leaf hl a =>
    cases r with
    | leaf hr b =>
      simp [appendInodes] at h; subst h
      refine ⟨hm, ?_⟩
      intro x hx
      rw [fz_mat (by exact hm)] at hx
      cases hx
    | branch hr b => simp [appendInodes] at h
  | branch hl a =>
    cases r with
    | leaf hr b => simp [appendInodes] at h
    | branch hr b =>
      simp [appendInodes] at h; subst h
      refine ⟨hm, ?_⟩
      intro x hx
      rw [fz_mat (by exact hm)] at hx
      obtain ⟨p, hp, hxp⟩ := (mem_fzKids _ x).mp hx
      rcases List.mem_append.mp hp with hp | hp
      · exact Or.inl ((mem_fzKids _ x).mpr ⟨p, hp, hxp⟩)
      · exact Or.inr ((mem_fzKids _ x).mpr ⟨p, hp, hxp⟩)

/-- frozen nodes of a materialised branch whose children all come (frozen-wise) from `kids` -/
theorem branch_sub {h h' : Hd} {kids kids' : List (Bytes × N)} (hm : h.mat = true) (hm' : h'.mat = true)
    (hk : ∀ p ∈ kids', ∀ x ∈ fz p.2, x ∈ fzKids kids) :
    (N.branch h' kids').hd.mat = true ∧ ∀ x ∈ fz (.branch h' kids'), x ∈ fz (.branch h kids) := by
  refine ⟨hm', ?_⟩
  intro x hx
  rw [fz_mat (by exact hm')] at hx
  rw [fz_mat (by exact hm)]
  obtain ⟨p, hp, hxp⟩ := (mem_fzKids _ x).mp hx
  exact hk p hp x hxp

theorem childS_fz {th : Nat} {h : Hd} {pre post : List (Bytes × N)} {s : Bytes} {n0 P' : N} {call : Bool}
    (hm : h.mat = true) (hn : n0.hd.mat = true)
    (hc : RebL.childS th h pre s n0 post = some (P', call)) :
    P'.hd.mat = true ∧ ∀ x ∈ fz P', x ∈ fz (.branch h (pre ++ (s, n0) :: post)) := by
  have hself : ∀ p ∈ pre ++ (s, n0) :: post, ∀ x ∈ fz p.2, x ∈ fzKids (pre ++ (s, n0) :: post) :=
    fun p hp x hx => (mem_fzKids _ x).mpr ⟨p, hp, hx⟩
  have hn0 : ∀ x ∈ below n0, x ∈ fzKids (pre ++ (s, n0) :: post) := fun x hx =>
    (mem_fzKids _ x).mpr ⟨(s, n0), by simp, below_fz n0 x hx⟩
  rcases RebL.childS_inv hc with ⟨_, rfl, _⟩ | ⟨rfl, _⟩ | ⟨rfl, _⟩ | ⟨sr, r0, post', m, rfl, rfl, hap, rfl, _⟩ |
    ⟨pre', sl, l0, m, rfl, hap, rfl, _⟩
  · exact branch_sub hm hm hself
  · refine branch_sub hm hm ?_
    intro p hp x hx
    rcases List.mem_append.mp hp with hp | hp
    · exact hself p (List.mem_append_left _ hp) x hx
    · rcases List.mem_cons.mp hp with rfl | hp
      · rw [fz_clr hn] at hx; exact hn0 x hx
      · exact hself p (List.mem_append_right _ (List.mem_cons_of_mem _ hp)) x hx
  · refine branch_sub hm (by exact hm) ?_
    intro p hp x hx
    rcases List.mem_append.mp hp with hp | hp
    · exact hself p (List.mem_append_left _ hp) x hx
    · exact hself p (List.mem_append_right _ (List.mem_cons_of_mem _ hp)) x hx
  · refine branch_sub hm (by exact hm) ?_
    obtain ⟨_, hfm⟩ := appendInodes_fz hap (clr_mat hn)
    intro p hp x hx
    rcases List.mem_cons.mp hp with rfl | hp
    · rcases hfm x hx with hx | hx
      · rw [RebL.clr, below_setHd] at hx; exact hn0 x hx
      · rw [RebL.materialize_eq, below_setHd] at hx
        exact (mem_fzKids _ x).mpr ⟨(sr, r0), by simp, below_fz r0 x hx⟩
    · exact hself p (by simp [hp]) x hx
  · refine branch_sub hm (by exact hm) ?_
    obtain ⟨_, hfm⟩ := appendInodes_fz hap (materialize_mat l0)
    intro p hp x hx
    rcases List.mem_append.mp hp with hp | hp
    · exact hself p (by simp [hp]) x hx
    · rcases List.mem_cons.mp hp with rfl | hp
      · rcases hfm x hx with hx | hx
        · rw [RebL.materialize_eq, below_setHd] at hx
          exact (mem_fzKids _ x).mpr ⟨(sl, l0), by simp, below_fz l0 x hx⟩
        · rw [RebL.clr, below_setHd] at hx; exact hn0 x hx
      · exact hself p (by simp [hp]) x hx

theorem rebalGo_fz (th : Nat) : ∀ (path : List Nat) (n n' : N) (call : Bool),
    MatPath path n → rebalGo th path n = some (n', call) →
    n'.hd.mat = true ∧ ∀ x ∈ fz n', x ∈ fz n
  | [], n, n', call, hmp, hgo => by
    simp only [rebalGo, Option.some.injEq, Prod.mk.injEq] at hgo
    obtain ⟨rfl, rfl⟩ := hgo
    exact ⟨hmp, fun _ h => h⟩
  | p :: rest, .leaf hd items, n', call, hmp, _ => by exact hmp.elim
  | p :: rest, .branch hd kids, n', call, hmp, hgo => by
    obtain ⟨hm, hmp'⟩ := hmp
    rw [rebalGo] at hgo
    cases hk : kids[p]? with
    | none => simp only [hk] at hgo; cases hgo
    | some sc =>
      obtain ⟨s, c⟩ := sc
      simp only [hk] at hgo
      obtain ⟨pre, post, rfl, rfl⟩ := RebL.getElem?_split hk
      cases hr : rebalGo th rest c with
      | none => rw [hr] at hgo; simp at hgo
      | some res =>
        obtain ⟨c', call0⟩ := res
        rw [hr] at hgo
        simp only [RebL.set_mid] at hgo
        obtain ⟨hcm, hcf⟩ := rebalGo_fz th rest c c' call0 (hmp' _ hk) hr
        have hstep : ∀ x ∈ fz (.branch hd (pre ++ (s, c') :: post)), x ∈ fz (.branch hd (pre ++ (s, c) :: post)) := by
          refine (branch_sub hm hm ?_).2
          intro q hq x hx
          rcases List.mem_append.mp hq with hq | hq
          · exact (mem_fzKids _ x).mpr ⟨q, List.mem_append_left _ hq, hx⟩
          · rcases List.mem_cons.mp hq with rfl | hq
            · exact (mem_fzKids _ x).mpr ⟨(s, c), by simp, hcf x hx⟩
            · exact (mem_fzKids _ x).mpr ⟨q, List.mem_append_right _ (List.mem_cons_of_mem _ hq), hx⟩
        cases call0 with
        | true =>
          simp only [if_true] at hgo
          rw [RebL.rebalChild_eq] at hgo
          obtain ⟨h1, h2⟩ := childS_fz hm hcm hgo
          exact ⟨h1, fun x hx => hstep x (h2 x hx)⟩
        | false =>
          simp only [Bool.false_eq_true, if_false, Option.some.injEq, Prod.mk.injEq] at hgo
          obtain ⟨rfl, rfl⟩ := hgo
          exact ⟨hm, hstep⟩

theorem matPath_root : ∀ {path : List Nat} {n : N}, MatPath path n → n.hd.mat = true
  | [], _, h => h
  | _ :: _, .leaf _ _, h => h.elim
  | _ :: _, .branch _ _, h => h.1

theorem rebalRoot_fz {th : Nat} {r t' : N} (hm : r.hd.mat = true) (h : rebalRoot th r = some t') :
    ∀ x ∈ fz t', x ∈ fz r := by
  unfold rebalRoot at h
  by_cases hu : r.hd.unb = false
  · simp only [hu, Bool.not_false, if_true, Option.some.injEq] at h
    subst h
    exact fun _ h => h
  · have hu' : r.hd.unb = true := by simpa using hu
    simp only [hu', Bool.not_true, Bool.false_eq_true, if_false] at h
    have hclr : ∀ x ∈ fz (RebL.clr r), x ∈ fz r := by
      intro x hx; rw [fz_clr hm] at hx; exact below_fz r x hx
    split at h
    · simp only [Option.some.injEq] at h; subst h; exact hclr
    · split at h
      · rename_i hd0 s c heq
        have hr : ∃ hd, r = .branch hd [(s, c)] ∧ hd0 = { hd with unb := false } := by
          cases r with
          | leaf hd items => simp [N.setHd] at heq
          | branch hd kids =>
            simp only [N.setHd, N.branch.injEq] at heq
            exact ⟨hd, by rw [heq.2], heq.1.symm⟩
        obtain ⟨hd, rfl, rfl⟩ := hr
        have ht : t' = (materialize c).setHd { hd with unb := false } := by
          cases hmc : materialize c <;> rw [hmc] at h <;> simp at h <;> exact h.symm
        subst ht
        intro x hx
        rw [fz_setHd (by exact hm), RebL.materialize_eq, below_setHd] at hx
        rw [fz_mat hm]
        exact (mem_fzKids _ x).mpr ⟨(s, c), by simp, below_fz c x hx⟩
      · simp only [Option.some.injEq] at h; subst h; exact hclr

theorem rebalanceAt_fz {th : Nat} {t t' : N} {path : List Nat} (hmp : MatPath path t)
    (h : rebalanceAt th t path = some t') : ∀ x ∈ fz t', x ∈ fz t := by
  unfold rebalanceAt at h
  cases hr : rebalGo th path t with
  | none => rw [hr] at h; simp at h
  | some res =>
    obtain ⟨r, call⟩ := res
    rw [hr] at h
    obtain ⟨h1, h2⟩ := rebalGo_fz th path t r call hmp hr
    cases call with
    | false =>
      simp only [Bool.false_eq_true, if_false, Option.some.injEq] at h
      subst h
      exact h2
    | true =>
      simp only [if_true] at h
      exact fun x hx => h2 x (rebalRoot_fz h1 h x hx)

theorem rebalanceAll_fz (th fuel : Nat) : ∀ (order : List Nat) (t t' : N),
    rebalanceAll th fuel t order = some t' → ∀ x ∈ fz t', x ∈ fz t
  | [], t, t', h => by
    simp only [rebalanceAll, Option.some.injEq] at h
    subst h
    exact fun _ h => h
  | pg :: rest, t, t', h => by
    rw [rebalanceAll] at h
    cases hfm : findMat pg fuel t with
    | none =>
      rw [hfm] at h
      exact rebalanceAll_fz th fuel rest t t' h
    | some path =>
      rw [hfm] at h
      simp only at h
      cases h1 : rebalanceAt th t path with
      | none => rw [h1] at h; cases h
      | some t1 =>
        rw [h1] at h
        simp only at h
        exact fun x hx => rebalanceAt_fz (findMat_matPath hfm) h1 x
          (rebalanceAll_fz th fuel rest t1 t' h x hx)

/-! ### spill: pages stay verbatim, everything written has page id 0 -/

/-- every node of `l` that is an old page (page id ≠ 0) is one of `F` -/
def Kin (l F : List N) : Prop := ∀ x ∈ l, x.hd.pgid ≠ 0 → x ∈ F

theorem Kin_nil (F : List N) : Kin [] F := by intro x hx; cases hx

theorem Kin_append {a b F : List N} (ha : Kin a F) (hb : Kin b F) : Kin (a ++ b) F := by
  intro x hx h0
  rcases List.mem_append.mp hx with hx | hx
  · exact ha x hx h0
  · exact hb x hx h0

theorem Kin.mono {l F F' : List N} (h : Kin l F) (hF : ∀ x ∈ F, x ∈ F') : Kin l F' :=
  fun x hx h0 => hF x (h x hx h0)

theorem Kin_refl (l : List N) : Kin l l := fun _ hx _ => hx

/-- all nodes of a list of trees -/
def subL (pcs : List N) : List N := (pcs.map sub).flatten

theorem subL_nil : subL [] = [] := rfl

theorem subL_cons (q : N) (r : List N) : subL (q :: r) = sub q ++ subL r := by
  unfold subL; rw [List.map_cons, List.flatten_cons]

theorem subL_single (q : N) : subL [q] = sub q := by
  rw [subL_cons, subL_nil, List.append_nil]

theorem subKids_kv : ∀ pcs : List N, subKids (pcs.map kv) = subL pcs
  | [] => by rw [List.map_nil, subKids_nil, subL_nil]
  | q :: r => by
    rw [List.map_cons, subL_cons, ← subKids_kv r]
    unfold kv
    rw [subKids_cons]

theorem Kin_split_leaf (F : List N) : ∀ segs : List (List Item), Kin (subL (segs.map (N.leaf written))) F
  | [] => Kin_nil F
  | s :: r => by
    rw [List.map_cons, subL_cons, sub_leaf]
    refine Kin_append ?_ (Kin_split_leaf F r)
    intro x hx h0
    rw [List.mem_singleton] at hx
    subst hx
    exact absurd rfl h0

theorem Kin_split_branch (F : List N) : ∀ segs : List (List (Bytes × N)),
    Kin (subKids segs.flatten) F → Kin (subL (segs.map (N.branch written))) F
  | [], _ => Kin_nil F
  | s :: r, h => by
    rw [List.flatten_cons, subKids_append] at h
    rw [List.map_cons, subL_cons, sub_branch]
    have h1 : Kin (subKids s) F := fun x hx => h x (List.mem_append_left _ hx)
    have h2 : Kin (subKids r.flatten) F := fun x hx => h x (List.mem_append_right _ hx)
    refine Kin_append ?_ (Kin_split_branch F r h2)
    intro x hx h0
    rcases List.mem_cons.mp hx with rfl | hx
    · exact absurd rfl h0
    · exact h1 x hx h0

/-- what the induction hypothesis says about a child -/
def ChildQ (ps sth fuel : Nat) (pmat : Bool) (c : N) : Prop :=
  ∀ lo hi pcs, inTxN false pmat lo hi c = true → c.count ≠ 0 → spillN ps sth fuel c = some pcs →
    Kin (subL pcs) (fz c)

/-- the fold over the children of a spilled branch (`PagesL.fold_pg` with subtrees for page ids) -/
theorem fold_cow (ps sth fuel : Nat) (pmat : Bool) (hi : Option Bytes) (d : Nat) :
    ∀ (post A : List (Bytes × N)) (lo : Option Bytes) (R : List (Bytes × N)),
    (∀ p ∈ post, ChildQ ps sth fuel pmat p.2) →
    inTxKids pmat lo hi post d = true →
    SortedIn lo hi (post.map (·.1)) →
    (∀ p ∈ post, p.1 ≠ []) →
    (∀ a ∈ A, ∀ p ∈ post, Bytes.lt a.1 p.1 = true) →
    (A ≠ [] → lo = post.head?.map (·.1)) →
    post.foldl (spillStep ps sth fuel) (some (A ++ post)) = some R →
    ∃ X, R = A ++ X ∧ post.length ≤ X.length ∧
      SortedIn lo hi (X.map (·.1)) ∧ Kin (subKids X) (fzKids post) := by
  intro post
  induction post with
  | nil =>
    intro A lo R _ _ _ _ _ _ hfold
    simp only [List.foldl_nil, Option.some.injEq] at hfold
    exact ⟨[], hfold.symm, Nat.le_refl _, SpillL.SortedIn_nil _ _, by rw [subKids_nil]; exact Kin_nil _⟩
  | cons p r ihr =>
    intro A lo R hch hk hs hne hAp hAlo hfold
    obtain ⟨s, c⟩ := p
    rw [inTxKids] at hk
    simp only [Bool.and_eq_true, beq_iff_eq] at hk
    obtain ⟨⟨⟨hsc, hdc⟩, hinc⟩, hkr⟩ := hk
    have hAs : ∀ a ∈ A, Bytes.lt a.1 s = true := fun a ha => hAp a ha (s, c) (List.mem_cons_self ..)
    have hsb := hs.2 s (by simp)
    -- the upper bound of the child is below every later separator
    have hhic : ∀ k, ltHi ((r.head?.map (·.1)).orElse (fun _ => hi)) k = true →
        ∀ b ∈ r, Bytes.lt k b.1 = true := by
      intro k hk b hb
      cases r with
      | nil => cases hb
      | cons p' r' =>
        obtain ⟨s', c'⟩ := p'
        have hk' : Bytes.lt k s' = true := by simpa [ltHi] using hk
        rcases List.mem_cons.mp hb with rfl | hb
        · exact hk'
        · have h2 := (List.pairwise_cons.mp (List.pairwise_cons.mp hs.1).2).1 b.1
            (List.mem_map.mpr ⟨b, hb, rfl⟩)
          exact Bytes.lt_trans hk' h2
    have hshic : ltHi ((r.head?.map (·.1)).orElse (fun _ => hi)) s = true := by
      cases r with
      | nil => simpa using hsb.2
      | cons p' r' =>
        obtain ⟨s', c'⟩ := p'
        have := (List.pairwise_cons.mp hs.1).1 s' (by simp)
        simpa [ltHi] using this
    -- one step of the fold
    have hstep : ∀ S, spillStep ps sth fuel (some (A ++ (s, c) :: r)) (s, c) = some S →
        ∃ Xc, S = A ++ Xc ++ r ∧ 1 ≤ Xc.length ∧
        SortedIn lo ((r.head?.map (·.1)).orElse (fun _ => hi)) (Xc.map (·.1)) ∧
        Kin (subKids Xc) (fz c) := by
      intro S hS
      by_cases hm : c.hd.mat = true
      · -- materialised child: spilled, its pieces re-inserted by key
        rw [if_pos hm] at hsc
        simp only [spillStep, hm, Bool.not_true, Bool.false_eq_true, if_false] at hS
        cases hsp : spillN ps sth fuel c with
        | none => rw [hsp] at hS; cases hS
        | some pieces =>
          rw [hsp] at hS
          simp only at hS
          have hcnt := PagesL.putPieces_count _ _ _ _ hS
          have hc0 : c.count ≠ 0 := by
            intro h0
            obtain ⟨q, hq, hq0⟩ := PagesL.spill_count0 ps sth fuel _ _ _ c pieces hm hinc h0 hsp
            exact hcnt q hq hq0
          obtain ⟨hpne, hkeys, _⟩ := PagesL.spillN_pg ps sth c fuel _ _ _ pieces hinc hc0 hsp
          have hsub := hch (s, c) (List.mem_cons_self ..) _ _ pieces hinc hc0 hsp
          have hput := SpillL.putPieces_child A r s c pieces (hne (s, c) (List.mem_cons_self ..)) hpne
            hcnt hkeys.1 hAs
            (by
              intro a ha q hq
              have hlo := hAlo (List.ne_nil_of_mem ha)
              simp only [List.head?_cons, Option.map_some] at hlo
              have hge := (hkeys.2 q.firstKey (List.mem_map.mpr ⟨q, hq, rfl⟩)).1
              rw [hlo] at hge
              exact SpillL.lt_of_lt_of_le (hAs a ha) (by simpa [geLo] using hge))
            (by
              intro q hq b hb
              exact hhic _ (hkeys.2 q.firstKey (List.mem_map.mpr ⟨q, hq, rfl⟩)).2 b hb)
          rw [← hsc, hput] at hS
          simp only [Option.some.injEq] at hS
          refine ⟨pieces.map kv, hS.symm, ?_, ?_, ?_⟩
          · rw [List.length_map]
            cases pieces with
            | nil => exact absurd rfl hpne
            | cons a b => simp
          · rw [List.map_map]
            exact hkeys
          · rw [subKids_kv]; exact hsub
      · -- a page stays as it is
        have hm' : c.hd.mat = false := by simpa using hm
        simp only [spillStep, hm', Bool.not_false, if_true, Option.some.injEq] at hS
        refine ⟨[(s, c)], ?_, Nat.le_refl _, ?_, ?_⟩
        · rw [← hS]; simp
        · exact ⟨by simp, by
            intro k hk
            simp only [List.map_cons, List.map_nil, List.mem_singleton] at hk; subst hk
            exact ⟨hsb.1, hshic⟩⟩
        · rw [subKids_cons, subKids_nil, List.append_nil, fz_not_mat hm']
          exact Kin_refl _
    rw [List.foldl_cons] at hfold
    cases hS : spillStep ps sth fuel (some (A ++ (s, c) :: r)) (s, c) with
    | none => rw [hS, PagesL.foldl_step_none] at hfold; cases hfold
    | some S =>
      rw [hS] at hfold
      obtain ⟨Xc, rfl, hl1, hso, hpg⟩ := hstep S hS
      rw [fzKids_cons]
      cases r with
      | nil =>
        simp only [List.foldl_nil, Option.some.injEq] at hfold
        refine ⟨Xc, by rw [← hfold, List.append_nil], by simpa using hl1, by simpa using hso, ?_⟩
        exact hpg.mono (fun x hx => List.mem_append_left _ hx)
      | cons p' r' =>
        obtain ⟨s', c'⟩ := p'
        have hs'b := hs.2 s' (by simp)
        obtain ⟨X', hR, hl1', hso', hpg'⟩ := ihr (A ++ Xc) (some s') R
          (fun p hp => hch p (List.mem_cons_of_mem _ hp)) hkr (SpillL.seps_tail hs)
          (fun p hp => hne p (List.mem_cons_of_mem _ hp))
          (fun a ha p hp => by
            rcases List.mem_append.mp ha with ha | ha
            · exact hAp a ha p (List.mem_cons_of_mem _ hp)
            · exact hhic a.1 (hso.2 a.1 (List.mem_map.mpr ⟨a, ha, rfl⟩)).2 p hp)
          (fun _ => rfl) hfold
        refine ⟨Xc ++ X', ?_, ?_, ?_, ?_⟩
        · rw [hR, List.append_assoc]
        · simp only [List.length_cons, List.length_append] at hl1' ⊢; omega
        · rw [List.map_append]
          exact SpillL.SortedIn_append (by simpa using hso) hso' hs'b.1 hs'b.2
        · rw [subKids_append]
          exact Kin_append (hpg.mono (fun x hx => List.mem_append_left _ hx))
            (hpg'.mono (fun x hx => List.mem_append_right _ hx))

theorem spillN_cow (ps sth : Nat) : ∀ (n : N) (fuel : Nat) (pmat : Bool) (lo hi : Option Bytes) (pcs : List N),
    inTxN false pmat lo hi n = true → n.count ≠ 0 → spillN ps sth fuel n = some pcs →
    Kin (subL pcs) (fz n) := by
  refine SpillL.N_ind ?_ ?_
  · intro hd items fuel pmat lo hi pcs h hc hsp
    cases fuel with
    | zero => rw [PagesL.spillN_zero] at hsp; cases hsp
    | succ f =>
      rw [spillN] at hsp
      by_cases hm : hd.mat = true
      · simp only [N.hd, hm, Bool.not_true, Bool.false_eq_true, if_false, Option.some.injEq] at hsp
        subst hsp
        obtain ⟨segs, heq, _⟩ := SpillL.splitNode_leaf_spec ps sth hd items
        rw [heq]
        exact Kin_split_leaf _ segs
      · have hm' : hd.mat = false := by simpa using hm
        simp only [N.hd, hm', Bool.not_false, if_true, Option.some.injEq] at hsp
        subst hsp
        rw [subL_single, fz_not_mat (by exact hm')]
        exact Kin_refl _
  · intro hd kids ih fuel pmat lo hi pcs h hc hsp
    cases fuel with
    | zero => rw [PagesL.spillN_zero] at hsp; cases hsp
    | succ f =>
      rw [inTxN] at h
      simp only [Bool.and_eq_true, List.all_eq_true, decide_eq_true_eq] at h
      obtain ⟨⟨⟨⟨_, h2⟩, hsk⟩, hall⟩, hk⟩ := h
      have hs : SortedIn lo hi (kids.map (·.1)) := by
        refine ⟨(SpillL.sortedKeys_iff _).mp hsk, ?_⟩
        intro k hk
        obtain ⟨x, hx, rfl⟩ := List.mem_map.mp hk
        exact ⟨(hall x hx).1.2, (hall x hx).2⟩
      generalize hdd : ((kids.head?.map (fun p => depth p.2)).getD 0) = d at hk
      rw [SpillL.spillN_branch] at hsp
      by_cases hm : hd.mat = true
      · simp only [hm, Bool.not_true, Bool.false_eq_true, if_false] at hsp
        cases hfold : kids.foldl (spillStep ps sth f) (some kids) with
        | none => rw [hfold] at hsp; cases hsp
        | some kids' =>
          rw [hfold] at hsp
          simp only [Option.some.injEq] at hsp
          subst hsp
          have hfold' : kids.foldl (spillStep ps sth f) (some ([] ++ kids)) = some kids' := by
            rw [List.nil_append]; exact hfold
          obtain ⟨X, hR, _, _, hpg⟩ := fold_cow ps sth f hd.mat hi d kids [] lo kids'
            (fun p hp lo' hi' pcs' hin hc' hsp' => ih p hp f hd.mat lo' hi' pcs' hin hc' hsp')
            hk hs
            (fun p hp h0 => by have := (hall p hp).1.1; rw [h0] at this; simp at this)
            (by intro a ha; cases ha) (fun h0 => absurd rfl h0) hfold'
          rw [List.nil_append] at hR
          subst hR
          obtain ⟨segs, heq, hflat, _, _⟩ := SpillL.splitNode_branch_spec ps sth hd kids'
          rw [heq, fz_mat (by exact hm)]
          refine Kin_split_branch _ segs ?_
          rw [hflat]
          exact hpg
      · have hm' : hd.mat = false := by simpa using hm
        simp only [hm', Bool.not_false, if_true, Option.some.injEq] at hsp
        subst hsp
        rw [subL_single, fz_not_mat (by exact hm')]
        exact Kin_refl _

theorem growRoot_cow (ps sth : Nat) (F : List N) : ∀ (fuel : Nat) (pcs : List N) (t' : N),
    (pcs.map N.firstKey).Pairwise Lt → growRoot ps sth fuel pcs = some t' →
    Kin (subL pcs) F → Kin (sub t') F := by
  intro fuel
  induction fuel with
  | zero =>
    intro pcs t' _ h
    rw [growRoot] at h; cases h
  | succ f ih =>
    intro pcs t' hp h hK
    cases pcs with
    | nil => simp [growRoot] at h
    | cons p1 rest =>
      cases rest with
      | nil =>
        rw [growRoot.eq_3 _ _ _ _ (by omega)] at h
        cases h
        rw [subL_single] at hK; exact hK
      | cons p2 rest =>
        rw [growRoot.eq_4 _ _ _ _ (by simp) (by simp)] at h
        cases hput : putPieces [] [] (p1 :: p2 :: rest) with
        | none => rw [hput] at h; cases h
        | some kids =>
          rw [hput] at h
          simp only at h
          have hcnt := PagesL.putPieces_count _ _ _ _ hput
          have hput' := SpillL.putPieces_rest (p1 :: p2 :: rest) [] [] hcnt hp
            (by intro a ha; cases ha) (by intro q _ b hb; cases hb)
          simp only [List.nil_append, List.append_nil] at hput'
          rw [hput'] at hput
          cases hput
          obtain ⟨segs, heq, hflat, hsne, hpos⟩ :=
            SpillL.splitNode_branch_spec ps sth written ((p1 :: p2 :: rest).map kv)
          have hpos := hpos (by simp)
          have hpos' : ∀ s ∈ segs, s ≠ [] := fun s hs h0 => by
            have := hpos s hs; subst h0; simp at this
          rw [heq] at h
          have hp2 : ((segs.map (N.branch written)).map N.firstKey).Pairwise Lt := by
            rw [List.map_map]
            have hsub := SpillL.heads_sublist (fun p : Bytes × N => p.1)
              (N.firstKey ∘ N.branch written) (fun a r => by simp [N.firstKey]) segs hpos'
            refine List.Pairwise.sublist hsub ?_
            rw [hflat, List.map_map]
            exact hp
          refine ih _ t' hp2 h (Kin_split_branch F segs ?_)
          rw [hflat, subKids_kv]
          exact hK

theorem spillRoot_cow (ps sth fuel : Nat) (t t' : N) (hi : inTxN true true none none t = true)
    (h : spillRoot ps sth fuel t = some t') : Kin (sub t') (fz t) := by
  unfold spillRoot at h
  by_cases hm : t.hd.mat = true
  · simp only [hm, Bool.not_true, Bool.false_eq_true, if_false] at h
    cases hsp : spillN ps sth fuel t with
    | none => rw [hsp] at h; cases h
    | some pcs =>
      rw [hsp] at h
      simp only at h
      by_cases he : ∃ hd, t = .leaf hd []
      · obtain ⟨hd, rfl⟩ := he
        cases fuel with
        | zero => rw [PagesL.spillN_zero] at hsp; cases hsp
        | succ f =>
          rw [SpillL.spillN_empty_leaf ps sth f hd hm] at hsp
          cases hsp
          rw [growRoot.eq_3 _ _ _ _ (Nat.succ_ne_zero f)] at h
          cases h
          rw [sub_leaf]
          intro x hx h0
          rw [List.mem_singleton] at hx
          subst hx
          exact absurd rfl h0
      · have hin := SpillL.inTx_nonroot hi (fun hd h0 => he ⟨hd, h0⟩)
        have hc : t.count ≠ 0 := by
          cases t with
          | leaf hd items =>
            cases items with
            | nil => exact absurd ⟨hd, rfl⟩ he
            | cons a r => simp [N.count]
          | branch hd kids =>
            rw [inTxN] at hin
            simp only [Bool.and_eq_true, decide_eq_true_eq] at hin
            have := hin.1.1.1.2
            simp only [N.count]; omega
        obtain ⟨_, hkeys, _⟩ := PagesL.spillN_pg ps sth t fuel true none none pcs hin hc hsp
        exact growRoot_cow ps sth _ fuel pcs t' hkeys.1 h
          (spillN_cow ps sth t fuel true none none pcs hin hc hsp)
  · have hm' : t.hd.mat = false := by simpa using hm
    simp only [hm', Bool.not_false, if_true, Option.some.injEq] at h
    subst h
    rw [fz_not_mat hm']
    exact Kin_refl _

/-! ### the three phases together -/

/-- operations, rebalance, spill: every old page of the result is a node of the committed tree
    the transaction started from (`hi2`: the in-transaction invariant holds before the spill) -/
theorem phases_cow (ps sth rth fuel : Nat) (t t1 t2 t' : N) (ops : List Op) (order : List Nat)
    (hm : t.hd.mat = false) (h1 : applyOps fuel t ops = some t1)
    (h2 : rebalanceAll rth fuel t1 order = some t2) (hi2 : InTx t2)
    (h3 : spillRoot ps sth fuel t2 = some t') : Kin (sub t') (sub t) := by
  have h3' := spillRoot_cow ps sth fuel t2 t' hi2 h3
  rw [← fz_not_mat hm]
  exact h3'.mono (fun x hx => applyOps_fz fuel ops t t1 h1 x (rebalanceAll_fz rth fuel order t1 t2 h2 x hx))

end Bolt.BTree.CowL
