import Bolt.Lemmas.BTreePages
namespace Bolt.BTree.CowL
open Bolt Bolt.BTree

end Bolt.BTree.CowL
