/-
Well-formedness of the nested-map reference model and helper lemmas (C04, C15).
-/
import Bolt.Spec.NestedMap
import Bolt.Model.Compact
namespace Bolt

mutual
/-- every bucket's keys are strictly ascending in byte order (hence distinct), recursively -/
def SWF : SVal → Prop
  | .val _ => True
  | .bkt _ ents => EntsSorted ents ∧ EntsWF ents
def EntsWF : Ents → Prop
  | [] => True
  | (_, v) :: r => SWF v ∧ EntsWF r
/-- strictly ascending keys -/
def EntsSorted : Ents → Prop
  | [] => True
  | [_] => True
  | (k, _) :: (k', v') :: r => Bytes.lt k k' = true ∧ EntsSorted ((k', v') :: r)
end

/-- the root bucket holds only buckets (the API offers no way to put a value there) -/
def RootOnlyBuckets : SVal → Prop
  | .bkt _ ents => ∀ p ∈ ents, p.2.isBucket = true
  | .val _ => False

mutual
/-- keys are non-empty and values/keys respect the API limits, recursively (what `Put` and
    `CreateBucket` accept) -/
def KeysOK : SVal → Prop
  | .val v => v.length ≤ maxValueSize
  | .bkt _ ents => EntsKeysOK ents
def EntsKeysOK : Ents → Prop
  | [] => True
  | (k, v) :: r => k ≠ [] ∧ (v.isBucket = false → k.length ≤ maxKeySize) ∧ KeysOK v ∧ EntsKeysOK r
end

/-! ### `Bytes.lt` is a strict total order -/

theorem Bytes.lt_irrefl : ∀ a : Bytes, Bytes.lt a a = false
  | [] => rfl
  | a :: as => by simp [Bytes.lt, UInt8.lt_irrefl, Bytes.lt_irrefl as]

theorem Bytes.lt_trans : ∀ {a b c : Bytes}, Bytes.lt a b = true → Bytes.lt b c = true → Bytes.lt a c = true
  | [], [], _, h, _ => by simp [Bytes.lt] at h
  | [], _ :: _, [], _, h => by simp [Bytes.lt] at h
  | [], _ :: _, _ :: _, _, _ => by simp [Bytes.lt]
  | _ :: _, [], _, h, _ => by simp [Bytes.lt] at h
  | _ :: _, _ :: _, [], _, h => by simp [Bytes.lt] at h
  | x :: a, y :: b, z :: c, h1, h2 => by
    simp only [Bytes.lt] at h1 h2 ⊢
    by_cases hxy : x < y
    · by_cases hyz : y < z
      · simp [UInt8.lt_trans hxy hyz]
      · simp only [hyz, if_false] at h2
        by_cases hzy : z < y
        · simp [hzy] at h2
        · have : y = z := UInt8.le_antisymm (UInt8.not_lt.mp hzy) (UInt8.not_lt.mp hyz)
          subst this; simp [hxy]
    · simp only [hxy, if_false] at h1
      by_cases hyx : y < x
      · simp [hyx] at h1
      · have : x = y := UInt8.le_antisymm (UInt8.not_lt.mp hyx) (UInt8.not_lt.mp hxy)
        subst this
        simp only [hyx, if_false] at h1
        by_cases hyz : x < z
        · simp [hyz]
        · simp only [hyz, if_false] at h2 ⊢
          by_cases hzy : z < x
          · simp [hzy] at h2
          · simp only [hzy, if_false] at h2 ⊢
            exact Bytes.lt_trans h1 h2

theorem Bytes.lt_asymm {a b : Bytes} (h : Bytes.lt a b = true) : Bytes.lt b a = false := by
  cases hb : Bytes.lt b a with
  | false => rfl
  | true => have := Bytes.lt_trans h hb; rw [Bytes.lt_irrefl] at this; exact this.symm

theorem Bytes.lt_ne {a b : Bytes} (h : Bytes.lt a b = true) : a ≠ b := by
  intro hab; subst hab; rw [Bytes.lt_irrefl] at h; exact Bool.noConfusion h

theorem Bytes.lt_total : ∀ {a b : Bytes}, Bytes.lt a b = false → a ≠ b → Bytes.lt b a = true
  | [], [], _, h => absurd rfl h
  | [], _ :: _, h, _ => by simp [Bytes.lt] at h
  | _ :: _, [], _, _ => by simp [Bytes.lt]
  | x :: a, y :: b, h1, h2 => by
    simp only [Bytes.lt] at h1 ⊢
    by_cases hxy : x < y
    · simp [hxy] at h1
    · simp only [hxy, if_false] at h1 ⊢
      by_cases hyx : y < x
      · simp [hyx]
      · have : x = y := UInt8.le_antisymm (UInt8.not_lt.mp hyx) (UInt8.not_lt.mp hxy)
        subst this
        simp only [hyx, if_false] at h1 ⊢
        exact Bytes.lt_total h1 (fun hab => h2 (by rw [hab]))

/-! ### entry lists -/

@[simp] theorem entsLookup_nil (k : Bytes) : entsLookup [] k = none := rfl

theorem entsLookup_cons (k' : Bytes) (v : SVal) (r : Ents) (k : Bytes) :
    entsLookup ((k', v) :: r) k = if k' = k then some v else entsLookup r k := by
  unfold entsLookup
  by_cases h : k' = k <;> simp [h]

/-- strictly ascending keys, as `Pairwise` -/
def EntsSortedP (e : Ents) : Prop := e.Pairwise (fun a b => Bytes.lt a.1 b.1 = true)

theorem entsSorted_iff : ∀ e : Ents, EntsSorted e ↔ EntsSortedP e
  | [] => by simp [EntsSorted, EntsSortedP]
  | [_] => by simp [EntsSorted, EntsSortedP]
  | (k, v) :: (k', v') :: r => by
    have ih := entsSorted_iff ((k', v') :: r)
    rw [EntsSorted, ih]
    unfold EntsSortedP
    constructor
    · intro ⟨h1, h2⟩
      refine List.pairwise_cons.mpr ⟨?_, h2⟩
      intro a ha
      rcases List.mem_cons.mp ha with rfl | ha
      · exact h1
      · exact Bytes.lt_trans h1 ((List.pairwise_cons.mp h2).1 a ha)
    · intro h
      have := List.pairwise_cons.mp h
      exact ⟨this.1 _ (List.mem_cons_self ..), this.2⟩

theorem entsWF_iff : ∀ e : Ents, EntsWF e ↔ ∀ p ∈ e, SWF p.2
  | [] => by simp [EntsWF]
  | (k, v) :: r => by
    rw [EntsWF, entsWF_iff r]; simp

theorem swf_bkt (s : Nat) (e : Ents) : SWF (.bkt s e) ↔ EntsSortedP e ∧ ∀ p ∈ e, SWF p.2 := by
  rw [SWF, entsSorted_iff, entsWF_iff]

theorem entsLookup_insert_same (k : Bytes) (v : SVal) : ∀ e : Ents, entsLookup (entsInsert k v e) k = some v
  | [] => by simp [entsInsert, entsLookup_cons]
  | (k', v') :: r => by
    unfold entsInsert
    by_cases h1 : k = k'
    · simp [h1, entsLookup_cons]
    · have h1' : (k == k') = false := by simpa using h1
      simp only [h1']
      by_cases h2 : Bytes.lt k k' = true
      · simp [h2, entsLookup_cons]
      · simp only [h2, Bool.false_eq_true, if_false]
        rw [entsLookup_cons, if_neg (fun h => h1 h.symm)]
        exact entsLookup_insert_same k v r

theorem entsLookup_insert_other (k : Bytes) (v : SVal) {k2 : Bytes} (hne : k2 ≠ k) :
    ∀ e : Ents, entsLookup (entsInsert k v e) k2 = entsLookup e k2
  | [] => by simp [entsInsert, entsLookup_cons, Ne.symm hne]
  | (k', v') :: r => by
    unfold entsInsert
    by_cases h1 : k = k'
    · subst h1; simp [entsLookup_cons, Ne.symm hne]
    · have h1' : (k == k') = false := by simpa using h1
      simp only [h1']
      by_cases h2 : Bytes.lt k k' = true
      · simp [h2, entsLookup_cons, Ne.symm hne]
      · simp only [h2, Bool.false_eq_true, if_false]
        rw [entsLookup_cons, entsLookup_cons, entsLookup_insert_other k v hne r]

theorem mem_entsInsert {k : Bytes} {v : SVal} {p : Bytes × SVal} :
    ∀ {e : Ents}, p ∈ entsInsert k v e → p = (k, v) ∨ p ∈ e
  | [], h => by simpa [entsInsert] using h
  | (k', v') :: r, h => by
    unfold entsInsert at h
    by_cases h1 : k = k'
    · have h1' : (k == k') = true := by simpa using h1
      simp only [h1', if_true] at h
      rcases List.mem_cons.mp h with h | h
      · exact Or.inl h
      · exact Or.inr (List.mem_cons_of_mem _ h)
    · have h1' : (k == k') = false := by simpa using h1
      simp only [h1'] at h
      by_cases h2 : Bytes.lt k k' = true
      · simp only [h2, if_true] at h
        rcases List.mem_cons.mp h with h | h
        · exact Or.inl h
        · exact Or.inr h
      · simp only [h2, Bool.false_eq_true, if_false] at h
        rcases List.mem_cons.mp h with h | h
        · exact Or.inr (h ▸ List.mem_cons_self ..)
        · rcases mem_entsInsert h with h | h
          · exact Or.inl h
          · exact Or.inr (List.mem_cons_of_mem _ h)

theorem entsInsert_sorted (k : Bytes) (v : SVal) : ∀ {e : Ents}, EntsSortedP e → EntsSortedP (entsInsert k v e)
  | [], _ => by simp [entsInsert, EntsSortedP]
  | (k', v') :: r, h => by
    unfold EntsSortedP at h
    have hc := List.pairwise_cons.mp h
    unfold entsInsert
    by_cases h1 : k = k'
    · subst h1
      simp only [beq_self_eq_true, if_true]
      exact List.pairwise_cons.mpr ⟨hc.1, hc.2⟩
    · have h1' : (k == k') = false := by simpa using h1
      simp only [h1']
      by_cases h2 : Bytes.lt k k' = true
      · simp only [h2, if_true]
        refine List.pairwise_cons.mpr ⟨?_, h⟩
        intro a ha
        rcases List.mem_cons.mp ha with rfl | ha
        · exact h2
        · exact Bytes.lt_trans h2 (hc.1 a ha)
      · simp only [h2, Bool.false_eq_true, if_false]
        have h3 : Bytes.lt k' k = true := Bytes.lt_total (by simpa using h2) h1
        refine List.pairwise_cons.mpr ⟨?_, entsInsert_sorted k v hc.2⟩
        intro a ha
        rcases mem_entsInsert ha with rfl | ha
        · exact h3
        · exact hc.1 a ha

theorem entsInsert_wf {k : Bytes} {v : SVal} {e : Ents} (hv : SWF v) (he : ∀ p ∈ e, SWF p.2) :
    ∀ p ∈ entsInsert k v e, SWF p.2 := by
  intro p hp
  rcases mem_entsInsert hp with rfl | hp
  · exact hv
  · exact he p hp

/-- inserting a key larger than all present keys appends at the end -/
theorem entsInsert_append (k : Bytes) (v : SVal) :
    ∀ {e : Ents}, (∀ p ∈ e, Bytes.lt p.1 k = true) → entsInsert k v e = e ++ [(k, v)]
  | [], _ => rfl
  | (k', v') :: r, h => by
    have h0 : Bytes.lt k' k = true := h (k', v') (List.mem_cons_self ..)
    have h1 : (k == k') = false := by
      have := Bytes.lt_ne h0
      simpa using (fun h => this h.symm)
    have h2 : Bytes.lt k k' = false := Bytes.lt_asymm h0
    unfold entsInsert
    simp only [h1, h2, Bool.false_eq_true, if_false, List.cons_append]
    rw [entsInsert_append k v (fun p hp => h p (List.mem_cons_of_mem _ hp))]

theorem entsLookup_none_of_lt {k : Bytes} :
    ∀ {e : Ents}, (∀ p ∈ e, Bytes.lt p.1 k = true) → entsLookup e k = none
  | [], _ => rfl
  | (k', v') :: r, h => by
    have h0 : Bytes.lt k' k = true := h (k', v') (List.mem_cons_self ..)
    rw [entsLookup_cons, if_neg (Bytes.lt_ne h0)]
    exact entsLookup_none_of_lt (fun p hp => h p (List.mem_cons_of_mem _ hp))

theorem entsLookup_erase_same (k : Bytes) : ∀ e : Ents, entsLookup (entsErase k e) k = none
  | [] => rfl
  | (k', v') :: r => by
    unfold entsErase
    by_cases h : k' = k
    · simp only [List.filter_cons, h, beq_self_eq_true, Bool.not_true, Bool.false_eq_true, if_false]
      exact entsLookup_erase_same k r
    · have h' : (k' == k) = false := by simpa using h
      simp only [List.filter_cons, h', Bool.not_false, if_true]
      rw [entsLookup_cons, if_neg h]
      exact entsLookup_erase_same k r

theorem entsLookup_erase_other (k : Bytes) {k2 : Bytes} (hne : k2 ≠ k) :
    ∀ e : Ents, entsLookup (entsErase k e) k2 = entsLookup e k2
  | [] => rfl
  | (k', v') :: r => by
    unfold entsErase
    by_cases h : k' = k
    · simp only [List.filter_cons, h, beq_self_eq_true, Bool.not_true, Bool.false_eq_true, if_false]
      rw [entsLookup_cons, if_neg (Ne.symm hne)]
      exact entsLookup_erase_other k hne r
    · have h' : (k' == k) = false := by simpa using h
      simp only [List.filter_cons, h', Bool.not_false, if_true]
      rw [entsLookup_cons, entsLookup_cons]
      have := entsLookup_erase_other k hne r
      unfold entsErase at this
      rw [this]

theorem entsErase_sorted (k : Bytes) {e : Ents} (h : EntsSortedP e) : EntsSortedP (entsErase k e) :=
  List.Pairwise.filter _ h

theorem mem_entsErase {k : Bytes} {e : Ents} {p : Bytes × SVal} (h : p ∈ entsErase k e) : p ∈ e :=
  (List.mem_filter.mp h).1

theorem entsLookup_mem {k : Bytes} {v : SVal} : ∀ {e : Ents}, entsLookup e k = some v → (k, v) ∈ e
  | [], h => by simp at h
  | (k', v') :: r, h => by
    rw [entsLookup_cons] at h
    by_cases hk : k' = k
    · rw [if_pos hk] at h
      cases h; subst hk; exact List.mem_cons_self ..
    · rw [if_neg hk] at h
      exact List.mem_cons_of_mem _ (entsLookup_mem h)

theorem entsLookup_of_mem {k : Bytes} {v : SVal} :
    ∀ {e : Ents}, EntsSortedP e → (k, v) ∈ e → entsLookup e k = some v
  | [], _, h => by simp at h
  | (k', v') :: r, hs, h => by
    have hc := List.pairwise_cons.mp hs
    rw [entsLookup_cons]
    rcases List.mem_cons.mp h with h | h
    · cases h; simp
    · have := Bytes.lt_ne (hc.1 _ h)
      rw [if_neg this]
      exact entsLookup_of_mem hc.2 h

/-! ### path navigation -/

/-- apply `g` to the value(s) stored under key `k` (what `setBucketAt` does at each level) -/
def entsUpdate (k : Bytes) (g : SVal → SVal) (e : Ents) : Ents :=
  e.map (fun p => if p.1 == k then (p.1, g p.2) else p)

theorem setBucketAt_cons (k : Bytes) (ks : List Bytes) (new : Nat × Ents) (s : Nat) (e : Ents) :
    setBucketAt (k :: ks) new (.bkt s e) = .bkt s (entsUpdate k (setBucketAt ks new) e) := by
  rw [setBucketAt]; rfl

@[simp] theorem setBucketAt_nil (new : Nat × Ents) (s : Nat) (e : Ents) :
    setBucketAt [] new (.bkt s e) = .bkt new.1 new.2 := by
  cases new; rw [setBucketAt]

@[simp] theorem setBucketAt_val (p : List Bytes) (new : Nat × Ents) (v : Bytes) :
    setBucketAt p new (.val v) = .val v := by
  cases p <;> rw [setBucketAt] <;> simp

@[simp] theorem bucketAt_nil (s : Nat) (e : Ents) : bucketAt [] (.bkt s e) = some (s, e) := by
  rw [bucketAt]

@[simp] theorem bucketAt_val (p : List Bytes) (v : Bytes) : bucketAt p (.val v) = none := by
  cases p <;> rw [bucketAt]

theorem bucketAt_cons (k : Bytes) (ks : List Bytes) (s : Nat) (e : Ents) :
    bucketAt (k :: ks) (.bkt s e) = (entsLookup e k).bind (bucketAt ks) := by
  rw [bucketAt]; cases entsLookup e k <;> rfl

theorem entsUpdate_cons (k : Bytes) (g : SVal → SVal) (k' : Bytes) (v : SVal) (r : Ents) :
    entsUpdate k g ((k', v) :: r) = (if k' = k then (k', g v) else (k', v)) :: entsUpdate k g r := by
  unfold entsUpdate
  by_cases h : k' = k <;> simp [h]

theorem entsLookup_update (k : Bytes) (g : SVal → SVal) (k2 : Bytes) :
    ∀ e : Ents, entsLookup (entsUpdate k g e) k2 = if k2 = k then (entsLookup e k).map g else entsLookup e k2
  | [] => by simp [entsUpdate]
  | (k', v') :: r => by
    rw [entsUpdate_cons]
    have ih := entsLookup_update k g k2 r
    by_cases h1 : k' = k
    · subst h1
      rw [if_pos rfl, entsLookup_cons, ih, entsLookup_cons, entsLookup_cons]
      by_cases h2 : k' = k2
      · subst h2; simp
      · simp [h2, Ne.symm h2]
    · rw [if_neg h1, entsLookup_cons, ih, entsLookup_cons, entsLookup_cons]
      by_cases h2 : k2 = k
      · subst h2; simp [h1]
      · simp [h2]

theorem entsUpdate_keys (k : Bytes) (g : SVal → SVal) (e : Ents) :
    (entsUpdate k g e).map (·.1) = e.map (·.1) := by
  unfold entsUpdate
  rw [List.map_map]
  apply List.map_congr_left
  intro p _
  by_cases h : p.1 = k <;> simp [h]

theorem entsSortedP_iff_keys (e : Ents) :
    EntsSortedP e ↔ (e.map (·.1)).Pairwise (fun a b => Bytes.lt a b = true) := by
  unfold EntsSortedP; rw [List.pairwise_map]

theorem entsUpdate_sorted (k : Bytes) (g : SVal → SVal) {e : Ents} (h : EntsSortedP e) :
    EntsSortedP (entsUpdate k g e) := by
  rw [entsSortedP_iff_keys, entsUpdate_keys, ← entsSortedP_iff_keys]; exact h

theorem mem_entsUpdate {k : Bytes} {g : SVal → SVal} {e : Ents} {p : Bytes × SVal}
    (h : p ∈ entsUpdate k g e) : p ∈ e ∨ ∃ v, (k, v) ∈ e ∧ p = (k, g v) := by
  unfold entsUpdate at h
  rcases List.mem_map.mp h with ⟨q, hq, rfl⟩
  by_cases hk : q.1 = k
  · right; refine ⟨q.2, ?_, ?_⟩
    · rw [← hk]; exact hq
    · simp [hk]
  · left; simp [hk]; exact hq

/-- on a sorted list only the (unique) entry found by `entsLookup` is touched -/
theorem entsUpdate_congr {k : Bytes} {g g' : SVal → SVal} {e : Ents} (hs : EntsSortedP e)
    (h : ∀ v, entsLookup e k = some v → g v = g' v) : entsUpdate k g e = entsUpdate k g' e := by
  unfold entsUpdate
  apply List.map_congr_left
  intro p hp
  by_cases hk : p.1 = k
  · have : entsLookup e k = some p.2 := entsLookup_of_mem hs (by rw [← hk]; exact hp)
    simp [hk, h _ this]
  · simp [hk]

theorem entsUpdate_id {k : Bytes} {g : SVal → SVal} {e : Ents} (hs : EntsSortedP e)
    (h : ∀ v, entsLookup e k = some v → g v = v) : entsUpdate k g e = e := by
  have : entsUpdate k g e = entsUpdate k id e := entsUpdate_congr hs h
  rw [this]; unfold entsUpdate
  conv => rhs; rw [← List.map_id e]
  apply List.map_congr_left
  intro p _
  by_cases hk : p.1 = k
  · subst hk; simp
  · simp [hk]

theorem entsUpdate_update (k : Bytes) (g g' : SVal → SVal) (e : Ents) :
    entsUpdate k g (entsUpdate k g' e) = entsUpdate k (g ∘ g') e := by
  unfold entsUpdate
  rw [List.map_map]
  apply List.map_congr_left
  intro p _; by_cases hk : p.1 = k <;> simp [hk]

theorem bucketAt_some_bkt {p : List Bytes} {r : SVal} {x : Nat × Ents} (h : bucketAt p r = some x) :
    ∃ s e, r = .bkt s e := by
  cases r with
  | val v => simp at h
  | bkt s e => exact ⟨s, e, rfl⟩

/-- one step of navigation through an updated bucket -/
theorem bucketAt_setBucketAt_step (k : Bytes) (q p : List Bytes) (x : Nat × Ents) (s : Nat) (e : Ents) :
    bucketAt (k :: q) (setBucketAt (k :: p) x (.bkt s e)) =
      (entsLookup e k).bind (fun v => bucketAt q (setBucketAt p x v)) := by
  rw [setBucketAt_cons, bucketAt_cons, entsLookup_update, if_pos rfl]
  cases entsLookup e k <;> rfl

/-- reading at or below the replaced bucket sees the new bucket -/
theorem bucketAt_setBucketAt_below (x : Nat × Ents) (q : List Bytes) :
    ∀ (p : List Bytes) (r : SVal) (y : Nat × Ents), bucketAt p r = some y →
      bucketAt (p ++ q) (setBucketAt p x r) = bucketAt q (.bkt x.1 x.2)
  | [], r, y, h => by
    obtain ⟨s, e, rfl⟩ := bucketAt_some_bkt h
    simp
  | k :: p, r, y, h => by
    obtain ⟨s, e, rfl⟩ := bucketAt_some_bkt h
    rw [List.cons_append, bucketAt_setBucketAt_step]
    rw [bucketAt_cons] at h
    cases hl : entsLookup e k with
    | none => rw [hl] at h; simp at h
    | some v =>
      rw [hl] at h
      exact bucketAt_setBucketAt_below x q p v y h

theorem bucketAt_setBucketAt_same {p : List Bytes} {r : SVal} {y : Nat × Ents} (x : Nat × Ents)
    (h : bucketAt p r = some y) : bucketAt p (setBucketAt p x r) = some x := by
  have := bucketAt_setBucketAt_below x [] p r y h
  simpa using this

/-- reading strictly above the replaced bucket sees the same bucket with one entry updated -/
theorem bucketAt_setBucketAt_above (x : Nat × Ents) (k : Bytes) (p : List Bytes) :
    ∀ (q : List Bytes) (r : SVal) (s : Nat) (e : Ents), bucketAt q r = some (s, e) →
      bucketAt q (setBucketAt (q ++ k :: p) x r) = some (s, entsUpdate k (setBucketAt p x) e)
  | [], r, s, e, h => by
    obtain ⟨s', e', rfl⟩ := bucketAt_some_bkt h
    simp at h
    obtain ⟨rfl, rfl⟩ := h
    rw [List.nil_append, setBucketAt_cons, bucketAt_nil]
  | k' :: q, r, s, e, h => by
    obtain ⟨s', e', rfl⟩ := bucketAt_some_bkt h
    rw [List.cons_append, bucketAt_setBucketAt_step]
    rw [bucketAt_cons] at h
    cases hl : entsLookup e' k' with
    | none => rw [hl] at h; simp at h
    | some v =>
      rw [hl] at h
      exact bucketAt_setBucketAt_above x k p q v s e h

/-- reading along a diverging path is unaffected -/
theorem bucketAt_setBucketAt_diverge (x : Nat × Ents) {a b : Bytes} (hab : a ≠ b) (p q : List Bytes) :
    ∀ (c : List Bytes) (r : SVal),
      bucketAt (c ++ b :: q) (setBucketAt (c ++ a :: p) x r) = bucketAt (c ++ b :: q) r
  | [], r => by
    cases r with
    | val v => simp
    | bkt s e =>
      rw [List.nil_append, List.nil_append, setBucketAt_cons, bucketAt_cons, bucketAt_cons,
        entsLookup_update, if_neg (Ne.symm hab)]
  | k :: c, r => by
    cases r with
    | val v => simp
    | bkt s e =>
      rw [List.cons_append, List.cons_append, bucketAt_setBucketAt_step, bucketAt_cons]
      cases entsLookup e k with
      | none => rfl
      | some v => exact bucketAt_setBucketAt_diverge x hab p q c v

theorem bucketAt_append (q : List Bytes) :
    ∀ (p : List Bytes) (r : SVal),
      bucketAt (p ++ q) r = (bucketAt p r).bind (fun y => bucketAt q (.bkt y.1 y.2))
  | [], r => by
    cases r with
    | val v => simp
    | bkt s e => simp
  | k :: p, r => by
    cases r with
    | val v => simp
    | bkt s e =>
      rw [List.cons_append, bucketAt_cons, bucketAt_cons]
      cases entsLookup e k with
      | none => rfl
      | some v => exact bucketAt_append q p v

theorem bucketAt_snoc {p : List Bytes} {r : SVal} {s : Nat} {e : Ents} (k : Bytes)
    (h : bucketAt p r = some (s, e)) :
    bucketAt (p ++ [k]) r = (entsLookup e k).bind (bucketAt []) := by
  rw [bucketAt_append, h]; simp [bucketAt_cons]

/-- any two paths: one extends the other, or they diverge after a common prefix -/
theorem path_cases : ∀ (p q : List Bytes),
    (∃ q', q = p ++ q') ∨ (∃ k p', p = q ++ k :: p') ∨
    (∃ c a p' b q', a ≠ b ∧ p = c ++ a :: p' ∧ q = c ++ b :: q')
  | [], q => Or.inl ⟨q, rfl⟩
  | a :: p, [] => Or.inr (Or.inl ⟨a, p, rfl⟩)
  | a :: p, b :: q => by
    by_cases hab : a = b
    · subst hab
      rcases path_cases p q with ⟨q', h⟩ | ⟨k, p', h⟩ | ⟨c, x, p', y, q', hxy, h1, h2⟩
      · exact Or.inl ⟨q', by rw [h]; rfl⟩
      · exact Or.inr (Or.inl ⟨k, p', by rw [h]; rfl⟩)
      · exact Or.inr (Or.inr ⟨a :: c, x, p', y, q', hxy, by rw [h1]; rfl, by rw [h2]; rfl⟩)
    · exact Or.inr (Or.inr ⟨[], a, p, b, q, hab, rfl, rfl⟩)

/-! ### well-formedness along paths -/

theorem bucketAt_wf : ∀ {p : List Bytes} {r : SVal} {s : Nat} {e : Ents}, SWF r → bucketAt p r = some (s, e) →
    EntsSortedP e ∧ ∀ q ∈ e, SWF q.2
  | [], r, s, e, hr, h => by
    obtain ⟨s', e', rfl⟩ := bucketAt_some_bkt h
    simp at h; obtain ⟨rfl, rfl⟩ := h
    exact (swf_bkt _ _).mp hr
  | k :: p, r, s, e, hr, h => by
    obtain ⟨s', e', rfl⟩ := bucketAt_some_bkt h
    rw [bucketAt_cons] at h
    cases hl : entsLookup e' k with
    | none => rw [hl] at h; simp at h
    | some v =>
      rw [hl] at h
      have hv : SWF v := ((swf_bkt _ _).mp hr).2 _ (entsLookup_mem hl)
      exact bucketAt_wf hv h

theorem setBucketAt_wf (x : Nat × Ents) (hx1 : EntsSortedP x.2) (hx2 : ∀ q ∈ x.2, SWF q.2) :
    ∀ (p : List Bytes) (r : SVal), SWF r → SWF (setBucketAt p x r)
  | [], r, hr => by
    cases r with
    | val v => simpa using hr
    | bkt s e => rw [setBucketAt_nil, swf_bkt]; exact ⟨hx1, hx2⟩
  | k :: p, r, hr => by
    cases r with
    | val v => simpa using hr
    | bkt s e =>
      rw [setBucketAt_cons, swf_bkt]
      have ⟨h1, h2⟩ := (swf_bkt _ _).mp hr
      refine ⟨entsUpdate_sorted _ _ h1, ?_⟩
      intro q hq
      rcases mem_entsUpdate hq with hq | ⟨v, hv, rfl⟩
      · exact h2 q hq
      · exact setBucketAt_wf x hx1 hx2 p v (h2 _ hv)

/-! ### algebra of `setBucketAt` -/

theorem setBucketAt_setBucketAt (x y : Nat × Ents) :
    ∀ (p : List Bytes) (r : SVal), setBucketAt p x (setBucketAt p y r) = setBucketAt p x r
  | [], r => by
    cases r with
    | val v => simp
    | bkt s e => simp
  | k :: p, r => by
    cases r with
    | val v => simp
    | bkt s e =>
      rw [setBucketAt_cons, setBucketAt_cons, setBucketAt_cons, entsUpdate_update]
      congr 1
      unfold entsUpdate
      apply List.map_congr_left
      intro q _
      by_cases hk : q.1 = k
      · simp [hk, setBucketAt_setBucketAt x y p q.2]
      · simp [hk]

theorem setBucketAt_self : ∀ {p : List Bytes} {r : SVal} {x : Nat × Ents}, SWF r → bucketAt p r = some x →
    setBucketAt p x r = r
  | [], r, x, _, h => by
    obtain ⟨s', e', rfl⟩ := bucketAt_some_bkt h
    simp at h; subst h; simp
  | k :: p, r, x, hr, h => by
    obtain ⟨s', e', rfl⟩ := bucketAt_some_bkt h
    have ⟨h1, h2⟩ := (swf_bkt _ _).mp hr
    rw [setBucketAt_cons, entsUpdate_id h1]
    intro v hv
    rw [bucketAt_cons, hv] at h
    exact setBucketAt_self (h2 _ (entsLookup_mem hv)) h

/-- replacing a child bucket = replacing the parent with the child entry updated -/
theorem setBucketAt_snoc (k : Bytes) (x : Nat × Ents) :
    ∀ {p : List Bytes} {r : SVal} {s : Nat} {e : Ents}, SWF r → bucketAt p r = some (s, e) →
      setBucketAt (p ++ [k]) x r = setBucketAt p (s, entsUpdate k (setBucketAt [] x) e) r
  | [], r, s, e, _, h => by
    obtain ⟨s', e', rfl⟩ := bucketAt_some_bkt h
    simp at h; obtain ⟨rfl, rfl⟩ := h
    rw [List.nil_append, setBucketAt_cons, setBucketAt_nil]
  | k' :: p, r, s, e, hr, h => by
    obtain ⟨s', e', rfl⟩ := bucketAt_some_bkt h
    have ⟨h1, h2⟩ := (swf_bkt _ _).mp hr
    rw [List.cons_append, setBucketAt_cons, setBucketAt_cons]
    congr 1
    apply entsUpdate_congr h1
    intro v hv
    rw [bucketAt_cons, hv] at h
    exact setBucketAt_snoc k x (h2 _ (entsLookup_mem hv)) h

theorem isPrefixOf_iff : ∀ (p q : List Bytes), isPrefixOf p q = true ↔ ∃ t, q = p ++ t
  | [], q => by simp [isPrefixOf]
  | a :: p, [] => by simp [isPrefixOf]
  | a :: p, b :: q => by
    rw [isPrefixOf, Bool.and_eq_true, isPrefixOf_iff p q]
    constructor
    · rintro ⟨hab, t, rfl⟩
      have : a = b := by simpa using hab
      exact ⟨t, by rw [this]; rfl⟩
    · rintro ⟨t, ht⟩
      rw [List.cons_append] at ht
      injection ht with h1 h2
      exact ⟨by simp [h1], t, h2⟩

/-! ### inversion of successful API calls -/

theorem apiPut_ok {r : SVal} {p : List Bytes} {k v : Bytes} {r' : SVal} (h : apiPut r p k v = .ok r') :
    ∃ s e, bucketAt p r = some (s, e) ∧ p ≠ [] ∧ k ≠ [] ∧ k.length ≤ maxKeySize ∧ v.length ≤ maxValueSize ∧
      r' = setBucketAt p (s, entsInsert k (.val v) e) r := by
  unfold apiPut at h
  split at h
  · cases h
  · rename_i s e hb
    refine ⟨s, e, hb, ?_⟩
    split at h; · cases h
    split at h; · cases h
    split at h; · cases h
    split at h; · cases h
    rename_i h1 h2 h3 h4
    split at h
    · cases h
    · cases h
      refine ⟨?_, ?_, by omega, by omega, rfl⟩
      · cases p <;> simp at h1 ⊢
      · cases k <;> simp at h2 ⊢

theorem apiPut_eq_ok {r : SVal} {p : List Bytes} {k v : Bytes} {s : Nat} {e : Ents}
    (hb : bucketAt p r = some (s, e)) (hp : p ≠ []) (hk : k ≠ []) (hkl : k.length ≤ maxKeySize)
    (hvl : v.length ≤ maxValueSize) (hl : ∀ s' e', entsLookup e k ≠ some (.bkt s' e')) :
    apiPut r p k v = .ok (setBucketAt p (s, entsInsert k (.val v) e) r) := by
  unfold apiPut
  rw [hb]
  have h1 : p.isEmpty = false := by cases p <;> simp at hp ⊢
  have h2 : k.isEmpty = false := by cases k <;> simp at hk ⊢
  have h3 : ¬ k.length > maxKeySize := by omega
  have h4 : ¬ v.length > maxValueSize := by omega
  simp only [h1, h2, h3, h4, Bool.false_eq_true, if_false]

/-- what `Get` returns for a bucket's entry list -/
def entsGet (e : Ents) (k : Bytes) : Option Bytes :=
  match entsLookup e k with
  | some (.val v) => some v
  | _ => none

theorem apiGet_eq {r : SVal} {p : List Bytes} {s : Nat} {e : Ents} (k : Bytes)
    (hb : bucketAt p r = some (s, e)) (hp : p ≠ []) : apiGet r p k = .ok (entsGet e k) := by
  unfold apiGet
  rw [hb]
  have h1 : p.isEmpty = false := by cases p <;> simp at hp ⊢
  simp only [h1, Bool.false_eq_true, if_false]
  unfold entsGet
  split <;> simp_all

theorem apiDelete_ok {r : SVal} {p : List Bytes} {k : Bytes} {r' : SVal} (h : apiDelete r p k = .ok r') :
    ∃ s e, bucketAt p r = some (s, e) ∧ p ≠ [] ∧
      ((entsLookup e k = none ∧ r' = r) ∨
       ((∃ v, entsLookup e k = some (.val v)) ∧ r' = setBucketAt p (s, entsErase k e) r)) := by
  unfold apiDelete at h
  split at h
  · cases h
  · rename_i s e hb
    refine ⟨s, e, hb, ?_⟩
    split at h; · cases h
    rename_i h1
    refine ⟨by cases p <;> simp at h1 ⊢, ?_⟩
    split at h
    · rename_i hl; cases h; exact Or.inl ⟨hl, rfl⟩
    · cases h
    · rename_i v hl; cases h; exact Or.inr ⟨⟨v, hl⟩, rfl⟩

theorem apiCreateBucket_ok {r : SVal} {p : List Bytes} {k : Bytes} {b : Bool} {r' : SVal}
    (h : apiCreateBucket r p k b = .ok r') :
    ∃ s e, bucketAt p r = some (s, e) ∧ k ≠ [] ∧
      ((b = true ∧ (∃ s' e', entsLookup e k = some (.bkt s' e')) ∧ r' = r) ∨
       (entsLookup e k = none ∧ r' = setBucketAt p (s, entsInsert k (.bkt 0 []) e) r)) := by
  unfold apiCreateBucket at h
  split at h
  · cases h
  · rename_i s e hb
    refine ⟨s, e, hb, ?_⟩
    split at h; · cases h
    rename_i h1
    refine ⟨by cases k <;> simp at h1 ⊢, ?_⟩
    split at h
    · rename_i s' e' hl
      split at h
      · rename_i hb'; cases h; exact Or.inl ⟨hb', ⟨s', e', hl⟩, rfl⟩
      · cases h
    · cases h
    · rename_i hl; cases h; exact Or.inr ⟨hl, rfl⟩

theorem apiCreateBucket_eq_ok {r : SVal} {p : List Bytes} {k : Bytes} {b : Bool} {s : Nat} {e : Ents}
    (hb : bucketAt p r = some (s, e)) (hk : k ≠ []) (hl : entsLookup e k = none) :
    apiCreateBucket r p k b = .ok (setBucketAt p (s, entsInsert k (.bkt 0 []) e) r) := by
  unfold apiCreateBucket
  rw [hb]
  have h2 : k.isEmpty = false := by cases k <;> simp at hk ⊢
  simp only [h2, Bool.false_eq_true, if_false, hl]

theorem apiDeleteBucket_ok {r : SVal} {p : List Bytes} {k : Bytes} {r' : SVal}
    (h : apiDeleteBucket r p k = .ok r') :
    ∃ s e, bucketAt p r = some (s, e) ∧ (∃ s' e', entsLookup e k = some (.bkt s' e')) ∧
      r' = setBucketAt p (s, entsErase k e) r := by
  unfold apiDeleteBucket at h
  split at h
  · cases h
  · rename_i s e hb
    refine ⟨s, e, hb, ?_⟩
    split at h
    · cases h
    · cases h
    · rename_i s' e' hl; cases h; exact ⟨⟨s', e', hl⟩, rfl⟩

theorem apiSetSequence_ok {r : SVal} {p : List Bytes} {n : Nat} {r' : SVal}
    (h : apiSetSequence r p n = .ok r') :
    ∃ s e, bucketAt p r = some (s, e) ∧ p ≠ [] ∧ r' = setBucketAt p (n, e) r := by
  unfold apiSetSequence at h
  split at h
  · cases h
  · rename_i s e hb
    refine ⟨s, e, hb, ?_⟩
    split at h; · cases h
    rename_i h1
    cases h
    exact ⟨by cases p <;> simp at h1 ⊢, rfl⟩

theorem apiSetSequence_eq_ok {r : SVal} {p : List Bytes} {n : Nat} {s : Nat} {e : Ents}
    (hb : bucketAt p r = some (s, e)) (hp : p ≠ []) :
    apiSetSequence r p n = .ok (setBucketAt p (n, e) r) := by
  unfold apiSetSequence
  rw [hb]
  have h1 : p.isEmpty = false := by cases p <;> simp at hp ⊢
  simp only [h1, Bool.false_eq_true, if_false]

theorem apiSequence_eq {r : SVal} {p : List Bytes} {s : Nat} {e : Ents}
    (hb : bucketAt p r = some (s, e)) (hp : p ≠ []) : apiSequence r p = .ok s := by
  unfold apiSequence
  rw [hb]
  have h1 : p.isEmpty = false := by cases p <;> simp at hp ⊢
  simp only [h1, Bool.false_eq_true, if_false]

theorem apiNextSequence_ok {r : SVal} {p : List Bytes} {n : Nat} {r' : SVal}
    (h : apiNextSequence r p = .ok (r', n)) :
    ∃ s e, bucketAt p r = some (s, e) ∧ p ≠ [] ∧ n = (s + 1) % 2^64 ∧ r' = setBucketAt p (n, e) r := by
  unfold apiNextSequence at h
  split at h
  · cases h
  · rename_i s e hb
    refine ⟨s, e, hb, ?_⟩
    split at h; · cases h
    rename_i h1
    cases h
    exact ⟨by cases p <;> simp at h1 ⊢, rfl, rfl⟩

theorem apiMoveBucket_ok {r : SVal} {src : List Bytes} {k : Bytes} {dst : List Bytes} {r' : SVal}
    (h : apiMoveBucket r src k dst = .ok r') :
    ∃ s e ds0 de ms me ds de1, bucketAt src r = some (s, e) ∧ bucketAt dst r = some (ds0, de) ∧
      entsLookup e k = some (.bkt ms me) ∧ src ≠ dst ∧ entsLookup de k = none ∧
      isPrefixOf (src ++ [k]) dst = false ∧
      bucketAt dst (setBucketAt src (s, entsErase k e) r) = some (ds, de1) ∧
      r' = setBucketAt dst (ds, entsInsert k (.bkt ms me) de1) (setBucketAt src (s, entsErase k e) r) := by
  unfold apiMoveBucket at h
  split at h
  · cases h
  · cases h
  · rename_i s e ds0 de hb1 hb2
    refine ⟨s, e, ds0, de, ?_⟩
    split at h
    · cases h
    · cases h
    · rename_i ms me hl
      refine ⟨ms, me, ?_⟩
      split at h; · cases h
      rename_i hne
      split at h
      · cases h
      · cases h
      · rename_i hl2
        split at h; · cases h
        rename_i hpre
        simp only at h
        split at h
        · cases h
        · rename_i ds de1 hb3
          cases h
          exact ⟨ds, de1, hb1, hb2, hl, by simpa using hne, hl2, by simpa using hpre, hb3, rfl⟩

/-- after a successful move the source entry is gone, wherever the destination lies -/
theorem moveBucket_src_gone {r : SVal} {src dst : List Bytes} {k : Bytes} {s ds0 ds : Nat}
    {e de de1 : Ents} {b : SVal}
    (hb1 : bucketAt src r = some (s, e)) (hb2 : bucketAt dst r = some (ds0, de))
    (hne : src ≠ dst) (hl2 : entsLookup de k = none) (hpre : isPrefixOf (src ++ [k]) dst = false)
    (hb3 : bucketAt dst (setBucketAt src (s, entsErase k e) r) = some (ds, de1)) :
    bucketAt (src ++ [k]) (setBucketAt dst (ds, entsInsert k b de1) (setBucketAt src (s, entsErase k e) r)) = none := by
  have hsrc1 : bucketAt src (setBucketAt src (s, entsErase k e) r) = some (s, entsErase k e) :=
    bucketAt_setBucketAt_same _ hb1
  have hgone1 : bucketAt (src ++ [k]) (setBucketAt src (s, entsErase k e) r) = none := by
    rw [bucketAt_snoc k hsrc1, entsLookup_erase_same]; rfl
  rcases path_cases src dst with ⟨t, ht⟩ | ⟨k2, t, ht⟩ | ⟨c, a, p', b', q', hab, h1, h2⟩
  · -- dst at or below src
    cases t with
    | nil => exact absurd (by simpa using ht.symm) hne
    | cons k2 t =>
      have hk2 : k2 ≠ k := by
        intro hk; subst hk
        have : isPrefixOf (src ++ [k2]) dst = true :=
          (isPrefixOf_iff _ _).mpr ⟨t, by rw [ht]; simp⟩
        rw [this] at hpre; cases hpre
      subst ht
      rw [bucketAt_snoc k (bucketAt_setBucketAt_above _ k2 t src _ s _ hsrc1),
        entsLookup_update, if_neg (Ne.symm hk2), entsLookup_erase_same]
      rfl
  · -- dst strictly above src
    have hk2 : k2 ≠ k := by
      intro hk; subst hk
      rw [ht, bucketAt_append, hb2] at hb1
      simp [bucketAt_cons, hl2] at hb1
    subst ht
    rw [List.append_assoc, bucketAt_setBucketAt_below _ _ dst _ _ hb3]
    rw [List.append_assoc, bucketAt_append, hb3] at hgone1
    simp only [Option.bind_some] at hgone1
    rw [List.cons_append, bucketAt_cons] at hgone1 ⊢
    rw [entsLookup_insert_other _ _ hk2]
    exact hgone1
  · -- diverging paths
    subst h1 h2
    rw [List.append_assoc, List.cons_append, bucketAt_setBucketAt_diverge _ (Ne.symm hab)]
    rw [List.append_assoc, List.cons_append] at hgone1
    exact hgone1

/-! ### compaction walk -/
open Compact

/-- induction over an entry list, with the nested buckets' entry lists as sub-structures -/
theorem ents_induction {P : Ents → Prop} (nil : P [])
    (consVal : ∀ k v rest, P rest → P ((k, .val v) :: rest))
    (consBkt : ∀ k s e rest, P e → P rest → P ((k, .bkt s e) :: rest)) : ∀ e, P e
  | [] => nil
  | (k, .val v) :: rest => consVal k v rest (ents_induction nil consVal consBkt rest)
  | (k, .bkt s e) :: rest =>
    consBkt k s e rest (ents_induction nil consVal consBkt e) (ents_induction nil consVal consBkt rest)

theorem visit_put_ok {limit : Nat} {a : Acc} {path : List Bytes} {k x : Bytes} {d1 : SVal}
    (ha : a.err = none) (h : apiPut a.dst path k x = .ok d1) :
    (visit limit a path k (some x) 0).err = none ∧ (visit limit a path k (some x) 0).dst = d1 := by
  unfold visit
  simp [ha, h]

theorem visit_bucket_ok {limit : Nat} {a : Acc} {path : List Bytes} {k : Bytes} {seq : Nat} {d1 d2 : SVal}
    (ha : a.err = none) (h1 : apiCreateBucket a.dst path k false = .ok d1)
    (h2 : apiSetSequence d1 (path ++ [k]) seq = .ok d2) :
    (visit limit a path k none seq).err = none ∧ (visit limit a path k none seq).dst = d2 := by
  unfold visit
  simp [ha, h1, h2]

theorem visit_commits_unlimited (a : Acc) (path : List Bytes) (k : Bytes) (v : Option Bytes) (seq : Nat) :
    (visit 0 a path k v seq).commits = a.commits := by
  unfold visit
  split
  · rfl
  · simp only [ne_eq, not_true_eq_false, and_false, if_false]
    split
    · split
      · rfl
      · split <;> rfl
    · split <;> rfl
open Compact

theorem entsUpdate_append_last {k : Bytes} (g : SVal → SVal) (b : SVal) {pre : Ents}
    (h : ∀ q ∈ pre, Bytes.lt q.1 k = true) : entsUpdate k g (pre ++ [(k, b)]) = pre ++ [(k, g b)] := by
  unfold entsUpdate
  rw [List.map_append]
  congr 1
  · conv => rhs; rw [← List.map_id pre]
    apply List.map_congr_left
    intro q hq
    have : q.1 ≠ k := Bytes.lt_ne (h q hq)
    simp [this]
  · simp

theorem entsKeysOK_cons (k : Bytes) (v : SVal) (r : Ents) :
    EntsKeysOK ((k, v) :: r) ↔ k ≠ [] ∧ (v.isBucket = false → k.length ≤ maxKeySize) ∧ KeysOK v ∧ EntsKeysOK r := by
  rw [EntsKeysOK]

/-- **the walk rebuilds a bucket**: if the destination bucket at `path` holds exactly the
    already-copied prefix `pre` (whose keys are all smaller than the remaining source keys),
    then walking the remaining source entries `ents` raises no error and leaves the
    destination equal to the old one with the bucket at `path` replaced by `pre ++ ents`. -/
theorem walkEnts_spec (limit : Nat) : ∀ (ents : Ents) (path : List Bytes) (a : Acc) (s : Nat) (pre : Ents),
    a.err = none → SWF a.dst → bucketAt path a.dst = some (s, pre) → EntsSortedP (pre ++ ents) →
    (∀ q ∈ ents, SWF q.2) → EntsKeysOK ents → (path = [] → ∀ q ∈ ents, q.2.isBucket = true) →
    (walkEnts limit path ents a).err = none ∧
      (walkEnts limit path ents a).dst = setBucketAt path (s, pre ++ ents) a.dst := by
  intro ents
  induction ents using ents_induction with
  | nil =>
    intro path a s pre ha hwf hb _ _ _ _
    rw [walkEnts.eq_1, List.append_nil, setBucketAt_self hwf hb]
    exact ⟨ha, rfl⟩
  | consVal k v rest ih =>
    intro path a s pre ha hwf hb hs hw hk hroot
    have hpath : path ≠ [] := by
      intro hp
      have := hroot hp _ (List.mem_cons_self ..)
      simp [SVal.isBucket] at this
    rw [entsKeysOK_cons] at hk
    obtain ⟨hk1, hk2, hk3, hk4⟩ := hk
    have hk2' : k.length ≤ maxKeySize := hk2 rfl
    have hk3' : v.length ≤ maxValueSize := by rw [KeysOK] at hk3; exact hk3
    have hs' : EntsSortedP ((pre ++ [(k, SVal.val v)]) ++ rest) := by
      rw [List.append_assoc]; exact hs
    have hs1 := List.pairwise_append.mp hs
    have hlt : ∀ q ∈ pre, Bytes.lt q.1 k = true := fun q hq => hs1.2.2 q hq _ (List.mem_cons_self ..)
    have hlk : entsLookup pre k = none := entsLookup_none_of_lt hlt
    have hput := apiPut_eq_ok (v := v) hb hpath hk1 hk2' hk3' (by rw [hlk]; intro _ _ h; cases h)
    rw [entsInsert_append k _ hlt] at hput
    obtain ⟨he, hd⟩ := visit_put_ok (limit := limit) ha hput
    have ⟨hp1, hp2⟩ := bucketAt_wf hwf hb
    have hwf1 : SWF (visit limit a path k (some v) 0).dst := by
      rw [hd]
      refine setBucketAt_wf (s, pre ++ [(k, SVal.val v)]) (List.pairwise_append.mp hs').1 ?_ _ _ hwf
      intro q hq
      rcases List.mem_append.mp hq with hq | hq
      · exact hp2 q hq
      · rw [List.mem_singleton.mp hq, SWF]; trivial
    have hb1 : bucketAt path (visit limit a path k (some v) 0).dst = some (s, pre ++ [(k, SVal.val v)]) := by
      rw [hd]; exact bucketAt_setBucketAt_same _ hb
    have := ih path _ s _ he hwf1 hb1 hs' (fun q hq => hw q (List.mem_cons_of_mem _ hq)) hk4
      (fun hp q hq => hroot hp q (List.mem_cons_of_mem _ hq))
    rw [walkEnts.eq_2]
    refine ⟨this.1, ?_⟩
    rw [this.2, hd, setBucketAt_setBucketAt, List.append_assoc]
    rfl
  | consBkt k s' e' rest ihe ihrest =>
    intro path a s pre ha hwf hb hs hw hk hroot
    rw [entsKeysOK_cons] at hk
    obtain ⟨hk1, _, hk3, hk4⟩ := hk
    have hk3' : EntsKeysOK e' := by rw [KeysOK] at hk3; exact hk3
    have hs' : EntsSortedP ((pre ++ [(k, SVal.bkt s' e')]) ++ rest) := by
      rw [List.append_assoc]; exact hs
    have hs1 := List.pairwise_append.mp hs
    have hlt : ∀ q ∈ pre, Bytes.lt q.1 k = true := fun q hq => hs1.2.2 q hq _ (List.mem_cons_self ..)
    have hlk : entsLookup pre k = none := entsLookup_none_of_lt hlt
    have ⟨hp1, hp2⟩ := bucketAt_wf hwf hb
    have hx : SWF (.bkt s' e') := hw _ (List.mem_cons_self ..)
    have ⟨he1, he2⟩ := (swf_bkt _ _).mp hx
    -- CreateBucket
    have hcreate := apiCreateBucket_eq_ok (b := false) hb hk1 hlk
    generalize hd1 : setBucketAt path (s, entsInsert k (SVal.bkt 0 []) pre) a.dst = d1 at hcreate
    have h0 : SWF (.bkt 0 []) := (swf_bkt _ _).mpr ⟨List.Pairwise.nil, by simp⟩
    have hwfd1 : SWF d1 := by
      rw [← hd1]
      exact setBucketAt_wf _ (entsInsert_sorted _ _ hp1) (entsInsert_wf h0 hp2) _ _ hwf
    have hbd1 : bucketAt path d1 = some (s, entsInsert k (SVal.bkt 0 []) pre) := by
      rw [← hd1]; exact bucketAt_setBucketAt_same _ hb
    have hbkd1 : bucketAt (path ++ [k]) d1 = some (0, []) := by
      rw [bucketAt_snoc k hbd1, entsLookup_insert_same]; simp
    -- SetSequence
    have hpk : path ++ [k] ≠ [] := by simp
    have hseq := apiSetSequence_eq_ok (n := s') hbkd1 hpk
    obtain ⟨he, hd⟩ := visit_bucket_ok (limit := limit) ha hcreate hseq
    have hwf2 : SWF (visit limit a path k none s').dst := by
      rw [hd]; exact setBucketAt_wf (s', []) List.Pairwise.nil (by simp) _ _ hwfd1
    have hb2 : bucketAt (path ++ [k]) (visit limit a path k none s').dst = some (s', []) := by
      rw [hd]; exact bucketAt_setBucketAt_same _ hbkd1
    -- the nested bucket's entries
    have h3 := ihe (path ++ [k]) _ s' [] he hwf2 hb2 (by simpa using he1) he2 hk3'
      (fun hp => absurd hp hpk)
    rw [List.nil_append, hd, setBucketAt_setBucketAt, setBucketAt_snoc k _ hwfd1 hbd1,
      entsInsert_append k _ hlt, entsUpdate_append_last _ _ hlt, setBucketAt_nil, ← hd1,
      setBucketAt_setBucketAt] at h3
    -- the remaining entries
    have hwf3 : SWF (walkEnts limit (path ++ [k]) e' (visit limit a path k none s')).dst := by
      rw [h3.2]
      refine setBucketAt_wf (s, pre ++ [(k, SVal.bkt s' e')]) (List.pairwise_append.mp hs').1 ?_ _ _ hwf
      intro q hq
      rcases List.mem_append.mp hq with hq | hq
      · exact hp2 q hq
      · rw [List.mem_singleton.mp hq]; exact hx
    have hb3 : bucketAt path (walkEnts limit (path ++ [k]) e' (visit limit a path k none s')).dst
        = some (s, pre ++ [(k, SVal.bkt s' e')]) := by
      rw [h3.2]; exact bucketAt_setBucketAt_same _ hb
    have := ihrest path _ s _ h3.1 hwf3 hb3 hs' (fun q hq => hw q (List.mem_cons_of_mem _ hq)) hk4
      (fun hp q hq => hroot hp q (List.mem_cons_of_mem _ hq))
    rw [walkEnts.eq_3, walkBucket]
    refine ⟨this.1, ?_⟩
    rw [this.2, h3.2, setBucketAt_setBucketAt, List.append_assoc]
    rfl

theorem walkEnts_commits_unlimited : ∀ (ents : Ents) (path : List Bytes) (a : Acc),
    (walkEnts 0 path ents a).commits = a.commits := by
  intro ents
  induction ents using ents_induction with
  | nil => intro path a; rw [walkEnts.eq_1]
  | consVal k v rest ih =>
    intro path a; rw [walkEnts.eq_2, ih, visit_commits_unlimited]
  | consBkt k s e rest ihe ihrest =>
    intro path a; rw [walkEnts.eq_3, walkBucket, ihrest, ihe, visit_commits_unlimited]

end Bolt
