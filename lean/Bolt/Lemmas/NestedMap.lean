/-
Well-formedness of the nested-map reference model and helper lemmas (C04, C15).
-/
import Bolt.Spec.NestedMap
namespace Bolt

mutual
/-- every bucket's keys are strictly ascending in byte order (hence distinct), recursively -/
def SWF : SVal → Prop
  | .val _ => True
  | .bkt _ ents => EntsSorted ents ∧ EntsWF ents
def EntsWF : Ents → Prop
  | [] => True
  | (_, v) :: r => SWF v ∧ EntsWF r
/-- strictly ascending keys -/
def EntsSorted : Ents → Prop
  | [] => True
  | [_] => True
  | (k, _) :: (k', v') :: r => Bytes.lt k k' = true ∧ EntsSorted ((k', v') :: r)
end

/-- the root bucket holds only buckets (the API offers no way to put a value there) -/
def RootOnlyBuckets : SVal → Prop
  | .bkt _ ents => ∀ p ∈ ents, p.2.isBucket = true
  | .val _ => False

mutual
/-- keys are non-empty and values/keys respect the API limits, recursively (what `Put` and
    `CreateBucket` accept) -/
def KeysOK : SVal → Prop
  | .val v => v.length ≤ maxValueSize
  | .bkt _ ents => EntsKeysOK ents
def EntsKeysOK : Ents → Prop
  | [] => True
  | (k, v) :: r => k ≠ [] ∧ (v.isBucket = false → k.length ≤ maxKeySize) ∧ KeysOK v ∧ EntsKeysOK r
end

end Bolt
