/-
Helper lemmas for `Bolt.Props.C04BktMove` (`Bkt.moveAt`, the move of a fully opened nested bucket):
monotonicity of the invariants in the fuel, fuel/path/`orig`-independence of a fully opened
bucket, what `modifyBk` leaves of the other paths, the local effect of the insertion of the moved
bucket into the destination, and the reference model's `apiMoveBucket` on abstractions.
-/
import Bolt.Lemmas.BktTx
namespace Bolt.Bkt.BktMoveL
open Bolt Bolt.BTree Bolt.Bkt Bolt.Bkt.BktOpsL

/-! ### the fuel -/

theorem origOk_mono (ids : Bool) : ∀ (f : Nat) (b : Bk), origOkG ids f b = true → ∀ f', f ≤ f' →
    origOkG ids f' b = true
  | 0, b, h, _, _ => by rw [origOkG_zero] at h; cases h
  | f+1, b, h, 0, hle => by omega
  | f+1, b, h, f'+1, hle => by
    obtain ⟨h1, h2, h3, h4, h5⟩ := (origOkG_succ ..).mp h
    apply (origOkG_succ ..).mpr
    exact ⟨h1, h2, by omega, h4, fun q hq => origOk_mono ids f q.2 (h5 q hq) f' (by omega)⟩

theorem curOk_mono (orig : Bk) : ∀ (f : Nat) (path : List Bytes) (b : Bk), curOk orig f path b = true →
    ∀ f', f ≤ f' → curOk orig f' path b = true
  | 0, path, b, h, _, _ => by rw [curOk_zero] at h; cases h
  | f+1, path, b, h, 0, hle => by omega
  | f+1, path, b, h, f'+1, hle => by
    obtain ⟨c1, c2, c3, c4, c5, c6, c7⟩ := (curOk_succ ..).mp h
    apply (curOk_succ ..).mpr
    exact ⟨c1, c2, c3, by omega, c5,
      fun q hq => ⟨(c6 q hq).1, curOk_mono orig f _ q.2 (c6 q hq).2 f' (by omega)⟩, c7⟩

/-- the abstraction of a well-formed bucket does not depend on the fuel once it suffices -/
theorem absBk_fuel (orig : Bk) : ∀ (f : Nat) (path : List Bytes) (b : Bk), curOk orig f path b = true →
    origOkG true (f + path.length) orig = true → ∀ f', f ≤ f' →
    absBk orig f' path b = absBk orig f path b
  | 0, path, b, h, _, _, _ => by rw [curOk_zero] at h; cases h
  | f+1, path, b, h, ho, 0, hle => by omega
  | f+1, path, b, h, ho, f'+1, hle => by
    obtain ⟨c1, c2, c3, c4, c5, c6, c7⟩ := (curOk_succ ..).mp h
    rw [absBk_eq, absBk_eq, entsA_succ, entsA_succ]
    congr 1
    apply List.map_congr_left
    intro i hi
    apply absIt_congr
    intro hf
    unfold subV
    cases hl : lookupBk i.key b.opened with
    | some c =>
      simp only
      have hq := c6 _ (lookupBk_mem hl)
      refine absBk_fuel orig f (path ++ [i.key]) c hq.2 ?_ f' (by omega)
      rw [List.length_append, List.length_singleton]
      have e : f + (path.length + 1) = f + 1 + path.length := by omega
      rw [e]; exact ho
    | none =>
      simp only
      cases hb : bkAt (path ++ [i.key]) orig with
      | none => rfl
      | some c =>
        simp only
        obtain ⟨g', hg', hoc⟩ := origOk_at true _ _ orig c ho hb
        have e : g' = f := by
          rw [List.length_append, List.length_singleton] at hg'; omega
        subst e
        rw [BktCommitL.absBk_indep true g' c hoc f' (by omega) c []]

/-! ### a bucket opened together with everything nested in it -/

theorem fullyOpened_zero (b : Bk) : fullyOpened 0 b = false := by rw [fullyOpened]

theorem fullyOpened_succ (g : Nat) (b : Bk) : fullyOpened (g+1) b = true ↔
    ∀ n ∈ bucketNames b.tree, ∃ c, lookupBk n b.opened = some c ∧ fullyOpened g c = true := by
  cases b with
  | mk r s t o =>
    rw [fullyOpened]
    simp only [List.all_eq_true, Bk.tree, Bk.opened]
    constructor
    · intro h n hn
      have := h n hn
      cases hl : lookupBk n o with
      | none => simp only [hl] at this; cases this
      | some c => simp only [hl] at this; exact ⟨c, rfl, this⟩
    · intro h n hn
      obtain ⟨c, hc, hf⟩ := h n hn
      simp only [hc]; exact hf

/-- well-formedness of a fully opened bucket depends neither on `orig` nor on the path, and
    holds with any larger fuel -/
theorem curOk_full (orig orig' : Bk) : ∀ (f g : Nat) (p p' : List Bytes) (c : Bk),
    fullyOpened g c = true → curOk orig f p c = true → ∀ f', f ≤ f' → curOk orig' f' p' c = true
  | 0, _, p, _, c, _, h, _, _ => by rw [curOk_zero] at h; cases h
  | f+1, 0, _, _, c, h, _, _, _ => by rw [fullyOpened_zero] at h; cases h
  | f+1, g+1, p, p', c, hfo, hc, 0, hle => by omega
  | f+1, g+1, p, p', c, hfo, hc, f'+1, hle => by
    obtain ⟨c1, c2, c3, c4, c5, c6, c7⟩ := (curOk_succ ..).mp hc
    have hall := (fullyOpened_succ g c).mp hfo
    apply (curOk_succ ..).mpr
    refine ⟨c1, c2, c3, by omega, c5, ?_, ?_⟩
    · intro q hq
      obtain ⟨hq1, hq2⟩ := c6 q hq
      obtain ⟨c', hc', hfo'⟩ := hall q.1 hq1
      have hqe : q = (q.1, c') := lookupBk_unique c5 hc' q hq rfl
      have e : c' = q.2 := by rw [hqe]
      rw [e] at hfo'
      exact ⟨hq1, curOk_full orig orig' f g _ _ q.2 hfo' hq2 f' (by omega)⟩
    · intro n hn
      obtain ⟨c', hc', _⟩ := hall n hn
      left; rw [hc']; rfl

/-- … and so does its content -/
theorem absBk_full (orig orig' : Bk) : ∀ (f g : Nat) (p p' : List Bytes) (c : Bk),
    fullyOpened g c = true → curOk orig f p c = true → ∀ f', f ≤ f' →
    absBk orig' f' p' c = absBk orig f p c
  | 0, _, p, _, c, _, h, _, _ => by rw [curOk_zero] at h; cases h
  | f+1, 0, _, _, c, h, _, _, _ => by rw [fullyOpened_zero] at h; cases h
  | f+1, g+1, p, p', c, hfo, hc, 0, hle => by omega
  | f+1, g+1, p, p', c, hfo, hc, f'+1, hle => by
    obtain ⟨c1, c2, c3, c4, c5, c6, c7⟩ := (curOk_succ ..).mp hc
    have hall := (fullyOpened_succ g c).mp hfo
    rw [absBk_eq, absBk_eq, entsA_succ, entsA_succ]
    congr 1
    apply List.map_congr_left
    intro i hi
    apply absIt_congr
    intro hf
    have hn : i.key ∈ bucketNames c.tree := mem_names.mpr ⟨i, hi, hf, rfl⟩
    obtain ⟨c', hc', hfo'⟩ := hall i.key hn
    unfold subV
    simp only [hc']
    exact absBk_full orig orig' f g _ _ c' hfo' (c6 _ (lookupBk_mem hc')).2 f' (by omega)

/-! ### the other paths after `modifyBk` -/

theorem modifyBk_cons_some {g : Bk → Option Bk} {n : Bytes} {rest : List Bytes} {b b1 : Bk}
    (h : modifyBk g (n :: rest) b = some b1) :
    ∃ ch ch', lookupBk n b.opened = some ch ∧ modifyBk g rest ch = some ch' ∧
      b1 = b.setOpened (b.opened.map (fun p => if p.1 == n then (p.1, ch') else p)) := by
  cases hl : lookupBk n b.opened with
  | none => rw [modifyBk] at h; simp only [hl] at h; cases h
  | some ch =>
    rw [modifyBk_cons g n rest b ch hl] at h
    obtain ⟨ch', hm', e⟩ := Option.map_eq_some_iff.mp h
    exact ⟨ch, ch', rfl, hm', e.symm⟩

/-- a modification at `src` that keeps every cache entry but `k`: a bucket at a path that is not
    `src` and does not go through `src ++ [k]` is still there, with the same tree and sequence -/
theorem bkAt_modify_other (g : Bk → Option Bk) (k : Bytes)
    (hg : ∀ b b', g b = some b' → ∀ m, m ≠ k → lookupBk m b'.opened = lookupBk m b.opened) :
    ∀ (src dst : List Bytes) (cur cur1 db : Bk), modifyBk g src cur = some cur1 → bkAt dst cur = some db →
      dst ≠ src → isPrefixOf (src ++ [k]) dst = false →
      ∃ db1, bkAt dst cur1 = some db1 ∧ db1.tree = db.tree ∧ db1.seq = db.seq
  | [], [], _, _, _, _, _, hne, _ => absurd rfl hne
  | [], m :: rest, cur, cur1, db, hm, hb, _, hp => by
    rw [modifyBk_nil] at hm
    have hmk : m ≠ k := by
      intro e; subst e
      simp [isPrefixOf] at hp
    refine ⟨db, ?_, rfl, rfl⟩
    rw [bkAt_cons, hg cur cur1 hm m hmk, ← bkAt_cons]; exact hb
  | n :: srest, [], cur, cur1, db, hm, hb, _, _ => by
    rw [bkAt_nil] at hb; cases hb
    obtain ⟨ch, ch', _, _, rfl⟩ := modifyBk_cons_some hm
    exact ⟨_, rfl, setOpened_tree .., setOpened_seq ..⟩
  | n :: srest, m :: drest, cur, cur1, db, hm, hb, hne, hp => by
    obtain ⟨ch, ch', hl, hm', rfl⟩ := modifyBk_cons_some hm
    by_cases hmn : m = n
    · subst hmn
      obtain ⟨dh, hd1, hd2⟩ := bkAt_cons_some hb
      rw [hl] at hd1; cases hd1
      have hp' : isPrefixOf (srest ++ [k]) drest = false := by
        simpa [isPrefixOf] using hp
      obtain ⟨db1, h1, h2, h3⟩ := bkAt_modify_other g k hg srest drest ch ch' db hm' hd2
        (fun e => hne (by rw [e])) hp'
      refine ⟨db1, ?_, h2, h3⟩
      rw [bkAt_cons, setOpened_opened, lookupBk_replace, if_pos rfl, hl]; exact h1
    · refine ⟨db, ?_, rfl, rfl⟩
      rw [bkAt_cons, setOpened_opened, lookupBk_replace, if_neg hmn, ← bkAt_cons]; exact hb

/-! ### the two steps of `moveAt` -/

/-- the element `k` and its cache entry leave the source bucket -/
def delG (fu : Nat) (k : Bytes) (b : Bk) : Option Bk :=
  (modifyAt (leafDel k) (searchPath k fu b.tree) b.tree).map (fun t =>
    (b.setTree t).setOpened (b.opened.filter (fun p => !(p.1 == k))))

/-- the element `k` (a bucket element with value `v`) and the cache entry `c` enter the destination -/
def insG (fu : Nat) (k v : Bytes) (c : Bk) (b : Bk) : Option Bk :=
  (modifyAt (leafPutF k v 1) (searchPath k fu b.tree) b.tree).map (fun t =>
    (b.setTree t).setOpened (b.opened.filter (fun p => !(p.1 == k)) ++ [(k, c)]))

theorem moveAt_eq (fu : Nat) (src : List Bytes) (k : Bytes) (dst : List Bytes) (cur : Bk) :
    moveAt fu src k dst cur =
      match bkAt src cur, bkAt dst cur with
      | some sb, some db =>
        match seekItem k fu sb.tree with
        | some it =>
          if it.key = k ∧ it.flags % 2 = 1 then
            if src = dst then none else
            if (match seekItem k fu db.tree with | some dit => dit.key == k | none => false) then none else
            if isPrefixOf (src ++ [k]) dst then none else
            match lookupBk k sb.opened with
            | none => none
            | some c =>
              if !fullyOpened fu c then none else
              (modifyBk (delG fu k) src cur).bind (fun cur1 => modifyBk (insG fu k it.val c) dst cur1)
          else none
        | none => none
      | _, _ => none := rfl

theorem delG_lookup (fu : Nat) (k : Bytes) (b b' : Bk) (h : delG fu k b = some b') (m : Bytes) (hm : m ≠ k) :
    lookupBk m b'.opened = lookupBk m b.opened := by
  unfold delG at h
  obtain ⟨t, _, rfl⟩ := Option.map_eq_some_iff.mp h
  rw [setOpened_opened, lookupBk_deleted k m _ hm]

/-- the destination bucket after the moved bucket `c` went in -/
theorem insert_local (orig : Bk) (fu f : Nat) (path : List Bytes) (b : Bk) (k v : Bytes) (c : Bk)
    (hc : curOk orig (f+1) path b = true) (hdf : depth b.tree ≤ fu) (hk : k ≠ [])
    (hfind : (flatten b.tree).find? (fun i => i.key == k) = none)
    (hcc : curOk orig f (path ++ [k]) c = true) :
    ∃ b', insG fu k v c b = some b' ∧ curOk orig (f+1) path b' = true ∧ b'.seq = b.seq ∧
      entsA orig (f+1) path b' =
        entsInsert k (absBk orig f (path ++ [k]) c) (entsA orig (f+1) path b) := by
  obtain ⟨c1, c2, c3, c4, c5, c6, c7⟩ := (curOk_succ ..).mp hc
  obtain ⟨t', e, hin, _, hd, hfl⟩ := OpsL.modify_ok k (leafPutF k v 1)
    (insSorted { key := k, val := v, flags := 1 }) (leafOK_putF k v 1 hk)
    (OpsL.loc_insSorted { key := k, val := v, flags := 1 }) fu b.tree true true none none
    hdf c1 (OpsL.inR_none k)
  have hnames : ∀ n, n ∈ bucketNames t' ↔ n = k ∨ n ∈ bucketNames b.tree := by
    intro n
    rw [bucketNames_eq, bucketNames_eq, hfl]
    exact names_insBucket { key := k, val := v, flags := 1 } rfl _ hfind n
  refine ⟨_, by unfold insG; rw [e]; rfl, ?_, ?_, ?_⟩
  · apply (curOk_succ ..).mpr
    rw [setOpened_tree, setOpened_opened, setTree_tree]
    refine ⟨hin, ?_, ?_, by rw [hd]; exact c4, ?_, ?_, ?_⟩
    · rw [tightN_eq] at c2 ⊢
      exact RebL.modifyAt_tight (leafPutF_leaf k v 1) _ _ _ e _ c2
    · rw [OpsL.modifyAt_pgids _ (leafPutF_pgids k v 1) _ _ _ e]; exact c3
    · rw [List.map_append, List.nodup_append]
      refine ⟨nodup_filter_names k c5, by simp, ?_⟩
      intro a ha b' hb'
      obtain ⟨q, hq, rfl⟩ := List.mem_map.mp ha
      have := (List.mem_filter.mp hq).2
      simp only [List.map_cons, List.map_nil, List.mem_singleton] at hb'
      subst hb'
      simpa using this
    · intro q hq
      rcases List.mem_append.mp hq with hq | hq
      · obtain ⟨hq1, _⟩ := List.mem_filter.mp hq
        exact ⟨(hnames _).mpr (Or.inr (c6 q hq1).1), (c6 q hq1).2⟩
      · simp only [List.mem_singleton] at hq
        subst hq
        exact ⟨(hnames _).mpr (Or.inl rfl), hcc⟩
    · intro n hn'
      by_cases hnn : n = k
      · left; subst hnn
        rw [lookupBk_snoc, if_pos rfl]
        cases lookupBk n (b.opened.filter _) <;> rfl
      · rw [lookupBk_created k n _ _ hnn]
        rcases (hnames n).mp hn' with h' | h'
        · exact absurd h' hnn
        · exact c7 n h'
  · rw [setOpened_seq, setTree_seq]
  · rw [entsA_succ, entsA_succ, setOpened_tree, setOpened_opened, setTree_tree, hfl,
      BridgeL.insSorted_map _ (absIt_fst _)]
    have h1 : (absIt (subV orig f path (b.opened.filter (fun p => !(p.1 == k)) ++ [(k, c)]))
        { key := k, val := v, flags := 1 }).2 = absBk orig f (path ++ [k]) c := by
      rw [absIt_bucket _ _ rfl]
      show subV _ _ _ _ k = _
      unfold subV
      have : lookupBk k (b.opened.filter (fun p => !(p.1 == k)) ++ [(k, c)]) = some c := by
        rw [lookupBk_snoc, lookupBk_filter, if_pos rfl, if_pos rfl]; rfl
      simp only [this]
    rw [h1]
    congr 1
    apply List.map_congr_left
    intro i hi
    apply absIt_congr
    intro _
    apply subV_congr
    apply lookupBk_created
    have := List.find?_eq_none.mp hfind i hi
    simpa using this

/-! ### the reference model -/

theorem apiMove_ok (root : SVal) (src dst : List Bytes) (k : Bytes) (s ds0 ms ds : Nat) (e de me de1 : Ents)
    (h1 : bucketAt src root = some (s, e)) (h2 : bucketAt dst root = some (ds0, de))
    (h3 : entsLookup e k = some (.bkt ms me)) (h4 : (src == dst) = false) (h5 : entsLookup de k = none)
    (h6 : isPrefixOf (src ++ [k]) dst = false)
    (h7 : bucketAt dst (setBucketAt src (s, entsErase k e) root) = some (ds, de1)) :
    apiMoveBucket root src k dst =
      .ok (setBucketAt dst (ds, entsInsert k (.bkt ms me) de1) (setBucketAt src (s, entsErase k e) root)) := by
  unfold apiMoveBucket
  rw [h1, h2]
  simp only [h3, h4, h5, h6, h7, Bool.false_eq_true, if_false]

theorem apiMove_err (root : SVal) (src dst : List Bytes) (k : Bytes) (s ds0 ms : Nat) (e de me : Ents)
    (h1 : bucketAt src root = some (s, e)) (h2 : bucketAt dst root = some (ds0, de))
    (h3 : entsLookup e k = some (.bkt ms me))
    (h : (src == dst) = true ∨ (entsLookup de k).isSome = true ∨ isPrefixOf (src ++ [k]) dst = true) :
    ∃ err, apiMoveBucket root src k dst = .error err := by
  unfold apiMoveBucket
  rw [h1, h2]
  simp only [h3]
  by_cases h4 : (src == dst) = true
  · rw [if_pos h4]; exact ⟨_, rfl⟩
  · rw [if_neg h4]
    cases h5 : entsLookup de k with
    | some v => cases v <;> exact ⟨_, rfl⟩
    | none =>
      simp only
      rcases h with h | h | h
      · exact absurd h h4
      · rw [h5] at h; cases h
      · rw [if_pos h]; exact ⟨_, rfl⟩

/-! ### the move -/

/-- what the seek of `moveAt` finds in a well-formed bucket -/
theorem seek_some {t : N} {fu : Nat} {k : Bytes} {it : Item} (hi : InTx t) (hd : depth t ≤ fu)
    (hseek : seekItem k fu t = some it) (hk : it.key = k) :
    (flatten t).find? (fun i => i.key == k) = some it := by
  rw [OpsL.seek_find k fu t true true none none hd hi (OpsL.inR_none k), hseek]
  simp [Option.filter, hk]

theorem seek_noKey {t : N} {fu : Nat} {k : Bytes} (hi : InTx t) (hd : depth t ≤ fu) :
    (match seekItem k fu t with | some dit => dit.key == k | none => false) =
      ((flatten t).find? (fun i => i.key == k)).isSome := by
  rw [OpsL.seek_find k fu t true true none none hd hi (OpsL.inR_none k)]
  cases seekItem k fu t with
  | none => rfl
  | some dit =>
    by_cases h : dit.key = k
    · simp [Option.filter, h]
    · simp [Option.filter, h]

/-- the move of a fully opened bucket, once the checks of `moveAt` have passed -/
theorem move_core (fu : Nat) (orig cur : Bk) (src dst : List Bytes) (k : Bytes) (sb db : Bk) (it : Item)
    (c : Bk) (hw : WF fu orig cur) (hs : bkAt src cur = some sb) (hd : bkAt dst cur = some db)
    (hseek : seekItem k fu sb.tree = some it) (hk : it.key = k) (hfl : it.flags % 2 = 1)
    (hne : src ≠ dst)
    (hdk : (match seekItem k fu db.tree with | some dit => dit.key == k | none => false) = false)
    (hpre : isPrefixOf (src ++ [k]) dst = false)
    (hc : lookupBk k sb.opened = some c) (hfo : fullyOpened fu c = true) :
    ∃ cur1 cur', modifyBk (delG fu k) src cur = some cur1 ∧
      modifyBk (insG fu k it.val c) dst cur1 = some cur' ∧
      ∃ fu', fu ≤ fu' ∧ WF fu' orig cur' ∧
        apiMoveBucket (absTop fu orig cur) (topName :: src) k (topName :: dst) = .ok (absTop fu' orig cur') := by
  obtain ⟨ho, hcur⟩ := hw
  obtain ⟨fs, hfs, hcs, hbas, hmods, _, _, _⟩ := frame fu orig cur src sb hcur hs
  obtain ⟨fd, hfd, hcd, hbad, _, _, _, _⟩ := frame fu orig cur dst db hcur hd
  obtain ⟨s1, s2, s3, s4, s5, s6, s7⟩ := (curOk_succ ..).mp hcs
  obtain ⟨d1, d2, d3, d4, d5, d6, d7⟩ := (curOk_succ ..).mp hcd
  have hfindS := seek_some s1 (by omega) hseek hk
  have hdelEq : deleteAt fu k sb = delG fu k sb := by
    unfold deleteAt delG
    rw [hseek]
    exact if_pos ⟨hk, hfl⟩
  rcases delete_local orig fu fs src sb k hcs (by omega) with ⟨_, h2⟩ | ⟨b', i, e, _, _, hcb', hseq, hents⟩
  · exact absurd hfl (h2 it hfindS)
  rw [hdelEq] at e
  obtain ⟨cur1, hm1, hc1, hb1, habs1⟩ := hmods _ b' e hcb'
  -- the destination is still there
  obtain ⟨db1, hd1, ht1, hq1⟩ := bkAt_modify_other (delG fu k) k (delG_lookup fu k) src dst cur cur1 db hm1 hd
    (Ne.symm hne) hpre
  -- more fuel for the new nesting depth
  have hc1' : curOk orig (fu + dst.length + 1) [] cur1 = true := curOk_mono orig fu [] cur1 hc1 _ (by omega)
  have ho' : origOk (fu + dst.length + 1) orig = true := origOk_mono true fu orig ho _ (by omega)
  have habsF : absBk orig (fu + dst.length + 1) [] cur1 = absBk orig fu [] cur1 :=
    absBk_fuel orig fu [] cur1 hc1 ho _ (by omega)
  obtain ⟨fd', hfd', hcd', hbad', hmodd, _, _, _⟩ := frame (fu + dst.length + 1) orig cur1 dst db1 hc1' hd1
  have efd : fd' = fu := by omega
  subst efd
  -- the moved bucket at its new place
  have hcsrc := (s6 _ (lookupBk_mem hc)).2
  have hcdst : curOk orig fd' (dst ++ [k]) c = true :=
    curOk_full orig orig fs fd' _ _ c hfo hcsrc fd' (by omega)
  have habsc : absBk orig fd' (dst ++ [k]) c = absBk orig fs (src ++ [k]) c :=
    absBk_full orig orig fs fd' _ _ c hfo hcsrc fd' (by omega)
  have hfindD : (flatten db.tree).find? (fun i => i.key == k) = none := by
    rw [seek_noKey d1 (by omega)] at hdk
    cases hf : (flatten db.tree).find? (fun i => i.key == k) with
    | none => rfl
    | some x => rw [hf] at hdk; cases hdk
  have hkne : k ≠ [] :=
    hk ▸ (OpsL.inTxN_range sb.tree true true none none s1 it (List.mem_of_find?_eq_some hfindS)).1
  obtain ⟨b'', e2, hcb'', hseq2, hents2⟩ := insert_local orig fd' fd' dst db1 k it.val c hcd'
    (by rw [ht1]; omega) hkne (by rw [ht1]; exact hfindD) hcdst
  obtain ⟨cur', hm2, hc2, _, habs2⟩ := hmodd _ b'' e2 hcb''
  refine ⟨cur1, cur', hm1, hm2, fd' + dst.length + 1, by omega, ⟨ho', hc2⟩, ?_⟩
  -- the reference model
  have hr1 : absTop (fd' + dst.length + 1) orig cur1 = absTop fd' orig cur1 := by unfold absTop; rw [habsF]
  rw [hr1, habs1, hseq, hents] at hbad'
  rw [habs2, hseq2, hents2, habsc, hr1, habs1, hseq, hents, absBk_eq]
  have hnS : k ∈ (flatten sb.tree).filterMap bktName := (s6 _ (lookupBk_mem hc)).1
  have hlk : entsLookup (entsA orig (fs + 1) src sb) k =
      some (.bkt c.seq (entsA orig fs (src ++ [k]) c)) := by
    rw [entsA_succ, lookup_abs_bucket _ (inTx_sorted s1) hnS]
    unfold subV
    simp only [hc]
    rw [absBk_eq]
  have hlkD : entsLookup (entsA orig (fd + 1) dst db) k = none := by
    rw [entsA_succ, lookup_abs, hfindD]; rfl
  exact apiMove_ok _ _ _ k _ _ _ _ _ _ _ _ hbas hbad hlk (by simpa using hne) hlkD
    (by simpa [isPrefixOf] using hpre) hbad'

/-- `moveAt` accepted: the reference model moves the same bucket -/
theorem move_accepted (fu : Nat) (orig cur cur' : Bk) (src dst : List Bytes) (k : Bytes)
    (hw : WF fu orig cur) (h : moveAt fu src k dst cur = some cur') :
    ∃ fu', fu ≤ fu' ∧ WF fu' orig cur' ∧
      apiMoveBucket (absTop fu orig cur) (topName :: src) k (topName :: dst) = .ok (absTop fu' orig cur') := by
  rw [moveAt_eq] at h
  cases hs : bkAt src cur with
  | none => rw [hs] at h; cases h
  | some sb =>
  cases hd : bkAt dst cur with
  | none => rw [hs, hd] at h; cases h
  | some db =>
  rw [hs, hd] at h
  simp only at h
  cases hseek : seekItem k fu sb.tree with
  | none => rw [hseek] at h; cases h
  | some it =>
  rw [hseek] at h
  simp only at h
  by_cases hkf : it.key = k ∧ it.flags % 2 = 1
  · rw [if_pos hkf] at h
    by_cases hne : src = dst
    · rw [if_pos hne] at h; cases h
    rw [if_neg hne] at h
    cases hdk : (match seekItem k fu db.tree with | some dit => dit.key == k | none => false) with
    | true => rw [hdk, if_pos rfl] at h; cases h
    | false =>
    rw [hdk, if_neg Bool.false_ne_true] at h
    cases hpre : isPrefixOf (src ++ [k]) dst with
    | true => rw [hpre, if_pos rfl] at h; cases h
    | false =>
    rw [hpre, if_neg Bool.false_ne_true] at h
    cases hc : lookupBk k sb.opened with
    | none => rw [hc] at h; cases h
    | some c =>
    rw [hc] at h
    simp only at h
    cases hfo : fullyOpened fu c with
    | false => rw [hfo] at h; cases h
    | true =>
    rw [hfo] at h
    obtain ⟨cur1, cur'', hm1, hm2, R⟩ := move_core fu orig cur src dst k sb db it c hw hs hd hseek hkf.1 hkf.2
      hne hdk hpre hc hfo
    rw [hm1] at h
    simp only [Bool.not_true, Bool.false_eq_true, if_false, Option.bind_some] at h
    rw [hm2] at h
    cases h
    exact R
  · rw [if_neg hkf] at h; cases h

/-- `moveAt` refuses to move an opened and fully opened bucket: the reference model refuses too -/
theorem move_refusal (fu : Nat) (orig cur : Bk) (src dst : List Bytes) (k : Bytes) (sb db c : Bk)
    (hw : WF fu orig cur) (hs : bkAt src cur = some sb) (hd : bkAt dst cur = some db)
    (hc : lookupBk k sb.opened = some c) (hfo : fullyOpened fu c = true)
    (h : moveAt fu src k dst cur = none) :
    ∃ e, apiMoveBucket (absTop fu orig cur) (topName :: src) k (topName :: dst) = .error e := by
  obtain ⟨fs, hfs, hcs, hbas, _, _, _, _⟩ := frame fu orig cur src sb hw.2 hs
  obtain ⟨fd, hfd, hcd, hbad, _, _, _, _⟩ := frame fu orig cur dst db hw.2 hd
  obtain ⟨s1, s2, s3, s4, s5, s6, s7⟩ := (curOk_succ ..).mp hcs
  obtain ⟨d1, d2, d3, d4, d5, d6, d7⟩ := (curOk_succ ..).mp hcd
  have hnS : k ∈ (flatten sb.tree).filterMap bktName := (s6 _ (lookupBk_mem hc)).1
  obtain ⟨i, hfi, hfl⟩ := (names_find (inTx_sorted s1)).mp hnS
  have hsk := OpsL.seek_find k fu sb.tree true true none none (by omega) s1 (OpsL.inR_none k)
  rw [hfi] at hsk
  obtain ⟨it, hseek, hk, hit⟩ : ∃ it, seekItem k fu sb.tree = some it ∧ it.key = k ∧ it = i := by
    cases hsi : seekItem k fu sb.tree with
    | none => rw [hsi] at hsk; simp at hsk
    | some y =>
      rw [hsi] at hsk
      simp only [Option.filter] at hsk
      split at hsk
      · rename_i hy
        cases hsk
        exact ⟨_, rfl, by simpa using hy, rfl⟩
      · cases hsk
  subst hit
  have hlk : entsLookup (entsA orig (fs + 1) src sb) k =
      some (.bkt c.seq (entsA orig fs (src ++ [k]) c)) := by
    rw [entsA_succ, lookup_abs_bucket _ (inTx_sorted s1) hnS]
    unfold subV
    simp only [hc]
    rw [absBk_eq]
  by_cases hne : src = dst
  · exact apiMove_err _ _ _ k _ _ _ _ _ _ hbas hbad hlk (Or.inl (by simp [hne]))
  cases hdk : (match seekItem k fu db.tree with | some dit => dit.key == k | none => false) with
  | true =>
    refine apiMove_err _ _ _ k _ _ _ _ _ _ hbas hbad hlk (Or.inr (Or.inl ?_))
    rw [seek_noKey d1 (by omega)] at hdk
    rw [entsA_succ, lookup_abs, Option.isSome_map]; exact hdk
  | false =>
  cases hpre : isPrefixOf (src ++ [k]) dst with
  | true =>
    exact apiMove_err _ _ _ k _ _ _ _ _ _ hbas hbad hlk (Or.inr (Or.inr (by simpa [isPrefixOf] using hpre)))
  | false =>
  exfalso
  obtain ⟨cur1, cur'', hm1, hm2, _⟩ := move_core fu orig cur src dst k sb db it c hw hs hd hseek hk hfl
    hne hdk hpre hc hfo
  rw [moveAt_eq, hs, hd] at h
  simp only at h
  rw [hseek] at h
  simp only at h
  rw [if_pos ⟨hk, hfl⟩, if_neg hne, hdk, if_neg Bool.false_ne_true, hpre, if_neg Bool.false_ne_true, hc] at h
  simp only at h
  rw [hfo, hm1] at h
  simp only [Bool.not_true, Bool.false_eq_true, if_false, Option.bind_some] at h
  rw [hm2] at h
  cases h

end Bolt.Bkt.BktMoveL
