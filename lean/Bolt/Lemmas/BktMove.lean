import Bolt.Lemmas.BktTx
namespace Bolt.Bkt.BktMoveL
open Bolt Bolt.BTree Bolt.Bkt

end Bolt.Bkt.BktMoveL
