import Bolt.Props.C12Tree
import Bolt.Props.C12Bk
namespace Bolt.ReaderFrameL
open Bolt Bolt.BTree Bolt.Bkt Bolt.C12Tree Bolt.C12Bk

/-- byte offset `i` lies in the span of a page of the list `L` -/
def InL (ps : Nat) (L : List (Nat × Nat × Nat)) (i : Nat) : Prop :=
  ∃ p ∈ L, p.1 * ps ≤ i ∧ i < (p.1 + p.2.1 + 1) * ps

/-- the image of a node has exactly `size` bytes -/
theorem imageOf_length (ps : Nat) : ∀ (n : N), (imageOf ps n).length = n.size
  | .leaf h items => by rw [imageOf]; exact C12Node.leaf_bytes_eq_size h items _ _
  | .branch h kids => by
    rw [imageOf]; exact C12Node.branch_bytes_eq_size h kids (fun c => c.hd.pgid) _ _

/-- the image of a node lies inside its page span -/
theorem imageOf_le_span (ps : Nat) (hps : 0 < ps) (n : N) :
    (imageOf ps n).length ≤ (ovfOf ps n + 1) * ps := by
  rw [imageOf_length]; exact size_le_span ps n hps

/-- `Holds` transfers to a file that agrees on the page span -/
theorem holds_frame (f f' : File) (ps : Nat) (hps : 0 < ps) (n : N) (pg fl : Nat)
    (L : List (Nat × Nat × Nat)) (hm : (pg, ovfOf ps n, fl) ∈ L)
    (h : ∀ i, InL ps L i → f'.get i = f.get i)
    (hh : Holds f (pg * ps) (imageOf ps n)) : Holds f' (pg * ps) (imageOf ps n) := by
  intro i hi
  rw [← hh i hi]
  apply h
  refine ⟨_, hm, Nat.le_add_right _ _, ?_⟩
  have := imageOf_le_span ps hps n
  show pg * ps + i < (pg + ovfOf ps n + 1) * ps
  rw [Nat.add_assoc, Nat.add_mul]
  omega

mutual
theorem laid_frame_node (f f' : File) (ps : Nat) (hps : 0 < ps) :
    ∀ (t : N) (L : List (Nat × Nat × Nat)), (∀ p ∈ pagesOf ps t, p ∈ L) →
    (∀ i, InL ps L i → f'.get i = f.get i) → Laid f ps t → Laid f' ps t
  | .leaf h items, L, hsub, hag, hl => by
    rw [Laid] at hl ⊢
    exact holds_frame f f' ps hps _ h.pgid V2.leafPageFlag L
      (hsub _ (by rw [pagesOf]; exact List.mem_singleton.mpr rfl)) hag hl
  | .branch h kids, L, hsub, hag, hl => by
    rw [Laid] at hl ⊢
    refine ⟨holds_frame f f' ps hps _ h.pgid V2.branchPageFlag L
      (hsub _ (by rw [pagesOf]; exact List.mem_cons_self)) hag hl.1, ?_⟩
    exact laid_frame_kids f f' ps hps kids L
      (fun p hp => hsub p (by rw [pagesOf]; exact List.mem_cons_of_mem _ hp)) hag hl.2
theorem laid_frame_kids (f f' : File) (ps : Nat) (hps : 0 < ps) :
    ∀ (kids : List (Bytes × N)) (L : List (Nat × Nat × Nat)), (∀ p ∈ pagesOfKids ps kids, p ∈ L) →
    (∀ i, InL ps L i → f'.get i = f.get i) → LaidKids f ps kids → LaidKids f' ps kids
  | [], _, _, _, _ => by rw [LaidKids]; trivial
  | (s, c) :: r, L, hsub, hag, hl => by
    rw [LaidKids] at hl ⊢
    exact ⟨laid_frame_node f f' ps hps c L
        (fun p hp => hsub p (by rw [pagesOfKids]; exact List.mem_append_left _ hp)) hag hl.1,
      laid_frame_kids f f' ps hps r L
        (fun p hp => hsub p (by rw [pagesOfKids]; exact List.mem_append_right _ hp)) hag hl.2⟩
end

end Bolt.ReaderFrameL
